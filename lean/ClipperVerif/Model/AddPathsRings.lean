/-
Model of `AddPaths_` and `AddLocMin` (CPP/Clipper2Lib/src/clipper.engine.cpp:602-714): construction of the vertex
rings of a path set, the `VertexFlags`, and the list of local minima.

Rendering.  The C++ works on one array `Vertex vertices[total_vertex_count]` and the pointers `v` (next free slot),
`v0` (first vertex of the current path), `curr_v`, `prev_v`.  Here a *ring* is the list of the vertices linked by
`next` starting at `v0` (so `next` = list successor, the last element's successor is the head; `prev` = predecessor),
a vertex is named by (path number, index in its ring) and by its slot offset `base + index` in the array.
The three `while` loops walk `next`/`prev` from `v0` until they are back at `v0`; on the list rendering they are
structural recursions over the ring (tail, resp. reversed tail), so no fuel is needed (`Props/C13AddPaths.lean`
`addPaths_no_fault` states what that buys; the *memory image* below, with explicit `next`/`prev` slot numbers, is
compared bit for bit with the real array by `harness/AddPaths.cpp`, which is what ties "list successor" to `->next`).

Statement-by-statement correspondence (line numbers of clipper.engine.cpp):
  `pushPts`   632-644  the `for (pt : path)` loop incl. `if (prev_v->pt == pt) continue`
  `addPath`   627/645  `path.empty()` / `!prev_v->prev` (a single distinct vertex): `continue` *without* `v = curr_v`
              646-649  drop an explicit closing vertex (closed paths), link the ring
              651      `cnt < 2 || (cnt == 2 && !is_open)`: ring linked, no minima   (NB `cnt` counts a dropped closing vertex)
  `openStart` 657-667  `closedStart` 671-676   `scan` 682-696   `openEnd`/`closedEnd` 698-710
  `addLocMin` 602-610  incl. the "only once" guard
  `addPaths`  615-619, 622, 650, 713
Theorems: Props/C13AddPaths.lean (ring = cyclic de-duplication, duplicate/closing-vertex/rotation invariance, meaning of the
flags, alternation, sorted minima independent of path order, index safety); the two-vertex-ring quirk of line 651 is proved
there as a witness (`closing_two_vertex_quirk`).
Core Lean only.
-/
import ClipperVerif.Spec.Basic
import ClipperVerif.Model.History
namespace Clipper.Model.AddPathsRings
open Clipper

/-- `VertexFlags` (OpenStart = 1, OpenEnd = 2, LocalMax = 4, LocalMin = 8) as its four bits -/
structure VFlags where
  openStart : Bool := false
  openEnd : Bool := false
  localMax : Bool := false
  localMin : Bool := false
  deriving DecidableEq, Repr, Inhabited

/-- the `uint32_t` value -/
def VFlags.bits (f : VFlags) : Nat :=
  (if f.openStart then 1 else 0) + (if f.openEnd then 2 else 0) + (if f.localMax then 4 else 0) + (if f.localMin then 8 else 0)

/-- `VertexFlags::Empty` -/
def VFlags.empty : VFlags := {}

/-- the `for (const Point64& pt : path)` loop (632-644): `last` is `prev_v->pt` (`none` = `prev_v == nullptr`);
returns the points written to consecutive slots. -/
def pushPts : Option Pt → List Pt → List Pt
  | _, [] => []
  | none, p :: ps => p :: pushPts (some p) ps
  | some q, p :: ps => if q = p then pushPts (some q) ps else p :: pushPts (some p) ps

/-- the first vertex met whose `y` differs from `y0` (the two `while (… && ….pt.y == v0->pt.y)` walks; `none` = the
walk came back to `v0`) -/
def firstDiffY (y0 : Int) : List Pt → Option Pt
  | [] => none
  | p :: ps => if p.y = y0 then firstDiffY y0 ps else some p

/-- `AddLocMin` (602-610) on the flags of the vertex: new flags, and whether a `LocalMinima` was appended -/
def addLocMin (f : VFlags) : VFlags × Bool :=
  if f.localMin then (f, false) else ({ f with localMin := true }, true)

/-- result of the scan over one ring -/
structure ScanOut where
  flags : List VFlags      -- final flags of the vertices that have been `prev_v` and were left behind
  minima : List Nat        -- ring indices for which `AddLocMin` appended, in order
  goingUp : Bool           -- `going_up` on loop exit
  lastFlags : VFlags       -- flags of `prev_v` on loop exit
  lastIdx : Nat            -- its ring index
  deriving DecidableEq, Repr

/-- the main loop 682-696.  `prev`/`pf`/`i` = point, current flags and ring index of `prev_v`; the list is what remains
to be visited by `curr_v` before it is back at `v0`.  Every vertex that becomes `prev_v` other than `v0` still carries the
`VertexFlags::Empty` written by the point loop. -/
def scan (goingUp : Bool) (prev : Pt) (pf : VFlags) (i : Nat) : List Pt → ScanOut
  | [] => { flags := [], minima := [], goingUp := goingUp, lastFlags := pf, lastIdx := i }
  | c :: cs =>
    if c.y > prev.y && goingUp then
      let r := scan false c VFlags.empty (i + 1) cs
      { r with flags := { pf with localMax := true } :: r.flags }
    else if c.y < prev.y && !goingUp then
      let a := addLocMin pf
      let r := scan true c VFlags.empty (i + 1) cs
      { r with flags := a.1 :: r.flags, minima := (if a.2 then [i] else []) ++ r.minima }
    else
      let r := scan goingUp c VFlags.empty (i + 1) cs
      { r with flags := pf :: r.flags }

/-- what one path leaves behind -/
structure PathOut where
  cnt : Nat := 0                 -- `cnt`: slots written from `v0` on
  pts : List Pt := []            -- the ring (`[]`: nothing was linked, `v` did not advance)
  flags : List VFlags := []      -- flags of the ring's vertices
  minima : List Nat := []        -- ring indices handed to `AddLocMin` that were appended, in order
  deriving DecidableEq, Repr

/-- the ring with its flags -/
def PathOut.ring (o : PathOut) : List (Pt × VFlags) := o.pts.zip o.flags

/-- slots by which `v` advances (650: `v = curr_v`, not reached when fewer than two vertices were written) -/
def PathOut.used (o : PathOut) : Nat := if o.pts.isEmpty then 0 else o.cnt

/-- 646-647: the ring of a path whose written vertices are `vs` (at least two) -/
def ringOf (isOpen : Bool) (vs : List Pt) : List Pt :=
  if !isOpen && vs.getLast? == vs.head? then vs.dropLast else vs

/-- 655-668: open path, `v0` and the ring after it: initial `going_up`, flags of `v0`, minima appended -/
def openStart (v0 : Pt) (tl : List Pt) : Bool × VFlags × List Nat :=
  let goingUp := match firstDiffY v0.y tl with
    | none => true                        -- `curr_v == v0`: `v0->pt.y <= v0->pt.y`
    | some c => decide (c.y ≤ v0.y)
  if goingUp then
    let a := addLocMin { openStart := true }
    (true, a.1, if a.2 then [0] else [])
  else (false, { openStart := true, localMax := true }, [])

/-- 669-677: closed path: `none` = completely flat (`continue`), else initial `going_up` -/
def closedStart (v0 : Pt) (tl : List Pt) : Option Bool :=
  match firstDiffY v0.y tl.reverse with
  | none => none
  | some p => some (decide (p.y > v0.y))

/-- 698-705 -/
def openEnd (s : ScanOut) : VFlags × List Nat :=
  let f := { s.lastFlags with openEnd := true }
  if s.goingUp then ({ f with localMax := true }, [])
  else let a := addLocMin f; (a.1, if a.2 then [s.lastIdx] else [])

/-- 706-710 -/
def closedEnd (goingUp0 : Bool) (s : ScanOut) : VFlags × List Nat :=
  if s.goingUp != goingUp0 then
    if goingUp0 then let a := addLocMin s.lastFlags; (a.1, if a.2 then [s.lastIdx] else [])
    else ({ s.lastFlags with localMax := true }, [])
  else (s.lastFlags, [])

/-- 653-710 for a linked ring `v0 :: tl` (`cnt` large enough) -/
def findMinima (isOpen : Bool) (v0 : Pt) (tl : List Pt) : List VFlags × List Nat :=
  if isOpen then
    let (g, f0, m0) := openStart v0 tl
    let s := scan g v0 f0 0 tl
    let e := openEnd s
    (s.flags ++ [e.1], m0 ++ s.minima ++ e.2)
  else
    match closedStart v0 tl with
    | none => ((v0 :: tl).map (fun _ => VFlags.empty), [])
    | some g0 =>
      let s := scan g0 v0 VFlags.empty 0 tl
      let e := closedEnd g0 s
      (s.flags ++ [e.1], s.minima ++ e.2)

/-- the body of `for (const Path64& path : paths)` (623-711) -/
def addPath (isOpen : Bool) (path : List Pt) : PathOut :=
  match pushPts none path with
  | [] => {}                                     -- 627 `path.empty()`
  | [_] => { cnt := 1 }                          -- 645 `!prev_v->prev`
  | v0 :: v1 :: rest =>
    let vs := v0 :: v1 :: rest
    let cnt := vs.length
    match ringOf isOpen vs with
    | [] => { cnt := cnt }                       -- unreachable (`ringOf_ne_nil`)
    | r0 :: rtl =>
      if cnt < 2 || (cnt == 2 && !isOpen) then   -- 651
        { cnt := cnt, pts := r0 :: rtl, flags := (r0 :: rtl).map (fun _ => VFlags.empty) }
      else
        let (fl, ms) := findMinima isOpen r0 rtl
        { cnt := cnt, pts := r0 :: rtl, flags := fl, minima := ms }

/-- `LocalMinima` plus where its vertex lives -/
structure LocMin where
  path : Nat          -- number of the path in the call
  idx : Nat           -- index of the vertex in that path's ring
  slot : Nat          -- `vertex - vertices`
  pt : Pt             -- `vertex->pt`
  polytype : PathType
  isOpen : Bool
  deriving DecidableEq, Repr

/-- minima of one path as `LocalMinima` -/
def locMinsOf (polytype : PathType) (isOpen : Bool) (pathNo base : Nat) (o : PathOut) : List LocMin :=
  o.minima.filterMap (fun i => (o.pts[i]?).map (fun p => ⟨pathNo, i, base + i, p, polytype, isOpen⟩))

/-- what the loop body did for path number `no`, entered with `v - vertices = base` -/
structure PathRec where
  no : Nat
  base : Nat
  out : PathOut
  minima : List LocMin
  deriving DecidableEq, Repr

/-- the loop over the paths: `pathNo` counts paths, `base` is `v - vertices` -/
def addPathsFrom (polytype : PathType) (isOpen : Bool) : Nat → Nat → List (List Pt) → List PathRec
  | _, _, [] => []
  | pathNo, base, p :: ps =>
    let o := addPath isOpen p
    ⟨pathNo, base, o, locMinsOf polytype isOpen pathNo base o⟩ ::
      addPathsFrom polytype isOpen (pathNo + 1) (base + o.used) ps

structure Out where
  total : Nat := 0              -- `total_vertex_count`
  allocates : Bool := false     -- `vertexLists.emplace_back(vertices)` happened
  recs : List PathRec := []     -- per path
  deriving DecidableEq, Repr

/-- appended to `locMinList`, in order -/
def Out.minima (o : Out) : List LocMin := o.recs.flatMap (·.minima)

/-- `AddPaths_` -/
def addPaths (polytype : PathType) (isOpen : Bool) (paths : List (List Pt)) : Out :=
  let total := (paths.map List.length).sum
  if total = 0 then { }                       -- 619
  else { total := total, allocates := true, recs := addPathsFrom polytype isOpen 0 0 paths }

/-- the linked rings in array order -/
def Out.rings (o : Out) : List PathRec := o.recs.filter (fun r => !r.out.pts.isEmpty)

/-! ### memory image (what the array holds after the call; derived from the outputs above, validated bit for bit) -/

structure Slot where
  pt : Pt := ⟨0, 0⟩            -- `Point64()` is (0,0)
  next : Option Nat := none   -- default member initialisers of `Vertex`
  prev : Option Nat := none
  flags : Nat := 0
  deriving DecidableEq, Repr

def enum {α : Type} (l : List α) : List (Nat × α) := (List.range l.length).zip l

/-- the slots a path writes from `base` on, given the written points `vs` (= `pushPts none path`) -/
def writePath (mem : List Slot) (base : Nat) (vs : List Pt) (o : PathOut) : List Slot :=
  match vs with
  | [] => mem
  | [p] =>  -- pt, prev (nullptr), flags written; `next` untouched
    mem.modify base (fun s => { s with pt := p, prev := none, flags := 0 })
  | _ =>
    let n := o.pts.length
    (enum vs).foldl (fun m (i, p) =>
      m.modify (base + i) (fun s =>
        { pt := p,
          prev := some (if i = 0 then base + (n - 1) else base + (i - 1)),
          next := if i + 1 < n then some (base + i + 1) else if i + 1 = n then some base else s.next,
          flags := ((o.flags[i]?).map VFlags.bits).getD 0 })) mem

def image (paths : List (List Pt)) (out : Out) : List Slot :=
  ((paths.zip out.recs).foldl (fun m (p, r) => writePath m r.base (pushPts none p) r.out)
    (List.replicate out.total {}))

/-! ### bridge to the C12 history model: what `AddPaths(paths, polytype, is_open)` contributes, *computed* -/

/-- the `Added` record of `Model/History.lean` for one call; `nextVid` = number of `LocalMinima` created so far on the
object (the history model names vertices by order of creation) -/
def toAdded (polytype : PathType) (isOpen : Bool) (paths : List (List Pt)) (nextVid : Nat) : Clipper.Model.History.Added :=
  let out := addPaths polytype isOpen paths
  { isOpen := isOpen,
    minima := (enum out.minima).map (fun (j, m) => ⟨m.pt.y, m.pt.x, m.polytype, m.isOpen, nextVid + j⟩),
    allocates := out.allocates }

end Clipper.Model.AddPathsRings
