/-
Executable model of `RectClip64::ExecuteInternal` (clipper.rectclip.cpp:443-604): the location / corner automaton
that turns one closed path into the *raw result ring*, i.e. the sequence of points handed to `RectClip64::Add`
before `CheckEdges` / `TidyEdges` / `GetPath` run.

Modelled statement by statement: the start location (backward scan over boundary vertices), the main
`while (i <= highI)` loop (`GetNextLocation`, `GetIntersection`, the remaining-outside / entering / passing-right-through /
exiting branches with `first_cross_`, `crossing_loc`, `start_locs_`, both `AddCorner` overloads and the two
`do … while (prev != loc)` corner loops), and the closing logic after the loop (`Path1ContainsPath2`,
`StartLocsAreClockwise`, the final corner filling).

Reused: `getNextLocation`, `getIntersection`, `Arith`, `floatArith` (Model/RectClipLines.lean, shared with C09),
`addCorner1`, `addCorner2`, `cornerLoop`, `startLocsLoop`, `startLocsAreClockwise` (Model/RectClip.lean) and the
definitions generated from the C++ source `Gen.GetLocation`, `Gen.GetAdjacentLocation`, `Gen.HeadingClockwise`,
`Gen.AreOpposites`.  `PointInPolygon` (called by `Path1ContainsPath2`) is a parameter `pip`; the correspondence
harness instantiates it with the bit-exact `Model.pointInPolygonF` (Model/Geom.lean, property C18).

Conventions: every `Add` call is recorded with its provenance (`AKind`); a fault (`Except.error`) is an index out of
range (`path[…]`, `rect_as_path_[4]`), a `do … while (prev != loc)` loop that cannot end (target `Inside`), or fuel
exhausted in the main loop.  Core Lean only.
-/
import ClipperVerif.Model.RectClip
import ClipperVerif.Model.Geom
namespace Clipper.Model.RC
open Clipper

/-- `Rect64::MidPoint()` (C++ `/` on `int64_t` truncates towards zero) -/
def Rect.midPoint (r : Rect) : Pt := ⟨Int.tdiv (r.left + r.right) 2, Int.tdiv (r.top + r.bottom) 2⟩

/-- `IsClockwise(prev, curr, prev_pt, curr_pt, rect_mp)` -/
def isClockwise (A : Arith) (r : Rect) (prev curr : Location) (prevPt currPt : Pt) : Bool :=
  if Gen.AreOpposites prev curr then decide (A.cross prevPt r.midPoint currPt < 0)
  else Gen.HeadingClockwise prev curr

/-- the loop of `Path1ContainsPath2(path1, path2)` over the points of `path2`, `io_count` threaded;
`none`: `PointInPolygon` faulted -/
def p1c2Loop (pip : Pt → Path → Option PipResult) (path1 : Path) : List Pt → Int → Option Int
  | [], c => some c
  | q :: rest, c =>
    match pip q path1 with
    | none => none
    | some .isOutside => if (c + 1).natAbs > 1 then some (c + 1) else p1c2Loop pip path1 rest (c + 1)
    | some .isInside => if (c - 1).natAbs > 1 then some (c - 1) else p1c2Loop pip path1 rest (c - 1)
    | some .isOn => p1c2Loop pip path1 rest c

/-- `Path1ContainsPath2(path1, path2)` -/
def path1ContainsPath2 (pip : Pt → Path → Option PipResult) (path1 path2 : Path) : Option Bool :=
  (p1c2Loop pip path1 path2 0).map (fun c => decide (c ≤ 0))

/-- where a point passed to `Add` comes from -/
inductive AKind
  /-- input vertex `path[k]`, found in the closed rectangle by `GetNextLocation` (or by the all-on-boundary shortcut) -/
  | vertex
  /-- a rectangle corner (`AddCorner`, or the final `Add(rect_as_path_[k])`) -/
  | corner
  /-- `ip` of a successful `GetIntersection` for the segment ending at `path[k]` -/
  | cross
  /-- `ip2` of the passing-right-through branch; the flag records whether the second `GetIntersection` call,
  whose result the C++ ignores, returned true -/
  | thru1 (found : Bool)
  deriving DecidableEq, Repr

/-- one call of `Add(pt)` made by `RectClip64::ExecuteInternal` -/
structure AEmit where
  k : Nat
  pt : Pt
  kind : AKind
  deriving DecidableEq, Repr

def vtxEmits (l : List (Nat × Pt)) : List AEmit := l.map (fun kp => ⟨kp.1, kp.2, .vertex⟩)
def cornerEmits (k : Nat) (l : List Pt) : List AEmit := l.map (fun p => ⟨k, p, .corner⟩)

inductive Fault
  /-- `path[i]` read out of range -/
  | path
  /-- `rect_as_path_[4]` read, or a `do … while (prev != loc)` corner loop whose target is `Inside` -/
  | corner
  /-- `PointInPolygon` faulted -/
  | pip
  /-- the main loop did not finish within its fuel -/
  | fuel
  deriving DecidableEq, Repr

/-- the locals of `ExecuteInternal` that survive an iteration of the main loop -/
structure Ctl where
  i : Nat
  loc : Location
  crossingLoc : Location
  firstCross : Location
  deriving DecidableEq, Repr

/-- outcome of one iteration of the main loop -/
inductive AStep
  /-- `if (i > highI) break;` after these `Add` calls; `loc` as `GetNextLocation` left it -/
  | done (es : List AEmit) (loc : Location)
  /-- these `Add` calls and `start_locs_.emplace_back`s, then the next iteration -/
  | next (es : List AEmit) (sl : List Location) (c : Ctl)
  | fault (f : Fault)

/-- `(i) ? path[i - 1] : path[highI]` -/
def prevPt (path : Path) (i : Nat) : Option Pt :=
  if i = 0 then path[path.length - 1]? else path[i - 1]?

/-- the branch `if (!GetIntersection(…)) { … ++i; continue; }` ("remaining outside") -/
def stepOutside (A : Arith) (r : Rect) (c : Ctl) (loc : Location) (i : Nat) (adds : List AEmit)
    (cur prv : Pt) : AStep :=
  let prev := c.loc
  if c.crossingLoc = .inside then
    -- do { start_locs_.emplace_back(prev); prev = GetAdjacentLocation(prev, isClockw); } while (prev != loc);
    -- crossing_loc = crossing_prev;
    match startLocsLoop loc (isClockwise A r prev loc prv cur) 4 prev with
    | none => .fault .corner
    | some sl => .next adds sl ⟨i + 1, loc, c.crossingLoc, c.firstCross⟩
  else if prev ≠ .inside ∧ prev ≠ loc then
    -- do { AddCorner(prev, isClockw); } while (prev != loc);
    match cornerLoop r loc (isClockwise A r prev loc prv cur) 4 prev with
    | none => .fault .corner
    | some pts => .next (adds ++ cornerEmits i pts) [] ⟨i + 1, loc, loc, c.firstCross⟩
  else .next adds [] ⟨i + 1, loc, loc, c.firstCross⟩

/-- the branch `if (loc == Location::Inside)` ("path must be entering rect"); `cl`, `ip` are `crossing_loc`, `ip` -/
def stepEnter (A : Arith) (r : Rect) (c : Ctl) (i : Nat) (adds : List AEmit) (cur prv : Pt)
    (cl : Location) (ip : Pt) : AStep :=
  let prev := c.loc
  if c.firstCross = .inside then
    .next (adds ++ [⟨i, ip, .cross⟩]) [prev] ⟨i, .inside, cl, cl⟩
  else if prev ≠ cl then
    match cornerLoop r cl (isClockwise A r prev cl prv cur) 4 prev with
    | none => .fault .corner
    | some pts => .next (adds ++ cornerEmits i pts ++ [⟨i, ip, .cross⟩]) [] ⟨i, .inside, cl, c.firstCross⟩
  else .next (adds ++ [⟨i, ip, .cross⟩]) [] ⟨i, .inside, cl, c.firstCross⟩

/-- the branch `else if (prev != Location::Inside)` ("passing right through rect") -/
def stepThrough (A : Arith) (r : Rect) (c : Ctl) (i : Nat) (adds : List AEmit) (cur prv : Pt)
    (cl : Location) (ip : Pt) : AStep :=
  let prev := c.loc
  -- loc = prev; GetIntersection(rect_as_path_, prev_pt, path[i], loc, ip2);
  let y := getIntersection A r prv cur prev ⟨0, 0⟩
  let loc2 := y.2.1
  let ip2 := y.2.2
  -- if (crossing_prev != Inside && crossing_prev != loc) AddCorner(crossing_prev, loc);
  let c1 : Option (List Pt) :=
    if c.crossingLoc ≠ .inside ∧ c.crossingLoc ≠ loc2 then (addCorner1 r c.crossingLoc loc2).map (fun p => [p])
    else some []
  match c1 with
  | none => .fault .corner
  | some c1 =>
    -- if (first_cross_ == Inside) { first_cross_ = loc; start_locs_.emplace_back(prev); }
    let fc := if c.firstCross = .inside then loc2 else c.firstCross
    let sl := if c.firstCross = .inside then [prev] else []
    -- loc = crossing_loc; Add(ip2);
    if ip = ip2 then
      -- GetLocation(rect_, path[i], loc); AddCorner(crossing_loc, loc); crossing_loc = loc; continue;
      let loc3 := (getLocation r cur cl).2
      match addCorner1 r cl loc3 with
      | none => .fault .corner
      | some p =>
        .next (adds ++ cornerEmits i c1 ++ [⟨i, ip2, .thru1 y.1⟩, ⟨i, p, .corner⟩]) sl ⟨i, loc3, loc3, fc⟩
    else
      .next (adds ++ cornerEmits i c1 ++ [⟨i, ip2, .thru1 y.1⟩, ⟨i, ip, .cross⟩]) sl ⟨i, cl, cl, fc⟩

/-- the branch `else` ("path must be exiting rect") -/
def stepExit (c : Ctl) (i : Nat) (adds : List AEmit) (cl : Location) (ip : Pt) : AStep :=
  .next (adds ++ [⟨i, ip, .cross⟩]) [] ⟨i, cl, cl, if c.firstCross = .inside then cl else c.firstCross⟩

/-- One iteration of the `while (i <= highI)` loop of `RectClip64::ExecuteInternal` (entered with `c.i ≤ highI`). -/
def astep (A : Arith) (r : Rect) (path : Path) (c : Ctl) : AStep :=
  -- prev = loc; crossing_prev = crossing_loc; GetNextLocation(path, loc, i, highI);
  let g := getNextLocation r path c.loc c.i
  let loc := g.1
  let i := g.2.1
  let adds := vtxEmits g.2.2
  if i < path.length then
    match path[i]?, prevPt path i with
    | some cur, some prv =>
      -- crossing_loc = loc; GetIntersection(rect_as_path_, path[i], prev_pt, crossing_loc, ip)
      let x := getIntersection A r cur prv loc ⟨0, 0⟩
      if !x.1 then stepOutside A r c loc i adds cur prv
      else if loc = .inside then stepEnter A r c i adds cur prv x.2.1 x.2.2
      else if c.loc ≠ .inside then stepThrough A r c i adds cur prv x.2.1 x.2.2
      else stepExit c i adds x.2.1 x.2.2
    | _, _ => .fault .path
  else .done adds loc

/-- what the main loop leaves behind -/
structure LoopOut where
  es : List AEmit
  startLocs : List Location
  loc : Location
  firstCross : Location
  deriving DecidableEq, Repr

/-- The main `while (i <= highI)` loop; one unit of fuel per iteration. -/
def aloop (A : Arith) (r : Rect) (path : Path) : Nat → Ctl → Except Fault LoopOut
  | 0, _ => .error .fuel
  | fuel + 1, c =>
    if c.i < path.length then
      match astep A r path c with
      | .done es loc => .ok ⟨es, [], loc, c.firstCross⟩
      | .next es sl c' =>
        match aloop A r path fuel c' with
        | .ok o => .ok ⟨es ++ o.es, sl ++ o.startLocs, o.loc, o.firstCross⟩
        | .error f => .error f
      | .fault f => .error f
    else .ok ⟨[], [], c.loc, c.firstCross⟩

/-- `for (auto loc2 : start_locs_) { if (prev == loc2) continue; AddCorner(prev, HeadingClockwise(prev, loc2)); prev = loc2; }`
returns the corners added and the final `prev`; `none`: `rect_as_path_` indexed out of range -/
def finalCorners (r : Rect) : Location → List Location → Option (List Pt × Location)
  | prev, [] => some ([], prev)
  | prev, loc2 :: rest =>
    if prev = loc2 then finalCorners r prev rest
    else match (addCorner2 r prev (Gen.HeadingClockwise prev loc2)).1 with
      | none => none
      | some p => (finalCorners r loc2 rest).map (fun x => (p :: x.1, x.2))

/-- The closing logic after the main loop (clipper.rectclip.cpp:564-603): the `Add` calls it makes. -/
def afinish (pip : Pt → Path → Option PipResult) (r : Rect) (path : Path) (startingLoc : Location)
    (o : LoopOut) : Except Fault (List AEmit) :=
  let n := path.length
  if o.firstCross = .inside then
    -- path never intersects
    if startingLoc ≠ .inside then
      if (getBounds path).containsRect r then
        match path1ContainsPath2 pip path r.asPath with
        | none => .error .pip
        | some true =>
          .ok (cornerEmits n (if startLocsAreClockwise o.startLocs then r.asPath else r.asPath.reverse))
        | some false => .ok []
      else .ok []
    else .ok []
  else if o.loc ≠ .inside ∧ (o.loc ≠ o.firstCross ∨ o.startLocs.length > 2) then
    match (if o.startLocs.length > 0 then finalCorners r o.loc o.startLocs else some ([], o.loc)) with
    | none => .error .corner
    | some (cs, loc) =>
      if loc ≠ o.firstCross then
        match (addCorner2 r loc (Gen.HeadingClockwise loc o.firstCross)).1 with
        | none => .error .corner
        | some p => .ok (cornerEmits n (cs ++ [p]))
      else .ok (cornerEmits n cs)
  else .ok []

/-- The start of `ExecuteInternal` up to `starting_loc`: `Sum.inl` = "all of path must be inside fRect" (every vertex
on the boundary: the path is added as it is and the function returns), `Sum.inr loc` = the starting location. -/
def startLoc (r : Rect) (path : Path) (last : Pt) : List AEmit ⊕ Location :=
  let g := getLocation r last
  if !g.1 then
    -- i = highI; while (i > 0 && !GetLocation(rect_, path[i - 1], prev)) --i;
    match path.dropLast.reverse.find? (fun p => (getLocation r p).1) with
    | none => .inl (vtxEmits (indexFrom 0 path))
    | some q => .inr (if (getLocation r q).2 = .inside then .inside else g.2)
  else .inr g.2

/-- everything observable of one `ExecuteInternal(path)` call on a fresh `RectClip64` whose `path_bounds_` is
`GetBounds(path)` (as `Execute` sets it): the `Add` calls in order, `start_locs_`, and the final values of the locals -/
structure AResult where
  es : List AEmit
  startLocs : List Location
  startingLoc : Location
  loc : Location
  firstCross : Location
  deriving DecidableEq, Repr

/-- iterations granted to the main loop: theorem `executeInternal_total` shows they suffice -/
def afuel (path : Path) : Nat := 2 * path.length + 2

/-- `RectClip64::ExecuteInternal(path)` -/
def executeInternalA (A : Arith) (pip : Pt → Path → Option PipResult) (r : Rect) (path : Path) :
    Except Fault AResult :=
  match path.getLast? with
  | none => .ok ⟨[], [], .inside, .inside, .inside⟩           -- if (path.size() < 1) return;
  | some last =>
    match startLoc r path last with
    | .inl es => .ok ⟨es, [], .inside, .inside, .inside⟩
    | .inr loc0 =>
      match aloop A r path (afuel path) ⟨0, loc0, .inside, .inside⟩ with
      | .error f => .error f
      | .ok o =>
        match afinish pip r path loc0 o with
        | .error f => .error f
        | .ok fin => .ok ⟨o.es ++ fin, o.startLocs, loc0, o.loc, o.firstCross⟩

/-- `RectClip64::Add(pt)` (never `start_new` in `RectClip64::ExecuteInternal`) on the single ring `results_[0]`,
most recent point first: a point equal to the most recent one is not added again. -/
def addRing : List Pt → Pt → List Pt
  | [], pt => [pt]
  | last :: tl, pt => if last = pt then last :: tl else pt :: last :: tl

/-- the ring `results_[0]` after all `Add` calls, in the order they were added -/
def ringOf (es : List AEmit) : List Pt := ((es.map (·.pt)).foldl addRing []).reverse

/-- the ring as the harness reads it: from `results_[0]` (the most recent point) following `next`
(which leads to the oldest point and on in order of addition) -/
def ringFromHead (es : List AEmit) : List Pt :=
  match (es.map (·.pt)).foldl addRing [] with
  | [] => []
  | last :: tl => last :: tl.reverse

/-! ### the hypotheses of the termination theorem, decided along a run -/

/-- `path[i]` is consumed by a `GetNextLocation` call started from `loc` -/
def readyB (r : Rect) : Location → Pt → Bool
  | .left, q => decide (q.x ≤ r.left)
  | .top, q => decide (q.y ≤ r.top)
  | .right, q => decide (q.x ≥ r.right)
  | .bottom, q => decide (q.y ≥ r.bottom)
  | .inside, q => (outsideLoc r q).isNone

/-- Boolean form of `Lemmas.RCA.StepFine` for the iteration started in `c`: no missed crossing (a failed
`GetIntersection` has neither end classified `Inside`), and a crossing found on an iteration that does not advance `i`
leaves a location from which the next `GetNextLocation` call advances. -/
def stepFineB (A : Arith) (r : Rect) (path : Path) (c : Ctl) : Bool :=
  let g := getNextLocation r path c.loc c.i
  match path[g.2.1]?, prevPt path g.2.1 with
  | some cur, some prv =>
    let x := getIntersection A r cur prv g.1 ⟨0, 0⟩
    if !x.1 then decide (g.1 ≠ .inside) && decide (c.loc ≠ .inside)
    else if g.1 ≠ .inside ∧ g.2.1 = c.i ∧
        (c.loc = .inside ∨ x.2.2 ≠ (getIntersection A r prv cur c.loc ⟨0, 0⟩).2.2) then readyB r x.2.1 cur
    else true
  | _, _ => true

/-- `stepFineB` in every state of the run -/
def fineLoop (A : Arith) (r : Rect) (path : Path) : Nat → Ctl → Bool
  | 0, _ => false
  | fuel + 1, c =>
    if c.i < path.length then
      stepFineB A r path c &&
        (match astep A r path c with
         | .next _ _ c' => fineLoop A r path fuel c'
         | .done _ _ => true
         | .fault _ => false)
    else true

/-- decides the hypothesis `RunFine` of `executeInternal_total` for one input (sound: `runFineB_sound`) -/
def runFineB (A : Arith) (r : Rect) (path : Path) : Bool :=
  match path.getLast? with
  | none => true
  | some last =>
    match startLoc r path last with
    | .inl _ => true
    | .inr loc0 => fineLoop A r path (afuel path) ⟨0, loc0, .inside, .inside⟩

/-! ### bit-exact instance -/

def pipFloat (p : Pt) (poly : Path) : Option PipResult := Clipper.Model.pointInPolygonF p poly

def executeInternalF (r : Rect) (path : Path) : Except Fault AResult :=
  executeInternalA floatArith pipFloat r path

end Clipper.Model.RC
