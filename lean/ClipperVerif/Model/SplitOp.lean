/-
Model of `ClipperBase::FixSelfIntersects` and `ClipperBase::DoSplitOp` (clipper.engine.cpp:1566-1685, Clipper2 1.5.2)
with the helpers they use: `SegmentsIntersect` (non-inclusive variant, clipper.core.h:1033-1038), `Area(OutPt*)`,
`AreaTriangle`, `DuplicateOp(op, false)`, `NewOutRec` for the split-off ring (property C03).

Representation (as in `Model/CleanUp.lean`): a circular `OutPt` ring is a `List Pt` in `next` order.  Inside the loop
of `FixSelfIntersects` the head of the list is the node `op2` points to, and `pts : Nat` is the number of `next` steps
from `op2` to `outrec->pts`.  The value returned is the ring seen from `outrec->pts`.

Numeric primitives are parameters so that the same control flow is instantiated twice:
* `cs p1 p2 p3`   = `GetSign(CrossProduct(p1, p2, p3))` — `csX` exact integers (theorems), `csF` the double expression;
* `isect a b c d` = the point `ip` after `GetSegmentIntersectPt(a, b, c, d, ip)` (and, in a USINGZ build, after
  `zCallback_`, which receives `ip` by reference) — arbitrary in the theorems, `isectF` = the compiled arithmetic;
* `adec ring ip s sn` = the three-way decision `DoSplitOp` takes from `area1 = Area(outrec->pts)` and
  `area2 = AreaTriangle(ip, splitOp->pt, splitOp->next->pt)` — `adecX` exact integers, `adecF` doubles.
For |coordinates| ≤ 2^25 every cross product is computed exactly by the C++ (all intermediates are integers below
2^53), so `csF = csX` there, and for |coordinates| ≤ 2^20 and rings of at most 1024 nodes the same holds for the two
area functions; the driver answers with the double instantiation and, on every record within these bounds, also
evaluates the exact one and reports a disagreement.

Not modelled (do not touch any `OutPt`): `newOr->owner = outrec->owner`, and in polytree mode the
`Path1InsidePath2` test that decides which of the two outrecs is pushed on the other's `splits` list.
Core Lean only.
-/
import ClipperVerif.Model.CleanUp
import ClipperVerif.Model.Geom
namespace Clipper.Model.SplitOp
open Clipper Clipper.Model Clipper.Model.CleanUp

/-! ## numeric primitives -/

/-- `GetSign(CrossProduct(p1, p2, p3))` with the double arithmetic replaced by exact integers -/
def csX (p1 p2 p3 : Pt) : Int := Int.sign (crossProduct p1 p2 p3)

/-- `GetSign(CrossProduct(p1, p2, p3))` as compiled: int64 differences converted to double, two rounded products,
one rounded subtraction; `GetSign(v) = if (!v) 0 else (v > 0) ? 1 : -1`. -/
def csF (p1 p2 p3 : Pt) : Int :=
  let d := i64f (p2.x - p1.x) * i64f (p3.y - p2.y) - i64f (p2.y - p1.y) * i64f (p3.x - p2.x)
  if d == 0 then 0 else if d > 0 then 1 else -1

/-- `SegmentsIntersect(seg1a, seg1b, seg2a, seg2b, inclusive = false)` -/
def segsInt (cs : Pt → Pt → Pt → Int) (a b c d : Pt) : Bool :=
  decide (cs a c d * cs b c d < 0) && decide (cs c a b * cs d a b < 0)

/-- `Point64 ip; GetSegmentIntersectPt(a, b, c, d, ip);` — the return value is ignored by `DoSplitOp`; when the
function returns false `ip` keeps the value of the default constructor, (0,0).  Non-HI_PRECISION build. -/
def isectF (a b c d : Pt) : Pt := (gsipF a b c d).getD ⟨0, 0⟩

/-- the same for a `-DCLIPPER2_HI_PRECISION=1` build -/
def isectHiF (a b c d : Pt) : Pt := (gsipHiF a b c d).getD ⟨0, 0⟩

/-- the cyclic predecessor/current pairs `(op2->prev->pt, op2->pt)` in the order `Area(op)` visits them,
for the ring seen from `op` -/
def prevPairs : Ring → List (Pt × Pt)
  | [] => []
  | a :: rest => ((a :: rest).getLast (List.cons_ne_nil _ _) :: (a :: rest).dropLast).zip (a :: rest)

/-- `2 * Area(op)` in exact integers: the sum of `(prev.y + cur.y) * (prev.x - cur.x)` -/
def area2X (r : Ring) : Int := ((prevPairs r).map (fun e => (e.1.y + e.2.y) * (e.1.x - e.2.x))).sum

/-- `Area(op)` as compiled: `result += double(prev.y + cur.y) * double(prev.x - cur.x)` from `op` on, then `* 0.5` -/
def areaF (r : Ring) : Float :=
  ((prevPairs r).foldl (fun acc e => acc + i64f (e.1.y + e.2.y) * i64f (e.1.x - e.2.x)) 0.0) * 0.5

/-- `AreaTriangle(pt1, pt2, pt3)` in exact integers (the C++ has no `* 0.5`: this is twice the signed area) -/
def areaTriX (p1 p2 p3 : Pt) : Int :=
  (p3.y + p1.y) * (p3.x - p1.x) + (p1.y + p2.y) * (p1.x - p2.x) + (p2.y + p3.y) * (p2.x - p3.x)

/-- `AreaTriangle(pt1, pt2, pt3)` as compiled -/
def areaTriF (p1 p2 p3 : Pt) : Float :=
  (i64f (p3.y + p1.y) * i64f (p3.x - p1.x) + i64f (p1.y + p2.y) * i64f (p1.x - p2.x)) +
    i64f (p2.y + p3.y) * i64f (p2.x - p3.x)

/-- what `DoSplitOp` does after computing the two areas -/
inductive AreaDec
  | dispose   -- `absArea1 < 2`: `DisposeOutPts(outrec); return;`
  | newRing   -- `absArea2 >= 1 && (absArea2 > absArea1 || (area2 > 0) == (area1 > 0))`: the triangle becomes a new outrec
  | delete    -- otherwise: `delete splitOp->next; delete splitOp;`
  deriving DecidableEq, Repr

/-- the decision in exact arithmetic.  `A1 = 2·area1`, `A2 = area2` (the C++ `AreaTriangle` is already doubled):
`|area1| < 2 ⇔ |A1| < 4`, `|area2| ≥ 1 ⇔ |A2| ≥ 1`, `|area2| > |area1| ⇔ 2·|A2| > |A1|`. -/
def adecX (ring : Ring) (ip s sn : Pt) : AreaDec :=
  let A1 := area2X ring
  let A2 := areaTriX ip s sn
  if A1.natAbs < 4 then .dispose
  else if A2.natAbs ≥ 1 ∧ (2 * A2.natAbs > A1.natAbs ∨ (decide (A2 > 0) == decide (A1 > 0))) then .newRing
  else .delete

/-- the decision as compiled (doubles) -/
def adecF (ring : Ring) (ip s sn : Pt) : AreaDec :=
  let area1 := areaF ring
  let absArea1 := area1.abs
  if absArea1 < 2 then .dispose
  else
    let area2 := areaTriF ip s sn
    let absArea2 := area2.abs
    if absArea2 >= 1 && (absArea2 > absArea1 || ((area2 > 0) == (area1 > 0))) then .newRing else .delete

/-! ## DoSplitOp -/

/-- result of `DoSplitOp(outrec, splitOp)`: `main` = the outrec's ring afterwards seen from `outrec->pts = prevOp`
(`none` = `DisposeOutPts`), `split` = the ring of the new outrec seen from `newOr->pts` (the new `OutPt(ip)`, whose
`next` is `splitOp`), if one was created -/
structure SplitRes where
  main : Option Ring
  split : Option Ring
  deriving DecidableEq, Repr

/-- `DoSplitOp(outrec, splitOp)` for the ring seen from `splitOp`: `r = splitOp :: splitOp->next :: nextNextOp :: … :: [prevOp]`.
`none` = the ring has fewer than four nodes (`prevOp`, `splitOp`, `splitOp->next`, `nextNextOp` not distinct nodes);
`FixSelfIntersects` never calls it then (`Props.C03Split.fixSelfIntersects_no_fault`). -/
def doSplitOp (isect : Pt → Pt → Pt → Pt → Pt) (adec : Ring → Pt → Pt → Pt → AreaDec) : Ring → Option SplitRes
  | s :: sn :: nn :: d :: rest =>
    let prevOp := (d :: rest).getLast (List.cons_ne_nil _ _)
    -- the nodes from nextNextOp up to (excluding) prevOp
    let mid := nn :: (d :: rest).dropLast
    -- outrec->pts = prevOp;  GetSegmentIntersectPt(prevOp->pt, splitOp->pt, splitOp->next->pt, nextNextOp->pt, ip)
    let ip := isect prevOp s sn nn
    -- area1 = Area(outrec->pts) on the ring before it is changed, area2 = AreaTriangle(ip, splitOp->pt, splitOp->next->pt)
    let dec := adec (prevOp :: s :: sn :: mid) ip s sn
    if dec = .dispose then some ⟨none, none⟩
    else
      -- if (ip == prevOp->pt || ip == nextNextOp->pt) link prevOp to nextNextOp, else insert a new OutPt(ip) between them
      let main := if ip = prevOp ∨ ip = nn then prevOp :: mid else prevOp :: ip :: mid
      some ⟨some main, if dec = .newRing then some [ip, s, sn] else none⟩
  | _ => none

/-! ## FixSelfIntersects -/

/-- `(op2->prev->pt, op2->pt, op2->next->pt, op2->next->next->pt, op2->next->next->next->pt)` for the ring seen from
`op2`; the short cases spell out the aliasing of a ring of one, two or three nodes. -/
def view : Ring → Option (Pt × Pt × Pt × Pt × Pt)
  | [] => none
  | [a] => some (a, a, a, a, a)
  | [a, b] => some (b, a, b, a, b)
  | [a, b, c] => some (c, a, b, c, a)
  | a :: b :: c :: d :: rest => some ((d :: rest).getLast (List.cons_ne_nil _ _), a, b, c, d)

/-- the ring seen from `op2->next` -/
def rot1 : Ring → Ring
  | [] => []
  | a :: rest => rest ++ [a]

inductive FsiRes
  | outOfFuel (dups : Nat)   -- the model's fuel ran out after `dups` executions of the `DuplicateOp` branch
  | fault                    -- null ring, or `DoSplitOp` on a ring of fewer than four nodes (never: `fixSelfIntersects_no_fault`)
  | done (main : Option Ring) (splits : List Ring) (dups : Nat)
      -- `main` = the outrec's ring seen from `outrec->pts` (`none` = disposed), `splits` = the rings of the outrecs
      -- appended to `outrec_list_`, in order, each seen from its `pts`; `dups` counts the `DuplicateOp` branch
  deriving DecidableEq, Repr

/-- The `for (;;)` loop of `FixSelfIntersects`; one unit of fuel per iteration.
`r` = ring seen from `op2`, `pts` = distance from `op2` to `outrec->pts`, `acc` = rings split off so far,
`k` = number of `DuplicateOp` executions so far. -/
def fsiLoop (cs : Pt → Pt → Pt → Int) (isect : Pt → Pt → Pt → Pt → Pt) (adec : Ring → Pt → Pt → Pt → AreaDec) :
    Nat → Ring → Nat → List Ring → Nat → FsiRes
  | 0, _, _, _, k => .outOfFuel k
  | fuel + 1, r, pts, acc, k =>
    match view r with
    | none => .fault
    | some (pv, o, nx, nn, nnn) =>
      if segsInt cs pv o nx nn then
        if segsInt cs pv o nn nnn then
          -- adjacent intersections: op2 = DuplicateOp(op2, false); op2->pt = op2->next->next->next->pt; op2 = op2->next;
          -- a new node carrying nextNext's point now sits between prev and op2; op2 is unchanged
          let r' := r ++ [nn]
          -- if (op2 == outrec->pts) break;
          if pts = 0 then .done (some r') acc (k + 1) else fsiLoop cs isect adec fuel r' pts acc (k + 1)
        else
          -- (the adjustment of outrec->pts before the call is overwritten by DoSplitOp's `outrec->pts = prevOp`)
          match doSplitOp isect adec r with
          | none => .fault
          | some ⟨none, _⟩ => .done none acc k                          -- if (!outrec->pts) break;
          | some ⟨some m, nr⟩ =>
            let acc' := acc ++ nr.toList
            -- op2 = outrec->pts; if (op2->prev == op2->next->next) break; continue;
            if m.length = 3 then .done (some m) acc' k else fsiLoop cs isect adec fuel m 0 acc' k
      else
        -- op2 = op2->next; if (op2 == outrec->pts) break;
        let pts' := if pts = 0 then r.length - 1 else pts - 1
        if pts' = 0 then .done (some (rot1 r)) acc k else fsiLoop cs isect adec fuel (rot1 r) pts' acc k

/-- `FixSelfIntersects(outrec)` for the ring seen from `outrec->pts`.
`op2->prev == op2->next->next` holds exactly for rings of one or three nodes. -/
def fixSelfIntersects (cs : Pt → Pt → Pt → Int) (isect : Pt → Pt → Pt → Pt → Pt)
    (adec : Ring → Pt → Pt → Pt → AreaDec) (fuel : Nat) (ring : Ring) : FsiRes :=
  match ring with
  | [] => .fault
  | [_] | [_, _, _] => .done (some ring) [] 0
  | _ => fsiLoop cs isect adec fuel ring 0 [] 0

/-- fuel that suffices for a ring of `n` nodes as long as the `DuplicateOp` branch runs at most `K` times
(`Props.C03Split.fixSelfIntersects_fuel_partial`) -/
def fsiFuel (n K : Nat) : Nat := (n + K) * (2 * (n + K) + 3) + n + K + 1

/-- the exact instantiation the theorems are about -/
abbrev fixX (isect : Pt → Pt → Pt → Pt → Pt) (fuel : Nat) (ring : Ring) : FsiRes :=
  fixSelfIntersects csX isect adecX fuel ring

/-- the compiled arithmetic (default build) -/
abbrev fixF (fuel : Nat) (ring : Ring) : FsiRes := fixSelfIntersects csF isectF adecF fuel ring

/-- `FixSelfIntersects` as the parameter `fix` of `Model/CleanUp.lean` (`none` = the outrec's ring was disposed):
the outrec's own ring after `FixSelfIntersects` with exact cross products and areas.  A run that does not finish
within `fuel` is mapped to `none` here, so statements about `fixMain … r = some r'` are statements about runs that
finish; `Props.C03Split.fixSelfIntersects_fuel_partial` says which runs do. -/
def fixMain (isect : Pt → Pt → Pt → Pt → Pt) (fuel : Nat) (r : Ring) : Option Ring :=
  match fixX isect fuel r with
  | .done m _ _ => m
  | _ => none

/-- `CleanCollinear(outrec)` with `FixSelfIntersects` given as `fixfn`; the rings of the outrecs appended to
`outrec_list_` are returned as well -/
def cleanCollinearG (pc : Bool) (fixfn : Ring → FsiRes) (ring : Ring) : FsiRes :=
  if !isValidClosedPath ring then .done none [] 0
  else match cleanLoop pc (cleanFuel ring.length) [] ring 0 with
    | none => .outOfFuel 0
    | some none => .done none [] 0
    | some (some r) => fixfn r

/-- The closed branch of the loop of `BuildPaths64` over `outrec_list_[i..]`:
`for (i = 0; i < outrec_list_.size(); ++i) { if (!outrec->pts) continue; CleanCollinear(outrec);
if (BuildPath64(outrec->pts, reverse, false, path)) solutionClosed.emplace_back(path); }` where `CleanCollinear`
(`cc`) may append outrecs to `outrec_list_`.  `work` = the rings of the outrecs not yet visited (`[]` = null `pts`);
`wf` bounds the number of outrecs visited; `none` = some fuel ran out or the model faulted. -/
def buildPathsG (reverse : Bool) (cc : Ring → FsiRes) : Nat → List Ring → Option (List Path)
  | _, [] => some []
  | 0, _ :: _ => none
  | wf + 1, ring :: rest =>
    if ring = [] then buildPathsG reverse cc wf rest
    else match cc ring with
      | .done m sp _ =>
        match buildPathsG reverse cc wf (rest ++ sp) with
        | none => none
        | some out =>
          match m.bind (fun r => buildPath64 r reverse false) with
          | some p => some (p :: out)
          | none => some out
      | _ => none

/-- exact instantiations (theorems) -/
abbrev cleanCollinearX (pc : Bool) (isect : Pt → Pt → Pt → Pt → Pt) (fuel : Nat) (ring : Ring) : FsiRes :=
  cleanCollinearG pc (fixX isect fuel) ring
abbrev buildPathsX (pc reverse : Bool) (isect : Pt → Pt → Pt → Pt → Pt) (fuel : Nat) (wf : Nat) (work : List Ring) :
    Option (List Path) :=
  buildPathsG reverse (cleanCollinearX pc isect fuel) wf work

/-- compiled arithmetic (correspondence) -/
abbrev cleanCollinearF (pc : Bool) (fuel : Nat) (ring : Ring) : FsiRes := cleanCollinearG pc (fixF fuel) ring
abbrev buildPathsF (pc reverse : Bool) (fuel : Nat) (wf : Nat) (work : List Ring) : Option (List Path) :=
  buildPathsG reverse (cleanCollinearF pc fuel) wf work

end Clipper.Model.SplitOp
