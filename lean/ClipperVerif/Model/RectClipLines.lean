/-
Executable model of `RectClipLines64` (clipper.rectclip.cpp): `Execute`, `ExecuteInternal`, `GetPath`,
and of the helpers it shares with `RectClip64`: `GetLocation` (the *generated* definition, through a thin
wrapper), `GetNextLocation`, `GetIntersection`, `GetSegmentIntersection`, `Add`.

Arithmetic done in `double` by the C++ (`CrossProduct`, `GetSegmentIntersectPt`) is a parameter
(`Arith`): theorems hold for every `Arith` (under stated hypotheses), the correspondence harness uses the
bit-exact `Float` instance `floatArith`.

Conventions: pointers/rings become lists, out-parameters become returned values, the `ip` out-parameter
that `GetSegmentIntersection` overwrites even when it returns `false` is threaded explicitly.
Core Lean only.
-/
import ClipperVerif.Spec.Basic
import ClipperVerif.Spec.Enums
import ClipperVerif.Generated.RectClip
namespace Clipper.Model.RC
open Clipper

/-- `Rect64` -/
structure Rect where
  left : Int
  top : Int
  right : Int
  bottom : Int
  deriving DecidableEq, Repr, Inhabited

/-- `Rect64::IsEmpty` -/
def Rect.isEmpty (r : Rect) : Bool := decide (r.bottom ≤ r.top) || decide (r.right ≤ r.left)

/-- `Rect64::Intersects` -/
def Rect.intersects (a b : Rect) : Bool :=
  decide (max a.left b.left ≤ min a.right b.right) && decide (max a.top b.top ≤ min a.bottom b.bottom)

/-- `Rect64::Contains(const Rect64&)` -/
def Rect.containsRect (a b : Rect) : Bool :=
  decide (b.left ≥ a.left) && decide (b.right ≤ a.right) && decide (b.top ≥ a.top) && decide (b.bottom ≤ a.bottom)

def i64max : Int := 9223372036854775807
def i64min : Int := -9223372036854775808

/-- `GetBounds(const Path64&)` (an empty path gives the invalid rectangle max,max,lowest,lowest) -/
def getBounds (path : Path) : Rect :=
  path.foldl (fun b p =>
    { left := if p.x < b.left then p.x else b.left
      right := if p.x > b.right then p.x else b.right
      top := if p.y < b.top then p.y else b.top
      bottom := if p.y > b.bottom then p.y else b.bottom })
    { left := i64max, top := i64max, right := i64min, bottom := i64min }

/-- `Rect64::AsPath()[k]` = `rect_as_path_[k]` -/
def Rect.c0 (r : Rect) : Pt := ⟨r.left, r.top⟩
def Rect.c1 (r : Rect) : Pt := ⟨r.right, r.top⟩
def Rect.c2 (r : Rect) : Pt := ⟨r.right, r.bottom⟩
def Rect.c3 (r : Rect) : Pt := ⟨r.left, r.bottom⟩
def Rect.asPath (r : Rect) : Path := [r.c0, r.c1, r.c2, r.c3]

/-- `GetLocation(rec, pt, loc)`: the definition generated from the C++ source; returns (result, loc). -/
def getLocation (r : Rect) (p : Pt) (loc : Location := .inside) : Bool × Location :=
  Gen.GetLocation loc p.x p.y r.bottom r.left r.right r.top

/-- The two pieces of `double` arithmetic used by rectangle clipping.
`cross a b c` stands for the sign (only `= 0` and `> 0` are ever inspected) of
`CrossProduct(a, b, c)`; `isect a b c d` for `GetSegmentIntersectPt(a, b, c, d, ip)`
(`none`: returned false and left `ip` alone). -/
structure Arith where
  cross : Pt → Pt → Pt → Int
  isect : Pt → Pt → Pt → Pt → Option Pt

/-- `(q > lo) == (q < hi)` -/
def between (q lo hi : Int) : Bool := decide (q > lo) == decide (q < hi)

/-- `IsHorizontal(a, b) ? ((q.x > a.x) == (q.x < b.x)) : ((q.y > a.y) == (q.y < b.y))` -/
def onSpan (q a b : Pt) : Bool :=
  if a.y = b.y then between q.x a.x b.x else between q.y a.y b.y

/-- `GetSegmentIntersection(p1, p2, p3, p4, ip)`: returns (result, new value of `ip`). -/
def segIntersection (A : Arith) (p1 p2 p3 p4 ip : Pt) : Bool × Pt :=
  let res1 := A.cross p1 p3 p4
  let res2 := A.cross p2 p3 p4
  if res1 = 0 then
    if res2 = 0 then (false, p1)
    else if p1 = p3 ∨ p1 = p4 then (true, p1)
    else (onSpan p1 p3 p4, p1)
  else if res2 = 0 then
    if p2 = p3 ∨ p2 = p4 then (true, p2)
    else (onSpan p2 p3 p4, p2)
  else if decide (res1 > 0) = decide (res2 > 0) then (false, ip)
  else
    let res3 := A.cross p3 p1 p2
    let res4 := A.cross p4 p1 p2
    if res3 = 0 then
      if p3 = p1 ∨ p3 = p2 then (true, p3)
      else (onSpan p3 p1 p2, p3)
    else if res4 = 0 then
      if p4 = p1 ∨ p4 = p2 then (true, p4)
      else (onSpan p4 p1 p2, p4)
    else if decide (res3 > 0) = decide (res4 > 0) then (false, ip)
    else match A.isect p1 p2 p3 p4 with
      | some q => (true, q)
      | none => (false, ip)

/-- One `if (guard && GetSegmentIntersection(p, p2, a, b, ip)) { loc = l; return true; }` arm. -/
structure Arm where
  guard : Bool
  a : Pt
  b : Pt
  loc : Location

/-- The `if … else if … else return false` chain of one `case` of `GetIntersection`. -/
def tryArms (A : Arith) (p p2 : Pt) : List Arm → Location → Pt → Bool × Location × Pt
  | [], loc, ip => (false, loc, ip)
  | arm :: rest, loc, ip =>
    if arm.guard then
      let s := segIntersection A p p2 arm.a arm.b ip
      if s.1 then (true, arm.loc, s.2) else tryArms A p p2 rest loc s.2
    else tryArms A p p2 rest loc ip

/-- the arms of `GetIntersection` for each value of `loc` (first arm keeps `loc`) -/
def arms (r : Rect) (p : Pt) : Location → List Arm
  | .left => [⟨true, r.c0, r.c3, .left⟩, ⟨decide (p.y < r.c0.y), r.c0, r.c1, .top⟩, ⟨true, r.c2, r.c3, .bottom⟩]
  | .top => [⟨true, r.c0, r.c1, .top⟩, ⟨decide (p.x < r.c0.x), r.c0, r.c3, .left⟩, ⟨true, r.c1, r.c2, .right⟩]
  | .right => [⟨true, r.c1, r.c2, .right⟩, ⟨decide (p.y < r.c1.y), r.c0, r.c1, .top⟩, ⟨true, r.c2, r.c3, .bottom⟩]
  | .bottom => [⟨true, r.c2, r.c3, .bottom⟩, ⟨decide (p.x < r.c3.x), r.c0, r.c3, .left⟩, ⟨true, r.c1, r.c2, .right⟩]
  | .inside => [⟨true, r.c0, r.c3, .left⟩, ⟨true, r.c0, r.c1, .top⟩, ⟨true, r.c1, r.c2, .right⟩, ⟨true, r.c2, r.c3, .bottom⟩]

/-- `GetIntersection(rectPath, p, p2, loc, ip)`: returns (result, loc, ip). -/
def getIntersection (A : Arith) (r : Rect) (p p2 : Pt) (loc : Location) (ip : Pt) : Bool × Location × Pt :=
  tryArms A p p2 (arms r p loc) loc ip

/-- the `while (i <= highI && cond(path[i])) ++i` loops: index of the first element at or after `i`
that fails `cond` (`path.length` if none) -/
def skipWhile (cond : Pt → Bool) (path : Path) (i : Nat) : Nat :=
  i + ((path.drop i).takeWhile cond).length

/-- closed rectangle -/
def inRect (r : Rect) (p : Pt) : Bool :=
  decide (r.left ≤ p.x) && decide (p.x ≤ r.right) && decide (r.top ≤ p.y) && decide (p.y ≤ r.bottom)

/-- the classification performed by the `Location::Inside` case of `GetNextLocation`
(`none`: the point is in the closed rectangle and gets added) -/
def outsideLoc (r : Rect) (p : Pt) : Option Location :=
  if p.x < r.left then some .left
  else if p.x > r.right then some .right
  else if p.y > r.bottom then some .bottom
  else if p.y < r.top then some .top
  else none

/-- pair every element with its index, counting from `i` -/
def indexFrom : Nat → List Pt → List (Nat × Pt)
  | _, [] => []
  | i, p :: ps => (i, p) :: indexFrom (i + 1) ps

/-- `GetNextLocation(path, loc, i, highI)` with `highI = path.length - 1`:
returns the new `loc`, the new `i`, and the vertices passed to `Add` (only in the `Inside` case),
each with its index. -/
def getNextLocation (r : Rect) (path : Path) (loc : Location) (i : Nat) : Location × Nat × List (Nat × Pt) :=
  match loc with
  | .left =>
    let j := skipWhile (fun p => decide (p.x ≤ r.left)) path i
    match path[j]? with
    | none => (loc, j, [])
    | some q =>
      (if q.x ≥ r.right then .right else if q.y ≤ r.top then .top else if q.y ≥ r.bottom then .bottom else .inside, j, [])
  | .top =>
    let j := skipWhile (fun p => decide (p.y ≤ r.top)) path i
    match path[j]? with
    | none => (loc, j, [])
    | some q =>
      (if q.y ≥ r.bottom then .bottom else if q.x ≤ r.left then .left else if q.x ≥ r.right then .right else .inside, j, [])
  | .right =>
    let j := skipWhile (fun p => decide (p.x ≥ r.right)) path i
    match path[j]? with
    | none => (loc, j, [])
    | some q =>
      (if q.x ≤ r.left then .left else if q.y ≤ r.top then .top else if q.y ≥ r.bottom then .bottom else .inside, j, [])
  | .bottom =>
    let j := skipWhile (fun p => decide (p.y ≥ r.bottom)) path i
    match path[j]? with
    | none => (loc, j, [])
    | some q =>
      (if q.y ≤ r.top then .top else if q.x ≤ r.left then .left else if q.x ≥ r.right then .right else .inside, j, [])
  | .inside =>
    let run := (path.drop i).takeWhile (fun p => (outsideLoc r p).isNone)
    let j := i + run.length
    let adds := indexFrom i run
    match path[j]? with
    | none => (loc, j, adds)
    | some q => ((outsideLoc r q).getD .inside, j, adds)

/-- where an emitted point comes from -/
inductive Kind
  /-- an input vertex (index `k`) found in the closed rectangle -/
  | vertex
  /-- crossing on segment `k-1 → k`, path entering the rectangle (`Add(ip, true)`) -/
  | enter
  /-- crossing on segment `k-1 → k`, path leaving the rectangle -/
  | exit
  /-- first crossing of a segment passing right through (`Add(ip2, true)`); the flag records
  whether the second `GetIntersection` call, whose result the C++ ignores, returned true -/
  | thru1 (found : Bool)
  /-- second crossing of a segment passing right through -/
  | thru2
  deriving DecidableEq, Repr

/-- one call of `Add(pt, start_new)` made by `ExecuteInternal`, annotated with its origin -/
structure Emit where
  k : Nat
  pt : Pt
  startNew : Bool
  kind : Kind
  deriving DecidableEq, Repr

def vertexEmits (l : List (Nat × Pt)) : List Emit := l.map (fun kp => ⟨kp.1, kp.2, false, .vertex⟩)

/-- outcome of one iteration of the main loop -/
inductive Step
  /-- `break` (the path is exhausted) after these `Add` calls -/
  | done (es : List Emit)
  /-- these `Add` calls, then the next iteration with this `i` and `loc` -/
  | next (es : List Emit) (i : Nat) (loc : Location)
  /-- an index out of range (theorem `step_ne_fault`: impossible) -/
  | fault

/-- One iteration of the `while (i <= highI)` loop of `RectClipLines64::ExecuteInternal`
(entered with `i < path.length`). -/
def step (A : Arith) (r : Rect) (path : Path) (i : Nat) (prev : Location) : Step :=
  let g := getNextLocation r path prev i
  let loc := g.1
  let i := g.2.1
  let adds := vertexEmits g.2.2
  if i < path.length then
    match path[i]?, path[i - 1]? with
    | some cur, some prevPt =>
      let x := getIntersection A r cur prevPt loc ⟨0, 0⟩
      if !x.1 then .next adds (i + 1) loc                     -- remaining outside
      else if loc = .inside then                               -- entering: Add(ip, true)
        .next (adds ++ [⟨i, x.2.2, true, .enter⟩]) i loc
      else if prev ≠ .inside then                              -- passing right through
        let y := getIntersection A r prevPt cur prev ⟨0, 0⟩
        .next (adds ++ [⟨i, y.2.2, true, .thru1 y.1⟩, ⟨i, x.2.2, false, .thru2⟩]) i loc
      else                                                     -- exiting: Add(ip)
        .next (adds ++ [⟨i, x.2.2, false, .exit⟩]) i loc
    | _, _ => .fault
  else .done adds

/-- The main `while (i <= highI)` loop of `RectClipLines64::ExecuteInternal`.
`none`: fuel exhausted or an index out of range (theorem `loop_total`: never with fuel `2 * length + 2`). -/
def loop (A : Arith) (r : Rect) (path : Path) : Nat → Nat → Location → Option (List Emit)
  | 0, _, _ => none
  | fuel + 1, i, loc =>
    if i < path.length then
      match step A r path i loc with
      | .done es => some es
      | .next es i' loc' => (loop A r path fuel i' loc').map (es ++ ·)
      | .fault => none
    else some []

/-- all `Add` calls of `RectClipLines64::ExecuteInternal(path)` in order -/
def emits (A : Arith) (r : Rect) (path : Path) : Option (List Emit) :=
  if r.isEmpty || path.length < 2 then some []
  else
    match path with
    | [] => some []
    | p0 :: _ =>
      let (notOn, loc0) := getLocation r p0
      if !notOn then
        -- `while (i <= highI && !GetLocation(rect_, path[i], prev)) ++i;`
        let i := skipWhile (fun p => !(getLocation r p).1) path 1
        match path[i]? with
        | none => some (vertexEmits (indexFrom 0 path))
        | some q =>
          let prev := (getLocation r q).2
          let loc := if prev = .inside then .inside else loc0
          (loop A r path (2 * path.length + 2) 1 loc).map
            ((if loc = .inside then [(⟨0, p0, false, .vertex⟩ : Emit)] else []) ++ ·)
      else
        (loop A r path (2 * path.length + 2) 1 loc0).map
          ((if loc0 = .inside then [(⟨0, p0, false, .vertex⟩ : Emit)] else []) ++ ·)

/-- `RectClip64::Add(pt, start_new)` on `results_`, kept as a list of rings, most recent ring first,
each ring most recent point first (`results_[k]` points at the most recently added `OutPt2`). -/
def add : List (List Pt) → Pt → Bool → List (List Pt)
  | [], pt, _ => [[pt]]
  | cur :: rest, pt, startNew =>
    if startNew then [pt] :: cur :: rest
    else match cur with
      | [] => [pt] :: rest
      | last :: _ => if last = pt then cur :: rest else (pt :: cur) :: rest

def addAll (es : List (Pt × Bool)) : List (List Pt) :=
  es.foldl (fun rs e => add rs e.1 e.2) []

/-- `RectClipLines64::GetPath` over all of `results_`: rings of one point give no path. -/
def getPaths (rs : List (List Pt)) : Paths :=
  (rs.reverse.map List.reverse).filter (fun p => decide (p.length ≥ 2))

def assemble (es : List Emit) : Paths := getPaths (addAll (es.map (fun e => (e.pt, e.startNew))))

/-- result of `ExecuteInternal` + the `GetPath` loop for one path -/
def executeInternal (A : Arith) (r : Rect) (path : Path) : Option Paths :=
  (emits A r path).map assemble

/-- `RectClipLines64::Execute(paths)` -/
def execute (A : Arith) (r : Rect) : Paths → Option Paths
  | [] => some []
  | path :: rest =>
    if r.isEmpty then some []
    else if !(r.intersects (getBounds path)) then execute A r rest
    else match executeInternal A r path, execute A r rest with
      | some a, some b => some (a ++ b)
      | _, _ => none

/-- `RectClipLines(const Rect64&, const Paths64&)` -/
def rectClipLines (A : Arith) (r : Rect) (lines : Paths) : Option Paths :=
  if r.isEmpty || lines.isEmpty then some [] else execute A r lines

/-! ### bit-exact `double` instance -/

def signF (f : Float) : Int := if f == 0 then 0 else if f > 0 then 1 else -1

/-- `CrossProduct(pt1, pt2, pt3)` on `Point64` -/
def crossF (a b c : Pt) : Float :=
  Float.ofInt (b.x - a.x) * Float.ofInt (c.y - b.y) - Float.ofInt (b.y - a.y) * Float.ofInt (c.x - b.x)

/-- `GetSegmentIntersectPt` (the default build, `CLIPPER2_HI_PRECISION` off) on `Point64` -/
def isectF (a b c d : Pt) : Option Pt :=
  let dx1 := Float.ofInt (b.x - a.x)
  let dy1 := Float.ofInt (b.y - a.y)
  let dx2 := Float.ofInt (d.x - c.x)
  let dy2 := Float.ofInt (d.y - c.y)
  let det := dy1 * dx2 - dy2 * dx1
  if det == 0 then none
  else
    let t := (Float.ofInt (a.x - c.x) * dy2 - Float.ofInt (a.y - c.y) * dx2) / det
    if t <= 0 then some a
    else if t >= 1 then some b
    else some ⟨(Float.ofInt a.x + t * dx1).toInt64.toInt, (Float.ofInt a.y + t * dy1).toInt64.toInt⟩

def floatArith : Arith := ⟨fun a b c => signF (crossF a b c), isectF⟩

/-- exact integer `CrossProduct` (same operand order as the C++) -/
def crossZ (a b c : Pt) : Int := (b.x - a.x) * (c.y - b.y) - (b.y - a.y) * (c.x - b.x)

end Clipper.Model.RC
