/-
C12 model: the per-path frame of `RectClip64::Execute` (clipper.rectclip.cpp:873-910).
The work on one path (`ExecuteInternal`, `CheckEdges`, `TidyEdges`, `GetPath`) is the parameter `one`: it may read
and dirty every scratch member.  Modelled statement by statement: the early exits, `path_bounds_ = GetBounds(path)`,
and the "clean up after every loop" block.  Core Lean only.
-/
import ClipperVerif.Spec.Basic
namespace Clipper.Model.RectClipFrame
open Clipper

/-- scratch members of `RectClip64`; `B` is the type of a bounding rectangle -/
structure RScratch (B : Type) where
  pathBounds : B                    -- path_bounds_
  opContainer : List Nat := []      -- op_container_
  results : List Nat := []          -- results_
  edges : List (List Nat) := [[], [], [], [], [], [], [], []]   -- edges_[8]
  startLocs : List Nat := []        -- start_locs_

/-- the constant part of the object (`rect_` and what is derived from it) as the three tests `Execute` makes -/
structure Rect (B : Type) where
  isEmpty : Bool
  bounds : Path → B                 -- GetBounds(path)
  intersects : B → Bool             -- rect_.Intersects(b)
  contains : B → Bool               -- rect_.Contains(b)

/-- "clean up after every loop" (clipper.rectclip.cpp:903-907) -/
def cleanLoop {B : Type} (s : RScratch B) : RScratch B :=
  { s with opContainer := [], results := [], edges := s.edges.map (fun _ => []), startLocs := [] }

/-- the `for (const Path64& path : paths)` loop -/
def loop {B : Type} (r : Rect B) (one : RScratch B → Path → Paths × RScratch B) : RScratch B → Paths → Paths × RScratch B
  | s, [] => ([], s)
  | s, p :: ps =>
    if p.length < 3 then loop r one s ps
    else
      let s1 := { s with pathBounds := r.bounds p }
      if !r.intersects s1.pathBounds then loop r one s1 ps
      else if r.contains s1.pathBounds then
        let (rest, s') := loop r one s1 ps
        (p :: rest, s')
      else
        let (out, s2) := one s1 p
        let (rest, s') := loop r one (cleanLoop s2) ps
        (out ++ rest, s')

/-- `RectClip64::Execute(paths)`: result and the object's scratch afterwards -/
def execute {B : Type} (r : Rect B) (one : RScratch B → Path → Paths × RScratch B) (s : RScratch B) (ps : Paths) : Paths × RScratch B :=
  if r.isEmpty then ([], s) else loop r one s ps

/-- every scratch container is empty (`path_bounds_` holds the last path's bounds: it is overwritten before it is read) -/
def RScratch.clean {B : Type} (s : RScratch B) : Prop :=
  s.opContainer = [] ∧ s.results = [] ∧ s.edges = [[], [], [], [], [], [], [], []] ∧ s.startLocs = []

end Clipper.Model.RectClipFrame
