/-
Model glue between the two C01 layers that existed side by side (property C01, "region" capstone):

* the geometric scanbeam model `Model/SweepOrder.lean` (which edge is where in the AEL, derived from the input paths alone), and
* the bookkeeping model `Model/Ael.lean` (wind counts and hot flags, driven by an event list `List Op` whose positions are INPUTS).

This file DERIVES the event list from the scanbeam model:

* `minEvents` / `insEvents`  — `InsertLocalMinimaIntoAEL(y0)`: per local minimum one `insertPair pos pt false dxLeft` with `pos` = the
                               index `Model.AelOrder.insertLeftPos` computes (the walk of `InsertLeftEdge`), followed by one `intersect` per
                               step of the right bound's settling loop (`bubbleCount`; zero in general position);
* `isectEvents`              — `DoIntersections(y1)`: one `intersect i` per inverted pair, as the ADJACENT transpositions of an
                               insertion sort of the AEL by `curr_x` (`sortSwaps`).  The real `ProcessIntersectList` performs the same
                               set of transpositions in another order (it depends on the rounded intersection points, which the
                               scanbeam model does not have); the resulting hot flags do not depend on the order
                               (`Props/C01Region.hot_determined_by_order`), and the engine's own order is tied to `Model/Ael` by `AELVERIFY`;
* `topEvents`                — `DoTopOfScanbeam(y1)`: one `removePair k` per local maximum (the two edges are adjacent by then);
                               `UpdateEdgeIntoAEL` at an intermediate vertex changes no bookkeeping field: no event;
* `heightSwaps`              — a VIRTUAL `DoIntersections` at an arbitrary rational height `yn/yd` inside a scanbeam (the same insertion
                               sort, keyed by the exact x at that height): what turns the state after the insertions into "the state of
                               the scanline `yn/yd`".  Used by the theorems only.

The labelling `Lab` gives every sweep edge its path type and `wind_dx`; `labOf subj clip` is the labelling of `build (subj ++ clip)`:
an edge is a subject edge iff it comes from a subject path, `wind_dx = +1` iff the path runs from the edge's `bot` to its `top`
(`InsertLocalMinimaIntoAEL`: the bound that follows `vertex->next` upwards gets `wind_dx = 1`).

The second half states, as decidable predicates, what the composition theorems assume BEYOND `Built.Hyp` (`HypR`): structural facts
about the event data (every edge starts at a local minimum or continues a bound; vertex heights are scanlines; labels agree along a
bound and are opposite across a local minimum / maximum; at most two edges end in one local maximum).  The driver decides them per
input (`SWEEPHOT` answers `out …` when they fail).

Core Lean only (linked into the driver).
-/
import ClipperVerif.Model.SweepOrder
import ClipperVerif.Model.Ael
namespace Clipper.Model.SweepEvents
open Clipper Clipper.Model Clipper.Model.AelOrder Clipper.Model.SweepOrder

/-- a labelling of sweep edges: (`local_min->polytype`, `wind_dx`) -/
abbrev Lab := SEdge → PathType × Int

/-- the bookkeeping fields of an `Active` that never change: path type, open flag, `wind_dx` -/
def key (e : Edge) : PathType × Bool × Int := (e.pt, e.isOpen, e.dx)
/-- the same three fields of a sweep edge under a labelling (closed paths only) -/
def labKey (lab : Lab) (e : SEdge) : PathType × Bool × Int := ((lab e).1, false, (lab e).2)

/-- **the L2 state follows the L3 list**: same length, same order, same (path type, open flag, `wind_dx`) -/
def Tracks (lab : Lab) (l : Ael) (ael : List SEdge) : Prop := l.map key = ael.map (labKey lab)
instance (lab : Lab) (l : Ael) (ael : List SEdge) : Decidable (Tracks lab l ael) := by unfold Tracks; infer_instance

/-! ## adjacent transpositions -/

/-- exchange the elements at positions `i`, `i+1` -/
def swapAt {α : Type} (i : Nat) (l : List α) : Option (List α) :=
  match l.drop i with
  | a :: b :: rest => some (l.take i ++ b :: a :: rest)
  | _ => none

def applySwaps {α : Type} : List Nat → List α → Option (List α)
  | [], l => some l
  | i :: is, l => (swapAt i l).bind (applySwaps is)

/-- `a` stands at position `k` in front of the (sorted) list: the swaps that move it to its place -/
def insSwaps {α : Type} (le : α → α → Bool) (k : Nat) (a : α) : List α → List Nat
  | [] => []
  | b :: l => if le a b then [] else k :: insSwaps le (k + 1) a l

/-- the adjacent transpositions by which insertion sort turns `l` (standing at positions `k, k+1, …`) into `stableSort le l` -/
def sortSwaps {α : Type} (le : α → α → Bool) : Nat → List α → List Nat
  | _, [] => []
  | k, a :: l => sortSwaps le (k + 1) l ++ insSwaps le k a (stableSort le l)

/-! ## the events of one scanbeam -/

/-- one local minimum `(left bound, right bound)`: `insertPair` at the index of `InsertLeftEdge`, then the settling loop -/
def minEvents (valid : SEdge → SEdge → Bool) (lab : Lab) (ael : List SEdge) (p : SEdge × SEdge) : List Op :=
  match insertLeftPos valid (fun _ => false) ael p.1 with
  | some i =>
    .insertPair i (lab p.1).1 false (lab p.1).2 ::
      (List.range (bubbleCount valid p.2 ((insertLeft valid (fun _ => false) ael p.1).drop (i + 1)))).map
        (fun k => .intersect (i + 1 + k))
  | none => []

/-- `InsertLocalMinimaIntoAEL(y0)` -/
def insEvents (valid : SEdge → SEdge → Bool) (lab : Lab) : List SEdge → List (SEdge × SEdge) → List Op
  | _, [] => []
  | ael, p :: ms => minEvents valid lab ael p ++ insEvents valid lab (insertBound valid ael p) ms

/-- `DoIntersections(y1)` -/
def isectEvents (cx : SEdge → Int → Int) (y1 : Int) (ael : List SEdge) : List Op :=
  (sortSwaps (leCx cx y1) 0 ael).map .intersect

/-- the edge ends in a local maximum on the scanline `y1` -/
def isMax (next : SEdge → Option SEdge) (y1 : Int) (e : SEdge) : Bool := e.top.y == y1 && (next e).isNone

/-- `DoTopOfScanbeam(y1)`; the flag says "this edge is the partner of the maximum just removed" -/
def topEventsAux (next : SEdge → Option SEdge) (y1 : Int) : Bool → Nat → List SEdge → List Op
  | _, _, [] => []
  | true, k, _ :: rest => topEventsAux next y1 false k rest
  | false, k, e :: rest =>
    if isMax next y1 e then .removePair k :: topEventsAux next y1 true k rest
    else topEventsAux next y1 false (k + 1) rest

def topEvents (next : SEdge → Option SEdge) (y1 : Int) (ael : List SEdge) : List Op := topEventsAux next y1 false 0 ael

/-- one scanbeam: the snapshot of the scanbeam model and the three groups of events -/
structure BeamRun where
  snap : Snap
  evIns : List Op
  evIsect : List Op
  evTop : List Op
  deriving Repr, Inhabited

def BeamRun.events (r : BeamRun) : List Op := r.evIns ++ r.evIsect ++ r.evTop

def beamRun (valid : Int → SEdge → SEdge → Bool) (cx : SEdge → Int → Int) (next : SEdge → Option SEdge)
    (mins : Int → List (SEdge × SEdge)) (lab : Lab) (ael : List SEdge) (y0 y1 : Int) : BeamRun :=
  let s := beamStep valid cx next mins ael y0 y1
  ⟨s, insEvents (valid y0) lab ael (mins y0), isectEvents cx y1 s.inserted, topEvents next y1 s.afterIsect⟩

/-- the whole sweep (mirrors `sweepFrom`) -/
def beamRuns (valid : Int → SEdge → SEdge → Bool) (cx : SEdge → Int → Int) (next : SEdge → Option SEdge)
    (mins : Int → List (SEdge × SEdge)) (lab : Lab) : List SEdge → List Int → List BeamRun
  | ael, y0 :: y1 :: rest =>
    let r := beamRun valid cx next mins lab ael y0 y1
    r :: beamRuns valid cx next mins lab r.snap.afterTop (y1 :: rest)
  | _, _ => []

/-- **the event list of the sweep**, derived from the scanbeam model -/
def sweepEvents (valid : Int → SEdge → SEdge → Bool) (cx : SEdge → Int → Int) (next : SEdge → Option SEdge)
    (mins : Int → List (SEdge × SEdge)) (lab : Lab) (ys : List Int) : List Op :=
  (beamRuns valid cx next mins lab [] ys).flatMap BeamRun.events

/-! ## a scanline at a rational height `yn/yd` (`yd > 0`), a point `(xn/yd, yn/yd)` -/

/-- the edge crosses the height `yn/yd` strictly between its end points -/
def aliveAt (e : SEdge) (yn yd : Int) : Prop := e.top.y * yd < yn ∧ yn < e.bot.y * yd
instance (e : SEdge) (yn yd : Int) : Decidable (aliveAt e yn yd) := by unfold aliveAt; infer_instance

/-- the edge is strictly LEFT of the point `(xn/yd, yn/yd)`: `xNum/xDen < xn/yd` with `xDen = exD e * yd` -/
def leftOfPt (e : SEdge) (xn yn yd : Int) : Prop := xNum e.bot e.top yn yd < xn * exD e
instance (e : SEdge) (xn yn yd : Int) : Decidable (leftOfPt e xn yn yd) := by unfold leftOfPt; infer_instance
/-- the point is on the line of the edge -/
def onEdgeLine (e : SEdge) (xn yn yd : Int) : Prop := xNum e.bot e.top yn yd = xn * exD e
instance (e : SEdge) (xn yn yd : Int) : Decidable (onEdgeLine e xn yn yd) := by unfold onEdgeLine; infer_instance

/-- `a` is not right of `b` at the height `yn/yd` -/
def leAt (yn yd : Int) (a b : SEdge) : Bool := decide (¬ xLt b.bot b.top a.bot a.top yn yd)

/-- the edge list of a scanbeam as it is ordered on the scanline `yn/yd` -/
def sortedAt (yn yd : Int) (ael : List SEdge) : List SEdge := stableSort (leAt yn yd) ael

/-- the virtual `DoIntersections` at the height `yn/yd` -/
def heightSwaps (yn yd : Int) (ael : List SEdge) : List Op := (sortSwaps (leAt yn yd) 0 ael).map .intersect

/-! ## the labelling of a built input -/

/-- edge `i` of a path runs from vertex `i` to vertex `i+1`: `wind_dx = +1` iff that is upwards (from `bot` to `top`) -/
def pathLabels (off : Nat) (t : PathType) (p : Path) : List (SEdge × PathType × Int) :=
  (edgesOf p).zipIdx.map (fun ei => (mkEdge (off + ei.2) ei.1.1 ei.1.2, t, if ei.1.1.y > ei.1.2.y then 1 else -1))

def labelsFrom : Nat → PathType → Paths → List (SEdge × PathType × Int)
  | _, _, [] => []
  | off, t, p :: ps => (if p.length < 3 then [] else pathLabels off t p) ++ labelsFrom (off + p.length) t ps

def totalLen (ps : Paths) : Nat := (ps.map List.length).sum

/-- all edges of `build (subj ++ clip)` with their labels, in the order of `Built.edges` -/
def labelTbl (subj clip : Paths) : List (SEdge × PathType × Int) :=
  labelsFrom 0 .subject subj ++ labelsFrom (totalLen subj) .clip clip

/-- **the labelling of `build (subj ++ clip)`** -/
def labOf (subj clip : Paths) : Lab := fun e =>
  match (labelTbl subj clip).find? (fun r => r.1 == e) with
  | some r => r.2
  | none => (.subject, 1)

/-! ## what the composition assumes beyond `Built.Hyp` -/

/-- every vertex height is a scanline: no edge STARTS strictly inside the scanbeam -/
def NoBotInside (edges : List SEdge) (y0 y1 : Int) : Prop := ∀ e ∈ edges, ¬ (y1 < e.bot.y ∧ e.bot.y < y0)
/-- the two bounds of a local minimum belong to one path and run in opposite directions -/
def MinLab (lab : Lab) (ms : List (SEdge × SEdge)) : Prop := ∀ p ∈ ms, (lab p.2).1 = (lab p.1).1 ∧ (lab p.2).2 = -(lab p.1).2
/-- **local maxima on the scanline `y`**: an edge that ends on `y` and is not continued has exactly one partner ending in the same
point, also not continued, of the same path type and the opposite direction; no third edge of the scanbeam ends there -/
def MaxOK (edges : List SEdge) (next : SEdge → Option SEdge) (lab : Lab) (y : Int) : Prop :=
  ∀ a ∈ edges, AliveBelow y a → a.top.y = y → next a = none →
    ∃ b ∈ edges, b ≠ a ∧ AliveBelow y b ∧ b.top = a.top ∧ next b = none ∧ (lab b).1 = (lab a).1 ∧ (lab b).2 = -(lab a).2 ∧
      ∀ c ∈ edges, AliveBelow y c → c.top = a.top → c = a ∨ c = b
/-- every edge starts at a local minimum of its scanline or continues a bound -/
def Starts (edges : List SEdge) (next : SEdge → Option SEdge) (mins : Int → List (SEdge × SEdge)) : Prop :=
  ∀ e ∈ edges, e ∈ boundsOf (mins e.bot.y) ∨ ∃ e' ∈ edges, next e' = some e
/-- a bound keeps its path type and direction -/
def NextLab (edges : List SEdge) (next : SEdge → Option SEdge) (lab : Lab) : Prop :=
  ∀ e ∈ edges, ∀ e', next e = some e' → lab e' = lab e
def DxOK (edges : List SEdge) (lab : Lab) : Prop := ∀ e ∈ edges, (lab e).2 = 1 ∨ (lab e).2 = -1
/-- nothing starts below the first scanline -/
def TopStart (edges : List SEdge) : List Int → Prop
  | [] => True
  | y :: _ => ∀ e ∈ edges, e.bot.y ≤ y

def BeamR (edges : List SEdge) (next : SEdge → Option SEdge) (mins : Int → List (SEdge × SEdge)) (lab : Lab) (y0 y1 : Int) : Prop :=
  NoBotInside edges y0 y1 ∧ MinLab lab (mins y0) ∧ MaxOK edges next lab y1

def SweepR (edges : List SEdge) (next : SEdge → Option SEdge) (mins : Int → List (SEdge × SEdge)) (lab : Lab) : List Int → Prop
  | y0 :: y1 :: rest => BeamR edges next mins lab y0 y1 ∧ SweepR edges next mins lab (y1 :: rest)
  | _ => True

/-- everything assumed beyond `Built.Hyp` (all of it decidable) -/
def HypR (edges : List SEdge) (next : SEdge → Option SEdge) (mins : Int → List (SEdge × SEdge)) (lab : Lab) (ys : List Int) : Prop :=
  edges.Nodup ∧ DxOK edges lab ∧ NextLab edges next lab ∧ Starts edges next mins ∧ TopStart edges ys ∧
    SweepR edges next mins lab ys

instance (edges : List SEdge) (y0 y1 : Int) : Decidable (NoBotInside edges y0 y1) := by unfold NoBotInside; infer_instance
instance (lab : Lab) (ms : List (SEdge × SEdge)) : Decidable (MinLab lab ms) := by unfold MinLab; infer_instance
instance (edges : List SEdge) (next : SEdge → Option SEdge) (lab : Lab) (y : Int) : Decidable (MaxOK edges next lab y) := by
  unfold MaxOK; infer_instance
instance (edges : List SEdge) (next : SEdge → Option SEdge) (mins : Int → List (SEdge × SEdge)) :
    Decidable (Starts edges next mins) := by unfold Starts; infer_instance
instance (edges : List SEdge) (next : SEdge → Option SEdge) (lab : Lab) : Decidable (NextLab edges next lab) :=
  decidable_of_iff (∀ e ∈ edges, (next e).all (fun e' => decide (lab e' = lab e)) = true) (by
    unfold NextLab
    constructor
    · intro h e he e' hn
      have := h e he
      rw [hn] at this
      simpa using this
    · intro h e he
      cases hn : next e with
      | none => simp
      | some e' => simpa using h e he e' hn)
instance (edges : List SEdge) (lab : Lab) : Decidable (DxOK edges lab) := by unfold DxOK; infer_instance
instance (edges : List SEdge) : (ys : List Int) → Decidable (TopStart edges ys)
  | [] => isTrue trivial
  | y :: _ => (inferInstance : Decidable (∀ e ∈ edges, e.bot.y ≤ y))
instance (edges : List SEdge) (next : SEdge → Option SEdge) (mins : Int → List (SEdge × SEdge)) (lab : Lab) (y0 y1 : Int) :
    Decidable (BeamR edges next mins lab y0 y1) := by unfold BeamR; infer_instance
instance decSweepR (edges : List SEdge) (next : SEdge → Option SEdge) (mins : Int → List (SEdge × SEdge)) (lab : Lab) :
    (ys : List Int) → Decidable (SweepR edges next mins lab ys)
  | [] => isTrue trivial
  | [_] => isTrue trivial
  | y0 :: y1 :: rest =>
    have : Decidable (SweepR edges next mins lab (y1 :: rest)) := decSweepR edges next mins lab (y1 :: rest)
    (inferInstance : Decidable (BeamR edges next mins lab y0 y1 ∧ SweepR edges next mins lab (y1 :: rest)))
instance (edges : List SEdge) (next : SEdge → Option SEdge) (mins : Int → List (SEdge × SEdge)) (lab : Lab) (ys : List Int) :
    Decidable (HypR edges next mins lab ys) := by unfold HypR; infer_instance

/-- the extra hypotheses for a built input under a labelling -/
def Built.HypR (b : Built) (lab : Lab) : Prop := SweepEvents.HypR b.edges b.next b.mins lab b.ys
instance (b : Built) (lab : Lab) : Decidable (Built.HypR b lab) := by unfold Built.HypR; infer_instance

/-! ## the run of the bookkeeping model along the derived events (executable; used by the driver) -/

/-- the L2 state after the insertions, after `DoIntersections` and after `DoTopOfScanbeam` of every scanbeam; `none` = an event
was rejected -/
def runBeams (cfg : Cfg) : Ael → List BeamRun → Option (List (Ael × Ael × Ael))
  | _, [] => some []
  | l, r :: rs =>
    match run cfg l r.evIns with
    | none => none
    | some lI =>
      match run cfg lI r.evIsect with
      | none => none
      | some lX =>
        match run cfg lX r.evTop with
        | none => none
        | some lT => (runBeams cfg lT rs).map (fun t => (lI, lX, lT) :: t)

/-- the hot edges of an L2 state, as sweep edges, left to right (`l` tracks `ael`) -/
def hotEdges (l : Ael) (ael : List SEdge) : List SEdge :=
  ((l.zip ael).filter (fun p => !p.1.isOpen && p.1.hot)).map (·.2)

/-- is the point inside the result as the hot edges delimit it: an ODD number of hot edges is strictly left of it
(`Props/C01Region.odd_left_iff_interval`: it lies between the `(2j+1)`-th and the `(2j+2)`-th hot edge for some `j`) -/
def insideHot (hots : List SEdge) (xn yn yd : Int) : Bool :=
  decide ((hots.filter (fun e => decide (leftOfPt e xn yn yd))).length % 2 = 1)

/-- the winding number of closed paths around the rational point `(xn/yd, yn/yd)`: `Spec.wind` of the paths scaled by `yd` around
the integer point `(xn, yn)` (`Props/C13Spec.wind_scale`: scaling paths and point by `yd > 0` keeps the winding number) -/
def windQ (ps : Paths) (xn yn yd : Int) : Int := wind (ps.map (fun p => p.map (Pt.scale yd))) ⟨xn, yn⟩

end Clipper.Model.SweepEvents
