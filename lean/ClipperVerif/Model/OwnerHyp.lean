/-
Decidable versions of the hypotheses of the C04 theorems (`Fresh`, `Acyclic`, `OwnersInRange`, `SplitsInRange`,
`ClosedWorld`, (H1), `SplitsWF`, `SplitsAcyclic`), evaluated by the driver on every outrec table the real sweep produces.
The well-foundedness hypotheses are checked through a rank certificate (`ownerRankB`, `splitsRankB`, `splitsAllRankB`);
the certificate itself (`heights`) is computed by untrusted code.  Soundness: `Lemmas/OwnerHyp.lean`.  Core Lean only.
-/
import ClipperVerif.Model.Owner
namespace Clipper.Model.Owner
open Clipper

/-- a Boolean property of every record of the table -/
def allRecs (T : Table) (P : Nat → OutRec → Bool) : Bool :=
  (List.range T.size).all (fun j => match T[j]? with | none => true | some r => P j r)

/-- `Fresh`: no polypath, empty bounds -/
def freshB (T : Table) : Bool := allRecs T (fun _ r => r.polypath.isNone && r.bounds.isEmpty)

/-- `OwnersInRange` -/
def ownersInRangeB (T : Table) : Bool :=
  allRecs T (fun _ r => match r.owner with | none => true | some o => decide (o < T.size))

/-- `SplitsInRange` -/
def splitsInRangeB (T : Table) : Bool := allRecs T (fun _ r => r.splits.all (fun s => decide (s < T.size)))

/-- index `k` names a closed outrec -/
def closedAt (T : Table) (k : Nat) : Bool := match T[k]? with | none => false | some r => !r.isOpen

/-- `ClosedWorld` (H2) -/
def closedWorldB (T : Table) : Bool :=
  allRecs T (fun _ r => r.isOpen ||
    ((match r.owner with | none => true | some o => closedAt T o) && r.splits.all (closedAt T)))

/-- (H1): the cleaned ring of every live closed outrec has non-empty bounds -/
def h1B (clean : Nat → CleanRes) (T : Table) : Bool :=
  allRecs T (fun i r => r.isOpen || !r.hasPts ||
    (match clean i with | .path p => !(getBounds p).isEmpty | _ => true))

/-- certificate check for `Acyclic`: `rk` decreases along every owner link -/
def ownerRankB (T : Table) (rk : Nat → Nat) : Bool :=
  allRecs T (fun j r => match r.owner with | none => true | some o => decide (rk o < rk j))

def isDisposed : CleanRes → Bool
  | .disposed => true
  | _ => false

/-- outrec `j` is, or will be after `CheckBounds`, without points -/
def pointless (clean : Nat → CleanRes) (j : Nat) (r : OutRec) : Bool := !r.hasPts || isDisposed (clean j)

/-- certificate check for `SplitsWF`: `rk` decreases from every (potentially) point-less outrec to its `splits` -/
def splitsRankB (clean : Nat → CleanRes) (T : Table) (rk : Nat → Nat) : Bool :=
  allRecs T (fun j r => !pointless clean j r || r.splits.all (fun s => decide (rk s < rk j)))

/-- certificate check for `SplitsAcyclic`: `rk` decreases along every `splits` entry -/
def splitsAllRankB (T : Table) (rk : Nat → Nat) : Bool :=
  allRecs T (fun j r => r.splits.all (fun s => decide (rk s < rk j)))

/-- `b ∈ splits a` and `a` is (potentially) point-less -/
def plEdge (clean : Nat → CleanRes) (T : Table) (a b : Nat) : Bool :=
  match T[a]? with
  | none => false
  | some r => pointless clean a r && r.splits.contains b

/-- `cur → … → c0` along `plEdge` -/
def walkB (clean : Nat → CleanRes) (T : Table) (c0 : Nat) : Nat → List Nat → Bool
  | cur, [] => plEdge clean T cur c0
  | cur, nxt :: rest => plEdge clean T cur nxt && walkB clean T c0 nxt rest

/-- refutation certificate for `SplitsWF`: a closed walk `c₀ → c₁ → … → c₀` through point-less outrecs along `splits` -/
def splitsCycleB (clean : Nat → CleanRes) (T : Table) : List Nat → Bool
  | [] => false
  | c0 :: cs => walkB clean T c0 c0 cs

/-! ### untrusted certificate generators -/

/-- one round of `h j := max over successors (h s + 1)` -/
def relaxHeights (n : Nat) (succ : Nat → List Nat) (h : Array Nat) : Array Nat :=
  Array.ofFn (n := n) (fun j => (succ j.val).foldl (fun m s => max m (h.getD s 0 + 1)) 0)

/-- heights in the graph `succ` after `n + 1` rounds (exact when the graph is acyclic) -/
def heights (n : Nat) (succ : Nat → List Nat) : Nat → Nat :=
  let h := (List.range (n + 1)).foldl (fun h _ => relaxHeights n succ h) (Array.replicate n 0)
  fun j => h.getD j 0

def ownerSucc (T : Table) (j : Nat) : List Nat :=
  match T[j]? with | none => [] | some r => match r.owner with | none => [] | some o => [o]
def splitsSuccPL (clean : Nat → CleanRes) (T : Table) (j : Nat) : List Nat :=
  match T[j]? with | none => [] | some r => if pointless clean j r then r.splits else []
def splitsSuccAll (T : Table) (j : Nat) : List Nat :=
  match T[j]? with | none => [] | some r => r.splits

/-- search for a closed walk through `start` (simple paths only; the tables are small) -/
def findCycleFrom (succ : Nat → List Nat) (start : Nat) : Nat → List Nat → Nat → Option (List Nat)
  | 0, _, _ => none
  | f + 1, path, cur =>
    (succ cur).findSome? (fun s =>
      if s == start then some path.reverse
      else if path.contains s then none
      else findCycleFrom succ start f (s :: path) s)

def findCycle (n : Nat) (succ : Nat → List Nat) : Option (List Nat) :=
  (List.range n).findSome? (fun j => findCycleFrom succ j n [j] j)

end Clipper.Model.Owner
