/-!
# Executable model of `ClipperBase::BuildIntersectList` (clipper.engine.cpp ~2395)

```
bool ClipperBase::BuildIntersectList(const int64_t top_y) {
  if (!actives_ || !actives_->next_in_ael) return false;
  AdjustCurrXAndCopyToSEL(top_y);          // SEL := AEL, every edge its own run (e->jump = e->next_in_sel), curr_x := TopX
  Active* left = sel_, * right, * l_end, * r_end, * curr_base, * tmp;
  while (left && left->jump) {             // (A) one pass per iteration, until a single run is left
    Active* prev_base = nullptr;
    while (left && left->jump) {           // (B) merge the runs pairwise, left to right
      curr_base = left; right = left->jump; l_end = right; r_end = right->jump; left->jump = r_end;
      while (left != l_end && right != r_end) {      // (C) merge run [left, l_end) with run [right, r_end)
        if (right->curr_x < left->curr_x) {
          tmp = right->prev_in_sel;
          for (; ; ) { AddNewIntersectNode(*tmp, *right, top_y); if (tmp == left) break; tmp = tmp->prev_in_sel; }   // (D)
          tmp = right; right = ExtractFromSEL(tmp); l_end = right; Insert1Before2InSEL(tmp, left);
          if (left == curr_base) { curr_base = tmp; curr_base->jump = r_end; if (!prev_base) sel_ = curr_base; else prev_base->jump = curr_base; }
        } else left = left->next_in_sel;
      }
      prev_base = curr_base; left = r_end;
    }
    left = sel_;
  }
  return intersect_nodes_.size() > 0;
}
```

Abstraction.  An edge is `(id, curr_x)`: `id` stands for the `Active*`, `curr_x` for the member of that name after
`AdjustCurrXAndCopyToSEL`.  The doubly linked list SEL (`sel_`, `prev_in_sel`, `next_in_sel`) together with the `jump`
pointers of the run heads is a *list of runs* (`List (List Edge)`): the SEL is the concatenation, a run is the stretch
from one head to the next `jump` target.  The pointer surgery of `ExtractFromSEL` / `Insert1Before2InSEL` and the
`curr_base` / `prev_base` / `sel_` bookkeeping (which only re-establish "`jump` of a run head points at the next run
head" after the head of a run has been replaced) are therefore implicit.  Loop (C) is `mergeRuns`, whose two arguments
are the not yet consumed parts `[left, l_end)` and `[right, r_end)`; loop (D) is `walkNodes`; loop (B) is `mergePass`;
loop (A) is `mergeLoop`.  Of `AddNewIntersectNode` only the fact that the node `(e1, e2)` is appended to
`intersect_nodes_` is modelled (the intersection point is geometry and plays no role for the scan of
`ProcessIntersectList`).  No fuel anywhere: `mergeRuns` and `mergeLoop` are well-founded recursions whose measures
(`|L| + |R|`, number of runs) Lean checks.  Core Lean only.
-/
namespace Clipper.Model.BuildIntersectList

/-- an active edge in the SEL: (identity of the `Active`, `curr_x`) -/
abbrev Edge := Nat × Int
/-- an intersect node: (`edge1`, `edge2`) by identity -/
abbrev Node := Nat × Nat

/-- what `AdjustCurrXAndCopyToSEL` reads of an edge: identity, `TopX(e, top_y)`, `join_with == JoinWith::Left` -/
structure RawEdge where
  id : Nat
  topX : Int
  joinedLeft : Bool
  deriving Repr, DecidableEq

/-- `AdjustCurrXAndCopyToSEL`, the `curr_x` part, left to right:
`if (e->join_with == JoinWith::Left) e->curr_x = e->prev_in_ael->curr_x; else e->curr_x = TopX(*e, top_y);`
(`prev` = the already updated `curr_x` of the previous edge, `none` for the first edge; a first edge that claims to be
joined to its left neighbour dereferences `nullptr` in the C++: `none`). -/
def adjustCurrX : Option Int → List RawEdge → Option (List Edge)
  | _, [] => some []
  | prev, e :: es =>
    match (if e.joinedLeft then prev else some e.topX) with
    | none => none
    | some x => (adjustCurrX (some x) es).map (fun r => (e.id, x) :: r)

/-- loop (D): `tmp` walks from `right->prev_in_sel` (the last edge of the rest of the left run) back to `left`, and a
node `(tmp, right)` is appended at every position -/
def walkNodes (leftRest : List Edge) (r : Edge) : List Node :=
  leftRest.reverse.map (fun t => (t.1, r.1))

/-- loop (C): the not yet consumed rest of the left run and of the right run; result = the merged run (what lies
between the position of `left`'s predecessor and `r_end` when the loop ends) and the nodes appended, in order.
`[] , R`: `left == l_end`;  `L, []`: `right == r_end`. -/
def mergeRuns : List Edge → List Edge → List Edge × List Node
  | [], R => (R, [])
  | l :: L, [] => (l :: L, [])
  | l :: L, r :: R =>
    if r.2 < l.2 then
      -- nodes for `right` with every edge from `left` to the end of the left run; `right` moves in front of `left`
      let o := mergeRuns (l :: L) R
      (r :: o.1, walkNodes (l :: L) r ++ o.2)
    else
      -- `left = left->next_in_sel`
      let o := mergeRuns L (r :: R)
      (l :: o.1, o.2)
termination_by L R => L.length + R.length

/-- loop (B): merge run 1 with run 2, run 3 with run 4, …; a last run without partner (`left->jump == nullptr`) or no
run at all (`left == nullptr`) ends the pass -/
def mergePass : List (List Edge) → List (List Edge) × List Node
  | a :: b :: rest =>
    let m := mergeRuns a b
    let o := mergePass rest
    (m.1 :: o.1, m.2 ++ o.2)
  | rs => (rs, [])

theorem mergePass_length : ∀ (rs : List (List Edge)), (mergePass rs).1.length = (rs.length + 1) / 2
  | [] => by simp [mergePass]
  | [_] => by simp [mergePass]
  | a :: b :: rest => by
    have ih := mergePass_length rest
    simp only [mergePass, List.length_cons, ih]
    omega

/-- loop (A): passes until at most one run is left (`left && left->jump` fails); `acc` = nodes appended so far.
Result = final SEL, all nodes. -/
def mergeLoop (runs : List (List Edge)) (acc : List Node) : List Edge × List Node :=
  match runs with
  | [] => ([], acc)
  | [r] => (r, acc)
  | a :: b :: rest =>
    let o := mergePass (a :: b :: rest)
    mergeLoop o.1 (acc ++ o.2)
termination_by runs.length
decreasing_by
  simp only [mergePass_length, List.length_cons]
  omega

/-- result of `BuildIntersectList` -/
structure Out where
  /-- the return value `intersect_nodes_.size() > 0` (`false` also for the early return) -/
  ret : Bool
  /-- `intersect_nodes_` as (edge1, edge2), in the order appended -/
  nodes : List Node
  /-- the SEL from `sel_` along `next_in_sel` when the function returns.  On the early return (fewer than two active
  edges) the C++ does not build the SEL at all; the model then reports the AEL itself (nobody reads the SEL then). -/
  sel : List Edge
  deriving Repr, DecidableEq

/-- `BuildIntersectList`, given the AEL left to right with the `curr_x` values `AdjustCurrXAndCopyToSEL` assigns.
`intersect_nodes_` is empty on entry (`DoIntersections` clears it after every `ProcessIntersectList`). -/
def buildIntersectList (ael : List Edge) : Out :=
  match ael with
  | [] => ⟨false, [], []⟩                      -- `!actives_`
  | [e] => ⟨false, [], [e]⟩                    -- `!actives_->next_in_ael`
  | _ :: _ :: _ =>
    let o := mergeLoop (ael.map (fun e => [e])) []
    ⟨!o.2.isEmpty, o.2, o.1⟩

/-- the whole function on raw edges (`none`: the null dereference described at `adjustCurrX`) -/
def buildFromRaw (raw : List RawEdge) : Option Out :=
  match raw with
  | [] => some ⟨false, [], []⟩
  | [e] => some ⟨false, [], [(e.id, e.topX)]⟩  -- early return: `curr_x` is not even recomputed; reported as `topX`
  | _ :: _ :: _ => (adjustCurrX none raw).map buildIntersectList

/-! ## Specification side (what the theorems of `Props/C10Isect.lean` compare the model with; also executed by the
driver to judge results read from the real object) -/

/-- the *inversions* of an edge list: the pairs `(a.id, b.id)` with `a` before `b` and `b.curr_x < a.curr_x`
(strict: edges with equal `curr_x` are not exchanged), listed by left member -/
def inversions : List Edge → List Node
  | [] => []
  | a :: l => (l.filter (fun b => b.2 < a.2)).map (fun b => (a.1, b.1)) ++ inversions l

/-- the order of the stable sort: by `curr_x` only -/
def leX (a b : Edge) : Bool := decide (a.2 ≤ b.2)

end Clipper.Model.BuildIntersectList
