/-
Model of the control frame of `ClipperOffset` (clipper.offset.cpp): `Group` constructor, `ExecuteInternal`,
`DoGroupOffset`, `BuildNormals`, `OffsetPolygon`, `OffsetOpenJoined`, `OffsetOpenPath`, and the branch
skeleton of `OffsetPoint`.

What is *not* modelled is geometry: unit normals, the sine / cosine between two normals and the vertices
produced by `DoRound/DoMiter/DoSquare/DoBevel` are abstract (`Geo`); the frame only records *which* primitive is
called with *which* arguments (`Emit`).  Numbers (`delta_`, `group_delta_`, `temp_lim_`, sin/cos values) are
rationals: every decision the frame takes is a comparison, so any ordered field would do.
`deltaCallback64_` is taken to be null (the property is about constant delta).

Array reads are checked (`Fault.oob`): the C++ reads `path[i]` / `norms[i]` unchecked, the model reports where an
index leaves the vector.  `size_t` wrap-around of `path.size() - 1` for an empty path is harmless in every place it
occurs (the loops it bounds do not execute), so `Nat` subtraction is used.  Since `DoGroupOffset` skips empty
paths (`if (pathLen == 0) continue;`) no fault is reachable from `executeInternal` (theorem `frame_safe` in
Props/C07.lean); the per-path functions still report the fault they would commit if called on an empty path.
-/
import ClipperVerif.Spec.Basic
import ClipperVerif.Spec.Enums
namespace Clipper.OffsetFrame
open Clipper

inductive Fault | oob
  deriving DecidableEq, Repr

/-- checked `v[i]` -/
def rd (l : List α) (i : Nat) : Except Fault α :=
  match l[i]? with
  | some a => .ok a
  | none => .error .oob

/-- checked `v[i] = a` -/
def wr (l : List α) (i : Nat) (a : α) : Except Fault (List α) :=
  if i < l.length then .ok (l.set i a) else .error .oob

def rabs (x : Rat) : Rat := if x < 0 then -x else x

/-- `floating_point_tolerance` -/
def fpTol : Rat := 1 / 1000000000000
/-- `arc_const` -/
def arcConst : Rat := 2 / 1000

/-- the abstract geometry: `N` is the type of a unit normal (`PointD`) -/
structure Geo (N : Type) where
  /-- `GetUnitNormal(pt1, pt2)` -/
  unitNormal : Pt → Pt → N
  /-- `PointD(-n.x, -n.y)` -/
  neg : N → N
  /-- `CrossProduct(norms[j], norms[k])` clamped to [-1, 1] -/
  sinA : N → N → Rat
  /-- `DotProduct(norms[j], norms[k])` -/
  cosA : N → N → Rat

/-- one step of the raw offset: a geometric primitive with its arguments -/
inductive Emit (N : Type)
  /-- `DoBevel(path, j, k)`; `cap` is `j == k` -/
  | bevel (pj : Pt) (nj nk : N) (cap : Bool) (gd : Rat)
  /-- `DoSquare(path, j, k)` (reads `path[j]`, `path[k]`) -/
  | square (pj pk : Pt) (nj nk : N) (cap : Bool) (gd : Rat)
  /-- `DoMiter(path, j, k, cos_a)` -/
  | miter (pj : Pt) (nj nk : N) (cosA : Rat) (gd : Rat)
  /-- `DoRound(path, j, k, angle)`; `cap`: the angle is π, otherwise `atan2(sin_a, cos_a)` -/
  | round (pj : Pt) (nj nk : N) (cap : Bool) (gd : Rat)
  /-- the three points of a concave join -/
  | concave (pj : Pt) (nj nk : N) (gd : Rat)
  /-- `path_out.emplace_back(path[j])` -/
  | copy (pj : Pt)
  /-- `Ellipse(pt, radius, radius, steps)` for a single point -/
  | circle (p : Pt) (radius : Rat)
  /-- `Rect64(pt.x - d, …)` with `d = ceil(abs_delta)` for a single point -/
  | box (p : Pt) (absDelta : Rat)
  /-- `solution->emplace_back(path_out)` -/
  | endPath
  deriving DecidableEq, Repr

/-- `solution->size()` counts these -/
def Emit.isEnd : Emit N → Bool
  | .endPath => true
  | _ => false

/-! ### Group constructor -/

/-- `std::unique` -/
def unique : Path → Path
  | [] => []
  | [a] => [a]
  | a :: b :: rest => if a = b then unique (b :: rest) else a :: unique (b :: rest)

/-- `while (path.size() > 1 && path.back() == path.front()) path.pop_back()`, on the reversed list -/
def popBackWhileFront (front : Pt) : List Pt → List Pt
  | [] => []
  | [a] => [a]
  | a :: b :: rest => if a = front then popBackWhileFront front (b :: rest) else a :: b :: rest

/-- `StripDuplicates(path, is_closed_path)` -/
def stripDuplicates (closed : Bool) (p : Path) : Path :=
  let u := unique p
  if closed then
    match u with
    | [] => []
    | front :: _ => (popBackWhileFront front u.reverse).reverse
  else u

/-- `GetLowestClosedPathIdx`: the scan state is (result, botPt) -/
def lowestStep (i : Nat) (st : Option Nat × Pt) (pt : Pt) : Option Nat × Pt :=
  if pt.y < st.2.y ∨ (pt.y = st.2.y ∧ pt.x ≥ st.2.x) then st else (some i, pt)

def getLowestClosedPathIdx (paths : Paths) : Option Nat :=
  (paths.zipIdx.foldl (fun st (p, i) => p.foldl (lowestStep i) st)
    ((none : Option Nat), (⟨9223372036854775807, -9223372036854775808⟩ : Pt))).1

structure Group where
  paths : Paths
  jt : JoinType
  et : EndType
  lowest : Option Nat
  isReversed : Bool
  deriving Repr

/-- `ClipperOffset::Group::Group`; `Area(path) < 0` is the sign of the shoelace sum (exact below 2^53, trusted above) -/
def mkGroup (paths : Paths) (jt : JoinType) (et : EndType) : Group :=
  let isJoined := et == .polygon || et == .joined
  let ps := paths.map (stripDuplicates isJoined)
  if et == .polygon then
    let low := getLowestClosedPathIdx ps
    let rev := match low with
      | some i => decide (shoelace2 (ps.getD i []) < 0)
      | none => false
    ⟨ps, jt, et, low, rev⟩
  else ⟨ps, jt, et, none, false⟩

/-! ### per-path offsetting -/

/-- the members of `ClipperOffset` the frame reads and writes -/
structure St where
  /-- `delta_` -/
  delta : Rat
  /-- `group_delta_` -/
  groupDelta : Rat
  /-- `join_type_` -/
  jt : JoinType
  /-- `end_type_` -/
  et : EndType
  /-- `temp_lim_` -/
  tempLim : Rat
  /-- inputs of the arc step set-up last performed: (abs_delta, arcTol, group_delta_ < 0);
  `steps_per_rad_`, `step_sin_`, `step_cos_` are functions of these -/
  arc : Option (Rat × Rat × Bool)
  deriving DecidableEq, Repr

/-- `BuildNormals` (iterator based: no index can leave the vector) -/
def buildNormals (g : Geo N) : Path → List N
  | [] => []
  | a :: rest => (segsOf (a :: rest)).map (fun e => g.unitNormal e.1 e.2) ++ [g.unitNormal ((a :: rest).getLast?.getD a) a]

/-- which branch `OffsetPoint` takes, as a function of the quantities it compares -/
inductive Branch | skip | copy | concave | miter | square | round | bevel
  deriving DecidableEq, Repr

def branchOf (jt : JoinType) (tempLim gd sinA cosA : Rat) (samePoint : Bool) : Branch :=
  if samePoint then .skip
  else if rabs gd ≤ fpTol then .copy
  else if cosA > -999 / 1000 ∧ sinA * gd < 0 then .concave
  else if cosA > 999 / 1000 ∧ jt ≠ .round then .miter
  else if jt = .miter then (if cosA > tempLim - 1 then .miter else .square)
  else if jt = .round then .round
  else if jt = .bevel then .bevel
  else .square

/-- `OffsetPoint(group, path, j, k)`; `jt` = `join_type_`, `tl` = `temp_lim_`, `gd` = `group_delta_` -/
def offsetPoint (g : Geo N) (jt : JoinType) (tl gd : Rat) (path : Path) (norms : List N) (j k : Nat) :
    Except Fault (List (Emit N)) :=
  match rd path j with
  | .error e => .error e
  | .ok pj =>
  match rd path k with
  | .error e => .error e
  | .ok pk =>
  if pj = pk then .ok []
  else
  match rd norms j with
  | .error e => .error e
  | .ok nj =>
  match rd norms k with
  | .error e => .error e
  | .ok nk =>
    let sinA := g.sinA nj nk
    let cosA := g.cosA nj nk
    match branchOf jt tl gd sinA cosA false with
    | .skip => .ok []
    | .copy => .ok [.copy pj]
    | .concave => .ok [.concave pj nj nk gd]
    | .miter => .ok [.miter pj nj nk cosA gd]
    | .square => .ok [.square pj pk nj nk false gd]
    | .round => .ok [.round pj nj nk false gd]
    | .bevel => .ok [.bevel pj nj nk false gd]

/-- run `f` over a list of index pairs, concatenating what is emitted, stopping at the first fault -/
def mapE (f : α → Except Fault (List β)) : List α → Except Fault (List β)
  | [] => .ok []
  | a :: as =>
    match f a with
    | .error e => .error e
    | .ok b =>
      match mapE f as with
      | .error e => .error e
      | .ok bs => .ok (b ++ bs)

/-- `for (j = j0, k = k0; j < hi; k = j, ++j)`: the (j, k) pairs visited (`fuel` ≥ number of iterations) -/
def upLoop (hi : Nat) : Nat → Nat → Nat → List (Nat × Nat)
  | 0, _, _ => []
  | fuel + 1, j, k => if j < hi then (j, k) :: upLoop hi fuel (j + 1) j else []

/-- `for (j = j0, k = k0; j > 0; k = j, --j)` -/
def downLoop : Nat → Nat → List (Nat × Nat)
  | 0, _ => []
  | j + 1, k => (j + 1, k) :: downLoop j (j + 1)

/-- `OffsetPolygon`: `for (j = 0, k = path.size() - 1; j < path.size(); k = j, ++j)` -/
def polygonIdx (n : Nat) : List (Nat × Nat) := upLoop n n 0 (n - 1)

def offsetPolygon (g : Geo N) (jt : JoinType) (tl gd : Rat) (path : Path) (norms : List N) : Except Fault (List (Emit N)) :=
  match mapE (fun jk => offsetPoint g jt tl gd path norms jk.1 jk.2) (polygonIdx path.length) with
  | .error e => .error e
  | .ok es => .ok (es ++ [.endPath])

/-- the rebuilding of the normals in `OffsetOpenJoined`:
`reverse; norms.emplace_back(norms[0]); norms.erase(norms.begin()); NegatePath(norms)` -/
def joinedNorms (g : Geo N) (norms : List N) : Except Fault (List N) :=
  let r := norms.reverse
  match rd r 0 with
  | .error e => .error e
  | .ok first => .ok (((r ++ [first]).drop 1).map g.neg)

def offsetOpenJoined (g : Geo N) (jt : JoinType) (tl gd : Rat) (path : Path) (norms : List N) : Except Fault (List (Emit N)) :=
  match offsetPolygon g jt tl gd path norms with
  | .error e => .error e
  | .ok a =>
  match joinedNorms g norms with
  | .error e => .error e
  | .ok norms' =>
  match offsetPolygon g jt tl gd path.reverse norms' with
  | .error e => .error e
  | .ok b => .ok (a ++ b)

/-- the cap of `OffsetOpenPath` at index `i` (`et` = `end_type_`) -/
def cap (et : EndType) (gd : Rat) (path : Path) (norms : List N) (i : Nat) : Except Fault (List (Emit N)) :=
  match rd path i with
  | .error e => .error e
  | .ok p =>
  if rabs gd ≤ fpTol then .ok [.copy p]
  else
  match rd norms i with
  | .error e => .error e
  | .ok n =>
    match et with
    | .butt => .ok [.bevel p n n true gd]
    | .round => .ok [.round p n n true gd]
    | _ => .ok [.square p p n n true gd]

/-- `for (size_t i = highI; i > 0; --i) norms[i] = PointD(-norms[i - 1].x, -norms[i - 1].y);` -/
def revLoop (g : Geo N) : Nat → List N → Except Fault (List N)
  | 0, ns => .ok ns
  | i + 1, ns =>
    match rd ns i with
    | .error e => .error e
    | .ok v =>
      match wr ns (i + 1) (g.neg v) with
      | .error e => .error e
      | .ok ns' => revLoop g i ns'

/-- the whole "reverse normals" block: the loop, then `norms[0] = norms[highI]` -/
def reverseNorms (g : Geo N) (highI : Nat) (norms : List N) : Except Fault (List N) :=
  match revLoop g highI norms with
  | .error e => .error e
  | .ok ns =>
  match rd ns highI with
  | .error e => .error e
  | .ok v => wr ns 0 v

def offsetOpenPath (g : Geo N) (jt : JoinType) (et : EndType) (tl gd : Rat) (path : Path) (norms : List N) :
    Except Fault (List (Emit N)) :=
  let highI := path.length - 1
  match cap et gd path norms 0 with
  | .error e => .error e
  | .ok c0 =>
  match mapE (fun jk => offsetPoint g jt tl gd path norms jk.1 jk.2) (upLoop highI highI 1 0) with
  | .error e => .error e
  | .ok fwd =>
  match reverseNorms g highI norms with
  | .error e => .error e
  | .ok norms' =>
  match cap et gd path norms' highI with
  | .error e => .error e
  | .ok c1 =>
  match mapE (fun jk => offsetPoint g jt tl gd path norms' jk.1 jk.2) (downLoop (highI - 1) highI) with
  | .error e => .error e
  | .ok bwd => .ok (c0 ++ fwd ++ c1 ++ bwd ++ [.endPath])

/-- the (j, k) arguments of the successive cap / `OffsetPoint` calls issued for a path of `n ≥ 2` points under
`end_type_ = et` (what a `DeltaCallback64` observes): the same loop functions as the model above -/
def idxTrace (et : EndType) (n : Nat) : List (Nat × Nat) :=
  match et with
  | .polygon => polygonIdx n
  | .joined => polygonIdx n ++ polygonIdx n
  | _ => (0, 0) :: upLoop (n - 1) (n - 1) 1 0 ++ (n - 1, n - 1) :: downLoop (n - 1 - 1) (n - 1)


/-- `end_type_` for a path of at least two points: `end_type_ = group.end_type;` followed by the 2-point override -/
def endTypeFor (jt : JoinType) (grpEt : EndType) (len : Nat) : EndType :=
  if len = 2 ∧ grpEt = .joined then (if jt = .round then .round else .square) else grpEt

/-- the same for any path length: an empty path issues no call, a single point one `(0, 0)` -/
def pathTrace (jt : JoinType) (grpEt : EndType) (n : Nat) : List (Nat × Nat) :=
  if n = 0 then [] else if n = 1 then [(0, 0)] else idxTrace (endTypeFor jt grpEt n) n

/-- the primitive chosen for a path of at least two points (or none) by `end_type_` -/
def offsetByEndType (g : Geo N) (jt : JoinType) (et : EndType) (tl gd : Rat) (path : Path) : Except Fault (List (Emit N)) :=
  let norms := buildNormals g path
  if et = .polygon then offsetPolygon g jt tl gd path norms
  else if et = .joined then offsetOpenJoined g jt tl gd path norms
  else offsetOpenPath g jt et tl gd path norms

/-- the shape of a single point -/
def singlePoint (jt : JoinType) (gd : Rat) (pt : Pt) : List (Emit N) :=
  if gd < 1 then []
  else if jt = .round then [.circle pt (rabs gd), .endPath]
  else [.box pt (rabs gd), .endPath]

/-- the body of the path loop of `DoGroupOffset` for one path; `et` is the member `end_type_` on entry,
the result carries `end_type_` on exit.  An empty path is skipped (`if (pathLen == 0) continue;`), a single
point leaves `end_type_` alone, every other path first resets it to the group's end type. -/
def doPath (g : Geo N) (jt : JoinType) (grpEt : EndType) (tl gd : Rat) (et : EndType) (path : Path) :
    Except Fault (EndType × List (Emit N)) :=
  match path with
  | [] => .ok (et, [])
  | [pt] => .ok (et, singlePoint jt gd pt)
  | _ =>
    let et' := endTypeFor jt grpEt path.length
    match offsetByEndType g jt et' tl gd path with
    | .error e => .error e
    | .ok es => .ok (et', es)

def doPaths (g : Geo N) (jt : JoinType) (grpEt : EndType) (tl gd : Rat) : EndType → List Path → Except Fault (EndType × List (Emit N))
  | et, [] => .ok (et, [])
  | et, p :: ps =>
    match doPath g jt grpEt tl gd et p with
    | .error e => .error e
    | .ok (et1, es1) =>
      match doPaths g jt grpEt tl gd et1 ps with
      | .error e => .error e
      | .ok (et2, es2) => .ok (et2, es1 ++ es2)

/-- the arc-tolerance actually used by the step set-up -/
def arcTolUsed (arcTolerance absDelta : Rat) : Rat :=
  if arcTolerance > fpTol then (if absDelta < arcTolerance then absDelta else arcTolerance) else absDelta * arcConst

/-- the prologue of `DoGroupOffset`: `delta_`, `group_delta_`, `join_type_`, `end_type_`, arc steps -/
def groupSetup (arcTolerance : Rat) (grp : Group) (st : St) : St :=
  -- `const double d = group.lowest_path_idx.has_value() ? delta_ : std::abs(delta_);`  (`delta_` is not written)
  let d := if grp.lowest.isSome then st.delta else rabs st.delta
  let gd := if grp.et = .polygon then (if grp.isReversed then -d else d) else rabs st.delta
  let absDelta := rabs gd
  { delta := st.delta, groupDelta := gd, jt := grp.jt, et := grp.et, tempLim := st.tempLim,
    arc := if grp.jt = .round ∨ grp.et = .round then some (absDelta, arcTolUsed arcTolerance absDelta, decide (gd < 0)) else st.arc }

/-- `DoGroupOffset` -/
def doGroupOffset (g : Geo N) (arcTolerance : Rat) (grp : Group) (st : St) : Except Fault (St × List (Emit N)) :=
  let st1 := groupSetup arcTolerance grp st
  match doPaths g grp.jt grp.et st1.tempLim st1.groupDelta st1.et grp.paths with
  | .error e => .error e
  | .ok (et', es) => .ok ({ st1 with et := et' }, es)

def doGroups (g : Geo N) (arcTolerance : Rat) : St → List Group → Except Fault (St × List (Emit N))
  | st, [] => .ok (st, [])
  | st, grp :: gs =>
    match doGroupOffset g arcTolerance grp st with
    | .error e => .error e
    | .ok (st1, es1) =>
      match doGroups g arcTolerance st1 gs with
      | .error e => .error e
      | .ok (st2, es2) => .ok (st2, es1 ++ es2)

/-- `CheckReverseOrientation` -/
def checkReverseOrientation : List Group → Bool
  | [] => false
  | grp :: gs => if grp.et = .polygon ∧ grp.lowest.isSome then grp.isReversed else checkReverseOrientation gs

/-- constructor parameters of `ClipperOffset` -/
structure Params where
  miterLimit : Rat
  arcTolerance : Rat
  preserveCollinear : Bool
  reverseSolution : Bool
  deriving Repr

/-- what is handed to the clean-up union -/
inductive Raw (N : Type)
  /-- `|delta| < 0.5`: the stripped input paths of the Polygon groups themselves -/
  | copied (paths : Paths)
  /-- the primitives issued, in order -/
  | built (emits : List (Emit N))
  deriving DecidableEq, Repr

structure Frame (N : Type) where
  raw : Raw N
  /-- fill rule of the clean-up union -/
  fill : FillRule
  /-- `c.ReverseSolution(…)` of the clean-up union -/
  reverse : Bool
  preserveCollinear : Bool
  /-- members left behind (read by the correspondence harness, and by the next `Execute`) -/
  final : Option St

def initSt (prm : Params) (delta : Rat) : St :=
  { delta := delta, groupDelta := 0, jt := .bevel, et := .polygon,
    tempLim := if prm.miterLimit ≤ 1 then 2 else 2 / (prm.miterLimit * prm.miterLimit), arc := none }

/-- `ExecuteInternal(delta)`; `none`: nothing is passed to the union (`groups_` or the raw solution is empty).
(The members `group_delta_`, `join_type_`, `end_type_` with which a fresh object starts are irrelevant: every
group overwrites them before use.) -/
def executeInternal (g : Geo N) (prm : Params) (groups : List Group) (delta : Rat) : Except Fault (Option (Frame N)) :=
  if groups.isEmpty then .ok none
  else
    let rev := checkReverseOrientation groups
    let mk := fun (raw : Raw N) (final : Option St) =>
      (⟨raw, if rev then FillRule.negative else FillRule.positive, prm.reverseSolution != rev, prm.preserveCollinear, final⟩ : Frame N)
    if rabs delta < 1 / 2 then
      -- only Polygon groups pass through: open paths have no area
      let ps := (groups.filter (fun grp => grp.et = .polygon)).flatMap (·.paths)
      .ok (if ps.isEmpty then none else some (mk (.copied ps) none))
    else
      match doGroups g prm.arcTolerance (initSt prm delta) groups with
      | .error e => .error e
      | .ok (st, es) => .ok (if es.any Emit.isEnd then some (mk (.built es) (some st)) else none)

end Clipper.OffsetFrame
