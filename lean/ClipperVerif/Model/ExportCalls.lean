/-
Vocabulary of `Generated/ExportCalls.lean` (written by tools/extract_calls.py from the clang AST of
clipper.export.h on every run): for every exported function its parameters, its validation prefix and every
call of a Clipper2 API (constructor / method / free function) with, per argument slot, the *callee's*
parameter name and what is passed, expressed in the exported function's own parameters.
Also: the evaluator of a validation prefix and the decidable `forwards` judgement of C17.
Core Lean only.
-/
namespace Clipper.Model.ExportCalls

/-- what is passed in an argument slot (locals are inlined by the extractor) -/
inductive ArgKind
  | direct    -- exported parameter `param` itself, possibly through a value-preserving cast (`JoinType(jointype)`)
  | scaled    -- `param * scale` with `scale = std::pow(10, precision)`
  | conv      -- a marshalling helper applied to `param` (`ConvertCPathsToPathsT(subjects)`, `ScaleRect(CRectToRect(rect), scale)` …)
  | output    -- a local without initialiser: receives a result
  | dflt      -- the callee's default argument (nothing passed)
  | const     -- a literal constant
  | other     -- anything else (constants, expressions the extractor does not classify)
  deriving DecidableEq, Repr

structure Arg where
  slot : String          -- the callee's parameter name, from the callee's declaration
  expr : String          -- normalised rendering of the argument expression
  kind : ArgKind
  param : String         -- for direct / scaled / conv: the exported parameter
  deps : List String     -- every exported parameter the expression depends on (through locals)
  deriving DecidableEq, Repr

structure Call where
  callee : String        -- `Class.ctor`, `Class.Method` or a free function
  args : List Arg
  deriving DecidableEq, Repr

/-- atoms of the conditions of the validation prefix -/
inductive Atom
  | gt (p : String) (n : Int)     -- `p > n`
  | lt (p : String) (n : Int)     -- `p < n`
  | isNull (p : String)           -- `!p`
  | rectEmpty (p : String)        -- `CRectIsEmpty(p)`
  | unknown (s : String)
  deriving DecidableEq, Repr

/-- `if (a1 || a2 || …) return ret;` -/
structure Guard where
  any : List Atom
  ret : String
  deriving DecidableEq, Repr

inductive Role | input | output
  deriving DecidableEq, Repr

structure Param where
  name : String
  ty : String
  role : Role
  deriving DecidableEq, Repr

structure ExportFn where
  name : String
  params : List Param
  validation : List Guard
  calls : List Call
  /-- assignments to output parameters and the returned expression (`"return"`) -/
  results : List (String × String)
  deriving DecidableEq, Repr

/-! ### validation prefix -/

/-- the argument values a validation prefix can look at -/
structure VArgs where
  cliptype : Int
  fillrule : Int
  precision : Int
  pathsNull : Bool
  rectEmpty : Bool

def Atom.eval (a : VArgs) : Atom → Option Bool
  | .gt "cliptype" n => some (decide (a.cliptype > n))
  | .gt "fillrule" n => some (decide (a.fillrule > n))
  | .gt "precision" n => some (decide (a.precision > n))
  | .lt "cliptype" n => some (decide (a.cliptype < n))
  | .lt "fillrule" n => some (decide (a.fillrule < n))
  | .lt "precision" n => some (decide (a.precision < n))
  | .isNull "paths" => some a.pathsNull
  | .isNull "path" => some a.pathsNull
  | .rectEmpty "rect" => some a.rectEmpty
  | _ => none

/-- `a1 || a2 || …` with C++ short-circuit; `none` if an atom is not understood -/
def evalAny (a : VArgs) : List Atom → Option Bool
  | [] => some false
  | x :: xs => match x.eval a with
    | none => none
    | some true => some true
    | some false => evalAny a xs

/-- the value returned by the validation prefix: `some code`, or `none` when every guard is passed -/
def evalGuards (a : VArgs) : List Guard → Option String
  | [] => none
  | g :: gs => match evalAny a g.any with
    | none => some "not-understood"
    | some true => some g.ret
    | some false => evalGuards a gs

def evalPrefix (gs : List Guard) (ct fr prec : Int) (pathsNull rectEmpty : Bool) : Option String :=
  evalGuards ⟨ct, fr, prec, pathsNull, rectEmpty⟩ gs

/-! ### forwarding -/

/-- callee parameter name ↔ exported parameter name with the same meaning, where the spelling differs -/
def synonyms : List (String × String) := [
  ("clip_type", "cliptype"), ("fill_rule", "fillrule"),
  ("jt_", "jointype"), ("et_", "endtype"),
  ("open_subjects", "subjects_open"),
  ("pattern", "cpattern"), ("path", "cpath"), ("isClosed", "is_closed")]

/-- setters whose parameter is called `val`: the method name says what is set -/
def setterMeaning : List (String × String) := [
  ("Clipper64.PreserveCollinear", "preserve_collinear"), ("Clipper64.ReverseSolution", "reverse_solution"),
  ("ClipperD.PreserveCollinear", "preserve_collinear"), ("ClipperD.ReverseSolution", "reverse_solution")]

/-- exported parameters that are lengths: they, and only they, are multiplied by `scale` in functions working at a precision -/
def lengthParams : List String := ["delta", "arc_tolerance"]

def sameMeaning (callee slot param : String) : Bool :=
  slot == param || synonyms.contains (slot, param) || (slot == "val" && setterMeaning.contains (callee, param))

def ExportFn.inputs (e : ExportFn) : List String :=
  (e.params.filter (·.role == .input)).map (·.name)

def ExportFn.hasPrecision (e : ExportFn) : Bool := e.inputs.contains "precision"

/-- is the function one that scales by `10^precision` itself (as opposed to handing `precision` on)? -/
def ExportFn.scales (e : ExportFn) : Bool :=
  e.hasPrecision && !(e.calls.any fun c => c.args.any fun a => a.kind == .direct && a.param == "precision")

/-- one argument slot is filled correctly -/
def argOk (e : ExportFn) (callee : String) (a : Arg) : Bool :=
  match a.kind with
  | .direct => sameMeaning callee a.slot a.param && !(e.scales && lengthParams.contains a.param)
  | .scaled => sameMeaning callee a.slot a.param && e.scales && lengthParams.contains a.param
  -- a conversion in a function working at a precision must take the scale along
  | .conv => sameMeaning callee a.slot a.param && (!e.scales || a.deps.contains "precision")
  | .output => true
  -- a defaulted (or constant) slot is only acceptable if the exported function has no parameter of that meaning
  | .dflt => !(e.inputs.any fun p => sameMeaning callee a.slot p)
  | .const => !(e.inputs.any fun p => sameMeaning callee a.slot p)
  | .other => false

/-- the exported parameter `p` reaches a slot of its meaning -/
def covered (e : ExportFn) (p : String) : Bool :=
  (e.calls.any fun c => c.args.any fun a =>
      (a.kind == .direct || a.kind == .scaled || a.kind == .conv) && a.param == p && sameMeaning c.callee a.slot p)
  || (p == "precision" && e.scales && e.calls.any fun c => c.args.any fun a => a.deps.contains "precision")

/-- C17 `forwarding`: every argument sits in a slot of its own meaning (lengths scaled exactly when the function
works at a precision), no slot for which a parameter exists is left to its default, and every input parameter is
forwarded. -/
def forwards (e : ExportFn) : Bool :=
  (e.calls.all fun c => c.args.all (argOk e c.callee)) && e.inputs.all (covered e)

end Clipper.Model.ExportCalls
