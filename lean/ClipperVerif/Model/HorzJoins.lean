/-
Model of the *horizontal join* machinery of the sweep (clipper.engine.cpp), on an abstract heap of `OutPt`s:

  `DuplicateOp`, `GetRealOutRec`, `GetLastOp`, `AddTrialHorzJoin`, `SetHorzSegHeadingForward`, `UpdateHorzSegment`,
  `HorzSegSorter` (the definition regenerated from the source, `Generated/Engine.lean`), `ConvertHorzSegsToJoins`
  (count_if / stable_sort / the two nested loops with both branches, their `while` walks and the two `DuplicateOp`s),
  `FixOutRecPts`, `NewOutRec`, `SetOwner`, `MoveSplits`, `ProcessHorzJoins` (the ring surgery, the same-ring "split" branch with its
  `Path1InsidePath2` decisions and the `splits` list, the two-ring "merge" branch with `SetOwner`/`MoveSplits`),
  and, for the correspondence only, `PointInOpPolygon`, `GetCleanPath`, `Path1InsidePath2`.

Representation (AGENT_GUIDE: pointers become indices, mutation returns the new value).
* An `OutPt*` is an index into `Heap.ops`; a node carries `pt`, `next`, `prev`, `orec` (the index of `op->outrec` in `outrec_list_`)
  and `horz` (= `op->horz != nullptr`: the pointer is only ever tested for null).  `new OutPt` appends to the array.
* An `OutRec*` is an index into `Heap.recs` (`outrec_list_`; `NewOutRec` appends, `idx` = position); `none` = `nullptr`.
  Kept per record: `pts`, `owner`, `splits` (`none` = `nullptr`, `some []` = an allocated empty vector), `hasEdges`
  (= `front_edge != nullptr`, only tested for null by `UpdateHorzSegment`), `isOpen`.
* A `HorzSegment` is `(left_op, right_op, left_to_right)`, a `HorzJoin` is `(op1, op2)`.
* Every function returns `Except Err _`: `null` = the C++ would dereference a null pointer, `dangling` = an index outside the heap
  (a wild pointer), `diverge` = a `while` loop did not finish within the fuel.  Fuel is always `size of the heap + 1`;
  `Props/C02Horz.lean` proves that on a well-formed heap this fuel suffices exactly when the C++ loop terminates.
* `Path1InsidePath2` is a parameter `inside : List Pt → List Pt → Bool` of `processJoin` (arguments: the two rings' points read from
  `or->pts` following `->next`); the theorems hold for every `inside`, the correspondence instantiates it with `path1InsidePath2`
  below, itself tied to the real function.

The evaluation order of the two `DuplicateOp` calls in `HorzJoin(DuplicateOp(a, true), DuplicateOp(b, false))` is unspecified in C++;
the model performs them left to right.  The two insertions commute up to the names of the two new nodes (`Props/C02Horz.lean`,
`duplicateOp_commute_*` examples) and the harness names new nodes by their position in `horz_join_list_`, not by allocation order.

Core Lean only (the driver executable links this file).
-/
import ClipperVerif.Model.Geom
import ClipperVerif.Model.Owner
import ClipperVerif.Generated.Engine
namespace Clipper.Model.HorzJoins
open Clipper

inductive Err
  | null | dangling | diverge
  deriving DecidableEq, Repr, Inhabited

abbrev R := Except Err

/-- one `OutPt` -/
structure Node where
  pt : Pt
  next : Nat
  prev : Nat
  orec : Nat
  horz : Bool := false
  deriving DecidableEq, Repr, Inhabited

/-- the fields of an `OutRec` the join machinery reads or writes -/
structure ORec where
  pts : Option Nat := none
  owner : Option Nat := none
  splits : Option (List Nat) := none
  hasEdges : Bool := false
  isOpen : Bool := false
  deriving DecidableEq, Repr, Inhabited

structure Heap where
  ops : Array Node
  recs : Array ORec
  deriving DecidableEq, Repr, Inhabited

structure HorzSeg where
  leftOp : Nat
  rightOp : Option Nat := none
  ltr : Bool := true
  deriving DecidableEq, Repr, Inhabited

structure HorzJoin where
  op1 : Nat
  op2 : Nat
  deriving DecidableEq, Repr, Inhabited

/-! ## heap access -/

/-- `*op` -/
def Heap.node (H : Heap) (i : Nat) : R Node :=
  match H.ops[i]? with
  | some n => .ok n
  | none => .error .dangling

/-- `*outrec` -/
def Heap.orec (H : Heap) (i : Nat) : R ORec :=
  match H.recs[i]? with
  | some r => .ok r
  | none => .error .dangling

/-- a write through an `OutPt*` -/
def Heap.updNode (H : Heap) (i : Nat) (f : Node → Node) : R Heap :=
  if i < H.ops.size then .ok { H with ops := H.ops.modify i f } else .error .dangling

/-- a write through an `OutRec*` -/
def Heap.updRec (H : Heap) (i : Nat) (f : ORec → ORec) : R Heap :=
  if i < H.recs.size then .ok { H with recs := H.recs.modify i f } else .error .dangling

/-- the fuel of every loop over `OutPt`s -/
def Heap.fuel (H : Heap) : Nat := H.ops.size + 1

/-- `GetRealOutRec`: `while (outrec && !outrec->pts) outrec = outrec->owner; return outrec;` -/
def getRealOutRec (H : Heap) : Nat → Option Nat → R (Option Nat)
  | 0, _ => .error .diverge
  | _, none => .ok none
  | f + 1, some i =>
    match H.orec i with
    | .error e => .error e
    | .ok r => if r.pts.isSome then .ok (some i) else getRealOutRec H f r.owner

/-- `GetRealOutRec(op->outrec)` for a valid `op` -/
def realOf (H : Heap) (orec : Nat) : R (Option Nat) := getRealOutRec H (H.recs.size + 1) (some orec)

/-- `op->next` (`fwd`) or `op->prev` -/
def stepOp (H : Heap) (fwd : Bool) (i : Nat) : R Nat :=
  match H.node i with
  | .ok n => .ok (if fwd then n.next else n.prev)
  | .error e => .error e

/-- the shape of every `while` walk of this code: with `nx = cur->next` (or `->prev`)

    while (!pre(cur) && cond(nx, *nx)) cur = nx;

returns the final `cur`. -/
def walk (H : Heap) (fwd : Bool) (pre : Nat → Bool) (cond : Nat → Node → Bool) : Nat → Nat → R Nat
  | 0, _ => .error .diverge
  | f + 1, cur =>
    if pre cur then .ok cur
    else match stepOp H fwd cur with
      | .error e => .error e
      | .ok nx =>
        match H.node nx with
        | .error e => .error e
        | .ok nn => if cond nx nn then walk H fwd pre cond f nx else .ok cur

/-- the `OutPt`s of the ring of `start`, read following `->next` until `start` comes round again
(`do { …; op = op->next; } while (op != start);`) -/
def ringFrom (H : Heap) (start : Nat) : Nat → Nat → R (List Nat)
  | 0, _ => .error .diverge
  | f + 1, cur =>
    match H.node cur with
    | .error e => .error e
    | .ok n =>
      if n.next = start then .ok [cur]
      else match ringFrom H start f n.next with
        | .error e => .error e
        | .ok rest => .ok (cur :: rest)

def ring (H : Heap) (start : Nat) : R (List Nat) := ringFrom H start H.fuel start

/-- the points of a list of valid `OutPt`s -/
def ptsOf (H : Heap) : List Nat → R (List Pt)
  | [] => .ok []
  | i :: is =>
    match H.node i, ptsOf H is with
    | .ok n, .ok ps => .ok (n.pt :: ps)
    | .error e, _ => .error e
    | _, .error e => .error e

/-- the point sequence of the ring of `start` following `->next` -/
def ringPts (H : Heap) (start : Nat) : R (List Pt) :=
  match ring H start with
  | .ok l => ptsOf H l
  | .error e => .error e

/-! ## `DuplicateOp` -/

/-- `DuplicateOp(op, insert_after)`: returns the heap and the new `OutPt`.

    OutPt* result = new OutPt(op->pt, op->outrec);
    if (insert_after) { result->next = op->next; result->next->prev = result; result->prev = op; op->next = result; }
    else              { result->prev = op->prev; result->prev->next = result; result->next = op; op->prev = result; } -/
def duplicateOp (H : Heap) (op : Nat) (insertAfter : Bool) : R (Heap × Nat) :=
  match H.node op with
  | .error e => .error e
  | .ok n =>
    let new := H.ops.size
    if insertAfter then
      let H1 : Heap := { H with ops := H.ops.push { pt := n.pt, next := n.next, prev := op, orec := n.orec, horz := false } }
      match H1.updNode n.next (fun x => { x with prev := new }) with
      | .error e => .error e
      | .ok H2 =>
        match H2.updNode op (fun x => { x with next := new }) with
        | .error e => .error e
        | .ok H3 => .ok (H3, new)
    else
      let H1 : Heap := { H with ops := H.ops.push { pt := n.pt, next := op, prev := n.prev, orec := n.orec, horz := false } }
      match H1.updNode n.prev (fun x => { x with next := new }) with
      | .error e => .error e
      | .ok H2 =>
        match H2.updNode op (fun x => { x with prev := new }) with
        | .error e => .error e
        | .ok H3 => .ok (H3, new)

/-! ## trial joins: `GetLastOp`, `AddTrialHorzJoin` -/

/-- `GetLastOp(hot_edge)`: `result = outrec->pts; if (&hot_edge != outrec->front_edge) result = result->next;`
with `outrec = hot_edge.outrec` = record `ri` and `isFront` = `&hot_edge == outrec->front_edge` -/
def getLastOp (H : Heap) (ri : Nat) (isFront : Bool) : R Nat :=
  match H.orec ri with
  | .error e => .error e
  | .ok r =>
    match r.pts with
    | none => .error .null
    | some p => if isFront then .ok p else stepOp H true p

/-- `AddTrialHorzJoin(op)`: `if (op->outrec->is_open) return; horz_seg_list_.emplace_back(op);` -/
def addTrialHorzJoin (H : Heap) (segs : List HorzSeg) (op : Nat) : R (List HorzSeg) :=
  match H.node op with
  | .error e => .error e
  | .ok n =>
    match H.orec n.orec with
    | .error e => .error e
    | .ok r => if r.isOpen then .ok segs else .ok (segs ++ [{ leftOp := op }])

/-! ## `UpdateHorzSegment` -/

/-- `SetHorzSegHeadingForward(hs, opP, opN)`; `xP`, `xN` are `opP->pt.x`, `opN->pt.x` -/
def setHeading (hs : HorzSeg) (opP opN : Nat) (xP xN : Int) : HorzSeg × Bool :=
  if xP = xN then (hs, false)
  else if xP < xN then ({ leftOp := opP, rightOp := some opN, ltr := true }, true)
  else ({ leftOp := opN, rightOp := some opP, ltr := false }, true)

/-- the two walks of `UpdateHorzSegment` from `op` on the horizontal line `y`: the ends `(opP, opN)` of the run.
* `outrecHasEdges` (the ring is still being built, `opA = outrec->pts` is its front end and `opZ = opA->next` its back end):
  `while (opP != opZ && opP->prev->pt.y == curr_y) opP = opP->prev; while (opN != opA && opN->next->pt.y == curr_y) opN = opN->next;`
* otherwise: `while (opP->prev != opN && opP->prev->pt.y == curr_y) opP = opP->prev;` (with `opN == op`), then
  `while (opN->next != opP && opN->next->pt.y == curr_y) opN = opN->next;` -/
def runEnds (H : Heap) (op : Nat) (y : Int) (ends : Option (Nat × Nat)) : R (Nat × Nat) :=
  match ends with
  | some (opA, opZ) =>
    match walk H false (fun c => c == opZ) (fun _ nn => nn.pt.y == y) H.fuel op with
    | .error e => .error e
    | .ok opP =>
      match walk H true (fun c => c == opA) (fun _ nn => nn.pt.y == y) H.fuel op with
      | .error e => .error e
      | .ok opN => .ok (opP, opN)
  | none =>
    match walk H false (fun _ => false) (fun nx nn => nx != op && nn.pt.y == y) H.fuel op with
    | .error e => .error e
    | .ok opP =>
      match walk H true (fun _ => false) (fun nx nn => nx != opP && nn.pt.y == y) H.fuel op with
      | .error e => .error e
      | .ok opN => .ok (opP, opN)

/-- `outrecHasEdges ? some (opA, opZ) : none` with `opA = outrec->pts`, `opZ = opA->next` -/
def segEnds (H : Heap) (r : ORec) : R (Option (Nat × Nat)) :=
  if r.hasEdges then
    match r.pts with
    | none => .error .null
    | some opA =>
      match H.node opA with
      | .error e => .error e
      | .ok nA => .ok (some (opA, nA.next))
  else .ok none

/-- the end of `UpdateHorzSegment`, `ok` = what `SetHorzSegHeadingForward` returned:

    bool result = SetHorzSegHeadingForward(hs, opP, opN) && !hs.left_op->horz;
    if (result) hs.left_op->horz = &hs; else hs.right_op = nullptr; // (for sorting)
    return result; -/
def markSegment (H : Heap) (hs : HorzSeg) (ok : Bool) : R (Heap × HorzSeg × Bool) :=
  match H.node hs.leftOp with
  | .error e => .error e
  | .ok nL =>
    if ok && !nL.horz then
      match H.updNode hs.leftOp (fun x => { x with horz := true }) with
      | .error e => .error e
      | .ok H1 => .ok (H1, hs, true)
    else .ok (H, { hs with rightOp := none }, false)

/-- `UpdateHorzSegment(hs)`: the heap (one `horz` mark may be set), the segment, and the return value -/
def updateHorzSegment (H : Heap) (hs : HorzSeg) : R (Heap × HorzSeg × Bool) := do
  let op := hs.leftOp
  let n ← H.node op
  -- OutRec* outrec = GetRealOutRec(op->outrec); bool outrecHasEdges = outrec->front_edge;
  let some ri ← realOf H n.orec | .error .null
  let r ← H.orec ri
  let ends ← segEnds H r
  let pn ← runEnds H op n.pt.y ends
  let nP ← H.node pn.1
  let nN ← H.node pn.2
  let hd := setHeading hs pn.1 pn.2 nP.pt.x nN.pt.x
  markSegment H hd.1 hd.2

/-! ## `ConvertHorzSegsToJoins` -/

/-- `std::count_if(horz_seg_list_.begin(), horz_seg_list_.end(), [](HorzSegment& hs) { return UpdateHorzSegment(hs); })`:
the heap, the updated segments and the count -/
def updateAll (H : Heap) : List HorzSeg → R (Heap × List HorzSeg × Nat)
  | [] => .ok (H, [], 0)
  | hs :: rest =>
    match updateHorzSegment H hs with
    | .error e => .error e
    | .ok (H1, hs1, b) =>
      match updateAll H1 rest with
      | .error e => .error e
      | .ok (H2, rest1, j) => .ok (H2, hs1 :: rest1, if b then j + 1 else j)

/-- `HorzSegSorter()(hs1, hs2)` on segments paired with `left_op->pt.x` — the regenerated definition -/
def segBefore (a b : HorzSeg × Int) : Bool :=
  Clipper.Gen.HorzSegSorter a.2 a.1.rightOp.isSome b.2 b.1.rightOp.isSome

/-- the non-strict order `std::stable_sort` sorts by when given the strict comparator `comp`: `¬ comp b a` -/
def segLe (a b : HorzSeg × Int) : Bool := !segBefore b a

/-- pair every segment with `left_op->pt.x` -/
def keyed (H : Heap) : List HorzSeg → R (List (HorzSeg × Int))
  | [] => .ok []
  | hs :: rest =>
    match H.node hs.leftOp, keyed H rest with
    | .ok n, .ok ks => .ok ((hs, n.pt.x) :: ks)
    | .error e, _ => .error e
    | _, .error e => .error e

/-- `std::stable_sort(horz_seg_list_.begin(), horz_seg_list_.end(), HorzSegSorter())` -/
def sortSegs (H : Heap) (segs : List HorzSeg) : R (List HorzSeg) :=
  match keyed H segs with
  | .ok ks => .ok ((ks.mergeSort segLe).map (·.1))
  | .error e => .error e

/-- state of the nested loops: heap, `horz_seg_list_` (as an array: the loops mutate `left_op` in place), `horz_join_list_` -/
structure CState where
  H : Heap
  segs : Array HorzSeg
  joins : List HorzJoin
  deriving Repr, Inhabited

def CState.seg (s : CState) (i : Nat) : R HorzSeg :=
  match s.segs[i]? with
  | some x => .ok x
  | none => .error .dangling

/-- `while (hs->left_op->next->pt.y == curr_y && hs->left_op->next->pt.x <= bound) hs->left_op = hs->left_op->next;`
(`fwd`), resp. the same with `->prev` -/
def slide (H : Heap) (fwd : Bool) (y bound : Int) (from_ : Nat) : R Nat :=
  walk H fwd (fun _ => false) (fun _ nn => nn.pt.y == y && nn.pt.x <= bound) H.fuel from_

/-- the guard of the inner loop (`false` = `continue`):

    if ((hs2->left_op->pt.x >= hs1->right_op->pt.x) || (hs2->left_to_right == hs1->left_to_right) ||
        (hs2->right_op->pt.x <= hs1->left_op->pt.x)) continue; -/
def pairOverlaps (H : Heap) (hs1 hs2 : HorzSeg) : R Bool :=
  match H.node hs2.leftOp with
  | .error e => .error e
  | .ok l2 =>
    match hs1.rightOp with
    | none => .error .null
    | some r1 =>
      match H.node r1 with
      | .error e => .error e
      | .ok nr1 =>
        if l2.pt.x >= nr1.pt.x then .ok false
        else if hs2.ltr == hs1.ltr then .ok false
        else
          match hs2.rightOp with
          | none => .error .null
          | some r2 =>
            match H.node r2, H.node hs1.leftOp with
            | .ok nr2, .ok l1 => .ok (!decide (nr2.pt.x <= l1.pt.x))
            | .error e, _ => .error e
            | _, .error e => .error e

/-- the `hs1->left_to_right` branch of the inner loop body:

    while (hs1->left_op->next->pt.y == curr_y && hs1->left_op->next->pt.x <= hs2->left_op->pt.x) hs1->left_op = hs1->left_op->next;
    while (hs2->left_op->prev->pt.y == curr_y && hs2->left_op->prev->pt.x <= hs1->left_op->pt.x) hs2->left_op = hs2->left_op->prev;
    HorzJoin join = HorzJoin(DuplicateOp(hs1->left_op, true), DuplicateOp(hs2->left_op, false));
    horz_join_list_.emplace_back(join); -/
def joinLtr (s : CState) (i k : Nat) (hs1 hs2 : HorzSeg) : R CState := do
  let l1 ← s.H.node hs1.leftOp
  let l2 ← s.H.node hs2.leftOp
  let a ← slide s.H true l1.pt.y l2.pt.x hs1.leftOp
  let na ← s.H.node a
  let b ← slide s.H false l1.pt.y na.pt.x hs2.leftOp
  let d1 ← duplicateOp s.H a true
  let d2 ← duplicateOp d1.1 b false
  pure { H := d2.1, segs := (s.segs.setIfInBounds i { hs1 with leftOp := a }).setIfInBounds k { hs2 with leftOp := b },
         joins := s.joins ++ [⟨d1.2, d2.2⟩] }

/-- the other branch:

    while (hs1->left_op->prev->pt.y == curr_y && hs1->left_op->prev->pt.x <= hs2->left_op->pt.x) hs1->left_op = hs1->left_op->prev;
    while (hs2->left_op->next->pt.y == curr_y && hs2->left_op->next->pt.x <= hs1->left_op->pt.x) hs2->left_op = hs2->left_op->next;
    HorzJoin join = HorzJoin(DuplicateOp(hs2->left_op, true), DuplicateOp(hs1->left_op, false));
    horz_join_list_.emplace_back(join); -/
def joinRtl (s : CState) (i k : Nat) (hs1 hs2 : HorzSeg) : R CState := do
  let l1 ← s.H.node hs1.leftOp
  let l2 ← s.H.node hs2.leftOp
  let a ← slide s.H false l1.pt.y l2.pt.x hs1.leftOp
  let na ← s.H.node a
  let b ← slide s.H true l1.pt.y na.pt.x hs2.leftOp
  let d1 ← duplicateOp s.H b true
  let d2 ← duplicateOp d1.1 a false
  pure { H := d2.1, segs := (s.segs.setIfInBounds i { hs1 with leftOp := a }).setIfInBounds k { hs2 with leftOp := b },
         joins := s.joins ++ [⟨d1.2, d2.2⟩] }

/-- the body of the inner loop for `hs1 = segs[i]`, `hs2 = segs[k]` -/
def convertPair (s : CState) (i k : Nat) : R CState :=
  match s.seg i, s.seg k with
  | .ok hs1, .ok hs2 =>
    match pairOverlaps s.H hs1 hs2 with
    | .error e => .error e
    | .ok false => .ok s
    | .ok true => if hs1.ltr then joinLtr s i k hs1 hs2 else joinRtl s i k hs1 hs2
  | .error e, _ => .error e
  | _, .error e => .error e

/-- `for (hs2 = hs1 + 1; hs2 != hs_end; ++hs2)` : `ks` = the remaining values of the index of `hs2` -/
def convertInner (s : CState) (i : Nat) : List Nat → R CState
  | [] => .ok s
  | k :: ks =>
    match convertPair s i k with
    | .error e => .error e
    | .ok s1 => convertInner s1 i ks

/-- `for (; hs1 != hs_end1; ++hs1)` with `hs_end = begin + j`, `hs_end1 = hs_end - 1` -/
def convertOuter (j : Nat) (s : CState) : List Nat → R CState
  | [] => .ok s
  | i :: is =>
    match convertInner s i ((List.range j).drop (i + 1)) with
    | .error e => .error e
    | .ok s1 => convertOuter j s1 is

/-- `ConvertHorzSegsToJoins()`: heap, `horz_seg_list_` as it is left (before the caller clears it), `horz_join_list_` -/
def convertHorzSegsToJoins (H : Heap) (segs : List HorzSeg) (joins : List HorzJoin) : R (Heap × List HorzSeg × List HorzJoin) :=
  match updateAll H segs with
  | .error e => .error e
  | .ok (H1, segs1, j) =>
    if j < 2 then .ok (H1, segs1, joins)
    else match sortSegs H1 segs1 with
      | .error e => .error e
      | .ok sorted =>
        match convertOuter j { H := H1, segs := sorted.toArray, joins := joins } (List.range (j - 1)) with
        | .error e => .error e
        | .ok s => .ok (s.H, s.segs.toList, s.joins)

/-! ## `ProcessHorzJoins` -/

/-- `FixOutRecPts(outrec)`: `op = outrec->pts; do { op->outrec = outrec; op = op->next; } while (op != outrec->pts);` -/
def fixLoop (ri start : Nat) : Nat → Heap → Nat → R Heap
  | 0, _, _ => .error .diverge
  | f + 1, H, cur =>
    match H.node cur with
    | .error e => .error e
    | .ok n =>
      match H.updNode cur (fun x => { x with orec := ri }) with
      | .error e => .error e
      | .ok H1 => if n.next = start then .ok H1 else fixLoop ri start f H1 n.next

def fixOutRecPts (H : Heap) (ri : Nat) : R Heap :=
  match H.orec ri with
  | .error e => .error e
  | .ok r =>
    match r.pts with
    | none => .error .null
    | some p => fixLoop ri p H.fuel H p

/-- first loop of `SetOwner`: `while (new_owner->owner && !new_owner->owner->pts) new_owner->owner = new_owner->owner->owner;` -/
def skipDeadOwners (no : Nat) : Nat → Heap → R Heap
  | 0, _ => .error .diverge
  | f + 1, H =>
    match H.orec no with
    | .error e => .error e
    | .ok r =>
      match r.owner with
      | none => .ok H
      | some o =>
        match H.orec o with
        | .error e => .error e
        | .ok orc =>
          if orc.pts.isSome then .ok H
          else match H.updRec no (fun x => { x with owner := orc.owner }) with
            | .error e => .error e
            | .ok H1 => skipDeadOwners no f H1

/-- `tmp = new_owner; while (tmp && tmp != outrec) tmp = tmp->owner;` : is `tmp` null at the end? -/
def isValidOwner (H : Heap) (i : Nat) : Nat → Option Nat → R Bool
  | 0, _ => .error .diverge
  | _, none => .ok true
  | f + 1, some t =>
    if t = i then .ok false
    else match H.orec t with
      | .error e => .error e
      | .ok r => isValidOwner H i f r.owner

/-- `if (tmp) new_owner->owner = outrec->owner;` (`tmp` non-null ⇔ `outrec` is on `new_owner`'s owner chain ⇔ not `valid`) -/
def breakCycle (H : Heap) (valid : Bool) (no : Nat) (owner : Option Nat) : R Heap :=
  if valid then .ok H else H.updRec no (fun x => { x with owner := owner })

/-- `SetOwner(outrec, new_owner)` -/
def setOwner (H : Heap) (i no : Nat) : R Heap := do
  let H1 ← skipDeadOwners no (H.recs.size + 2) H
  let valid ← isValidOwner H1 i (H.recs.size + 2) (some no)
  let r ← H1.orec i
  let H2 ← breakCycle H1 valid no r.owner
  -- outrec->owner = new_owner;
  H2.updRec i (fun x => { x with owner := some no })

/-- `MoveSplits(fromOr, toOr)` -/
def moveSplits (H : Heap) (fromOr toOr : Nat) : R Heap := do
  let fr ← H.orec fromOr
  match fr.splits with
  | none => pure H                                   -- if (!fromOr->splits) return;
  | some fs =>
    -- if (!toOr->splits) toOr->splits = new OutRecList();  for (…) toOr->splits->emplace_back(*orIter);
    let H1 ← H.updRec toOr (fun x => { x with splits := some (x.splits.getD [] ++ fs) })
    -- fromOr->splits->clear();
    H1.updRec fromOr (fun x => { x with splits := some [] })

/-- the pointer surgery at the head of the loop body of `ProcessHorzJoins`:

    OutPt* op1b = j.op1->next; OutPt* op2b = j.op2->prev;
    j.op1->next = j.op2; j.op2->prev = j.op1; op1b->prev = op2b; op2b->next = op1b;

returns the heap, `op1b` and `op2b` -/
def splice (H : Heap) (j : HorzJoin) : R (Heap × Nat × Nat) := do
  let n1 ← H.node j.op1
  let n2 ← H.node j.op2
  let op1b := n1.next
  let op2b := n2.prev
  let H1 ← H.updNode j.op1 (fun x => { x with next := j.op2 })
  let H2 ← H1.updNode j.op2 (fun x => { x with prev := j.op1 })
  let H3 ← H2.updNode op1b (fun x => { x with prev := op2b })
  let H4 ← H3.updNode op2b (fun x => { x with next := op1b })
  pure (H4, op1b, op2b)

/-- `NewOutRec()` -/
def newOutRec (H : Heap) : Heap × Nat := ({ H with recs := H.recs.push {} }, H.recs.size)

/-- the `pts` of a record that must have them -/
def ptsOfRec (H : Heap) (ri : Nat) : R Nat :=
  match H.orec ri with
  | .error e => .error e
  | .ok r => match r.pts with
    | none => .error .null
    | some p => .ok p

/-- `if (or1->pts->outrec == or2) { or1->pts = j.op1; or1->pts->outrec = or1; }`
("if or1->pts has moved to or2 then update or1->pts!!") -/
def keepPts (H : Heap) (o1 o2 op1 : Nat) : R Heap :=
  match ptsOfRec H o1 with
  | .error e => .error e
  | .ok p1 =>
    match H.node p1 with
    | .error e => .error e
    | .ok np1 =>
      if np1.orec = o2 then
        match H.updRec o1 (fun x => { x with pts := some op1 }) with
        | .error e => .error e
        | .ok H1 => H1.updNode op1 (fun x => { x with orec := o1 })
      else .ok H

/-- the three-way decision of the split branch under `using_polytree_`; `in12` = `Path1InsidePath2(or1->pts, or2->pts)`,
`in21` = `Path1InsidePath2(or2->pts, or1->pts)` (only evaluated when `in12` is false), `p1`/`p2` = `or1->pts`/`or2->pts` -/
def splitOwnerChoice (H : Heap) (o1 o2 p1 p2 : Nat) (in12 in21 : Bool) : R Heap :=
  if in12 then
    -- swap or1's & or2's pts; FixOutRecPts(or1); FixOutRecPts(or2); or2->owner = or1;   (or2 is now inside or1)
    match H.updRec o1 (fun x => { x with pts := some p2 }) with
    | .error e => .error e
    | .ok H1 =>
      match H1.updRec o2 (fun x => { x with pts := some p1 }) with
      | .error e => .error e
      | .ok H2 =>
        match fixOutRecPts H2 o1 with
        | .error e => .error e
        | .ok H3 =>
          match fixOutRecPts H3 o2 with
          | .error e => .error e
          | .ok H4 => H4.updRec o2 (fun x => { x with owner := some o1 })
  else if in21 then
    H.updRec o2 (fun x => { x with owner := some o1 })
  else
    match H.orec o1 with
    | .error e => .error e
    | .ok r1 => H.updRec o2 (fun x => { x with owner := r1.owner })

/-- the `using_polytree_` part of the split branch (#498, #520, #584, D#576, #618) -/
def splitOwners (inside : List Pt → List Pt → Bool) (H : Heap) (o1 o2 : Nat) : R Heap := do
  let p1 ← ptsOfRec H o1
  let p2 ← ptsOfRec H o2
  let ring1 ← ringPts H p1
  let ring2 ← ringPts H p2
  let in12 := inside ring1 ring2
  let H1 ← splitOwnerChoice H o1 o2 p1 p2 in12 (!in12 && inside ring2 ring1)
  -- if (!or1->splits) or1->splits = new OutRecList(); or1->splits->emplace_back(or2);
  H1.updRec o1 (fun x => { x with splits := some (x.splits.getD [] ++ [o2]) })

/-- the same-ring branch (`or1 == or2`: the 'join' is really a split) after the surgery -/
def splitBranch (inside : List Pt → List Pt → Bool) (usingPolytree : Bool) (H : Heap) (j : HorzJoin) (or1 : Option Nat) (op1b : Nat) : R Heap := do
  -- or2 = NewOutRec(); or2->pts = op1b; FixOutRecPts(or2);
  let o2 := (newOutRec H).2
  let H1 ← (newOutRec H).1.updRec o2 (fun x => { x with pts := some op1b })
  let H2 ← fixOutRecPts H1 o2
  let some o1 := or1 | .error .null
  let H3 ← keepPts H2 o1 o2 j.op1
  if usingPolytree then splitOwners inside H3 o1 o2
  else H3.updRec o2 (fun x => { x with owner := some o1 })

/-- the two-ring branch (`or1 != or2`) after the surgery -/
def mergeBranch (usingPolytree : Bool) (H : Heap) (or1 or2 : Option Nat) : R Heap := do
  -- or2->pts = nullptr;
  let some o2 := or2 | .error .null
  let H ← H.updRec o2 (fun x => { x with pts := none })
  if usingPolytree then
    -- SetOwner(or2, or1); MoveSplits(or2, or1);
    let some o1 := or1 | .error .null
    let H ← setOwner H o2 o1
    moveSplits H o2 o1
  else
    H.updRec o2 (fun x => { x with owner := or1 })

/-- one iteration of `for (const HorzJoin& j : horz_join_list_)` in `ProcessHorzJoins` -/
def processJoin (inside : List Pt → List Pt → Bool) (usingPolytree : Bool) (H : Heap) (j : HorzJoin) : R Heap := do
  let n1 ← H.node j.op1
  -- OutRec* or1 = GetRealOutRec(j.op1->outrec); OutRec* or2 = GetRealOutRec(j.op2->outrec);
  let or1 ← realOf H n1.orec
  let n2 ← H.node j.op2
  let or2 ← realOf H n2.orec
  let (H1, op1b, _) ← splice H j
  if or1 = or2 then splitBranch inside usingPolytree H1 j or1 op1b
  else mergeBranch usingPolytree H1 or1 or2

/-- `ProcessHorzJoins()` -/
def processHorzJoins (inside : List Pt → List Pt → Bool) (usingPolytree : Bool) : Heap → List HorzJoin → R Heap
  | H, [] => .ok H
  | H, j :: js =>
    match processJoin inside usingPolytree H j with
    | .error e => .error e
    | .ok H1 => processHorzJoins inside usingPolytree H1 js

/-! ## `Path1InsidePath2` on point sequences (rings read following `->next` from the `OutPt` passed in) -/

/-- one vertex `v` (with `p = v->prev->pt`) of the main loop of `PointInOpPolygon`; `none` = `IsOn` -/
def pipOpStep (pt p v : Pt) (isAbove : Bool) (val : Int) : Option (Bool × Int) :=
  -- if (is_above) while (op2 != op && op2->pt.y < pt.y) op2 = op2->next; else while (op2 != op && op2->pt.y > pt.y) op2 = op2->next;
  if (isAbove && decide (v.y < pt.y)) || (!isAbove && decide (v.y > pt.y)) then some (isAbove, val)
  else if v.y = pt.y then
    -- touching the horizontal
    if v.x = pt.x || (decide (v.y = p.y) && (decide (pt.x < p.x) != decide (pt.x < v.x))) then none
    else some (isAbove, val)
  else if decide (pt.x < v.x) && decide (pt.x < p.x) then some (!isAbove, val)
  else if decide (pt.x > p.x) && decide (pt.x > v.x) then some (!isAbove, 1 - val)
  else
    let i := Clipper.Gen.CrossProductSign p.x p.y v.x v.y pt.x pt.y
    if i = 0 then none
    else some (!isAbove, if decide (i < 0) == isAbove then 1 - val else val)

def pipOpScan (pt : Pt) : Pt → Bool → Int → List Pt → Option (Pt × Bool × Int)
  | p, isAbove, val, [] => some (p, isAbove, val)
  | p, isAbove, val, v :: rest =>
    match pipOpStep pt p v isAbove val with
    | none => none
    | some (a, w) => pipOpScan pt v a w rest

/-- rotate a list left by `k` -/
def rotL (l : List Pt) (k : Nat) : List Pt := l.drop k ++ l.take k

/-- `PointInOpPolygon(pt, op)` with `ring` = the points from `op` following `->next` -/
def pointInOpPolygon (pt : Pt) (ring : List Pt) : PipResult :=
  -- if (op == op->next || op->prev == op->next) return IsOutside;
  if ring.length < 3 then .isOutside
  else
    -- do { if (op->pt.y != pt.y) break; op = op->next; } while (op != op2);  if (op->pt.y == pt.y) return IsOutside;
    match ring.findIdx? (fun q => q.y != pt.y) with
    | none => .isOutside
    | some k =>
      match rotL ring k with
      | [] => .isOutside
      | f :: rest =>
        let startingAbove := decide (f.y < pt.y)
        match pipOpScan pt f startingAbove 0 rest with
        | none => .isOn
        | some (last, isAbove, val) =>
          -- if (is_above != starting_above) { i = CrossProductSign(op2->prev->pt, op2->pt, pt); … }
          if isAbove != startingAbove then
            let i := Clipper.Gen.CrossProductSign last.x last.y f.x f.y pt.x pt.y
            if i = 0 then .isOn
            else
              let val' := if decide (i < 0) == isAbove then 1 - val else val
              if val' = 0 then .isOutside else .isInside
          else if val = 0 then .isOutside else .isInside

/-- the first loop of `GetCleanPath`: the index where
`while (op2->next != op && ((x collinear) || (y collinear))) op2 = op2->next;` stops (`a` = the ring as an array, `n` its size) -/
def cleanStart (a : Array Pt) (n : Nat) : Nat → Nat → Nat
  | 0, k => k
  | f + 1, k =>
    if k + 1 ≥ n then k
    else
      match a[k]?, a[k + 1]?, a[(k + n - 1) % n]? with
      | some c, some nx, some pv =>
        if (c.x = nx.x ∧ c.x = pv.x) ∨ (c.y = nx.y ∧ c.y = pv.y) then cleanStart a n f (k + 1) else k
      | _, _, _ => k

/-- the second loop of `GetCleanPath` over the vertices after the start; `nxt` = the successor of the last element (the ring's first) -/
def cleanRest (first : Pt) : Pt → List Pt → List Pt
  | _, [] => []
  | prevPt, c :: rest =>
    let nx := match rest with | [] => first | q :: _ => q
    if (c.x ≠ nx.x ∨ c.x ≠ prevPt.x) ∧ (c.y ≠ nx.y ∨ c.y ≠ prevPt.y) then c :: cleanRest first c rest
    else cleanRest first prevPt rest

/-- `GetCleanPath(op)` -/
def getCleanPath (ring : List Pt) : List Pt :=
  let a := ring.toArray
  let n := ring.length
  let k := cleanStart a n n 0
  match ring.drop k, ring.head? with
  | s :: rest, some first => s :: cleanRest first s rest
  | _, _ => []

/-- `Rect64::MidPoint()` of `GetBounds(path)` (C++ integer division truncates) -/
def boundsMidPoint (p : List Pt) : Pt :=
  let b := Owner.getBounds p
  ⟨(b.l + b.r).tdiv 2, (b.t + b.b).tdiv 2⟩

/-- the voting loop of `Path1InsidePath2`: `do { … op = op->next; } while (op != op1 && std::abs(outside_cnt) < 2);` -/
def insideVotes (ring2 : List Pt) : Int → List Pt → Int
  | cnt, [] => cnt
  | cnt, q :: rest =>
    let cnt' := match pointInOpPolygon q ring2 with
      | .isOutside => cnt + 1
      | .isInside => cnt - 1
      | .isOn => cnt
    if cnt'.natAbs < 2 then insideVotes ring2 cnt' rest else cnt'

/-- `Path1InsidePath2(op1, op2)` -/
def path1InsidePath2 (ring1 ring2 : List Pt) : Bool :=
  let cnt := insideVotes ring2 0 ring1
  if cnt.natAbs > 1 then decide (cnt < 0)
  else
    -- Point64 mp = GetBounds(GetCleanPath(op1)).MidPoint(); return PointInPolygon(mp, GetCleanPath(op2)) != IsOutside;
    let mp := boundsMidPoint (getCleanPath ring1)
    pointInPolygon mp (getCleanPath ring2) != .isOutside

end Clipper.Model.HorzJoins
