/-
Model of the JOIN GEOMETRY of `ClipperOffset` (clipper.offset.cpp): `Hypot`, `GetUnitNormal`, `AlmostZero`,
`NormalizeVector`, `GetAvgUnitVector`, `GetPerpendic(D)`, `TranslatePoint`, `ReflectPoint`, the `double` overload of
`GetSegmentIntersectPt` (clipper.core.h, CLIPPER2_HI_PRECISION off), `BuildNormals`, `DoBevel`, `DoSquare`, `DoMiter`,
`DoRound`, `OffsetPoint` (sine / cosine of the turn, clamp, concave three-point join, the almost-straight shortcut,
the miter test), `OffsetPolygon`, and the set-up of `temp_lim_`, `steps_per_rad_`, `step_sin_`, `step_cos_`
(`ExecuteInternal` / `DoGroupOffset`).  `deltaCallback64_` is null, USINGZ is off.

Every function is POLYMORPHIC in the number type `α`: the arithmetic `+ - * /` and unary minus come from type classes,
everything else the C++ obtains from the language or from libm (conversion `int64_t → double`, comparisons, `std::sqrt`,
`std::fabs`, `std::ceil`, `std::sin/cos/acos/atan2`, the literals `0.999`, `0.001`, `1e-12`, `0.002`, `PI`) is a field of
the explicit parameter `Ops α`.  The same definitions are used

* at `α := Rat` ("idealised real arithmetic": exact, no rounding) by the theorems of `Props/C06Joins.lean`;
  `sqrt`, `sin`, … stay arbitrary functions there and the theorems state what they need about their values;
* at `α := Float` (IEEE binary64) by the driver (`Driver/C06Joins.lean`), which must reproduce the compiled primitives
  bit for bit.

The expression trees (order of operands, association, where a value is negated) follow the C++ source statement by
statement, because IEEE arithmetic is not associative.  Vertices are produced as `Out α`: either the pair of `double`s
handed to the `Point64` constructor (which rounds with `std::round`), or an integer point copied from the input.
-/
import ClipperVerif.Spec.Basic
import ClipperVerif.Spec.Enums
namespace Clipper.OffsetJoins
open Clipper

/-- `PointD` -/
structure V (α : Type) where
  x : α
  y : α
  deriving Repr, DecidableEq

/-- what is appended to `path_out` (a `Path64`) -/
inductive Out (α : Type) where
  /-- `Point64(x, y)` built from two doubles: the constructor applies `std::round` to each -/
  | raw (x y : α)
  /-- an integer point copied as it is (`path_out.emplace_back(path[j])`) -/
  | pt (p : Pt)
  deriving Repr, DecidableEq

/-- everything that is not `+ - * /` or unary minus -/
structure Ops (α : Type) where
  /-- `static_cast<double>(int64_t)` (also the implicit conversion in `path[j].x + …`) -/
  ofInt : Int → α
  /-- `a < b` -/
  lt : α → α → Bool
  /-- `a <= b` -/
  le : α → α → Bool
  /-- `a == 0.0` -/
  isZero : α → Bool
  /-- `std::sqrt` -/
  sqrt : α → α
  /-- `std::abs` / `std::fabs` -/
  abs : α → α
  /-- `static_cast<int>(std::ceil(x))` -/
  ceil : α → Int
  sin : α → α
  cos : α → α
  acos : α → α
  atan2 : α → α → α
  /-- the literal `0.999` -/
  c0999 : α
  /-- the literal `0.001` (default `epsilon` of `AlmostZero`) -/
  c0001 : α
  /-- `floating_point_tolerance = 1e-12` -/
  fpTol : α
  /-- `arc_const = 0.002` -/
  arcConst : α
  /-- `PI = 3.141592653589793238` -/
  pi : α

/-- `steps_per_rad_`, `step_sin_`, `step_cos_` -/
structure Arc (α : Type) where
  stepsPerRad : α
  stepSin : α
  stepCos : α
  deriving Repr

section
variable {α : Type} [Add α] [Sub α] [Mul α] [Div α] [Neg α] [OfNat α 0] [OfNat α 1] [OfNat α 2]

/-- `std::min(a, b)`: `(b < a) ? b : a` -/
def omin (o : Ops α) (a b : α) : α := if o.lt b a then b else a

/-- `Hypot(x, y)`: `std::sqrt(x * x + y * y)` -/
def hypot (o : Ops α) (x y : α) : α := o.sqrt (x * x + y * y)

/-- `GetUnitNormal(pt1, pt2)` -/
def getUnitNormal (o : Ops α) (pt1 pt2 : Pt) : V α :=
  if pt1 = pt2 then ⟨0, 0⟩
  else
    let dx := o.ofInt (pt2.x - pt1.x)
    let dy := o.ofInt (pt2.y - pt1.y)
    let inverseHypot := 1 / hypot o dx dy
    let dx := dx * inverseHypot
    let dy := dy * inverseHypot
    ⟨dy, -dx⟩

/-- `AlmostZero(value, 0.001)` -/
def almostZero (o : Ops α) (value : α) : Bool := o.lt (o.abs value) o.c0001

/-- `NormalizeVector(vec)` -/
def normalizeVector (o : Ops α) (vec : V α) : V α :=
  let h := hypot o vec.x vec.y
  if almostZero o h then ⟨0, 0⟩
  else
    let inverseHypot := 1 / h
    ⟨vec.x * inverseHypot, vec.y * inverseHypot⟩

/-- `GetAvgUnitVector(vec1, vec2)` -/
def getAvgUnitVector (o : Ops α) (vec1 vec2 : V α) : V α :=
  normalizeVector o ⟨vec1.x + vec2.x, vec1.y + vec2.y⟩

/-- the two doubles inside `GetPerpendic(pt, norm, delta)` / the value of `GetPerpendicD(pt, norm, delta)` -/
def getPerpendicD (o : Ops α) (pt : Pt) (norm : V α) (delta : α) : V α :=
  ⟨o.ofInt pt.x + norm.x * delta, o.ofInt pt.y + norm.y * delta⟩

/-- `GetPerpendic(pt, norm, delta)` (a `Point64`: rounded when appended) -/
def getPerpendic (o : Ops α) (pt : Pt) (norm : V α) (delta : α) : Out α :=
  .raw (o.ofInt pt.x + norm.x * delta) (o.ofInt pt.y + norm.y * delta)

/-- `TranslatePoint(pt, dx, dy)` on a `PointD` -/
def translatePoint (pt : V α) (dx dy : α) : V α := ⟨pt.x + dx, pt.y + dy⟩

/-- `ReflectPoint(pt, pivot)` on `PointD`s -/
def reflectPoint (pt pivot : V α) : V α := ⟨pivot.x + (pivot.x - pt.x), pivot.y + (pivot.y - pt.y)⟩

/-- `CrossProduct(vec1, vec2)` (two-vector overload): `vec1.y * vec2.x - vec2.y * vec1.x` -/
def crossProduct (vec1 vec2 : V α) : α := vec1.y * vec2.x - vec2.y * vec1.x

/-- `DotProduct(vec1, vec2)` (two-vector overload) -/
def dotProduct (vec1 vec2 : V α) : α := vec1.x * vec2.x + vec1.y * vec2.y

/-- `GetSegmentIntersectPt(ln1a, ln1b, ln2a, ln2b, ip)` for `PointD` (CLIPPER2_HI_PRECISION off): the value of `ip`
afterwards (the Boolean result is ignored by `DoSquare`).  Note the clamping to segment 1. -/
def getSegmentIntersectPtD (o : Ops α) (ln1a ln1b ln2a ln2b ip : V α) : V α :=
  let dx1 := ln1b.x - ln1a.x
  let dy1 := ln1b.y - ln1a.y
  let dx2 := ln2b.x - ln2a.x
  let dy2 := ln2b.y - ln2a.y
  let det := dy1 * dx2 - dy2 * dx1
  if o.isZero det then ip
  else
    let t := ((ln1a.x - ln2a.x) * dy2 - (ln1a.y - ln2a.y) * dx2) / det
    if o.le t 0 then ln1a
    else if o.le 1 t then ln1b
    else ⟨ln1a.x + t * dx1, ln1a.y + t * dy1⟩

/-- `PointD` appended to the `Path64` `path_out` -/
def outV (v : V α) : Out α := .raw v.x v.y

/-- `BuildNormals(path)` -/
def buildNormals (o : Ops α) : Path → List (V α)
  | [] => []
  | a :: rest =>
    (segsOf (a :: rest)).map (fun e => getUnitNormal o e.1 e.2)
      ++ [getUnitNormal o ((a :: rest).getLast?.getD a) a]

/-- `DoBevel(path, j, k)`: `pj = path[j]`, `nj = norms[j]`, `nk = norms[k]`, `cap` is `j == k`, `gd = group_delta_` -/
def doBevel (o : Ops α) (pj : Pt) (nj nk : V α) (cap : Bool) (gd : α) : List (Out α) :=
  if cap then
    let absDelta := o.abs gd
    [.raw (o.ofInt pj.x - absDelta * nj.x) (o.ofInt pj.y - absDelta * nj.y),
     .raw (o.ofInt pj.x + absDelta * nj.x) (o.ofInt pj.y + absDelta * nj.y)]
  else
    [.raw (o.ofInt pj.x + gd * nk.x) (o.ofInt pj.y + gd * nk.y),
     .raw (o.ofInt pj.x + gd * nj.x) (o.ofInt pj.y + gd * nj.y)]

/-- the vector `vec` of `DoSquare` -/
def squareVec (o : Ops α) (nj nk : V α) (cap : Bool) : V α :=
  if cap then ⟨nj.y, -nj.x⟩
  else getAvgUnitVector o ⟨-nk.y, nk.x⟩ ⟨nj.y, -nj.x⟩

/-- `DoSquare(path, j, k)` with `vec` already computed: `pk = path[k]` -/
def doSquareWith (o : Ops α) (vec : V α) (pj pk : Pt) (nk : V α) (cap : Bool) (gd : α) : List (Out α) :=
  let absDelta := o.abs gd
  -- now offset the original vertex delta units along unit vector
  let ptQ : V α := ⟨o.ofInt pj.x, o.ofInt pj.y⟩
  let ptQ := translatePoint ptQ (absDelta * vec.x) (absDelta * vec.y)
  -- get perpendicular vertices
  let pt1 := translatePoint ptQ (gd * vec.y) (gd * -vec.x)
  let pt2 := translatePoint ptQ (gd * -vec.y) (gd * vec.x)
  -- get 2 vertices along one edge offset
  let pt3 := getPerpendicD o pk nk gd
  if cap then
    let pt4 : V α := ⟨pt3.x + vec.x * gd, pt3.y + vec.y * gd⟩
    let pt := getSegmentIntersectPtD o pt1 pt2 pt3 pt4 ptQ
    [outV (reflectPoint pt ptQ), outV pt]
  else
    let pt4 := getPerpendicD o pj nk gd
    let pt := getSegmentIntersectPtD o pt1 pt2 pt3 pt4 ptQ
    [outV pt, outV (reflectPoint pt ptQ)]

/-- `DoSquare(path, j, k)` -/
def doSquare (o : Ops α) (pj pk : Pt) (nj nk : V α) (cap : Bool) (gd : α) : List (Out α) :=
  doSquareWith o (squareVec o nj nk cap) pj pk nk cap gd

/-- `DoMiter(path, j, k, cos_a)` -/
def doMiter (o : Ops α) (pj : Pt) (nj nk : V α) (cosA gd : α) : List (Out α) :=
  let q := gd / (cosA + 1)
  [.raw (o.ofInt pj.x + (nk.x + nj.x) * q) (o.ofInt pj.y + (nk.y + nj.y) * q)]

/-- one rotation of the offset vector by (`step_cos_`, `step_sin_`) -/
def rotStep (stepSin stepCos : α) (v : V α) : V α :=
  ⟨v.x * stepCos - stepSin * v.y, v.x * stepSin + v.y * stepCos⟩

/-- the body of `for (int i = 1; i < steps; ++i)` executed `n` times -/
def roundLoop (px py stepSin stepCos : α) : Nat → V α → List (Out α)
  | 0, _ => []
  | n + 1, v =>
    let v' := rotStep stepSin stepCos v
    .raw (px + v'.x) (py + v'.y) :: roundLoop px py stepSin stepCos n v'

/-- `DoRound(path, j, k, angle)` with the step count already computed -/
def doRoundSteps (o : Ops α) (arc : Arc α) (pj : Pt) (nj nk : V α) (cap : Bool) (gd : α) (steps : Int) : List (Out α) :=
  let px := o.ofInt pj.x
  let py := o.ofInt pj.y
  let offsetVec : V α := ⟨nk.x * gd, nk.y * gd⟩
  let offsetVec : V α := if cap then ⟨-offsetVec.x, -offsetVec.y⟩ else offsetVec
  .raw (px + offsetVec.x) (py + offsetVec.y)
    :: roundLoop px py arc.stepSin arc.stepCos (steps - 1).toNat offsetVec
    ++ [getPerpendic o pj nj gd]

/-- `DoRound(path, j, k, angle)` (`deltaCallback64_` null) -/
def doRound (o : Ops α) (arc : Arc α) (pj : Pt) (nj nk : V α) (cap : Bool) (gd angle : α) : List (Out α) :=
  doRoundSteps o arc pj nj nk cap gd (o.ceil (arc.stepsPerRad * o.abs angle))

/-- the clamp `if (sin_a > 1.0) sin_a = 1.0; else if (sin_a < -1.0) sin_a = -1.0;` -/
def clampUnit (o : Ops α) (s : α) : α :=
  if o.lt 1 s then 1 else if o.lt s (-1) then -1 else s

/-- `sin_a` (after the clamp) and `cos_a` of `OffsetPoint` -/
def sinCos (o : Ops α) (nj nk : V α) : α × α :=
  (clampUnit o (crossProduct nj nk), dotProduct nj nk)

/-- the three points of the concave join -/
def concaveJoin (o : Ops α) (pj : Pt) (nj nk : V α) (gd : α) : List (Out α) :=
  [getPerpendic o pj nk gd, .pt pj, getPerpendic o pj nj gd]

/-- which branch `OffsetPoint` takes once `path[j] != path[k]` (same tests, same order, as the C++) -/
inductive Join | copy | concave | miter | square | round | bevel
  deriving DecidableEq, Repr

def joinOf (o : Ops α) (jt : JoinType) (tempLim gd sinA cosA : α) : Join :=
  if o.le (o.abs gd) o.fpTol then .copy
  else if o.lt (-o.c0999) cosA && o.lt (sinA * gd) 0 then .concave
  else if o.lt o.c0999 cosA && jt != .round then .miter
  else if jt == .miter then (if o.lt (tempLim - 1) cosA then .miter else .square)
  else if jt == .round then .round
  else if jt == .bevel then .bevel
  else .square

/-- `OffsetPoint(group, path, j, k)`: `jt = join_type_`, `tempLim = temp_lim_`, `gd = group_delta_` -/
def offsetPoint (o : Ops α) (jt : JoinType) (tempLim gd : α) (arc : Arc α) (pj pk : Pt) (nj nk : V α) : List (Out α) :=
  if pj = pk then []
  else
    let sc := sinCos o nj nk
    match joinOf o jt tempLim gd sc.1 sc.2 with
    | .copy => [.pt pj]
    | .concave => concaveJoin o pj nj nk gd
    | .miter => doMiter o pj nj nk sc.2 gd
    | .square => doSquare o pj pk nj nk false gd
    | .round => doRound o arc pj nj nk false gd (o.atan2 sc.1 sc.2)
    | .bevel => doBevel o pj nj nk false gd

/-- `for (j = 0, k = path.size() - 1; j < path.size(); k = j, ++j) OffsetPoint(group, path, j, k)` over the list of
(vertex, normal) pairs: `prev` is entry `k` -/
def polyLoop (f : Pt × V α → Pt × V α → List (Out α)) : Pt × V α → List (Pt × V α) → List (Out α)
  | _, [] => []
  | prev, cur :: rest => f cur prev ++ polyLoop f cur rest

/-- the raw `path_out` of `OffsetPolygon(group, path)` for given normals -/
def offsetPolygonWith (o : Ops α) (jt : JoinType) (tempLim gd : α) (arc : Arc α) (path : Path) (norms : List (V α)) :
    List (Out α) :=
  let pn := path.zip norms
  match pn.getLast? with
  | none => []
  | some last => polyLoop (fun cur prev => offsetPoint o jt tempLim gd arc cur.1 prev.1 cur.2 prev.2) last pn

/-- `BuildNormals(path); OffsetPolygon(group, path)` -/
def offsetPolygon (o : Ops α) (jt : JoinType) (tempLim gd : α) (arc : Arc α) (path : Path) : List (Out α) :=
  offsetPolygonWith o jt tempLim gd arc path (buildNormals o path)

/-- `temp_lim_ = (miter_limit_ <= 1) ? 2.0 : 2.0 / (miter_limit_ * miter_limit_)` -/
def tempLimOf (o : Ops α) (miterLimit : α) : α :=
  if o.le miterLimit 1 then 2 else 2 / (miterLimit * miterLimit)

/-- `steps_per_360` of `DoGroupOffset`: `arcTolerance = arc_tolerance_`, `gd = group_delta_` -/
def stepsPer360 (o : Ops α) (arcTolerance gd : α) : α :=
  let absDelta := o.abs gd
  let arcTol := if o.lt o.fpTol arcTolerance then omin o absDelta arcTolerance else absDelta * o.arcConst
  omin o (o.pi / o.acos (1 - arcTol / absDelta)) (absDelta * o.pi)

/-- `step_sin_`, `step_cos_`, `steps_per_rad_` from `steps_per_360` -/
def arcOfSteps (o : Ops α) (gd stepsPer360 : α) : Arc α :=
  let stepSin := o.sin (2 * o.pi / stepsPer360)
  let stepCos := o.cos (2 * o.pi / stepsPer360)
  let stepSin := if o.lt gd 0 then -stepSin else stepSin
  ⟨stepsPer360 / (2 * o.pi), stepSin, stepCos⟩

/-- the arc set-up of `DoGroupOffset` (and of `DoRound` under a delta callback) -/
def arcSetup (o : Ops α) (arcTolerance gd : α) : Arc α :=
  arcOfSteps o gd (stepsPer360 o arcTolerance gd)

end

/-! ### the exact instance -/

def rabs (x : Rat) : Rat := if x < 0 then -x else x

/-- the functions the C++ takes from libm; at `Rat` they are arbitrary (theorems state what they use) -/
structure Libm (α : Type) where
  sqrt : α → α
  sin : α → α
  cos : α → α
  acos : α → α
  atan2 : α → α → α

/-- exact rational arithmetic: comparisons, `abs`, `ceil` and the decimal literals are the mathematical ones -/
def ratOps (m : Libm Rat) (pi : Rat) : Ops Rat where
  ofInt := fun i => (i : Rat)
  lt := fun a b => decide (a < b)
  le := fun a b => decide (a ≤ b)
  isZero := fun a => decide (a = 0)
  sqrt := m.sqrt
  abs := rabs
  ceil := Rat.ceil
  sin := m.sin
  cos := m.cos
  acos := m.acos
  atan2 := m.atan2
  c0999 := 999 / 1000
  c0001 := 1 / 1000
  fpTol := 1 / 1000000000000
  arcConst := 2 / 1000
  pi := pi

end Clipper.OffsetJoins
