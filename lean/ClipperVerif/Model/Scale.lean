/-
Model of the scaling layer of the floating-point API (C16).

Part 1 — numbers.  Exact models, over rationals written as fractions `n / d` of naturals/integers, of
  * `std::ilogb` (floor of the binary logarithm),
  * the two scales: `std::pow(10, precision)` and ClipperD's
    `std::pow(2, std::ilogb(std::pow(10, precision)) + 1)` (clipper.engine.h:529-535),
  * `std::round` (nearest integer, ties away from zero) as used by `Point<int64_t>::Init`
    (clipper.core.h:180-186) and `ScaleRect` (clipper.core.h:406-418),
  * the value of a double given by its bit pattern, and the nearest double of a positive rational
    (so that the driver can print the doubles the library must be using — no `Float` anywhere).

Part 2 — wrappers.  Each PathsD entry point of clipper.h / clipper.minkowski.h / ClipperD as a function of an
abstract number type `R` (the doubles), abstract arithmetic `Num R` and abstract 64-bit operations `Ops64 R`,
mirroring the code statement by statement: which scale, whether the precision is checked, `ScalePaths` (range
check) versus `ScalePath` (none), which scalar arguments are multiplied by the scale, how the result is descaled.
-/
import ClipperVerif.Spec.Basic
namespace Clipper.Model.Scale
open Clipper

/-! ## Part 1: numbers -/

/-- least `k` with `n ≤ 2^k` -/
def clog2 (n : Nat) : Nat := if n ≤ 1 then 0 else Nat.log2 (n - 1) + 1

/-- `ilogb (n/d)` for a positive rational: the `k` with `2^k ≤ n/d < 2^(k+1)` -/
def ilogbFrac (n d : Nat) : Int :=
  if d ≤ n then (Nat.log2 (n / d) : Int) else -((clog2 ((d + n - 1) / n) : Nat) : Int)

/-- `10^p` as a fraction -/
def pow10Frac (p : Int) : Nat × Nat := if 0 ≤ p then (10 ^ p.toNat, 1) else (1, 10 ^ (-p).toNat)

/-- `2^k` as a fraction -/
def pow2Frac (k : Int) : Nat × Nat := if 0 ≤ k then (2 ^ k.toNat, 1) else (1, 2 ^ (-k).toNat)

/-- `a < b` for fractions with positive denominators -/
def fracLt (a b : Nat × Nat) : Prop := a.1 * b.2 < b.1 * a.2
/-- `a ≤ b` for fractions with positive denominators -/
def fracLe (a b : Nat × Nat) : Prop := a.1 * b.2 ≤ b.1 * a.2
instance (a b : Nat × Nat) : Decidable (fracLt a b) := by unfold fracLt; infer_instance
instance (a b : Nat × Nat) : Decidable (fracLe a b) := by unfold fracLe; infer_instance

/-- exponent of the ClipperD scale: `ilogb(10^precision) + 1` -/
def clipperDExp (p : Int) : Int := ilogbFrac (pow10Frac p).1 (pow10Frac p).2 + 1

/-- the ClipperD scale `2^(ilogb(10^p)+1)` as a fraction -/
def clipperDScale (p : Int) : Nat × Nat := pow2Frac (clipperDExp p)

/-- the precisions `CheckPrecisionRange` accepts (CLIPPER2_MAX_DEC_PRECISION = 8) -/
def precisions : List Int := [-8, -7, -6, -5, -4, -3, -2, -1, 0, 1, 2, 3, 4, 5, 6, 7, 8]

/-- `std::round` of the rational `n/d` (`d > 0`) followed by the conversion to an integer:
the nearest integer, ties away from zero -/
def roundHalfAway (n : Int) (d : Nat) : Int :=
  let a := n.natAbs
  let q := a / d
  let r := a % d
  let m : Nat := if d ≤ 2 * r then q + 1 else q
  if n < 0 then -(m : Int) else (m : Int)

/-- a finite double as `(m, e)` with value `m * 2^e`; `none` for infinities and NaN -/
def decodeDouble (bits : Nat) : Option (Int × Int) :=
  let s : Nat := bits / 2 ^ 63 % 2
  let ex : Nat := bits / 2 ^ 52 % 2 ^ 11
  let f : Nat := bits % 2 ^ 52
  if ex = 2047 then none
  else
    let m : Nat := if ex = 0 then f else 2 ^ 52 + f
    let e : Int := (if ex = 0 then (1 : Int) else (ex : Int)) - 1075
    some (if s = 1 then -(m : Int) else (m : Int), e)

/-- `static_cast<int64_t>(std::round(x))` for the double with the given bit pattern (before the range of
`int64_t` is taken into account) -/
def roundDouble (bits : Nat) : Option Int :=
  match decodeDouble bits with
  | none => none
  | some (m, e) => if 0 ≤ e then some (m * 2 ^ e.toNat) else some (roundHalfAway m (2 ^ (-e).toNat))

/-- bit pattern of `2^k` for a normal exponent -/
def pow2Bits (k : Int) : Nat := ((k + 1023).toNat) * 2 ^ 52

/-- bit pattern of the double nearest to the positive rational `n/d` (round half to even; normal range) -/
def nearestDoubleBits (n d : Nat) : Nat :=
  let k := ilogbFrac n d
  -- n/d * 2^(52-k) lies in [2^52, 2^53)
  let sh := 52 - k
  let num := if 0 ≤ sh then n * 2 ^ sh.toNat else n
  let den := if 0 ≤ sh then d else d * 2 ^ (-sh).toNat
  let q := num / den
  let r := num % den
  let m := if den < 2 * r ∨ (den = 2 * r ∧ q % 2 = 1) then q + 1 else q
  if m = 2 ^ 53 then pow2Bits (k + 1) else ((k + 1023).toNat) * 2 ^ 52 + (m - 2 ^ 52)

/-- the double `std::pow(10, p)` is expected to return: the one nearest to `10^p` -/
def pow10Bits (p : Int) : Nat := nearestDoubleBits (pow10Frac p).1 (pow10Frac p).2

/-! ## Part 2: wrappers -/

inductive JoinType | square | bevel | round | miter deriving DecidableEq, Repr
inductive EndType | polygon | joined | butt | square | round deriving DecidableEq, Repr

/-- the `double` arithmetic the wrappers use, abstract -/
structure Num (R : Type) where
  mul : R → R → R
  /-- `1 / x` -/
  inv : R → R
  /-- `static_cast<double>(int64)` -/
  ofInt : Int → R
  /-- `static_cast<int64_t>(std::round(x))` -/
  round : R → Int
  /-- `std::pow(10, precision)` -/
  pow10 : Int → R
  /-- `std::pow(2, std::ilogb(std::pow(10, precision)) + 1)` -/
  pow2scale : Int → R
  /-- `!x` -/
  isZero : R → Bool

abbrev PtD (R : Type) := R × R
abbrev PathD (R : Type) := List (PtD R)
abbrev PathsD (R : Type) := List (PathD R)

structure RectOf (α : Type) where
  left : α
  top : α
  right : α
  bottom : α

/-- a PolyTree: polygon of the node and its children (the root's polygon is empty) -/
inductive Tree (α : Type) where
  | node : α → List (Tree α) → Tree α

/-- apply `f` to every polygon, keeping the shape -/
def Tree.map (f : α → β) : Tree α → Tree β
  | .node a cs => .node (f a) (mapList f cs)
where mapList (f : α → β) : List (Tree α) → List (Tree β)
  | [] => []
  | c :: cs => Tree.map f c :: mapList f cs

/-- the shape of a tree: polygons erased -/
def Tree.shape (t : Tree α) : Tree Unit := t.map (fun _ => ())

/-- the 64-bit operations, abstract -/
structure Ops64 (R : Type) where
  /-- `Clipper64`: AddSubject, AddOpenSubject, AddClip, Execute → (closed, open) -/
  clip : ClipType → FillRule → Paths → Paths → Paths → Paths × Paths
  /-- `Clipper64::Execute(…, PolyTree64&, open)` -/
  clipTree : ClipType → FillRule → Paths → Paths → Paths → Tree Path × Paths
  /-- `InflatePaths(Paths64, delta, jt, et, miter_limit, arc_tolerance)` -/
  inflate : Paths → R → JoinType → EndType → R → R → Paths
  /-- `RectClip64(rect).Execute(paths)` -/
  rectClip : RectOf Int → Paths → Paths
  /-- `RectClipLines64(rect).Execute(paths)` -/
  rectClipLines : RectOf Int → Paths → Paths
  /-- `detail::Union(detail::Minkowski(pattern, path, isSum, isClosed), NonZero)` -/
  minkowski : Path → Path → Bool → Bool → Paths
  /-- `TrimCollinear(Path64, is_open)` -/
  trimCollinear : Path → Bool → Path
  /-- the range test of `ScalePaths<int64_t,double>`: bounds times scale within ±MAX_COORD -/
  inRange : PathsD R → R → Bool
  /-- `BuildPathD` keeps this open solution path (`BuildPath64` keeps every one with ≥ 2 points; `BuildPathD`
  applies the `IsVerySmallTriangle` test to open paths too) -/
  keepOpenD : Path → Bool

variable {R : Type}

/-- `CheckPrecisionRange` leaves `error_code = 0` -/
def precisionOk (p : Int) : Bool := decide (-8 ≤ p) && decide (p ≤ 8)

/-- `Point<int64_t>(pt.x * scale, pt.y * scale)` -/
def scalePt (N : Num R) (s : R) (p : PtD R) : Pt := ⟨N.round (N.mul p.1 s), N.round (N.mul p.2 s)⟩
/-- `ScalePath<int64_t,double>` (no range check) -/
def scalePath (N : Num R) (s : R) (p : PathD R) : Path := p.map (scalePt N s)
/-- the transform part of `ScalePaths<int64_t,double>` -/
def scalePaths (N : Num R) (s : R) (ps : PathsD R) : Paths := ps.map (scalePath N s)
/-- `ScalePaths<int64_t,double>`: `none` = range error (empty result, error code set) -/
def scalePathsChecked (N : Num R) (O : Ops64 R) (s : R) (ps : PathsD R) : Option Paths :=
  if O.inRange ps s then some (scalePaths N s ps) else none
/-- `ScaleRect<int64_t,double>` -/
def scaleRect (N : Num R) (s : R) (r : RectOf R) : RectOf Int :=
  ⟨N.round (N.mul r.left s), N.round (N.mul r.top s), N.round (N.mul r.right s), N.round (N.mul r.bottom s)⟩
/-- `Point<double>(pt.x * inv, pt.y * inv)` -/
def descalePt (N : Num R) (inv : R) (p : Pt) : PtD R := (N.mul (N.ofInt p.x) inv, N.mul (N.ofInt p.y) inv)
/-- `ScalePath<double,int64_t>(path, 1/scale)` and the loop of `BuildPathD` -/
def descalePath (N : Num R) (inv : R) (p : Path) : PathD R := p.map (descalePt N inv)
def descalePaths (N : Num R) (inv : R) (ps : Paths) : PathsD R := ps.map (descalePath N inv)

/-- `ClipperD::AddSubject/AddOpenSubject/AddClip`: `AddPaths(ScalePaths<int64_t,double>(paths, scale_, error_code_), …)`.
A range error yields the empty list (and sets `error_code_`, which `Execute` does not look at; with exceptions
enabled `DoError` throws instead). -/
def addD (N : Num R) (O : Ops64 R) (s : R) (ps : PathsD R) : Paths :=
  match scalePathsChecked N O s ps with
  | some sp => sp
  | none => []

/-- `ClipperD::Execute(ct, fr, closed, open)` on the paths added so far: `BuildPathsD` descales with `invScale_`;
`BuildPathD` drops the open paths `keepOpenD` rejects. -/
def clipperDExec (N : Num R) (O : Ops64 R) (prec : Int) (ct : ClipType) (fr : FillRule)
    (subj64 open64 clip64 : Paths) : PathsD R × PathsD R :=
  let inv := N.inv (N.pow2scale prec)
  let r := O.clip ct fr subj64 open64 clip64
  (descalePaths N inv r.1, descalePaths N inv (r.2.filter O.keepOpenD))

/-- `ClipperD::Execute(ct, fr, PolyTreeD&, open)`: `polytree.SetScale(invScale_)`, every node built by
`PolyPathD::AddChild(const Path64&)` = `ScalePath<double,int64_t>(path, scale_)` -/
def clipperDExecTree (N : Num R) (O : Ops64 R) (prec : Int) (ct : ClipType) (fr : FillRule)
    (subj64 open64 clip64 : Paths) : Tree (PathD R) × PathsD R :=
  let inv := N.inv (N.pow2scale prec)
  let r := O.clipTree ct fr subj64 open64 clip64
  (r.1.map (descalePath N inv), descalePaths N inv (r.2.filter O.keepOpenD))

/-- `ClipperD(precision)`, AddSubject, AddOpenSubject, AddClip, `Execute(ct, fr, closed, open)` -/
def clipperD (N : Num R) (O : Ops64 R) (prec : Int) (ct : ClipType) (fr : FillRule)
    (subj opn clp : PathsD R) : PathsD R × PathsD R :=
  let s := N.pow2scale prec
  clipperDExec N O prec ct fr (addD N O s subj) (addD N O s opn) (addD N O s clp)

/-- the same with a PolyTreeD -/
def clipperDTree (N : Num R) (O : Ops64 R) (prec : Int) (ct : ClipType) (fr : FillRule)
    (subj opn clp : PathsD R) : Tree (PathD R) × PathsD R :=
  let s := N.pow2scale prec
  clipperDExecTree N O prec ct fr (addD N O s subj) (addD N O s opn) (addD N O s clp)

/-- `BooleanOp(ct, fr, PathsD subjects, PathsD clips, precision)` (clipper.h:41-54) -/
def booleanOpD (N : Num R) (O : Ops64 R) (ct : ClipType) (fr : FillRule) (subj clp : PathsD R) (prec : Int) : PathsD R :=
  if precisionOk prec then
    let s := N.pow2scale prec
    (clipperDExec N O prec ct fr (addD N O s subj) [] (addD N O s clp)).1
  else []

/-- `BooleanOp(ct, fr, PathsD, PathsD, PolyTreeD&, precision)` (clipper.h:56-68); `none` = tree left cleared -/
def booleanOpTreeD (N : Num R) (O : Ops64 R) (ct : ClipType) (fr : FillRule) (subj clp : PathsD R) (prec : Int) :
    Option (Tree (PathD R)) :=
  if precisionOk prec then
    let s := N.pow2scale prec
    some (clipperDExecTree N O prec ct fr (addD N O s subj) [] (addD N O s clp)).1
  else none

/-- `InflatePaths(PathsD, delta, jt, et, miter_limit, precision, arc_tolerance)` (clipper.h:144-158) -/
def inflatePathsD (N : Num R) (O : Ops64 R) (paths : PathsD R) (delta : R) (jt : JoinType) (et : EndType)
    (miterLimit : R) (prec : Int) (arcTol : R) : PathsD R :=
  if N.isZero delta then paths
  else if !precisionOk prec then []
  else
    let s := N.pow10 prec
    match scalePathsChecked N O s paths with
    | none => []
    | some sp => descalePaths N (N.inv s) (O.inflate sp (N.mul delta s) jt et miterLimit (N.mul arcTol s))

/-- `RectClip(RectD, PathsD, precision)` (clipper.h:213-226); `rectEmpty` is `rect.IsEmpty()` on the RectD -/
def rectClipD (N : Num R) (O : Ops64 R) (rectEmpty : Bool) (rect : RectOf R) (paths : PathsD R) (prec : Int) : PathsD R :=
  if rectEmpty || paths.isEmpty then []
  else if !precisionOk prec then []
  else
    let s := N.pow10 prec
    let r := scaleRect N s rect
    match scalePathsChecked N O s paths with
    | none => []
    | some pp => descalePaths N (N.inv s) (O.rectClip r pp)

/-- `RectClipLines(RectD, PathsD, precision)` (clipper.h:245-258) -/
def rectClipLinesD (N : Num R) (O : Ops64 R) (rectEmpty : Bool) (rect : RectOf R) (lines : PathsD R) (prec : Int) : PathsD R :=
  if rectEmpty || lines.isEmpty then []
  else if !precisionOk prec then []
  else
    let s := N.pow10 prec
    let r := scaleRect N s rect
    match scalePathsChecked N O s lines with
    | none => []
    | some pp => descalePaths N (N.inv s) (O.rectClipLines r pp)

/-- `MinkowskiSum/MinkowskiDiff(PathD pattern, PathD path, isClosed, decimalPlaces)` (clipper.minkowski.h:90-113):
no precision check, `ScalePath` (no range check) -/
def minkowskiD (N : Num R) (O : Ops64 R) (isSum : Bool) (pattern path : PathD R) (isClosed : Bool) (prec : Int) : PathsD R :=
  let s := N.pow10 prec
  descalePaths N (N.inv s) (O.minkowski (scalePath N s pattern) (scalePath N s path) isSum isClosed)

/-- `TrimCollinear(PathD, precision, is_open_path)` (clipper.h:542-552): precision check, `ScalePath` (no range check) -/
def trimCollinearD (N : Num R) (O : Ops64 R) (path : PathD R) (prec : Int) (isOpen : Bool) : PathD R :=
  if !precisionOk prec then []
  else
    let s := N.pow10 prec
    descalePath N (N.inv s) (O.trimCollinear (scalePath N s path) isOpen)

end Clipper.Model.Scale
