/-
Model glue for the LAST geometric step of property C01 at model level: WHERE the emitted points lie.

`Model/SweepEvents.lean` derives the bookkeeping events (`Model.Op`) of a sweep from the scanbeam model.  The ring model
`Model/AelRings.lean` needs, with every event, the POINT the C++ has in hand (`Model.ROp`), and one more event, `update`
(`if (IsHotEdge(*e)) AddOutPt(*e, e->top)` of `DoTopOfScanbeam`).  This file decorates the derived events with the EXACT points:

* a local minimum's vertex           (`insertPair`  — `left_bound->bot`),
* an edge's top vertex               (`update`, `removePair` — `e.top` in `DoTopOfScanbeam` / `DoMaxima`),
* the exact crossing point of two edges (`intersect` — the `pt` of `IntersectEdges(e1, e2, pt)`): a RATIONAL point `(xn/d, yn/d)`,
  `d > 0`, by Cramer's rule cleared of denominators (`crossQ`).

Points of the ring model are integer points (`Pt`).  The exact sweep is therefore run in coordinates SCALED by a common denominator
`D > 0` of all crossing points of the sweep (`sweepDen`, the least common multiple of their denominators): a vertex `v` becomes `D·v`,
a crossing `(xn/d, yn/d)` becomes `(xn·(D/d), yn·(D/d))` — exact because `d ∣ D`.  All rings of the exact sweep live on the lattice
`(1/D)·ℤ²`; `Spec.wind` of the rings around a point is taken in the same scaled coordinates (the convention of `windQ`).

ORDER OF THE TRANSPOSITIONS INSIDE ONE `DoIntersections`.  `Model/SweepEvents.isectEvents` performs the transpositions of a scanbeam in
insertion-sort order.  For the hot flags this is irrelevant (`Props/C01Region.isect_order_irrelevant`), for the POINTS it is not: an
edge crossed twice in one scanbeam would emit the upper crossing before the lower one.  The real `ProcessIntersectList` sorts its nodes
bottom-up (`IntersectListSort`: larger `pt.y` first, then smaller `pt.x`) and processes a node when its two edges are adjacent.
`geo` does the same with the EXACT crossing points: among the adjacent pairs that are in the wrong order for the top of the scanbeam
(`adjInv`: their positions in the AEL after `DoIntersections` are exchanged) it takes the one whose crossing point is lowest, exchanges it,
and repeats.  By construction it performs adjacent transpositions of inverted pairs only, and it ends in the AEL after
`DoIntersections` of the scanbeam model (`Lemmas/C01OutputSched.geo_spec`); and it IS bottom-up: the crossing heights it produces never increase
(`Lemmas/C01OutputMono.geo_heights`; `Props/C01Output.sweepEventsP_bottom_up`).

Everything else is as in `Model/SweepEvents.lean`: `insertPair` at the index of `InsertLeftEdge`, `removePair` at a local maximum.
`DoTopOfScanbeam` walks the AEL left to right; an edge whose top is on the scanline and that continues (`UpdateEdgeIntoAEL`) gives
`update k (D·top)`, a local maximum `removePair k (D·top)` (its partner is the next edge).

Not modelled here (as in the scanbeam model): horizontal edges, joins, open paths; and the ROUNDING of crossing points — the engine
stores `GetIntersectPoint` rounded to integers (within one unit of the exact point in each coordinate; harness `C01output`).

Core Lean only (linked into the driver).
-/
import ClipperVerif.Model.SweepEvents
import ClipperVerif.Model.AelRings
namespace Clipper.Model.SweepPoints
open Clipper Clipper.Model Clipper.Model.AelOrder Clipper.Model.SweepOrder Clipper.Model.SweepEvents

/-- a sweep edge of `Model/SweepOrder.lean` (the side model has an `SEdge` of its own) -/
abbrev GEdge := SweepOrder.SEdge

/-! ## the exact crossing point of two edges -/

/-- a rational point `(xn/d, yn/d)` -/
structure QPt where
  xn : Int
  yn : Int
  d : Int
  deriving DecidableEq, Repr, Inhabited

/-- `u × w` for the directions `u = a.top − a.bot`, `w = b.top − b.bot` (`= Lemmas.SweepOrder.sigma a b`); `≠ 0` iff not parallel -/
def det (a b : GEdge) : Int := SweepOrder.run b * exD a - SweepOrder.run a * exD b

/-- `(b.bot − a.bot) × w`: numerator of the parameter `s` of the crossing point `a.bot + s·u` on `a` -/
def sNum (a b : GEdge) : Int := -((b.bot.x - a.bot.x) * exD b) - (b.bot.y - a.bot.y) * SweepOrder.run b

/-- **the crossing point of the lines of `a` and `b`** (Cramer's rule, cleared of denominators): `a.bot + (sNum/det)·u`, written with the
positive denominator `|det|`.  (For parallel lines `d = 0`; never used then.) -/
def crossQ (a b : GEdge) : QPt :=
  if det a b < 0 then ⟨-(a.bot.x * det a b + sNum a b * SweepOrder.run a), -(a.bot.y * det a b - sNum a b * exD a), -(det a b)⟩
  else ⟨a.bot.x * det a b + sNum a b * SweepOrder.run a, a.bot.y * det a b - sNum a b * exD a, det a b⟩

/-- the rational point in coordinates scaled by `D` (exact when `q.d ∣ D`) -/
def QPt.toPt (D : Int) (q : QPt) : Pt := ⟨q.xn * (D / q.d), q.yn * (D / q.d)⟩

/-- **the rational point `q` lies on the closed segment of the edge `e`** (cross-multiplied): on the line, between `top.y` and `bot.y` -/
def OnQ (e : GEdge) (q : QPt) : Prop :=
  SweepOrder.run e * (q.yn - q.d * e.bot.y) + exD e * (q.xn - q.d * e.bot.x) = 0 ∧ q.d * e.top.y ≤ q.yn ∧ q.yn ≤ q.d * e.bot.y
instance (e : GEdge) (q : QPt) : Decidable (OnQ e q) := by unfold OnQ; infer_instance

/-- **the point `p` (coordinates scaled by `D`) lies on the closed segment of the edge `e`**: collinear with `D·bot`, `D·top`
(`Spec.cross`), height between theirs.  For a non-horizontal edge this is `Spec.onSeg p (D·bot) (D·top)` (`Lemmas/C01OutputGeom.onE_iff_onSeg`). -/
def OnE (D : Int) (e : GEdge) (p : Pt) : Prop :=
  cross (Pt.scale D e.bot) (Pt.scale D e.top) p = 0 ∧ D * e.top.y ≤ p.y ∧ p.y ≤ D * e.bot.y
instance (D : Int) (e : GEdge) (p : Pt) : Decidable (OnE D e p) := by unfold OnE; infer_instance

/-! ## the order of the transpositions of one `DoIntersections`: bottom-up by exact crossing point -/

/-- position of an edge in the AEL `T` the scanbeam must end with -/
def rank (T : List GEdge) (e : GEdge) : Nat := T.idxOf e

/-- exchange the elements at positions `i`, `i+1` (identity when there are none) -/
def swapL {α : Type} (i : Nat) (l : List α) : List α :=
  match l.drop i with
  | a :: b :: rest => l.take i ++ b :: a :: rest
  | _ => l

/-- all adjacent pairs `(position, left edge, right edge)` of the list (standing at positions `k, k+1, …`) that are in the wrong order
for the target `T` -/
def adjInv (T : List GEdge) : Nat → List GEdge → List (Nat × GEdge × GEdge)
  | k, a :: b :: rest => (if rank T b < rank T a then [(k, a, b)] else []) ++ adjInv T (k + 1) (b :: rest)
  | _, _ => []

/-- `IntersectListSort`: `p` comes before `q` iff it is LOWER (larger `y`), or at the same height and further left -/
def lowerQ (p q : QPt) : Bool :=
  decide (p.yn * q.d > q.yn * p.d) || (decide (p.yn * q.d = q.yn * p.d) && decide (p.xn * q.d < q.xn * p.d))

/-- the candidate whose crossing point comes first -/
def pickBest : List (Nat × GEdge × GEdge) → Option (Nat × GEdge × GEdge)
  | [] => none
  | c :: cs => some (cs.foldl (fun best c' => if lowerQ (crossQ c'.2.1 c'.2.2) (crossQ best.2.1 best.2.2) then c' else best) c)

/-- **the transpositions of one `DoIntersections`, bottom-up**: `(position, left edge, right edge)` of every exchange.  `T` = the AEL the
scanbeam ends with; fuel = an upper bound of the number of inversions (`geoSwaps`). -/
def geo (T : List GEdge) : Nat → List GEdge → List (Nat × GEdge × GEdge)
  | 0, _ => []
  | n + 1, cur =>
    match pickBest (adjInv T 0 cur) with
    | none => []
    | some c => c :: geo T n (swapL c.1 cur)

def geoSwaps (T cur : List GEdge) : List (Nat × GEdge × GEdge) := geo T (cur.length * cur.length) cur

/-! ## the decorated events of one scanbeam -/

/-- one local minimum (mirrors `SweepEvents.minEvents`): `AddLocalMinPoly(left, right, left->bot)`; the settling loop of the right bound
calls `IntersectEdges(*right_bound, *right_bound->next_in_ael, right_bound->bot)` -/
def minEventsP (D : Int) (valid : GEdge → GEdge → Bool) (lab : Lab) (ael : List GEdge) (p : GEdge × GEdge) : List ROp :=
  match insertLeftPos valid (fun _ => false) ael p.1 with
  | some i =>
    .base (.insertPair i (lab p.1).1 false (lab p.1).2) (Pt.scale D p.1.bot) ::
      (List.range (bubbleCount valid p.2 ((insertLeft valid (fun _ => false) ael p.1).drop (i + 1)))).map
        (fun k => .base (.intersect (i + 1 + k)) (Pt.scale D p.2.bot))
  | none => []

/-- `InsertLocalMinimaIntoAEL(y0)` -/
def insEventsP (D : Int) (valid : GEdge → GEdge → Bool) (lab : Lab) : List GEdge → List (GEdge × GEdge) → List ROp
  | _, [] => []
  | ael, p :: ms => minEventsP D valid lab ael p ++ insEventsP D valid lab (insertBound valid ael p) ms

/-- `DoIntersections(y1)`: `inserted` = the AEL after the insertions, `T` = the AEL after `DoIntersections` -/
def isectEventsP (D : Int) (T inserted : List GEdge) : List ROp :=
  (geoSwaps T inserted).map (fun c => .base (.intersect c.1) ((crossQ c.2.1 c.2.2).toPt D))

/-- `DoTopOfScanbeam(y1)` (mirrors `SweepEvents.topEventsAux`, plus the `update` events) -/
def topEventsAuxP (D : Int) (next : GEdge → Option GEdge) (y1 : Int) : Bool → Nat → List GEdge → List ROp
  | _, _, [] => []
  | true, k, _ :: rest => topEventsAuxP D next y1 false k rest
  | false, k, e :: rest =>
    if isMax next y1 e then .base (.removePair k) (Pt.scale D e.top) :: topEventsAuxP D next y1 true k rest
    else if e.top.y = y1 then .update k (Pt.scale D e.top) :: topEventsAuxP D next y1 false (k + 1) rest
    else topEventsAuxP D next y1 false (k + 1) rest

def topEventsP (D : Int) (next : GEdge → Option GEdge) (y1 : Int) (ael : List GEdge) : List ROp :=
  topEventsAuxP D next y1 false 0 ael

/-- one scanbeam: the snapshot of the scanbeam model and the three groups of decorated events -/
structure BeamRunP where
  snap : Snap
  evIns : List ROp
  evIsect : List ROp
  evTop : List ROp
  deriving Repr, Inhabited

def BeamRunP.events (r : BeamRunP) : List ROp := r.evIns ++ r.evIsect ++ r.evTop

def beamRunP (D : Int) (valid : Int → GEdge → GEdge → Bool) (cx : GEdge → Int → Int) (next : GEdge → Option GEdge)
    (mins : Int → List (GEdge × GEdge)) (lab : Lab) (ael : List GEdge) (y0 y1 : Int) : BeamRunP :=
  let s := beamStep valid cx next mins ael y0 y1
  ⟨s, insEventsP D (valid y0) lab ael (mins y0), isectEventsP D s.afterIsect s.inserted, topEventsP D next y1 s.afterIsect⟩

/-- the whole sweep (mirrors `SweepEvents.beamRuns`) -/
def beamRunsP (D : Int) (valid : Int → GEdge → GEdge → Bool) (cx : GEdge → Int → Int) (next : GEdge → Option GEdge)
    (mins : Int → List (GEdge × GEdge)) (lab : Lab) : List GEdge → List Int → List BeamRunP
  | ael, y0 :: y1 :: rest =>
    let r := beamRunP D valid cx next mins lab ael y0 y1
    r :: beamRunsP D valid cx next mins lab r.snap.afterTop (y1 :: rest)
  | _, _ => []

/-- **the decorated event list of the sweep**, in coordinates scaled by `D` -/
def sweepEventsP (D : Int) (valid : Int → GEdge → GEdge → Bool) (cx : GEdge → Int → Int) (next : GEdge → Option GEdge)
    (mins : Int → List (GEdge × GEdge)) (lab : Lab) (ys : List Int) : List ROp :=
  (beamRunsP D valid cx next mins lab [] ys).flatMap BeamRunP.events

/-! ## the common denominator -/

/-- the denominators of the crossing points of the sweep (`D` does not matter for them) -/
def sweepDens (valid : Int → GEdge → GEdge → Bool) (cx : GEdge → Int → Int) (next : GEdge → Option GEdge)
    (mins : Int → List (GEdge × GEdge)) (ys : List Int) : List Int :=
  (sweepFrom valid cx next mins [] ys).flatMap (fun s => (geoSwaps s.afterIsect s.inserted).map (fun c => (crossQ c.2.1 c.2.2).d))

/-- least common multiple of a list of integers (`1` for the empty list) -/
def lcmList (ds : List Int) : Int := ((ds.foldl (fun acc d => Nat.lcm acc d.natAbs) 1 : Nat) : Int)

/-- **the scale of the exact sweep**: the least common multiple of the denominators of all its crossing points -/
def sweepDen (valid : Int → GEdge → GEdge → Bool) (cx : GEdge → Int → Int) (next : GEdge → Option GEdge)
    (mins : Int → List (GEdge × GEdge)) (ys : List Int) : Int :=
  lcmList (sweepDens valid cx next mins ys)

/-- `D` is positive and a multiple of every crossing denominator of the sweep -/
def DenOK (D : Int) (dens : List Int) : Prop := 0 < D ∧ ∀ d ∈ dens, d ∣ D
instance (D : Int) (dens : List Int) : Decidable (DenOK D dens) := by unfold DenOK; infer_instance

/-! ## reading the result -/

/-- the finished rings (`outrec.pts` of the records closed by `AddLocalMaxPoly`), in record order, points from `outrec->pts` following `->prev` -/
def finishedRings (rs : RState) : List (List Pt) := (rs.o.rings.filter (fun g => g.stat == .done)).map (·.pts)

/-- the finished rings as `BuildPath64` reads them for `ReverseSolution = false`: from `outrec->pts` following `->next` (the reverse of the
ring lists, which follow `->prev`) -/
def outputPaths (rs : RState) : Paths := (finishedRings rs).map List.reverse

/-- the sides of the paths `out` (coordinates scaled by `D`) that cross the scanline `yn/yd` strictly, each with the input edge both its end points
lie on and its direction (`true` = upwards, towards smaller y) -/
def sidesCrossing (D : Int) (edges : List GEdge) (out : Paths) (yn yd : Int) : List (Option Nat × Bool) :=
  out.flatMap (fun ring => (ring.zip (ring.rotateLeft 1)).filterMap (fun pq =>
    if (pq.1.y * yd > yn * D ∧ pq.2.y * yd < yn * D) ∨ (pq.1.y * yd < yn * D ∧ pq.2.y * yd > yn * D) then
      some ((edges.find? (fun e => decide (OnE D e pq.1) && decide (OnE D e pq.2))).map (·.id), decide (pq.2.y < pq.1.y))
    else none))

/-- the point an event carries (`= ROp.pt` of `Lemmas/AelRings.lean`) -/
def opPt : ROp → Pt
  | .base _ p => p
  | .join _ p => p
  | .split _ p => p
  | .update _ p => p

/-- the events are in bottom-up order: the heights of their points never increase (y grows downwards; the sweep climbs) -/
def ySorted : List ROp → Bool
  | a :: b :: rest => decide ((opPt b).y ≤ (opPt a).y) && ySorted (b :: rest)
  | _ => true

end Clipper.Model.SweepPoints
