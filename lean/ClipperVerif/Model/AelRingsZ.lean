/-
Z layer on the output ring assembly model (`Model/AelRings.lean`): the `OutPt` rings of the Vatti sweep in a `USINGZ` build, where every
point is an `(x, y, z)` triple (`ZFill.PtZ`), and the code that writes a `z`:

  * `new OutPt(pt, outrec)` (in `AddOutPt` and at the end of `AddLocalMinPoly`) copies the whole `Point64`, `z` included.  The points the
    sweep passes *by value* therefore arrive with the `z` they had: `left_bound->bot` (`InsertLocalMinimaIntoAEL`), `e->top`
    (`DoTopOfScanbeam`, `DoMaxima`, `DoHorizontal`) — input vertices with the input's `z` —, the `pt` of `Split` and of `CheckJoinLeft/Right`,
    and the `pt` of `IntersectEdges` (for a computed intersection `z = 0`: `Point64(x, y)` / a default constructed `Point64`).
  * `AddOutPt` suppresses a point equal (`operator==` ignores `z`) to the ring end it was to extend and returns the *existing* `OutPt`:
    the `z` that was handed over is dropped, the ring keeps the `z` it had.
  * `IntersectEdges`, closed branch, every emitting case: `resultOp = AddOutPt / AddLocalMaxPoly / AddLocalMinPoly (…, pt); if (zCallback_) SetZ(e1, e2, resultOp->pt);`
    — `SetZ` receives a *reference to the point stored in the ring*.  That is the fresh `OutPt` or — when `AddOutPt` suppressed the point —
    the old ring end, whose `z` is then **overwritten**.  `SetZ` (model: `ZFill.setZ`, bit-exact against the real private member) never reads
    the `z` it finds.  The both-hot `SwapOutrecs` case and the `AddLocalMaxPoly; AddLocalMinPoly` case call `SetZ` (hence the user's callback) twice
    with identical arguments, once per `OutPt`.  Without a callback nothing is called (`SetZ` would return at once): the triple stays as handed over.
    `SetZ` is called after the ring surgery of `AddLocalMaxPoly` (`JoinOutrecPaths`, `outrec.pts = result`), on the pointer `AddOutPt` returned; since the
    surgery touches no `pt`, reads no `z`, and `SetZ` reads only `x, y` of the point and `bot/top` of the edges, the model stamps the triple first and
    places it afterwards (the order of the callback's calls is kept).
  * the `Split`s inside `IntersectEdges` / `AddLocalMaxPoly` / `DoMaxima`, and `CheckJoinLeft/Right`, emit by value and never call `SetZ` — also
    with a callback installed.
  * `JoinOutrecPaths`, `SwapOutrecs`, `UncoupleOutRec` / `outrec.pts = result` relink or relabel and touch no point.

The user callback may have state: it is modelled as a family `F : Nat → Callback`, `F k` answering its `k`-th call in this `Execute` (any
deterministic callback whose state changes only through its own calls is such a family); the theorems quantify over all families.

Layering: the state is the ring model's state paired with the Z rings; a step is `Model.stepR` on the former and, on the latter, the Z effect
computed from the *side state before the step* along the same control flow (`…OutZ` functions, twins of the `…Out` functions).  Forgetting the
Z part is therefore `Model.stepR` by construction (`eraseZ_step`); that forgetting the `z` of every point of the Z rings gives the rings of the
ring model is a theorem (`Props/C15Rings.lean`, `z_rings_agree`).

Not modelled here (exactly as in the ring model): output records of open paths and the `SetZ` calls made for them — they are the subject of `Model/AelOpenRingsZ.lean`,
which pairs this layer with a Z layer of the open model and threads one callback counter through both (used alone on an `Execute` with open subjects, the call index `k` of
this layer would lag behind the real one) —; horizontal joins (`ConvertHorzSegsToJoins` duplicates `OutPt`s with `DuplicateOp`, which copies `z`); everything after the sweep
(`CleanCollinear`, `FixSelfIntersects` → `DoSplitOp`, which calls the callback itself; `BuildPath64` of closed records).

Core Lean only (the driver executable links this file).
-/
import ClipperVerif.Model.AelRings
import ClipperVerif.Model.ZFill
namespace Clipper.Model
open Clipper.Model.ZFill

/-- forget z -/
def xy (p : PtZ) : Pt := ⟨p.x, p.y⟩

/-- one closed output record with its points as triples (no ghost fields: those live in the ring model) -/
structure ZRing where
  /-- the points from `outrec->pts` following `->prev` (front end first) -/
  pts : List PtZ
  stat : RStat
  deriving DecidableEq, Repr, Inhabited

/-- `bot` and `top` of the two edges of an `IntersectEdges(e1, e2, pt)` call, as `SetZ` reads them -/
structure ZEnds where
  e1bot : PtZ
  e1top : PtZ
  e2bot : PtZ
  e2top : PtZ
  deriving DecidableEq, Repr, Inhabited

def ZEnds.none : ZEnds := ⟨⟨0, 0, 0⟩, ⟨0, 0, 0⟩, ⟨0, 0, 0⟩, ⟨0, 0, 0⟩⟩

/-- where the `z` of a stored triple comes from: `given` = the triple was handed over by value and stored as it was; `setz k` = `SetZ` wrote it,
calling the callback for the `k`-th time -/
inductive ZSrc
  | given
  | setz (k : Nat)
  deriving DecidableEq, Repr, Inhabited

/-- what happened to a triple handed to the output.  `new`, `added`, `dup`, `lost` as `EmitKind`; `over` = `AddOutPt` returned the existing ring end
(as for `dup`) and `SetZ` then overwrote that end's `z` -/
inductive ZKind
  | new | added | dup | over | lost
  deriving DecidableEq, Repr, Inhabited

structure ZEmit where
  /-- the triple: for `new`, `added`, `over` as it stands in the ring after the emission; for `dup` as it was handed over (and dropped) -/
  ptz : PtZ
  kind : ZKind
  src : ZSrc
  /-- `over` only: the triple that stood at the ring end before (same `x, y`) -/
  old : PtZ
  deriving DecidableEq, Repr, Inhabited

/-- ghost: one call of the user callback: its index, the four end points in the order passed (subject edge first), the point as shown to the
callback (`z` = `pickZ`), and the `z` the callback left in it -/
structure ZCall where
  k : Nat
  a : PtZ
  b : PtZ
  c : PtZ
  d : PtZ
  seen : PtZ
  ret : Int
  deriving DecidableEq, Repr, Inhabited

/-- `zCallback_` (`none` = not installed; `some F`: `F k` answers the `k`-th call) and `DefaultZ` -/
structure ZCfg where
  cb : Option (Nat → Callback)
  defaultZ : Int

structure ZOut where
  rings : List ZRing
  /-- ghost: emission log, most recent first -/
  log : List ZEmit
  /-- number of callback calls so far -/
  ncb : Nat
  /-- ghost: the calls, most recent first -/
  calls : List ZCall
  deriving Repr, Inhabited

def ZOut.empty : ZOut := { rings := [], log := [], ncb := 0, calls := [] }

/-! ## stamping: the triple that ends up stored -/

structure Stamp where
  q : PtZ
  src : ZSrc
  ncb : Nat
  calls : List ZCall

/-- `how = none`: the point is stored by value.  `how = some subj`: `if (zCallback_) SetZ(e1, e2, resultOp->pt)` follows, `subj` = `GetPolyType(e1) == Subject`. -/
def stamp (zc : ZCfg) (ends : ZEnds) (how : Option Bool) (pt : PtZ) (z : ZOut) : Stamp :=
  match zc.cb, how with
  | some F, some subj =>
    let q := setZ (some (F z.ncb)) subj ends.e1bot ends.e1top ends.e2bot ends.e2top pt zc.defaultZ
    let call : ZCall :=
      if subj then ⟨z.ncb, ends.e1bot, ends.e1top, ends.e2bot, ends.e2top, { pt with z := pickZ pt ends.e1bot ends.e1top ends.e2bot ends.e2top zc.defaultZ }, q.z⟩
      else ⟨z.ncb, ends.e2bot, ends.e2top, ends.e1bot, ends.e1top, { pt with z := pickZ pt ends.e2bot ends.e2top ends.e1bot ends.e1top zc.defaultZ }, q.z⟩
    { q := q, src := .setz z.ncb, ncb := z.ncb + 1, calls := call :: z.calls }
  | _, _ => { q := pt, src := .given, ncb := z.ncb, calls := z.calls }

def ZSrc.viaSetZ : ZSrc → Bool
  | .given => false
  | .setz _ => true

/-! ## primitives -/

def endPtZ (front : Bool) (pts : List PtZ) : Option PtZ := if front then pts.head? else pts.getLast?

/-- the ring with its end `front` replaced by `q` -/
def setEndZ (front : Bool) (q : PtZ) (pts : List PtZ) : List PtZ := if front then q :: pts.tail else pts.dropLast ++ [q]

def pushZ (front : Bool) (q : PtZ) (pts : List PtZ) : List PtZ := if front then q :: pts else pts ++ [q]

/-- end of `AddLocalMinPoly`: `OutPt* op = new OutPt(pt, outrec); outrec->pts = op; return op;` [`SetZ(e1, e2, op->pt)`] -/
def newRecZ (zc : ZCfg) (ends : ZEnds) (how : Option Bool) (pt : PtZ) (z : ZOut) : ZOut :=
  let st := stamp zc ends how pt z
  { rings := z.rings ++ [{ pts := [st.q], stat := .live }], log := ⟨st.q, .new, st.src, st.q⟩ :: z.log, ncb := st.ncb, calls := st.calls }

/-- `resultOp = AddOutPt(e, pt);` [`SetZ(e1, e2, resultOp->pt)`] where `e.outrec` is record `id` and `front = IsFront(e)` -/
def addOutPtZ (zc : ZCfg) (ends : ZEnds) (id : Nat) (front : Bool) (how : Option Bool) (pt : PtZ) (z : ZOut) : ZOut :=
  let st := stamp zc ends how pt z
  match z.rings[id]? with
  | some r =>
    if r.stat = .live then
      match endPtZ front r.pts with
      | some p =>
        if xy pt = xy p then
          if st.src.viaSetZ then
            { rings := z.rings.set id { r with pts := setEndZ front st.q r.pts }, log := ⟨st.q, .over, st.src, p⟩ :: z.log, ncb := st.ncb, calls := st.calls }
          else { rings := z.rings, log := ⟨pt, .dup, st.src, pt⟩ :: z.log, ncb := st.ncb, calls := st.calls }
        else { rings := z.rings.set id { r with pts := pushZ front st.q r.pts }, log := ⟨st.q, .added, st.src, st.q⟩ :: z.log, ncb := st.ncb, calls := st.calls }
      | none => { rings := z.rings.set id { r with pts := [st.q] }, log := ⟨st.q, .added, st.src, st.q⟩ :: z.log, ncb := st.ncb, calls := st.calls }
    else { rings := z.rings, log := ⟨st.q, .lost, st.src, st.q⟩ :: z.log, ncb := st.ncb, calls := st.calls }
  | none => { rings := z.rings, log := ⟨st.q, .lost, st.src, st.q⟩ :: z.log, ncb := st.ncb, calls := st.calls }

/-- `outrec.pts = result; UncoupleOutRec(e1);` (see `Model.finish`): a rotation by one when `e1` is the back edge; no point is touched -/
def finishZ (id : Nat) (e1front : Bool) (z : ZOut) : ZOut :=
  match z.rings[id]? with
  | some r =>
    let pts' : List PtZ := if e1front then r.pts else (match r.pts.getLast? with | some b => b :: r.pts.dropLast | none => r.pts)
    { z with rings := z.rings.set id { stat := .done, pts := pts' } }
  | none => z

/-- `JoinOutrecPaths(e1, e2)` (see `Model.joinPaths`): pointer surgery only; no point is touched -/
def joinPathsZ (A B : Nat) (e1front : Bool) (z : ZOut) : ZOut :=
  match z.rings[A]?, z.rings[B]? with
  | some ra, some rb =>
    if A ≠ B ∧ ra.stat = .live ∧ rb.stat = .live then
      let ra' : ZRing := if e1front then { ra with pts := rb.pts ++ ra.pts } else { ra with pts := ra.pts ++ rb.pts }
      { z with rings := (z.rings.set A ra').set B { pts := [], stat := .gone } }
    else z
  | _, _ => z

/-! ## the Z effects of the engine's functions (twins of the `…Out` functions of `Model/AelRings.lean`; `SwapOutrecs` / `handOver` and the segment
log have no Z effect) -/

def localMaxOutZ (zc : ZCfg) (ends : ZEnds) (how : Option Bool) (ra rb : Rec) (pt : PtZ) (z : ZOut) : ZOut :=
  let z1 := addOutPtZ zc ends ra.id ra.front how pt z
  if ra.id = rb.id then finishZ ra.id ra.front z1
  else if ra.id < rb.id then joinPathsZ ra.id rb.id ra.front z1
  else joinPathsZ rb.id ra.id rb.front z1

def addOnZ (zc : ZCfg) (ends : ZEnds) (how : Option Bool) (r : Option Rec) (pt : PtZ) (z : ZOut) : ZOut :=
  match r with
  | some x => addOutPtZ zc ends x.id x.front how pt z
  | none => z

/-- the three `AddOutPt … SwapOutrecs(e1, e2)` branches of `IntersectEdges`: `resultOp = AddOutPt(e1, pt); op2 = AddOutPt(e2, pt); SetZ(e1, e2, resultOp->pt); SetZ(e1, e2, op2->pt);` -/
def swapOutZ (zc : ZCfg) (ends : ZEnds) (how : Option Bool) (r1 r2 : Option Rec) (pt : PtZ) (z : ZOut) : ZOut :=
  addOnZ zc ends how r2 pt (addOnZ zc ends how r1 pt z)

/-- "NOW PROCESS THE INTERSECTION", closed branch: every emission is followed by `if (zCallback_) SetZ(e1, e2, …)`, `subj = (GetPolyType(e1) == Subject)` -/
def coreOutZ (cfg : Cfg) (zc : ZCfg) (ends : ZEnds) (a b : SEdge) (pt : PtZ) (z : ZOut) : ZOut :=
  let w := updateWinds cfg.fr a.e b.e
  let how : Option Bool := some (a.e.pt == .subject)
  match decideAct cfg w.1 w.2 a.orec b.orec with
  | .nothing => z
  | .swap => swapOutZ zc ends how a.orec b.orec pt z
  | .localMin => newRecZ zc ends how pt z
  | .localMax =>
    match a.orec, b.orec with
    | some ra, some rb => localMaxOutZ zc ends how ra rb pt z
    | _, _ => z
  | .maxThenMin =>
    match a.orec, b.orec with
    | some ra, some rb => newRecZ zc ends how pt (localMaxOutZ zc ends how ra rb pt z)
    | _, _ => z

/-- `if (IsJoined(e)) Split(e, pt);` — `AddLocalMinPoly(…, pt, true)` by value, no `SetZ` -/
def splitOutZ (zc : ZCfg) (i : Nat) (pt : PtZ) (s : SState) (z : ZOut) : ZOut :=
  match s.ael[i]? with
  | some x => if x.join = .none then z else newRecZ zc ZEnds.none none pt z
  | none => z

def twoSplitsOutZ (zc : ZCfg) (i : Nat) (pt : PtZ) (s : SState) (z : ZOut) : ZOut × Option (SEdge × SEdge) :=
  let z1 := splitOutZ zc i pt s z
  match splitAt i s with
  | .ok s1 =>
    let z2 := splitOutZ zc (i + 1) pt s1 z1
    match splitAt (i + 1) s1 with
    | .ok s2 =>
      match s2.ael.drop i with
      | a :: b :: _ => (z2, some (a, b))
      | _ => (z2, none)
    | .error _ => (z2, none)
  | .error _ => (z1, none)

/-- `IntersectEdges(e1, e2, pt)` with `e1` at position `i`, `e2` at `i+1` -/
def intersectOutZ (cfg : Cfg) (zc : ZCfg) (i : Nat) (pt : PtZ) (ends : ZEnds) (s : SState) (z : ZOut) : ZOut :=
  match s.ael.drop i with
  | a0 :: b0 :: _ =>
    if a0.e.isOpen || b0.e.isOpen then
      if a0.e.isOpen && b0.e.isOpen then z
      else if a0.e.isOpen then splitOutZ zc (i + 1) pt s z else splitOutZ zc i pt s z
    else
      match twoSplitsOutZ zc i pt s z with
      | (z2, some (a, b)) => coreOutZ cfg zc ends a b pt z2
      | (z2, none) => z2
  | _ => z

/-- `AddLocalMinPoly(*left_bound, *right_bound, left_bound->bot, true)`: by value, `bot` is the local minimum vertex with the input's z -/
def insertPairOutZ (cfg : Cfg) (zc : ZCfg) (pos : Nat) (pt : PathType) (isOpen : Bool) (dxLeft : Int) (bot : PtZ) (s : SState) (z : ZOut) : ZOut :=
  let r := newLeft cfg (erase (s.ael.take pos)) pt isOpen dxLeft
  if r.2 && !isOpen then newRecZ zc ZEnds.none none bot z else z

/-- end of `DoMaxima` / the maxima branch of `DoHorizontal`: the `Split`s and `AddLocalMaxPoly(e, *max_pair, e.top)`, by value -/
def removePairOutZ (zc : ZCfg) (i : Nat) (top : PtZ) (s : SState) (z : ZOut) : ZOut :=
  match s.ael.drop i with
  | a0 :: _ :: _ =>
    if a0.e.isOpen then z
    else
      match twoSplitsOutZ zc i top s z with
      | (z2, some (a, b)) =>
        match a.orec, b.orec with
        | some ra, some rb => localMaxOutZ zc ZEnds.none none ra rb top z2
        | _, _ => z2
      | (z2, none) => z2
  | _ => z

/-- `CheckJoinLeft/Right`: `AddLocalMaxPoly(left, right, pt)` by value, or `JoinOutrecPaths` alone -/
def joinOutZ (zc : ZCfg) (i : Nat) (pt : PtZ) (s : SState) (z : ZOut) : ZOut :=
  match s.ael.drop i with
  | a :: b :: _ =>
    match a.orec, b.orec with
    | some ra, some rb =>
      if ra.id = rb.id then localMaxOutZ zc ZEnds.none none ra rb pt z
      else if ra.id < rb.id then joinPathsZ ra.id rb.id ra.front z else joinPathsZ rb.id ra.id rb.front z
    | _, _ => z
  | _ => z

/-- `if (IsHotEdge(*e)) AddOutPt(*e, e->top);`: by value, `top` is an input vertex with the input's z -/
def updateOutZ (zc : ZCfg) (i : Nat) (top : PtZ) (s : SState) (z : ZOut) : ZOut :=
  match s.ael[i]? with
  | some x => if x.e.isOpen then z else addOnZ zc ZEnds.none none x.orec top z
  | none => z

/-! ## events -/

/-- the events of `Model.ROp`, each with the triple the C++ has in hand; `intersect` also carries `bot`/`top` of the two edges -/
inductive ZOp
  | insertPair (pos : Nat) (pt : PathType) (isOpen : Bool) (dxLeft : Int) (bot : PtZ)
  | insertOne (pos : Nat) (pt : PathType) (dx : Int)
  | intersect (i : Nat) (pt : PtZ) (ends : ZEnds)
  | removePair (i : Nat) (top : PtZ)
  | removeOne (i : Nat)
  | join (i : Nat) (pt : PtZ)
  | split (i : Nat) (pt : PtZ)
  | update (i : Nat) (top : PtZ)
  deriving DecidableEq, Repr, Inhabited

/-- the triple an event carries (open-path events carry none: `(0,0,0)`) -/
def ZOp.ptz : ZOp → PtZ
  | .insertPair _ _ _ _ p => p
  | .insertOne _ _ _ => ⟨0, 0, 0⟩
  | .intersect _ p _ => p
  | .removePair _ p => p
  | .removeOne _ => ⟨0, 0, 0⟩
  | .join _ p => p
  | .split _ p => p
  | .update _ p => p

/-- the event of the ring model: forget z (and the edges' end points) -/
def ZOp.erase : ZOp → ROp
  | .insertPair pos pt isOpen dxLeft p => .base (.insertPair pos pt isOpen dxLeft) (xy p)
  | .insertOne pos pt dx => .base (.insertOne pos pt dx) ⟨0, 0⟩
  | .intersect i p _ => .base (.intersect i) (xy p)
  | .removePair i p => .base (.removePair i) (xy p)
  | .removeOne i => .base (.removeOne i) ⟨0, 0⟩
  | .join i p => .join i (xy p)
  | .split i p => .split i (xy p)
  | .update i p => .update i (xy p)

/-- the Z effect of an event, computed from the side state before the event -/
def outStepZ (cfg : Cfg) (zc : ZCfg) (s : SState) (z : ZOut) : ZOp → ZOut
  | .insertPair pos pt isOpen dxLeft bot => insertPairOutZ cfg zc pos pt isOpen dxLeft bot s z
  | .insertOne _ _ _ => z
  | .intersect i pt ends => intersectOutZ cfg zc i pt ends s z
  | .removePair i top => removePairOutZ zc i top s z
  | .removeOne _ => z
  | .join i pt => joinOutZ zc i pt s z
  | .split i pt => splitOutZ zc i pt s z
  | .update i top => updateOutZ zc i top s z

structure ZState where
  r : RState
  z : ZOut
  deriving Repr, Inhabited

def ZState.empty : ZState := { r := RState.empty, z := ZOut.empty }

/-- one event: the ring model's step, paired with the Z effect -/
def stepZ (cfg : Cfg) (zc : ZCfg) (st : ZState) (op : ZOp) : Except Err ZState :=
  match stepR cfg st.r op.erase with
  | .ok r' => .ok { r := r', z := outStepZ cfg zc st.r.s st.z op }
  | .error e => .error e

def runZ (cfg : Cfg) (zc : ZCfg) : ZState → List ZOp → Except Err ZState
  | st, [] => .ok st
  | st, op :: ops =>
    match stepZ cfg zc st op with
    | .ok st' => runZ cfg zc st' ops
    | .error e => .error e

/-! ## executable forms of the invariants -/

/-- all triples of all rings -/
def allPtsZ (rings : List ZRing) : List PtZ := rings.flatMap (·.pts)

/-- forgetting z, a Z ring is `(stat, pts)` of a ring of the ring model -/
def ZRing.erase (g : ZRing) : RStat × List Pt := (g.stat, g.pts.map xy)
def Ring.core (g : Ring) : RStat × List Pt := (g.stat, g.pts)

def ZKind.erase : ZKind → EmitKind
  | .new => .new | .added => .added | .dup => .dup | .over => .dup | .lost => .lost

def ZEmit.erase (e : ZEmit) : Emit := ⟨xy e.ptz, e.kind.erase⟩

/-- the Z rings are the ring model's rings with a z on every point; the Z log is the ring model's log -/
def checkAgree (st : ZState) : Bool :=
  st.z.rings.map ZRing.erase == st.r.o.rings.map Ring.core && st.z.log.map ZEmit.erase == st.r.o.log

def ZEmit.stored (e : ZEmit) : Bool := e.kind == .new || e.kind == .added || e.kind == .over

/-- every triple of every ring is the triple of a log entry that stored it -/
def checkProv (z : ZOut) : Bool :=
  (allPtsZ z.rings).all (fun q => z.log.any (fun e => e.stored && e.ptz == q))

end Clipper.Model
