/-!
# Executable model of the loop of `ClipperBase::ProcessIntersectList` (clipper.engine.cpp ~2452)

```
for (node_iter = begin; node_iter != end; ++node_iter) {
  if (!EdgesAdjacentInAEL(*node_iter)) {
    node_iter2 = node_iter + 1;
    while (!EdgesAdjacentInAEL(*node_iter2)) ++node_iter2;      // no bound check
    std::swap(*node_iter, *node_iter2);
  }
  IntersectEdges(...); SwapPositionsInAEL(*node.edge1, *node.edge2); ...
}
```
The AEL is the list `π` of edge keys (a key = the edge's rank in the order required at the top of the scanbeam), a node
is a pair of keys.  Geometry (`IntersectEdges`, joins) is not modelled: only what decides whether the scan stays
inside `intersect_nodes_`.  Core Lean only.
-/
namespace Clipper.Model.IntersectList

/-- `EdgesAdjacentInAEL`: the node's two edges are neighbours (either order) -/
def adjacent : List Nat → Nat × Nat → Bool
  | x :: y :: t, n => (x == n.1 && y == n.2) || (x == n.2 && y == n.1) || adjacent (y :: t) n
  | _, _ => false

/-- `SwapPositionsInAEL`: exchange the two neighbours -/
def swapIn : List Nat → Nat × Nat → List Nat
  | x :: y :: t, n => if (x == n.1 && y == n.2) || (x == n.2 && y == n.1) then y :: x :: t else x :: swapIn (y :: t) n
  | l, _ => l

/-- the inner `while`: first node of `rest` satisfying `p`, exchanged with `n` (`std::swap(*node_iter, *node_iter2)`);
`none` = `node_iter2` runs past `end()` (the out-of-bounds read the property forbids) -/
def scanSwap {α : Type} (p : α → Bool) (n : α) : List α → Option (α × List α)
  | [] => none
  | m :: t => if p m then some (m, n :: t) else (scanSwap p n t).map (fun r => (r.1, m :: r.2))

inductive Fault | scanPastEnd
  deriving Repr, DecidableEq

/-- the `for` loop (structural on the node list through `fuel` = its length) -/
def process : Nat → List Nat → List (Nat × Nat) → Except Fault (List Nat)
  | _, π, [] => .ok π
  | 0, _, _ :: _ => .error .scanPastEnd
  | fuel + 1, π, n :: rest =>
    if adjacent π n then process fuel (swapIn π n) rest
    else match scanSwap (adjacent π) n rest with
      | none => .error .scanPastEnd
      | some (m, rest') => process fuel (swapIn π m) rest'

end Clipper.Model.IntersectList
