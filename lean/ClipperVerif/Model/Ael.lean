/-
Bookkeeping model of the Vatti sweep's active edge list (AEL) of `clipper.engine.cpp`.

What is modelled: for every edge in the AEL its path type, open flag, winding direction (`wind_dx`),
the two stored winding counts (`wind_cnt`, `wind_cnt2`) and whether it is "hot" (owns an output
record), together with the code that reads and writes these fields:
`IsContributingClosed`, `IsContributingOpen`, `SetWindCountForClosedPathEdge`,
`SetWindCountForOpenPathEdge`, the bookkeeping part of `InsertLocalMinimaIntoAEL`, `IntersectEdges`
(open branch and closed branch) + `SwapPositionsInAEL`, and the pair removal of `DoMaxima`.

What is NOT modelled: geometry.  *Where* an edge is inserted, *which* adjacent pair crosses next
and *when* a maximum is reached are inputs of the model (`Op`).  Output rings are not modelled either:
an edge is hot or cold, nothing more.

`hot` is the *logical* hotness `IsHotEdge(e) || IsJoined(e)`: `CheckJoinLeft/Right` move the output record
away from two hot edges and mark them joined, `Split` gives them a fresh record again, and every
reader of `IsHotEdge` in the modelled code runs `Split` first.  A trace hook must therefore report
`hot = (e.outrec != nullptr) || (e.join_with != JoinWith::NoJoin)`.

Core Lean only (the driver executable links this file).
-/
import ClipperVerif.Spec.Basic
import ClipperVerif.Spec.Open
namespace Clipper.Model

/-- `std::abs` on `int` (mathematical) -/
def iabs (x : Int) : Int := if x < 0 then -x else x

/-- the two members of `ClipperBase` the bookkeeping depends on: `cliptype_`, `fillrule_` -/
structure Cfg where
  ct : ClipType
  fr : FillRule
  deriving DecidableEq, Repr, Inhabited

/-- the bookkeeping fields of `struct Active` -/
structure Edge where
  /-- `local_min->polytype` -/
  pt : PathType
  /-- `local_min->is_open` -/
  isOpen : Bool
  /-- `wind_dx` (+1 ascending bound, −1 descending bound) -/
  dx : Int
  /-- `wind_cnt` -/
  wc : Int
  /-- `wind_cnt2` -/
  wc2 : Int
  /-- `outrec != nullptr || join_with != NoJoin` -/
  hot : Bool
  deriving DecidableEq, Repr, Inhabited

/-- the AEL from left (`actives_`) to right (`next_in_ael`) -/
abbrev Ael := List Edge

def other : PathType → PathType
  | .subject => .clip
  | .clip => .subject

/-! ## `IsContributingClosed` / `IsContributingOpen` (hand models; tied to the generated
definitions by the bridge theorems of `Props/C01.lean`, `Props/C05.lean`) -/

/-- first `switch (fillrule_)` of `IsContributingClosed`: does the edge bound its own path type's
filled region? -/
def pre (fr : FillRule) (wc : Int) : Bool :=
  match fr with
  | .evenOdd => true
  | .nonZero => iabs wc == 1
  | .positive => wc == 1
  | .negative => wc == -1

/-- the fill-rule test on a stored count (`wind_cnt2 > 0`, `< 0`, `!= 0`) -/
def otherIn (fr : FillRule) (wc2 : Int) : Bool :=
  match fr with
  | .positive => decide (wc2 > 0)
  | .negative => decide (wc2 < 0)
  | _ => decide (wc2 ≠ 0)

/-- second `switch (cliptype_)` of `IsContributingClosed` as a function of "is the point inside the
other path type's region" -/
def sel (ct : ClipType) (pt : PathType) (k : Bool) : Bool :=
  match ct with
  | .noClip => false
  | .intersection => k
  | .union => !k
  | .difference => if pt = .subject then !k else k
  | .xor => true

def isContributingClosed (ct : ClipType) (fr : FillRule) (pt : PathType) (wc wc2 : Int) : Bool :=
  pre fr wc && sel ct pt (otherIn fr wc2)

def isContributingOpen (ct : ClipType) (fr : FillRule) (wc wc2 : Int) : Bool :=
  let isInClip := otherIn fr wc2
  let isInSubj := otherIn fr wc
  match ct with
  | .intersection => isInClip
  | .union => !isInSubj && !isInClip
  | _ => !isInClip

/-! ## `SetWindCountForClosedPathEdge` -/

/-- `while (e2 && (GetPolyType(*e2) != pt || IsOpen(*e2))) e2 = e2->prev_in_ael;`
The argument is the part of the AEL to the left of the new edge, *nearest edge first*.
Result: the edge `e2` found (if any) and the edges strictly between `e2` and the new edge, left to
right (all edges to the left when there is no `e2`: the C++ restarts from `actives_`). -/
def findPrev (t : PathType) : List Edge → Option Edge × List Edge
  | [] => (none, [])
  | x :: xs =>
    if x.pt = t ∧ x.isOpen = false then (some x, [])
    else ((findPrev t xs).1, (findPrev t xs).2 ++ [x])

/-- the two `while (e2 != &e)` loops that update `wind_cnt2` -/
def wc2Loop (fr : FillRule) (t : PathType) : List Edge → Int → Int
  | [], w => w
  | x :: xs, w =>
    if x.pt ≠ t ∧ x.isOpen = false then
      wc2Loop fr t xs (if fr = .evenOdd then (if w = 0 then 1 else 0) else w + x.dx)
    else wc2Loop fr t xs w

/-- the NonZero/Positive/Negative branch computing `e.wind_cnt` from the nearest same-type edge -/
def wcFrom (eIsOpen : Bool) (e2wc e2dx dx : Int) : Int :=
  if e2wc * e2dx < 0 then
    if iabs e2wc > 1 then
      (if e2dx * dx < 0 then e2wc else e2wc + dx)
    else (if eIsOpen then 1 else dx)
  else
    (if e2dx * dx < 0 then e2wc else e2wc + dx)

/-- `SetWindCountForClosedPathEdge(e)` where `left` is the AEL to the left of `e` (left to right).
`e.wc2` is read in the branch without `e2` exactly as the C++ does (it is 0 for a new `Active`). -/
def setWindClosed (fr : FillRule) (left : List Edge) (e : Edge) : Edge :=
  match findPrev e.pt left.reverse with
  | (none, between) => { e with wc := e.dx, wc2 := wc2Loop fr e.pt between e.wc2 }
  | (some e2, between) =>
    if fr = .evenOdd then
      { e with wc := e.dx, wc2 := wc2Loop fr e.pt between e2.wc2 }
    else
      { e with wc := wcFrom e.isOpen e2.wc e2.dx e.dx, wc2 := wc2Loop fr e.pt between e2.wc2 }

/-! ## `SetWindCountForOpenPathEdge` -/

/-- EvenOdd loop: `(cnt1, cnt2)` -/
def openCounts : List Edge → Nat × Nat → Nat × Nat
  | [], c => c
  | x :: xs, c =>
    if x.pt = .clip then openCounts xs (c.1, c.2 + 1)
    else if x.isOpen = false then openCounts xs (c.1 + 1, c.2)
    else openCounts xs c

/-- other fill rules: `(wind_cnt, wind_cnt2)` -/
def openSums : List Edge → Int × Int → Int × Int
  | [], w => w
  | x :: xs, w =>
    if x.pt = .clip then openSums xs (w.1, w.2 + x.dx)
    else if x.isOpen = false then openSums xs (w.1 + x.dx, w.2)
    else openSums xs w

def setWindOpen (fr : FillRule) (left : List Edge) (e : Edge) : Edge :=
  if fr = .evenOdd then
    let c := openCounts left (0, 0)
    { e with wc := if c.1 % 2 = 1 then 1 else 0, wc2 := if c.2 % 2 = 1 then 1 else 0 }
  else
    let w := openSums left (e.wc, e.wc2)
    { e with wc := w.1, wc2 := w.2 }

/-! ## `IntersectEdges` -/

/-- "UPDATE WINDING COUNTS..." -/
def updateWinds (fr : FillRule) (e1 e2 : Edge) : Edge × Edge :=
  if e1.pt = e2.pt then
    if fr = .evenOdd then ({ e1 with wc := e2.wc }, { e2 with wc := e1.wc })
    else
      ({ e1 with wc := if e1.wc + e2.dx = 0 then -e1.wc else e1.wc + e2.dx },
       { e2 with wc := if e2.wc - e1.dx = 0 then -e2.wc else e2.wc - e1.dx })
  else
    if fr ≠ .evenOdd then ({ e1 with wc2 := e1.wc2 + e2.dx }, { e2 with wc2 := e2.wc2 - e1.dx })
    else ({ e1 with wc2 := if e1.wc2 = 0 then 1 else 0 }, { e2 with wc2 := if e2.wc2 = 0 then 1 else 0 })

/-- `old_e1_windcnt` / `e1Wc2`: `abs` for EvenOdd and NonZero, the count for Positive, its negation
for Negative -/
def oldWc (fr : FillRule) (wc : Int) : Int :=
  match fr with
  | .evenOdd | .nonZero => iabs wc
  | .positive => wc
  | .negative => -wc

def in01 (x : Int) : Bool := x == 0 || x == 1

/-- the `switch (cliptype_)` in the both-cold same-type case (`default:` serves Intersection and NoClip) -/
def goSame (ct : ClipType) (pt : PathType) (w1 w2 : Int) : Bool :=
  match ct with
  | .union => decide (w1 ≤ 0 ∧ w2 ≤ 0)
  | .difference =>
    (pt == .clip && decide (w1 > 0 ∧ w2 > 0)) || (pt == .subject && decide (w1 ≤ 0 ∧ w2 ≤ 0))
  | .xor => true
  | _ => decide (w1 > 0 ∧ w2 > 0)

/-- "NOW PROCESS THE INTERSECTION" as a function of nine Booleans: new hot flags of `(e1, e2)`.
`AddLocalMaxPoly` = both cold, `AddLocalMinPoly` = both hot, `AddOutPt`+`SwapOutrecs` = exchange. -/
def decideHotB (hot1 hot2 i1 i2 q1 q2 diffType notXor go : Bool) : Bool × Bool :=
  if (!hot1 && !i1) || (!hot2 && !i2) then (hot1, hot2)
  else if hot1 && hot2 then
    if !i1 || !i2 || (diffType && notXor) then (false, false) else (true, true)
  else if hot1 then (false, true)
  else if hot2 then (true, false)
  else if diffType then (true, true)
  else if q1 && q2 then (if go then (true, true) else (hot1, hot2))
  else (hot1, hot2)

/-- new hot flags of `(e1, e2)`, read from the edges *after* the count update (as the C++ does) -/
def decideHot (cfg : Cfg) (e1 e2 : Edge) : Bool × Bool :=
  decideHotB e1.hot e2.hot (in01 (oldWc cfg.fr e1.wc)) (in01 (oldWc cfg.fr e2.wc))
    (oldWc cfg.fr e1.wc == 1) (oldWc cfg.fr e2.wc == 1) (e1.pt != e2.pt) (cfg.ct != .xor)
    (goSame cfg.ct e1.pt (oldWc cfg.fr e1.wc2) (oldWc cfg.fr e2.wc2))

/-- closed branch ("MANAGING CLOSED PATHS FROM HERE ON") -/
def intersectClosed (cfg : Cfg) (e1 e2 : Edge) : Edge × Edge :=
  let p := updateWinds cfg.fr e1 e2
  let h := decideHot cfg p.1 p.2
  ({ p.1 with hot := h.1 }, { p.2 with hot := h.2 })

/-- `switch (cliptype_)` of the open branch: `true` = return without toggling -/
def openSkipCt (ct : ClipType) (ecPt : PathType) (ecHot : Bool) : Bool :=
  match ct with
  | .union => !ecHot
  | _ => ecPt == .subject

/-- `switch (fillrule_)` of the open branch: `true` = return without toggling -/
def openSkipFr (fr : FillRule) (ecWc : Int) : Bool :=
  match fr with
  | .positive => ecWc != 1
  | .negative => ecWc != -1
  | _ => iabs ecWc != 1

/-- open branch: new state of the open edge `eo` crossing the closed edge `ec`
(each `return` before "toggle contribution" leaves it alone; all three continuations of the toggle
make a cold edge hot, the first makes a hot edge cold) -/
def intersectOpen (cfg : Cfg) (eo ec : Edge) : Edge :=
  if iabs ec.wc ≠ 1 then eo
  else if openSkipCt cfg.ct ec.pt ec.hot then eo
  else if openSkipFr cfg.fr ec.wc then eo
  else { eo with hot := !eo.hot }

/-- `IntersectEdges(e1, e2, pt)`: new `(e1, e2)` -/
def intersectPair (cfg : Cfg) (e1 e2 : Edge) : Edge × Edge :=
  if e1.isOpen || e2.isOpen then
    if e1.isOpen && e2.isOpen then (e1, e2)
    else if e1.isOpen then (intersectOpen cfg e1 e2, e2)
    else (e1, intersectOpen cfg e2 e1)
  else intersectClosed cfg e1 e2

/-! ## Operations on the list -/

/-- a new `Active()` -/
def fresh (pt : PathType) (isOpen : Bool) (dx : Int) : Edge :=
  { pt := pt, isOpen := isOpen, dx := dx, wc := 0, wc2 := 0, hot := false }

/-- the left bound after `SetWindCountFor…PathEdge`, and `contributing` -/
def newLeft (cfg : Cfg) (left : List Edge) (pt : PathType) (isOpen : Bool) (dx : Int) : Edge × Bool :=
  if isOpen then
    let lb := setWindOpen cfg.fr left (fresh pt isOpen dx)
    (lb, isContributingOpen cfg.ct cfg.fr lb.wc lb.wc2)
  else
    let lb := setWindClosed cfg.fr left (fresh pt isOpen dx)
    (lb, isContributingClosed cfg.ct cfg.fr lb.pt lb.wc lb.wc2)

/-- `InsertLocalMinimaIntoAEL`, one local minimum with both bounds: the left bound goes to
position `pos`, its counts are computed, the right bound copies them and goes to `pos+1`,
`AddLocalMinPoly` makes both hot iff the left bound is contributing. -/
def insertPair (cfg : Cfg) (pos : Nat) (pt : PathType) (isOpen : Bool) (dxLeft : Int) (l : Ael) : Option Ael :=
  if pos ≤ l.length ∧ (dxLeft = 1 ∨ dxLeft = -1) then
    let r := newLeft cfg (l.take pos) pt isOpen dxLeft
    let lb := r.1
    let rb : Edge := { pt := pt, isOpen := isOpen, dx := -dxLeft, wc := lb.wc, wc2 := lb.wc2, hot := r.2 }
    some (l.take pos ++ { lb with hot := r.2 } :: rb :: l.drop pos)
  else none

/-- `InsertLocalMinimaIntoAEL` for an open path's end vertex (one bound only, `StartOpenPath` if contributing) -/
def insertOne (cfg : Cfg) (pos : Nat) (pt : PathType) (dx : Int) (l : Ael) : Option Ael :=
  if pos ≤ l.length ∧ (dx = 1 ∨ dx = -1) then
    let r := newLeft cfg (l.take pos) pt true dx
    some (l.take pos ++ { r.1 with hot := r.2 } :: l.drop pos)
  else none

/-- `IntersectEdges(e1, e2, pt); SwapPositionsInAEL(e1, e2);` with `e1` at position `i`, `e2` at `i+1` -/
def intersect (cfg : Cfg) (i : Nat) (l : Ael) : Option Ael :=
  match l.drop i with
  | e1 :: e2 :: rest =>
    let p := intersectPair cfg e1 e2
    some (l.take i ++ p.2 :: p.1 :: rest)
  | _ => none

/-- end of `DoMaxima` (and of `DoHorizontal` at a horizontal maximum): the maxima pair, by then adjacent at
positions `i`, `i+1`, leaves the AEL.  The two edges of a maxima pair belong to one path and have
opposite `wind_dx`; an op that does not satisfy this is rejected. -/
def removePair (i : Nat) (l : Ael) : Option Ael :=
  match l.drop i with
  | e1 :: e2 :: rest =>
    if e1.pt = e2.pt ∧ e1.isOpen = e2.isOpen ∧ e1.dx + e2.dx = 0 then some (l.take i ++ rest) else none
  | _ => none

/-- `DoMaxima` / `DoHorizontal` at the end vertex of an open path: one open edge leaves the AEL -/
def removeOne (i : Nat) (l : Ael) : Option Ael :=
  match l.drop i with
  | e :: rest => if e.isOpen then some (l.take i ++ rest) else none
  | _ => none

/-- The events of a sweep that touch the bookkeeping.  Positions count from 0 = `actives_`.

* `insertPair pos pt isOpen dxLeft` — `InsertLocalMinimaIntoAEL`, local minimum with two bounds: emitted after
  `InsertRightEdge` (and the `AddLocalMinPoly` that may follow), *before* the `while` loop that moves the right
  bound.  `pos` = number of edges to the left of `left_bound`, `pt`/`isOpen` from `local_minima`,
  `dxLeft = left_bound->wind_dx` (after `SwapActives`); the right bound has `-dxLeft`.
* `insertOne pos pt dx` — the same function when `right_bound == nullptr` (open path end), after `StartOpenPath`.
* `intersect i` — every `IntersectEdges(a, b, …); SwapPositionsInAEL(a, b);` pair (five call sites: right-bound
  loop of `InsertLocalMinimaIntoAEL`, `ProcessIntersectList`, `DoHorizontal` left-to-right and right-to-left,
  `DoMaxima`), emitted after the swap; `i` = position of `a` *before* the swap (`a` is the left edge at all five sites).
* `removePair i` — `DoMaxima` after its `while` loop, and `DoHorizontal` where it deletes `horz` and its maxima pair:
  `i` = position of the left one of the two (they are adjacent), emitted after both `DeleteFromAEL`.
* `removeOne i` — `DoMaxima` `IsOpenEnd(e)` branch and `DoHorizontal`'s open-end branch, after `DeleteFromAEL`.

`UpdateEdgeIntoAEL`, `Split`, `CheckJoinLeft/Right` do not change the modelled fields (see the note on `hot`). -/
inductive Op
  | insertPair (pos : Nat) (pt : PathType) (isOpen : Bool) (dxLeft : Int)
  | insertOne (pos : Nat) (pt : PathType) (dx : Int)
  | intersect (i : Nat)
  | removePair (i : Nat)
  | removeOne (i : Nat)
  deriving DecidableEq, Repr, Inhabited

/-- one event; `none` = the event does not fit the state (position out of range, `dx ∉ {1,−1}`, not a maxima pair) -/
def step (cfg : Cfg) (l : Ael) : Op → Option Ael
  | .insertPair pos pt isOpen dxLeft => insertPair cfg pos pt isOpen dxLeft l
  | .insertOne pos pt dx => insertOne cfg pos pt dx l
  | .intersect i => intersect cfg i l
  | .removePair i => removePair i l
  | .removeOne i => removeOne i l

/-- replay of an event list -/
def run (cfg : Cfg) : Ael → List Op → Option Ael
  | l, [] => some l
  | l, op :: ops =>
    match step cfg l op with
    | some l' => run cfg l' ops
    | none => none

/-! ## The invariant (specification side) -/

def maxabs (a b : Int) : Int := if iabs b > iabs a then b else a

/-- what a closed edge of type `t` adds to the winding sum of type `t` when crossed left to right -/
def contrib (t : PathType) (x : Edge) : Int := if x.pt = t ∧ x.isOpen = false then x.dx else 0

/-- closed-path winding sum of type `t` over a list of edges -/
def sumT (t : PathType) : List Edge → Int
  | [] => 0
  | x :: xs => contrib t x + sumT t xs

/-- `own t s c`: of the two sums (subject, clip) the one of type `t` -/
def own (t : PathType) (s c : Int) : Int :=
  match t with
  | .subject => s
  | .clip => c

/-- stored counts of a closed edge whose own-type winding sum to its left is `wl` and whose other-type
sum is `w2`: `wc` is the one of `wl`, `wl + dx` with larger absolute value (just ±1 under EvenOdd);
`wc2` is `w2` (its parity under EvenOdd). -/
def WcOK (fr : FillRule) (wc dx wc2 wl w2 : Int) : Prop :=
  match fr with
  | .evenOdd => (wc = 1 ∨ wc = -1) ∧ wc2 = w2 % 2
  | _ => wc = maxabs wl (wl + dx) ∧ wc2 = w2

/-- a correct closed edge: direction ±1, counts encode the sums, hot iff contributing -/
def EdgeOK (cfg : Cfg) (e : Edge) (wl w2 : Int) : Prop :=
  (e.dx = 1 ∨ e.dx = -1) ∧ WcOK cfg.fr e.wc e.dx e.wc2 wl w2 ∧
    e.hot = isContributingClosed cfg.ct cfg.fr e.pt e.wc e.wc2

/-- invariant of a suffix of the AEL, given the subject / clip sums `s`, `c` of everything to its left -/
def InvFrom (cfg : Cfg) : Int → Int → List Edge → Prop
  | _, _, [] => True
  | s, c, e :: rest =>
    (e.isOpen = false → EdgeOK cfg e (own e.pt s c) (own (other e.pt) s c)) ∧
    InvFrom cfg (s + contrib .subject e) (c + contrib .clip e) rest

/-- **the AEL invariant**: every closed edge stores the encodings of the winding sums to its left and is hot
exactly when `IsContributingClosed` holds -/
def Inv (cfg : Cfg) (l : Ael) : Prop := InvFrom cfg 0 0 l

/-- executable `WcOK` -/
def wcOKb (fr : FillRule) (wc dx wc2 wl w2 : Int) : Bool :=
  match fr with
  | .evenOdd => (wc == 1 || wc == -1) && wc2 == w2 % 2
  | _ => wc == maxabs wl (wl + dx) && wc2 == w2

def edgeOKb (cfg : Cfg) (e : Edge) (wl w2 : Int) : Bool :=
  (e.dx == 1 || e.dx == -1) && wcOKb cfg.fr e.wc e.dx e.wc2 wl w2 &&
    (e.hot == isContributingClosed cfg.ct cfg.fr e.pt e.wc e.wc2)

def checkInvFrom (cfg : Cfg) : Int → Int → List Edge → Bool
  | _, _, [] => true
  | s, c, e :: rest =>
    (e.isOpen || edgeOKb cfg e (own e.pt s c) (own (other e.pt) s c)) &&
    checkInvFrom cfg (s + contrib .subject e) (c + contrib .clip e) rest

/-- decides `Inv` (theorem `checkInv_iff` in `Props/C01.lean`) -/
def checkInv (cfg : Cfg) (l : Ael) : Bool := checkInvFrom cfg 0 0 l

/-! ### open edges -/

/-- invariant of open edges: hot exactly when `keep s c` holds for the sums to the left
(`keep` will be `Spec.keepOpen ct fr`) -/
def InvOpenFrom (keep : Int → Int → Bool) : Int → Int → List Edge → Prop
  | _, _, [] => True
  | s, c, e :: rest =>
    (e.isOpen = true → e.hot = keep s c) ∧
    InvOpenFrom keep (s + contrib .subject e) (c + contrib .clip e) rest

def checkInvOpenFrom (keep : Int → Int → Bool) : Int → Int → List Edge → Bool
  | _, _, [] => true
  | s, c, e :: rest =>
    (!e.isOpen || e.hot == keep s c) &&
    checkInvOpenFrom keep (s + contrib .subject e) (c + contrib .clip e) rest

/-- executable combined check (closed edges: `Inv`; open edges: hot iff `Spec.keepOpen` at the current position;
open edges are subject edges).  Decides `Props.C05.OpenInv` (theorem `checkOpenInv_iff`). -/
def checkOpenInv (cfg : Cfg) (l : Ael) : Bool :=
  checkInv cfg l && checkInvOpenFrom (keepOpen cfg.ct cfg.fr) 0 0 l &&
    l.all (fun e => !e.isOpen || e.pt == .subject)

end Clipper.Model
