/-
The JOIN DECISIONS of the Vatti sweep: `ClipperBase::CheckJoinLeft` / `CheckJoinRight` (clipper.engine.cpp) as a hand-readable
specification, and the table of their call sites.

The models `Model/AelSides.lean` (`joinS`) and `Model/AelRings.lean` (`joinOut`) say what a join DOES; they take the join events
from the real engine's trace.  This file says WHEN the engine joins.  It is written from the C++ text, one definition per function,
with nothing shared between the Left and the Right version, so that `Props/Bridges/Joins.lean` can prove

  * generated-from-source `Gen.CheckJoinLeft` / `Gen.CheckJoinRight` = these definitions, for all arguments (tie T), and
  * the two definitions are mirror images of each other (`joinLeft_right_mirror`).

```
void ClipperBase::CheckJoinLeft(Active& e, const Point64& pt, bool check_curr_x)
{
  Active* prev = e.prev_in_ael;
  if (!prev || !IsHotEdge(e) || !IsHotEdge(*prev) || IsHorizontal(e) || IsHorizontal(*prev) || IsOpen(e) || IsOpen(*prev)) return;
  if ((pt.y < e.top.y + 2 || pt.y < prev->top.y + 2) && ((e.bot.y > pt.y) || (prev->bot.y > pt.y))) return; // avoid trivial joins
  if (check_curr_x) { if (PerpendicDistFromLineSqrd(pt, prev->bot, prev->top) > 0.25) return; }
  else if (e.curr_x != prev->curr_x) return;
  if (!IsCollinear(e.top, pt, prev->top)) return;
  if (e.outrec->idx == prev->outrec->idx) AddLocalMaxPoly(*prev, e, pt);
  else if (e.outrec->idx < prev->outrec->idx) JoinOutrecPaths(e, *prev);
  else JoinOutrecPaths(*prev, e);
  prev->join_with = JoinWith::Right;
  e.join_with = JoinWith::Left;
}
```
`CheckJoinRight` is the same text with `next = e.next_in_ael` for `prev`, `AddLocalMaxPoly(e, *next, pt)`, `e.join_with = Right`,
`next->join_with = Left` — and the threshold 0.35 instead of 0.25.

Doubles.  `PerpendicDistFromLineSqrd(pt, line1, line2) > threshold` is double arithmetic; it is ONE Boolean parameter `far` here and
of the generated definitions (where its name spells out callee, arguments, comparison and threshold).  Everything else is exact
integer arithmetic: `IsCollinear` is the exact test `cross = 0` (`Props.C18.isCollinear_int128_exact`).

Core Lean only (the driver executable links this file: command `JOINCOND`, `Driver/JoinCond.lean`).
-/
import ClipperVerif.Spec.Basic
import ClipperVerif.Spec.Enums
namespace Clipper.Model.JoinCond
open Clipper

/-- the fields of an `Active` that `CheckJoinLeft/Right` read -/
structure JEdge where
  /-- `IsHotEdge(e)`: `e.outrec != nullptr` -/
  hot : Bool
  /-- `IsOpen(e)`: `e.local_min->is_open` -/
  isOpen : Bool
  bot : Pt
  top : Pt
  /-- `e.curr_x` -/
  currX : Int
  /-- `e.outrec->idx` (read only when both edges are hot) -/
  idx : Nat
  deriving DecidableEq, Repr, Inhabited

/-- `IsHorizontal(e)`: `e.top.y == e.bot.y` -/
def JEdge.horizontal (e : JEdge) : Bool := decide (e.top.y = e.bot.y)

/-- which of the two edges: `e` = the argument of `CheckJoinLeft/Right`, `nb` = its AEL neighbour (`prev` resp. `next`) -/
inductive Who
  | e | nb
  deriving DecidableEq, Repr, Inhabited

/-- what the call does to the output records -/
inductive Decision
  /-- one of the early `return`s -/
  | none
  /-- both edges on ONE record: `AddLocalMaxPoly(left edge, right edge, pt)` — a point is added and the ring is closed -/
  | sameRecordClose
  /-- two records: `JoinOutrecPaths(keep, gone)` — no point is added, the record of `keep` survives -/
  | joinInto (keep gone : Who)
  deriving DecidableEq, Repr, Inhabited

/-- the decision and `join_with` of both edges after the call -/
structure Outcome where
  act : Decision
  /-- `e.join_with` afterwards -/
  joinE : JoinWith
  /-- `prev->join_with` resp. `next->join_with` afterwards -/
  joinNb : JoinWith
  deriving DecidableEq, Repr, Inhabited

/-- `CheckJoinLeft(e, pt, check_curr_x)`.  `prev = none`: `e.prev_in_ael == nullptr`; `far` = `PerpendicDistFromLineSqrd(pt, prev->bot,
prev->top) > 0.25`; `je`, `jp` = `join_with` of `e`, `prev` before the call. -/
def joinLeftDecision (checkCurrX far : Bool) (e : JEdge) (prev : Option JEdge) (pt : Pt) (je jp : JoinWith) : Outcome :=
  match prev with
  | none => ⟨.none, je, jp⟩
  | some p =>
    if !e.hot || !p.hot || e.horizontal || p.horizontal || e.isOpen || p.isOpen then ⟨.none, je, jp⟩
    else if (decide (pt.y < e.top.y + 2) || decide (pt.y < p.top.y + 2)) && (decide (e.bot.y > pt.y) || decide (p.bot.y > pt.y)) then
      ⟨.none, je, jp⟩                                          -- "avoid trivial joins" (#490)
    else if checkCurrX && far then ⟨.none, je, jp⟩
    else if !checkCurrX && decide (e.currX ≠ p.currX) then ⟨.none, je, jp⟩
    else if decide (cross e.top pt p.top ≠ 0) then ⟨.none, je, jp⟩
    else if e.idx = p.idx then ⟨.sameRecordClose, .left, .right⟩    -- AddLocalMaxPoly(*prev, e, pt)
    else if e.idx < p.idx then ⟨.joinInto .e .nb, .left, .right⟩    -- JoinOutrecPaths(e, *prev)
    else ⟨.joinInto .nb .e, .left, .right⟩                          -- JoinOutrecPaths(*prev, e)

/-- `CheckJoinRight(e, pt, check_curr_x)`.  `next = none`: `e.next_in_ael == nullptr`; `far` = `PerpendicDistFromLineSqrd(pt, next->bot,
next->top) > 0.35`; `je`, `jn` = `join_with` of `e`, `next` before the call. -/
def joinRightDecision (checkCurrX far : Bool) (e : JEdge) (next : Option JEdge) (pt : Pt) (je jn : JoinWith) : Outcome :=
  match next with
  | none => ⟨.none, je, jn⟩
  | some n =>
    if !e.hot || !n.hot || e.horizontal || n.horizontal || e.isOpen || n.isOpen then ⟨.none, je, jn⟩
    else if (decide (pt.y < e.top.y + 2) || decide (pt.y < n.top.y + 2)) && (decide (e.bot.y > pt.y) || decide (n.bot.y > pt.y)) then
      ⟨.none, je, jn⟩
    else if checkCurrX && far then ⟨.none, je, jn⟩
    else if !checkCurrX && decide (e.currX ≠ n.currX) then ⟨.none, je, jn⟩
    else if decide (cross e.top pt n.top ≠ 0) then ⟨.none, je, jn⟩
    else if e.idx = n.idx then ⟨.sameRecordClose, .right, .left⟩    -- AddLocalMaxPoly(e, *next, pt)
    else if e.idx < n.idx then ⟨.joinInto .e .nb, .right, .left⟩    -- JoinOutrecPaths(e, *next)
    else ⟨.joinInto .nb .e, .right, .left⟩                          -- JoinOutrecPaths(*next, e)

/-- reflection of the AEL (left ↔ right) on `join_with` -/
def mirrorJoin : JoinWith → JoinWith
  | .noJoin => .noJoin
  | .left => .right
  | .right => .left

/-- reflection of the AEL on an outcome (`sameRecordClose` always passes the left edge first, so it is its own mirror image) -/
def Outcome.mirror (o : Outcome) : Outcome := ⟨o.act, mirrorJoin o.joinE, mirrorJoin o.joinNb⟩

/-! ## the call sites -/

/-- which function is called -/
inductive Side
  | left | right
  deriving DecidableEq, Repr, Inhabited

/-- the `pt` argument at a call site -/
inductive PtArg
  /-- `e->bot` of the edge the function is called for (`left_bound->bot`, `right_bound->bot`, `e->bot`) -/
  | botOfE
  /-- `node.pt` of the intersection being processed -/
  | nodePt
  /-- the local `pt = Point64(e->curr_x, horz.bot.y)` of `DoHorizontal` -/
  | horzPt
  deriving DecidableEq, Repr, Inhabited

/-- one call `CheckJoinLeft/Right(edge, pt[, check_curr_x])` in the source -/
structure CallSite where
  caller : String
  side : Side
  /-- the record argument, as the translator names it -/
  edge : String
  pt : PtArg
  /-- `none`: the argument is omitted (the default `false` applies) -/
  checkCurrX : Option Bool
  deriving DecidableEq, Repr, Inhabited

/-- every call of `CheckJoinLeft` / `CheckJoinRight` in clipper.engine.cpp (`Props/Bridges/Joins.lean`, `joinCallSites_bridge`: the
generated fragments of the callers log exactly these calls) -/
def callSites : List CallSite := [
  ⟨"InsertLocalMinimaIntoAEL", .left, "left_bound", .botOfE, none⟩,
  ⟨"InsertLocalMinimaIntoAEL", .right, "right_bound", .botOfE, none⟩,
  ⟨"UpdateEdgeIntoAEL", .left, "e", .botOfE, none⟩,
  ⟨"UpdateEdgeIntoAEL", .right, "e", .botOfE, some true⟩,       -- (#500)
  ⟨"ProcessIntersectList", .left, "node_edge2", .nodePt, some true⟩,
  ⟨"ProcessIntersectList", .right, "node_edge1", .nodePt, some true⟩,
  ⟨"DoHorizontal", .left, "e", .horzPt, none⟩,
  ⟨"DoHorizontal", .right, "e", .horzPt, none⟩]

/-- the values `check_curr_x` can have in a call of the given side whose `pt` is of the given kind -/
def siteFlags (side : Side) (pt : PtArg) : List Bool :=
  ((callSites.filter (fun c => c.side == side && c.pt == pt)).map (fun c => c.checkCurrX.getD false)).eraseDups

/-- the frame of `ClipperBase::UpdateEdgeIntoAEL(e)` (the function that makes two of the eight calls):

    e->bot = e->top;  e->vertex_top = NextVertex(*e);  e->top = e->vertex_top->pt;  e->curr_x = e->bot.x;  SetDx(*e);
    if (IsJoined(*e)) Split(*e, e->bot);
    if (IsHorizontal(*e)) { if (!IsOpen(*e)) TrimHorz(*e, preserve_collinear_); return; }
    InsertScanline(e->top.y);  CheckJoinLeft(*e, e->bot);  CheckJoinRight(*e, e->bot, true);

`top` = `e->top` before the call, `nv` = `NextVertex(*e)->pt`. -/
inductive UpdateStep
  | split            -- `Split(*e, e->bot)`
  | trimHorz (preserveCollinear : Bool)
  | insertScanline (y : Int)
  | checkJoin (site : CallSite)
  deriving DecidableEq, Repr, Inhabited

structure UpdateResult where
  bot : Pt
  top : Pt
  currX : Int
  steps : List UpdateStep
  deriving DecidableEq, Repr, Inhabited

def updateEdgeIntoAEL (top nv : Pt) (joined isOpen preserveCollinear : Bool) : UpdateResult :=
  { bot := top, top := nv, currX := top.x,
    steps := (if joined then [.split] else []) ++
      (if nv.y = top.y then (if isOpen then [] else [.trimHorz preserveCollinear])
       else .insertScanline nv.y :: ((callSites.filter (fun c => c.caller == "UpdateEdgeIntoAEL")).map .checkJoin)) }

/-! ## after the fact: what hook `kJoin` can still see

`CLIPPER2_VERIF_AEL(verif::kJoin, this, left edge)` fires at the END of `CheckJoinLeft/Right`, after `AddLocalMaxPoly` /
`JoinOutrecPaths` and the two `join_with` assignments.  Of the terms of the guard

  * checkable on the two edges as they are then: existence of the neighbour, `IsHorizontal` and `IsOpen` of both (`bot`, `top`,
    `local_min` are not touched by a join), `curr_x` of both (not touched), the trivial-join test and the collinearity test
    for a given `pt`, `far` for a given `pt` (the harness calls the library's own `PerpendicDistFromLineSqrd` with the right threshold);
  * NOT checkable: `IsHotEdge` of both (`AddLocalMaxPoly` clears both `outrec`s, `JoinOutrecPaths` clears `e2.outrec` and may hand
    `e1`'s record to another edge) and therefore `idx` and the choice of the action; the hook does not carry `pt`, `check_curr_x`
    or which of the two functions ran.  `pt` is one of a few candidates determined by the call-site table above (`bot` of either
    edge, the `pt` of the `IntersectEdges` that immediately precedes the call in `ProcessIntersectList` / `DoHorizontal`), and
    `check_curr_x` is determined by side and kind of `pt` through the same table (`siteFlags`).
  * post-state that IS checkable: `left.join_with == Right`, `right.join_with == Left`, and the two edges are not both still hot. -/

/-- a candidate for the `pt` argument, with the two distance flags the harness computed for it with the real function:
`farL` = `PerpendicDistFromLineSqrd(pt, left.bot, left.top) > 0.25` (the call was `CheckJoinLeft(right edge, …)`, `prev` = left edge),
`farR` = `PerpendicDistFromLineSqrd(pt, right.bot, right.top) > 0.35` (the call was `CheckJoinRight(left edge, …)`, `next` = right edge) -/
structure Cand where
  kind : PtArg
  pt : Pt
  farL : Bool
  farR : Bool
  deriving DecidableEq, Repr, Inhabited

/-- could the call `CheckJoinLeft(r, c.pt, ccx)` with `prev = l` have joined, as far as can be seen afterwards (`hot := true`, `idx` unknown) -/
def explainsLeft (l r : JEdge) (c : Cand) (ccx : Bool) : Bool :=
  (joinLeftDecision ccx c.farL { r with hot := true } (some { l with hot := true }) c.pt .noJoin .noJoin).act != .none

/-- could the call `CheckJoinRight(l, c.pt, ccx)` with `next = r` have joined -/
def explainsRight (l r : JEdge) (c : Cand) (ccx : Bool) : Bool :=
  (joinRightDecision ccx c.farR { l with hot := true } (some { r with hot := true }) c.pt .noJoin .noJoin).act != .none

/-- a `kJoin` event for the adjacent edges `l`, `r` is explained by a call the source can make: some candidate `pt` of kind `k`, a side,
and a `check_curr_x` value that side uses with that kind of `pt`, for which the guard lets the call through.  For `botOfE` the candidate
must be the `bot` of the edge the function was called for (`r` for Left, `l` for Right). -/
def explained (l r : JEdge) (cands : List Cand) : Bool :=
  cands.any (fun c =>
    ((c.kind != .botOfE || c.pt == r.bot) && (siteFlags .left c.kind).any (explainsLeft l r c)) ||
    ((c.kind != .botOfE || c.pt == l.bot) && (siteFlags .right c.kind).any (explainsRight l r c)))

/-- the post-state of a join as hook `kJoin` sees it: `jl`, `jr` = `join_with` of the left and right edge -/
def postOK (l r : JEdge) (jl jr : JoinWith) : Bool :=
  jl == .right && jr == .left && !(l.hot && r.hot)

/-- the judgement of `JOINCOND`: `none` = fine -/
def judge (l r : JEdge) (jl jr : JoinWith) (cands : List Cand) : Option String :=
  if !postOK l r jl jr then some "post-state: join_with of the pair is not (Right, Left), or both edges are still hot"
  else if l.isOpen || r.isOpen then some "an open edge was joined"
  else if l.horizontal || r.horizontal then some "a horizontal edge was joined"
  else if !explained l r cands then some "no call site explains the join: for every candidate pt the guard of CheckJoinLeft/Right returns early"
  else none

end Clipper.Model.JoinCond
