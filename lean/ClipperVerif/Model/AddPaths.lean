import ClipperVerif.Spec.Basic
/-!
# Sizing arithmetic of `AddPaths_` (clipper.engine.cpp ~611)

```
total_vertex_count = Σ path.size();  if (total == 0) return;
Vertex* vertices = new Vertex[total], *v = vertices;
for (path : paths) {
  Vertex *v0 = v, *curr_v = v, *prev_v = nullptr;
  if (path.empty()) continue;
  for (pt : path) { if (prev_v) { if (prev_v->pt == pt) continue; … }  *curr_v = …; prev_v = curr_v++; cnt++; }
  if (!prev_v || !prev_v->prev) continue;          // a single distinct vertex: `v` is NOT advanced
  …  v = curr_v;                                   // get ready for the next path
```
Only the cursor arithmetic is modelled: which cells of the array are written.  (The ring construction and the local
minima are modelled in `Model/History.lean` / the C12 slice as an abstract parameter.)
-/
namespace Clipper.Model.AddPaths
open Clipper

/-- number of further vertices written after a vertex equal to `prev`: a point equal to the last *written* point is skipped -/
def changes (prev : Pt) : List Pt → Nat
  | [] => 0
  | b :: t => if b = prev then changes prev t else 1 + changes b t

/-- `cnt`: vertices the inner loop writes for one path -/
def written : List Pt → Nat
  | [] => 0
  | a :: t => 1 + changes a t

/-- cursor state: `v` = offset of the next free cell, `hi` = one past the highest cell written so far -/
structure Cur where
  v : Nat
  hi : Nat
deriving Repr, DecidableEq

/-- one iteration of the outer loop -/
def stepPath (c : Cur) (p : List Pt) : Cur :=
  let cnt := written p
  { v := if cnt < 2 then c.v else c.v + cnt      -- `if (!prev_v || !prev_v->prev) continue;` leaves v where it was
    hi := if cnt = 0 then c.hi else max c.hi (c.v + cnt) }

def cursor (paths : List (List Pt)) : Cur := paths.foldl stepPath ⟨0, 0⟩

/-- `total_vertex_count` -/
def total (paths : List (List Pt)) : Nat := (paths.map List.length).sum

end Clipper.Model.AddPaths
