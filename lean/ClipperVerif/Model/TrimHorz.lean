/-!
# `TrimHorz` (clipper.engine.cpp): merging consecutive horizontal input edges of one bound

```
inline void TrimHorz(Active& horzEdge, bool preserveCollinear)
{
  bool wasTrimmed = false;
  Point64 pt = NextVertex(horzEdge)->pt;
  while (pt.y == horzEdge.top.y)
  {
    //always trim 180 deg. spikes (in closed paths) but otherwise break if preserveCollinear = true
    if (preserveCollinear && ((pt.x < horzEdge.top.x) != (horzEdge.bot.x < horzEdge.top.x))) break;
    horzEdge.vertex_top = NextVertex(horzEdge);
    horzEdge.top = pt;
    wasTrimmed = true;
    if (IsMaxima(horzEdge)) break;
    pt = NextVertex(horzEdge)->pt;
  }
  if (wasTrimmed) SetDx(horzEdge); // plus or minus infinity
}
```

The vertex ring is seen from `vertex_top` in the direction of the bound (`NextVertex` follows `next` or `prev` according to
`wind_dx`): `rest` is the list of vertices after `vertex_top`, each with its `LocalMax` flag.  The C++ walks a cyclic ring; the
model walks the finite list and reports `ranOff` when it would need a vertex beyond it (the harness always supplies one full
turn of the ring, so `ranOff` on a real ring means the loop went all the way round).  Core Lean only.
-/
namespace Clipper.Model.TrimHorz

structure V where
  x : Int
  y : Int
  isMax : Bool
  deriving DecidableEq, Repr, Inhabited

structure Out where
  /-- `horzEdge.top` after the call -/
  topX : Int
  topY : Int
  /-- how many vertices `vertex_top` advanced -/
  adv : Nat
  /-- the loop needed a vertex beyond the supplied list -/
  ranOff : Bool
  deriving DecidableEq, Repr, Inhabited

/-- the `while` loop; `topX topY` = `horzEdge.top`, `botX` = `horzEdge.bot.x`, `adv` = vertices consumed so far -/
def loop (pc : Bool) (botX : Int) : (topX topY : Int) → (adv : Nat) → List V → Out
  | topX, topY, adv, [] => ⟨topX, topY, adv, true⟩
  | topX, topY, adv, v :: rest =>
    if v.y ≠ topY then ⟨topX, topY, adv, false⟩
    else if pc && (decide (v.x < topX) != decide (botX < topX)) then ⟨topX, topY, adv, false⟩
    else if v.isMax then ⟨v.x, v.y, adv + 1, false⟩
    else loop pc botX v.x v.y (adv + 1) rest

/-- `TrimHorz(horzEdge, preserveCollinear)`; `wasTrimmed` is `0 < adv` -/
def trimHorz (pc : Bool) (botX topX topY : Int) (rest : List V) : Out := loop pc botX topX topY 0 rest

end Clipper.Model.TrimHorz
