/-
C15: Z handling.  Hand models of `ClipperBase::SetZ` (clipper.engine.cpp) and of the `ClipperD::ZCB` proxy
(clipper.engine.h), tied to the code by output-level correspondence (harness/C15.cpp calls the real private
`SetZ` on constructed edges and the real proxy through a ClipperD run).
Point equality in Clipper2 ignores z (`operator==` compares x and y only).
-/
import ClipperVerif.Spec.Basic
namespace Clipper.Model.ZFill

structure PtZ where
  x : Int
  y : Int
  z : Int
  deriving DecidableEq, Repr, Inhabited

/-- C++ `operator==` on points: z is not compared -/
def samePt (a b : PtZ) : Bool := decide (a.x = b.x) && decide (a.y = b.y)

/-- the user callback: sees the four edge end points (subject edge first) and the point; returns the new z -/
abbrev Callback := PtZ → PtZ → PtZ → PtZ → PtZ → Int

/-- z given to the point before the callback runs: the first end point (in the order given) that the point
coincides with, else the default -/
def pickZ (ip a b c d : PtZ) (defaultZ : Int) : Int :=
  if samePt ip a then a.z
  else if samePt ip b then b.z
  else if samePt ip c then c.z
  else if samePt ip d then d.z
  else defaultZ

/-- `ClipperBase::SetZ(e1, e2, ip)`; `cb = none` is `zCallback_ == nullptr` -/
def setZ (cb : Option Callback) (e1IsSubject : Bool) (e1bot e1top e2bot e2top ip : PtZ) (defaultZ : Int) : PtZ :=
  match cb with
  | none => ip
  | some f =>
    if e1IsSubject then
      let ip' := { ip with z := pickZ ip e1bot e1top e2bot e2top defaultZ }
      { ip' with z := f e1bot e1top e2bot e2top ip' }
    else
      let ip' := { ip with z := pickZ ip e2bot e2top e1bot e1top defaultZ }
      { ip' with z := f e2bot e2top e1bot e1top ip' }

/-- The `ClipperD::ZCB` proxy: the user's double-precision callback works on a descaled copy; only z is copied back -/
def zcbProxy (userZ : Int) (pt : PtZ) : PtZ := { pt with z := userZ }

end Clipper.Model.ZFill
