/- Driver commands for C08 (RectClip): the modelled fragments (model level) and the exact judgement of the
property statement on the real result (spec level, `RECTCLIPCHECK`). -/
import ClipperVerif.Driver.Proto
import ClipperVerif.Driver.C09
import ClipperVerif.Model.RectClipAuto
namespace Clipper.Driver.C08
open Clipper Clipper.Proto Clipper.Model.RC Clipper.Driver.C09

def location : P Location := do
  let n ← nat
  if n > 4 then throw s!"bad location {n}" else pure (Location.ofNat' n)

def showOptPt : Option Pt → String
  | some p => showPt p
  | none => "OOB"

def dbl (p : Pt) : Pt := ⟨2 * p.x, 2 * p.y⟩

/-! exact segment intersection tests for simplicity -/
def sgnCross (a b c : Pt) : Int := Int.sign (cross a b c)

/-- closed segments `a b` and `c d` have a common point -/
def segsMeet (a b c d : Pt) : Bool :=
  let d1 := sgnCross a b c; let d2 := sgnCross a b d
  let d3 := sgnCross c d a; let d4 := sgnCross c d b
  if d1 * d2 < 0 && d3 * d4 < 0 then true
  else (d1 == 0 && onSeg c a b) || (d2 == 0 && onSeg d a b) || (d3 == 0 && onSeg a c d) || (d4 == 0 && onSeg b c d)

/-- simple polygon: ≥ 3 vertices, non-adjacent edges disjoint, adjacent edges meet only in their shared vertex -/
def isSimple (p : Path) : Bool :=
  let es := (edgesOf p).toArray
  let n := es.size
  decide (n ≥ 3) &&
  (List.range n).all (fun i => (List.range n).all (fun j =>
    if j ≤ i then true else
      let e := es[i]!; let f := es[j]!
      if j = i + 1 || (i = 0 && j = n - 1) then
        -- adjacent: e.2 = f.1 (or f.2 = e.1 for the wrap-around pair); no other common point
        let (shared, p1, p2) := if j = i + 1 then (e.2, e.1, f.2) else (e.1, e.2, f.1)
        p1 != shared && p2 != shared && !(onSeg p1 shared p2) && !(onSeg p2 shared p1)
      else !(segsMeet e.1 e.2 f.1 f.2)))

def edgeAlongSide (r : Rect) (p : Path) : Bool :=
  (edgesOf p).any (fun e => alongEdge r e.1 e.2)

def insideWithin1 (r : Rect) (v : Pt) : Bool :=
  decide (r.left - 1 ≤ v.x) && decide (v.x ≤ r.right + 1) && decide (r.top - 1 ≤ v.y) && decide (v.y ≤ r.bottom + 1)

def nearBoundary1 (r : Rect) (v : Pt) : Bool :=
  decide ((v.x - r.left).natAbs ≤ 1) || decide ((v.x - r.right).natAbs ≤ 1) ||
  decide ((v.y - r.top).natAbs ≤ 1) || decide ((v.y - r.bottom).natAbs ≤ 1)

/-- judgement of one probe point `q` (doubled coordinates); `none` = fine or not applicable -/
def probeCheck (m : Int) (r : Rect) (p2 : Path) (res2 : Paths) (simple noAlong : Bool) (q : Pt) : Option String :=
  -- farther than 2 units from the path = 4 in doubled coordinates
  if nearAnyEdge [p2] q 16 1 then none
  else if 2 * r.left + m < q.x ∧ q.x < 2 * r.right - m ∧ 2 * r.top + m < q.y ∧ q.y < 2 * r.bottom - m then
    let wi := wind [p2] q; let wr := wind res2 q
    if simple then (if wi = wr then none else some s!"winding {wr} instead of {wi} at 2p={q} inside the rectangle")
    else if noAlong then (if (wi - wr) % 2 = 0 then none else some s!"parity of winding {wr} differs from {wi} at 2p={q} inside the rectangle")
    else none
  else if q.x < 2 * r.left - 2 ∨ q.x > 2 * r.right + 2 ∨ q.y < 2 * r.top - 2 ∨ q.y > 2 * r.bottom + 2 then
    let wr := wind res2 q
    if wr = 0 then none else some s!"winding {wr} at 2p={q} outside the rectangle"
  else none

/-- `m` (doubled units): probes inside the rectangle are judged when they are more than `m/2` units away
from its boundary.  `m = 0` is the letter of the property; `m = 2` discounts the strip in which the
property's own one-unit tolerance on new vertices makes the winding number undetermined. -/
def rectClipCheck (m : Int) (r : Rect) (p : Path) (res : Paths) (probes : List Pt) : String :=
  if r.isEmpty then (if res.isEmpty then "ok" else "FAIL output for an empty rectangle") else
  if p.length < 3 then (if res.isEmpty then "ok" else "FAIL output for a path of fewer than 3 points") else
  let b := getBounds p
  if r.containsRect b then (if res == [p] then "ok" else "FAIL polygon entirely inside not returned unchanged") else
  if !(r.intersects b) then (if res.isEmpty then "ok" else "FAIL polygon entirely outside does not vanish") else
  let verts := res.flatten
  match verts.find? (fun v => !insideWithin1 r v) with
  | some v => s!"FAIL vertex {v} not inside the rectangle within 1 unit"
  | none =>
  match verts.find? (fun v => !(p.contains v) && !nearBoundary1 r v) with
  | some v => s!"FAIL new vertex {v} not within 1 unit of the rectangle boundary"
  | none =>
  let simple := isSimple p
  let so := Int.sign (shoelace2 p)
  -- moving every vertex of a path by at most one unit changes twice its area by less than 3 x its (L1) perimeter:
  -- below that the sign of a result path's area is rounding noise and is not judged
  let l1 (q : Path) : Int := ((edgesOf q).map (fun e => ((e.2.x - e.1.x).natAbs + (e.2.y - e.1.y).natAbs : Nat))).sum
  match (if simple then res.find? (fun q => decide ((shoelace2 q).natAbs > 3 * l1 q) && Int.sign (shoelace2 q) != so) else none) with
  | some q => s!"FAIL orientation not preserved by result path {showPath q}"
  | none =>
  let p2 := p.map dbl; let res2 := res.map (·.map dbl)
  let noAlong := !edgeAlongSide r p
  match probes.findSome? (probeCheck m r p2 res2 simple noAlong) with
  | some msg => "FAIL " ++ msg
  | none => "ok"

/-- how many probes are actually judged (for the harness statistics) -/
def probesUsed (r : Rect) (p : Path) (probes : List Pt) : Nat :=
  let p2 := p.map dbl
  (probes.filter (fun q => !nearAnyEdge [p2] q 16 1 &&
    (decide (2 * r.left + 2 < q.x ∧ q.x < 2 * r.right - 2 ∧ 2 * r.top + 2 < q.y ∧ q.y < 2 * r.bottom - 2) ||
     decide (q.x < 2 * r.left - 2 ∨ q.x > 2 * r.right + 2 ∨ q.y < 2 * r.top - 2 ∨ q.y > 2 * r.bottom + 2)))).length

def showFault : Fault → String
  | .path => "FAULT path" | .corner => "FAULT corner" | .pip => "FAULT pip" | .fuel => "FAULT fuel"

def showLocs (l : List Location) : String :=
  l.foldl (fun s a => s ++ " " ++ toString a.toNat) (toString l.length)

/-- the raw ring read from `results_[0]` following `next`, then `start_locs_` -/
def showAuto : Except Fault AResult → String
  | .ok res => showPath (ringFromHead res.es) ++ " " ++ showLocs res.startLocs
  | .error f => showFault f

/-- the hypotheses of the automaton theorems of Props/C08.lean that concern `double` arithmetic, evaluated on this
input with the bit-exact `Float` instance:
(a) the sign of `CrossProduct(v, e1, e2)` is exact for every path vertex `v` and rectangle edge `e1 e2` (`CrossZeroExact`);
(b) `RunFine` (decided by `runFineB`: no missed crossing, progress at least every second iteration);
(c) no `thru1 false` point (`NoLostCrossingA`);
(d) every point passed to `Add` lies in the rectangle widened by 1 (`IsectIn`);
(e) every such point that is not tagged as a path vertex is within 1 unit of the boundary (`EdgeSat`). -/
def autoHyp (r : Rect) (p : Path) : String :=
  let edges := [(r.c0, r.c3), (r.c0, r.c1), (r.c1, r.c2), (r.c2, r.c3)]
  if p.any (fun v => edges.any (fun e => floatArith.cross v e.1 e.2 != Int.sign (crossZ v e.1 e.2))) then
    "FAIL inexact sign of an axis-parallel cross product"
  else if !runFineB floatArith r p then "FAIL RunFine: a crossing was missed or an iteration made no progress"
  else match executeInternalF r p with
  | .error f => showFault f
  | .ok res =>
    if res.es.any (fun e => e.kind == .thru1 false) then "FAIL lost first crossing of a through segment"
    else
      let R : Rect := ⟨r.left - 1, r.top - 1, r.right + 1, r.bottom + 1⟩
      match res.es.find? (fun e => !inRect R e.pt) with
      | some e => s!"FAIL point {e.pt} passed to Add outside the widened rectangle"
      | none =>
        match res.es.find? (fun e => e.kind != .vertex && !nearBoundary1 r e.pt) with
        | some e => s!"FAIL new point {e.pt} not within 1 unit of the boundary"
        | none => "ok"

def handle : String → Option (P String)
  | "RCAUTOHYP" => some do
      let r ← rect; let p ← path; done
      pure (autoHyp r p)
  -- RCAUTO rect path → raw ring of RectClip64::ExecuteInternal (before CheckEdges/TidyEdges) and start_locs_
  | "RCAUTO" => some do
      let r ← rect; let p ← path; done
      pure (showAuto (executeInternalF r p))
  -- RECTCLIPCHECK rect path result k probes(doubled coordinates)
  | "RECTCLIPCHECK" => some do
      let r ← rect; let p ← path; let res ← paths; let k ← nat; let probes ← rep k pt; done
      pure (rectClipCheck 2 r p res probes)
  -- same, judging every probe strictly inside the rectangle (the letter of the property)
  | "RECTCLIPCHECK_STRICT" => some do
      let r ← rect; let p ← path; let res ← paths; let k ← nat; let probes ← rep k pt; done
      pure (rectClipCheck 0 r p res probes)
  | "RCPROBES" => some do
      let r ← rect; let p ← path; let k ← nat; let probes ← rep k pt; done
      pure s!"{probesUsed r p probes} {showBool (isSimple p)}"
  | "ISSIMPLE" => some do
      let p ← path; done
      pure (showBool (isSimple p))
  -- model level
  | "RCSHORT" => some do
      let r ← rect; let p ← path; done
      pure (match executeShortcut r p with
        | some ps => showPaths ps
        | none => "general")
  | "SLCW" => some do
      let n ← nat; let ls ← rep n location; done
      pure (showBool (startLocsAreClockwise ls))
  | "ADDCORNER1" => some do
      let r ← rect; let a ← location; let b ← location; done
      pure (showOptPt (addCorner1 r a b))
  | "ADDCORNER2" => some do
      let r ← rect; let a ← location; let cw ← bool; done
      let x := addCorner2 r a cw
      pure s!"{showOptPt x.1} {x.2.toNat}"
  | "CORNERLOOP" => some do
      let r ← rect; let prev ← location; let loc ← location; let cw ← bool; done
      pure (match cornerLoop r loc cw 4 prev with
        | some ps => showPath ps
        | none => "FAULT")
  | "ADJ" => some do
      let a ← location; let cw ← bool; done
      pure (toString (Gen.GetAdjacentLocation a cw).toNat)
  | "HCW" => some do
      let a ← location; let b ← location; done
      pure (showBool (Gen.HeadingClockwise a b))
  | "OPP" => some do
      let a ← location; let b ← location; done
      pure (showBool (Gen.AreOpposites a b))
  | _ => none

end Clipper.Driver.C08
