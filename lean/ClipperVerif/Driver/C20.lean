/- Driver commands for C20 (path utilities): the models of `Model/PathUtil.lean` with `D := Float`
(model level, bit-exact against the real functions) and the property's own judgements evaluated with
exact integer/rational arithmetic on the real outputs (spec level). -/
import ClipperVerif.Driver.Proto
import ClipperVerif.Model.PathUtil
namespace Clipper.Driver.C20
open Clipper Clipper.Proto Clipper.Model.PathUtil

/-! ### `Float` instantiation of the abstract distance (same expression tree as the C++) -/

/-- `static_cast<double>(int64_t)` -/
def i2f (v : Int) : Float := (Int64.ofInt v).toFloat

/-- `PerpendicDistFromLineSqrd<int64_t>` -/
def perpDist2F (p l1 l2 : Pt) : Float :=
  let a := i2f (p.x - l1.x)
  let b := i2f (p.y - l1.y)
  let c := i2f (l2.x - l1.x)
  let d := i2f (l2.y - l1.y)
  if c == 0 && d == 0 then 0 else
  let t := a * d - c * b
  (t * t) / (c * c + d * d)

def maxDbl : Float := Float.ofBits 0x7FEFFFFFFFFFFFFF

def floatOps : DistOps Float := ⟨fun a b => decide (a ≤ b), 0, maxDbl, perpDist2F⟩

/-- `NearEqual<int64_t>(p1, p2, max_dist_sqrd)` -/
def nearF (maxd : Float) (p1 p2 : Pt) : Bool :=
  let dx := i2f (p1.x - p2.x)
  let dy := i2f (p1.y - p2.y)
  decide (dx * dx + dy * dy < maxd)

/-! ### `Float` models of Ellipse and Length (same expression trees as the C++; glibc `sin`/`cos`) -/

def piF : Float := Float.ofBits 0x400921FB54442D18

/-- `Point64(double, double)`: `static_cast<int64_t>(std::round(v))` -/
def mkPtF (x y : Float) : Pt := ⟨(Float.round x).toInt64.toInt, (Float.round y).toInt64.toInt⟩

/-- the `steps` actually used by `Ellipse` -/
def ellipseSteps (rx ry : Float) (steps : Nat) : Nat :=
  if steps ≤ 2 then (piF * Float.sqrt ((rx + ry) / 2)).toUInt64.toNat else steps

def ellipseF (cx cy : Int) (rx ry : Float) (steps : Nat) : List Pt :=
  if rx <= 0 then [] else
  let ry := if ry <= 0 then rx else ry
  let steps := ellipseSteps rx ry steps
  let st := Float.ofNat steps
  let si := Float.sin (2 * piF / st)
  let co := Float.cos (2 * piF / st)
  let cxf := i2f cx
  let cyf := i2f cy
  ellipseGen (mkPtF (cxf + rx) cyf)
    (fun (s : Float × Float) => mkPtF (cxf + rx * s.1) (cyf + ry * s.2))
    (fun s => (s.1 * co - s.2 * si, s.2 * co + s.1 * si)) (co, si) steps

/-- `Length<int64_t>(path, is_closed_path)` -/
def lengthF (p : List Pt) (closed : Bool) : Float :=
  if p.length < 2 then 0 else
  let d (a b : Pt) : Float :=
    let dx := i2f (a.x - b.x); let dy := i2f (a.y - b.y)
    Float.sqrt (dx * dx + dy * dy)
  let s := (p.zip p.tail).foldl (fun acc e => acc + d e.1 e.2) 0
  match closed, p.getLast?, p.head? with
  | true, some z, some a => s + d z a
  | _, _, _ => s

/-! ### exact arithmetic for the spec level -/

/-- a finite double as `num / 2^k` or `num * 2^k`: returns `(n, d)` with value `n / d`, `d > 0`; `none` for inf/NaN -/
def floatToRat (f : Float) : Option (Int × Nat) :=
  let b := f.toBits.toNat
  let sgn : Int := if b / 2^63 = 1 then -1 else 1
  let e : Nat := (b / 2^52) % 2048
  let m : Nat := b % 2^52
  if e = 2047 then none
  else if e = 0 then some (sgn * (m : Int), 2^1074)
  else if e ≥ 1075 then some (sgn * (((2^52 + m) * 2^(e - 1075) : Nat) : Int), 1)
  else some (sgn * ((2^52 + m : Nat) : Int), 2^(1075 - e))

def crossI (a b c : Pt) : Int := (b.x - a.x) * (c.y - a.y) - (b.y - a.y) * (c.x - a.x)
def collinearI (a b c : Pt) : Bool := decide ((b.x - a.x) * (c.y - b.y) = (b.y - a.y) * (c.x - b.x))
def dotI (a b c : Pt) : Int := (b.x - a.x) * (c.x - b.x) + (b.y - a.y) * (c.y - b.y)

/-- relative slack of the spec-level distance judgements (the C++ compares rounded doubles) -/
def slackN : Int := 2^40 + 1
def slackD : Int := 2^40

/-- squared distance of `p` from the line `a b` (from the point `a` when `a = b`) is at most `eps^2 * (1 + 2^-40)`;
`eps = en/ed` -/
def withinEps (p a b : Pt) (en : Int) (ed : Nat) : Bool :=
  let len2 := (b.x - a.x)^2 + (b.y - a.y)^2
  if len2 = 0 then decide (((p.x - a.x)^2 + (p.y - a.y)^2) * (ed : Int)^2 * slackD ≤ en^2 * slackN)
  else decide ((crossI a b p)^2 * (ed : Int)^2 * slackD ≤ en^2 * slackN * len2)

/-- squared distance of `p` from the line `a b` (taken as 0 when `a = b`, the C++ convention) exceeds
`eps^2 * (1 - 2^-40)` -/
def beyondEps (p a b : Pt) (en : Int) (ed : Nat) : Bool :=
  let len2 := (b.x - a.x)^2 + (b.y - a.y)^2
  if len2 = 0 then false
  else decide ((crossI a b p)^2 * (ed : Int)^2 * slackD > en^2 * (slackD - 1) * len2)

def triplesOpen : List Pt → List (Pt × Pt × Pt)
  | a :: b :: c :: rest => (a, b, c) :: triplesOpen (b :: c :: rest)
  | _ => []

/-- cyclic consecutive triples of a closed path: the open triples of `last :: p ++ [first]` -/
def triplesClosed (p : List Pt) : List (Pt × Pt × Pt) := triplesOpen (cyclicChain p)

def triples (closed : Bool) (p : List Pt) : List (Pt × Pt × Pt) :=
  if closed then triplesClosed p else triplesOpen p

/-- hypothesis of the corner clause: no repeated point and no 180-degree reversal at any vertex -/
def forwardOnly (closed : Bool) (p : List Pt) : Bool :=
  (triples closed p).all (fun t => !collinearI t.1 t.2.1 t.2.2 || decide (dotI t.1 t.2.1 t.2.2 > 0))

def noCollinear (closed : Bool) (p : List Pt) : Bool :=
  (triples closed p).all (fun t => !collinearI t.1 t.2.1 t.2.2)

def flagsP : P (List Bool) := do let n ← nat; rep n bool
def showFlags (l : List Bool) : String := l.foldl (fun s b => s ++ (if b then " 1" else " 0")) (toString l.length)
def okIf (b : Bool) (msg : String) : String := if b then "ok" else "FAIL " ++ msg

/-- nearest index `< i` / `> i` whose flag is set -/
def leftKept (flags : List Bool) (i : Nat) : Option Nat := (List.range i).reverse.find? (fun j => flags.getD j false)
def rightKept (flags : List Bool) (i : Nat) : Option Nat :=
  (List.range' (i + 1) (flags.length - (i + 1))).find? (fun j => flags.getD j false)

def rdpEpsJudge (path : List Pt) (flags : List Bool) (en : Int) (ed : Nat) : Option String :=
  (List.range path.length).findSome? (fun i =>
    if flags.getD i false then none else
    match leftKept flags i, rightKept flags i with
    | some l, some r =>
        if withinEps (nth path i) (nth path l) (nth path r) en ed then none
        else some s!"removed vertex {i} is farther than eps from the line through survivors {l},{r}"
    | _, _ => some s!"removed vertex {i} has no surviving neighbour on one side")

/-- spec of `Ellipse`: vertex count, and every vertex within rounding (half a unit per coordinate) of the ellipse
and of its nominal position at angle `2*pi*i/n` -/
def ellipseJudge (cx cy : Int) (rx ry : Float) (steps : Nat) (out : List Pt) : Option String :=
  if rx <= 0 then (if out.isEmpty then none else some "non-positive radius must give the empty path") else
  let ry := if ry <= 0 then rx else ry
  let n := ellipseSteps rx ry steps
  if out.length != (if n = 0 then 1 else n) then some s!"vertex count {out.length}, steps {n}" else
  match floatToRat rx, floatToRat ry with
  | some (rxn, rxd), some (ryn, ryd) =>
    -- u = (x-cx)/rx, v = (y-cy)/ry ;  m = t/rx + t/ry + 2^-30  bounds the effect of rounding on |(u,v)|, where
    -- t = 1/2 + 2^-10 per coordinate: `std::round` of a double that itself carries the rounding error of
    -- `center + radius * d` (at most 2^-12 for |center| <= 2^41).  Common denominator q = 1024 * rxn * ryn * 2^30.
    let q : Int := 1024 * rxn * ryn * 2^30
    let m : Int := 513 * (rxd : Int) * ryn * 2^30 + 513 * (ryd : Int) * rxn * 2^30 + 1024 * rxn * ryn
    let bad := out.find? (fun p =>
      let u : Int := (p.x - cx) * rxd * (1024 * ryn * 2^30)     -- u * q
      let v : Int := (p.y - cy) * ryd * (1024 * rxn * 2^30)     -- v * q
      let r2 := u * u + v * v                                  -- |(u,v)|^2 * q^2
      let lo := if m ≥ q then 0 else (q - m) * (q - m)
      !(decide (lo ≤ r2) && decide (r2 ≤ (q + m) * (q + m))))
    match bad with
    | some p => some s!"vertex {p} is not within rounding of the ellipse"
    | none =>
      let cxf := i2f cx; let cyf := i2f cy
      let nf := Float.ofNat (if n = 0 then 1 else n)
      let tol := 0.5 + 0.0009765625 + 1e-9 * (rx + ry + 1) * nf
      let idx := (List.range out.length).zip out
      let off := idx.find? (fun (i, p) =>
        let th := 2 * piF * Float.ofNat i / nf
        let ex := cxf + rx * Float.cos th; let ey := cyf + ry * Float.sin th
        !(decide ((i2f p.x - ex).abs ≤ tol) && decide ((i2f p.y - ey).abs ≤ tol)))
      match off with
      | some (i, p) => if n ≤ 1 then none else some s!"vertex {i} = {p} is not at angle 2*pi*{i}/{n}"
      | none => none
  | _, _ => some "radius not finite"

/-- spec of `Length`: the exact length lies between sums of integer square-root bounds (units of 2^-60);
the double result must be inside that interval widened by 2^-40 relative -/
def lengthJudge (p : List Pt) (closed : Bool) (res : Float) : Bool :=
  let segs := if closed then edgesOf p else segsOf p
  let segs := if p.length < 2 then [] else segs
  let k : Nat := 60
  let los := segs.map (fun e => Nat.sqrt (((e.1.x - e.2.x)^2 + (e.1.y - e.2.y)^2).toNat * 4^k))
  let L : Int := (los.foldl (· + ·) 0 : Nat)
  let U : Int := L + segs.length
  match floatToRat res with
  | none => false
  | some (rn, rd) =>
    decide (L * (2^40 - 1) * rd ≤ rn * 2^k * 2^40) && decide (rn * 2^k * 2^40 ≤ U * (2^40 + 1) * rd)

def handle : String → Option (P String)
  -- model level -------------------------------------------------------------------------------
  | "TRIM" => some do
      let isOpen ← bool; let p ← path; done
      pure (showPath (trimCollinear p isOpen))
  | "RDP" => some do
      let eps ← float; let p ← path; done
      pure (showPath (ramerDouglasPeucker floatOps p (eps * eps)))
  | "RDPFLAGS" => some do
      let eps ← float; let p ← path; done
      pure (showFlags (rdpFlags floatOps p (eps * eps)))
  | "SIMPLIFY" => some do
      let eps ← float; let closed ← bool; let p ← path; done
      match simplifyPath floatOps p (eps * eps) closed with
      | some r => pure (showPath r)
      | none => pure "FAULT"
  | "STRIPDUP" => some do
      let closed ← bool; let p ← path; done
      pure (showPath (stripDuplicates p closed))
  | "STRIPNEAR" => some do
      let maxd ← float; let closed ← bool; let p ← path; done
      pure (showPath (stripNearEqual (nearF maxd) p closed))
  | "TRANSLATE" => some do
      let dx ← int; let dy ← int; let p ← path; done
      pure (showPath (translatePath p dx dy))
  | "BOUNDS" => some do
      let p ← path; done
      let r := getBounds p
      pure s!"{r.left} {r.top} {r.right} {r.bottom}"
  | "PDIST" => some do
      let p ← pt; let a ← pt; let b ← pt; done
      pure (showFloat (perpDist2F p a b))
  | "ELLIPSE" => some do
      let cx ← int; let cy ← int; let rx ← float; let ry ← float; let steps ← nat; done
      pure (showPath (ellipseF cx cy rx ry steps))
  | "LENGTH" => some do
      let closed ← bool; let p ← path; done
      pure (showFloat (lengthF p closed))
  -- spec level ---------------------------------------------------------------------------------
  | "SPEC_ELLIPSE" => some do
      let cx ← int; let cy ← int; let rx ← float; let ry ← float; let steps ← nat; let out ← path; done
      match ellipseJudge cx cy rx ry steps out with
      | none => pure "ok"
      | some why => pure ("FAIL " ++ why)
  | "SPEC_LENGTH" => some do
      let closed ← bool; let p ← path; let res ← float; done
      pure (okIf (lengthJudge p closed res) "length outside the exact interval")
  | "SPEC_SUBSEQ" => some do
      let inp ← path; let out ← path; done
      pure (okIf (isSubseq out inp) "result is not a subsequence of the input")
  | "SPEC_KEEPS_ENDS" => some do
      let inp ← path; let out ← path; done
      pure (okIf (out.head? == inp.head? && out.getLast? == inp.getLast?) "end points of the open path not kept")
  | "SPEC_NO_COLLINEAR" => some do
      let closed ← bool; let inp ← path; let out ← path; done
      if !forwardOnly closed inp then pure "ok skip input-not-forward-only" else
      pure (okIf (noCollinear closed out) "three consecutive collinear vertices in the result")
  | "SPEC_TRIM_IDEM" => some do
      -- `out2` is the real function applied to its own result `out`
      let closed ← bool; let inp ← path; let out ← path; let out2 ← path; done
      if !forwardOnly closed inp then pure "ok skip input-not-forward-only" else
      pure (okIf (out2 == out) "not idempotent")
  | "SPEC_TRIM_AREA" => some do
      let inp ← path; let out ← path; done
      pure (okIf (shoelace2 inp == shoelace2 out) s!"shoelace2 {shoelace2 inp} became {shoelace2 out}")
  | "SPEC_RDP_EPS" => some do
      let eps ← float; let p ← path; let flags ← flagsP; let out ← path; done
      if flags.length != p.length then pure "FAIL flags length" else
      if selectFlags true p flags != out then pure "FAIL result is not the flagged selection" else
      match floatToRat eps with
      | none => pure "ok skip epsilon-not-finite"
      | some (en, ed) =>
        match rdpEpsJudge p flags en ed with
        | none => pure "ok"
        | some why => pure ("FAIL " ++ why)
  | "SPEC_SIMPLIFY_FIXPOINT" => some do
      let eps ← float; let closed ← bool; let out ← path; done
      match floatToRat eps with
      | none => pure "ok skip epsilon-not-finite"
      | some (en, ed) =>
        -- a closed result of two vertices is the loop's other exit (`next == prior`): nothing left to judge
        let ts := if closed && out.length < 3 then [] else triples closed out
        let bad := ts.find? (fun t => !beyondEps t.2.1 t.1 t.2.2 en ed)
        match bad with
        | none => pure "ok"
        | some t => pure s!"FAIL vertex {t.2.1} is still within eps of the line through its neighbours"
  | "SPEC_STRIPDUP" => some do
      let closed ← bool; let inp ← path; let out ← path; done
      pure (okIf (out == collapseRuns inp closed) "result is not the input with runs collapsed")
  | "SPEC_BOUNDS" => some do
      let p ← path; let l ← int; let t ← int; let r ← int; let b ← int; done
      match p with
      | [] => pure (okIf (l == int64Max && t == int64Max && r == int64Lowest && b == int64Lowest) "invalid rect expected")
      | _ =>
        let xs := p.map (·.x); let ys := p.map (·.y)
        pure (okIf (xs.all (fun x => l ≤ x && x ≤ r) && ys.all (fun y => t ≤ y && y ≤ b)
          && xs.contains l && xs.contains r && ys.contains t && ys.contains b) "bounds are not min/max")
  | "SPEC_TRANSLATE" => some do
      let dx ← int; let dy ← int; let inp ← path; let out ← path; done
      pure (okIf (out.length == inp.length && (inp.zip out).all (fun q => q.2.x == q.1.x + dx && q.2.y == q.1.y + dy)) "translate")
  | _ => none

end Clipper.Driver.C20
