/-
C05 spec-level judgement: open subject paths cut at the clip region boundary.

OPENCHECK ct fr closedSubj clip openSubj openSol
  all coordinates in grid units.  Judged (exact integers, coordinates scaled by 16 so that sample points at odd
  sixteenths of every open subject segment are integral), only when the whole input is in general position:
  (1) every solution path has ≥ 2 vertices and every solution segment has both end points within 1.5 units of one
      and the same open subject segment (so the whole segment is);
  (2) every sample point q of an open subject segment that is outside the tolerance band of every closed edge is
      covered by a solution segment running along that subject segment  iff  keepOpen ct fr ws(q) wc(q).
Answer: `ok samples=<n> segs=<m>` | `ok notgp …` | `FAIL …`
-/
import ClipperVerif.Driver.Region
namespace Clipper.Driver.C05
open Clipper Clipper.Proto Clipper.Driver.Region

/-- Spec: which points of an open subject are kept (fill rule applied to the closed-subject and clip windings) -/
def keepOpen (ct : ClipType) (fr : FillRule) (ws wc : Int) : Bool :=
  match ct with
  | .intersection => inFill fr wc
  | .union => !inFill fr ws && !inFill fr wc
  | .difference => !inFill fr wc
  | .xor => !inFill fr wc
  | .noClip => false

def scalePaths (k : Int) (ps : Paths) : Paths := ps.map (fun p => p.map (Pt.scale k))

def cmdOpenCheck : P String := do
  let ct ← clipType; let fr ← fillRule
  let subj ← paths; let clip ← paths; let opn ← paths; let sol ← paths
  done
  if let some why := notGeneralPositionG (subj ++ clip) opn then return s!"ok notgp {why}"
  let K : Int := 16
  let s16 := scalePaths K subj; let c16 := scalePaths K clip
  let o16 := scalePaths K opn; let sol16 := scalePaths K sol
  let maxabs := maxAbs (subj ++ clip ++ opn)
  -- band radius r = (9·2^39 + maxabs)/2^41 grid units; squared and scaled by K²
  let num := 9 * 2^39 + maxabs
  let bn := K * K * num * num
  let bd : Int := 2^82
  -- 1.5 units squared, scaled: (1.5 K)² = 576 ; allow the magnitude-proportional rounding term as well
  let r15n := K * K * (9 * 2^80 + 4 * maxabs * maxabs + 12 * 2^40 * maxabs)   -- (1.5 + maxabs·2^-40)² · 2^82·K²/… see below
  let r15d : Int := 4 * 2^80
  let subjSegs := o16.flatMap segsOf
  let solSegs := sol16.flatMap segsOf
  -- (1)
  for p in sol do
    if p.length < 2 then return s!"FAIL solution path with {p.length} vertices"
  let mut nseg := 0
  for (a, b) in solSegs do
    nseg := nseg + 1
    if !(subjSegs.any (fun (c, d) => distSegLe a c d r15n r15d && distSegLe b c d r15n r15d)) then
      return s!"FAIL solution segment {a.x},{a.y}-{b.x},{b.y} (x16) not along any open subject segment"
  -- (2)
  let mut samples := 0
  for (a, b) in subjSegs do
    -- a, b are 16·(grid point): q = a + (2k+1)/16 · (b - a)
    let along := solSegs.filter (fun (c, d) => distSegLe c a b r15n r15d && distSegLe d a b r15n r15d)
    for k in [0:8] do
      let kk : Int := 2 * k + 1
      let q : Pt := ⟨a.x + kk * ((b.x - a.x) / 16), a.y + kk * ((b.y - a.y) / 16)⟩
      if nearAnyEdge s16 q bn bd || nearAnyEdge c16 q bn bd then continue
      samples := samples + 1
      let ws := wind s16 q; let wc := wind c16 q
      let keep := keepOpen ct fr ws wc
      let covered := along.any (fun (c, d) => distSegLe q c d r15n r15d)
      if keep ≠ covered then
        return s!"FAIL sample {q.x},{q.y} (x16) ws={ws} wc={wc} keep={keep} covered={covered}"
  return s!"ok samples={samples} segs={nseg}"

def handle : String → Option (P String)
  | "OPENCHECK" => some cmdOpenCheck
  | _ => none

end Clipper.Driver.C05
