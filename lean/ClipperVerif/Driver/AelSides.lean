/-
Driver commands for the side-bookkeeping model (`Model/AelSides.lean`; property C11, success clause).

Tokens as in `Driver/Ael.lean`; additionally
`join` 0 NoJoin, 1 Left, 2 Right;  `orec` = index of the edge's closed output record or -1;  `front` 0/1.

An *op* is one of the ops of `Driver/Ael.lean` (`IP pos pt isOpen dxLeft`, `I1 pos pt dx`, `X i`, `RP i`, `R1 i`) or
  `J i`    CheckJoinLeft/Right joined the edges at `i`, `i+1`
  `SP i`   Split entered for the edge at `i`

`AELSIDES ct fr n item_1 … item_n`
    an item is an op or a snapshot `S k (pt isOpen dx wc wc2 hot join orec front)×k` of the real engine's AEL.
    Replays the ops on `Model.stepS` from the empty state; after every op checks `Model.checkSInv` (C01 invariant, hot = record-or-joined,
    joined pairs adjacent, sides alternate) and `Model.checkRecs` (edge-centric representation faithful); at every snapshot compares
    the model state with the snapshot field by field.  Reply `ok ops=<#ops> snaps=<#snapshots>` or `FAIL item=<j> <reason>`, reason one of
    `op-rejected`, `fault <sidesEqual|nullDeref|joinSameSide>`, `sinv-broken`, `recs-broken`,
    `mismatch pos=<p> model=<9 fields> real=<9 fields>`, `mismatch length model=<k> real=<k'>`.

`SIDESREPLAY ct fr n op_1 … op_n`
    replays ops only.  Reply `k (join orec front)×k next=<n> sinv=<b> recs=<b>`, or `ERR j reject`, or `ERR j fault <f>`.

`MINFRONT prev isNew`    model level: `Model.minFront1` (prev: -1 none, 0 back, 1 front) → 0/1
-/
import ClipperVerif.Driver.Proto
import ClipperVerif.Driver.Ael
import ClipperVerif.Model.AelSides
namespace Clipper.Driver.AelSides
open Clipper Clipper.Proto Clipper.Model

inductive Item
  | op (o : SOp)
  | snap (l : List SEdge)

def joinTok : P Join := do
  match (← nat) with
  | 0 => pure .none | 1 => pure .left | 2 => pure .right
  | n => throw s!"bad join {n}"

def sedge : P SEdge := do
  let e ← Ael.edge
  let j ← joinTok; let o ← int; let f ← bool
  pure { e := e, join := j, orec := if o < 0 then none else some ⟨o.toNat, f⟩ }

def item : P Item := do
  match (← tok) with
  | "IP" => do
      let pos ← nat; let pt ← Ael.pathType; let o ← bool; let dx ← int
      pure (.op (.base (.insertPair pos pt o dx)))
  | "I1" => do
      let pos ← nat; let pt ← Ael.pathType; let dx ← int
      pure (.op (.base (.insertOne pos pt dx)))
  | "X" => do pure (.op (.base (.intersect (← nat))))
  | "RP" => do pure (.op (.base (.removePair (← nat))))
  | "R1" => do pure (.op (.base (.removeOne (← nat))))
  | "J" => do pure (.op (.join (← nat)))
  | "SP" => do pure (.op (.split (← nat)))
  | "S" => do
      let k ← nat; pure (.snap (← rep k sedge))
  | t => throw s!"bad item '{t}'"

def showJoin : Join → String
  | .none => "0" | .left => "1" | .right => "2"
def showRec : Option Rec → String
  | some r => s!"{r.id} {showBool r.front}"
  | none => "-1 0"
def showS3 (x : SEdge) : String := s!"{showJoin x.join} {showRec x.orec}"
def showS9 (x : SEdge) : String := s!"{Ael.showEdge6 x.e} {showS3 x}"
def showFault : Fault → String
  | .sidesEqual => "sidesEqual" | .nullDeref => "nullDeref" | .joinSameSide => "joinSameSide"

def firstDiff : List SEdge → List SEdge → Nat → Option String
  | [], [], _ => none
  | a :: as, b :: bs, p =>
    if a = b then firstDiff as bs (p + 1)
    else some s!"mismatch pos={p} model={showS9 a} real={showS9 b}"
  | as, bs, p => some s!"mismatch length model={p + as.length} real={p + bs.length}"

def verify (cfg : Cfg) : SState → List Item → Nat → Nat → Nat → String
  | _, [], _, nops, nsnaps => s!"ok ops={nops} snaps={nsnaps}"
  | s, .op o :: rest, j, nops, nsnaps =>
    match stepS cfg s o with
    | .error .reject => s!"FAIL item={j} op-rejected"
    | .error (.fault f) => s!"FAIL item={j} fault {showFault f}"
    | .ok s' =>
      if !checkSInv cfg s' then s!"FAIL item={j} sinv-broken"
      else if !checkRecs s' then s!"FAIL item={j} recs-broken"
      else verify cfg s' rest (j + 1) (nops + 1) nsnaps
  | s, .snap r :: rest, j, nops, nsnaps =>
    match firstDiff s.ael r 0 with
    | some why => s!"FAIL item={j} {why}"
    | none => verify cfg s rest (j + 1) nops (nsnaps + 1)

def replay (cfg : Cfg) : SState → List SOp → Nat → Except String SState
  | s, [], _ => .ok s
  | s, op :: ops, j =>
    match stepS cfg s op with
    | .ok s' => replay cfg s' ops (j + 1)
    | .error .reject => .error s!"ERR {j} reject"
    | .error (.fault f) => .error s!"ERR {j} fault {showFault f}"

def handle : String → Option (P String)
  | "AELSIDES" => some do
      let ct ← clipType; let fr ← fillRule; let n ← nat
      let items ← rep n item; done
      pure (verify ⟨ct, fr⟩ SState.empty items 0 0 0)
  | "SIDESREPLAY" => some do
      let ct ← clipType; let fr ← fillRule; let n ← nat
      let items ← rep n item; done
      let ops ← items.mapM (fun it => match it with
        | .op o => pure o
        | .snap _ => throw "snapshot in SIDESREPLAY")
      match replay ⟨ct, fr⟩ SState.empty ops 0 with
      | .ok s =>
        let body := s.ael.foldl (fun acc x => acc ++ " " ++ showS3 x) (toString s.ael.length)
        pure s!"{body} next={s.next} sinv={showBool (checkSInv ⟨ct, fr⟩ s)} recs={showBool (checkRecs s)}"
      | .error e => pure e
  | "MINFRONT" => some do
      let p ← int; let isNew ← bool; done
      let prev : Option Bool := if p < 0 then none else some (p != 0)
      pure (showBool (minFront1 prev isNew))
  | _ => none

end Clipper.Driver.AelSides
