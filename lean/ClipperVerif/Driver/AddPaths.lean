/- Driver command for the `AddPaths_` model (C13/C12/C10): `ADDPATHS polytype is_open paths` answers the canonical dump of
the vertex array, the linked rings with their flags, and the local minima list, as `harness/AddPaths.cpp` reads them from
the real object's private members. -/
import ClipperVerif.Driver.Proto
import ClipperVerif.Model.AddPathsRings
namespace Clipper.Driver.AddPaths
open Clipper Clipper.Proto Clipper.Model.AddPathsRings

def polyType : P PathType := do
  match (← nat) with
  | 0 => pure .subject | 1 => pure .clip
  | n => throw s!"bad path type {n}"

def showOptNat : Option Nat → String
  | none => "-1"
  | some n => toString n

/-- `total alloc S n {x y next prev flags}*n R k {base len {x y flags}*len}*k M m {slot x y polytype isopen}*m` -/
def dump (paths : Paths) (o : Out) : String :=
  let mem := image paths o
  let sMem := mem.foldl (fun s sl => s ++ s!" {sl.pt.x} {sl.pt.y} {showOptNat sl.next} {showOptNat sl.prev} {sl.flags}") s!"S {mem.length}"
  let rings := o.rings
  let sRings := rings.foldl (fun s r =>
      r.out.ring.foldl (fun s (pf : Pt × VFlags) => s ++ s!" {pf.1.x} {pf.1.y} {pf.2.bits}") (s ++ s!" {r.base} {r.out.pts.length}"))
      s!"R {rings.length}"
  let ms := o.minima
  let sMin := ms.foldl (fun s m => s ++ s!" {m.slot} {m.pt.x} {m.pt.y} {if m.polytype = .subject then 0 else 1} {showBool m.isOpen}") s!"M {ms.length}"
  s!"{o.total} {showBool o.allocates} {sMem} {sRings} {sMin}"

def addPathsCmd : P String := do
  let pt ← polyType; let isOpen ← bool; let ps ← paths; done
  pure (dump ps (addPaths pt isOpen ps))

def handle (cmd : String) : Option (P String) :=
  match cmd with
  | "ADDPATHS" => some addPathsCmd
  | _ => none

end Clipper.Driver.AddPaths
