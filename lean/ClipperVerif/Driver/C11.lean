/- Driver commands for C11: outcome predicted by the control-frame models of the PathsD entry points.
   `exc` 0/1, `p` precision, flags 0/1.  Reply: `threw <code>` | `empty` | `unchanged` | `ran`. -/
import ClipperVerif.Driver.Proto
import ClipperVerif.Model.Errors
namespace Clipper.Driver.C11
open Clipper Clipper.Proto Clipper.Model.Errors

def showOutcome : Outcome → String
  | .threw c => s!"threw {c}"
  | .empty => "empty"
  | .unchanged => "unchanged"
  | .ran _ => "ran"

def handle : String → Option (P String)
  | "ERR_BOOLEAN" => some do
      let exc ← bool; let p ← int; let o1 ← bool; let o2 ← bool; done
      pure (showOutcome (booleanOpD exc p o1 o2))
  | "ERR_INFLATE" => some do
      let exc ← bool; let p ← int; let dz ← bool; let o ← bool; done
      pure (showOutcome (inflatePathsD exc p dz o))
  | "ERR_RECTCLIP" => some do
      let exc ← bool; let p ← int; let re ← bool; let pe ← bool; let o ← bool; done
      pure (showOutcome (rectClipD exc p re pe o))
  | "ERR_TRIM" => some do
      let exc ← bool; let p ← int; let o ← bool; done
      pure (showOutcome (trimCollinearD exc p o))
  | "ERR_MINKOWSKI" => some do
      let exc ← bool; let p ← int; let o ← bool; done
      pure (showOutcome (minkowskiD exc p o))
  | "ERR_CLIPPERD_CTOR" => some do
      let exc ← bool; let p ← int; done
      pure (match clipperDCtor exc p with | .error c => s!"threw {c}" | .ok ec => s!"code {ec}")
  | "ERR_SCALE0" => some do
      let exc ← bool; let sx ← int; let sy ← int; done
      pure (showOutcome (scalePathZero exc sx sy))
  | "ERR_MAKEPATH" => some do
      let exc ← bool; let n ← nat; done
      pure (match makePath exc n with | .error c => s!"threw {c}" | .ok k => s!"points {k}")
  | "CHECKPREC" => some do
      let exc ← bool; let p ← int; let ec ← int; done
      pure (match Clipper.Gen.CheckPrecisionRange exc p ec with | .error c => s!"threw {c}" | .ok (p', ec') => s!"ok {p'} {ec'}")
  | _ => none

end Clipper.Driver.C11
