/- Driver commands for the composition of the C01 layers (`Model/SweepEvents.lean`, theorems `Props/C01Region.lean`,
harness `harness/C01region.cpp`).

* `SWEEPHOT ct fr <subj paths> <clip paths>`   (model level).  The model derives the event data from the paths ALONE (`build`), decides
  the hypotheses of `scanline_region` (`Built.Hyp` with the regenerated `IsValidAelOrder` and `curr_x` = exact x rounded half to even;
  `Built.HypR` for the labelling `labOf`), derives the event list of the bookkeeping model (`beamRuns`), runs `Model/Ael` along it and answers
      `out <first failing hypothesis>`                       when the hypotheses do not hold,
      `REJECTED`                                             when the bookkeeping model rejects a derived event (never, by `sweepEvents_accepted`),
      `H n {y0 y1 I k f*k X k f*k T k f*k}*n`                else: per scanbeam the hot flags (0/1, left to right) of the derived L2 state after
  the insertions at `y0`, after `DoIntersections(y1)` and after `DoTopOfScanbeam(y1)`.  The harness expects the REAL flags
  (`outrec != nullptr || join_with != NoJoin` of every `Active`, read between the real member functions).
* `SCANLINE ct fr <subj paths> <clip paths> nb {k {id hot}*k m {xn yn yd}*m}*nb`   (spec level).  Each block is a REAL AEL (edge identities left
  to right with their real hot flags, read after `InsertLocalMinimaIntoAEL` or after `DoIntersections`) and probe points `(xn/yd, yn/yd)`.
  For every probe the Lean side requires that the block lists exactly the input edges crossing the scanline of the probe (`FAIL` otherwise:
  the AEL would be incomplete), skips it when the block is not in left-to-right order at that height (a crossing lies between the probe
  and the scanline where the flags were read: the flags are not those of the probe's scanline) or when the probe is on an edge, and
  otherwise evaluates BOTH sides of `scanline_region`: "an odd number of the real hot edges is strictly left of the probe" must equal
  `inR ct fr (Spec.wind subj p) (Spec.wind clip p)` (exact winding numbers of the scaled paths).  Reply
  `ok notgp <why>` (hypotheses fail: vacuous), `ok probes=<judged> unordered=<n> onedge=<n>`, or `FAIL …`. -/
import ClipperVerif.Driver.Proto
import ClipperVerif.Driver.SweepOrder
import ClipperVerif.Model.SweepEvents
namespace Clipper.Driver.SweepEvents
open Clipper Clipper.Proto Clipper.Model Clipper.Model.SweepOrder Clipper.Model.SweepEvents

/-- first failing part of `SweepR`, for the statistics -/
def whyBeamsR (b : Built) (lab : Lab) : List Int → Option String
  | y0 :: y1 :: rest =>
    if ¬ NoBotInside b.edges y0 y1 then some "scanline-missing-bot"
    else if ¬ MinLab lab (b.mins y0) then some "localmin-labels"
    else if ¬ MaxOK b.edges b.next lab y1 then some "localmax-not-a-pair"
    else whyBeamsR b lab (y1 :: rest)
  | _ => none

def whyNotR (b : Built) (lab : Lab) : String :=
  if ¬ b.edges.Nodup then "duplicate-edge"
  else if ¬ DxOK b.edges lab then "direction"
  else if ¬ NextLab b.edges b.next lab then "bound-labels"
  else if ¬ Starts b.edges b.next b.mins then "edge-without-start"
  else if ¬ TopStart b.edges b.ys then "edge-below-first-scanline"
  else (whyBeamsR b lab b.ys).getD "unknown"

def showFlags (tag : String) (l : Ael) : String :=
  l.foldl (fun s e => s ++ (if e.hot then " 1" else " 0")) s!"{tag} {l.length}"

/-- `none` = in scope -/
def outOfScope (b : Built) (lab : Lab) : Option String :=
  if !SweepOrder.inScope b then some (SweepOrder.outReason b)
  else if !decide (Built.HypR b lab) then some ("hypR-" ++ whyNotR b lab)
  else none

def hotCmd : P String := do
  let ct ← clipType; let fr ← fillRule; let subj ← paths; let clip ← paths; done
  let b := build (subj ++ clip)
  let lab := labOf subj clip
  if let some why := outOfScope b lab then return s!"out {why}"
  let runs := beamRuns SweepOrder.validR rhe b.next b.mins lab [] b.ys
  match runBeams ⟨ct, fr⟩ [] runs with
  | none => pure "REJECTED"
  | some states =>
    let body := (runs.zip states).foldl (fun acc (p : BeamRun × Ael × Ael × Ael) =>
      acc ++ s!" {p.1.snap.y0} {p.1.snap.y1} {showFlags "I" p.2.1} {showFlags "X" p.2.2.1} {showFlags "T" p.2.2.2}") s!"H {runs.length}"
    pure body

structure Probe where
  xn : Int
  yn : Int
  yd : Int

structure Block where
  ael : List (Nat × Bool)
  probes : List Probe

def block : P Block := do
  let k ← nat
  let ael ← rep k (do let id ← nat; let h ← bool; pure (id, h))
  let m ← nat
  let probes ← rep m (do let xn ← int; let yn ← int; let yd ← int; pure (⟨xn, yn, yd⟩ : Probe))
  pure ⟨ael, probes⟩

def scanlineCmd : P String := do
  let ct ← clipType; let fr ← fillRule; let subj ← paths; let clip ← paths
  let nb ← nat; let blocks ← rep nb block; done
  let b := build (subj ++ clip)
  let lab := labOf subj clip
  if let some why := outOfScope b lab then return s!"ok notgp {why}"
  let mut judged := 0
  let mut unordered := 0
  let mut onedge := 0
  for blk in blocks do
    -- the sweep edges of the block
    let mut es : List SEdge := []
    let mut hots : List SEdge := []
    for (id, h) in blk.ael.reverse do
      match b.edges.find? (fun e => e.id == id) with
      | none => return s!"FAIL unknown edge {id} in a real AEL"
      | some e =>
        es := e :: es
        if h then hots := e :: hots
    for p in blk.probes do
      if p.yd ≤ 0 then return "FAIL bad probe denominator"
      -- the block must be exactly the set of input edges crossing the scanline of the probe
      let alive := b.edges.filter (fun e => decide (aliveAt e p.yn p.yd))
      if !(alive.all (fun e => es.contains e) && es.all (fun e => alive.contains e)) then
        return s!"FAIL the real AEL is not the set of input edges crossing the scanline {p.yn}/{p.yd}: real {idsOf es} exact {idsOf alive}"
      if !decide (es.Pairwise (fun a c => leAt p.yn p.yd a c = true)) then
        unordered := unordered + 1
      else if es.any (fun e => decide (onEdgeLine e p.xn p.yn p.yd)) then
        onedge := onedge + 1
      else
        judged := judged + 1
        let lhs := insideHot hots p.xn p.yn p.yd
        let ws := windQ subj p.xn p.yn p.yd
        let wc := windQ clip p.xn p.yn p.yd
        if lhs != inR ct fr ws wc then
          return s!"FAIL probe ({p.xn}/{p.yd}, {p.yn}/{p.yd}): inside the real hot intervals = {lhs}, subject winding {ws}, clip winding {wc}, real hot edges {idsOf hots} of {idsOf es}"
  pure s!"ok probes={judged} unordered={unordered} onedge={onedge}"

def handle (cmd : String) : Option (P String) :=
  match cmd with
  | "SWEEPHOT" => some hotCmd
  | "SCANLINE" => some scanlineCmd
  | _ => none

end Clipper.Driver.SweepEvents
