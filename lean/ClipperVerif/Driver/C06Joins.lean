/- Driver commands for the join geometry of ClipperOffset (C06 / C07): the polymorphic definitions of
`Model/OffsetJoins.lean` evaluated at `α := Float` (IEEE binary64; model level, bit for bit against the compiled
primitives) and the idealised statements of `Props/C06Joins.lean` judged on the REAL outputs in exact rational
arithmetic (spec level, tolerance = the rounding of the result to integers).

libm: `std::sin/cos/acos/atan2` results travel in the request as a table `(function, argument bits, result bits)`
computed by the C++ side; the `Float` instance looks the model's own argument up in it (bit equality) and yields NaN when
it is absent, so a pass means the model computed the same argument.  `std::sqrt`, `std::fabs`, `std::ceil` and
`std::round` are exactly specified by IEEE-754 / ISO C and are evaluated by Lean (`Float.sqrt/abs/ceil/round`). -/
import ClipperVerif.Driver.Proto
import ClipperVerif.Model.OffsetJoins
namespace Clipper.Driver.C06Joins
open Clipper Clipper.Proto Clipper.OffsetJoins

/-- `static_cast<double>(int64_t)` -/
def i2f (v : Int) : Float := (Int64.ofInt v).toFloat

def nan : Float := Float.ofBits 0x7FF8000000000000

/-- one libm call made by the C++ side: function tag (0 acos, 1 sin, 2 cos, 3 atan2), argument bits, result -/
structure LibmCall where
  fn : Nat
  a : UInt64
  b : UInt64
  r : Float

def lookup (tbl : List LibmCall) (fn : Nat) (a b : Float) : Float :=
  match tbl.find? (fun e => e.fn == fn && e.a == a.toBits && e.b == b.toBits) with
  | some e => e.r
  | none => nan

/-- the `Float` instance of `Ops`: IEEE operations, libm by table -/
def floatOps (tbl : List LibmCall) : Ops Float where
  ofInt := i2f
  lt := fun a b => decide (a < b)
  le := fun a b => decide (a ≤ b)
  isZero := fun a => a == 0
  sqrt := Float.sqrt
  abs := Float.abs
  ceil := fun x => (Float.ceil x).toInt64.toInt
  sin := fun x => lookup tbl 1 x 0
  cos := fun x => lookup tbl 2 x 0
  acos := fun x => lookup tbl 0 x 0
  atan2 := fun y x => lookup tbl 3 y x
  c0999 := Float.ofBits 0x3FEFF7CED916872B
  c0001 := Float.ofBits 0x3F50624DD2F1A9FC
  fpTol := Float.ofBits 0x3D719799812DEA11
  arcConst := Float.ofBits 0x3F60624DD2F1A9FC
  pi := Float.ofBits 0x400921FB54442D18

/-- `Point64(double, double)`: `static_cast<int64_t>(std::round(v))` -/
def mkPtF (x y : Float) : Pt := ⟨(Float.round x).toInt64.toInt, (Float.round y).toInt64.toInt⟩

def outPt : Out Float → Pt
  | .raw x y => mkPtF x y
  | .pt p => p

def showOut (l : List (Out Float)) : String := showPath (l.map outPt)


/-! ### spec level: the exact-arithmetic (`Rat`) instance of the same definitions against the real output -/

/-- exact value of a finite double -/
def f2r (f : Float) : Option Rat :=
  let b := f.toBits.toNat
  let sgn : Int := if b / 2^63 = 1 then -1 else 1
  let e : Nat := (b / 2^52) % 2048
  let mant : Nat := b % 2^52
  if e = 2047 then none
  else if e = 0 then some ((sgn * (mant : Int) : Int) / ((2^1074 : Nat) : Rat))
  else if e ≥ 1075 then some ((sgn * (((2^52 + mant) * 2^(e - 1075) : Nat) : Int) : Int) : Rat)
  else some ((sgn * ((2^52 + mant : Nat) : Int) : Int) / ((2^(1075 - e) : Nat) : Rat))

def ratv : P (V Rat) := do
  let x ← float; let y ← float
  match f2r x, f2r y with
  | some a, some b => pure ⟨a, b⟩
  | _, _ => throw "non-finite double"

def ratf : P Rat := do
  match f2r (← float) with
  | some a => pure a
  | none => throw "non-finite double"

/-- a rational within 2^-150 (relative) of the square root: Newton from the double estimate -/
def sqrtApprox (x : Rat) : Rat :=
  if x ≤ 0 then 0 else
  let xf : Float := Float.ofInt x.num / Float.ofNat x.den
  match f2r (Float.sqrt xf) with
  | none => 0
  | some y0 =>
    if y0 ≤ 0 then 0 else
    let step (y : Rat) : Rat := (y + x / y) / 2
    step (step (step y0))

/-- the idealised instance: exact `+ - * /`, comparisons and `abs`; `sqrt` to 2^-150; no trigonometry is used by the
primitives that are judged -/
def idealOps : Ops Rat := ratOps ⟨sqrtApprox, id, id, id, fun a _ => a⟩ (355 / 113)

def outRat : Out Rat → V Rat
  | .raw x y => ⟨x, y⟩
  | .pt p => ⟨(p.x : Rat), (p.y : Rat)⟩

def rabsR (x : Rat) : Rat := if x < 0 then -x else x

/-- rounding to the nearest integer moves a coordinate by at most 1/2; 1/16 is allowed for the double arithmetic of
the compiled primitive (inputs up to 2^40, |delta| up to 1e9, turn not within 10 degrees of a reversal) -/
def coordTol : Rat := 9 / 16

/-- every real vertex within `coordTol` per coordinate of the exact-arithmetic vertex -/
def closeTo (ideal : List (V Rat)) (real : List Pt) : Option String :=
  if ideal.length ≠ real.length then some s!"count {real.length} vs ideal {ideal.length}"
  else
    (ideal.zip real).zipIdx.findSome? (fun ((q, p), i) =>
      let dx := rabsR (q.x - (p.x : Rat)); let dy := rabsR (q.y - (p.y : Rat))
      if dx ≤ coordTol ∧ dy ≤ coordTol then none
      else some s!"vertex {i}: real {p.x} {p.y} off the exact-arithmetic vertex by {(Float.ofInt dx.num / Float.ofNat dx.den)} {(Float.ofInt dy.num / Float.ofNat dy.den)}")

def judge (ideal : List (Out Rat)) (real : List Pt) (what : String) : String :=
  match closeTo (ideal.map outRat) real with
  | none => s!"ok {what}"
  | some why => s!"FAIL {what}: {why}"

/-- squared distance from `p` within `(|δ| ± 3/4)²` -/
def onCircle (p : Pt) (gd : Rat) (q : Pt) : Bool :=
  let d2 : Rat := (((q.x - p.x) ^ 2 + (q.y - p.y) ^ 2 : Int) : Rat)
  let a := rabsR gd
  let lo := if a ≤ 3 / 4 then 0 else (a - 3 / 4) * (a - 3 / 4)
  decide (lo ≤ d2 ∧ d2 ≤ (a + 3 / 4) * (a + 3 / 4))

def vec : P (V Float) := do
  let x ← float; let y ← float; pure ⟨x, y⟩

def showV (v : V Float) : String := s!"{showFloat v.x} {showFloat v.y}"

def libmTable : P (List LibmCall) := do
  let n ← nat
  rep n (do
    let fn ← nat; let a ← hex64; let b ← hex64; let r ← float
    pure ⟨fn, a, b, r⟩)

def joinType : P JoinType := do
  match (← nat) with
  | 0 => pure .square | 1 => pure .bevel | 2 => pure .round | 3 => pure .miter
  | n => throw s!"bad join type {n}"

def arc : P (Arc Float) := do
  let spr ← float; let ss ← float; let sc ← float; pure ⟨spr, ss, sc⟩

def handle : String → Option (P String)
  -- model level -------------------------------------------------------------------------------
  | "JNCONST" => some do
      done
      let o := floatOps []
      pure s!"{showFloat o.c0999} {showFloat o.c0001} {showFloat o.fpTol} {showFloat o.arcConst} {showFloat o.pi}"
  | "JNUNIT" => some do
      let a ← pt; let b ← pt; done
      pure (showV (getUnitNormal (floatOps []) a b))
  | "JNNORMALIZE" => some do
      let v ← vec; done
      pure (showV (normalizeVector (floatOps []) v))
  | "JNAVG" => some do
      let a ← vec; let b ← vec; done
      pure (showV (getAvgUnitVector (floatOps []) a b))
  | "JNNORMS" => some do
      let p ← path; done
      let ns := buildNormals (floatOps []) p
      pure (ns.foldl (fun s v => s ++ " " ++ showV v) (toString ns.length))
  | "JNCROSSDOT" => some do
      let nj ← vec; let nk ← vec; done
      let sc := sinCos (floatOps []) nj nk
      pure s!"{showFloat (crossProduct nj nk)} {showFloat sc.1} {showFloat sc.2}"
  | "JNSEGINT" => some do
      let a ← vec; let b ← vec; let c ← vec; let d ← vec; let ip ← vec; done
      pure (showV (getSegmentIntersectPtD (floatOps []) a b c d ip))
  | "JNBEVEL" => some do
      let pj ← pt; let nj ← vec; let nk ← vec; let cap ← bool; let gd ← float; done
      pure (showOut (doBevel (floatOps []) pj nj nk cap gd))
  | "JNMITER" => some do
      let pj ← pt; let nj ← vec; let nk ← vec; let cosA ← float; let gd ← float; done
      pure (showOut (doMiter (floatOps []) pj nj nk cosA gd))
  | "JNSQUARE" => some do
      let pj ← pt; let pk ← pt; let nj ← vec; let nk ← vec; let cap ← bool; let gd ← float; done
      pure (showOut (doSquare (floatOps []) pj pk nj nk cap gd))
  | "JNROUND" => some do
      let pj ← pt; let nj ← vec; let nk ← vec; let cap ← bool; let gd ← float; let angle ← float; let a ← arc; done
      pure (showOut (doRound (floatOps []) a pj nj nk cap gd angle))
  | "JNPOINT" => some do
      let jt ← joinType; let tl ← float; let gd ← float; let a ← arc
      let pj ← pt; let pk ← pt; let nj ← vec; let nk ← vec; let tbl ← libmTable; done
      pure (showOut (offsetPoint (floatOps tbl) jt tl gd a pj pk nj nk))
  | "JNPOLY" => some do
      let jt ← joinType; let tl ← float; let gd ← float; let a ← arc
      let p ← path; let tbl ← libmTable; done
      pure (showOut (offsetPolygon (floatOps tbl) jt tl gd a p))
  | "JNSETUP" => some do
      let ml ← float; let arcTol ← float; let gd ← float; let tbl ← libmTable; done
      let o := floatOps tbl
      let a := arcSetup o arcTol gd
      pure s!"{showFloat (tempLimOf o ml)} {showFloat a.stepsPerRad} {showFloat a.stepSin} {showFloat a.stepCos}"
  -- spec level ---------------------------------------------------------------------------------
  | "JNCHKBEVEL" => some do
      let pj ← pt; let nj ← ratv; let nk ← ratv; let cap ← bool; let gd ← ratf; let real ← path; done
      pure (judge (doBevel idealOps pj nj nk cap gd) real (if cap then "bevel-cap" else "bevel"))
  | "JNCHKMITER" => some do
      let pj ← pt; let nj ← ratv; let nk ← ratv; let cosA ← ratf; let gd ← ratf; let real ← path; done
      pure (judge (doMiter idealOps pj nj nk cosA gd) real "miter")
  | "JNCHKSQUARE" => some do
      let pj ← pt; let pk ← pt; let nj ← ratv; let nk ← ratv; let cap ← bool; let gd ← ratf; let real ← path; done
      pure (judge (doSquare idealOps pj pk nj nk cap gd) real (if cap then "square-cap" else "square"))
  | "JNCHKROUND" => some do
      let pj ← pt; let nj ← ratv; let nk ← ratv; let cap ← bool; let gd ← ratf; let ss ← ratf; let sc ← ratf
      let real ← path; done
      -- every vertex on the circle of radius |delta| (within rounding) ...
      match real.zipIdx.find? (fun (q, _) => !onCircle pj gd q) with
      | some (q, i) => pure s!"FAIL round: vertex {i} = {q.x} {q.y} is not at distance |delta| from path[j]"
      | none =>
        -- ... and the first vertices (up to 24 rotation steps) and the last one where exact arithmetic puts them
        let n := real.length - 2
        let k := min n 24
        let ideal := doRoundSteps idealOps ⟨0, ss, sc⟩ pj nj nk cap gd ((k : Int) + 1)
        let headOk := closeTo ((ideal.take (k + 1)).map outRat) (real.take (k + 1))
        let lastOk := closeTo ((ideal.drop (k + 1)).map outRat) (real.drop (n + 1))
        match headOk, lastOk with
        | none, none => pure (if cap then "ok round-cap" else "ok round")
        | some why, _ => pure s!"FAIL round: {why}"
        | _, some why => pure s!"FAIL round (last vertex): {why}"
  | _ => none

end Clipper.Driver.C06Joins
