/- Driver commands for C12: replay an op history on the ClipperBase model (`HISTREPLAY`), final frame members of the
ClipperOffset model (`OFFFRAME`).
The add ops of `HISTREPLAY` carry the *paths* handed to `AddPaths`; the local minima they contribute are computed by the
model of `AddPaths_` (`Model/AddPathsRings.lean`, `toAdded` / `containerOf`), not read from the real object: the state vector
the harness reads from the real object lists, for every element of `minima_list_` in its current order, the creation number
of the `LocalMinima` and its vertex point, polytype and is_open, so a wrong number, order or content of computed minima is a
model divergence. -/
import ClipperVerif.Driver.Proto
import ClipperVerif.Model.History
import ClipperVerif.Model.AddPathsRings
import ClipperVerif.Model.HistoryPaths
import ClipperVerif.Model.OffsetState
namespace Clipper.Driver.C12
open Clipper Clipper.Proto Clipper.Model

def b01 (b : Bool) : String := if b then "1" else "0"
def e01 {α : Type} (l : List α) : String := if l.isEmpty then "1" else "0"

/-- the state vector the harness reads from the real object's private members -/
def stateVec (c : History.Clipper) : String :=
  e01 c.s.actives ++ e01 c.s.scanlines ++ e01 c.s.intersectNodes ++ e01 c.s.outrecs ++ e01 c.s.horzSegs ++ e01 c.s.horzJoins ++ e01 c.s.sel
  ++ " " ++ b01 c.sorted ++ b01 c.hasOpen ++ b01 c.succeeded ++ b01 c.preserve ++ b01 c.reverse
  ++ " " ++ (match c.locminIter with | some i => toString i | none => "-")
  ++ " " ++ toString c.vertexLists
  ++ c.minima.foldl (fun s m => s ++ " " ++ toString m.vid ++ "@" ++ toString m.x ++ "," ++ toString m.y ++ "/" ++
        (match m.polytype with | .subject => "0" | .clip => "1") ++ b01 m.isOpen) (" " ++ toString c.minima.length)

def polyType : P PathType := do
  match (← nat) with
  | 0 => pure .subject | 1 => pure .clip
  | n => throw s!"bad path type {n}"

/-- op syntax: `A polytype isopen <paths>` (one `AddPaths(paths, polytype, is_open)` on the clipper; the scaled integer
paths for ClipperD), `R polytype isopen <paths>` (`AddReuseableData` of a container that was filled by one such call),
`P b`, `V b`, `E ct fr tree`, `C`. -/

def histReplay : P String := do
  let n ← nat
  let mut c := History.fresh
  let mut next := 0            -- size of `minima_list_`
  let mut out : Array String := #[]
  for _ in [0:n] do
    let t ← tok
    let pop : HistoryPaths.POp ← match t with
      | "A" => do
        let pt ← polyType; let isOpen ← bool; let ps ← paths
        match pt, isOpen with
        | .subject, false => pure (HistoryPaths.POp.addSubject ps)
        | .subject, true => pure (HistoryPaths.POp.addOpenSubject ps)
        | .clip, false => pure (HistoryPaths.POp.addClip ps)
        | .clip, true => throw "open clip paths: no such public call"
      | "R" => do
        let pt ← polyType; let isOpen ← bool; let ps ← paths
        pure (HistoryPaths.POp.addReuseable (HistoryPaths.containerOf pt isOpen ps next))
      | "P" => do pure (HistoryPaths.POp.setPreserve (← bool))
      | "V" => do pure (HistoryPaths.POp.setReverse (← bool))
      | "E" => do
        let ct ← clipType; let fr ← fillRule; let tree ← bool
        pure (HistoryPaths.POp.execute ct fr tree)
      | "C" => pure HistoryPaths.POp.clear
      | _ => throw s!"bad op '{t}'"
    -- exactly the lowering the theorems of Props/C12.lean are about
    c := (History.step History.nominalSweep c (HistoryPaths.lowerOp next pop)).1
    next := HistoryPaths.nextCount next pop
    out := out.push (stateVec c)
  done
  pure (" ; ".intercalate out.toList)

def joinType : P JoinType := do
  match (← nat) with
  | 0 => pure .square | 1 => pure .bevel | 2 => pure .round | 3 => pure .miter
  | n => throw s!"bad join type {n}"
def endType : P EndType := do
  match (← nat) with
  | 0 => pure .polygon | 1 => pure .joined | 2 => pure .butt | 3 => pure .square | 4 => pure .round
  | n => throw s!"bad end type {n}"
def jtNum : JoinType → Nat | .square => 0 | .bevel => 1 | .round => 2 | .miter => 3
def etNum : EndType → Nat | .polygon => 0 | .joined => 1 | .butt => 2 | .square => 3 | .round => 4

/-- `OFFFRAME delta ngroups (jt et paths)*` on a fresh ClipperOffset → final `delta_ group_delta_ join_type_ end_type_`
(delta 0 stands for every |delta| < 0.5: the members keep their initial values) -/
def offFrame : P String := do
  let delta ← int
  let n ← nat
  let mut gs : Array OffsetState.Group := #[]
  for _ in [0:n] do
    let jt ← joinType; let et ← endType; let ps ← paths
    -- `AddPaths` ignores an empty path list
    if !ps.isEmpty then gs := gs.push (OffsetState.mkGroup ps jt et)
  done
  let st := (OffsetState.executeFrames {} delta gs.toList).1
  pure s!"{st.delta} {st.groupDelta} {jtNum st.joinType} {etNum st.endType}"

def handle : String → Option (P String)
  | "HISTREPLAY" => some histReplay
  | "OFFFRAME" => some offFrame
  | _ => none

end Clipper.Driver.C12
