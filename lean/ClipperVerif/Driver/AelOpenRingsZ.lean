/-
Driver command for the Z layer of the open-path assembly model (`Model/AelOpenRingsZ.lean`; property C15).

Tokens as in `Driver/AelOpenRings.lean`, every point with its z.  An *op* is
  `U i x y z` | `IP pos pt isOpen dxLeft x y z` | `I1 pos pt dx x y z` | `X i x y z ends` | `XL i x y z ends e3` | `RP i x y z` | `R1 i x y z` | `J i x y z` | `SP i x y z`
(`ends` = `e1bot e1top e2bot e2top`, each `x y z`), a snapshot is
  `S k (9 fields)×k  cmp m (stat n (x y z)×n)×m  (oorec ofront)×k  mo (stat fheld bheld n (x y z)×n)×mo  ncalls`
and the final item `F rev dApi np (n (x y z)×n)×np` carries `ReverseSolution`, whether the run went through `ClipperD` (`BuildPathD`), and the real `solution_open` with z.

`AELOPENRINGSZ ct fr hascb defaultZ n item_1 … item_n  c (a b c d seen ret)×c`
    replays the ops on `Model.stepOZ` from the empty state (callback family = "answer `ret_k` at the `k`-th call", as in `AELRINGSZ`); after every op checks the
    invariants of the ring model and of the open layer (as `AELOPENRINGS`) and that forgetting z the Z records / logs are those of the open model (`checkAgreeO`)
    and every triple of an open record is a stored log entry (`checkProv`); at every snapshot compares the AEL, every closed ring (while comparable), every open
    edge's record, every open record triple by triple with its held flags, and the number of callback calls; at `F` compares `Model.openSolutionZ` with the real open
    solution; at the end compares the model's call log with the harness's.
    Reply `ok ops=… snaps=… orecs=… otriples=… calls=… ogiven=… osetz=… oover=… odup=… paths=…` or `FAIL item=<j> <reason>`.
-/
import ClipperVerif.Driver.Proto
import ClipperVerif.Driver.AelOpenRings
import ClipperVerif.Driver.AelRingsZ
import ClipperVerif.Model.AelOpenRingsZ
namespace Clipper.Driver.AelOpenRingsZ
open Clipper Clipper.Proto Clipper.Model Clipper.Model.ZFill
open Clipper.Driver.AelRingsZ (ptz showPtZ CallRec callRec callDiff countKind countSetz countGiven)

structure ORingSnapZ where
  gone : Bool
  fheld : Bool
  bheld : Bool
  pts : List PtZ

inductive Item
  | op (o : ZOOp)
  | snap (l : List SEdge) (cmp : Bool) (rings : List (RStat × List PtZ)) (orecs : List (Option Rec)) (orings : List ORingSnapZ) (ncalls : Nat)
  | final (rev : Bool) (dApi : Bool) (sol : List (List PtZ))

def oringTok : P ORingSnapZ := do
  let st ← nat; let fh ← bool; let bh ← bool; let n ← nat; let ps ← rep n ptz
  pure ⟨st == 0, fh, bh, ps⟩

def endsTok : P ZEnds := do
  let a ← ptz; let b ← ptz; let c ← ptz; let d ← ptz; pure ⟨a, b, c, d⟩

def item : P Item := do
  match (← tok) with
  | "U" => do let i ← nat; let p ← ptz; pure (.op (.ev (.update i p)))
  | "IP" => do
      let pos ← nat; let t ← Ael.pathType; let o ← bool; let dx ← int; let p ← ptz
      pure (.op (.ev (.insertPair pos t o dx p)))
  | "I1" => do
      let pos ← nat; let t ← Ael.pathType; let dx ← int; let p ← ptz
      pure (.op (.insertOne pos t dx p))
  | "X" => do let i ← nat; let p ← ptz; let e ← endsTok; pure (.op (.ev (.intersect i p e)))
  | "XL" => do
      let i ← nat; let p ← ptz; let e ← endsTok; let e3 ← int
      pure (.op (.locMinX i p e (if e3 < 0 then none else some e3.toNat)))
  | "RP" => do let i ← nat; let p ← ptz; pure (.op (.ev (.removePair i p)))
  | "R1" => do let i ← nat; let p ← ptz; pure (.op (.removeOne i p))
  | "J" => do let i ← nat; let p ← ptz; pure (.op (.ev (.join i p)))
  | "SP" => do let i ← nat; let p ← ptz; pure (.op (.ev (.split i p)))
  | "S" => do
      let k ← nat; let l ← rep k AelSides.sedge
      let cmp ← bool
      let m ← nat; let rs ← rep m AelRingsZ.ringTok
      let os ← rep k AelOpenRings.orecTok
      let mo ← nat; let ors ← rep mo oringTok
      let nc ← nat
      pure (.snap l cmp rs os ors nc)
  | "F" => do
      let rev ← bool; let d ← bool; let np ← nat
      let sol ← rep np (do let n ← nat; rep n ptz)
      pure (.final rev d sol)
  | t => throw s!"bad item '{t}'"

def showORing (gone fh bh : Bool) (ps : List PtZ) : String := s!"{if gone then 0 else 1} {showBool fh} {showBool bh} {ps.map showPtZ}"

def oringDiff (om : List EndMarks) : List ZRing → List ORingSnapZ → Nat → Option String
  | [], [], _ => none
  | a :: as, b :: bs, k =>
    let fh := (markAt om k true).isNone
    let bh := (markAt om k false).isNone
    let same := if b.gone then a.stat == .gone && a.pts.isEmpty else a.stat == .live && a.pts == b.pts && fh == b.fheld && bh == b.bheld
    if same then oringDiff om as bs (k + 1)
    else some s!"open-ring-mismatch rec={k} model={showORing (a.stat == .gone) fh bh a.pts} real={showORing b.gone b.fheld b.bheld b.pts}"
  | as, bs, k => some s!"open-ring-count model={k + as.length} real={k + bs.length}"

def verify (cfg : Cfg) (zc : ZCfg) (calls : List CallRec) : ZOState → List Item → Nat → Nat → Nat → Nat → String
  | st, [], _, nops, nsnaps, npaths =>
    match callDiff st.zo.calls.reverse calls 0 with
    | some why => s!"FAIL item=end {why}"
    | none =>
      s!"ok ops={nops} snaps={nsnaps} orecs={st.zo.rings.length} otriples={(allPtsZ st.zo.rings).length} calls={st.zo.ncb} ogiven={countGiven st.zo.log} osetz={countSetz st.zo.log} oover={countKind .over st.zo.log} odup={countKind .dup st.zo.log} paths={npaths}"
  | st, .op o :: rest, j, nops, nsnaps, npaths =>
    match stepOZ cfg zc st o with
    | .error .reject => s!"FAIL item={j} op-rejected"
    | .error (.fault f) => s!"FAIL item={j} fault {AelSides.showFault f}"
    | .ok st' =>
      if !checkSInv cfg st'.o.r.s then s!"FAIL item={j} sinv-broken"
      else if !checkRecs st'.o.r.s then s!"FAIL item={j} recs-broken"
      else if !checkOut st'.o.r then s!"FAIL item={j} out-broken"
      else if !checkOpen st'.o then s!"FAIL item={j} open-inv-broken"
      else if !checkAgreeO st' then s!"FAIL item={j} z-records-do-not-erase-to-the-open-model"
      else if !checkProv st'.zo then s!"FAIL item={j} open-triple-without-log-entry"
      else verify cfg zc calls st' rest (j + 1) (nops + 1) nsnaps npaths
  | st, .snap l cmp rs os ors nc :: rest, j, nops, nsnaps, npaths =>
    match AelSides.firstDiff st.o.r.s.ael l 0 with
    | some why => s!"FAIL item={j} {why}"
    | none =>
      match (if cmp then AelRingsZ.ringDiff st.z.rings rs 0 else none) with
      | some why => s!"FAIL item={j} {why}"
      | none =>
        match AelOpenRings.orecDiff st.o.x.ol os 0 with
        | some why => s!"FAIL item={j} {why}"
        | none =>
          match oringDiff st.o.x.om st.zo.rings ors 0 with
          | some why => s!"FAIL item={j} {why}"
          | none =>
            if st.zo.ncb ≠ nc then s!"FAIL item={j} callback-calls model={st.zo.ncb} real={nc}"
            else verify cfg zc calls st rest (j + 1) nops (nsnaps + 1) npaths
  | st, .final rev d sol :: rest, j, nops, nsnaps, npaths =>
    let mine := openSolutionZ rev d st.zo.rings
    if mine = sol then verify cfg zc calls st rest (j + 1) nops nsnaps (npaths + mine.length)
    else s!"FAIL item={j} open-solution-mismatch model={mine.map (·.map showPtZ)} real={sol.map (·.map showPtZ)}"

def handle : String → Option (P String)
  | "AELOPENRINGSZ" => some do
      let ct ← clipType; let fr ← fillRule; let hascb ← bool; let dz ← int; let n ← nat
      let items ← rep n item
      let nc ← nat; let calls ← rep nc callRec
      done
      let rets : Array Int := (calls.map (·.ret)).toArray
      let zc : ZCfg := { cb := if hascb then some (fun k _ _ _ _ _ => rets.getD k (-777777)) else none, defaultZ := dz }
      pure (verify ⟨ct, fr⟩ zc calls ZOState.empty items 0 0 0 0)
  | _ => none

end Clipper.Driver.AelOpenRingsZ
