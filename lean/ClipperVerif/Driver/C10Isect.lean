/- Driver commands for the `BuildIntersectList` model (C10, slice "intersect list = inversion set").

* `BUILDISECT n {id topx joinedLeft}*n`  (model level) answers what `harness/C10isect.cpp` reads from the real object
  after the real `BuildIntersectList`: `ret N k {e1 e2}*k S m {id curr_x}*m` - return value, `intersect_nodes_` as identity
  pairs in the order appended, final SEL order with the `curr_x` values (`early` instead of the SEL part when n < 2: the C++
  returns before building the SEL); `null` when the model reports the null dereference.
* `BUILDISECTSET n {id curr_x}*n`  (model level, for states captured from real `Execute` runs, where the node list has
  already been sorted by `std::sort`): the same with the nodes in lexicographic order.
* `ISECTSPEC n {id curr_x}*n k {e1 e2}*k m {id}*m`  (spec level) judges a real result: the nodes are a permutation of the
  inversions of the AEL, the SEL is the stable sort of the AEL by `curr_x`, and the `ProcessIntersectList` loop model run on
  (AEL ids, nodes in the given order) returns normally with the AEL in SEL order. -/
import ClipperVerif.Driver.Proto
import ClipperVerif.Model.BuildIntersectList
import ClipperVerif.Model.IntersectList
namespace Clipper.Driver.C10Isect
open Clipper Clipper.Proto Clipper.Model.BuildIntersectList

def rawEdge : P RawEdge := do
  let id ← nat; let x ← int; let j ← bool; pure ⟨id, x, j⟩

def edge : P Edge := do
  let id ← nat; let x ← int; pure (id, x)

def node : P Node := do
  let a ← nat; let b ← nat; pure (a, b)

def showNodes (ns : List Node) : String :=
  ns.foldl (fun s n => s ++ s!" {n.1} {n.2}") s!"N {ns.length}"

def showSel (es : List Edge) : String :=
  es.foldl (fun s e => s ++ s!" {e.1} {e.2}") s!"S {es.length}"

def nodeLe (a b : Node) : Bool := a.1 < b.1 || (a.1 == b.1 && a.2 ≤ b.2)

def buildCmd : P String := do
  let n ← nat; let raw ← rep n rawEdge; done
  match buildFromRaw raw with
  | none => pure "null"
  | some o =>
    -- fewer than two edges: the C++ returns before building the SEL, there is no final order to compare
    if n < 2 then pure s!"{showBool o.ret} {showNodes o.nodes} early"
    else pure s!"{showBool o.ret} {showNodes o.nodes} {showSel o.sel}"

def buildSetCmd : P String := do
  let n ← nat; let ael ← rep n edge; done
  let o := buildIntersectList ael
  pure s!"{showBool o.ret} {showNodes (o.nodes.mergeSort nodeLe)} {showSel o.sel}"

def specCmd : P String := do
  let n ← nat; let ael ← rep n edge
  let k ← nat; let nodes ← rep k node
  let m ← nat; let sel ← rep m nat; done
  let inv := inversions ael
  if nodes.mergeSort nodeLe != inv.mergeSort nodeLe then
    return s!"FAIL nodes are not the inversion set: {inv.length} inversions, {nodes.length} nodes"
  let sorted := ael.mergeSort leX
  if sel != sorted.map (·.1) then
    return "FAIL SEL is not the stable sort of the AEL by curr_x"
  match Clipper.Model.IntersectList.process nodes.length (ael.map (·.1)) nodes with
  | .error _ => return "FAIL ProcessIntersectList model scans past the end"
  | .ok π => if π != sel then return "FAIL ProcessIntersectList model does not end in SEL order"
  pure s!"ok inv={inv.length}"

def handle (cmd : String) : Option (P String) :=
  match cmd with
  | "BUILDISECT" => some buildCmd
  | "BUILDISECTSET" => some buildSetCmd
  | "ISECTSPEC" => some specCmd
  | _ => none

end Clipper.Driver.C10Isect
