/-
Driver commands for the AEL bookkeeping model (`Model/Ael.lean`; properties C01, C05, C13).

Token format
------------
`ct`  clip type  0 NoClip, 1 Intersection, 2 Union, 3 Difference, 4 Xor      (C++ enum order)
`fr`  fill rule  0 EvenOdd, 1 NonZero, 2 Positive, 3 Negative
`pt`  path type  0 Subject, 1 Clip;   flags are 0/1;   positions count from 0 = `actives_`.

An *op* is one of (see `Model.Op` for the exact C++ call sites):
  `IP pos pt isOpen dxLeft`   insertPair: local minimum with two bounds; left bound lands at `pos` with `wind_dx = dxLeft`
  `I1 pos pt dx`              insertOne : open path end, single bound
  `X i`                       intersect : IntersectEdges(a,b)+SwapPositionsInAEL(a,b), `a` at `i`, `b` at `i+1` before the swap
  `RP i`                      removePair: maxima pair at `i`, `i+1` deleted
  `R1 i`                      removeOne : open edge at `i` deleted (open path end)

`AELREPLAY ct fr n op_1 … op_n`
    replays the ops from the empty AEL.  Reply:
      `k wc_0 wc2_0 hot_0 … wc_(k-1) wc2_(k-1) hot_(k-1) inv=b open=b`
    (`inv` = `Model.checkInv`, `open` = `Model.checkOpenInv`), or `ERR j` when op number `j` (from 0) does not fit the state
    (position out of range, `dx ∉ {1,-1}`, not a maxima pair, `R1` on a closed edge).

`AELVERIFY ct fr n item_1 … item_n`
    an item is an op or a snapshot `S k (pt isOpen dx wc wc2 hot)×k` of the real engine's AEL (hot = `outrec != nullptr ||
    join_with != NoJoin`).  Replays the ops; after every op checks `Model.checkInv`; at every snapshot compares the model
    state with the snapshot field by field.  Reply `ok ops=<#ops> snaps=<#snapshots>` or
    `FAIL item=<j> <reason>` where reason is `op-rejected`, `inv-broken`, or `mismatch pos=<p> model=<6 fields> real=<6 fields>`
    / `mismatch length model=<k> real=<k'>`.

`AELVERIFYOPEN …`   the same, additionally checking `Model.checkOpenInv` (open edges hot iff `Spec.keepOpen`) after every op;
    extra reason `openinv-broken`.
-/
import ClipperVerif.Driver.Proto
import ClipperVerif.Model.Ael
namespace Clipper.Driver.Ael
open Clipper Clipper.Proto Clipper.Model

def pathType : P PathType := do
  match (← nat) with
  | 0 => pure .subject | 1 => pure .clip
  | n => throw s!"bad path type {n}"

inductive Item
  | op (o : Op)
  | snap (l : Ael)

def edge : P Edge := do
  let pt ← pathType; let o ← bool; let dx ← int; let wc ← int; let wc2 ← int; let hot ← bool
  pure { pt := pt, isOpen := o, dx := dx, wc := wc, wc2 := wc2, hot := hot }

def item : P Item := do
  match (← tok) with
  | "IP" => do
      let pos ← nat; let pt ← pathType; let o ← bool; let dx ← int
      pure (.op (.insertPair pos pt o dx))
  | "I1" => do
      let pos ← nat; let pt ← pathType; let dx ← int
      pure (.op (.insertOne pos pt dx))
  | "X" => do pure (.op (.intersect (← nat)))
  | "RP" => do pure (.op (.removePair (← nat)))
  | "R1" => do pure (.op (.removeOne (← nat)))
  | "S" => do
      let k ← nat; pure (.snap (← rep k edge))
  | t => throw s!"bad item '{t}'"

def showEdge3 (e : Edge) : String := s!"{e.wc} {e.wc2} {showBool e.hot}"
def showEdge6 (e : Edge) : String :=
  let pt := match e.pt with | .subject => "0" | .clip => "1"
  s!"{pt} {showBool e.isOpen} {e.dx} {e.wc} {e.wc2} {showBool e.hot}"

def showState (cfg : Cfg) (l : Ael) : String :=
  let body := l.foldl (fun s e => s ++ " " ++ showEdge3 e) (toString l.length)
  s!"{body} inv={showBool (checkInv cfg l)} open={showBool (checkOpenInv cfg l)}"

/-- index of the first op that does not fit, or the final state -/
def replay (cfg : Cfg) : Ael → List Op → Nat → Except Nat Ael
  | l, [], _ => .ok l
  | l, op :: ops, j =>
    match step cfg l op with
    | some l' => replay cfg l' ops (j + 1)
    | none => .error j

def firstDiff : Ael → Ael → Nat → Option String
  | [], [], _ => none
  | a :: as, b :: bs, p =>
    if a = b then firstDiff as bs (p + 1)
    else some s!"mismatch pos={p} model={showEdge6 a} real={showEdge6 b}"
  | as, bs, p => some s!"mismatch length model={p + as.length} real={p + bs.length}"

def verify (cfg : Cfg) (openToo : Bool) : Ael → List Item → Nat → Nat → Nat → String
  | _, [], _, nops, nsnaps => s!"ok ops={nops} snaps={nsnaps}"
  | l, .op o :: rest, j, nops, nsnaps =>
    match step cfg l o with
    | none => s!"FAIL item={j} op-rejected"
    | some l' =>
      if !checkInv cfg l' then s!"FAIL item={j} inv-broken"
      else if openToo && !checkOpenInv cfg l' then s!"FAIL item={j} openinv-broken"
      else verify cfg openToo l' rest (j + 1) (nops + 1) nsnaps
  | l, .snap r :: rest, j, nops, nsnaps =>
    match firstDiff l r 0 with
    | some why => s!"FAIL item={j} {why}"
    | none => verify cfg openToo l rest (j + 1) nops (nsnaps + 1)

def handle : String → Option (P String)
  | "AELREPLAY" => some do
      let ct ← clipType; let fr ← fillRule; let n ← nat
      let items ← rep n item; done
      let ops ← items.mapM (fun it => match it with
        | .op o => pure o
        | .snap _ => throw "snapshot in AELREPLAY")
      match replay ⟨ct, fr⟩ [] ops 0 with
      | .ok l => pure (showState ⟨ct, fr⟩ l)
      | .error j => pure s!"ERR {j}"
  | "AELVERIFY" => some do
      let ct ← clipType; let fr ← fillRule; let n ← nat
      let items ← rep n item; done
      pure (verify ⟨ct, fr⟩ false [] items 0 0 0)
  | "AELVERIFYOPEN" => some do
      let ct ← clipType; let fr ← fillRule; let n ← nat
      let items ← rep n item; done
      pure (verify ⟨ct, fr⟩ true [] items 0 0 0)
  -- model level: the decision tables by themselves
  | "ICC" => some do   -- ICC ct fr pt wc wc2
      let ct ← clipType; let fr ← fillRule; let pt ← pathType; let wc ← int; let wc2 ← int; done
      pure (showBool (isContributingClosed ct fr pt wc wc2))
  | "ICO" => some do   -- ICO ct fr wc wc2
      let ct ← clipType; let fr ← fillRule; let wc ← int; let wc2 ← int; done
      pure (showBool (isContributingOpen ct fr wc wc2))
  | _ => none

end Clipper.Driver.Ael
