/- Driver commands for C07 (spec level): strokes of open paths judged by `Clipper.Offset.judgeStroke`,
and the comparisons between two results (±δ, reversed paths, extra distant path). -/
import ClipperVerif.Driver.C06
namespace Clipper.Driver.C07
open Clipper Clipper.Proto Clipper.Offset Clipper.Driver.C06

def handle : String → Option (P String)
  -- STROKECHECK jt et δ ml arc input result k probes
  | "STROKECHECK" => some do
      let jt ← joinType; let et ← endType; let delta ← rat; let ml ← rat; let arc ← rat
      let input ← paths; let result ← paths
      let k ← nat; let probes ← rep k pt; done
      pure (verdict (judgeStroke ⟨jt, et, delta, ml, arc, input, result⟩ probes))
  | "STROKECOUNT" => some do
      let jt ← joinType; let et ← endType; let delta ← rat; let ml ← rat; let arc ← rat
      let input ← paths; let result ← paths
      let k ← nat; let probes ← rep k pt; done
      let (a, b, n) := countStroke ⟨jt, et, delta, ml, arc, input, result⟩ probes
      pure s!"{a} {b} {n}"
  -- SAMEPATHS a b : equal as sets of closed paths (start vertex and path order ignored)
  | "SAMEPATHS" => some do
      let a ← paths; let b ← paths; done
      pure (if samePaths a b then "ok" else "FAIL canonical path sets differ")
  -- SAMEREGION tol a b k probes
  | "STROKE_SAMEREGION" => some do
      let tol ← rat; let a ← paths; let b ← paths
      let k ← nat; let probes ← rep k pt; done
      pure (verdict (sameRegion a b tol probes))
  | _ => none

end Clipper.Driver.C07
