/- Driver commands for the scanbeam sweep model `Model/SweepOrder.lean` (C01: the AEL stays sorted through the sweep;
theorems `Props/C01Sweep.lean`; harness `harness/C01sweep.cpp`).

* `SWEEPORDER <paths>`  (model level).  `paths` = all closed input paths (subject then clip).  The model derives edges, bound
  continuation, local minima and scanlines from the paths ALONE (`build`), decides the hypotheses of `sweep_keeps_sorted`
  (`Built.Hyp`, insertion predicate = the regenerated `IsValidAelOrder`, `curr_x` = exact x rounded half to even) and answers
      `out <first failing hypothesis>`                                       when they do not hold, else
      `B n {y0 y1 I k id*k X k id*k T k id*k}*n`                              the AEL (edge identities, left to right) of every
  scanbeam after `InsertLocalMinimaIntoAEL(y0)`, after `DoIntersections(y1)`, after `DoTopOfScanbeam(y1)`.
  Edge identity = global index of the edge's first vertex (edge i of a path joins vertex i and vertex i+1).
* `SWEEPISECT k {id curr_x}*k`  (model level, any input): step (2) alone — the AEL keyed by the REAL `TopX` values, answers the
  identities after `doIntersections`.
* `SWEEPHYP <paths> n {y0 y1 k {id curr_x}*k}*n`  (spec level): judges the hypotheses for a real run.  The real `TopX(e, y1)` of
  every edge of every scanbeam must be within 1/2 of the exact x (`Near`; `FAIL` when violated with all |coordinates| ≤ 2^24,
  the stated range; `ok notnear` beyond it); then `ok notgp <why>` when `Built.Hyp` fails (the sweep theorems do not apply:
  counted as vacuous), else `ok beams=… crossings=…`. -/
import ClipperVerif.Driver.Proto
import ClipperVerif.Model.SweepOrder
namespace Clipper.Driver.SweepOrder
open Clipper Clipper.Proto Clipper.Model.SweepOrder

def showIds (tag : String) (l : List SEdge) : String :=
  l.foldl (fun s e => s ++ s!" {e.id}") s!"{tag} {l.length}"

/-- the insertion predicate of the replay: the regenerated `IsValidAelOrder`, `curr_x` = exact x rounded half to even;
the fields read only by its collinear branches are left at their defaults (`validGen_ok` holds for every choice) -/
def validR : Int → SEdge → SEdge → Bool := validGen rhe default

/-- two input edges with the same end points (the harness could not tell them apart) -/
def sameGeometry (edges : List SEdge) : Bool :=
  edges.any (fun a => edges.any (fun b => a.id != b.id && a.bot == b.bot && a.top == b.top))

/-- first failing hypothesis of one scanbeam, for the statistics (the decision itself is `decide (b.Hyp validR)`) -/
def whyBeams (b : Built) : List Int → Option String
  | y0 :: y1 :: rest =>
    if ¬ MinsOK b.edges (b.mins y0) y0 then some "localmin-structure"
    else if ¬ GPmin b.edges (b.mins y0) y0 then some "gp-localmin"
    else if ¬ ValidOK b.edges (validR y0) y0 then some "valid"
    else if ¬ NoTopInside b.edges y0 y1 then some "scanline-missing"
    else if ¬ GPtop b.edges b.next y1 then some "gp-top"
    else whyBeams b (y1 :: rest)
  | _ => none

def whyNot (b : Built) : String :=
  if ¬ AllUp b.edges then "horizontal-edge"
  else if ¬ IdsInj b.edges then "ids"
  else if ¬ NextOK b.edges b.next b.mins then "bound-continuation"
  else (whyBeams b b.ys).getD "unknown"

def inScope (b : Built) : Bool := decide (b.Hyp validR) && !sameGeometry b.edges

def outReason (b : Built) : String := if sameGeometry b.edges then "coincident-edges" else whyNot b

def showSnap (s : Snap) : String :=
  s!" {s.y0} {s.y1} {showIds "I" s.inserted} {showIds "X" s.afterIsect} {showIds "T" s.afterTop}"

def orderCmd : P String := do
  let ps ← paths; done
  let b := build ps
  if !inScope b then return s!"out {outReason b}"
  let snaps := b.sweep rhe default
  pure (snaps.foldl (fun acc s => acc ++ showSnap s) s!"B {snaps.length}")

def keyPair : P (Nat × Int) := do
  let id ← nat; let x ← int; pure (id, x)

def isectCmd : P String := do
  let k ← nat; let ks ← rep k keyPair; done
  let es : List SEdge := ks.map (fun p => ⟨p.1, ⟨0, 1⟩, ⟨0, 0⟩⟩)
  let cx : SEdge → Int → Int := fun e _ => ((ks.find? (fun p => p.1 == e.id)).map (·.2)).getD 0
  pure (showIds "X" (doIntersections cx 0 es))

def maxAbs (ps : Paths) : Int :=
  ps.foldl (fun m p => p.foldl (fun m q => max m (max q.x.natAbs q.y.natAbs)) m) 0

structure BeamKeys where
  y0 : Int
  y1 : Int
  keys : List (Nat × Int)

def beamKeys : P BeamKeys := do
  let y0 ← int; let y1 ← int; let k ← nat; let ks ← rep k keyPair
  pure ⟨y0, y1, ks⟩

/-- `Near` for one real value -/
def nearOK (e : SEdge) (y c : Int) : Bool :=
  decide (2 * (c * exD e - exN e y) ≤ exD e ∧ -(exD e) ≤ 2 * (c * exD e - exN e y))

def hypCmd : P String := do
  let ps ← paths
  let n ← nat; let beams ← rep n beamKeys; done
  let b := build ps
  -- the real TopX values against the exact x
  let mut checked := 0
  let mut bad : Option String := none
  for bm in beams do
    for (id, c) in bm.keys do
      match b.edges.find? (fun e => e.id == id) with
      | none => bad := bad.orElse (fun _ => some s!"unknown edge {id}")
      | some e =>
        if e.top.y < e.bot.y then
          if e.top.y ≤ bm.y1 ∧ bm.y1 ≤ e.bot.y then
            checked := checked + 1
            if !nearOK e bm.y1 c then
              bad := bad.orElse (fun _ => some s!"edge {id} at y={bm.y1}: TopX={c} exact={exN e bm.y1}/{exD e}")
          else bad := bad.orElse (fun _ => some s!"edge {id} does not reach y={bm.y1}")
  if let some why := bad then
    if maxAbs ps ≤ 16777216 then return s!"FAIL TopX not within 1/2 of the exact x: {why}"
    else return s!"ok notnear {why}"
  if !inScope b then return s!"ok notgp {outReason b}"
  let snaps := b.sweep rhe default
  let crossings := snaps.foldl (fun acc s =>
    acc + (Clipper.Model.BuildIntersectList.buildIntersectList (keyed rhe s.y1 s.inserted)).nodes.length) 0
  pure s!"ok beams={snaps.length} crossings={crossings} topx={checked}"

def handle (cmd : String) : Option (P String) :=
  match cmd with
  | "SWEEPORDER" => some orderCmd
  | "SWEEPISECT" => some isectCmd
  | "SWEEPHYP" => some hypCmd
  | _ => none

end Clipper.Driver.SweepOrder
