/- Driver commands for C16: the scale table and the rounding function of Model/Scale.lean, answered as bit
patterns / integers computed with exact arithmetic (no `Float`). -/
import ClipperVerif.Driver.Proto
import ClipperVerif.Model.Scale
namespace Clipper.Driver.C16
open Clipper Clipper.Proto Clipper.Model.Scale

def handle : String → Option (P String)
  -- SCALE p → bits of the double nearest 10^p, of the ClipperD scale 2^(ilogb(10^p)+1) and of its inverse
  | "SCALE" => some do
      let p ← int; done
      let k := clipperDExp p
      pure s!"{hexOfNat (pow10Bits p) 16} {hexOfNat (pow2Bits k) 16} {hexOfNat (pow2Bits (-k)) 16}"
  -- ROUND bits → static_cast<int64_t>(std::round(x))
  | "ROUND" => some do
      let b ← hex64; done
      match roundDouble b.toNat with
      | some v => pure (toString v)
      | none => pure "NONFINITE"
  -- ILOGB n d → ilogb (n/d)
  | "ILOGB" => some do
      let n ← nat; let d ← nat; done
      pure (toString (ilogbFrac n d))
  | _ => none

end Clipper.Driver.C16
