/- Driver commands for the second half of `RectClip64` (Model/RectClipTidy.lean): `RCTIDY` replays one path through
`ExecuteInternal`, `CheckEdges`, the four `TidyEdges` calls and every `GetPath` call and compares the complete heap
(every field of every `OutPt2`, `results_`, the eight edge lists) after each stage with the dumps taken from the real
object; `RCEXEC` is the whole `RectClip64::Execute` on several paths. -/
import ClipperVerif.Driver.Proto
import ClipperVerif.Driver.C08
import ClipperVerif.Model.RectClipTidy
namespace Clipper.Driver.C08Tidy
open Clipper Clipper.Proto Clipper.Model.RC Clipper.Model.RCT Clipper.Driver.C09

def optTok : Option Nat → String
  | none => "-1"
  | some k => toString k

def listToks (l : List (Option Nat)) : List String := toString l.length :: l.map optTok

/-- every field of every node in creation order, `results_`, `edges_[0..7]` -/
def dumpHeap (h : Heap) : List String :=
  toString h.n ::
    ((List.range h.n).flatMap (fun k =>
      [toString (h.pt k).x, toString (h.pt k).y, toString (h.next k), toString (h.prev k), toString (h.owner k), optTok (h.edge k)]))
    ++ "R" :: listToks h.results
    ++ "E" :: (List.range 8).flatMap (fun e => listToks (h.edges e))

def pathToks (p : Path) : List String := toString p.length :: p.flatMap (fun q => [toString q.x, toString q.y])
def pathsToks (ps : Paths) : List String := toString ps.length :: ps.flatMap pathToks

def showTFault : TFault → String
  | .null => "FAULT null" | .oob => "FAULT oob" | .fuel => "FAULT fuel"

def branchTag : Branch → String
  | .skipCw => "skipCw"
  | .ccwExhausted => "ccwExhausted"
  | .noOverlap => "noOverlap"
  | .splice rj arm first => (if rj then "rejoin" else "split") ++ ".arm" ++ toString arm ++ (if first then "a" else "b")

/-- summary of what the `TidyEdges` loops did: `plain` (no split or rejoin), `split`, `rejoin` or `split+rejoin` -/
def branchClass (bs : List Branch) : String :=
  let sp := bs.any (fun b => match b with | .splice false _ _ => true | _ => false)
  let rj := bs.any (fun b => match b with | .splice true _ _ => true | _ => false)
  if sp && rj then "split+rejoin" else if sp then "split" else if rj then "rejoin" else "plain"

/-- every iteration of the four `TidyEdges` loops, in order (diagnostic command `RCTIDYBR`) -/
def allBranches (r : Rect) (p : Path) : String :=
  match executeInternalF r p with
  | .error _ => "fault"
  | .ok res =>
    match rawHeap pipFloat r p res with
    | .error _ => "fault"
    | .ok h0 =>
      match checkEdges r h0 with
      | .error _ => "fault"
      | .ok h1 =>
        let rec go (k idx : Nat) (h : Heap) (acc : List String) : List String :=
          match k with
          | 0 => acc
          | k + 1 =>
            match tidyEdgesB idx h with
            | .error _ => acc ++ ["fault"]
            | .ok (h', b) => go k (idx + 1) h' (acc ++ b.map branchTag)
        " ".intercalate (go 4 0 h1 [])

/-- the stages of one path: tokens of all dumps in the order the harness takes them, and the branch summary -/
def replay (r : Rect) (p : Path) : List String × String :=
  match executeInternalF r p with
  | .error f => (["A", C08.showFault f], "fault")
  | .ok res =>
    match rawHeap pipFloat r p res with
    | .error f => (["A", showTFault f], "fault")
    | .ok h0 =>
      let t0 := "A" :: dumpHeap h0 ++ ("L" :: toString res.startLocs.length :: res.startLocs.map (fun l => toString l.toNat))
      match checkEdges r h0 with
      | .error f => (t0 ++ ["C", showTFault f], "fault")
      | .ok h1 =>
        let t1 := t0 ++ "C" :: dumpHeap h1
        let rec tidy (k : Nat) (idx : Nat) (h : Heap) (acc : List String) (bs : List Branch) : Except (List String) (Heap × List String × List Branch) :=
          match k with
          | 0 => .ok (h, acc, bs)
          | k + 1 =>
            match tidyEdgesB idx h with
            | .error f => .error (acc ++ ["T" ++ toString idx, showTFault f])
            | .ok (h', b) => tidy k (idx + 1) h' (acc ++ ("T" ++ toString idx) :: dumpHeap h') (bs ++ b)
        match tidy 4 0 h1 t1 [] with
        | .error t => (t, "fault")
        | .ok (h2, t2, bs) =>
          let rec gp (k : Nat) (i : Nat) (h : Heap) (acc : List String) : Except (List String) (List String) :=
            match k with
            | 0 => .ok (acc ++ "H" :: dumpHeap h)
            | k + 1 =>
              match getPath h i with
              | .error f => .error (acc ++ ["G", showTFault f])
              | .ok (q, h') => gp k (i + 1) h' (acc ++ "G" :: pathToks q)
          match gp h2.results.length 0 h2 t2 with
          | .error t => (t, "fault")
          | .ok t3 =>
            match finishPath r h0 with
            | .error f => (t3 ++ ["F", showTFault f], "fault")
            | .ok out => (t3 ++ "F" :: pathsToks out, branchClass bs)

/-- first position at which the token lists differ -/
def firstDiff : Nat → String → List String → List String → Option String
  | _, _, [], [] => none
  | k, st, a :: as, b :: bs =>
    let st' := if a.length > 0 && a.front.isAlpha then a else st
    if a = b then firstDiff (k + 1) st' as bs else some s!"FAIL token {k} (stage {st'}): model {a} code {b}"
  | k, st, a :: _, [] => some s!"FAIL token {k} (stage {st}): model {a} code <end>"
  | k, st, [], b :: _ => some s!"FAIL token {k} (stage {st}): model <end> code {b}"

def handle : String → Option (P String)
  -- RCTIDY rect path <dumps of the real object after every stage> → ok <branch summary> | FAIL first divergence
  | "RCTIDY" => some do
      let r ← rect; let p ← path
      let code ← get
      set ([] : Toks)
      let (toks, cls) := replay r p
      pure (match firstDiff 0 "-" toks code with
        | none => "ok " ++ cls
        | some msg => msg)
  -- RCTIDYDUMP rect path → the model's dumps (for debugging)
  | "RCTIDYDUMP" => some do
      let r ← rect; let p ← path; done
      pure (" ".intercalate (replay r p).1)
  -- RCTIDYBR rect path → the branch taken by every iteration of the four TidyEdges loops (diagnostic)
  | "RCTIDYBR" => some do
      let r ← rect; let p ← path; done
      pure (allBranches r p)
  -- RCEXEC rect paths → RectClip64::Execute(paths)
  | "RCEXEC" => some do
      let r ← rect; let ps ← paths; done
      pure (match executeF r ps with
        | .ok out => showPaths out
        | .error (.auto f) => C08.showFault f
        | .error (.tidy f) => showTFault f)
  | _ => none

end Clipper.Driver.C08Tidy
