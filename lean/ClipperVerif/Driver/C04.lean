/- Driver commands for C04.
Model level: `OWNERS` replays `BuildTree64` on the outrec table the real sweep produced (Model/Owner.lean), with the real
`CleanCollinear`+`BuildPath64` results and the real `Path1InsidePath2` answers as values of the abstract parameters.
`OWNERSLVL` answers the model's `Level()` / `IsHole()` of every placed outrec for the same tables.
`OWNERSHYP` evaluates the decidable versions (Model/OwnerHyp.lean) of the hypotheses of `tree_paths_perm` and
`checkOwners_terminates` on the same tables (rank certificates are computed here, untrusted, and checked by the model's checkers).
Spec level: `TREECHECK` / `TREECHECKD` judge the real PolyTree against the text of property C04 with exact arithmetic. -/
import ClipperVerif.Driver.Proto
import ClipperVerif.Driver.C03
import ClipperVerif.Model.Owner
import ClipperVerif.Model.OwnerHyp
namespace Clipper.Driver.C04
open Clipper Clipper.Proto Clipper.Model.Owner
open Clipper.Driver.C03 (canonPaths pathLt pathLe nestedIn dbl fmtPt pow2)

/-! ### spec level -/

structure TNode where
  parent : Int        -- index into the node list (pre-order), -1 = the root polytree
  isHole : Bool       -- what `PolyPath::IsHole()` answered
  level : Nat         -- what `PolyPath::Level()` answered
  path : Path

def tnode : P TNode := do
  let parent ← int; let h ← bool; let l ← nat; let p ← path
  pure ⟨parent, h, l, p⟩

/-- depth of node `i` (children of the root have depth 1); fuel = number of nodes -/
def depthOf (nodes : Array TNode) : Nat → Nat → Option Nat
  | 0, _ => none
  | f + 1, i =>
    match nodes[i]? with
    | none => none
    | some nd => if nd.parent < 0 then some 1 else (depthOf nodes f nd.parent.toNat).map (· + 1)

/-- exact value of an IEEE double as `m * 2^e` (`none` for inf/nan) -/
def decodeDouble (bits : UInt64) : Option (Int × Int) :=
  let b := bits.toNat
  let sign : Int := if b / 2 ^ 63 = 1 then -1 else 1
  let ex : Nat := (b / 2 ^ 52) % 2048
  let frac : Nat := b % 2 ^ 52
  if ex = 2047 then none
  else if ex = 0 then some (sign * (frac : Int), -1074)
  else some (sign * ((2 ^ 52 + frac : Nat) : Int), (ex : Int) - 1075)

/-- `2 * value = s` exactly? -/
def doubleIsHalfOf (bits : UInt64) (s : Int) : Bool :=
  match decodeDouble bits with
  | none => false
  | some (m, e) =>
    let e1 := e + 1
    if e1 ≥ 0 then m * 2 ^ e1.toNat == s else m == s * 2 ^ (-e1).toNat

def sortOpen (ps : Paths) : Paths := ps.mergeSort pathLe

/-- the part of C04 that holds for every input: same closed path multiset, same open paths, levels/IsHole consistent
with the parent links, area equality -/
def treeBasics (closed opn : Paths) (nodes : Array TNode) (topn : Paths) (areaBits : Option UInt64) (small : Bool) :
    Option String :=
  let tpaths := nodes.toList.map (·.path)
  if canonPaths tpaths != canonPaths closed then
    some s!"tree holds {tpaths.length} closed paths, Paths execution returned {closed.length}: different path sets"
  else if sortOpen topn != sortOpen opn then some "open paths differ between PolyTree and Paths execution"
  else
    let bad := (List.range nodes.size).find? (fun i =>
      match nodes[i]?, depthOf nodes (nodes.size + 1) i with
      | some nd, some d => nd.level != d || nd.isHole != (d % 2 == 0)
      | _, _ => true)
    match bad with
    | some i => some s!"node {i}: Level/IsHole inconsistent with its parent chain"
    | none =>
      let s := shoelace2s tpaths
      if s != shoelace2s closed then some "tree area differs from the paths' area"
      else match areaBits with
        | none => none
        | some bits =>
          if small then
            if doubleIsHalfOf bits s then none else some s!"PolyTree64::Area() is not exactly {s}/2"
          -- beyond 2^25 the library's double shoelace terms are no longer exact (cancellation at large offsets);
          -- the exact integer areas were compared above, the double is not judged
          else none

/-- every vertex of `a` is inside or on `b` -/
def vertsInOrOn (a b : Path) : Bool := a.all (fun v => pipEvenOdd b v != 2)
/-- every vertex of `a` is outside or on `b` -/
def vertsOutOrOn (a b : Path) : Bool := a.all (fun v => pipEvenOdd b v != 1)

/-- the geometric part of C04 (general position / rectilinear with features ≥ 2 apart) -/
def treeGeometry (rev : Bool) (nodes : Array TNode) : Option String :=
  let idx := List.range nodes.size
  let find := idx.findSome? (fun i =>
    match nodes[i]?, depthOf nodes (nodes.size + 1) i with
    | some nd, some d =>
      -- depth parity = orientation sign
      let positive := decide (shoelace2 nd.path > 0)
      if shoelace2 nd.path == 0 then some s!"node {i} has zero area"
      else if positive != ((d % 2 == 1) != rev) then some s!"node {i} at depth {d} has the wrong orientation"
      else
        -- inside its parent
        let inParent : Option String :=
          if nd.parent < 0 then none
          else match nodes[nd.parent.toNat]? with
            | none => some s!"node {i}: dangling parent"
            | some pn =>
              if !vertsInOrOn nd.path pn.path then some s!"node {i}: a vertex lies outside its parent"
              else if nestedIn nd.path pn.path != some true then some s!"node {i}: no boundary point strictly inside its parent"
              else none
        match inParent with
        | some e => some e
        | none =>
          -- outside its siblings
          idx.findSome? (fun j =>
            if j == i then none else
            match nodes[j]? with
            | none => none
            | some sn =>
              if sn.parent != nd.parent then none
              else if !vertsOutOrOn nd.path sn.path then some s!"node {i}: a vertex lies inside its sibling {j}"
              else if nestedIn nd.path sn.path == some true then some s!"node {i} is nested inside its sibling {j}"
              else none)
    | _, _ => some s!"node {i}: bad parent chain")
  find

def cmdTreeCheck : P String := do
  let _ct ← clipType; let _fr ← fillRule; let _pc ← bool; let rev ← bool; let cls ← nat
  let subj ← paths; let clip ← paths; let osubj ← paths
  let closed ← paths; let opn ← paths
  let n ← nat; let nodes ← rep n tnode
  let topn ← paths
  let areaTok ← tok
  done
  let areaBits : Option UInt64 := if areaTok == "-" then none else
    (areaTok.foldl (fun acc c => match acc, hexDigit c with
      | some a, some d => some (a * 16 + d)
      | _, _ => none) (some 0)).map UInt64.ofNat
  let lim := pow2 25
  let small := (subj ++ clip ++ osubj).flatten.all (fun q => decide (q.x.natAbs ≤ lim.toNat) && decide (q.y.natAbs ≤ lim.toNat))
  match treeBasics closed opn nodes.toArray topn areaBits small with
  | some why => pure ("FAIL " ++ why)
  | none =>
    if cls == 0 then pure "ok"
    else match treeGeometry rev nodes.toArray with
      | some why => pure ("FAIL " ++ why)
      | none => pure "ok"

/-! ### PolyTreeD: path sets as bit patterns -/
abbrev DPt := UInt64 × UInt64
def dpt : P DPt := do let x ← hex64; let y ← hex64; pure (x, y)
def dpath : P (List DPt) := do let n ← nat; rep n dpt
def dpaths : P (List (List DPt)) := do let k ← nat; rep k dpath
def dptLt (a b : DPt) : Bool := a.1 < b.1 || (a.1 == b.1 && a.2 < b.2)
def dpathLt : List DPt → List DPt → Bool
  | [], [] => false
  | [], _ :: _ => true
  | _ :: _, [] => false
  | a :: as, b :: bs => if dptLt a b then true else if dptLt b a then false else dpathLt as bs
def dcanon (p : List DPt) : List DPt :=
  ((List.range p.length).map (fun k => p.drop k ++ p.take k)).foldl (fun best r => if dpathLt r best then r else best) p
def dcanonPaths (ps : List (List DPt)) : List (List DPt) := (ps.map dcanon).mergeSort (fun a b => !dpathLt b a)

def cmdTreeCheckD : P String := do
  let closed ← dpaths; let opn ← dpaths; let tclosed ← dpaths; let topn ← dpaths; done
  if dcanonPaths tclosed != dcanonPaths closed then
    pure s!"FAIL PolyTreeD holds {tclosed.length} closed paths, PathsD execution returned {closed.length}: different path sets"
  else if topn.mergeSort (fun a b => !dpathLt b a) != opn.mergeSort (fun a b => !dpathLt b a) then
    pure "FAIL open paths differ between PolyTreeD and PathsD execution"
  else pure "ok"

/-! ### model level -/

def cleanRes : P CleanRes := do
  match (← nat) with
  | 0 => pure .disposed
  | 1 => pure .invalid
  | _ => do let p ← path; pure (.path p)

structure RecIn where
  orec : OutRec
  clean : CleanRes
  openPath : Option Path

def recIn : P RecIn := do
  let owner ← int; let splits ← ints; let isOpen ← bool; let hasPts ← bool
  let cl ← cleanRes
  let hasOpen ← bool
  let op ← if hasOpen then (do let p ← path; pure (some p)) else pure none
  pure ⟨{ owner := if owner < 0 then none else some owner.toNat, splits := splits.map Int.toNat,
          isOpen := isOpen, hasPts := hasPts }, cl, op⟩

/-- index of the outrec whose node has address `a` -/
def ownerOfAddr (T : Table) (a : List Nat) : Int :=
  if a == [] then -1
  else match (List.range T.size).find? (fun j => (T[j]?.bind (·.polypath)) == some a) with
    | some j => j
    | none => -3

structure OwnersIn where
  n : Nat
  T : Table
  clean : Nat → CleanRes
  openPath : Nat → Option Path
  inside : Nat → Nat → Bool

def ownersIn : P OwnersIn := do
  let n ← nat
  let recs ← rep n recIn
  let insideTok ← tok       -- n*n characters '0'/'1', row = child
  done
  let ra := recs.toArray
  let bits := insideTok.toList.toArray
  pure { n := n,
         T := (recs.map (·.orec)).toArray,
         clean := fun i => match ra[i]? with | some r => r.clean | none => .invalid,
         openPath := fun i => match ra[i]? with | some r => r.openPath | none => none,
         inside := fun i j => bits[i * n + j]? == some '1' }

def cmdOwners : P String := do
  let inp ← ownersIn
  let n := inp.n
  match buildTree inp.clean inp.inside inp.openPath (4 * n * n + 64) inp.T with
  | none => pure "OUT-OF-FUEL-OR-FAULT"
  | some S =>
    let per := (List.range n).map (fun i =>
      match S.recs[i]? with
      | none => "?"
      | some r =>
        let own : Int := match r.owner with | some o => o | none => -1
        let par : Int := match r.polypath with
          | none => -2
          | some a => ownerOfAddr S.recs a.dropLast
        s!"{own}:{par}:{if r.hasPts then 1 else 0}")
    pure (String.intercalate " " per ++ " | " ++ showPaths (polyTreeToPaths S.tree) ++ " | " ++ showPaths S.openPaths)

/-- the model's `PolyPath::Level()` and `PolyPath::IsHole()` of the node of every placed outrec -/
def cmdOwnersLvl : P String := do
  let inp ← ownersIn
  let n := inp.n
  match buildTree inp.clean inp.inside inp.openPath (4 * n * n + 64) inp.T with
  | none => pure "OUT-OF-FUEL-OR-FAULT"
  | some S =>
    let per := (List.range n).map (fun i =>
      match S.recs[i]? with
      | none => "?"
      | some r =>
        match r.polypath with
        | none => "-"
        | some a => s!"{level a}:{if isHole a then 1 else 0}")
    pure (String.intercalate " " per)

/-- decidable hypotheses of the C04 theorems on a real table -/
def cmdOwnersHyp : P String := do
  let mode ← tok
  let inp ← ownersIn
  let T := inp.T
  let n := T.size
  match mode with
  | "all" =>
    let bad : List String :=
      (if freshB T then [] else ["fresh"]) ++
      (if ownersInRangeB T then [] else ["ownersInRange"]) ++
      (if splitsInRangeB T then [] else ["splitsInRange"]) ++
      (if ownerRankB T (heights n (ownerSucc T)) then [] else ["acyclic"]) ++
      (if closedWorldB T then [] else ["closedWorld"]) ++
      (if h1B inp.clean T then [] else ["h1"]) ++
      (if splitsRankB inp.clean T (heights n (splitsSuccPL inp.clean T)) then [] else ["splitsWF"])
    pure (if bad.isEmpty then "ok" else "FAIL " ++ String.intercalate " " bad)
  | "splitsacyclic" =>
    pure (if splitsAllRankB T (heights n (splitsSuccAll T)) then "ok" else "FAIL splitsAcyclic")
  | "wfcycle" =>
    if splitsRankB inp.clean T (heights n (splitsSuccPL inp.clean T)) then pure "ok"
    else match findCycle n (splitsSuccPL inp.clean T) with
      | some c => pure (if splitsCycleB inp.clean T c then "FAIL splitsWF" else "UNDECIDED bad cycle certificate")
      | none => pure "UNDECIDED no certificate"
  | _ => pure "BAD-MODE"

def handle : String → Option (P String)
  | "TREECHECK" => some cmdTreeCheck
  | "TREECHECKD" => some cmdTreeCheckD
  | "OWNERS" => some cmdOwners
  | "OWNERSLVL" => some cmdOwnersLvl
  | "OWNERSHYP" => some cmdOwnersHyp
  | _ => none

end Clipper.Driver.C04
