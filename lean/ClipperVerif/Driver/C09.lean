/- Driver commands for C09 (RectClipLines): the hand model with the bit-exact `Float` arithmetic
(model level) and the exact-rational judgement of the property statement (spec level). -/
import ClipperVerif.Driver.Proto
import ClipperVerif.Model.RectClipLines
import ClipperVerif.Model.RectLinesCover
namespace Clipper.Driver.C09
open Clipper Clipper.Proto Clipper.Model.RC

def rect : P Rect := do
  let l ← int; let t ← int; let r ← int; let b ← int
  pure ⟨l, t, r, b⟩

def showOpt : Option Paths → String
  | some ps => showPaths ps
  | none => "FAULT"

/-! ### exact geometry for the spec-level judgement -/

def dot (ax ay bx b_y : Int) : Int := ax * bx + ay * b_y

/-- parameter of the projection of `p` on `a b`, clamped to [0,1] (0 for a degenerate segment) -/
def param (p a b : Pt) : Rat :=
  let len2 := dot (b.x - a.x) (b.y - a.y) (b.x - a.x) (b.y - a.y)
  if len2 = 0 then 0 else
    let t : Rat := (dot (p.x - a.x) (p.y - a.y) (b.x - a.x) (b.y - a.y) : Int) / (len2 : Int)
    if t < 0 then 0 else if t > 1 then 1 else t

def len2 (a b : Pt) : Int := dot (b.x - a.x) (b.y - a.y) (b.x - a.x) (b.y - a.y)

/-- Liang–Barsky: parameter interval of `a b` inside the closed rectangle -/
def clipParams (r : Rect) (a b : Pt) : Option (Rat × Rat) :=
  let dx := b.x - a.x; let dy := b.y - a.y
  -- constraints  p * t ≤ q
  let cons : List (Int × Int) := [(-dx, a.x - r.left), (dx, r.right - a.x), (-dy, a.y - r.top), (dy, r.bottom - a.y)]
  let step (acc : Option (Rat × Rat)) (c : Int × Int) : Option (Rat × Rat) :=
    match acc with
    | none => none
    | some (t0, t1) =>
      let p := c.1; let q := c.2
      if p = 0 then (if q < 0 then none else some (t0, t1))
      else
        let t : Rat := (q : Rat) / (p : Rat)
        if p < 0 then (if t > t1 then none else some (max t0 t, t1))
        else (if t < t0 then none else some (t0, min t1 t))
  cons.foldl step (some (0, 1))

/-- lower / upper bounds of `sqrt q` (error ≤ 2^-20) for a rational `q ≥ 0` -/
def sqrtBounds (q : Rat) : Rat × Rat :=
  if q ≤ 0 then (0, 0) else
  let n := q.num.toNat; let d := q.den
  let s := Nat.sqrt (n * d * 2^40)
  let den : Rat := ((d * 2^20 : Nat) : Rat)
  (((s : Nat) : Rat) / den, (((s + 1 : Nat) : Nat) : Rat) / den)

def alongEdge (r : Rect) (a b : Pt) : Bool :=
  (a.y == b.y && (a.y == r.top || a.y == r.bottom)) || (a.x == b.x && (a.x == r.left || a.x == r.right))

/-- (sure lower bound of mandatory length, sure upper bound of permitted length, crossings) -/
def exactLengths (r : Rect) (poly : Path) : Rat × Rat × Nat :=
  (segsOf poly).foldl (fun (acc : Rat × Rat × Nat) s =>
    match clipParams r s.1 s.2 with
    | none => acc
    | some (t0, t1) =>
      let l2 : Rat := (t1 - t0) * (t1 - t0) * ((len2 s.1 s.2 : Int) : Rat)
      let (lo, hi) := sqrtBounds l2
      let c := (if t0 > 0 then 1 else 0) + (if t1 < 1 then 1 else 0)
      if alongEdge r s.1 s.2 then (acc.1, acc.2.1 + hi, acc.2.2 + c)
      else (acc.1 + lo, acc.2.1 + hi, acc.2.2 + c)) (0, 0, 0)

def near15 (p a b : Pt) : Bool := distSegLe p a b 9 4

/-- can result segment `u v` be laid on input segment `a b` (both ends within 1.5, not reversed by more than 3 units) -/
def fitsSeg (u v a b : Pt) : Bool :=
  near15 u a b && near15 v a b &&
    (let d := dot (v.x - u.x) (v.y - u.y) (b.x - a.x) (b.y - a.y)
     decide (d ≥ 0) || decide (d * d ≤ 9 * len2 a b))

/-- `tprev ≤ t + 3 / |ab|` -/
def notBefore (tprev t : Rat) (a b : Pt) : Bool :=
  let d := tprev - t
  decide (d ≤ 0) || decide (d * d * ((len2 a b : Int) : Rat) ≤ 9)

/-- greedy order-preserving matching of the result segments to the input segments -/
def matchSegs (segs : Array (Pt × Pt)) : List (Pt × Pt) → Nat → Rat → Option (Pt × Pt)
  | [], _, _ => none
  | (u, v) :: rest, k, tprev =>
    let rec find (fuel : Nat) (k' : Nat) : Option (Nat × Rat) :=
      match fuel with
      | 0 => none
      | fuel + 1 =>
        if h : k' < segs.size then
          let s := segs[k']
          if fitsSeg u v s.1 s.2 && (k' > k || notBefore tprev (param u s.1 s.2) s.1 s.2) then
            some (k', param v s.1 s.2)
          else find fuel (k' + 1)
        else none
    match find (segs.size + 1) k with
    | none => some (u, v)
    | some (k', t) => matchSegs segs rest k' t

def linesCheck (r : Rect) (poly : Path) (res : Paths) : String :=
  let verts := res.flatten
  match verts.find? (fun v => !(decide (r.left - 1 ≤ v.x) && decide (v.x ≤ r.right + 1) && decide (r.top - 1 ≤ v.y) && decide (v.y ≤ r.bottom + 1))) with
  | some v => s!"FAIL vertex {v} not inside the rectangle within 1 unit"
  | none =>
  match verts.find? (fun v => !(nearAnySeg [poly] v 9 4)) with
  | some v => s!"FAIL vertex {v} farther than 1.5 from the polyline"
  | none =>
  if poly.length < 2 then (if res.isEmpty then "ok" else "FAIL output for a polyline of fewer than 2 points") else
  let rsegs := (res.map segsOf).flatten
  match matchSegs (segsOf poly).toArray rsegs 0 0 with
  | some (u, v) => s!"FAIL segment {u} -> {v} is not on the polyline in input order and direction"
  | none =>
  let (lmin, lmax, c) := exactLengths r poly
  let (rlo, rhi) := rsegs.foldl (fun (acc : Rat × Rat) s =>
      let (lo, hi) := sqrtBounds ((len2 s.1 s.2 : Int) : Rat); (acc.1 + lo, acc.2 + hi)) (0, 0)
  let tol : Rat := 2 * (c : Nat)
  if rhi < lmin - tol then s!"FAIL length {rhi.floor} below exact inside length {lmin.floor} by more than 2 x {c} crossings"
  else if rlo > lmax + tol then s!"FAIL length {rlo.floor} above exact inside length {lmax.floor} by more than 2 x {c} crossings"
  else "ok"

/-- the hypotheses of the C09 theorems that concern `double` arithmetic, evaluated on this input:
(a) the sign of `CrossProduct(v, e1, e2)` is exact for every path vertex `v` and rectangle edge `e1 e2`;
(b) no `thru1 false` emit (the ignored second `GetIntersection` never fails);
(c) every intersection point lies in the rectangle widened by 1. -/
def linesHyp (r : Rect) (poly : Path) : String :=
  let edges := [(r.c0, r.c3), (r.c0, r.c1), (r.c1, r.c2), (r.c2, r.c3)]
  if poly.any (fun v => edges.any (fun e => floatArith.cross v e.1 e.2 != Int.sign (crossZ v e.1 e.2))) then
    "FAIL inexact sign of an axis-parallel cross product"
  else match emits floatArith r poly with
  | none => "FAIL model fault"
  | some es =>
    if es.any (fun e => e.kind == .thru1 false) then "FAIL lost first crossing of a through segment"
    else
      let R : Rect := ⟨r.left - 1, r.top - 1, r.right + 1, r.bottom + 1⟩
      match es.find? (fun e => !inRect R e.pt) with
      | some e => s!"FAIL emitted point {e.pt} outside the widened rectangle"
      | none => "ok"

/-- The hypothesis and the conclusion of `Props.C09Cover.lines_cover`, evaluated on the run of the `double` model
(= the compiled code, by the `LINES` records) on this input.
Premise: the run with exact cross-product signs and the same `double` intersection points (`hybridArith`, for which
`lines_cover` is proved) makes exactly the same `Add` calls.  Conclusion: the `Add` calls satisfy `Cover` (`coverB`). -/
def linesCover (r : Rect) (poly : Path) : String :=
  if r.isEmpty then "ok skip empty rectangle" else
  if poly.length < 2 then "ok skip fewer than 2 points" else
  let esF := emits floatArith r poly
  let esH := emits hybridArith r poly
  let concl := match esF with
    | some es => coverB floatArith r poly es
    | none => false
  let gp := (if noInnerBoundaryB r poly then "general-position" else "inner-boundary-vertex") ++
    -- hypothesis `IsectExactOn` of `crossing_points_on_boundary` for the real `double` intersection points
    (if isectExactOnB floatArith r poly then ".isect-exact" else ".isect-rounded")
  if esF == esH then
    if concl then s!"ok holds.{gp}" else "FAIL lines_cover contradicted: a sign-exact run does not satisfy Cover"
  else
    if concl then s!"ok not-sign-exact.cover-holds.{gp}"
    else "FAIL Cover violated on a run with a mis-rounded CrossProduct sign"

def handle : String → Option (P String)
  -- LINES rect paths → result paths of the model with double arithmetic
  | "LINES" => some do
      let r ← rect; let ps ← paths; done
      pure (showOpt (rectClipLines floatArith r ps))
  -- LOC rect pt → result loc
  | "LOC" => some do
      let r ← rect; let p ← pt; done
      let g := getLocation r p
      pure s!"{showBool g.1} {g.2.toNat}"
  -- SEGINT p1 p2 p3 p4 → result ipx ipy   (ip starts as 0,0)
  | "SEGINT" => some do
      let p1 ← pt; let p2 ← pt; let p3 ← pt; let p4 ← pt; done
      let s := segIntersection floatArith p1 p2 p3 p4 ⟨0, 0⟩
      pure s!"{showBool s.1} {showPt s.2}"
  -- LINESCHECK rect polyline result
  | "LINESCHECK" => some do
      let r ← rect; let p ← path; let res ← paths; done
      pure (linesCheck r p res)
  -- LINESEXACT rect paths → result paths of the model with exact integer arithmetic (`exactArith`)
  | "LINESEXACT" => some do
      let r ← rect; let ps ← paths; done
      pure (showOpt (rectClipLines exactArith r ps))
  -- LINESCOVER rect polyline → hypothesis and conclusion of `lines_cover` on this run
  | "LINESCOVER" => some do
      let r ← rect; let p ← path; done
      pure (linesCover r p)
  | "LINESHYP" => some do
      let r ← rect; let p ← path; done
      pure (linesHyp r p)
  | _ => none

end Clipper.Driver.C09
