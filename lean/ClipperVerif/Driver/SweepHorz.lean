/- Driver commands for the model of `DoHorizontal` (`Model/SweepHorz.lean`; property C01, theorems `Props/C01Horz.lean`; harness
`harness/C01horz.cpp`).

Token format: `pc` = PreserveCollinear 0/1; `ct`, `fr`, path type as in `Driver/Ael.lean`; an ACTIVE is
    `id bot.x bot.y top.x top.y curr_x vtop isMax   ptype wind_dx wind_cnt wind_cnt2 hot`
(`id` = identity of the `Active` object, `vtop` = identity of `vertex_top`, `isMax` = its `LocalMax` flag, `hot` = `outrec != nullptr ||
join_with != NoJoin`); a RING VERTEX is `vid x y isMax`.

* `HORZCALL pc ct fr hid n ACTIVE*n m VERTEX*m`   (model level, ONE real `DoHorizontal(*e)` call).  The AEL before the call, left to right;
  `hid` = the popped edge; the `m` vertices that follow its `vertex_top` along its bound (one full turn of the ring).  `TopX` is the
  C++ expression evaluated in `Float` (bit-exact).  Reply
      `A k {id bot.x bot.y top.x top.y curr_x vtop}*k E j {I|R pos a b}*j W k {wind_cnt wind_cnt2 hot}*k F fault`
  the AEL after the call; the events (`I pos a b` = `IntersectEdges(a,b); SwapPositionsInAEL(a,b)` with `a` at `pos`; `R pos a b` = the
  maxima pair `a`,`b` at `pos`,`pos+1` deleted), in order; the bookkeeping fields after `Model.run` consumed the events (`W REJECTED` if it
  rejects one); `fault` (0/1).
* `HORZSPEC <the arguments of HORZCALL> A k {id bot.x bot.y top.x top.y curr_x vtop}*k E j {I|R pos a b}*j`   (spec level): the same call with
  the REAL AEL and the REAL events after it.  Decides `CallOK` (direction = direction of the first piece) on the state before the call;
  `ok notgp <first failing hypothesis>` when it fails (the theorems do not apply: vacuous), else requires what
  `doHorizontal_keeps_sorted` proves — the real AEL after the call sorted by `curr_x`, the horizontal's successor (same `Active`, not
  horizontal) standing at the far end of the run or the horizontal gone at a maximum, no other edge moved — and, when `CallGP` holds
  too, what `doHorizontal_events_are_crossings` proves — the real swaps are exactly the edges strictly between the two ends of the run,
  in walk order.  Reply `ok sorted=1 crossings=<n>`, `ok sorted=1 notgp-for-crossings`, or `FAIL …`.
* `SWEEPHORZ pc <subj paths> <clip paths> n STAGE*n`   (model level, whole sweep): the model (`Model/SweepHorzReplay.lean`) derives vertex
  rings, `LocalMax` flags and local minima from the paths ALONE (model of `AddPaths_`), runs the loop of `ExecuteInternal` including both
  horizontal phases, and must reproduce the first `n` REAL stages: `I y k id*k` (AEL after `InsertLocalMinimaIntoAEL(y)`),
  `H hid k id*k j {I|R pos a b}*j` (after ONE `DoHorizontal`: the popped edge — i.e. the order of `sel_` —, the AEL, the events),
  `X y k id*k` (after `DoIntersections(y)`), `T y k id*k` (after `DoTopOfScanbeam(y)`).  Identity of an `Active` = `2 * slot + (wind_dx > 0)`,
  `slot` = array slot of its local minimum's vertex (subject array, then clip array).  Reply `ok stages=<n>` or `FAIL stage <i>: …`.
* `SWEEPHORZHYP pc <subj paths> <clip paths>`   (spec level): decides the hypothesis `SweepPhasesOK` of
  `Props/C01Horz.sweep_with_horizontals_keeps_sorted` (every `DoHorizontal` call of both horizontal phases of every scanline meets
  `CallOK`) on the model sweep of the input: `ok phases-ok stages=<n> calls=<m>` (the theorem applies: every stage is sorted by `curr_x`;
  re-checked on the run), or `ok notgp …` (vacuous).
* `HORZSEL top n {id isHorz}*n` / `HORZSEL ins k {lid lHorz rid rHorz}*k`   (model level): the stack `sel_` (top first) after
  `DoTopOfScanbeam` (the AEL left to right) / after `InsertLocalMinimaIntoAEL` (the local minima in the order they were popped, left and
  right bound).  Reply `S j id*j`.
-/
import ClipperVerif.Driver.Proto
import ClipperVerif.Driver.Ael
import ClipperVerif.Model.SweepHorz
import ClipperVerif.Model.Geom
import ClipperVerif.Model.SweepHorzReplay
namespace Clipper.Driver.SweepHorz
open Clipper Clipper.Proto Clipper.Model Clipper.Model.SweepHorz

/-- C++ `TopX(e, currentY)` in `Float`, statement by statement (`e.dx = GetDx(bot, top)` for a non-horizontal edge) -/
def topXF (e : HEdge) (y : Int) : Int :=
  if y = e.top.y ∨ e.top.x = e.bot.x then e.top.x
  else if y = e.bot.y then e.bot.x
  else
    let dx := i64f (e.top.x - e.bot.x) / i64f (e.top.y - e.bot.y)
    e.bot.x + (Float.toInt64 (rint (dx * i64f (y - e.bot.y)))).toInt

def active : P (HEdge × Edge) := do
  let id ← nat; let bot ← pt; let top ← pt; let cx ← int; let vtop ← nat; let isMax ← bool
  let ptype ← Ael.pathType; let dx ← int; let wc ← int; let wc2 ← int; let hot ← bool
  pure (⟨id, bot, top, cx, vtop, isMax, []⟩, { pt := ptype, isOpen := false, dx := dx, wc := wc, wc2 := wc2, hot := hot })

def vertex : P HV := do
  let id ← nat; let p ← pt; let m ← bool; pure ⟨id, p, m⟩

def showEdge (e : HEdge) : String := s!" {e.id} {e.bot.x} {e.bot.y} {e.top.x} {e.top.y} {e.currX} {e.vtop}"

def showEv : Ev → String
  | .isect pos a b => s!" I {pos} {a} {b}"
  | .removePair pos a b => s!" R {pos} {a} {b}"

def showRes (cfg : Cfg) (l : Ael) (r : Res) : String :=
  let a := r.ael.foldl (fun s e => s ++ showEdge e) s!"A {r.ael.length}"
  let e := r.evs.foldl (fun s v => s ++ showEv v) s!" E {r.evs.length}"
  let w := match runEvents cfg l r.evs with
    | none => " W REJECTED"
    | some l' => l'.foldl (fun s x => s ++ s!" {x.wc} {x.wc2} {showBool x.hot}") s!" W {l'.length}"
  a ++ e ++ w ++ s!" F {showBool r.fault}"

/-- the first hypothesis of `CallOK d` that fails -/
def whyNotOK (d : Bool) (L : List HEdge) (h : HEdge) (R : List HEdge) : String :=
  if ¬ SortedX (zip L h R) then "ael-not-sorted-by-curr_x"
  else if ¬ h.currX = h.bot.x then "curr_x-not-at-bot"
  else if ¬ Leaves h then "flat-ring"
  else if ¬ RunMono d h then "run-not-monotone"
  else if ¬ PairAhead d L h R then "maxima-pair-not-ahead"
  else "?"

structure RealAfter where
  ael : List HEdge
  evs : List Ev

def realAfter : P RealAfter := do
  let t ← tok
  if t != "A" then throw s!"expected A, got {t}"
  let k ← nat
  let ael ← rep k (do
    let id ← nat; let bot ← pt; let top ← pt; let cx ← int; let vtop ← nat
    pure (⟨id, bot, top, cx, vtop, false, []⟩ : HEdge))
  let t ← tok
  if t != "E" then throw s!"expected E, got {t}"
  let j ← nat
  let evs ← rep j (do
    let kind ← tok; let pos ← nat; let a ← nat; let b ← nat
    match kind with
    | "I" => pure (Ev.isect pos a b)
    | "R" => pure (Ev.removePair pos a b)
    | t => throw s!"bad event kind {t}")
  pure ⟨ael, evs⟩

/-- spec-level judgement of one real call against the theorems of `Props/C01Horz.lean` -/
def specCmd : P String := do
  let _pc ← bool; let _ct ← clipType; let _fr ← fillRule; let hid ← nat
  let n ← nat; let acts ← rep n active
  let m ← nat; let ring ← rep m vertex
  let real ← realAfter; done
  let ael := acts.map (fun p => if p.1.id = hid then { p.1 with rest := ring } else p.1)
  match splitAt hid [] ael with
  | none => pure "FAIL the popped edge is not in the AEL"
  | some (L, h, R) =>
    let d := decide (h.bot.x < h.top.x)
    if !decide (CallOK d L h R) then return s!"ok notgp {whyNotOK d L h R}"
    -- doHorizontal_keeps_sorted on the REAL result
    if !decide (SortedX real.ael) then return "FAIL hypotheses CallOK hold but the real AEL after the call is not sorted by curr_x"
    match real.ael.find? (fun e => e.id == hid) with
    | some hf =>
      if hf.currX != runEnd h || hf.bot != ⟨runEnd h, h.top.y⟩ || hf.isHorz then
        return s!"FAIL the successor of the horizontal does not stand at the far end {runEnd h} of the run"
    | none =>
      if (currYMaximaVertex h).isNone then return "FAIL the horizontal left the AEL although its run does not end in a local maximum"
    -- no other edge moved
    let others := fun (l : List HEdge) => (l.filter (fun e => e.id != hid)).map (·.id)
    let gone := match real.evs.getLast? with | some (.removePair _ a b) => [a, b] | _ => []
    if others real.ael != (others ael).filter (fun i => !gone.contains i) then return "FAIL an edge other than the horizontal moved"
    if !decide (CallGP d L h R) then return "ok sorted=1 notgp-for-crossings"
    -- doHorizontal_events_are_crossings on the REAL events
    let X := if d then ael.filter (between d h.currX (runEnd h)) else (ael.filter (between d h.currX (runEnd h))).reverse
    let swapped := real.evs.filterMap (fun e => match e with | .isect _ a b => some (if a = hid then b else a) | _ => none)
    if swapped != X.map (·.id) then
      return s!"FAIL swapped edges {swapped} are not the edges strictly between {h.currX} and {runEnd h}: {X.map (·.id)}"
    pure s!"ok sorted=1 crossings={X.length}"

def callCmd : P String := do
  let pc ← bool; let ct ← clipType; let fr ← fillRule; let hid ← nat
  let n ← nat; let acts ← rep n active
  let m ← nat; let ring ← rep m vertex; done
  let ael := acts.map (fun p => if p.1.id = hid then { p.1 with rest := ring } else p.1)
  pure (showRes ⟨ct, fr⟩ (acts.map (·.2)) (doHorizontal pc topXF ael hid))

/-- an edge of which only identity and `IsHorizontal` matter -/
def stub (id : Nat) (h : Bool) : HEdge := ⟨id, ⟨0, 0⟩, ⟨0, if h then 0 else -1⟩, 0, 0, false, []⟩

def selCmd : P String := do
  let kind ← tok
  let ids ← match kind with
    | "top" => do
        let n ← nat
        let es ← rep n (do let id ← nat; let h ← bool; pure (stub id h))
        pure (selAfterTop es)
    | "ins" => do
        let k ← nat
        let ms ← rep k (do let l ← nat; let lh ← bool; let r ← nat; let rh ← bool; pure (stub l lh, stub r rh))
        pure (selAfterInsert ms)
    | t => throw s!"bad HORZSEL kind '{t}'"
  done
  pure (ids.foldl (fun s i => s ++ s!" {i}") s!"S {ids.length}")

/-- `left.dx < right.dx` of `InsertLocalMinimaIntoAEL` for two non-horizontal edges, `dx = GetDx(bot, top)` in `Float` -/
def dxLtF (l r : HEdge) : Bool :=
  let dx (e : HEdge) : Float := i64f (e.top.x - e.bot.x) / i64f (e.top.y - e.bot.y)
  dx l < dx r

open Clipper.Model.SweepHorzReplay in
def stage : P Stage := do
  let kind ← tok
  match kind with
  | "I" => do let y ← int; let k ← nat; let ids ← rep k nat; pure (.ins y ids)
  | "X" => do let y ← int; let k ← nat; let ids ← rep k nat; pure (.isect y ids)
  | "T" => do let y ← int; let k ← nat; let ids ← rep k nat; pure (.top y ids)
  | "H" => do
      let hid ← nat; let k ← nat; let ids ← rep k nat
      let j ← nat
      let evs ← rep j (do
        let kind ← tok; let pos ← nat; let a ← nat; let b ← nat
        match kind with
        | "I" => pure (Ev.isect pos a b)
        | "R" => pure (Ev.removePair pos a b)
        | t => throw s!"bad event kind {t}")
      pure (.horz hid ids evs)
  | t => throw s!"bad stage kind '{t}'"

open Clipper.Model.SweepHorzReplay in
def showStage : Stage → String
  | .ins y a => s!"I {y} {a}"
  | .isect y a => s!"X {y} {a}"
  | .top y a => s!"T {y} {a}"
  | .horz h a e => s!"H {h} {a} {e.map showEv}"

open Clipper.Model.SweepHorzReplay in
/-- whole sweep from the paths alone against the real stages (a prefix of the sweep: the harness cuts at the first join) -/
def sweepCmd : P String := do
  let pc ← bool; let subj ← paths; let clip ← paths
  let n ← nat; let real ← rep n stage; done
  let model := replay pc topXF dxLtF subj clip
  let rec cmp (i : Nat) : List Stage → List Stage → String
    | [], _ => s!"ok stages={n}"
    | r :: _, [] => s!"FAIL stage {i}: the model sweep has ended, real {showStage r}"
    | r :: rs, m :: ms => if r = m then cmp (i + 1) rs ms else s!"FAIL stage {i}: model {showStage m} real {showStage r}"
  pure (cmp 0 real model)

open Clipper.Model.SweepHorzReplay in
/-- decides the hypothesis `SweepPhasesOK` of `sweep_with_horizontals_keeps_sorted` for an input and cross-checks its conclusion on the
model run (every stage sorted by `curr_x`) -/
def sweepHypCmd : P String := do
  let pc ← bool; let subj ← paths; let clip ← paths; done
  let inp := build subj clip
  let ms := allMins dxLtF inp.lms
  let stages := sweepX pc topXF (infoOf ms) (minsOf ms) [] inp.ys
  let ncalls := (stages.filter (fun st => match st with | .horz .. => true | _ => false)).length
  if !decide (SweepPhasesOK pc topXF (infoOf ms) (minsOf ms) [] inp.ys) then
    return s!"ok notgp some-call-without-CallOK calls={ncalls}"
  if !stages.all (fun st => decide (SortedX st.ael)) then
    return "FAIL SweepPhasesOK holds but a stage of the model sweep is not sorted by curr_x"
  pure s!"ok phases-ok stages={stages.length} calls={ncalls}"

def handle (cmd : String) : Option (P String) :=
  match cmd with
  | "HORZCALL" => some callCmd
  | "HORZSPEC" => some specCmd
  | "HORZSEL" => some selCmd
  | "SWEEPHORZ" => some sweepCmd
  | "SWEEPHORZHYP" => some sweepHypCmd
  | _ => none

end Clipper.Driver.SweepHorz
