/-
Driver commands for the join decisions (`Model/JoinCond.lean`).

JOINDECIDE side ccx far  e  hasNb nb  ptx pty je jn      ->   `act joinE joinNb`
    model level: the real `ClipperBase::CheckJoinLeft` (`side` = 0) / `CheckJoinRight` (1) is called on two hand-built `Active`s with
    hand-built output records; `far` is the library's own `PerpendicDistFromLineSqrd(pt, nb.bot, nb.top)` compared with the threshold of
    that side.  An edge is `hot isOpen botx boty topx topy currx idx`; `act` is `none`, `same` (AddLocalMaxPoly), `keepE`
    (JoinOutrecPaths(e, nb)) or `keepNb` (JoinOutrecPaths(nb, e)); `join_with` values are 0 = NoJoin, 1 = Left, 2 = Right.
JOINCOND  l  r  jl jr  n (kind ptx pty farL farR)*       ->   `ok` | `FAIL why`
    spec level: one `kJoin` event of a real sweep, judged after the fact (`Model.JoinCond.judge`): `l`, `r` = the joined pair as the hook
    sees it (same edge format, `idx` = 0), `jl`, `jr` their `join_with`, then the candidate `pt`s: kind 0 = `bot` of one of the two
    edges, 1 = `node.pt` of the `IntersectEdges` just before, 2 = the `pt` of `DoHorizontal`.
-/
import ClipperVerif.Driver.Proto
import ClipperVerif.Model.JoinCond
namespace Clipper.Driver.JoinCond
open Clipper Clipper.Proto Clipper.Model.JoinCond

def edge : P JEdge := do
  let hot ← bool; let io ← bool; let bot ← pt; let top ← pt; let cx ← int; let idx ← nat
  pure ⟨hot, io, bot, top, cx, idx⟩

def joinWith : P JoinWith := do
  match ← nat with
  | 0 => pure .noJoin
  | 1 => pure .left
  | 2 => pure .right
  | k => throw s!"bad join_with {k}"

def showJoin : JoinWith → String
  | .noJoin => "0"
  | .left => "1"
  | .right => "2"

def showAct : Decision → String
  | .none => "none"
  | .sameRecordClose => "same"
  | .joinInto .e .nb => "keepE"
  | .joinInto .nb .e => "keepNb"
  | .joinInto _ _ => "invalid"

def cand : P Cand := do
  let k ← nat; let p ← pt; let fl ← bool; let fr ← bool
  match k with
  | 0 => pure ⟨.botOfE, p, fl, fr⟩
  | 1 => pure ⟨.nodePt, p, fl, fr⟩
  | 2 => pure ⟨.horzPt, p, fl, fr⟩
  | _ => throw s!"bad candidate kind {k}"

def handle : String → Option (P String)
  | "JOINDECIDE" => some do
      let side ← nat; let ccx ← bool; let far ← bool
      let e ← edge; let hasNb ← bool; let nb ← edge; let p ← pt; let je ← joinWith; let jn ← joinWith; done
      let nbo := if hasNb then some nb else none
      let o := if side = 0 then joinLeftDecision ccx far e nbo p je jn else joinRightDecision ccx far e nbo p je jn
      pure s!"{showAct o.act} {showJoin o.joinE} {showJoin o.joinNb}"
  | "JOINCOND" => some do
      let l ← edge; let r ← edge; let jl ← joinWith; let jr ← joinWith
      let n ← nat; let cs ← rep n cand; done
      match judge l r jl jr cs with
      | none => pure "ok"
      | some why => pure s!"FAIL {why}"
  | _ => none

end Clipper.Driver.JoinCond
