/- Driver commands for C06 (spec level): the real result of a polygon offset is judged by
`Clipper.Offset.judgePoly` (exact rational arithmetic). -/
import ClipperVerif.Driver.Proto
import ClipperVerif.Spec.Offset
namespace Clipper.Driver.C06
open Clipper Clipper.Proto Clipper.Offset

/-- a rational travels as `num den` -/
def rat : P Rat := do
  let n ← int; let d ← nat
  if d == 0 then throw "zero denominator" else pure (mkRat n d)

def joinType : P JoinType := do
  match (← nat) with
  | 0 => pure .square | 1 => pure .bevel | 2 => pure .round | 3 => pure .miter
  | n => throw s!"bad join type {n}"

def endType : P EndType := do
  match (← nat) with
  | 0 => pure .polygon | 1 => pure .joined | 2 => pure .butt | 3 => pure .square | 4 => pure .round
  | n => throw s!"bad end type {n}"

def verdict : Option String → String
  | none => "ok"
  | some e => "FAIL " ++ e

def handle : String → Option (P String)
  -- OFFSETCHECK jt δ ml arc rev input result k probes
  | "OFFSETCHECK" => some do
      let jt ← joinType; let delta ← rat; let ml ← rat; let arc ← rat; let rev ← bool
      let input ← paths; let result ← paths
      let k ← nat; let probes ← rep k pt; done
      pure (verdict (judgePoly ⟨jt, delta, ml, arc, rev, input, result⟩ probes))
  -- OFFSETCOUNT (same arguments): "mustIn mustOut inBand" numbers of probes, for the evidence file
  | "OFFSETCOUNT" => some do
      let jt ← joinType; let delta ← rat; let ml ← rat; let arc ← rat; let rev ← bool
      let input ← paths; let result ← paths
      let k ← nat; let probes ← rep k pt; done
      let (a, b, n) := countPoly ⟨jt, delta, ml, arc, rev, input, result⟩ probes
      pure s!"{a} {b} {n}"
  | _ => none

end Clipper.Driver.C06
