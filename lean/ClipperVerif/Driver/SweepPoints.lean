/- Driver command for the exact output rings (`Model/SweepPoints.lean`, theorems `Props/C01Output.lean`, harness `harness/C01output.cpp`).

* `SWEEPRINGS ct fr <subj paths> <clip paths> m (stat n (x y)*n)*m`   (spec level).  The records are the REAL closed output records at the end of
  the sweep (before `CleanCollinear` / `BuildPath`), by rank: `stat` 0 = emptied by `JoinOutrecPaths` (`pts == nullptr`), 1 = still owned by
  edges, 2 = finished; the points from `outrec->pts` following `->prev` (the order of `harness/aelrings.h`).
  The Lean side derives the event data from the paths ALONE (`build`), decides the hypotheses of `Props/C01Output` (`Built.Hyp`, `Built.HypR`,
  `DenOK` for `D = sweepDen`), decorates the derived events with the EXACT points (`sweepEventsP`), runs the ring model `runR` along them
  (never rejected: `sweepEventsP_accepted`) and compares the real rings with the model's exact rings:
    - STRUCTURE: same number of records, record by record the same state, and for every finished record the real ring is the model's ring up to
      duplicate suppression: a monotone cyclic map of the model's vertices onto the real vertices (a real vertex may stand for several consecutive
      model vertices that round to the same point) — with every real vertex within ONE UNIT (Chebyshev distance, exact rational comparison
      `|D·r − m| ≤ D` in both coordinates) of the model vertices mapped to it;
      the finished rings are compared as a multiset (`match-renumbered` when the record numbers differ: rounding can exchange two independent
      crossings of a scanbeam whose rounded heights coincide);
    - when the structures differ (rounding can make two crossing points coincide or exchange two nearby crossings on ONE edge, e.g. a triangle of
      three mutually crossing edges smaller than a unit, which the engine then sweeps with the opposite orientation: legitimate; the real
      sweep may then carry a degenerate ring the exact sweep does not have, or lack a sub-unit ring the exact sweep has), the DISTANCE bound alone
      is judged: every real vertex is within one unit of a vertex of the exact rings, or within √2 (Euclidean, `Spec.distSegLe`) of one of their
      sides (`far`), or at least within one unit of an input vertex or of the exact crossing point of two input edges (`stray`; `FAIL` otherwise);
      exact vertices without a real counterpart are counted (`far` / `stray`), not judged;
    - REGION (the statement of `output_region`, evaluated): at probe points on the mid-height scanline of every scanbeam — between consecutive
      edges, left and right of all — not on an edge and not at a crossing height: the winding number of the model's EXACT rings around the probe
      (rings read in the order of `BuildPath64`, i.e. following `->next`) is `+1` or `0`, and it is `≠ 0` iff `inR ct fr (wind subj p) (wind clip p)`.
  Reply `ok notgp <why>` (hypotheses fail: vacuous), `ok match …` / `ok match-renumbered …` / `ok structure-differs …` with counts (`half` = real vertices within 1/2
  unit of an exact vertex, `unit` = within one unit, `far` = judged against the sides, `probes` judged, `bottomup` = the decorated event list is `ySorted`: always 1 in scope, by `sweepEventsP_bottom_up`), or `FAIL …` (distance bound, region, or the model
  rejected its own events). -/
import ClipperVerif.Driver.Proto
import ClipperVerif.Driver.SweepEvents
import ClipperVerif.Model.SweepPoints
namespace Clipper.Driver.SweepPoints
open Clipper Clipper.Proto Clipper.Model Clipper.Model.SweepOrder Clipper.Model.SweepEvents Clipper.Model.SweepPoints

structure RealRing where
  stat : Nat
  pts : List Pt

def realRing : P RealRing := do
  let st ← nat; let n ← nat; let ps ← rep n pt; pure ⟨st, ps⟩

/-- `|D·r − m| ≤ D·num/den` in both coordinates -/
def within (D num den : Int) (m r : Pt) : Bool :=
  decide ((D * r.x - m.x).natAbs * den ≤ D * num) && decide ((D * r.y - m.y).natAbs * den ≤ D * num)

/-- a monotone map of the model vertices `M` (in order) onto the real vertices `R` starting at `R[0]`, ending at the last real vertex or back at
the first one; `reach[j]` = the current model vertex can be mapped to `R[j mod |R|]` -/
def alignLinear (near : Pt → Pt → Bool) (M : List Pt) (R : Array Pt) : Bool :=
  let b := R.size
  if b = 0 then M.isEmpty else
  match M with
  | [] => false
  | m0 :: ms =>
    let init : Array Bool := (Array.range (b + 1)).map (fun j => j == 0 && near m0 R[0]!)
    let fin := ms.foldl (fun (reach : Array Bool) m =>
      (Array.range (b + 1)).map (fun j => near m R[j % b]! && (reach[j]! || (j > 0 && reach[j - 1]!)))) init
    fin[b - 1]! || fin[b]!

def rotations (R : List Pt) : List (List Pt) := (List.range R.length).map (fun k => R.rotateLeft k)

/-- the real ring is the model ring up to duplicate suppression, every vertex within one unit -/
def alignCyclic (D : Int) (M R : List Pt) : Bool :=
  if R.length > M.length then false
  else (rotations R).any (fun R' => alignLinear (within D 1 1) M R'.toArray)

/-- the real vertex `r` is within one unit (both coordinates) of the rational point `q` -/
def nearQ (q : QPt) (r : Pt) : Bool :=
  decide (0 < q.d) && decide ((q.d * r.x - q.xn).natAbs ≤ q.d) && decide ((q.d * r.y - q.yn).natAbs ≤ q.d)

/-- … of an input vertex or of the exact crossing point of two input edges (on both closed segments) -/
def nearSomeEvent (edges : List GEdge) (r : Pt) : Bool :=
  edges.any (fun e => nearQ ⟨e.bot.x, e.bot.y, 1⟩ r || nearQ ⟨e.top.x, e.top.y, 1⟩ r) ||
  edges.any (fun a => edges.any (fun b => a.id < b.id && det a b != 0 &&
    (let q := crossQ a b; decide (OnQ a q) && decide (OnQ b q) && nearQ q r)))

def statOf : RStat → Nat
  | .gone => 0 | .live => 1 | .done => 2

/-- probe points `(xn/4, yn/4)` on the mid-height scanline of a scanbeam: between consecutive edges, left and right of all -/
def probesOf (s : Snap) : List (Int × Int × Int) :=
  let yn := 2 * (s.y0 + s.y1)      -- height (y0+y1)/2 = yn/4
  let yd : Int := 4
  -- approximate x of each edge at that height, in quarters (floor): only used to PLACE the probes
  let xs := s.inserted.map (fun e => (4 * e.bot.x * (e.bot.y - e.top.y) * yd + 4 * (e.top.x - e.bot.x) * (e.bot.y * yd - yn)) / ((e.bot.y - e.top.y) * yd))
  let sorted := stableSort (fun a b => decide (a ≤ b)) xs
  match sorted with
  | [] => []
  | x0 :: _ =>
    let mids := (sorted.zip (sorted.drop 1)).map (fun p => (p.1 + p.2) / 2)
    ((x0 - 9) :: (sorted.getLast?.getD x0 + 7) :: mids).map (fun xn => (xn, yn, yd))

def ringsCmd : P String := do
  let ct ← clipType; let fr ← fillRule; let subj ← paths; let clip ← paths
  let m ← nat; let real ← rep m realRing; done
  let b := build (subj ++ clip)
  let lab := labOf subj clip
  if let some why := SweepEvents.outOfScope b lab then return s!"ok notgp {why}"
  let dens := sweepDens SweepOrder.validR rhe b.next b.mins b.ys
  if dens.any (· == 0) then return "ok notgp parallel-crossing"
  let D := lcmList dens
  if !decide (DenOK D dens) then return "FAIL sweepDen is not a common denominator"
  let evs := sweepEventsP D SweepOrder.validR rhe b.next b.mins lab b.ys
  match runR ⟨ct, fr⟩ RState.empty evs with
  | .error _ => pure "FAIL the ring model rejected the decorated events"
  | .ok rs =>
    -- hypothesis `rs.s.ael = []` of `Props/C01Crown.output_region` / `c01_model_level`
    if !rs.s.ael.isEmpty then return "FAIL the exact sweep ends with a non-empty AEL (hypothesis of Props/C01Crown.output_region)"
    let model := rs.o.rings
    let bottomup := ySorted evs
    -- (1) structure: the finished rings as a multiset (rounding may exchange two crossings of one scanbeam that are processed independently,
    -- which renumbers the records), then record by record
    let mdone := (model.filter (fun g => g.stat == .done)).map (·.pts)
    let rdone := (real.filter (fun r => r.stat == 2)).map (·.pts)
    let mut structural := mdone.length == rdone.length && !real.any (fun r => r.stat == 1)
    if structural then
      let mut unused := mdone
      for r in rdone do
        match unused.find? (fun g => alignCyclic D g r) with
        | some g => unused := unused.erase g
        | none => structural := false
    let sameOrder := structural && model.length == real.length &&
      (model.zip real).all (fun (g, r) => statOf g.stat == r.stat && (g.stat != .done || alignCyclic D g.pts r.pts))
    -- (2) distances
    let mpts := allPts model
    let rpts := real.flatMap (·.pts)
    let msegs := mdone.flatMap cycPairs
    let rsegs := rdone.flatMap (fun r => cycPairs (r.map (Pt.scale D)))
    let mut half := 0
    let mut unit := 0
    let mut far := 0
    let mut stray := 0
    for r in rpts do
      if mpts.any (fun mp => within D 1 2 mp r) then half := half + 1
      else if mpts.any (fun mp => within D 1 1 mp r) then unit := unit + 1
      else if structural then
        return s!"FAIL real vertex ({r.x},{r.y}) is more than one unit away from every vertex of the exact rings (D={D})"
      else if msegs.any (fun sg => distSegLe (Pt.scale D r) sg.1 sg.2 (2 * D * D) 1) then far := far + 1
      else if nearSomeEvent b.edges r then stray := stray + 1
      else return s!"FAIL real vertex ({r.x},{r.y}) is more than one unit away from every input vertex and every crossing point of two input edges"
    for mp in mpts do
      if !rpts.any (fun r => within D 1 1 mp r) then
        if structural then
          return s!"FAIL exact vertex ({mp.x}/{D},{mp.y}/{D}) has no real vertex within one unit"
        else if rsegs.any (fun sg => distSegLe mp sg.1 sg.2 (2 * D * D) 1) then far := far + 1
        else stray := stray + 1
    -- (3) region of the exact rings
    let out : Paths := (finishedRings rs).map List.reverse      -- the order of BuildPath64: following ->next
    let snaps := b.sweep rhe default
    let mut probes := 0
    for s in snaps do
      for (xn, yn, yd) in probesOf s do
        -- skip probes on an edge or at the height of a crossing / a ring vertex
        if s.inserted.any (fun e => decide (onEdgeLine e xn yn yd)) then continue
        if mpts.any (fun mp => mp.y * yd == yn * D) then continue
        let w := wind (out.map (fun p => p.map (Pt.scale yd))) ⟨xn * D, yn * D⟩
        let want := inR ct fr (windQ subj xn yn yd) (windQ clip xn yn yd)
        probes := probes + 1
        if !(w == 0 || w == 1) then
          return s!"FAIL winding number {w} of the exact rings around ({xn}/{yd},{yn}/{yd})"
        if (w != 0) != want then
          return s!"FAIL region: winding number {w} of the exact rings around ({xn}/{yd},{yn}/{yd}), inR = {want}"
    let tag := if sameOrder then "match" else if structural then "match-renumbered" else "structure-differs"
    pure s!"ok {tag} rings={mdone.length} half={half} unit={unit} far={far} stray={stray} probes={probes} bottomup={if bottomup then 1 else 0} crossings={dens.length}"

def handle (cmd : String) : Option (P String) :=
  match cmd with
  | "SWEEPRINGS" => some ringsCmd
  | _ => none

end Clipper.Driver.SweepPoints
