import ClipperVerif.Driver.Basic
import ClipperVerif.Driver.C18
import ClipperVerif.Driver.Region
namespace Clipper.Driver
open Clipper.Proto

def handlers : List (String → Option (P String)) := [
  Basic.handle,
  C18.handle,
  Region.handle
]

def dispatch (cmd : String) : Option (P String) :=
  handlers.findSome? (fun h => h cmd)

end Clipper.Driver
