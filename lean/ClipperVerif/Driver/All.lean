import ClipperVerif.Driver.Basic
import ClipperVerif.Driver.C18
import ClipperVerif.Driver.C18Geom
import ClipperVerif.Driver.Region
import ClipperVerif.Driver.C05
import ClipperVerif.Driver.C02
import ClipperVerif.Driver.Ael
import ClipperVerif.Driver.AelSides
import ClipperVerif.Driver.C11
import ClipperVerif.Driver.C06
import ClipperVerif.Driver.C07
import ClipperVerif.Driver.OffsetFrame
import ClipperVerif.Driver.C17
import ClipperVerif.Driver.C20
import ClipperVerif.Driver.C15
import ClipperVerif.Driver.C09
import ClipperVerif.Driver.C08
import ClipperVerif.Driver.C19
import ClipperVerif.Driver.C16
import ClipperVerif.Driver.C03
import ClipperVerif.Driver.C04
import ClipperVerif.Driver.C12
import ClipperVerif.Driver.AddPaths
import ClipperVerif.Driver.C10Isect
import ClipperVerif.Driver.AelOrder
import ClipperVerif.Driver.SweepOrder
import ClipperVerif.Driver.AelRings
import ClipperVerif.Driver.C06Joins
import ClipperVerif.Driver.TrimHorz
import ClipperVerif.Driver.AelOpenRings
import ClipperVerif.Driver.HorzJoins
import ClipperVerif.Driver.C08Tidy
import ClipperVerif.Driver.SweepEvents
import ClipperVerif.Driver.AelRingsZ
import ClipperVerif.Driver.AelOpenRingsZ
import ClipperVerif.Driver.SweepPoints
import ClipperVerif.Driver.SweepHorz
import ClipperVerif.Driver.JoinCond
namespace Clipper.Driver
open Clipper.Proto

def handlers : List (String → Option (P String)) := [
  Basic.handle,
  C18.handle,
  C18Geom.handle,
  Region.handle,
  C05.handle,
  C02.handle,
  Ael.handle,
  AelSides.handle,
  C11.handle,
  C06.handle,
  C07.handle,
  OffsetFrame.handle,
  C17.handle,
  C20.handle,
  C15.handle,
  C09.handle,
  C08.handle,
  C19.handle,
  C16.handle,
  C03.handle,
  C04.handle,
  C12.handle,
  AddPaths.handle,
  C10Isect.handle,
  AelOrder.handle,
  SweepOrder.handle,
  AelRings.handle,
  C06Joins.handle,
  TrimHorz.handle,
  AelOpenRings.handle,
  HorzJoins.handle,
  C08Tidy.handle,
  JoinCond.handle,
  SweepEvents.handle,
  AelRingsZ.handle,
  AelOpenRingsZ.handle,
  SweepPoints.handle,
  SweepHorz.handle
]

def dispatch1 (cmd : String) : Option (P String) :=
  handlers.findSome? (fun h => h cmd)

/-- `IFGP closedA closedB open <command …>` : run the inner command only if the closed paths `closedA ++ closedB`
together with the open polylines are in general position (C01's premise, exact); otherwise answer `ok notgp …`. -/
def ifGp : P String := do
  let a ← paths; let b ← paths; let o ← paths
  if let some why := Region.notGeneralPositionG (a ++ b) o then
    set ([] : Toks)
    return s!"ok notgp {why}"
  match (← get) with
  | [] => throw "IFGP without inner command"
  | cmd :: rest =>
    set rest
    match dispatch1 cmd with
    | some p => p
    | none => throw s!"unknown inner command {cmd}"

def dispatch (cmd : String) : Option (P String) :=
  if cmd = "IFGP" then some ifGp else dispatch1 cmd

end Clipper.Driver
