import ClipperVerif.Driver.Basic
namespace Clipper.Driver
open Clipper.Proto

def handlers : List (String → Option (P String)) := [
  Basic.handle
]

def dispatch (cmd : String) : Option (P String) :=
  handlers.findSome? (fun h => h cmd)

end Clipper.Driver
