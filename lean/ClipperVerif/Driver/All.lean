import ClipperVerif.Driver.Basic
import ClipperVerif.Driver.C18
import ClipperVerif.Driver.C18Geom
import ClipperVerif.Driver.Region
import ClipperVerif.Driver.C05
import ClipperVerif.Driver.C02
import ClipperVerif.Driver.Ael
import ClipperVerif.Driver.C11
import ClipperVerif.Driver.C06
import ClipperVerif.Driver.C07
import ClipperVerif.Driver.OffsetFrame
import ClipperVerif.Driver.C17
import ClipperVerif.Driver.C20
namespace Clipper.Driver
open Clipper.Proto

def handlers : List (String → Option (P String)) := [
  Basic.handle,
  C18.handle,
  C18Geom.handle,
  Region.handle,
  C05.handle,
  C02.handle,
  Ael.handle,
  C11.handle,
  C06.handle,
  C07.handle,
  OffsetFrame.handle,
  C17.handle,
  C20.handle
]

def dispatch (cmd : String) : Option (P String) :=
  handlers.findSome? (fun h => h cmd)

end Clipper.Driver
