/- Driver commands for C18: the generated predicates (model level) and their exact big-integer
specification (spec level). -/
import ClipperVerif.Driver.Proto
import ClipperVerif.Generated.Core
import ClipperVerif.Generated.Portable
namespace Clipper.Driver.C18
open Clipper Clipper.Proto Clipper.Gen

def u64 : P UInt64 := do
  let n ← nat
  if n ≥ 2^64 then throw "u64 out of range" else pure (UInt64.ofNat n)

def six : P (Int × Int × Int × Int × Int × Int) := do
  let a ← int; let b ← int; let c ← int; let d ← int; let e ← int; let f ← int
  pure (a, b, c, d, e, f)

def okIf (b : Bool) (msg : String) : String := if b then "ok" else "FAIL " ++ msg

def handle : String → Option (P String)
  | "MUL" => some do
      let a ← u64; let b ← u64; done
      let r := Multiply a b
      pure s!"{r.1.toNat} {r.2.toNat}"
  | "MULP" => some do
      let a ← u64; let b ← u64; done
      let r := Portable.Multiply a b
      pure s!"{r.1.toNat} {r.2.toNat}"
  | "PAE" => some do
      let a ← int; let b ← int; let c ← int; let d ← int; done
      pure (showBool (ProductsAreEqual a b c d))
  | "PAEP" => some do
      let a ← int; let b ← int; let c ← int; let d ← int; done
      pure (showBool (Portable.ProductsAreEqual a b c d))
  -- CPS x1 y1 x2 y2 x3 y3
  | "CPS" => some do
      let (x1, y1, x2, y2, x3, y3) ← six; done
      pure (toString (CrossProductSign x1 y1 x2 y2 x3 y3))
  | "CPSP" => some do
      let (x1, y1, x2, y2, x3, y3) ← six; done
      pure (toString (Portable.CrossProductSign x1 y1 x2 y2 x3 y3))
  -- COL pt1 shared pt2  (C++ argument order)
  | "COL" => some do
      let (x1, y1, sx, sy, x2, y2) ← six; done
      pure (showBool (IsCollinear x1 y1 x2 y2 sx sy))
  | "COLP" => some do
      let (x1, y1, sx, sy, x2, y2) ← six; done
      pure (showBool (Portable.IsCollinear x1 y1 x2 y2 sx sy))
  | "TRISIGN" => some do let x ← int; done; pure (toString (TriSign x))
  | "GETSIGN" => some do let x ← int; done; pure (toString (GetSign x))
  -- spec level: judge results of the real code with unbounded integers
  | "SPEC_MUL" => some do
      let a ← nat; let b ← nat; let lo ← nat; let hi ← nat; done
      pure (okIf (hi * 2^64 + lo == a * b) s!"{a}*{b} = {a*b}")
  | "SPEC_PAE" => some do
      let a ← int; let b ← int; let c ← int; let d ← int; let r ← bool; done
      pure (okIf (r == decide (a * b = c * d)) "products")
  | "SPEC_CPS" => some do
      let (x1, y1, x2, y2, x3, y3) ← six; let r ← int; done
      let v := Int.sign ((x2 - x1) * (y3 - y2) - (y2 - y1) * (x3 - x2))
      pure (okIf (r == v) s!"sign {v}")
  | "SPEC_COL" => some do
      let (x1, y1, sx, sy, x2, y2) ← six; let r ← bool; done
      pure (okIf (r == decide ((sx - x1) * (y2 - sy) = (sy - y1) * (x2 - sx))) "collinear")
  | _ => none

end Clipper.Driver.C18
