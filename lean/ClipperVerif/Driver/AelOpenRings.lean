/-
Driver commands for the open-path assembly model (`Model/AelOpenRings.lean`; property C05).

Tokens as in `Driver/AelRings.lean`.  An *op* is
  `U i x y` | `IP pos pt isOpen dxLeft x y` | `I1 pos pt dx x y` | `X i x y` | `XL i x y e3` | `RP i x y` | `R1 i x y` | `J i x y` | `SP i x y`
(`XL` = `X` with `pt == edge_o->local_min->vertex->pt && !IsOpenEnd(…)`; `e3` = position of `FindEdgeWithMatchingLocMin(edge_o)` or -1),
a snapshot is
  `S k (pt isOpen dx wc wc2 hot join orec front)×k  cmp m (stat n (x y)×n)×m  (oorec ofront)×k  mo (stat fheld bheld n (x y)×n)×mo`
with `cmp` = 1 while the closed rings are comparable (no horizontal join yet), `oorec` = rank of an open edge's record among the open records or -1,
open `stat` 0 = `pts == nullptr`, 1 otherwise, `fheld` / `bheld` = `front_edge != nullptr` / `back_edge != nullptr`;
and the final item `F rev np path×np` carries `ReverseSolution` and the real `solution_open`.

`AELOPENRINGS ct fr n item_1 … item_n`
    replays the ops on `Model.stepO` from the empty state; after every op checks the invariants of the ring model (`checkSInv`, `checkRecs`, `checkOut`)
    and of the open layer (`checkOpen`: the two copies of the bookkeeping fields agree, open edge hot ⇔ owns a record, `IsFront ⇔ wind_dx > 0`, keys unique,
    every held record live and non-empty, no point lost, an end is marked free ⇔ no edge holds it and then the end point is the marked point, never `bad`,
    only `extend` / `meet` segments); at every snapshot compares the AEL field by field, every closed ring (while comparable), every open edge's record and
    every open record point by point with its held flags, and checks `checkSegs` on the open records; at `F` compares `Model.openSolution` with the real open solution.
    Reply `ok ops=… snaps=… orecs=… finished=… joined=… start.locmin=… start.pathend=… start.cut=… start.rejoin=… end.cut=… end.pathend=… paths=… dropped=… dup=…`
    or `FAIL item=<j> <reason>`.

`OPENRINGSREPLAY ct fr rev n op_1 … op_n`   replays ops only; reply `mo (stat fheld bheld n (x y)×n)×mo | np path×np` or `ERR j …`.
`BUILDOPENPATH rev n (x y)×n`               model level: `Model.buildOpenPath`; reply `none` or the path.
-/
import ClipperVerif.Driver.Proto
import ClipperVerif.Driver.AelRings
import ClipperVerif.Model.AelOpenRings
namespace Clipper.Driver.AelOpenRings
open Clipper Clipper.Proto Clipper.Model

structure ORingSnap where
  gone : Bool
  fheld : Bool
  bheld : Bool
  pts : List Pt

inductive Item
  | op (o : OOp)
  | snap (l : List SEdge) (cmp : Bool) (rings : List (RStat × List Pt)) (orecs : List (Option Rec)) (orings : List ORingSnap)
  | final (rev : Bool) (sol : List (List Pt))

def orecTok : P (Option Rec) := do
  let o ← int; let f ← bool
  pure (if o < 0 then none else some ⟨o.toNat, f⟩)

def oringTok : P ORingSnap := do
  let st ← nat; let fh ← bool; let bh ← bool; let n ← nat; let ps ← rep n pt
  pure ⟨st == 0, fh, bh, ps⟩

def item : P Item := do
  match (← tok) with
  | "U" => do let i ← nat; let p ← pt; pure (.op (.ev (.update i p)))
  | "IP" => do
      let pos ← nat; let t ← Ael.pathType; let o ← bool; let dx ← int; let p ← pt
      pure (.op (.ev (.base (.insertPair pos t o dx) p)))
  | "I1" => do
      let pos ← nat; let t ← Ael.pathType; let dx ← int; let p ← pt
      pure (.op (.ev (.base (.insertOne pos t dx) p)))
  | "X" => do let i ← nat; let p ← pt; pure (.op (.ev (.base (.intersect i) p)))
  | "XL" => do
      let i ← nat; let p ← pt; let e3 ← int
      pure (.op (.locMinX i p (if e3 < 0 then none else some e3.toNat)))
  | "RP" => do let i ← nat; let p ← pt; pure (.op (.ev (.base (.removePair i) p)))
  | "R1" => do let i ← nat; let p ← pt; pure (.op (.ev (.base (.removeOne i) p)))
  | "J" => do let i ← nat; let p ← pt; pure (.op (.ev (.join i p)))
  | "SP" => do let i ← nat; let p ← pt; pure (.op (.ev (.split i p)))
  | "S" => do
      let k ← nat; let l ← rep k AelSides.sedge
      let cmp ← bool
      let m ← nat; let rs ← rep m AelRings.ringTok
      let os ← rep k orecTok
      let mo ← nat; let ors ← rep mo oringTok
      pure (.snap l cmp rs os ors)
  | "F" => do
      let rev ← bool; let sol ← paths
      pure (.final rev sol)
  | t => throw s!"bad item '{t}'"

def showORing (gone fh bh : Bool) (ps : List Pt) : String := s!"{if gone then 0 else 1} {showBool fh} {showBool bh} {showPath ps}"

def oringDiff (om : List EndMarks) : List Ring → List ORingSnap → Nat → Option String
  | [], [], _ => none
  | a :: as, b :: bs, k =>
    let fh := (markAt om k true).isNone
    let bh := (markAt om k false).isNone
    let same := if b.gone then a.stat == .gone && a.pts.isEmpty else a.stat == .live && a.pts == b.pts && fh == b.fheld && bh == b.bheld
    if same then oringDiff om as bs (k + 1)
    else some s!"open-ring-mismatch rec={k} model={showORing (a.stat == .gone) fh bh a.pts} real={showORing b.gone b.fheld b.bheld b.pts}"
  | as, bs, k => some s!"open-ring-count model={k + as.length} real={k + bs.length}"

def orecDiff : List SEdge → List (Option Rec) → Nat → Option String
  | [], [], _ => none
  | a :: as, b :: bs, p =>
    if a.orec = b then orecDiff as bs (p + 1)
    else some s!"open-orec-mismatch pos={p} model={AelSides.showRec a.orec} real={AelSides.showRec b}"
  | as, bs, p => some s!"open-orec-length model={p + as.length} real={p + bs.length}"

structure Stats where
  nops : Nat := 0
  nsnaps : Nat := 0
  stLocMin : Nat := 0
  stPathEnd : Nat := 0
  stCut : Nat := 0
  stRejoin : Nat := 0
  enCut : Nat := 0
  enPathEnd : Nat := 0
  paths : Nat := 0
  dropped : Nat := 0

def hotOpen (x : OX) : Nat := (x.ol.filter (fun y => y.orec.isSome)).length

/-- classify what the event did to the open records (statistics only) -/
def Stats.note (s : Stats) (o : OOp) (x x' : OX) : Stats :=
  let grew := x'.oo.rings.length > x.oo.rings.length
  let s := { s with nops := s.nops + 1 }
  match o with
  | .ev (.base (.insertPair ..) _) => if grew then { s with stLocMin := s.stLocMin + 1 } else s
  | .ev (.base (.insertOne ..) _) => if grew then { s with stPathEnd := s.stPathEnd + 1 } else s
  | .ev (.base (.intersect _) _) | .locMinX .. =>
    if grew then { s with stCut := s.stCut + 1 }
    else if hotOpen x' > hotOpen x then { s with stRejoin := s.stRejoin + 1 }
    else if hotOpen x' < hotOpen x then { s with enCut := s.enCut + 1 }
    else s
  | .ev (.base (.removeOne _) _) => if hotOpen x' < hotOpen x then { s with enPathEnd := s.enPathEnd + 1 } else s
  | _ => s

def countFinished (x : OX) : Nat := ((List.range x.oo.rings.length).filter (finished x)).length

def verify (cfg : Cfg) : OState → List Item → Nat → Stats → String
  | st, [], _, s =>
    s!"ok ops={s.nops} snaps={s.nsnaps} orecs={st.x.oo.rings.length} finished={countFinished st.x} joined={AelRings.countStat .gone st.x.oo.rings} " ++
    s!"start.locmin={s.stLocMin} start.pathend={s.stPathEnd} start.cut={s.stCut} start.rejoin={s.stRejoin} end.cut={s.enCut} end.pathend={s.enPathEnd} " ++
    s!"paths={s.paths} dropped={s.dropped} dup={AelRings.countKind .dup st.x.oo.log}"
  | st, .op o :: rest, j, s =>
    match stepO cfg st o with
    | .error .reject => s!"FAIL item={j} op-rejected"
    | .error (.fault f) => s!"FAIL item={j} fault {AelSides.showFault f}"
    | .ok st' =>
      if !checkSInv cfg st'.r.s then s!"FAIL item={j} sinv-broken"
      else if !checkRecs st'.r.s then s!"FAIL item={j} recs-broken"
      else if !checkOut st'.r then s!"FAIL item={j} out-broken"
      else if !checkOpen st' then s!"FAIL item={j} open-inv-broken"
      else verify cfg st' rest (j + 1) (s.note o st.x st'.x)
  | st, .snap l cmp rs os ors :: rest, j, s =>
    match AelSides.firstDiff st.r.s.ael l 0 with
    | some why => s!"FAIL item={j} {why}"
    | none =>
      match (if cmp then AelRings.ringDiff st.r.o.rings rs 0 else none) with
      | some why => s!"FAIL item={j} {why}"
      | none =>
        match orecDiff st.x.ol os 0 with
        | some why => s!"FAIL item={j} {why}"
        | none =>
          match oringDiff st.x.om st.x.oo.rings ors 0 with
          | some why => s!"FAIL item={j} {why}"
          | none =>
            if !checkSegs st.x.oo then s!"FAIL item={j} open-segs-broken"
            else verify cfg st rest (j + 1) { s with nsnaps := s.nsnaps + 1 }
  | st, .final rev sol :: rest, j, s =>
    let mine := openSolution rev st.x.oo.rings
    if mine = sol then
      let live := (st.x.oo.rings.filter (fun g => g.stat == .live)).length
      if countFinished st.x != live then s!"FAIL item={j} unfinished-open-record-after-sweep"
      else verify cfg st rest (j + 1) { s with paths := s.paths + mine.length, dropped := s.dropped + (live - mine.length) }
    else s!"FAIL item={j} open-solution-mismatch model={showPaths mine} real={showPaths sol}"

def replay (cfg : Cfg) : OState → List OOp → Nat → Except String OState
  | st, [], _ => .ok st
  | st, op :: ops, j =>
    match stepO cfg st op with
    | .ok st' => replay cfg st' ops (j + 1)
    | .error .reject => .error s!"ERR {j} reject"
    | .error (.fault f) => .error s!"ERR {j} fault {AelSides.showFault f}"

def handle : String → Option (P String)
  | "AELOPENRINGS" => some do
      let ct ← clipType; let fr ← fillRule; let n ← nat
      let items ← rep n item; done
      pure (verify ⟨ct, fr⟩ OState.empty items 0 {})
  | "OPENRINGSREPLAY" => some do
      let ct ← clipType; let fr ← fillRule; let rev ← bool; let n ← nat
      let items ← rep n item; done
      let ops ← items.mapM (fun it => match it with
        | .op o => pure o
        | _ => throw "snapshot in OPENRINGSREPLAY")
      match replay ⟨ct, fr⟩ OState.empty ops 0 with
      | .ok st =>
        let x := st.x
        let body := (List.range x.oo.rings.length).foldl (fun acc k =>
          match x.oo.rings[k]? with
          | some g => acc ++ " " ++ showORing (g.stat == .gone) (markAt x.om k true).isNone (markAt x.om k false).isNone g.pts
          | none => acc) (toString x.oo.rings.length)
        pure s!"{body} | {showPaths (openSolution rev x.oo.rings)}"
      | .error e => pure e
  | "BUILDOPENPATH" => some do
      let rev ← bool; let p ← path; done
      match buildOpenPath rev p with
      | some q => pure (showPath q)
      | none => pure "none"
  | _ => none

end Clipper.Driver.AelOpenRings
