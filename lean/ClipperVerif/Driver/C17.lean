/- Driver commands for C17: the marshalling model (model level) and the layout grammar as judge of what the
exported functions return (spec level). -/
import ClipperVerif.Driver.Proto
import ClipperVerif.Model.Export
import ClipperVerif.Generated.ExportCalls
namespace Clipper.Driver.C17
open Clipper Clipper.Proto Clipper.Model.Export

/-- a cell: decimal integer, or `h` followed by 16 hex digits (bit pattern of a double) -/
def cell : P Int := do
  let t ← tok
  if t.startsWith "h" then
    let r := (t.drop 1).foldl (fun acc c => match acc, hexDigit c with
      | some a, some d => some (a * 16 + d)
      | _, _ => none) (some 0)
    match r with
    | some v => pure (Int.ofNat v)
    | none => throw s!"bad hex cell '{t}'"
  else match t.toInt? with
    | some v => pure v
    | none => throw s!"bad cell '{t}'"

def vpath (dim : Nat) : P VPath := do let n ← nat; rep n (rep dim cell)
def vpaths (dim : Nat) : P VPaths := do let k ← nat; rep k (vpath dim)

/-- `null` or `n c0 … c(n-1)` -/
def carr : P CArr := do
  match (← get) with
  | "null" :: ts => set ts; pure none
  | _ => let n ← nat; pure (some (← rep n cell))

partial def ptree (dim : Nat) : P PPath := do
  let poly ← vpath dim
  let c ← nat
  let kids ← rep c (ptree dim)
  pure (.node poly kids)

def showVPath (p : VPath) : String :=
  p.foldl (fun s v => v.foldl (fun s c => s ++ " " ++ toString c) s) (toString p.length)
def showVPaths (ps : VPaths) : String :=
  ps.foldl (fun s p => s ++ " " ++ showVPath p) (toString ps.length)
def showCArr : CArr → String
  | none => "null"
  | some a => showInts a
partial def showTree : PPath → String
  | .node poly kids => kids.foldl (fun s k => s ++ " " ++ showTree k) (showVPath poly ++ " " ++ toString kids.length)

def showFault : Fault → String
  | .oobWrite p n => s!"FAULT oobWrite {p} {n}"
  | .oobRead p n => s!"FAULT oobRead {p} {n}"
  | .negCount v => s!"FAULT negCount {v}"
  | .fuel => "FAULT fuel"

def answer {α : Type} (sh : α → String) : M α → String
  | .ok v => sh v
  | .error f => showFault f

def okIf (b : Bool) (msg : String) : String := if b then "ok" else "FAIL " ++ msg

/-- bits of `(double)n` as a cell -/
def dblBits (n : Int) : Int := Int.ofNat (Float.ofInt n).toBits.toNat

/-- what a double array holding the marshalling of `ps` must contain, cell by cell (counters are doubles,
vertex cells are the given bit patterns): positions of counters are found by marshalling a masked copy -/
def maskD (flatReal flatMask : List Int) : List Int :=
  List.zipWith (fun c m => if m == -1 then c else dblBits c) flatReal flatMask

def expectedD (ps : VPaths) : CArr :=
  if ps.length = 0 then none
  else some (maskD (flatCPaths ps) (flatCPaths (ps.map (·.map (·.map fun _ => -1)))))

partial def maskTree : PPath → PPath
  | .node poly kids => .node (poly.map (·.map fun _ => -1)) (kids.map maskTree)

def expectedTree (isD : Bool) (t : PPath) : CArr :=
  if t.kids.length = 0 then none
  else if isD then some (maskD (flatCPolyTree t) (flatCPolyTree (maskTree t)))
  else some (flatCPolyTree t)

def firstDiff (a b : List Int) : String :=
  let rec go (i : Nat) : List Int → List Int → String
    | [], [] => "equal"
    | x :: xs, y :: ys => if x == y then go (i + 1) xs ys else s!"cell {i}: array {x} layout {y}"
    | [], _ => s!"array ends at {i}"
    | _, [] => s!"array longer than layout {i}"
  go 0 a b

def judge (got want : CArr) : String :=
  match got, want with
  | none, none => "ok"
  | some a, some b => okIf (a == b) (firstDiff a b)
  | none, some b => if b.length == 2 then "ok" else "FAIL nullptr but native result is not empty"
  | some _, none => "FAIL array returned but layout says nullptr"

open Clipper.Gen.Export Clipper.Model.ExportCalls in
def validation (fn : String) (ct fr prec : Int) (pathsNull rectEmpty : Bool) : String :=
  match exportTable.find? (·.name == fn) with
  | none => "unknown-function"
  | some e => match evalPrefix e.validation ct fr prec pathsNull rectEmpty with
    | some r => r
    | none => "pass"

def handle : String → Option (P String)
  -- model level ----------------------------------------------------------------------------------
  | "CREATE" => some do
      let dim ← nat; let ps ← vpaths dim; done
      pure (answer showInts (createCPaths dim ps))
  | "CREATED" => some do
      let dim ← nat; let ps ← vpaths dim; done
      pure (answer showCArr (createCPathsD dim ps))
  | "CREATED64" => some do
      let dim ← nat; let k ← int; let ps ← vpaths dim; done
      pure (answer showCArr (createCPathsDFromPaths64 dim k ps))
  | "CONVERT" => some do
      let dim ← nat; let a ← carr; done
      pure (answer showVPaths (convertCPaths dim a))
  | "CONVERT1" => some do
      let dim ← nat; let a ← carr; done
      pure (answer showVPath (convertCPath dim a))
  | "CONVERTD64" => some do
      let dim ← nat; let k ← int; let a ← carr; done
      pure (answer showVPaths (convertCPathsDToPaths64 dim k a))
  | "CONVERTD1" => some do
      let dim ← nat; let k ← int; let a ← carr; done
      pure (answer showVPath (convertCPathDToPath64WithScale dim k a))
  | "TREE" => some do
      let dim ← nat; let t ← ptree dim; done
      pure (answer showCArr (createCPolyTree dim t))
  | "TREEREAD" => some do
      let dim ← nat; let a ← carr; done
      pure (answer showTree (readPolyTree dim a))
  -- exact number of cells written / read
  | "CREATEPOS" => some do
      let dim ← nat; let ps ← vpaths dim; done
      pure (answer (fun w => s!"{w.pos} {w.buf.length}") (createCPathsW dim ps))
  | "CONVERTPOS" => some do
      let dim ← nat; let a ← carr; done
      pure (answer (fun r => toString r.2) (convertCPathsPos dim a))
  -- validation prefix generated from the source (Tie T), evaluated on one argument tuple
  | "VALID" => some do
      let fn ← tok; let ct ← int; let fr ← int; let prec ← int; let pn ← bool; let re ← bool; done
      pure (validation fn ct fr prec pn re)
  -- spec level -----------------------------------------------------------------------------------
  -- EXP64 dim <array returned by the exported function> <native result>
  | "EXP64" => some do
      let dim ← nat; let a ← carr; let ps ← vpaths dim; done
      match a with
      | none => pure (okIf (ps.all (· == [])) "nullptr but native result is not empty")
      | some _ =>
        let j := judge a (some (flatCPaths ps))
        if j != "ok" then pure j else
        pure (okIf (match convertCPaths dim a with | .ok r => r == ps.filter (· ≠ []) | _ => false) "reader does not give back the native paths")
  | "EXPD" => some do
      let dim ← nat; let a ← carr; let ps ← vpaths dim; done
      pure (judge a (expectedD ps))
  | "EXPTREE64" => some do
      let dim ← nat; let a ← carr; let t ← ptree dim; done
      let j := judge a (expectedTree false t)
      if j != "ok" then pure j else
      pure (okIf (match readPolyTree dim a with | .ok t' => PPath.beq t' t | _ => false) "tree reader does not give back the native tree")
  | "EXPTREED" => some do
      let dim ← nat; let a ← carr; let t ← ptree dim; done
      pure (judge a (expectedTree true t))
  | _ => none

end Clipper.Driver.C17
