/-
Driver commands for the ring assembly model (`Model/AelRings.lean`; properties C01 / C03).

Tokens as in `Driver/AelSides.lean`.  An *op* is
  `U i x y` | `IP pos pt isOpen dxLeft x y` | `I1 pos pt dx` | `X i x y` | `RP i x y` | `R1 i` | `J i x y` | `SP i x y`
and a snapshot is `S k (pt isOpen dx wc wc2 hot join orec front)×k  m (stat n (x y)×n)×m` with `stat` 0 gone / 1 live / 2 finished.

`AELRINGS ct fr n item_1 … item_n`
    replays the ops on `Model.stepR` from the empty state; after every op checks the side model's invariants (`checkSInv`, `checkRecs`) and
    the ring invariants (`checkOut`: every hot closed edge owns a live non-empty ring, no point lost; `checkSegs`: every pair of ring neighbours
    is in the segment log); at every snapshot compares the AEL field by field and every ring point by point.
    Reply `ok ops=<#> snaps=<#> rings=<#records> done=<#finished> new=<#> added=<#> dup=<#> joins=<#gone>` or `FAIL item=<j> <reason>`.

`RINGSREPLAY ct fr n op_1 … op_n`
    replays ops only; reply `m (stat n (x y)×n)×m` or `ERR j …`.
-/
import ClipperVerif.Driver.Proto
import ClipperVerif.Driver.AelSides
import ClipperVerif.Model.AelRings
namespace Clipper.Driver.AelRings
open Clipper Clipper.Proto Clipper.Model

inductive Item
  | op (o : ROp)
  | snap (l : List SEdge) (rings : List (RStat × List Pt))

def statTok : P RStat := do
  match (← nat) with
  | 0 => pure .gone | 1 => pure .live | 2 => pure .done
  | n => throw s!"bad ring state {n}"

def ringTok : P (RStat × List Pt) := do
  let st ← statTok; let n ← nat; let ps ← rep n pt
  pure (st, ps)

def item : P Item := do
  match (← tok) with
  | "U" => do let i ← nat; let p ← pt; pure (.op (.update i p))
  | "IP" => do
      let pos ← nat; let t ← Ael.pathType; let o ← bool; let dx ← int; let p ← pt
      pure (.op (.base (.insertPair pos t o dx) p))
  | "I1" => do
      let pos ← nat; let t ← Ael.pathType; let dx ← int
      pure (.op (.base (.insertOne pos t dx) ⟨0, 0⟩))
  | "X" => do let i ← nat; let p ← pt; pure (.op (.base (.intersect i) p))
  | "RP" => do let i ← nat; let p ← pt; pure (.op (.base (.removePair i) p))
  | "R1" => do pure (.op (.base (.removeOne (← nat)) ⟨0, 0⟩))
  | "J" => do let i ← nat; let p ← pt; pure (.op (.join i p))
  | "SP" => do let i ← nat; let p ← pt; pure (.op (.split i p))
  | "S" => do
      let k ← nat; let l ← rep k AelSides.sedge
      let m ← nat; let rs ← rep m ringTok
      pure (.snap l rs)
  | t => throw s!"bad item '{t}'"

def showStat : RStat → String
  | .gone => "0" | .live => "1" | .done => "2"
def showRing (st : RStat) (ps : List Pt) : String := s!"{showStat st} {showPath ps}"

def ringDiff : List Ring → List (RStat × List Pt) → Nat → Option String
  | [], [], _ => none
  | a :: as, b :: bs, k =>
    if a.stat = b.1 ∧ a.pts = b.2 then ringDiff as bs (k + 1)
    else some s!"ring-mismatch rec={k} model={showRing a.stat a.pts} real={showRing b.1 b.2}"
  | as, bs, k => some s!"ring-count model={k + as.length} real={k + bs.length}"

def countStat (st : RStat) (rings : List Ring) : Nat := (rings.filter (fun g => g.stat == st)).length
def countKind (k : EmitKind) (log : List Emit) : Nat := (log.filter (fun e => e.kind == k)).length

def verify (cfg : Cfg) : RState → List Item → Nat → Nat → Nat → String
  | r, [], _, nops, nsnaps =>
    s!"ok ops={nops} snaps={nsnaps} rings={r.o.rings.length} done={countStat .done r.o.rings} new={countKind .new r.o.log} added={countKind .added r.o.log} dup={countKind .dup r.o.log} joins={countStat .gone r.o.rings}"
  | r, .op o :: rest, j, nops, nsnaps =>
    match stepR cfg r o with
    | .error .reject => s!"FAIL item={j} op-rejected"
    | .error (.fault f) => s!"FAIL item={j} fault {AelSides.showFault f}"
    | .ok r' =>
      if !checkSInv cfg r'.s then s!"FAIL item={j} sinv-broken"
      else if !checkRecs r'.s then s!"FAIL item={j} recs-broken"
      else if !checkOut r' then s!"FAIL item={j} out-broken"
      else verify cfg r' rest (j + 1) (nops + 1) nsnaps
  | r, .snap l rs :: rest, j, nops, nsnaps =>
    match AelSides.firstDiff r.s.ael l 0 with
    | some why => s!"FAIL item={j} {why}"
    | none =>
      match ringDiff r.o.rings rs 0 with
      | some why => s!"FAIL item={j} {why}"
      | none =>
        if !checkSegs r.o then s!"FAIL item={j} segs-broken"
        else verify cfg r rest (j + 1) nops (nsnaps + 1)

def replay (cfg : Cfg) : RState → List ROp → Nat → Except String RState
  | r, [], _ => .ok r
  | r, op :: ops, j =>
    match stepR cfg r op with
    | .ok r' => replay cfg r' ops (j + 1)
    | .error .reject => .error s!"ERR {j} reject"
    | .error (.fault f) => .error s!"ERR {j} fault {AelSides.showFault f}"

def handle : String → Option (P String)
  | "AELRINGS" => some do
      let ct ← clipType; let fr ← fillRule; let n ← nat
      let items ← rep n item; done
      pure (verify ⟨ct, fr⟩ RState.empty items 0 0 0)
  | "RINGSREPLAY" => some do
      let ct ← clipType; let fr ← fillRule; let n ← nat
      let items ← rep n item; done
      let ops ← items.mapM (fun it => match it with
        | .op o => pure o
        | .snap _ _ => throw "snapshot in RINGSREPLAY")
      match replay ⟨ct, fr⟩ RState.empty ops 0 with
      | .ok r => pure (r.o.rings.foldl (fun acc g => acc ++ " " ++ showRing g.stat g.pts) (toString r.o.rings.length))
      | .error e => pure e
  | _ => none

end Clipper.Driver.AelRings
