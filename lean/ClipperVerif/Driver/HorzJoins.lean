/- Driver commands for the horizontal-join slice (C02/C03/C04): `Model/HorzJoins.lean` against the real private functions.

A heap travels as `nOps (x y next prev orec horz)* nRecs (pts owner nSplits split* hasEdges isOpen)*` (-1 = nullptr; nSplits = -1: no vector).

Model level (`HORZJOINS <sub> …`, the model must print what the engine printed):
* `CONVERT heap nSegs leftOp* nJoins (op1 op2)*`  → `heap' nSegs (left right|-1 ltr)* nJoins (op1 op2)*`   = `ConvertHorzSegsToJoins()`
* `PROCESS polytree heap nJoins (op1 op2)*`       → `heap'`                                                    = `ProcessHorzJoins()`
* `UPDATE heap leftOp`    → `result left right|-1 ltr heap'`   = `UpdateHorzSegment(hs)`
* `DUP heap op after`     → `new heap'`                         = `DuplicateOp(op, insert_after)`
* `LASTOP heap rec front` → `op`                                = `GetLastOp(edge)`
* `TRIAL heap nSegs op`   → `nSegs' [leftOp of the last]`       = `AddTrialHorzJoin(op)`
* `INSIDE path1 path2`    → `0|1`                               = `Path1InsidePath2(op1, op2)`
A model fault is answered `ERR null|dangling|diverge`.

Spec level (`HORZJOINSHYP <sub> … <what the engine produced>`): decides the hypotheses of the theorems of `Props/C02Horz.lean` on the real
heap and re-checks their conclusions on the engine's own result (see `Model/HorzJoinsCheck.lean`); answers `ok …` or `FAIL <why>`.
`CONVERT strict heap nSegs leftOp* nJoins (op1 op2)* heap' nJoins' (op1 op2)*`, `PROCESS strict polytree heap nJoins (op1 op2)* heap'`,
`UPDATE heap leftOp result left right|-1 ltr`. -/
import ClipperVerif.Driver.Proto
import ClipperVerif.Model.HorzJoins
import ClipperVerif.Model.HorzJoinsCheck
namespace Clipper.Driver.HorzJoins
open Clipper Clipper.Proto Clipper.Model.HorzJoins

def optIdx : P (Option Nat) := do
  let v ← int
  if v < 0 then pure none else pure (some v.toNat)

def nodeP : P Node := do
  let p ← pt; let nx ← nat; let pv ← nat; let o ← nat; let h ← bool
  pure { pt := p, next := nx, prev := pv, orec := o, horz := h }

def recP : P ORec := do
  let p ← optIdx; let o ← optIdx
  let ns ← int
  let sp ← if ns < 0 then pure none else do let l ← rep ns.toNat nat; pure (some l)
  let e ← bool; let io ← bool
  pure { pts := p, owner := o, splits := sp, hasEdges := e, isOpen := io }

def heapP : P Heap := do
  let n ← nat; let ops ← rep n nodeP
  let m ← nat; let recs ← rep m recP
  pure { ops := ops.toArray, recs := recs.toArray }

def joinsP : P (List HorzJoin) := do
  let n ← nat
  rep n (do let a ← nat; let b ← nat; pure ⟨a, b⟩)

def showOpt : Option Nat → String
  | none => "-1"
  | some v => toString v

def showNode (n : Node) : String := s!"{showPt n.pt} {n.next} {n.prev} {n.orec} {showBool n.horz}"

def showRec (r : ORec) : String :=
  let sp := match r.splits with
    | none => "-1"
    | some l => l.foldl (fun s q => s ++ " " ++ toString q) (toString l.length)
  s!"{showOpt r.pts} {showOpt r.owner} {sp} {showBool r.hasEdges} {showBool r.isOpen}"

def showHeap (H : Heap) : String :=
  let a := H.ops.foldl (fun s n => s ++ " " ++ showNode n) (toString H.ops.size)
  H.recs.foldl (fun s r => s ++ " " ++ showRec r) (a ++ " " ++ toString H.recs.size)

def showSegs (l : List HorzSeg) : String :=
  l.foldl (fun s h => s ++ s!" {h.leftOp} {showOpt h.rightOp} {showBool h.ltr}") (toString l.length)

def showJoins (l : List HorzJoin) : String :=
  l.foldl (fun s j => s ++ s!" {j.op1} {j.op2}") (toString l.length)

def showErr : Err → String
  | .null => "ERR null"
  | .dangling => "ERR dangling"
  | .diverge => "ERR diverge"

def cmd : P String := do
  match (← tok) with
  | "CONVERT" =>
    let H ← heapP
    let ns ← nat; let ls ← rep ns nat
    let js ← joinsP; done
    match convertHorzSegsToJoins H (ls.map (fun l => { leftOp := l })) js with
    | .ok (H1, segs, joins) => pure s!"{showHeap H1} {showSegs segs} {showJoins joins}"
    | .error e => pure (showErr e)
  | "PROCESS" =>
    let tree ← bool
    let H ← heapP
    let js ← joinsP; done
    match processHorzJoins path1InsidePath2 tree H js with
    | .ok H1 => pure (showHeap H1)
    | .error e => pure (showErr e)
  | "UPDATE" =>
    let H ← heapP; let l ← nat; done
    match updateHorzSegment H { leftOp := l } with
    | .ok (H1, hs, b) => pure s!"{showBool b} {hs.leftOp} {showOpt hs.rightOp} {showBool hs.ltr} {showHeap H1}"
    | .error e => pure (showErr e)
  | "DUP" =>
    let H ← heapP; let op ← nat; let after ← bool; done
    match duplicateOp H op after with
    | .ok (H1, d) => pure s!"{d} {showHeap H1}"
    | .error e => pure (showErr e)
  | "LASTOP" =>
    let H ← heapP; let r ← nat; let front ← bool; done
    match getLastOp H r front with
    | .ok op => pure (toString op)
    | .error e => pure (showErr e)
  | "TRIAL" =>
    let H ← heapP; let n ← nat; let op ← nat; done
    -- the segments already in the list do not matter: `n` placeholders
    match addTrialHorzJoin H (List.replicate n { leftOp := 0 }) op with
    | .ok segs =>
      pure (if segs.length > n then s!"{segs.length} {(segs.getLast?.map (·.leftOp)).getD 0}" else toString segs.length)
    | .error e => pure (showErr e)
  | "INSIDE" =>
    let p1 ← path; let p2 ← path; done
    pure (showBool (path1InsidePath2 p1 p2))
  | s => throw s!"unknown HORZJOINS sub-command {s}"

open Clipper.Model.HorzJoins.Check in
def hyp : P String := do
  match (← tok) with
  | "CONVERT" =>
    let strict ← bool
    let H ← heapP
    let ns ← nat; let ls ← rep ns nat
    let js0 ← joinsP
    let H1 ← heapP
    let js1 ← joinsP; done
    pure (judgeConvert strict H ls js0 H1 js1)
  | "PROCESS" =>
    let strict ← bool
    let tree ← bool
    let H ← heapP
    let js ← joinsP
    let H1 ← heapP; done
    pure (judgeProcess strict tree H js H1)
  | "UPDATE" =>
    let H ← heapP; let l ← nat
    let res ← bool; let left ← nat; let right ← optIdx; let ltr ← bool; done
    pure (judgeUpdate H l res left right ltr)
  | s => throw s!"unknown HORZJOINSHYP sub-command {s}"

def handle : String → Option (P String)
  | "HORZJOINS" => some cmd
  | "HORZJOINSHYP" => some hyp
  | _ => none

end Clipper.Driver.HorzJoins
