/- Driver commands for C02: the verified rectilinear checker judging real engine output. -/
import ClipperVerif.Driver.Proto
import ClipperVerif.Model.RectCheck
namespace Clipper.Driver.C02
open Clipper Clipper.Proto Clipper.RectCheck

/-- Explanation of a `false` verdict of `rectCheck` (diagnostic only; the verdict itself is `rectCheck`). -/
def why (ct : ClipType) (fr : FillRule) (rev : Bool) (subj clip sol : Paths) : String :=
  let xs := gridXs subj clip sol
  let ys := gridYs subj clip sol
  let s2 := scalePaths 2 subj
  let c2 := scalePaths 2 clip
  let o2 := scalePaths 2 sol
  if !isRectilinear subj then "a: subject not rectilinear"
  else if !isRectilinear clip then "a: clip not rectilinear"
  else if !isRectilinear sol then
    match sol.find? (fun p => !isRectPath p) with
    | some p => s!"a: solution path not rectilinear: {showPath p}"
    | none => "a: solution not rectilinear"
  else if !provenance subj clip sol then "b: a solution coordinate is not an input coordinate"
  else match (cellCentres xs ys).find? (fun c => !cellOk ct fr rev s2 c2 o2 c) with
    | some c => s!"c: cell with doubled centre {c.x} {c.y}: wind sol = {wind o2 c}, wind subj = {wind s2 c}, wind clip = {wind c2 c}, expected {expected ct fr rev (wind s2 c) (wind c2 c)}"
    | none => s!"d: shoelace2 of solution {shoelace2s sol} but selected cells have {selArea2 ct fr rev subj clip xs ys}"

def handle : String → Option (P String)
  -- RECTCHECK ct fr rev subj clip sol
  | "RECTCHECK" => some do
      let ct ← clipType; let fr ← fillRule; let rev ← bool
      let subj ← paths; let clip ← paths; let sol ← paths; done
      pure (if rectCheck ct fr rev subj clip sol then "ok" else "FAIL " ++ why ct fr rev subj clip sol)
  -- SPEC_AREA_RECT ct fr subj clip sol : |shoelace| of the solution equals the exact area of the selected cells
  | "SPEC_AREA_RECT" => some do
      let ct ← clipType; let fr ← fillRule
      let subj ← paths; let clip ← paths; let sol ← paths; done
      if !(isRectilinear subj && isRectilinear clip) then pure "FAIL inputs not rectilinear" else
      let xs := gridXs subj clip sol
      let ys := gridYs subj clip sol
      let want := selArea2 ct fr false subj clip xs ys
      let got := shoelace2s sol
      pure (if got.natAbs == want.natAbs then "ok" else s!"FAIL 2*area: solution {got}, selected cells {want}")
  -- SELAREA2 ct fr subj clip : twice the exact area of the selected region (model-level value)
  | "SELAREA2" => some do
      let ct ← clipType; let fr ← fillRule
      let subj ← paths; let clip ← paths; done
      pure (toString (selArea2 ct fr false subj clip (gridXs subj clip []) (gridYs subj clip [])))
  | _ => none

end Clipper.Driver.C02
