/- Driver commands for the geometry half of C18: PointInPolygon, Area, GetSegmentIntersectPt.
Model level: the executable models of `Model/Geom.lean`.  Spec level: `Spec/Basic.lean` with unbounded `Int`. -/
import ClipperVerif.Driver.Proto
import ClipperVerif.Model.Geom
namespace Clipper.Driver.C18Geom
open Clipper Clipper.Proto Clipper.Model

def okIf (b : Bool) (msg : String) : String := if b then "ok" else "FAIL " ++ msg

def showPip : Option PipResult → String
  | some r => toString (pipCode r)
  | none => "fault"

/-- a finite double as `m · 2^e` -/
def floatParts (f : Float) : Option (Int × Int) :=
  let b := f.toBits.toNat
  let neg := b / 2^63 == 1
  let e := (b / 2^52) % 2048
  let m := b % 2^52
  let sg (v : Nat) : Int := if neg then -(Int.ofNat v) else Int.ofNat v
  if e = 2047 then none
  else if e = 0 then some (sg m, -1074)
  else some (sg (m + 2^52), Int.ofNat e - 1075)

/-- a finite double as a fraction `num / den` with `den` a power of two -/
def floatFrac (f : Float) : Option (Int × Int) :=
  match floatParts f with
  | none => none
  | some (m, e) => if e ≥ 0 then some (m * 2^e.toNat, 1) else some (m, 2^(-e).toNat)

def iabs (x : Int) : Int := if x < 0 then -x else x

/-- Σ |(y_i + y_{i+1}) (x_i − x_{i+1})| over the closed path: the condition number of the sum `Area` computes -/
def areaAbsSum (path : Path) : Int :=
  ((edgesOf path).map (fun e => iabs ((e.1.y + e.2.y) * (e.1.x - e.2.x)))).sum

/-- `SPEC_AREA`: |A − shoelace2/2| ≤ γ·Σ|terms|/2 with γ = (n+3)·2^-53·(1+2^-30): the standard forward error
bound of a recursive sum of `n` products of two rounded factors (every operation rounded once). -/
def specArea (path : Path) (a : Float) : String :=
  match floatFrac a with
  | none => "FAIL not finite"
  | some (num, den) =>
    let s := shoelace2 path
    if path.length < 3 then okIf (num == 0) "fewer than 3 points must give 0"
    else
      let t := areaAbsSum path
      let n : Int := path.length
      -- |2·num/den − s| · 2^83 ≤ (n+3)·t·(2^30+1)
      let lhs := iabs (2 * num - s * den) * 2^83
      let rhs := (n + 3) * t * (2^30 + 1) * den
      okIf (lhs ≤ rhs) s!"shoelace2={s} abs-sum={t}"

def maxAbsCoord (l : List Pt) : Int := l.foldl (fun m p => max m (max (iabs p.x) (iabs p.y))) 0

/-- `SPEC_GSIP a b c d r ipx ipy`.  Judgement (exact rationals, all cross-multiplied by |det|):
* `r = 0` iff the direction vectors are parallel (`det = 0`);
* otherwise, with `t = num/det` and `P = a` if `t ≤ 0`, `b` if `t ≥ 1`, `a + t·(b−a)` else, the returned point is
  within `1 + tol` of `P` on each axis and inside the bounding box of segment 1.
`tol = 2^-20` when every |coordinate| ≤ 2^25 (the exact regime), `2^-4` otherwise (well-conditioned inputs only;
the harness does not generate nearly parallel pairs at large magnitude — DESIGN.md §9 finding 8). -/
def specGsip (a b c d : Pt) (r : Bool) (ip : Pt) : String :=
  let det := gsipDet a b c d
  if det = 0 then okIf (!r) "parallel but reported an intersection"
  else if !r then "FAIL not parallel but reported parallel"
  else
    let num := gsipNum a b c d
    let ad := iabs det
    -- P·det
    let (px, py) :=
      if num * det ≤ 0 then (det * a.x, det * a.y)
      else if num * det ≥ det * det then (det * b.x, det * b.y)
      else (det * a.x + num * (b.x - a.x), det * a.y + num * (b.y - a.y))
    let small := maxAbsCoord [a, b, c, d] ≤ 2^25
    -- tolerance as a fraction tn/td
    let (tn, td) : Int × Int := if small then (2^20 + 1, 2^20) else (17, 16)
    let okx := iabs (det * ip.x - px) * td ≤ tn * ad
    let oky := iabs (det * ip.y - py) * td ≤ tn * ad
    let box := min a.x b.x ≤ ip.x ∧ ip.x ≤ max a.x b.x ∧ min a.y b.y ≤ ip.y ∧ ip.y ≤ max a.y b.y
    if !okx || !oky then s!"FAIL off by more than 1+tol: ideal·det=({px},{py}) det={det}"
    else okIf (decide box) "outside the bounding box of segment 1"

/-- `SPEC_GSIP_HI`: the HI_PRECISION variant does not clamp to segment 1, so the accuracy clause is judged only when
the exact crossing lies on segment 1 (`0 ≤ t ≤ 1`); parallelism must be exact in every case. -/
def specGsipHi (a b c d : Pt) (r : Bool) (ip : Pt) : String :=
  let det := gsipDet a b c d
  if det = 0 then okIf (!r) "parallel but reported an intersection"
  else if !r then "FAIL not parallel but reported parallel"
  else
    let num := gsipNum a b c d
    if num * det < 0 ∨ num * det > det * det then "ok"
    else specGsip a b c d r ip

def showOptPt : Option Pt → String
  | none => "0"
  | some p => s!"1 {p.x} {p.y}"

def handle : String → Option (P String)
  -- model level
  | "PIP" => some do
      let p ← pt; let poly ← path; done
      pure (showPip (pointInPolygonX p poly))
  | "PIPF" => some do
      let p ← pt; let poly ← path; done
      pure (showPip (pointInPolygonF p poly))
  -- the cyclic-fold form used in the proofs, on the rotation starting at `first` (must agree with PIP)
  | "PIPCYC" => some do
      let p ← pt; let poly ← path; done
      let first := findFirst p.y poly
      if poly.length < 3 ∨ first = poly.length then pure "2"
      else match poly.drop first ++ poly.take first with
        | [] => pure "fault"
        | f :: seq => pure (toString (pipCode (pipCyc crossProduct p f seq)))
  | "AREA2" => some do
      let poly ← path; done
      pure (match area2X poly with | some v => toString v | none => "fault")
  | "AREAF" => some do
      let poly ← path; done
      pure (match areaF poly with | some v => showFloat v | none => "fault")
  | "GSIP" => some do
      let a ← pt; let b ← pt; let c ← pt; let d ← pt; done
      pure (showOptPt (gsipF a b c d))
  | "GSIPH" => some do
      let a ← pt; let b ← pt; let c ← pt; let d ← pt; done
      pure (showOptPt (gsipHiF a b c d))
  | "GSIPI" => some do
      let a ← pt; let b ← pt; let c ← pt; let d ← pt; done
      pure (showOptPt (gsipIdeal a b c d))
  -- spec level
  | "SPEC_PIP" => some do
      let p ← pt; let poly ← path; let r ← nat; done
      let want := pipEvenOdd poly p
      pure (okIf (r == want) s!"even-odd rule gives {want}")
  | "SPEC_AREA2" => some do
      let poly ← path; let v ← int; done
      pure (okIf (v == (if poly.length < 3 then 0 else shoelace2 poly)) s!"shoelace2 = {shoelace2 poly}")
  | "SPEC_AREA" => some do
      let poly ← path; let a ← float; done
      pure (specArea poly a)
  | "SPEC_GSIP" => some do
      let a ← pt; let b ← pt; let c ← pt; let d ← pt; let r ← bool; let ip ← pt; done
      pure (specGsip a b c d r ip)
  | "SPEC_GSIP_HI" => some do
      let a ← pt; let b ← pt; let c ← pt; let d ← pt; let r ← bool; let ip ← pt; done
      pure (specGsipHi a b c d r ip)
  | _ => none

end Clipper.Driver.C18Geom
