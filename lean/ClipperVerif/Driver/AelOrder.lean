/-
Driver commands for the geometric order of the active edge list (`Model/AelOrder.lean`; properties C01, C13, C10).

An edge `E` is 13 tokens, the fields `IsValidAelOrder` / `InsertLeftEdge` read:
  `curr_x bot.x bot.y top.x top.y is_left_bound IsMaxima NextVertex.pt.x .y PrevPrevVertex.pt.x .y local_min.vertex.pt.y joinRight`

`AELINSERT L k E_0 … E_(k-1) E_new`        model level: `InsertLeftEdge(E_new)` on the AEL `E_0 … E_(k-1)`
`AELINSERT R k E_0 … E_(k-1) i E_new`      model level: `InsertRightEdge(E_i, E_new)` + the settling loop of the right bound
    Reply `<idx> <bits> <branches>`: `idx` = index of the new edge afterwards (`-1`: InsertLeftEdge took `if (!e2) return`);
    `bits` = the GENERATED `IsValidAelOrder(E_j, E_new)` for every j (`-` for an empty AEL); `branches` = the branch of the
    hand-readable spec that decides, per j (see `Model.AelOrder.aelOrderSpecB`).  The driver also evaluates the list model
    itself and answers `FAIL …` if `insertLeft`/`insertRight` disagree with the index functions, or the generated predicate
    with the spec (both are theorems: `insertLeft_shape`, `aelOrder_bridge`).

`AELSORTED mode tol y k (bot.x bot.y top.x top.y isNew joined)×k`     spec level, exact rational arithmetic on the real end points:
    the AEL `e_0 … e_(k-1)` right after an insertion at scanline `y` (y grows downwards; "above" = smaller y).
    x_i(h) = exact x of the line through bot, top at height h; a horizontal edge counts with x = bot.x and is skipped in (b).
    (a) every non-horizontal edge spans the scanline: top.y < y ≤ bot.y;
    (b) for every new edge n and every other edge r with x_r(y) = x_n(y) exactly (same point of departure / r passes through
        n.bot): r is strictly on the side of n at height y - 1/2 that its position says; two coincident lines fail in
        mode 0 (general position: Lean has verified the premise, IFGP).  Mode 1 (degenerate inputs) skips coincident lines
        and compares a new edge only with the other new edge (its sibling bound): residents that touch at a vertex of the
        scanline are legitimately unsorted there — the engine swaps them in the next scanbeam — so a newcomer leaving the
        same point has no well-defined place among them;
    (c) for all i < j:  x_i(y) ≤ x_j(y) + tol   (the engine orders residents by the ROUNDED x at the scanline: an inversion of
        more than the rounding tolerance is a misordered AEL).  In mode 1 pairs with a joined edge (`join_with != NoJoin`) are
        skipped: a joined pair is swept as one edge with the x of its left partner, and the engine joins edges that merely
        share their top vertex, however far apart they are at the scanline.
    Reply `ok pairs=<#pairs compared> strict=<#pairs decided by (b)>` or `FAIL <why>`.
`AELSORTEDALL mode tol n (y k edges)×n`   the same for all insertions of one Execute; reply `ok ins=<n> pairs=… strict=…` or
    `FAIL ins=<j> <why>`.
-/
import ClipperVerif.Driver.Proto
import ClipperVerif.Model.AelOrder
namespace Clipper.Driver.AelOrder
open Clipper Clipper.Proto Clipper.Model.AelOrder

def edge : P OEdge := do
  let cx ← int; let b ← pt; let t ← pt; let il ← bool; let im ← bool; let nv ← pt; let pp ← pt; let lmy ← int; let jr ← bool
  pure { currX := cx, bot := b, top := t, isLeftBound := il, isMaxima := im, nextVertexPt := nv, prevPrevVertexPt := pp,
         localMinY := lmy, joinRight := jr }

def bitsOf (l : List OEdge) (n : OEdge) : String :=
  if l.isEmpty then "-" else String.ofList (l.map fun r => if isValidAelOrder r n then '1' else '0')
def branchesOf (l : List OEdge) (n : OEdge) : String :=
  if l.isEmpty then "-" else String.ofList (l.map fun r => Char.ofNat ('0'.toNat + (aelOrderSpecB r n).2))

def insertAt (l : List OEdge) (k : Nat) (e : OEdge) : List OEdge := l.take k ++ e :: l.drop k

def aelInsert : P String := do
  let side ← tok
  let k ← nat
  let l ← rep k edge
  match side with
  | "L" => do
    let n ← edge; done
    if l.any (fun r => isValidAelOrder r n != aelOrderSpec r n) then return "FAIL generated predicate differs from spec"
    let res := insertLeft isValidAelOrder OEdge.joinRight l n
    match insertLeftPos isValidAelOrder OEdge.joinRight l n with
    | none =>
      if res != l then return "FAIL insertLeft/insertLeftPos disagree"
      return s!"-1 {bitsOf l n} {branchesOf l n}"
    | some p =>
      if res != insertAt l p n then return "FAIL insertLeft/insertLeftPos disagree"
      return s!"{p} {bitsOf l n} {branchesOf l n}"
  | "R" => do
    let i ← nat
    let n ← edge; done
    if i ≥ l.length then throw "left bound index out of range"
    if l.any (fun r => isValidAelOrder r n != aelOrderSpec r n) then return "FAIL generated predicate differs from spec"
    let p := insertRightPos isValidAelOrder l i n
    if insertRight isValidAelOrder l i n != insertAt l p n then return "FAIL insertRight/insertRightPos disagree"
    return s!"{p} {bitsOf l n} {branchesOf l n}"
  | s => throw s!"bad side '{s}'"

/-! ### spec level -/
structure SEdge where
  bot : Pt
  top : Pt
  isNew : Bool
  joined : Bool
  deriving Inhabited

def sedge : P SEdge := do
  let b ← pt; let t ← pt; let n ← bool; let j ← bool; pure ⟨b, t, n, j⟩

def SEdge.horizontal (e : SEdge) : Bool := e.bot.y == e.top.y
/-- x at height `yn/yd` as a fraction with positive denominator (horizontal edges: bot.x) -/
def SEdge.xFrac (e : SEdge) (yn yd : Int) : Int × Int :=
  if e.horizontal then (e.bot.x, 1) else (xNum e.bot e.top yn yd, xDen e.bot e.top yd)
def fracLt (a b : Int × Int) : Bool := decide (a.1 * b.2 < b.1 * a.2)
/-- a + tol < b -/
def fracLtBy (tol : Int) (a b : Int × Int) : Bool := decide ((a.1 + tol * a.2) * b.2 < b.1 * a.2)

/-- judge one AEL; returns (pairs, strict) or an error -/
def judgeSorted (lenient : Bool) (tol y : Int) (es : Array SEdge) : Except String (Nat × Nat) := do
  let k := es.size
  let mut pairs := 0
  let mut strict := 0
  for i in [0:k] do
    let e : SEdge := es[i]!
    if !e.horizontal then
      if !(e.top.y < y ∧ y ≤ e.bot.y) then
        throw s!"edge {i} ({e.bot})-({e.top}) does not span the scanline {y}"
  -- (c) tolerance order at the scanline
  for i in [0:k] do
    for j in [i+1:k] do
      pairs := pairs + 1
      let ei : SEdge := es[i]!
      let ej : SEdge := es[j]!
      let xi := ei.xFrac y 1
      let xj := ej.xFrac y 1
      if fracLtBy tol xj xi ∧ !(lenient ∧ (ei.joined ∨ ej.joined)) then
        throw s!"edges {i} ({ei.bot})-({ei.top}) and {j} ({ej.bot})-({ej.top}) are inverted by more than {tol} at the scanline {y}"
  -- (b) strict order just above the scanline for edges leaving the same exact point as a new edge
  for p in [0:k] do
    let n : SEdge := es[p]!
    if n.isNew ∧ !n.horizontal then
      for q in [0:k] do
        let r : SEdge := es[q]!
        if q ≠ p ∧ !r.horizontal ∧ !(r.isNew ∧ q < p) ∧ (r.isNew ∨ !lenient) then
          let xr := r.xFrac y 1
          let xn := n.xFrac y 1
          if !fracLt xr xn ∧ !fracLt xn xr then
            let xr' := r.xFrac (2 * y - 1) 2
            let xn' := n.xFrac (2 * y - 1) 2
            let coincident := !fracLt xr' xn' ∧ !fracLt xn' xr'
            if !(lenient ∧ coincident) then strict := strict + 1
            let good := if q < p then fracLt xr' xn' else fracLt xn' xr'
            if !good ∧ !(lenient ∧ coincident) then
              throw s!"new edge {p} ({n.bot})-({n.top}) is on the wrong side of edge {q} ({r.bot})-({r.top}) just above the scanline {y}"
  return (pairs, strict)

def aelSorted : P String := do
  let lenient ← bool
  let tol ← int
  let y ← int
  let k ← nat
  let es ← rep k sedge
  done
  match judgeSorted lenient tol y es.toArray with
  | .ok (p, s) => return s!"ok pairs={p} strict={s}"
  | .error e => return s!"FAIL {e}"

def aelSortedAll : P String := do
  let lenient ← bool
  let tol ← int
  let n ← nat
  let mut pairs := 0
  let mut strict := 0
  let mut err : Option String := none
  for j in [0:n] do
    let y ← int
    let k ← nat
    let es ← rep k sedge
    if err.isNone then
      match judgeSorted lenient tol y es.toArray with
      | .ok (p, s) => pairs := pairs + p; strict := strict + s
      | .error e => err := some s!"FAIL ins={j} {e}"
  done
  match err with
  | some e => return e
  | none => return s!"ok ins={n} pairs={pairs} strict={strict}"

def handle (cmd : String) : Option (P String) :=
  match cmd with
  | "AELINSERT" => some aelInsert
  | "AELSORTED" => some aelSorted
  | "AELSORTEDALL" => some aelSortedAll
  | _ => none

end Clipper.Driver.AelOrder
