/-
Spec-level judgement of Boolean results (C01, C13, C15, C19): exact winding numbers of the inputs and of the
solution at probe points, the general-position premise of C01, and the tolerance band — all in unbounded
integer arithmetic.

REGIONS subj clip  np (px2 py2)*  ns (ct fr rev sol)*
   subj, clip, sol : path lists in grid coordinates; probe points are given in DOUBLED coordinates
   (so that half-integer probes are exact).  Answer:
     ok checked=<n> skipped=<m>                     every probe outside the band agrees for every solution
     ok notgp <why>                                 the input is not in general position: nothing judged
     FAIL sol=<k> p=<x2>,<y2> ws=.. wc=.. want=.. got=..
-/
import ClipperVerif.Driver.Proto
namespace Clipper.Driver.Region
open Clipper Clipper.Proto

def dbl (ps : Paths) : Paths := ps.map (fun p => p.map (fun q => (⟨2 * q.x, 2 * q.y⟩ : Pt)))

def maxAbs (ps : Paths) : Int :=
  ps.foldl (fun m p => p.foldl (fun m q => max m (max q.x.natAbs q.y.natAbs)) m) 0

/-- squared tolerance radius in doubled coordinates as a rational `n / d`:
band = 2.25 + maxabs * 2^-41 grid units (the property allows 2 + about |c|·2^-42). -/
def bandSq (maxabs : Int) : Int × Int :=
  -- r (grid units) = (9 * 2^39 + maxabs) / 2^41 ; doubled: r2 = 2r ; squared: 4 r^2
  let num := 9 * 2^39 + maxabs
  (4 * num * num, 2^82)

/-- is squared distance from `p` to segment `a b` strictly below `r2` (all integers) -/
def distSegLt (p a b : Pt) (r2 : Int) : Bool :=
  let dx := b.x - a.x; let dy := b.y - a.y
  let px := p.x - a.x; let py := p.y - a.y
  let len2 := dx * dx + dy * dy
  let t := px * dx + py * dy
  if len2 = 0 ∨ t ≤ 0 then decide (px * px + py * py < r2)
  else if t ≥ len2 then
    let qx := p.x - b.x; let qy := p.y - b.y
    decide (qx * qx + qy * qy < r2)
  else
    let c := px * dy - py * dx
    decide (c * c < r2 * len2)

/-- an edge with the global ids of its two end vertices -/
structure GEdge where
  a : Pt
  b : Pt
  va : Nat
  vb : Nat
  deriving Inhabited

/-- edges and vertices of closed paths followed by open polylines; vertex ids are global -/
def gEdges (closed opened : Paths) : List GEdge × List (Pt × Nat) := Id.run do
  let mut es : Array GEdge := #[]
  let mut vs : Array (Pt × Nat) := #[]
  let mut base := 0
  for p in closed do
    let n := p.length
    let arr := p.toArray
    for i in [0:n] do
      vs := vs.push (arr[i]!, base + i)
      es := es.push ⟨arr[i]!, arr[(i + 1) % n]!, base + i, base + (i + 1) % n⟩
    base := base + n
  for p in opened do
    let n := p.length
    let arr := p.toArray
    for i in [0:n] do
      vs := vs.push (arr[i]!, base + i)
      if i + 1 < n then es := es.push ⟨arr[i]!, arr[i + 1]!, base + i, base + i + 1⟩
    base := base + n
  return (es.toList, vs.toList)

/-- General position (C01's quantifier): every vertex is ≥ 3 units from every edge it is not an end point of,
and every point where two edges without a common end vertex meet is ≥ 3 units from every third edge.
Returns a reason on failure. -/
def notGeneralPositionG (closed opened : Paths) : Option String := Id.run do
  for p in closed do
    if p.length < 3 then return some "closed path with fewer than 3 vertices"
  for p in opened do
    if p.length < 2 then return some "open path with fewer than 2 vertices"
  let (es, vs) := gEdges closed opened
  let arr := es.toArray
  for (v, id) in vs do
    for e in es do
      if e.va ≠ id ∧ e.vb ≠ id then
        if distSegLt v e.a e.b 9 then return some s!"vertex {v} within 3 of an edge"
  let m := arr.size
  for u in [0:m] do
    for v in [u+1:m] do
      let e1 := arr[u]!
      let e2 := arr[v]!
      if e1.va = e2.va ∨ e1.va = e2.vb ∨ e1.vb = e2.va ∨ e1.vb = e2.vb then continue
      let a := e1.a; let b := e1.b; let c := e2.a; let d := e2.b
      let d1x := b.x - a.x; let d1y := b.y - a.y
      let d2x := d.x - c.x; let d2y := d.y - c.y
      let den := d1x * d2y - d1y * d2x
      if den = 0 then continue   -- parallel: a collinear overlap is caught by the vertex test
      let tn := (c.x - a.x) * d2y - (c.y - a.y) * d2x
      let un := (c.x - a.x) * d1y - (c.y - a.y) * d1x
      let (tn, un, den) := if den < 0 then (-tn, -un, -den) else (tn, un, den)
      if tn < 0 ∨ tn > den ∨ un < 0 ∨ un > den then continue
      let X : Pt := ⟨a.x * den + tn * d1x, a.y * den + tn * d1y⟩   -- crossing point scaled by den
      for w in [0:m] do
        if w = u ∨ w = v then continue
        let e3 := arr[w]!
        let es : Pt := ⟨e3.a.x * den, e3.a.y * den⟩
        let fs : Pt := ⟨e3.b.x * den, e3.b.y * den⟩
        if distSegLt X es fs (9 * den * den) then
          return some s!"crossing of edges {u},{v} within 3 of edge {w}"
  return none

def notGeneralPosition (all : Paths) : Option String := notGeneralPositionG all []

structure Sol where
  ct : ClipType
  fr : FillRule
  rev : Bool
  paths : Paths

def solP : P Sol := do
  let ct ← clipType; let fr ← fillRule; let rev ← bool; let ps ← paths
  pure ⟨ct, fr, rev, ps⟩

def judge (subj clip : Paths) (probes : List Pt) (sols : List Sol) (checkGp : Bool) : String := Id.run do
  if checkGp then
    if let some why := notGeneralPosition (subj ++ clip) then
      return s!"ok notgp {why}"
  let s2 := dbl subj; let c2 := dbl clip
  let (bn, bd) := bandSq (maxAbs (subj ++ clip))
  let sols2 := sols.map (fun s => (s, dbl s.paths))
  let mut checked := 0
  let mut skipped := 0
  for p in probes do
    if nearAnyEdge s2 p bn bd || nearAnyEdge c2 p bn bd then
      skipped := skipped + 1
      continue
    let ws := wind s2 p
    let wc := wind c2 p
    checked := checked + 1
    let mut k := 0
    for (s, sp) in sols2 do
      let want : Int := if inR s.ct s.fr ws wc then (if s.rev then -1 else 1) else 0
      let got := wind sp p
      if got ≠ want then
        return s!"FAIL sol={k} ct={repr s.ct} fr={repr s.fr} rev={s.rev} p={p.x},{p.y} ws={ws} wc={wc} want={want} got={got}"
      k := k + 1
  return s!"ok checked={checked} skipped={skipped}"

def cmdRegions (checkGp : Bool) : P String := do
  let subj ← paths; let clip ← paths
  let np ← nat; let probes ← rep np pt
  let ns ← nat; let sols ← rep ns solP
  done
  pure (judge subj clip probes sols checkGp)

/-- `GPCHECK paths` → `gp` or `notgp <why>` -/
def cmdGp : P String := do
  let ps ← paths; done
  pure (match notGeneralPosition ps with | none => "gp" | some w => s!"notgp {w}")

/-- `SAMEREGION a b np probes` : two path sets cover the same region with the same winding at all probes
outside the band of `ref` (all input edges), demanded only when `ref` is in general position;
used by metamorphic checks (C13, C05). Winding numbers compared exactly. -/
def cmdSameRegion : P String := do
  let a ← paths; let b ← paths; let ref ← paths
  let np ← nat; let probes ← rep np pt; done
  if let some why := notGeneralPosition ref then return s!"ok notgp {why}"
  let a2 := dbl a; let b2 := dbl b; let r2 := dbl ref
  let (bn, bd) := bandSq (maxAbs ref)
  let mut checked := 0
  for p in probes do
    if nearAnyEdge r2 p bn bd then continue
    checked := checked + 1
    let wa := wind a2 p; let wb := wind b2 p
    if wa ≠ wb then return s!"FAIL p={p.x},{p.y} wa={wa} wb={wb}"
  return s!"ok checked={checked}"

/-- `EQGP subj clip A B` : exact equality of two canonicalised solutions, demanded only when the input is in
general position (C13's quantifier). -/
def cmdEqGp : P String := do
  let subj ← paths; let clip ← paths; let a ← paths; let b ← paths; done
  if let some why := notGeneralPosition (subj ++ clip) then return s!"ok notgp {why}"
  if a = b then return "ok" else return s!"FAIL solutions differ A={showPaths a} B={showPaths b}"

/-- `WINDSUM ref np probes k (coef paths)*` : Σ coef·wind(paths, p) = 0 at every probe outside the band of `ref`. -/
def cmdWindSum : P String := do
  let ref ← paths
  let np ← nat; let probes ← rep np pt
  let k ← nat
  let terms ← rep k (do let c ← int; let ps ← paths; pure (c, dbl ps))
  done
  if let some why := notGeneralPosition ref then return s!"ok notgp {why}"
  let r2 := dbl ref
  let (bn, bd) := bandSq (maxAbs ref)
  let mut checked := 0
  for p in probes do
    if nearAnyEdge r2 p bn bd then continue
    checked := checked + 1
    let tot : Int := terms.foldl (fun acc (c, ps) => acc + c * wind ps p) (0 : Int)
    if tot ≠ 0 then return s!"FAIL p={p.x},{p.y} sum={tot} terms={terms.map (fun (c, ps) => (c, wind ps p))}"
  return s!"ok checked={checked}"

/-- `SAMEREGION_SCALED k r base subj clip np probes` : `r` is the result for the inputs scaled by `k`;
it must have the winding number of `base` at the scaled probe, for probes outside the band of the unscaled inputs. -/
def cmdSameScaled : P String := do
  let k ← int; let r ← paths; let base ← paths; let subj ← paths; let clip ← paths
  let np ← nat; let probes ← rep np pt; done
  let ref := subj ++ clip
  if let some why := notGeneralPosition ref then return s!"ok notgp {why}"
  let r2 := dbl ref; let b2 := dbl base; let rr := dbl r
  let (bn, bd) := bandSq (maxAbs ref)
  let mut checked := 0
  for p in probes do
    if nearAnyEdge r2 p bn bd then continue
    checked := checked + 1
    let wa := wind b2 p; let wb := wind rr ⟨k * p.x, k * p.y⟩
    if wa ≠ wb then return s!"FAIL p={p.x},{p.y} base={wa} scaled={wb}"
  return s!"ok checked={checked}"

def handle : String → Option (P String)
  | "EQGP" => some cmdEqGp
  | "WINDSUM" => some cmdWindSum
  | "SAMEREGION_SCALED" => some cmdSameScaled
  | "REGIONS" => some (cmdRegions true)
  | "REGIONS_NOGP" => some (cmdRegions false)
  | "GPCHECK" => some cmdGp
  | "SAMEREGION" => some cmdSameRegion
  | _ => none

end Clipper.Driver.Region
