/-
Driver command for the Z layer of the ring assembly model (`Model/AelRingsZ.lean`; property C15).

Tokens as in `Driver/AelRings.lean`, every point with its z.  An *op* is
  `U i x y z` | `IP pos pt isOpen dxLeft x y z` | `I1 pos pt dx` | `X i x y z  e1bot e1top e2bot e2top` (each `x y z`) | `RP i x y z` | `R1 i` | `J i x y z` | `SP i x y z`
and a snapshot is `S k (pt isOpen dx wc wc2 hot join orec front)×k  m (stat n (x y z)×n)×m  ncalls`.

`AELRINGSZ ct fr hascb defaultZ n item_1 … item_n  c (a b c d seen ret)×c`
    `hascb` = a callback is installed; the trailing list is the log written by the harness's callback: the four end points in the order passed, the
    point as shown, and the z the callback left in it.  The callback family handed to the model is `F k = ` "answer `ret_k`" (whatever the real
    callback computed at its `k`-th call); what the model says the callback was *shown* at that call is compared with the log.
    Replays the ops on `Model.stepZ` from the empty state; after every op checks the invariants of the side and ring models (as `AELRINGS`), that the Z
    rings are the ring model's rings with a z on every point and the Z log the ring model's log (`checkAgree`), and that every ring triple is a stored
    log entry (`checkProv`); at every snapshot compares the AEL field by field, every ring triple by triple, and the number of callback calls; at the end
    compares the model's call log with the harness's.
    Reply `ok ops=<#> snaps=<#> rings=<#> triples=<#> calls=<#> given=<#> setz=<#> over=<#> dup=<#>` or `FAIL item=<j> <reason>`.

`ZNOJOINS n`
    spec level (wrapped in `IFGP`): the sweep of a general-position input has no `CheckJoinLeft/Right` event (`n` = their number in the trace) — the
    hypothesis `NoJoins` of `ring_z_accounting_no_joins`.

`ZNODISTANTZ n`
    spec level (wrapped in `IFGP`): on a general-position input no `IntersectEdges` call is handed a point whose z is that of an edge end point at another location
    (`n` = the number of such calls: `GetSegmentIntersectPt` copies a whole end point when the crossing parameter leaves [0,1], `AddNewIntersectNode` then moves x, y).
-/
import ClipperVerif.Driver.Proto
import ClipperVerif.Driver.AelSides
import ClipperVerif.Driver.AelRings
import ClipperVerif.Model.AelRingsZ
namespace Clipper.Driver.AelRingsZ
open Clipper Clipper.Proto Clipper.Model Clipper.Model.ZFill

inductive Item
  | op (o : ZOp)
  | snap (l : List SEdge) (rings : List (RStat × List PtZ)) (ncalls : Nat)

def ptz : P PtZ := do
  let x ← int; let y ← int; let z ← int; pure ⟨x, y, z⟩

def ringTok : P (RStat × List PtZ) := do
  let st ← AelRings.statTok; let n ← nat; let ps ← rep n ptz
  pure (st, ps)

def item : P Item := do
  match (← tok) with
  | "U" => do let i ← nat; let p ← ptz; pure (.op (.update i p))
  | "IP" => do
      let pos ← nat; let t ← Ael.pathType; let o ← bool; let dx ← int; let p ← ptz
      pure (.op (.insertPair pos t o dx p))
  | "I1" => do
      let pos ← nat; let t ← Ael.pathType; let dx ← int
      pure (.op (.insertOne pos t dx))
  | "X" => do
      let i ← nat; let p ← ptz
      let a ← ptz; let b ← ptz; let c ← ptz; let d ← ptz
      pure (.op (.intersect i p ⟨a, b, c, d⟩))
  | "RP" => do let i ← nat; let p ← ptz; pure (.op (.removePair i p))
  | "R1" => do pure (.op (.removeOne (← nat)))
  | "J" => do let i ← nat; let p ← ptz; pure (.op (.join i p))
  | "SP" => do let i ← nat; let p ← ptz; pure (.op (.split i p))
  | "S" => do
      let k ← nat; let l ← rep k AelSides.sedge
      let m ← nat; let rs ← rep m ringTok
      let nc ← nat
      pure (.snap l rs nc)
  | t => throw s!"bad item '{t}'"

def showPtZ (p : PtZ) : String := s!"({p.x},{p.y},{p.z})"
def showRingZ (st : RStat) (ps : List PtZ) : String := s!"{AelRings.showStat st} {ps.map showPtZ}"

def ringDiff : List ZRing → List (RStat × List PtZ) → Nat → Option String
  | [], [], _ => none
  | a :: as, b :: bs, k =>
    if a.stat = b.1 ∧ a.pts = b.2 then ringDiff as bs (k + 1)
    else some s!"ring-mismatch rec={k} model={showRingZ a.stat a.pts} real={showRingZ b.1 b.2}"
  | as, bs, k => some s!"ring-count model={k + as.length} real={k + bs.length}"

structure CallRec where
  a : PtZ
  b : PtZ
  c : PtZ
  d : PtZ
  seen : PtZ
  ret : Int

def callRec : P CallRec := do
  let a ← ptz; let b ← ptz; let c ← ptz; let d ← ptz; let s ← ptz; let r ← int
  pure ⟨a, b, c, d, s, r⟩

/-- first call (in call order) on which the model and the harness's log disagree -/
def callDiff : List ZCall → List CallRec → Nat → Option String
  | [], [], _ => none
  | m :: ms, h :: hs, k =>
    if m.k = k ∧ m.a = h.a ∧ m.b = h.b ∧ m.c = h.c ∧ m.d = h.d ∧ m.seen = h.seen ∧ m.ret = h.ret then callDiff ms hs (k + 1)
    else some s!"callback-call-mismatch k={k} model: index {m.k} args {showPtZ m.a} {showPtZ m.b} {showPtZ m.c} {showPtZ m.d} shown {showPtZ m.seen} ret {m.ret}; real: args {showPtZ h.a} {showPtZ h.b} {showPtZ h.c} {showPtZ h.d} shown {showPtZ h.seen} ret {h.ret}"
  | ms, hs, k => some s!"callback-call-count model={k + ms.length} real={k + hs.length}"

def countKind (k : ZKind) (log : List ZEmit) : Nat := (log.filter (fun e => e.kind == k)).length
def countSetz (log : List ZEmit) : Nat := (log.filter (fun e => e.src.viaSetZ && e.kind != .dup && e.kind != .lost)).length
def countGiven (log : List ZEmit) : Nat := (log.filter (fun e => !e.src.viaSetZ && e.stored)).length

def verify (cfg : Cfg) (zc : ZCfg) (calls : List CallRec) : ZState → List Item → Nat → Nat → Nat → String
  | st, [], _, nops, nsnaps =>
    match callDiff st.z.calls.reverse calls 0 with
    | some why => s!"FAIL item=end {why}"
    | none =>
      s!"ok ops={nops} snaps={nsnaps} rings={st.z.rings.length} triples={(allPtsZ st.z.rings).length} calls={st.z.ncb} given={countGiven st.z.log} setz={countSetz st.z.log} over={countKind .over st.z.log} dup={countKind .dup st.z.log}"
  | st, .op o :: rest, j, nops, nsnaps =>
    match stepZ cfg zc st o with
    | .error .reject => s!"FAIL item={j} op-rejected"
    | .error (.fault f) => s!"FAIL item={j} fault {AelSides.showFault f}"
    | .ok st' =>
      if !checkSInv cfg st'.r.s then s!"FAIL item={j} sinv-broken"
      else if !checkRecs st'.r.s then s!"FAIL item={j} recs-broken"
      else if !checkOut st'.r then s!"FAIL item={j} out-broken"
      else if !checkAgree st' then s!"FAIL item={j} z-rings-do-not-erase-to-the-ring-model"
      else if !checkProv st'.z then s!"FAIL item={j} ring-triple-without-log-entry"
      else verify cfg zc calls st' rest (j + 1) (nops + 1) nsnaps
  | st, .snap l rs nc :: rest, j, nops, nsnaps =>
    match AelSides.firstDiff st.r.s.ael l 0 with
    | some why => s!"FAIL item={j} {why}"
    | none =>
      match ringDiff st.z.rings rs 0 with
      | some why => s!"FAIL item={j} {why}"
      | none =>
        if st.z.ncb ≠ nc then s!"FAIL item={j} callback-calls model={st.z.ncb} real={nc}"
        else verify cfg zc calls st rest (j + 1) nops (nsnaps + 1)

def handle : String → Option (P String)
  | "AELRINGSZ" => some do
      let ct ← clipType; let fr ← fillRule; let hascb ← bool; let dz ← int; let n ← nat
      let items ← rep n item
      let nc ← nat; let calls ← rep nc callRec
      done
      let rets : Array Int := (calls.map (·.ret)).toArray
      let zc : ZCfg := { cb := if hascb then some (fun k _ _ _ _ _ => rets.getD k (-777777)) else none, defaultZ := dz }
      pure (verify ⟨ct, fr⟩ zc calls ZState.empty items 0 0 0)
  | "ZNOJOINS" => some do
      let n ← nat; done
      pure (if n = 0 then "ok joins=0" else s!"FAIL {n} CheckJoinLeft/Right events in the sweep of a general-position input")
  | "ZNODISTANTZ" => some do
      let n ← nat; done
      pure (if n = 0 then "ok distant=0" else s!"FAIL {n} IntersectEdges calls were handed the z of an edge end point that lies elsewhere, on a general-position input")
  | _ => none

end Clipper.Driver.AelRingsZ
