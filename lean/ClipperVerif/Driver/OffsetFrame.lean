/- Driver commands for the offset frame model (model level, shared by C06 and C07): the real `Group`
constructor, `BuildNormals`, the two normal-reversal blocks, the loop index sequences (observed through a
`DeltaCallback64`), the branch taken by `OffsetPoint` and the members left behind by `Execute` are compared
with `ClipperVerif/Model/OffsetFrame.lean`. -/
import ClipperVerif.Driver.C06
import ClipperVerif.Model.OffsetFrame
namespace Clipper.Driver.OffsetFrame
open Clipper Clipper.Proto Clipper.OffsetFrame Clipper.Driver.C06

abbrev Bits := UInt64 × UInt64

def negBits (x : UInt64) : UInt64 := x ^^^ 0x8000000000000000

/-- `GetUnitNormal` in IEEE doubles (Lean `Float` = binary64, same `sqrt`, `/`, `*` as the C++ built with
-ffp-contract=off); the result travels as bit patterns -/
def unitNormalF (a b : Pt) : Bits :=
  if a = b then ((0.0 : Float).toBits, (0.0 : Float).toBits)
  else
    let dx := Float.ofInt (b.x - a.x)
    let dy := Float.ofInt (b.y - a.y)
    let inv := 1.0 / Float.sqrt (dx * dx + dy * dy)
    let dx := dx * inv
    let dy := dy * inv
    (dy.toBits, (-dx).toBits)

/-- the geometry used for the structural commands: real unit normals, sine / cosine irrelevant -/
def geoBits : Geo Bits where
  unitNormal := unitNormalF
  neg n := (negBits n.1, negBits n.2)
  sinA _ _ := 0
  cosA _ _ := 0

def showBits (l : List Bits) : String :=
  l.foldl (fun s n => s ++ " " ++ hexOfNat n.1.toNat 16 ++ " " ++ hexOfNat n.2.toNat 16) (toString l.length)

def bitsList : P (List Bits) := do
  let n ← nat
  rep n (do let a ← hex64; let b ← hex64; pure (a, b))

def showRat (r : Rat) : String := s!"{r.num} {r.den}"

def jtNum : JoinType → Nat | .square => 0 | .bevel => 1 | .round => 2 | .miter => 3
def etNum : EndType → Nat | .polygon => 0 | .joined => 1 | .butt => 2 | .square => 3 | .round => 4

def branchName : Branch → String
  | .skip => "skip" | .copy => "copy" | .concave => "concave" | .miter => "miter"
  | .square => "square" | .round => "round" | .bevel => "bevel"

def groupP : P Group := do
  let et ← endType; let jt ← joinType; let ps ← paths
  pure (mkGroup ps jt et)

def handle : String → Option (P String)
  -- GROUP et jt paths → lowest_path_idx (-1: none) is_reversed paths_in
  | "GROUP" => some do
      let g ← groupP; done
      let low : Int := match g.lowest with | some i => i | none => -1
      pure s!"{low} {showBool g.isReversed} {showPaths g.paths}"
  | "BUILDNORMALS" => some do
      let p ← path; done
      pure (showBits (buildNormals geoBits p))
  -- REVNORMS highI norms → norms after the reversal block of OffsetOpenPath
  | "REVNORMS" => some do
      let h ← nat; let ns ← bitsList; done
      pure (match reverseNorms geoBits h ns with | .ok l => showBits l | .error _ => "FAULT")
  | "JOINEDNORMS" => some do
      let ns ← bitsList; done
      pure (match joinedNorms geoBits ns with | .ok l => showBits l | .error _ => "FAULT")
  -- GROUPTRACE group_end_type join_type k len1 … lenk → (size, j, k) of every cap / OffsetPoint call a delta callback
  -- sees while the group is offset (`end_type_` is reset to the group's end type for every path of two or more points)
  | "GROUPTRACE" => some do
      let grpEt ← endType; let jt ← joinType; let lens ← ints; done
      let r := lens.flatMap (fun (n : Int) =>
        let n := n.toNat
        (pathTrace jt grpEt n).flatMap (fun jk => [(n : Int), (jk.1 : Int), (jk.2 : Int)]))
      pure (showInts r)
  -- BRANCH jt temp_lim group_delta sin_a cos_a same
  | "BRANCH" => some do
      let jt ← joinType; let tl ← rat; let gd ← rat; let s ← rat; let c ← rat; let same ← bool; done
      pure (branchName (branchOf jt tl gd s c same))
  -- FRAMESTATE miter_limit arc_tolerance delta k group… → delta_ group_delta_ join_type_ end_type_ after Execute
  | "FRAMESTATE" => some do
      let ml ← rat; let arc ← rat; let delta ← rat
      let k ← nat; let groups ← rep k groupP; done
      let prm : Params := ⟨ml, arc, false, false⟩
      if groups.isEmpty || OffsetFrame.rabs delta < 1 / 2 then pure "untouched"
      else
        match doGroups geoBits arc (initSt prm delta) groups with
        | .error _ => pure "FAULT"
        | .ok (st, es) =>
          let _ := es
          pure s!"{showRat st.delta} {showRat st.groupDelta} {jtNum st.jt} {etNum st.et}"
  | _ => none

end Clipper.Driver.OffsetFrame
