/- Driver commands for C03.
Model level: `VALIDCLOSED`, `SMALLTRI`, `BUILDPATH`, `CLEANCOL` run Model/CleanUp.lean.
`SEGSINT`, `DOSPLIT`, `FIXSI`, `CLEANCOLX`, `BUILDPATHS` run Model/SplitOp.lean in its double instantiation (`csF`, `isectF`,
`adecF`) and, when all coordinates are small enough for the doubles to be exact, also in the exact instantiation the
theorems are about; a disagreement between the two is reported instead of the answer.
Spec level: `WELLFORMED` judges a real `Clipper64` solution against the text of property C03 with exact
integer arithmetic. -/
import ClipperVerif.Driver.Proto
import ClipperVerif.Model.CleanUp
import ClipperVerif.Model.SplitOp
namespace Clipper.Driver.C03
open Clipper Clipper.Proto Clipper.Model.CleanUp Clipper.Model.SplitOp

/-! ### exact geometry used by the judgement -/

/-- cyclic triples (prev, cur, next) of a closed path -/
def cycTriples (p : Path) : List (Pt × Pt × Pt) :=
  match p with
  | [] => []
  | a :: rest =>
    match p.getLast? with
    | none => []
    | some l => (l :: p).zip (p.zip (rest ++ [a]))

def dotI (a b c : Pt) : Int := (b.x - a.x) * (c.x - b.x) + (b.y - a.y) * (c.y - b.y)

/-- the open segments a b and c d cross in a single point interior to both -/
def properCross (a b c d : Pt) : Bool :=
  let s1 := Int.sign (cross a b c); let s2 := Int.sign (cross a b d)
  let s3 := Int.sign (cross c d a); let s4 := Int.sign (cross c d b)
  decide (s1 * s2 < 0) && decide (s3 * s4 < 0)

def allEdges (ps : Paths) : List (Pt × Pt) := ps.flatMap edgesOf

/-- first pair of properly crossing edges -/
def findCrossing : List (Pt × Pt) → Option ((Pt × Pt) × (Pt × Pt))
  | [] => none
  | e :: es =>
    match es.find? (fun f => properCross e.1 e.2 f.1 f.2) with
    | some f => some (e, f)
    | none => findCrossing es

def dbl (p : Pt) : Pt := ⟨2 * p.x, 2 * p.y⟩

/-- Is closed path `a` nested inside closed path `b`?  Decided at the first vertex or edge midpoint of `a`
(doubled coordinates) that is not on `b`'s boundary; `none` if the whole of `a` lies on `b`'s boundary. -/
def nestedIn (a b : Path) : Option Bool :=
  let b2 := b.map dbl
  let probes := (a.map dbl) ++ (edgesOf a).map (fun e => (⟨e.1.x + e.2.x, e.1.y + e.2.y⟩ : Pt))
  match probes.find? (fun q => pipEvenOdd b2 q != 0) with
  | some q => some (pipEvenOdd b2 q == 1)
  | none => none

/-- canonical form of a closed path: rotated so that the lexicographically smallest vertex comes first -/
def ptLt (a b : Pt) : Bool := decide (a.x < b.x) || (decide (a.x = b.x) && decide (a.y < b.y))
def rotations (p : Path) : List Path := (List.range p.length).map (fun k => p.drop k ++ p.take k)
def pathLt : Path → Path → Bool
  | [], [] => false
  | [], _ :: _ => true
  | _ :: _, [] => false
  | a :: as, b :: bs => if ptLt a b then true else if ptLt b a then false else pathLt as bs
def canonPath (p : Path) : Path :=
  (rotations p).foldl (fun best r => if pathLt r best then r else best) p
def pathLe (a b : Path) : Bool := !pathLt b a
def canonPaths (ps : Paths) : Paths := (ps.map canonPath).mergeSort pathLe

def pow2 (k : Nat) : Int := (2 : Int) ^ k

def fmtPt (p : Pt) : String := s!"({p.x},{p.y})"

/-- structural part of C03 (all inputs): every closed solution path has ≥ 3 vertices, no two cyclically
consecutive vertices are equal, and (coordinates up to 2^52) every vertex is inside the inputs' bounding box -/
def structural (inputs sol : Paths) : Option String :=
  match sol.find? (fun p => p.length < 3) with
  | some p => some s!"path with {p.length} vertices"
  | none =>
  match sol.find? (fun p => (edgesOf p).any (fun e => e.1 == e.2)) with
  | some p => some s!"consecutive equal vertices in a path of {p.length} vertices starting {fmtPt (p.headD ⟨0,0⟩)}"
  | none =>
  let ipts := inputs.flatten
  let lim := pow2 52
  if ipts.all (fun q => decide (-lim ≤ q.x) && decide (q.x ≤ lim) && decide (-lim ≤ q.y) && decide (q.y ≤ lim)) then
    match ipts with
    | [] => if sol.isEmpty then none else some "solution for empty input"
    | q0 :: _ =>
      let l := ipts.foldl (fun m q => min m q.x) q0.x
      let r := ipts.foldl (fun m q => max m q.x) q0.x
      let t := ipts.foldl (fun m q => min m q.y) q0.y
      let b := ipts.foldl (fun m q => max m q.y) q0.y
      match sol.flatten.find? (fun v => decide (v.x < l) || decide (v.x > r) || decide (v.y < t) || decide (v.y > b)) with
      | some v => some s!"vertex {fmtPt v} outside the input bounding box [{l},{r}]x[{t},{b}]"
      | none => none
  else none

/-- no vertex of the solution lies on a solution edge it is not an end point of (no two solution paths touch,
no path touches itself) -/
def touchFree (sol : Paths) : Bool :=
  let es := allEdges sol
  sol.flatten.all (fun v => es.all (fun e => v == e.1 || v == e.2 || !onSeg v e.1 e.2)) &&
  -- a vertex shared by two paths, or visited twice by one path, is an end point of four edges
  sol.flatten.all (fun v => (es.filter (fun e => v == e.1)).length == 1)

/-- geometric part of C03 (inputs in general position or rectilinear).
`fullUnion = false` (inputs whose solution paths touch — the class of the known findings
`kf.union_idempotence.*`): the Union round trip is only required to preserve the total area. -/
def geometric (pc rev fullUnion : Bool) (inputs sol sol2 : Paths) : Option String :=
  match sol.find? (fun p => shoelace2 p == 0) with
  | some p => some s!"zero-area path starting {fmtPt (p.headD ⟨0,0⟩)}"
  | none =>
  match (sol.flatMap cycTriples).find? (fun t => cross t.1 t.2.1 t.2.2 == 0 && decide (dotI t.1 t.2.1 t.2.2 < 0)) with
  | some t => some s!"180-degree spike at {fmtPt t.2.1}"
  | none =>
  match (if pc then none else (sol.flatMap cycTriples).find? (fun t => cross t.1 t.2.1 t.2.2 == 0)) with
  | some t => some s!"collinear vertices {fmtPt t.1} {fmtPt t.2.1} {fmtPt t.2.2} with PreserveCollinear off"
  | none =>
  match findCrossing (allEdges sol) with
  | some (e, f) => some s!"solution edges {fmtPt e.1}-{fmtPt e.2} and {fmtPt f.1}-{fmtPt f.2} properly cross"
  | none =>
  -- orientation = parity of nesting depth (negated by ReverseSolution)
  let idx := sol.zipIdx
  let bad := idx.find? (fun (p, i) =>
    let depth := (idx.filter (fun (q, j) => j != i && nestedIn p q == some true)).length
    let positive := decide (shoelace2 p > 0)
    positive != ((depth % 2 == 0) != rev))
  match bad with
  | some (p, _) => some s!"orientation does not match nesting depth for the path starting {fmtPt (p.headD ⟨0,0⟩)}"
  | none =>
  match sol.flatten.find? (fun v => !nearAnyEdge inputs v 4 1) with
  | some v => some s!"vertex {fmtPt v} is more than 2 units from every input edge"
  | none =>
  if fullUnion || touchFree sol then
    if canonPaths sol2 != canonPaths sol then
      some s!"Union(solution) returned {sol2.length} paths that differ from the {sol.length} solution paths"
    else none
  else if shoelace2s sol2 != shoelace2s sol then
    some s!"Union(solution) changed the area from {shoelace2s sol} to {shoelace2s sol2} (halves)"
  else none

def cmdWellFormed : P String := do
  let _ct ← clipType; let _fr ← fillRule; let pc ← bool; let rev ← bool; let cls ← nat
  let subj ← paths; let clip ← paths; let sol ← paths; let sol2 ← paths; done
  let inputs := subj ++ clip
  match structural inputs sol with
  | some why => pure ("FAIL " ++ why)
  | none =>
    if cls == 0 then pure "ok"
    -- cls: 1 = general position, 2 = rectilinear, 4 = either, with the full Union comparison forced even when
    -- solution paths touch (known-finding witnesses)
    else match geometric pc rev (cls == 4) inputs sol sol2 with
      | some why => pure ("FAIL " ++ why)
      | none => pure "ok"

/-- a ring after `CleanCollinear`: `disposed` or a point list -/
def ringOrDisposed : P (Option Ring) := do
  match (← get) with
  | "disposed" :: ts => set ts; pure none
  | _ => do let r ← path; pure (some r)

def showRingOpt : Option Ring → String
  | none => "disposed"
  | some r => showPath r

/-! ### FixSelfIntersects / DoSplitOp -/

/-- coordinates and length for which every double intermediate of `CrossProduct`, `Area(OutPt*)`, `AreaTriangle` is an
exact integer below 2^53: |coord| ≤ 2^20 (terms ≤ 2^42), at most 1024 nodes -/
def smallRing (r : Ring) : Bool :=
  decide (r.length ≤ 1024) && r.all (fun p => decide (p.x.natAbs ≤ 2 ^ 20) && decide (p.y.natAbs ≤ 2 ^ 20))

/-- fuel for the loop of `FixSelfIntersects`: enough unless the `DuplicateOp` branch runs more than `8n + 64` times -/
def fsiDriverFuel (n : Nat) : Nat := fsiFuel n (8 * n + 64)

def showFsi : FsiRes → String
  | .outOfFuel k => s!"OUT-OF-FUEL dups={k}"
  | .fault => "MODEL-FAULT"
  | .done m sp _ => showRingOpt m ++ " " ++ showPaths sp

def showSplitRes : Option SplitRes → String
  | none => "MODEL-FAULT"
  | some ⟨m, nr⟩ => showRingOpt m ++ " " ++ showPaths nr.toList

/-- answer with the double instantiation; cross-check the exact one where doubles are exact -/
def crossChecked (small : Bool) (f x : String) : String :=
  if small && f != x then s!"FLOAT-INT-MISMATCH float: {f} | exact: {x}" else f

def handle : String → Option (P String)
  | "WELLFORMED" => some cmdWellFormed
  | "VALIDCLOSED" => some do
      let r ← path; done
      pure (showBool (isValidClosedPath r))
  | "SMALLTRI" => some do
      let r ← path; done
      pure (showBool (isVerySmallTriangle r))
  | "BUILDPATH" => some do
      let rev ← bool; let isOpen ← bool; let r ← path; done
      match buildPath64 r rev isOpen with
      | none => pure "none"
      | some p => pure (showPath p)
  -- CLEANCOL pc ring fixAnswer : the real `FixSelfIntersects` result is the value of the parameter `fix`
  -- on rings that need fixing; on all other rings `fix` is the identity (as in the C++)
  | "CLEANCOL" => some do
      let pc ← bool; let r ← path; let fixAns ← ringOrDisposed; done
      match cleanCollinear pc (fun x => if needsFix x then fixAns else some x) r with
      | none => pure "OUT-OF-FUEL"
      | some res => pure (showRingOpt res)
  -- SEGSINT a b c d : SegmentsIntersect(a, b, c, d) (non-inclusive)
  | "SEGSINT" => some do
      let a ← pt; let b ← pt; let c ← pt; let d ← pt; done
      pure (crossChecked (smallRing [a, b, c, d]) (showBool (segsInt csF a b c d)) (showBool (segsInt csX a b c d)))
  -- DOSPLIT hi ring : (hi = the library was built with CLIPPER2_HI_PRECISION) DoSplitOp(outrec, splitOp) for the ring seen from splitOp
  | "DOSPLIT" => some do
      let hi ← bool; let r ← path; done
      let isect := if hi then isectHiF else isectF
      pure (crossChecked (smallRing r) (showSplitRes (doSplitOp isect adecF r)) (showSplitRes (doSplitOp isect adecX r)))
  -- FIXSI hi ring : FixSelfIntersects(outrec) for the ring seen from outrec->pts; answer = ring afterwards + split-off rings
  | "FIXSI" => some do
      let hi ← bool; let r ← path; done
      let isect := if hi then isectHiF else isectF
      let fuel := fsiDriverFuel r.length
      pure (crossChecked (smallRing r) (showFsi (fixSelfIntersects csF isect adecF fuel r)) (showFsi (fixX isect fuel r)))
  -- CLEANCOLX hi pc ring : CleanCollinear(outrec) with the modelled FixSelfIntersects
  | "CLEANCOLX" => some do
      let hi ← bool; let pc ← bool; let r ← path; done
      let isect := if hi then isectHiF else isectF
      let fuel := fsiDriverFuel r.length
      pure (crossChecked (smallRing r) (showFsi (cleanCollinearG pc (fixSelfIntersects csF isect adecF fuel) r))
        (showFsi (cleanCollinearX pc isect fuel r)))
  -- BUILDPATHS hi pc rev rings : the closed branch of BuildPaths64 over outrec_list_ (rings of the outrecs, `0` = no pts)
  | "BUILDPATHS" => some do
      let hi ← bool; let pc ← bool; let rev ← bool; let rings ← paths; done
      let isect := if hi then isectHiF else isectF
      let n := (rings.map List.length).foldl max 0
      let fuel := fsiDriverFuel n
      let wf := 4 * rings.length + 4 * rings.flatten.length + 64
      let sh : Option (List Path) → String := fun | none => "OUT-OF-FUEL" | some ps => showPaths ps
      pure (crossChecked (rings.all smallRing)
        (sh (buildPathsG rev (cleanCollinearG pc (fixSelfIntersects csF isect adecF fuel)) wf rings))
        (sh (buildPathsX pc rev isect fuel wf rings)))
  | _ => none

end Clipper.Driver.C03
