/-
Line protocol helpers shared by all driver commands.
A request is one line of blank-separated tokens: `CMD tok tok …`; the reply is one line.
Integers are decimal; doubles travel as 16 hex digits of their IEEE bit pattern;
a path is `n x0 y0 … x(n-1) y(n-1)`; a path list is `k path1 … pathk`.
-/
import ClipperVerif.Spec.Basic
namespace Clipper.Proto

abbrev Toks := List String
/-- parser: consume tokens, fail with a message -/
abbrev P := StateT Toks (Except String)

def tok : P String := do
  match (← get) with
  | [] => throw "unexpected end of line"
  | t :: ts => set ts; pure t

def int : P Int := do
  let t ← tok
  match t.toInt? with
  | some v => pure v
  | none => throw s!"bad int '{t}'"

def nat : P Nat := do
  let v ← int
  if v < 0 then throw s!"negative count {v}" else pure v.toNat

def bool : P Bool := do
  let v ← int
  pure (v != 0)

def hexDigit (c : Char) : Option Nat :=
  if '0' ≤ c ∧ c ≤ '9' then some (c.toNat - '0'.toNat)
  else if 'a' ≤ c ∧ c ≤ 'f' then some (c.toNat - 'a'.toNat + 10)
  else if 'A' ≤ c ∧ c ≤ 'F' then some (c.toNat - 'A'.toNat + 10)
  else none

def hex64 : P UInt64 := do
  let t ← tok
  let r := t.foldl (fun acc c => match acc, hexDigit c with
    | some a, some d => some (a * 16 + d)
    | _, _ => none) (some 0)
  match r with
  | some v => pure (UInt64.ofNat v)
  | none => throw s!"bad hex '{t}'"

def float : P Float := do pure (Float.ofBits (← hex64))

def rep (n : Nat) (p : P α) : P (List α) := do
  let mut acc : Array α := #[]
  for _ in [0:n] do
    acc := acc.push (← p)
  pure acc.toList

def pt : P Pt := do
  let x ← int; let y ← int; pure ⟨x, y⟩

def path : P Path := do
  let n ← nat; rep n pt

def paths : P Paths := do
  let k ← nat; rep k path

def ints : P (List Int) := do
  let n ← nat; rep n int

def fillRule : P FillRule := do
  match (← nat) with
  | 0 => pure .evenOdd | 1 => pure .nonZero | 2 => pure .positive | 3 => pure .negative
  | n => throw s!"bad fill rule {n}"

def clipType : P ClipType := do
  match (← nat) with
  | 0 => pure .noClip | 1 => pure .intersection | 2 => pure .union | 3 => pure .difference | 4 => pure .xor
  | n => throw s!"bad clip type {n}"

def done : P Unit := do
  match (← get) with
  | [] => pure ()
  | t :: _ => throw s!"trailing token '{t}'"

def run (p : P String) (ts : Toks) : String :=
  match (p.run ts) with
  | .ok (s, _) => s
  | .error e => s!"PROTO-ERROR {e}"

-- printing
def hexOfNat (n : Nat) (width : Nat) : String :=
  let ds := (Nat.toDigits 16 n)
  String.ofList (List.replicate (width - ds.length) '0' ++ ds)

def showFloat (f : Float) : String := hexOfNat f.toBits.toNat 16

def showPt (p : Pt) : String := s!"{p.x} {p.y}"
def showPath (p : Path) : String :=
  p.foldl (fun s q => s ++ " " ++ showPt q) (toString p.length)
def showPaths (ps : Paths) : String :=
  ps.foldl (fun s q => s ++ " " ++ showPath q) (toString ps.length)
def showInts (l : List Int) : String :=
  l.foldl (fun s q => s ++ " " ++ toString q) (toString l.length)
def showBool (b : Bool) : String := if b then "1" else "0"

end Clipper.Proto
