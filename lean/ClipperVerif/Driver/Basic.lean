/- Generic spec-level commands usable by every property's harness. -/
import ClipperVerif.Driver.Proto
namespace Clipper.Driver.Basic
open Clipper Clipper.Proto

/-- `WIND paths k p1 … pk` → winding numbers -/
def cmdWind : P String := do
  let ps ← paths; let n ← nat; let pts ← rep n pt; done
  pure (showInts (pts.map (wind ps)))

def handle : String → Option (P String)
  | "WIND" => some cmdWind
  | "PING" => some (pure "pong")
  | _ => none

end Clipper.Driver.Basic
