/-
Driver command for the `TrimHorz` model (`Model/TrimHorz.lean`).
TRIMHORZ pc botX topX topY n (x y isMax)*   ->   `topX topY (adv mod n) ranOff`
    the real `TrimHorz` is called on a hand-built vertex ring; the harness supplies one full turn of the ring after `vertex_top`
    in the direction of the bound.
-/
import ClipperVerif.Driver.Proto
import ClipperVerif.Model.TrimHorz
namespace Clipper.Driver.TrimHorz
open Clipper Clipper.Proto Clipper.Model.TrimHorz

def vtx : P V := do
  let x ← int; let y ← int; let m ← bool; pure ⟨x, y, m⟩

def handle : String → Option (P String)
  | "TRIMHORZ" => some do
      let pc ← bool; let botX ← int; let topX ← int; let topY ← int
      let n ← nat; let vs ← rep n vtx; done
      let o := trimHorz pc botX topX topY vs
      -- `vertex_top` is observed as a position on the ring: a full turn (adv = n) looks like 0
      pure s!"{o.topX} {o.topY} {if n = 0 then o.adv else o.adv % n} {if o.ranOff then 1 else 0}"
  | _ => none

end Clipper.Driver.TrimHorz
