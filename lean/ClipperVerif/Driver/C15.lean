/-
Driver commands for C15.
SETZ hascb e1subj  e1bot e1top e2bot e2top ip (each x y z)  defaultZ
    model of ClipperBase::SetZ with the test callback  z' := z*1000 + (index of the call's first argument's z mod 7) …
    the harness uses the callback  z' = 1000*z_seen + 7  so the answer is  `x y z'`  plus the order check value.
ZCHECK usecb defaultZ  nIn (x y z)*  nSol (x y z)*  nLog (z)*
    spec level: every solution vertex either coincides with an input vertex and carries one of the Z values given at
    that location, or carries a z that the callback assigned (in the log); without a callback a vertex that is not at
    an input location carries the default z.
-/
import ClipperVerif.Driver.Proto
import ClipperVerif.Model.ZFill
namespace Clipper.Driver.C15
open Clipper Clipper.Proto Clipper.Model.ZFill

def ptz : P PtZ := do
  let x ← int; let y ← int; let z ← int; pure ⟨x, y, z⟩

/-- the harness' test callback: encodes what it saw (z shown, and the z of the first end point = subject-first order) -/
def testCb : Callback := fun a _ _ _ p => 1000 * p.z + 7 + 100000 * a.z

def handle : String → Option (P String)
  | "SETZ" => some do
      let hascb ← bool; let s ← bool
      let a ← ptz; let b ← ptz; let c ← ptz; let d ← ptz; let ip ← ptz
      let dz ← int; done
      let r := setZ (if hascb then some testCb else none) s a b c d ip dz
      pure s!"{r.x} {r.y} {r.z}"
  | "ZCHECK" => some do
      let usecb ← bool; let dz ← int
      let nIn ← nat; let ins ← rep nIn ptz
      let nSol ← nat; let sols ← rep nSol ptz
      let nLog ← nat; let log ← rep nLog int
      done
      let bad := sols.find? (fun v =>
        let atInput := ins.filter (fun q => samePt v q)
        let okInput := atInput.any (fun q => q.z = v.z)
        let okCb := usecb && log.contains v.z
        let okDefault := (!usecb) && atInput.isEmpty && v.z = dz
        !(okInput || okCb || okDefault))
      pure (match bad with
        | none => s!"ok vertices={sols.length}"
        | some v => s!"FAIL vertex {v.x},{v.y} z={v.z} is neither an input Z at that location nor assigned by the callback nor the default")
  | _ => none

end Clipper.Driver.C15
