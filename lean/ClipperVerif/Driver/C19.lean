/- Driver commands for C19: the model of `detail::Minkowski` (model level, exact and `Float` orientation test)
and the swept-pattern judgement of `MinkowskiSum/Diff` results (spec level). -/
import ClipperVerif.Driver.Proto
import ClipperVerif.Model.Minkowski
namespace Clipper.Driver.C19
open Clipper Clipper.Proto Clipper.Model.Minkowski

/-- `Area` of a 4-point path exactly as the C++ evaluates it in `double`:
`a += static_cast<double>(y_prev + y_cur) * (x_prev - x_cur)` four times, then `a * 0.5` -/
def areaQuadF (a b c d : Pt) : Float :=
  let t (p q : Pt) : Float := Float.ofInt (p.y + q.y) * Float.ofInt (p.x - q.x)
  let s := (0.0 : Float) + t d a
  let s := s + t a b
  let s := s + t b c
  let s := s + t c d
  s * 0.5

def isPositiveF : Path → Bool
  | [a, b, c, d] => areaQuadF a b c d >= 0.0
  | q => isPositive q

def showOpt : Option Paths → String
  | some ps => showPaths ps
  | none => "OUT-OF-RANGE"

/-- judge a MinkowskiSum/Diff result against the union of parallelograms at the probe points -/
def minkCheck (isSum isClosed : Bool) (pattern path : Path) (result : Paths) (probes : List Pt) : String :=
  if pattern.isEmpty || path.isEmpty then
    (if result.isEmpty then "ok" else "FAIL non-empty result for empty input")
  else
    let qs := Spec.Minkowski.quads pattern path isSum isClosed
    let eff := probes.filter (fun p => !nearAnyEdge qs p 4 1)
    let bad := eff.find? (fun p =>
      let w := wind result p
      let inside := qs.any (fun q => Spec.Minkowski.inQuad q p)
      !((inside && w == 1) || (!inside && w == 0)))
    match bad with
    | none => if eff.isEmpty then "ok skip every probe lies inside the tolerance band" else "ok"
    | some p => s!"FAIL probe {p.x} {p.y} wind {wind result p} inSomeQuad {qs.any (fun q => Spec.Minkowski.inQuad q p)}"

def handle : String → Option (P String)
  -- MINK isSum isClosed pattern path   → quads of the model with the exact orientation test
  | "MINK" => some do
      let isSum ← bool; let isClosed ← bool; let pattern ← path; let pth ← path; done
      pure (showOpt (minkowski pattern pth isSum isClosed))
  -- MINKF: same with `Area` evaluated in Float like the C++
  | "MINKF" => some do
      let isSum ← bool; let isClosed ← bool; let pattern ← path; let pth ← path; done
      pure (showOpt (minkowskiWith isPositiveF pattern pth isSum isClosed))
  -- MINKSPEC: the closed form of Props/C19 (oriented parallelograms)
  | "MINKSPEC" => some do
      let isSum ← bool; let isClosed ← bool; let pattern ← path; let pth ← path; done
      pure (showPaths (Spec.Minkowski.quadsWith (orient isPositive) pattern pth isSum isClosed))
  -- MINKCHECK isSum isClosed pattern path result k p1 … pk
  | "MINKCHECK" => some do
      let isSum ← bool; let isClosed ← bool; let pattern ← path; let pth ← path
      let result ← paths; let k ← nat; let probes ← rep k pt; done
      pure (minkCheck isSum isClosed pattern pth result probes)
  -- MINKNPROBES …same arguments… → number of probes outside the tolerance band (statistics)
  | "MINKNPROBES" => some do
      let isSum ← bool; let isClosed ← bool; let pattern ← path; let pth ← path
      let _result ← paths; let k ← nat; let probes ← rep k pt; done
      let qs := Spec.Minkowski.quads pattern pth isSum isClosed
      pure (toString (probes.filter (fun p => !nearAnyEdge qs p 4 1)).length)
  | _ => none

end Clipper.Driver.C19
