/-
Spec layer: what Clipper2's operations must compute, with no reference to how.
Core Lean only (no Mathlib) so that the driver executable can link.
-/
namespace Clipper

inductive FillRule | evenOdd | nonZero | positive | negative
  deriving DecidableEq, Repr, Inhabited

/-- Same order as the C++ `enum class ClipType`. -/
inductive ClipType | noClip | intersection | union | difference | xor
  deriving DecidableEq, Repr, Inhabited

inductive PathType | subject | clip
  deriving DecidableEq, Repr, Inhabited

structure Pt where
  x : Int
  y : Int
  deriving DecidableEq, Repr, Inhabited

abbrev Path := List Pt
abbrev Paths := List Path

instance : ToString Pt := ⟨fun p => s!"{p.x},{p.y}"⟩

def Pt.add (a b : Pt) : Pt := ⟨a.x + b.x, a.y + b.y⟩
def Pt.sub (a b : Pt) : Pt := ⟨a.x - b.x, a.y - b.y⟩
def Pt.neg (a : Pt) : Pt := ⟨-a.x, -a.y⟩
def Pt.scale (k : Int) (a : Pt) : Pt := ⟨k * a.x, k * a.y⟩

/-- Is a point with winding number `w` filled under the fill rule? -/
def inFill (fr : FillRule) (w : Int) : Bool :=
  match fr with
  | .evenOdd => decide (w % 2 ≠ 0)
  | .nonZero => decide (w ≠ 0)
  | .positive => decide (w > 0)
  | .negative => decide (w < 0)

/-- The region selected by a clip type: is a point whose subject / clip winding numbers
are `ws`, `wc` part of the solution? -/
def inR (ct : ClipType) (fr : FillRule) (ws wc : Int) : Bool :=
  match ct with
  | .noClip => false
  | .intersection => inFill fr ws && inFill fr wc
  | .union => inFill fr ws || inFill fr wc
  | .difference => inFill fr ws && !inFill fr wc
  | .xor => inFill fr ws != inFill fr wc

/-- twice the signed area of triangle a b c: > 0 iff c is to the left of a→b (y up). -/
def cross (a b c : Pt) : Int := (b.x - a.x) * (c.y - a.y) - (b.y - a.y) * (c.x - a.x)

/-- Contribution of the directed edge `a → b` to the winding number around `p`
(ray towards +x, half-open rule: an edge owns its lower end point, not its upper one). -/
def crossing (p a b : Pt) : Int :=
  if a.y ≤ p.y ∧ p.y < b.y then (if cross a b p > 0 then 1 else 0)
  else if b.y ≤ p.y ∧ p.y < a.y then (if cross a b p < 0 then -1 else 0)
  else 0

/-- the directed edges of a closed path (closing edge included) -/
def edgesOf : Path → List (Pt × Pt)
  | [] => []
  | a :: rest => (a :: rest).zip (rest ++ [a])

/-- the directed segments of an open path -/
def segsOf : Path → List (Pt × Pt)
  | [] => []
  | a :: rest => (a :: rest).zip rest

def windPath (path : Path) (p : Pt) : Int :=
  ((edgesOf path).map (fun e => crossing p e.1 e.2)).sum

/-- Winding number of a set of closed paths around `p` (counter-clockwise positive, y up).
Meaningful when `p` lies on no edge. -/
def wind (ps : Paths) (p : Pt) : Int := (ps.map (fun path => windPath path p)).sum

/-- twice the shoelace area of a closed path -/
def shoelace2 (path : Path) : Int :=
  ((edgesOf path).map (fun e => e.1.x * e.2.y - e.2.x * e.1.y)).sum

def shoelace2s (ps : Paths) : Int := (ps.map shoelace2).sum

/-- is `p` on the closed segment a b -/
def onSeg (p a b : Pt) : Bool :=
  cross a b p == 0 && decide (min a.x b.x ≤ p.x) && decide (p.x ≤ max a.x b.x)
    && decide (min a.y b.y ≤ p.y) && decide (p.y ≤ max a.y b.y)

def onBoundary (path : Path) (p : Pt) : Bool := (edgesOf path).any (fun e => onSeg p e.1 e.2)

/-- even-odd point in polygon: 0 = on, 1 = inside, 2 = outside (Clipper2's enum order) -/
def pipEvenOdd (path : Path) (p : Pt) : Nat :=
  if onBoundary path p then 0 else if windPath path p % 2 ≠ 0 then 1 else 2

/-- `a` is a subsequence of `b` -/
def isSubseq : Path → Path → Bool
  | [], _ => true
  | _ :: _, [] => false
  | a :: as, b :: bs => if a = b then isSubseq as bs else isSubseq (a :: as) bs

/-- Is the squared distance from `p` to the closed segment `a b` at most `r2n / r2d`?
Exact rational arithmetic over integers (`r2d > 0`). -/
def distSegLe (p a b : Pt) (r2n r2d : Int) : Bool :=
  let dx := b.x - a.x; let dy := b.y - a.y
  let px := p.x - a.x; let py := p.y - a.y
  let len2 := dx * dx + dy * dy
  let t := px * dx + py * dy
  if len2 = 0 ∨ t ≤ 0 then decide ((px * px + py * py) * r2d ≤ r2n)
  else if t ≥ len2 then
    let qx := p.x - b.x; let qy := p.y - b.y
    decide ((qx * qx + qy * qy) * r2d ≤ r2n)
  else
    let c := px * dy - py * dx
    decide (c * c * r2d ≤ r2n * len2)

def nearAnyEdge (ps : Paths) (p : Pt) (r2n r2d : Int) : Bool :=
  ps.any (fun path => (edgesOf path).any (fun e => distSegLe p e.1 e.2 r2n r2d))

def nearAnySeg (ps : Paths) (p : Pt) (r2n r2d : Int) : Bool :=
  ps.any (fun path => match path with
    | [a] => distSegLe p a a r2n r2d
    | _ => (segsOf path).any (fun e => distSegLe p e.1 e.2 r2n r2d))

end Clipper
