/- Spec layer for open subject paths (C05): which parts of an open subject are kept. -/
import ClipperVerif.Spec.Basic
namespace Clipper

/-- Is a point of an open subject path part of the open solution, given the winding numbers `ws`, `wc` of the
closed subject paths and of the clip paths around it?  Inside the clip region for Intersection, outside it for
Difference and Xor, outside both the closed-subject and the clip region for Union (property C05). -/
def keepOpen (ct : ClipType) (fr : FillRule) (ws wc : Int) : Bool :=
  match ct with
  | .noClip => false
  | .intersection => inFill fr wc
  | .union => !inFill fr ws && !inFill fr wc
  | .difference => !inFill fr wc
  | .xor => !inFill fr wc

end Clipper
