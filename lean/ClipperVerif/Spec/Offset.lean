/-
Spec layer for offsetting (C06, C07): what `InflatePaths` / `ClipperOffset::Execute` must return,
stated with exact integer / rational arithmetic and with no reference to how Clipper2 works.

Distances are never computed: every statement is a comparison `dist(p, segment)² ⋚ n/d` carried out
over `Int`.  A threshold is a rational `c : Rat`; comparisons against `c` split on the sign of `c`
and then compare squares.
-/
import ClipperVerif.Spec.Basic
import ClipperVerif.Spec.Enums
namespace Clipper.Offset
open Clipper

def dot (a b : Pt) : Int := a.x * b.x + a.y * b.y
def crs (a b : Pt) : Int := a.x * b.y - a.y * b.x
def norm2 (a : Pt) : Int := dot a a

/-- `dist(p, [a,b])² < n/d` (strict twin of `Clipper.distSegLe`), `d > 0`. -/
def distSegLt (p a b : Pt) (r2n r2d : Int) : Bool :=
  let dv := b.sub a; let w := p.sub a
  let len2 := norm2 dv
  let t := dot w dv
  if len2 = 0 ∨ t ≤ 0 then decide (norm2 w * r2d < r2n)
  else if t ≥ len2 then decide (norm2 (p.sub b) * r2d < r2n)
  else
    let c := crs w dv
    decide (c * c * r2d < r2n * len2)

abbrev Seg := Pt × Pt

/-- `dist(p, segs) ≤ c` -/
def dLe (segs : List Seg) (p : Pt) (c : Rat) : Bool :=
  decide (0 ≤ c) && segs.any (fun e => distSegLe p e.1 e.2 (c * c).num (c * c).den)
/-- `dist(p, segs) < c` -/
def dLt (segs : List Seg) (p : Pt) (c : Rat) : Bool :=
  decide (0 < c) && segs.any (fun e => distSegLt p e.1 e.2 (c * c).num (c * c).den)
/-- `dist(p, segs) > c` (true for the empty set of segments: distance +∞) -/
def dGt (segs : List Seg) (p : Pt) (c : Rat) : Bool := !dLe segs p c
/-- `dist(p, segs) ≥ c` -/
def dGe (segs : List Seg) (p : Pt) (c : Rat) : Bool := !dLt segs p c

/-- signed distance of `p` to a region with boundary `segs`: `-dist` inside, `+dist` outside.
`sd < c` -/
def sdLt (segs : List Seg) (inside : Bool) (p : Pt) (c : Rat) : Bool :=
  if inside then dGt segs p (-c) else dLt segs p c
/-- `sd > c` -/
def sdGt (segs : List Seg) (inside : Bool) (p : Pt) (c : Rat) : Bool :=
  if inside then dLt segs p (-c) else dGt segs p c

def allEdges (ps : Paths) : List Seg := ps.flatMap edgesOf

def rabs (x : Rat) : Rat := if x < 0 then -x else x
def rmax (x y : Rat) : Rat := if x < y then y else x
def rmin (x y : Rat) : Rat := if x < y then x else y

/-- The tolerance of the property statement: arc tolerance + 2 units + 0.1 % of the radius. -/
def tolOf (arc : Rat) (radius : Rat) : Rat := arc + 2 + rabs radius / 1000

/-- The arc tolerance in force: the requested one, or (when left at 0) the documented default radius/500. -/
def arcEff (arc delta : Rat) : Rat := if arc > 0 then arc else rabs delta / 500

/-- rational upper bound of √2 used on the outer side of every sandwich -/
def sqrt2Up : Rat := (141422 : Rat) / 100000

/-- join factor: how far (in multiples of |δ|) a join may reach from its vertex -/
def joinFactor (jt : JoinType) (ml : Rat) : Rat :=
  match jt with
  | .round => 1
  | .bevel => 1
  | .square => sqrt2Up
  | .miter => rmax ml sqrt2Up

/-- is `p` in the open rectangle swept by moving the interior of edge `a b` along its normal by less than `r`,
on the side selected by `side` (+1: left of a→b, -1: right of a→b, 0: both sides);
`mA`, `mB`: margins kept from the two end lines (0 = the end line itself belongs to the rectangle) -/
def inRect (p a b : Pt) (r : Rat) (side : Int) (mA mB : Rat) : Bool :=
  let dv := b.sub a; let w := p.sub a
  let len2 := norm2 dv
  let t := dot w dv
  let c := crs dv w   -- > 0: p left of a→b
  decide (0 < r) && decide (len2 > 0) && decide (0 ≤ t) && decide (t ≤ len2)
    && decide (((t * t : Int) : Rat) ≥ mA * mA * len2)
    && decide ((((len2 - t) * (len2 - t) : Int) : Rat) ≥ mB * mB * len2)
    && decide (((c * c : Int) : Rat) < r * r * len2)
    && (side == 0 || (side > 0 && c ≥ 0) || (side < 0 && c ≤ 0))

/-! ### C06: polygons with holes -/

structure PolyCase where
  jt : JoinType
  delta : Rat
  ml : Rat
  arc : Rat
  rev : Bool
  input : Paths
  result : Paths

/-- +1 / -1: orientation convention of the input (sign of its total signed area) -/
def inputSign (c : PolyCase) : Int := Int.sign (shoelace2s c.input)
def expectedSign (c : PolyCase) : Int := if c.rev then -(inputSign c) else inputSign c

/-- bounds `lo ≤ hi` of the sandwich: round-join results for `lo` and `hi` enclose the result -/
def sandwich (c : PolyCase) : Rat × Rat :=
  let f := joinFactor c.jt c.ml
  let a := c.delta; let b := c.delta * f
  (rmin a b, rmax a b)

/-- `p` must belong to the result -/
def polyMustIn (c : PolyCase) (segs : List Seg) (p : Pt) : Bool :=
  let inside := wind c.input p != 0
  let a := arcEff c.arc c.delta
  match c.jt with
  | .bevel =>
    let tol := tolOf a c.delta
    if c.delta > 0 then
      -- the input region itself, and every edge interior moved outwards along its normal (kept `tol` away from
      -- the two end lines of the swept rectangle: next to a short neighbouring edge they are part of the boundary)
      (inside && sdLt segs true p (c.delta - tol))
        || segs.any (fun e => inRect p e.1 e.2 (c.delta - tol) (-(inputSign c)) tol tol)
    else sdLt segs inside p (c.delta - tol)
  | _ =>
    let (lo, _) := sandwich c
    sdLt segs inside p (lo - tolOf a lo)

/-- `p` must not belong to the result -/
def polyMustOut (c : PolyCase) (segs : List Seg) (p : Pt) : Bool :=
  let inside := wind c.input p != 0
  let a := arcEff c.arc c.delta
  match c.jt with
  | .bevel =>
    let tol := tolOf a c.delta
    if c.delta > 0 then sdGt segs inside p (c.delta + tol)
    else
      -- outer bound of a bevel shrink = the input region minus the rectangles swept by its edges.  At a reflex vertex of the
      -- region (e.g. the tip of a spike of a hole) the gap between the two rectangles reaches the vertex itself and the bevel
      -- chord passes at |δ|·cos(a/2) from it, so a point outside the input is excluded only beyond the tolerance band
      -- (`tol`), not beyond `tol - |δ|`
      (!inside && sdGt segs false p tol)
        || segs.any (fun e => inRect p e.1 e.2 (-c.delta - tol) (inputSign c) tol tol)
  | _ =>
    let (_, hi) := sandwich c
    sdGt segs inside p (hi + tolOf a hi)

def strided (l : List α) (maxN : Nat) : List α :=
  let k := (l.length + maxN - 1) / maxN
  if k ≤ 1 then l else
    (l.zipIdx.filter (fun x => x.2 % k == 0)).map (·.1)

def firstSome (l : List α) (f : α → Option String) : Option String := l.findSome? f

/-- The whole judgement of one polygon offset.  `none` = conforms. -/
def judgePoly (c : PolyCase) (probes : List Pt) : Option String :=
  let segs := allEdges c.input
  let s := expectedSign c
  let inRes := fun p => wind c.result p != 0
  -- orientation: every winding number of the result is 0 or s, total area has sign s
  let orient : Option String :=
    if inputSign c == 0 then some "input has zero area"
    else if Int.sign (shoelace2s c.result) != s && shoelace2s c.result != 0 then
      some s!"orientation: result area sign {Int.sign (shoelace2s c.result)} expected {s}"
    else firstSome probes (fun p =>
      let w := wind c.result p
      -- (a winding number is meaningful only off the result's own edges: 2 units of rounding allowed)
      if w == 0 || w == s || dLe (allEdges c.result) p 2 then none
      else some s!"orientation: winding {w} at {p} expected 0 or {s}")
  match orient with
  | some e => some e
  | none =>
    if rabs c.delta < (1 : Rat) / 2 then
      -- insignificant offset: the region is unchanged — outside the tolerance band around the boundary, like every other clause
      -- (the cleaning union drops e.g. a hole that is a 'very small triangle', two vertices less than 2 units apart)
      firstSome probes (fun p =>
        if dLe segs p (tolOf (arcEff c.arc c.delta) c.delta) then none
        else if inRes p == (wind c.input p != 0) then none
        else some s!"small delta changed the region at {p}")
    else
      match firstSome probes (fun p =>
        if polyMustIn c segs p && !inRes p then some s!"missing point {p}"
        else if polyMustOut c segs p && inRes p then some s!"extra point {p}"
        else none) with
      | some e => some e
      | none =>
        -- every vertex of the result lies on the boundary of the result region, hence inside the band
        firstSome (strided c.result.flatten 256) (fun v =>
          if polyMustIn c segs v then some s!"result vertex {v} strictly inside the inner bound"
          else if polyMustOut c segs v then some s!"result vertex {v} strictly outside the outer bound"
          else none)

/-! ### C07: open paths -/

/-- `StripDuplicates`: consecutive equal points removed; for closed paths also a last point equal to the first -/
def stripDups (closed : Bool) : Path → Path
  | [] => []
  | a :: rest =>
    let r := rest.foldl (fun (acc : List Pt × Pt) q => if q == acc.2 then acc else (q :: acc.1, q)) ([a], a)
    let l := r.1.reverse
    if closed && l.length > 1 && l.getLast? == some a then l.dropLast else l

inductive CapKind | none | butt | square | round
  deriving DecidableEq, Repr

/-- one segment of an input path together with what happens at its two ends:
`CapKind.none` = a join with a neighbouring segment -/
structure SSeg where
  a : Pt
  b : Pt
  capA : CapKind
  capB : CapKind
  /-- reach of joins of this path (multiples of |δ|) -/
  fj : Rat

inductive Shape
  | point (v : Pt) (round : Bool)
  | segs (l : List SSeg) (joins : List (Pt × Pt × Pt)) (roundJoins : Bool) (bevel : Bool)

def capOf (et : EndType) : CapKind :=
  match et with
  | .butt => .butt | .square => .square | .round => .round
  | _ => .none

/-- What the stroke of one path is made of. -/
def shapeOf (jt : JoinType) (et : EndType) (ml : Rat) (raw : Path) : Option Shape :=
  let closed := et == .joined || et == .polygon
  let p := stripDups closed raw
  let fj := joinFactor jt ml
  match p with
  | [] => none
  | [v] => some (.point v (jt == .round))
  | [a, b] =>
    -- a 2-point path: open; under `Joined` the two 180° joins become round (Round) or square caps
    let cap := if closed then (if jt == .round then CapKind.round else CapKind.square) else capOf et
    some (.segs [⟨a, b, cap, cap, 1⟩] [] (jt == .round) (jt == .bevel))
  | a :: rest =>
    let pts := a :: rest
    let n := pts.length
    if closed then
      let es := edgesOf pts
      let prevs := (pts.getLast?.getD a) :: pts.dropLast
      let nexts := rest ++ [a]
      some (.segs (es.map (fun e => ⟨e.1, e.2, .none, .none, fj⟩))
        ((prevs.zip (pts.zip nexts))) (jt == .round) (jt == .bevel))
    else
      let es := segsOf pts
      let cap := capOf et
      let ss := es.zipIdx.map (fun (e, i) =>
        (⟨e.1, e.2, if i == 0 then cap else .none, if i + 2 == n then cap else .none, fj⟩ : SSeg))
      let inner := (pts.zip (rest.zip (rest.drop 1)))
      some (.segs ss inner (jt == .round) (jt == .bevel))

/-- beyond the end `v` of the segment `w → v` (strictly) -/
def beyondPos (p v w : Pt) : Bool := dot (p.sub v) (v.sub w) > 0

/-- `beyond(p) > c` for `c ≥ 0`, `beyond` = signed distance past `v` along `w → v` -/
def beyondGt (p v w : Pt) (c : Rat) : Bool :=
  let e := v.sub w; let t := dot (p.sub v) e
  decide (t > 0) && decide (((t * t : Int) : Rat) > c * c * norm2 e)
def lateralGt (p v w : Pt) (c : Rat) : Bool :=
  let e := v.sub w; let t := crs e (p.sub v)
  decide (((t * t : Int) : Rat) > c * c * norm2 e)

/-- `0 ≤ beyond(p) < r` -/
def beyondIn (p v w : Pt) (r : Rat) : Bool :=
  let e := v.sub w; let t := dot (p.sub v) e
  decide (0 < r) && decide (t ≥ 0) && decide (((t * t : Int) : Rat) < r * r * norm2 e)
/-- `|lateral(p)| < r` -/
def lateralLt (p v w : Pt) (r : Rat) : Bool :=
  let e := v.sub w; let t := crs e (p.sub v)
  decide (0 < r) && decide (((t * t : Int) : Rat) < r * r * norm2 e)

/-- `p` is in the sector between the two outward normals at the convex side of the join `prev → v → next` -/
def inCone (p prev v next : Pt) : Bool :=
  let d1 := v.sub prev; let d2 := next.sub v
  let n1 : Pt := ⟨d1.y, -d1.x⟩; let n2 : Pt := ⟨d2.y, -d2.x⟩
  let w := p.sub v
  crs d1 d2 != 0 && decide (crs n1 w ≥ 0) && decide (crs w n2 ≥ 0)

structure StrokeCase where
  jt : JoinType
  et : EndType
  delta : Rat
  ml : Rat
  arc : Rat
  input : Paths
  result : Paths

def StrokeCase.r (c : StrokeCase) : Rat := rabs c.delta
def StrokeCase.tol (c : StrokeCase) (radius : Rat) : Rat := tolOf (arcEff c.arc c.delta) radius

/-- inner bound: `p` certainly belongs to the stroke of this shape -/
def shapeMustIn (c : StrokeCase) (p : Pt) : Shape → Bool
  | .point v round =>
    let r := c.r - c.tol c.r
    let w := p.sub v
    if round then decide (0 < r) && decide (((norm2 w : Int) : Rat) < r * r)
    else decide (0 < r) && decide ((((w.x * w.x : Int)) : Rat) < r * r) && decide ((((w.y * w.y : Int)) : Rat) < r * r)
  | .segs l joins _ bevel =>
    let tol := c.tol c.r
    let r := c.r - tol
    if c.jt == .round && l.all (fun s => (s.capA == .round || s.capA == .none) && (s.capB == .round || s.capB == .none)) then
      -- round joins and round ends: everything closer than |δ| - tol to the polyline
      dLt (l.map (fun s => (s.a, s.b))) p r
    else
      -- rectangles of the segments (kept `tol` away from their end lines: at a butt end, and next to a short
      -- neighbouring segment, these are part of the boundary)
      l.any (fun s => inRect p s.a s.b r 0 tol tol)
      -- convex side of every join (round, square and miter joins all contain the circular sector)
      || (!bevel && decide (0 < r) && joins.any (fun (pv, v, nx) => inCone p pv v nx && decide (((norm2 (p.sub v) : Int) : Rat) < r * r)))
      -- caps
      || l.any (fun s =>
          let cap := fun (kind : CapKind) (v w : Pt) =>
            match kind with
            | .round => beyondIn p v w r && decide (((norm2 (p.sub v) : Int) : Rat) < r * r)
            | .square => beyondIn p v w r && lateralLt p v w r
            | _ => false
          cap s.capA s.a s.b || cap s.capB s.b s.a)

/-- outer bound: is `p` covered by the generous hull of one segment with its joins / caps? -/
def segCovers (c : StrokeCase) (p : Pt) (s : SSeg) : Bool :=
  let rj := c.r * s.fj
  let rJoin := rj + c.tol rj
  let rc := c.r + c.tol c.r
  let capCovers := fun (kind : CapKind) (v w : Pt) =>
    match kind with
    | .butt => !beyondGt p v w (c.tol c.r) && !lateralGt p v w rc
    | .square => !beyondGt p v w rc && !lateralGt p v w rc
    | .round => decide (((norm2 (p.sub v) : Int) : Rat) ≤ rc * rc)
    | .none => false
  if s.capA != .none && beyondPos p s.a s.b then capCovers s.capA s.a s.b
  else if s.capB != .none && beyondPos p s.b s.a then capCovers s.capB s.b s.a
  else dLe [(s.a, s.b)] p rJoin

def shapeCovers (c : StrokeCase) (p : Pt) : Shape → Bool
  | .point v round =>
    let r := c.r + c.tol c.r
    let w := p.sub v
    if round then decide (((norm2 w : Int) : Rat) ≤ r * r)
    else decide ((((w.x * w.x : Int)) : Rat) ≤ r * r) && decide ((((w.y * w.y : Int)) : Rat) ≤ r * r)
  | .segs l _ _ _ => l.any (segCovers c p)

def judgeStroke (c : StrokeCase) (probes : List Pt) : Option String :=
  let shapes := c.input.filterMap (shapeOf c.jt c.et c.ml)
  -- a single point is offset only when |δ| ≥ 1 (`if (group_delta_ < 1) continue`): below that the tolerance
  -- band (≥ 2 units) contains the whole shape anyway
  let inRes := fun p => wind c.result p != 0
  let mustIn := fun p => shapes.any (shapeMustIn c p)
  let mustOut := fun p => !shapes.any (shapeCovers c p)
  match firstSome probes (fun p =>
    let w := wind c.result p
    if w != 0 && w != 1 && !dLe (allEdges c.result) p 2 then some s!"orientation: winding {w} at {p} expected 0 or 1"
    else if mustIn p && !inRes p then some s!"missing point {p}"
    else if mustOut p && inRes p then some s!"extra point {p}"
    else none) with
  | some e => some e
  | none =>
    firstSome (strided c.result.flatten 256) (fun v =>
      if mustIn v then some s!"result vertex {v} strictly inside the inner bound"
      else if mustOut v then some s!"result vertex {v} strictly outside the outer bound"
      else none)

/-- how many probes are decided by the inner bound / by the outer bound / lie in the tolerance band (evidence only) -/
def countStroke (c : StrokeCase) (probes : List Pt) : Nat × Nat × Nat :=
  let shapes := c.input.filterMap (shapeOf c.jt c.et c.ml)
  probes.foldl (fun (a, b, n) p =>
    if shapes.any (shapeMustIn c p) then (a + 1, b, n)
    else if !shapes.any (shapeCovers c p) then (a, b + 1, n) else (a, b, n + 1)) (0, 0, 0)

def countPoly (c : PolyCase) (probes : List Pt) : Nat × Nat × Nat :=
  let segs := allEdges c.input
  probes.foldl (fun (a, b, n) p =>
    if polyMustIn c segs p then (a + 1, b, n)
    else if polyMustOut c segs p then (a, b + 1, n) else (a, b, n + 1)) (0, 0, 0)

/-! ### comparisons of two results -/

/-- canonical form of a closed path: rotated to its smallest vertex -/
def ptLt (a b : Pt) : Bool := a.x < b.x || (a.x == b.x && a.y < b.y)
def canonPath (p : Path) : Path :=
  match p with
  | [] => []
  | a :: rest =>
    let m := rest.foldl (fun m q => if ptLt q m then q else m) a
    let i := (p.findIdx? (· == m)).getD 0
    p.drop i ++ p.take i
def pathKey (p : Path) : List Int := p.flatMap (fun q => [q.x, q.y])
def listLt : List Int → List Int → Bool
  | [], [] => false
  | [], _ :: _ => true
  | _ :: _, [] => false
  | a :: as, b :: bs => a < b || (a == b && listLt as bs)
def canonPaths (ps : Paths) : List (List Int) :=
  ((ps.map (fun p => pathKey (canonPath p))).toArray.qsort listLt).toList

def samePaths (a b : Paths) : Bool := canonPaths a == canonPaths b

/-- regions of `a` and `b` agree at every probe farther than `tol` from both boundaries -/
def sameRegion (a b : Paths) (tol : Rat) (probes : List Pt) : Option String :=
  let ea := allEdges a; let eb := allEdges b
  firstSome probes (fun p =>
    if dLe ea p tol || dLe eb p tol then none
    else if (wind a p != 0) == (wind b p != 0) then none
    else some s!"regions differ at {p}")

end Clipper.Offset
