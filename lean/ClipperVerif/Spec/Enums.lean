/- Enumerations of the C++ API (same constructor order as the C++ enums) and the few helper
functions the generated code refers to. -/
import ClipperVerif.Spec.Basic
namespace Clipper

/-- rectclip `Location` -/
inductive Location | left | top | right | bottom | inside
  deriving DecidableEq, Repr, Inhabited
inductive JoinType | square | bevel | round | miter
  deriving DecidableEq, Repr, Inhabited
inductive EndType | polygon | joined | butt | square | round
  deriving DecidableEq, Repr, Inhabited
inductive JoinWith | noJoin | left | right
  deriving DecidableEq, Repr, Inhabited
inductive PipResult | isOn | isInside | isOutside
  deriving DecidableEq, Repr, Inhabited

def Location.toNat : Location → Nat
  | .left => 0 | .top => 1 | .right => 2 | .bottom => 3 | .inside => 4
def Location.ofNat' : Nat → Location
  | 0 => .left | 1 => .top | 2 => .right | 3 => .bottom | _ => .inside

namespace Gen
/-- `std::abs` on a signed integer, mathematically (undefined in C++ for the minimum value;
theorems state that precondition) -/
def iabs (x : Int) : Int := if x < 0 then -x else x
/-- `static_cast<uint64_t>` of a signed value: reduction modulo 2^64 -/
def toU64 (x : Int) : UInt64 := UInt64.ofNat (x % 18446744073709551616).toNat
def ofU64 (x : UInt64) : Int := Int.ofNat x.toNat
/-- bitwise or / and on small non-negative error-code masks -/
def intOr (a b : Int) : Int := Int.ofNat (a.toNat ||| b.toNat)
/-- `a & b` for a non-negative mask `b < 2^64` and any two's-complement `a` -/
def intAnd (a b : Int) : Int := Int.ofNat ((a % 18446744073709551616).toNat &&& b.toNat)

/-- `static_cast<int>(enum)` / `static_cast<Enum>(int)` for the scoped enums -/
class CEnum (α : Type) where
  toInt : α → Int
  ofInt : Int → α
def enumToInt {α} [CEnum α] (a : α) : Int := CEnum.toInt a
def enumOfInt {α} [CEnum α] (i : Int) : α := CEnum.ofInt i
instance : CEnum Location where
  toInt l := Int.ofNat l.toNat
  ofInt i := Location.ofNat' i.toNat
instance : CEnum FillRule where
  toInt | .evenOdd => 0 | .nonZero => 1 | .positive => 2 | .negative => 3
  ofInt i := match i with | 0 => .evenOdd | 1 => .nonZero | 2 => .positive | _ => .negative
instance : CEnum ClipType where
  toInt | .noClip => 0 | .intersection => 1 | .union => 2 | .difference => 3 | .xor => 4
  ofInt i := match i with | 0 => .noClip | 1 => .intersection | 2 => .union | 3 => .difference | _ => .xor
end Gen
end Clipper
