/- SimplifyPath helper lemmas for Props/C20.lean: GetNext/GetPrior never run off the flags vector, every iteration of
the `for (;;)` loop flags one more vertex, and (open paths) never an end point. -/
import ClipperVerif.Lemmas.Strip
namespace Clipper.Lemmas.PathUtil
open Clipper Clipper.Model.PathUtil

variable {D : Type}

theorem firstUp_some (flags : List Bool) (i high n : Nat) (h : firstUp flags i high = some n) :
    i ≤ n ∧ n ≤ high ∧ flagAt flags n = false ∧ ∀ j, i ≤ j → j < n → flagAt flags j = true := by
  unfold firstUp at h
  rw [List.find?_range'_eq_some] at h
  obtain ⟨h1, h2, h3⟩ := h
  rw [List.mem_range'_1] at h2
  refine ⟨h2.1, by omega, by simpa using h1, ?_⟩
  intro j hj1 hj2
  simpa using h3 j hj1 hj2

theorem firstUp_none (flags : List Bool) (i high : Nat) (h : firstUp flags i high = none) :
    ∀ j, i ≤ j → j ≤ high → flagAt flags j = true := by
  unfold firstUp at h
  rw [List.find?_range'_eq_none] at h
  intro j h1 h2
  simpa using h j h1 (by omega)

theorem firstDown_some (flags : List Bool) (i n : Nat) (h : firstDown flags i = some n) :
    n ≤ i ∧ flagAt flags n = false := by
  unfold firstDown at h
  have h1 := List.find?_some h
  have h2 := List.mem_of_find?_eq_some h
  rw [List.mem_reverse, List.mem_range] at h2
  exact ⟨by omega, by simpa using h1⟩

theorem firstDown_none (flags : List Bool) (i : Nat) (h : firstDown flags i = none) :
    ∀ j, j ≤ i → flagAt flags j = true := by
  unfold firstDown at h
  rw [List.find?_eq_none] at h
  intro j hj
  have := h j (by rw [List.mem_reverse, List.mem_range]; omega)
  simpa using this

theorem getNext_some (cur high : Nat) (flags : List Bool) (n : Nat) (h : getNext cur high flags = some n) :
    n ≤ high ∧ flagAt flags n = false := by
  unfold getNext at h
  split at h
  · rename_i j hj
    injection h with h; subst h
    have := firstUp_some _ _ _ _ hj; exact ⟨this.2.1, this.2.2.1⟩
  · have := firstUp_some _ _ _ _ h; exact ⟨this.2.1, this.2.2.1⟩

theorem getNext_exists (cur high : Nat) (flags : List Bool) (j : Nat) (hj : j ≤ high)
    (hf : flagAt flags j = false) : ∃ n, getNext cur high flags = some n := by
  unfold getNext
  split
  · exact ⟨_, rfl⟩
  · cases h : firstUp flags 0 high with
    | some n => exact ⟨n, rfl⟩
    | none =>
      have := firstUp_none _ _ _ h j (Nat.zero_le _) hj
      rw [hf] at this; exact absurd this (by simp)

/-- if `GetNext(curr)` returns `curr` itself, `curr` is the only unflagged index -/
theorem getNext_self (cur high : Nat) (flags : List Bool) (h : getNext cur high flags = some cur) :
    ∀ j, j ≤ high → flagAt flags j = false → j = cur := by
  unfold getNext at h
  intro j hj hf
  split at h
  · rename_i n hn
    injection h with h; subst h
    have := (firstUp_some _ _ _ _ hn).1; omega
  · rename_i hnone
    have h1 := firstUp_none _ _ _ hnone
    have h2 := firstUp_some _ _ _ _ h
    by_cases hlt : j < cur
    · have := h2.2.2.2 j (Nat.zero_le _) hlt; rw [hf] at this; exact absurd this (by simp)
    · by_cases hgt : cur < j
      · have := h1 j (by omega) hj; rw [hf] at this; exact absurd this (by simp)
      · omega

theorem getPrior_some (cur high : Nat) (flags : List Bool) (hc : cur ≤ high) (n : Nat)
    (h : getPrior cur high flags = some n) : n ≤ high ∧ flagAt flags n = false := by
  unfold getPrior at h
  split at h
  · rename_i j hj
    injection h with h; subst h
    have := firstDown_some _ _ _ hj
    refine ⟨?_, this.2⟩
    have := this.1
    split at this <;> omega
  · have := firstDown_some _ _ _ h; exact ⟨this.1, this.2⟩

theorem getPrior_exists (cur high : Nat) (flags : List Bool) (j : Nat) (hj : j ≤ high)
    (hf : flagAt flags j = false) : ∃ n, getPrior cur high flags = some n := by
  unfold getPrior
  split
  · exact ⟨_, rfl⟩
  · cases h : firstDown flags high with
    | some n => exact ⟨n, rfl⟩
    | none =>
      have := firstDown_none _ _ h j hj
      rw [hf] at this; exact absurd this (by simp)

theorem flagAt_set (flags : List Bool) (c j : Nat) (hc : c < flags.length) :
    flagAt (flags.set c true) j = if c = j then true else flagAt flags j := by
  unfold flagAt
  rw [List.getD_eq_getElem?_getD, List.getD_eq_getElem?_getD, List.getElem?_set]
  split
  · rfl
  · rfl

theorem flagAt_false_lt (flags : List Bool) (j : Nat) (h : flagAt flags j = false) : j < flags.length := by
  unfold flagAt at h
  rw [List.getD_eq_getElem?_getD] at h
  cases hj : flags[j]? with
  | none => rw [hj] at h; simp at h
  | some b => exact (List.getElem?_eq_some_iff.mp hj).1

theorem count_set_true (flags : List Bool) (c : Nat) (h : flagAt flags c = false) :
    (flags.set c true).count false + 1 = flags.count false := by
  have hc := flagAt_false_lt flags c h
  have hv : flags[c] = false := by
    unfold flagAt at h
    rw [List.getD_eq_getElem?_getD, List.getElem?_eq_getElem hc] at h
    simpa using h
  rw [List.count_set hc, hv]
  have : 0 < flags.count false := List.count_pos_iff.mpr (by rw [← hv]; exact List.getElem_mem hc)
  simp; omega

theorem distAt_set_ne (ops : DistOps D) (dist : List D) (c j : Nat) (v : D) (h : c ≠ j) :
    distAt ops (dist.set c v) j = distAt ops dist j := by
  unfold distAt
  rw [List.getD_eq_getElem?_getD, List.getD_eq_getElem?_getD, List.getElem?_set_ne h]

/-- state invariant of the `for (;;)` loop -/
def SInv (len : Nat) (flags : List Bool) (curr : Nat) : Prop :=
  flags.length = len ∧ curr ≤ len - 1 ∧ flagAt flags curr = false

/-- extra invariant for open paths: both end points unflagged and their `distSqr` still `MAX_DBL` -/
def SOpen (ops : DistOps D) (high : Nat) (flags : List Bool) (dist : List D) : Prop :=
  flagAt flags 0 = false ∧ flagAt flags high = false ∧
  distAt ops dist 0 = ops.maxD ∧ distAt ops dist high = ops.maxD

theorem scan_some (ops : DistOps D) (eps : D) (high : Nat) (flags : List Bool) (dist : List D) (start c : Nat)
    (hs : start ≤ high) (h : scan ops eps high flags dist start = some c) :
    c ≤ high ∧ flagAt flags c = false ∧ ops.le (distAt ops dist c) eps = true := by
  unfold scan at h
  have h1 := List.find?_some h
  have h2 := List.mem_of_find?_eq_some h
  simp only [Bool.and_eq_true, Bool.not_eq_eq_eq_not, Bool.not_true] at h1
  refine ⟨?_, h1.1, h1.2⟩
  rw [List.mem_append, List.mem_range'_1, List.mem_range] at h2
  omega

theorem sopen_step (ops : DistOps D) (high : Nat) (flags : List Bool) (dist : List D)
    (k i1 i2 : Nat) (v1 v2 : D) (g1 g2 : Bool) (hk : k < flags.length) (hk0 : k ≠ 0) (hkh : k ≠ high)
    (hg1 : g1 = true → i1 ≠ 0 ∧ i1 ≠ high) (hg2 : g2 = true → i2 ≠ 0 ∧ i2 ≠ high)
    (h : SOpen ops high flags dist) :
    SOpen ops high (flags.set k true)
      (if g2 = true then (if g1 = true then dist.set i1 v1 else dist).set i2 v2
        else (if g1 = true then dist.set i1 v1 else dist)) := by
  obtain ⟨h1, h2, h3, h4⟩ := h
  have hd1 : ∀ j, (j = 0 ∨ j = high) →
      distAt ops (if g1 = true then dist.set i1 v1 else dist) j = distAt ops dist j := by
    intro j hj
    split
    · rename_i hg
      have := hg1 hg
      exact distAt_set_ne ops dist i1 j v1 (by omega)
    · rfl
  have hd2 : ∀ j, (j = 0 ∨ j = high) →
      distAt ops (if g2 = true then (if g1 = true then dist.set i1 v1 else dist).set i2 v2
        else (if g1 = true then dist.set i1 v1 else dist)) j = distAt ops dist j := by
    intro j hj
    split
    · rename_i hg
      have := hg2 hg
      rw [distAt_set_ne ops _ i2 j v2 (by omega)]; exact hd1 j hj
    · exact hd1 j hj
  refine ⟨?_, ?_, ?_, ?_⟩
  · rw [flagAt_set _ _ _ hk, if_neg hk0]; exact h1
  · rw [flagAt_set _ _ _ hk, if_neg hkh]; exact h2
  · rw [hd2 0 (Or.inl rfl)]; exact h3
  · rw [hd2 high (Or.inr rfl)]; exact h4

theorem guard1 (closed : Bool) (hc : closed = false) (i high : Nat) :
    (closed || (i != high && i != 0)) = true → i ≠ 0 ∧ i ≠ high := by
  subst hc; simp; omega

theorem guard2 (closed : Bool) (hc : closed = false) (i high : Nat) :
    (closed || (i != 0 && i != high)) = true → i ≠ 0 ∧ i ≠ high := by
  subst hc; simp

/-- One iteration of the loop: never a fault; if it continues, exactly one more vertex is flagged, the invariant
holds again, and (open path, `epsSqr < MAX_DBL`) the end points stay unflagged. -/
theorem simplifyStep_spec (ops : DistOps D) (path : List Pt) (eps : D) (closed : Bool)
    (flags : List Bool) (dist : List D) (curr : Nat) (hinv : SInv path.length flags curr) :
    match simplifyStep ops path eps closed (path.length - 1) flags dist curr with
    | .exit => True
    | .fault => False
    | .cont f' d' c' =>
        SInv path.length f' c' ∧ f'.count false + 1 = flags.count false ∧
        (closed = false → (∀ a b, ops.le a b = true ∨ ops.le b a = true) →
          (∀ a b c, ops.le a b = true → ops.le b c = true → ops.le a c = true) →
          ops.le ops.maxD eps = false → SOpen ops (path.length - 1) flags dist →
          SOpen ops (path.length - 1) f' d') := by
  obtain ⟨hlen, hcurr, hcf⟩ := hinv
  unfold simplifyStep
  -- the vertex the iteration works on
  generalize hc0 : (if (!ops.le (distAt ops dist curr) eps) = true then
      scan ops eps (path.length - 1) flags dist curr else some curr) = c0
  cases c0 with
  | none => trivial
  | some c =>
    have hc : c ≤ path.length - 1 ∧ flagAt flags c = false ∧ ops.le (distAt ops dist c) eps = true := by
      split at hc0
      · exact scan_some ops eps _ flags dist curr c hcurr hc0
      · rename_i hn
        injection hc0 with hc0; subst hc0
        exact ⟨hcurr, hcf, by simpa using hn⟩
    obtain ⟨hcle, hcfl, hcd⟩ := hc
    simp only []
    obtain ⟨prior, hprior⟩ := getPrior_exists c (path.length - 1) flags c hcle hcfl
    obtain ⟨next, hnext⟩ := getNext_exists c (path.length - 1) flags c hcle hcfl
    rw [hprior, hnext]
    simp only []
    have hp := getPrior_some _ _ _ hcle _ hprior
    have hn := getNext_some _ _ _ _ hnext
    by_cases hnp : next = prior
    · rw [if_pos hnp]; trivial
    · rw [if_neg hnp]
      have hnc : next ≠ c := by
        intro he
        rw [he] at hnext
        have hall := getNext_self _ _ _ hnext
        exact hnp (by rw [he, hall prior hp.1 hp.2])
      -- the selection of the vertex to flag
      by_cases hsel : (!ops.le (distAt ops dist c) (distAt ops dist next)) = true
      · -- flag `next`
        rw [if_pos hsel]
        obtain ⟨n2, hn2⟩ := getNext_exists next (path.length - 1) flags c hcle hcfl
        rw [hn2]
        simp only [Option.map_some]
        have hn2s := getNext_some _ _ _ _ hn2
        have hnlt := flagAt_false_lt flags next hn.2
        have hcf' : flagAt (flags.set next true) c = false := by
          rw [flagAt_set _ _ _ hnlt, if_neg hnc]; exact hcfl
        obtain ⟨n3, hn3⟩ := getNext_exists n2 (path.length - 1) (flags.set next true) c hcle hcf'
        rw [hn3]
        simp only []
        have hn3s := getNext_some _ _ _ _ hn3
        -- n2 is unflagged in the old flags and differs from `next`?  it is unflagged in the new flags iff ≠ next
        have hn2ne : n2 ≠ next := by
          intro he
          rw [he] at hn2
          exact hnc ((getNext_self _ _ _ hn2 c hcle hcfl).symm)
        refine ⟨⟨by rw [List.length_set]; exact hlen, hn2s.1, ?_⟩, count_set_true flags next hn.2, ?_⟩
        · rw [flagAt_set _ _ _ hnlt, if_neg (fun e => hn2ne e.symm)]; exact hn2s.2
        · intro hcl htot htr hmax hopen
          have hnle : ops.le (distAt ops dist next) eps = true := by
            have h1 : ops.le (distAt ops dist c) (distAt ops dist next) = false := by simpa using hsel
            cases htot (distAt ops dist next) (distAt ops dist c) with
            | inl h => exact htr _ _ _ h hcd
            | inr h => rw [h1] at h; exact absurd h (by simp)
          have hk0 : next ≠ 0 := by
            intro e; rw [e, hopen.2.2.1, hmax] at hnle; exact absurd hnle (by simp)
          have hkh : next ≠ path.length - 1 := by
            intro e; rw [e, hopen.2.2.2, hmax] at hnle; exact absurd hnle (by simp)
          exact sopen_step ops _ flags dist next n2 c _ _ _ _ hnlt hk0 hkh
            (guard1 closed hcl n2 _) (guard2 closed hcl c _) hopen
      · -- flag `c`
        rw [if_neg hsel]
        obtain ⟨p2, hp2⟩ := getPrior_exists prior (path.length - 1) flags c hcle hcfl
        rw [hp2]
        simp only [Option.map_some]
        have hclt := flagAt_false_lt flags c hcfl
        have hnf' : flagAt (flags.set c true) next = false := by
          rw [flagAt_set _ _ _ hclt, if_neg (fun e => hnc e.symm)]; exact hn.2
        obtain ⟨n3, hn3⟩ := getNext_exists next (path.length - 1) (flags.set c true) next hn.1 hnf'
        rw [hn3]
        simp only []
        refine ⟨⟨by rw [List.length_set]; exact hlen, hn.1, hnf'⟩, count_set_true flags c hcfl, ?_⟩
        intro hcl htot htr hmax hopen
        have hk0 : c ≠ 0 := by
          intro e; rw [e, hopen.2.2.1, hmax] at hcd; exact absurd hcd (by simp)
        have hkh : c ≠ path.length - 1 := by
          intro e; rw [e, hopen.2.2.2, hmax] at hcd; exact absurd hcd (by simp)
        exact sopen_step ops _ flags dist c next prior _ _ _ _ hclt hk0 hkh
          (guard1 closed hcl next _) (guard2 closed hcl prior _) hopen

/-- The `for (;;)` loop: with fuel above the number of unflagged vertices it terminates normally (no fault, fuel not
exhausted); for an open path with `epsSqr < MAX_DBL` both end points are unflagged at exit. -/
theorem simplifyLoop_spec (ops : DistOps D) (path : List Pt) (eps : D) (closed : Bool) :
    ∀ (fuel : Nat) (flags : List Bool) (dist : List D) (curr : Nat),
      SInv path.length flags curr → flags.count false < fuel →
      ∃ f', simplifyLoop ops path eps closed (path.length - 1) fuel flags dist curr = some f' ∧
        f'.length = path.length ∧
        (closed = false → (∀ a b, ops.le a b = true ∨ ops.le b a = true) →
          (∀ a b c, ops.le a b = true → ops.le b c = true → ops.le a c = true) →
          ops.le ops.maxD eps = false → SOpen ops (path.length - 1) flags dist →
          flagAt f' 0 = false ∧ flagAt f' (path.length - 1) = false) := by
  intro fuel
  induction fuel with
  | zero => intro flags dist curr _ h; omega
  | succ fuel ih =>
    intro flags dist curr hinv hfuel
    have hstep := simplifyStep_spec ops path eps closed flags dist curr hinv
    simp only [simplifyLoop]
    generalize simplifyStep ops path eps closed (path.length - 1) flags dist curr = st at hstep
    cases st with
    | exit =>
      exact ⟨flags, rfl, hinv.1, fun _ _ _ _ ho => ⟨ho.1, ho.2.1⟩⟩
    | fault => exact absurd hstep (by simp)
    | cont f1 d1 c1 =>
      simp only [] at hstep ⊢
      obtain ⟨hinv1, hcount, hopen⟩ := hstep
      obtain ⟨f', hf', hlen', hends⟩ := ih f1 d1 c1 hinv1 (by omega)
      exact ⟨f', hf', hlen', fun hc ht htr hm ho => hends hc ht htr hm (hopen hc ht htr hm ho)⟩

theorem simplifyInit_inv (n : Nat) (hn : 0 < n) : SInv n (List.replicate n false) 0 := by
  refine ⟨by simp, by omega, ?_⟩
  unfold flagAt; rw [List.getD_eq_getElem?_getD, List.getElem?_replicate, if_pos hn]; rfl

theorem simplifyInit_open (ops : DistOps D) (path : List Pt) (hn : 2 ≤ path.length) :
    SOpen ops (path.length - 1) (List.replicate path.length false) (simplifyInitDist ops path false) := by
  have hf : ∀ j, j < path.length → flagAt (List.replicate path.length false) j = false := by
    intro j hj
    unfold flagAt; rw [List.getD_eq_getElem?_getD, List.getElem?_replicate, if_pos hj]; rfl
  refine ⟨hf 0 (by omega), hf _ (by omega), ?_, ?_⟩
  · unfold distAt simplifyInitDist
    rw [List.getD_eq_getElem?_getD, List.getElem?_map, List.getElem?_range (by omega)]
    simp
  · unfold distAt simplifyInitDist
    rw [List.getD_eq_getElem?_getD, List.getElem?_map, List.getElem?_range (by omega)]
    simp only [Option.map_some, Option.getD_some]
    rw [if_neg (by omega)]; simp

end Clipper.Lemmas.PathUtil
