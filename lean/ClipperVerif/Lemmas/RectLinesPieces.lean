/-
C09 `lines_cover`: consequences of the per-segment description `Cover` that are stated over whole runs —
which vertices are added, where new pieces start, how many pieces there are.  Core Lean only.
-/
import ClipperVerif.Lemmas.RectLinesSegGeo
namespace Clipper.Lemmas.RLV
open Clipper Clipper.Model.RC Clipper.Lemmas.RC Clipper.Lemmas.RCE Clipper.Lemmas.RCA Clipper.Lemmas.RLC
open Clipper.Lemmas.RLG

def isVertex (e : Emit) : Bool := e.kind == .vertex

/-- the `Add(path[k])` calls for the vertices of class in, in order (vertices `k, k+1, …` = `l`, the class of the
vertex before them being `ip`) -/
def inVerts (r : Rect) : Nat → Bool → List Pt → List Emit
  | _, _, [] => []
  | k, ip, p :: ps => (if clsNext r ip p then [V k p] else []) ++ inVerts r (k + 1) (clsNext r ip p) ps

theorem segPart_vertices {A : Arith} {r : Rect} {k : Nat} {prv cur : Pt} {ip ic : Bool} {es : List Emit}
    (h : SegPart A r k prv cur ip ic es) : es.filter isVertex = if ic then [V k cur] else [] := by
  cases ip <;> cases ic <;> simp only [SegPart] at h
  · rcases h with ⟨rfl, _⟩ | ⟨loc, loc2, _, _, _, _, _, _, rfl⟩ <;> simp [isVertex]
  · obtain ⟨_, rfl⟩ := h; simp [isVertex, V]
  · obtain ⟨loc, _, _, rfl⟩ := h; simp [isVertex]
  · subst h; simp [isVertex, V]

/-- **The vertex calls of a run are exactly the vertices of class in, once each, in input order.** -/
theorem tail_vertices {A : Arith} {r : Rect} : ∀ (l : List Pt) (prv : Pt) (k : Nat) (ip : Bool) (es : List Emit),
    Tail A r k ip (prv :: l) es → es.filter isVertex = inVerts r k ip l
  | [], _, _, _, _, ht => by
    unfold Tail at ht; simp only [TailP] at ht; subst ht; simp [inVerts]
  | cur :: rest, prv, k, ip, es, ht => by
    unfold Tail at ht
    unfold TailP at ht
    obtain ⟨e1, e2, rfl, h1, h2⟩ := ht
    rw [List.filter_append, segPart_vertices h1, tail_vertices rest cur (k + 1) _ e2 h2]
    simp only [inVerts]

theorem cover_vertices {A : Arith} {r : Rect} {p0 : Pt} {rest : List Pt} {es : List Emit}
    (h : Cover A r (p0 :: rest) es) :
    es.filter isVertex = (if cls0 r (p0 :: rest) then [V 0 p0] else []) ++ inVerts r 1 (cls0 r (p0 :: rest)) rest := by
  unfold Cover CoverP at h
  obtain ⟨e2, rfl, ht⟩ := h
  rw [List.filter_append, tail_vertices rest p0 1 _ e2 ht]
  congr 1
  split <;> simp [isVertex, V]

/-! ### where new pieces start -/

theorem tail_head_new {A : Arith} {r : Rect} : ∀ (l : List Pt) (k : Nat) (es : List Emit),
    Tail A r k false l es → es = [] ∨ ∃ e rest, es = e :: rest ∧ e.startNew = true
  | [], _, _, ht => by unfold Tail at ht; simp only [TailP] at ht; exact Or.inl ht
  | [_], _, _, ht => by unfold Tail at ht; simp only [TailP] at ht; exact Or.inl ht
  | prv :: cur :: rest, k, es, ht => by
    unfold Tail at ht
    unfold TailP at ht
    obtain ⟨e1, e2, rfl, h1, h2⟩ := ht
    generalize clsNext r false cur = ic at h1 h2
    cases ic
    · simp only [SegPart] at h1
      rcases h1 with ⟨rfl, _⟩ | ⟨loc, loc2, _, _, _, _, _, _, rfl⟩
      · simpa using tail_head_new (cur :: rest) (k + 1) e2 h2
      · exact Or.inr ⟨_, _, rfl, rfl⟩
    · simp only [SegPart] at h1
      obtain ⟨_, rfl⟩ := h1
      exact Or.inr ⟨_, _, rfl, rfl⟩

/-- **Number of rings built by `Add`**: one for a first vertex of class in, plus one for every `start_new` call. -/
theorem rings_count {A : Arith} {r : Rect} {path : Path} {es : List Emit} (h : Cover A r path es) :
    (addAll (es.map (fun e => (e.pt, e.startNew)))).length =
      (if cls0 r path then 1 else 0) + (es.filter (·.startNew)).length := by
  have hcnt : ∀ l : List Emit, ((l.map (fun e => (e.pt, e.startNew))).filter (·.2)).length =
      (l.filter (·.startNew)).length := by
    intro l; induction l with
    | nil => rfl
    | cons a l ih => simp only [List.map_cons, List.filter_cons]; cases a.startNew <;> simp [ih]
  unfold Cover CoverP at h
  match path, h with
  | [], h => subst h; simp [addAll, cls0]
  | p0 :: rest, h =>
    obtain ⟨e2, rfl, ht⟩ := h
    cases hc : cls0 r (p0 :: rest)
    · rw [hc] at ht
      simp only [Bool.false_eq_true, if_false, List.nil_append, Nat.zero_add]
      rcases tail_head_new _ _ _ ht with rfl | ⟨e, rest', rfl, he⟩
      · simp [addAll]
      · rw [List.map_cons, addAll_length, hcnt, List.filter_cons, he]
        simp; omega
    · simp only [if_true, List.singleton_append]
      rw [List.map_cons, addAll_length, hcnt]
      simp [V]

/-- every `start_new` call belongs to a segment whose first vertex is of class out -/
theorem tail_startNew {A : Arith} {r : Rect} : ∀ (l : List Pt) (k : Nat) (ip : Bool) (es : List Emit),
    Tail A r k ip l es → ∀ e ∈ es, e.startNew = true →
      ∃ t prv, l[t]? = some prv ∧ e.k = k + t ∧ (ip :: classesFrom r ip l.tail)[t]? = some false
  | [], _, _, _, ht => by unfold Tail at ht; simp only [TailP] at ht; subst ht; simp
  | [_], _, _, _, ht => by unfold Tail at ht; simp only [TailP] at ht; subst ht; simp
  | prv :: cur :: rest, k, ip, es, ht => by
    unfold Tail at ht
    unfold TailP at ht
    obtain ⟨e1, e2, rfl, h1, h2⟩ := ht
    intro e he hs
    rcases List.mem_append.mp he with he | he
    · refine ⟨0, prv, by simp, ?_, ?_⟩
      · generalize clsNext r ip cur = ic at h1
        cases ip <;> cases ic <;> simp only [SegPart] at h1
        · rcases h1 with ⟨rfl, _⟩ | ⟨loc, loc2, _, _, _, _, _, _, rfl⟩
          · simp at he
          · simp only [List.mem_cons, List.not_mem_nil, or_false] at he
            rcases he with rfl | rfl <;> simp
        · obtain ⟨_, rfl⟩ := h1
          simp only [List.mem_cons, List.not_mem_nil, or_false] at he
          rcases he with rfl | rfl <;> simp [V]
        · obtain ⟨loc, _, _, rfl⟩ := h1
          simp only [List.mem_singleton] at he
          subst he; simp
        · subst h1
          simp only [List.mem_singleton] at he
          subst he; simp [V]
      · generalize clsNext r ip cur = ic at h1
        cases ip
        · simp
        · exfalso
          cases ic <;> simp only [SegPart] at h1
          · obtain ⟨loc, _, _, rfl⟩ := h1
            simp only [List.mem_singleton] at he
            subst he; simp at hs
          · subst h1
            simp only [List.mem_singleton] at he
            subst he; simp [V] at hs
    · obtain ⟨t, q, hq, hk, hc⟩ := tail_startNew (cur :: rest) (k + 1) _ e2 h2 e he hs
      refine ⟨t + 1, q, by simpa using hq, by omega, ?_⟩
      simpa [classesFrom] using hc

theorem classesFrom_getElem {r : Rect} : ∀ (l : List Pt) (ip : Bool) (t : Nat) (c : Bool) (p : Pt),
    (classesFrom r ip l)[t]? = some c → l[t]? = some p → ∃ ip', c = clsNext r ip' p
  | [], _, _, _, _, h, _ => by simp [classesFrom] at h
  | q :: qs, ip, 0, c, p, h, hp => by
    simp only [classesFrom, List.getElem?_cons_zero, Option.some.injEq] at h hp
    subst hp; exact ⟨ip, h.symm⟩
  | q :: qs, ip, t + 1, c, p, h, hp => by
    simp only [classesFrom, List.getElem?_cons_succ] at h hp
    exact classesFrom_getElem qs _ t c p h hp

/-- a vertex of class out is not strictly inside; if it is not on the boundary either, it is outside the closed
rectangle -/
theorem class_false {r : Rect} {path : Path} {t : Nat} {p : Pt} (hc : (classes r path)[t]? = some false)
    (hp : path[t]? = some p) : sInB r p = false ∧ (onBd r p = false → inRect r p = false) := by
  have key : sInB r p = false → (sInB r p = false ∧ (onBd r p = false → inRect r p = false)) := by
    intro hs
    refine ⟨hs, fun hb => ?_⟩
    cases hi : inRect r p
    · rfl
    · exfalso
      have hns : ¬ SIn r p := fun h => by rw [(sInB_iff r p).mpr h] at hs; cases hs
      have hnb : ¬ OnBoundary r p := by
        intro hbd
        have := (getLocation_fst r p .inside).mpr hbd
        unfold onBd at hb; rw [this] at hb; cases hb
      rw [inRect_iff] at hi
      unfold SIn at hns; unfold OnBoundary at hnb
      omega
  match path, t, hc, hp with
  | p0 :: rest, 0, hc, hp =>
    simp only [classes, List.getElem?_cons_zero, Option.some.injEq] at hc hp
    subst hp
    apply key
    unfold cls0 at hc
    simp only [Bool.or_eq_false_iff] at hc
    exact hc.1
  | p0 :: rest, t + 1, hc, hp =>
    simp only [classes, List.getElem?_cons_succ] at hc hp
    obtain ⟨ip', h⟩ := classesFrom_getElem rest _ t false p hc hp
    apply key
    unfold clsNext at h
    have := h.symm
    simp only [Bool.or_eq_false_iff] at this
    exact this.1

/-! ### from the `Add` calls to the pieces returned -/

/-- the `Add` calls grouped as `Add` groups the points: a new group at every `start_new` (and for the first call);
most recent group first, most recent call first -/
def addE : List (List Emit) → Emit → List (List Emit)
  | [], e => [[e]]
  | cur :: rest, e => if e.startNew then [e] :: cur :: rest else (e :: cur) :: rest

/-- append a point to a ring unless it equals the ring's last point -/
def pushRing (cur : List Pt) (pt : Pt) : List Pt :=
  match cur with
  | [] => [pt]
  | last :: _ => if last = pt then cur else pt :: cur

/-- the ring (most recent point first) built from the points of one group (most recent first): consecutive duplicates
removed -/
def ringR : List Pt → List Pt
  | [] => []
  | p :: older => pushRing (ringR older) p

theorem add_eq_addE (gs : List (List Emit)) (e : Emit) :
    add (gs.map (fun g => ringR (g.map (·.pt)))) e.pt e.startNew =
      (addE gs e).map (fun g => ringR (g.map (·.pt))) := by
  cases gs with
  | nil => simp [add, addE, ringR, pushRing]
  | cons cur rest =>
    cases hb : e.startNew
    · simp only [List.map_cons, addE, hb, Bool.false_eq_true, if_false, ringR]
      generalize ringR (cur.map (·.pt)) = rc
      cases rc with
      | nil => simp [add, pushRing]
      | cons last tl => simp only [add, Bool.false_eq_true, if_false, pushRing]; split <;> rfl
    · simp [add, addE, hb, ringR, pushRing]

/-- **The rings `Add` builds are the groups of calls between `start_new`s, with consecutive duplicates removed.** -/
theorem addAll_eq_groups (es : List Emit) :
    addAll (es.map (fun e => (e.pt, e.startNew))) = (es.foldl addE []).map (fun g => ringR (g.map (·.pt))) := by
  unfold addAll
  have key : ∀ (es : List Emit) (gs : List (List Emit)),
      (es.map (fun e => (e.pt, e.startNew))).foldl (fun rs e => add rs e.1 e.2) (gs.map (fun g => ringR (g.map (·.pt)))) =
        (es.foldl addE gs).map (fun g => ringR (g.map (·.pt))) := by
    intro es
    induction es with
    | nil => intro gs; rfl
    | cons e es ih =>
      intro gs
      simp only [List.map_cons, List.foldl_cons]
      rw [add_eq_addE, ih]
  simpa using key es []

/-- the pieces returned for one polyline: the groups in chronological order, each in chronological order, those of
fewer than two points dropped -/
theorem assemble_eq_groups (es : List Emit) :
    assemble es =
      (((es.foldl addE []).map (fun g => ringR (g.map (·.pt)))).reverse.map List.reverse).filter
        (fun p => decide (p.length ≥ 2)) := by
  unfold assemble getPaths
  rw [addAll_eq_groups]

end Clipper.Lemmas.RLV
