/-
Every event of the ring assembly model keeps the invariant `OInv` (helper lemmas for `Props/C01Rings.lean`).
-/
import ClipperVerif.Lemmas.AelRings
namespace Clipper.Model

/-! ## steps that kill no ring -/

structure KeepPost (o o' : Out) : Prop where
  len : o'.rings.length = o.rings.length
  live : ∀ id, LiveAt o.rings id → LiveAt o'.rings id
  nolost : NoLost o → NoLost o'
  segs : SegsOK o → SegsOK o'

theorem keepPost_refl (o : Out) : KeepPost o o := ⟨rfl, fun _ h => h, fun h => h, fun h => h⟩

theorem keepPost_trans (o o1 o2 : Out) (h1 : KeepPost o o1) (h2 : KeepPost o1 o2) : KeepPost o o2 :=
  ⟨by rw [h2.len, h1.len], fun id h => h2.live id (h1.live id h), fun h => h2.nolost (h1.nolost h), fun h => h2.segs (h1.segs h)⟩

theorem oinv_keep (n : Nat) (l l' : List SEdge) (o o' : Out) (h : OInv n l o) (hk : KeepPost o o') (hl : KeysFrom l l') : OInv n l' o' := by
  refine ⟨by rw [hk.len, h.len], ?_, hk.nolost h.nolost, hk.segs h.segs⟩
  intro x hx k hkk
  obtain ⟨y, hy, k', hk', e⟩ := hl x hx k hkk
  rw [← e]; exact hk.live _ (h.hot y hy k' hk')

theorem addOn_keep (r : Option Rec) (pt : Pt) (o : Out) (hl : ∀ x, r = some x → LiveAt o.rings x.id) : KeepPost o (addOn r pt o) := by
  cases r with
  | none => exact keepPost_refl o
  | some x =>
    exact ⟨length_addOutPt _ _ _ _, fun id h => liveAt_addOutPt _ _ _ _ _ h, fun h => noLost_addOutPt _ _ _ _ h (hl x rfl),
      fun h => segsOK_addOutPt _ _ _ _ h⟩

theorem handOn_keep (r : Option Rec) (o : Out) : KeepPost o (handOn r o) := by
  cases r with
  | none => exact keepPost_refl o
  | some x =>
    exact ⟨length_handOver _ _ _, fun id h => liveAt_handOver _ _ _ _ h, fun h => by intro e he; rw [show (handOn (some x) o).log = o.log from log_handOver _ _ _] at he; exact h e he,
      fun h => segsOK_handOver _ _ _ h⟩

theorem swapOut_keep (r1 r2 : Option Rec) (pt : Pt) (o : Out) (h1 : ∀ x, r1 = some x → LiveAt o.rings x.id) (h2 : ∀ x, r2 = some x → LiveAt o.rings x.id) :
    KeepPost o (swapOut r1 r2 pt o) := by
  unfold swapOut
  have k1 := addOn_keep r1 pt o h1
  have k2 := addOn_keep r2 pt (addOn r1 pt o) (fun x hx => k1.live _ (h2 x hx))
  exact keepPost_trans _ _ _ (keepPost_trans _ _ _ (keepPost_trans _ _ _ k1 k2) (handOn_keep r1 _)) (handOn_keep r2 _)

theorem swapOutrecs_ids (r1 r2 : Option Rec) (k : Rec) (h : (swapOutrecs r1 r2).1 = some k ∨ (swapOutrecs r1 r2).2 = some k) :
    ∃ k', (r1 = some k' ∨ r2 = some k') ∧ k'.id = k.id := by
  unfold swapOutrecs at h
  split at h
  · next x y =>
    split at h
    · rcases h with h | h
      · simp at h; exact ⟨x, Or.inl rfl, by rw [← h]⟩
      · simp at h; exact ⟨y, Or.inr rfl, by rw [← h]⟩
    · rcases h with h | h
      · simp at h; exact ⟨y, Or.inr rfl, by rw [h]⟩
      · simp at h; exact ⟨x, Or.inl rfl, by rw [h]⟩
  · rcases h with h | h
    · exact ⟨k, Or.inr h, rfl⟩
    · exact ⟨k, Or.inl h, rfl⟩

/-! ## `Split` -/

theorem minRecs_ids (pre : List SEdge) (isNew : Bool) (n : Nat) : (minRecs pre isNew n).1.id = n ∧ (minRecs pre isNew n).2.id = n := by
  simp [minRecs]

theorem oinv_splitPair (k : Nat) (pt : Pt) (s s1 : SState) (o : Out) (h : OInv s.next s.ael o) (hs : splitPair k s = .ok s1) :
    OInv s1.next s1.ael (newRec pt o) := by
  match hd : s.ael.drop k with
  | a :: b :: rest =>
    rw [splitPair_eq k s a b rest hd] at hs
    cases hs
    have hl : s.ael = s.ael.take k ++ a :: b :: rest := by rw [← hd]; exact (List.take_append_drop k s.ael).symm
    refine oinv_newRec s.next s.ael _ o pt h ?_
    intro x hx kk hk
    simp only [List.mem_append, List.mem_cons] at hx
    rcases hx with hx | rfl | rfl | hx
    · right; exact ⟨x, List.mem_of_mem_take hx, kk, hk, rfl⟩
    · left; simp only [Option.some.injEq] at hk; rw [← hk]; exact (minRecs_ids _ _ _).1
    · left; simp only [Option.some.injEq] at hk; rw [← hk]; exact (minRecs_ids _ _ _).2
    · right; exact ⟨x, by rw [hl]; simp [hx], kk, hk, rfl⟩
  | [] => unfold splitPair at hs; simp [hd] at hs
  | [_] => unfold splitPair at hs; simp [hd] at hs

theorem splitJoined_pair (i : Nat) (j : Join) (s s1 : SState) (h : splitJoined i j s = .ok s1) : ∃ k, splitPair k s = .ok s1 := by
  unfold splitJoined at h
  split at h
  · exact ⟨i, h⟩
  · split at h
    · cases h
    · exact ⟨i - 1, h⟩

theorem oinv_splitAt (i : Nat) (pt : Pt) (s s1 : SState) (o : Out) (h : OInv s.next s.ael o) (hs : splitAt i s = .ok s1) :
    OInv s1.next s1.ael (splitOut i pt s o) := by
  unfold splitAt at hs
  unfold splitOut
  cases hx : s.ael[i]? with
  | none => simp [hx] at hs
  | some x =>
    simp only [hx] at hs ⊢
    by_cases hj : x.join = .none
    · simp only [hj, if_true] at hs ⊢
      cases hs; exact h
    · simp only [hj, if_false] at hs ⊢
      obtain ⟨k, hk⟩ := splitJoined_pair _ _ _ _ hs
      exact oinv_splitPair k pt s s1 o h hk

theorem oinv_splitS (i : Nat) (pt : Pt) (s s1 : SState) (o : Out) (h : OInv s.next s.ael o) (hs : splitS i s = .ok s1) :
    OInv s1.next s1.ael (splitOut i pt s o) := by
  unfold splitS at hs
  unfold splitOut
  cases hx : s.ael[i]? with
  | none => simp [hx] at hs
  | some x =>
    simp only [hx] at hs ⊢
    by_cases hj : x.join = .none
    · simp [hj] at hs
    · simp only [hj, if_false] at hs ⊢
      obtain ⟨k, hk⟩ := splitJoined_pair _ _ _ _ hs
      exact oinv_splitPair k pt s s1 o h hk


/-! ## `IntersectEdges`, closed branch -/

theorem mem_window {α} (pre rest : List α) (a b x : α) (h : x ∈ pre ++ a :: b :: rest) : x ∈ pre ++ rest ∨ x = a ∨ x = b := by
  simp only [List.mem_append, List.mem_cons] at h ⊢
  rcases h with h | h | h | h
  · left; left; exact h
  · right; left; exact h
  · right; right; exact h
  · left; right; exact h

theorem mem_window_of {α} (pre rest : List α) (a b x : α) (h : x ∈ pre ++ rest) : x ∈ pre ++ a :: b :: rest := by
  simp only [List.mem_append, List.mem_cons] at h ⊢
  rcases h with h | h
  · left; exact h
  · right; right; right; exact h

theorem oinv_core (cfg : Cfg) (pre : List SEdge) (a b : SEdge) (rest : List SEdge) (n : Nat) (pt : Pt) (o : Out) (s' : SState)
    (h : OInv n (pre ++ a :: b :: rest) o) (hr : RecsOK n (pre ++ a :: b :: rest))
    (hc : intersectCore cfg pre a b rest n = .ok s') : OInv s'.next s'.ael (coreOut cfg a b pt o) := by
  have hal : a ∈ pre ++ a :: b :: rest := List.mem_append_right _ List.mem_cons_self
  have hbl : b ∈ pre ++ a :: b :: rest := List.mem_append_right _ (List.mem_cons_of_mem _ List.mem_cons_self)
  unfold intersectCore at hc
  unfold coreOut
  simp only at hc ⊢
  cases hact : decideAct cfg (updateWinds cfg.fr a.e b.e).1 (updateWinds cfg.fr a.e b.e).2 a.orec b.orec with
  | nothing =>
    simp only [hact] at hc ⊢
    cases hc
    refine oinv_keys n _ _ o h ?_
    intro x hx k hk
    rcases mem_window _ _ _ _ _ hx with hx | rfl | rfl
    · exact ⟨x, mem_window_of _ _ _ _ _ hx, k, hk, rfl⟩
    · exact ⟨b, hbl, k, hk, rfl⟩
    · exact ⟨a, hal, k, hk, rfl⟩
  | swap =>
    simp only [hact] at hc ⊢
    cases hc
    refine oinv_keep n _ _ o _ h (swapOut_keep _ _ _ _ (fun x hx => h.hot a hal x hx) (fun x hx => h.hot b hbl x hx)) ?_
    intro x hx k hk
    rcases mem_window _ _ _ _ _ hx with hx | rfl | rfl
    · exact ⟨x, mem_window_of _ _ _ _ _ hx, k, hk, rfl⟩
    · obtain ⟨k', hk', e⟩ := swapOutrecs_ids a.orec b.orec k (Or.inr hk)
      rcases hk' with hk' | hk'
      · exact ⟨a, hal, k', hk', e⟩
      · exact ⟨b, hbl, k', hk', e⟩
    · obtain ⟨k', hk', e⟩ := swapOutrecs_ids a.orec b.orec k (Or.inl hk)
      rcases hk' with hk' | hk'
      · exact ⟨a, hal, k', hk', e⟩
      · exact ⟨b, hbl, k', hk', e⟩
  | localMin =>
    simp only [hact] at hc ⊢
    cases hc
    refine oinv_newRec n _ _ o pt h ?_
    intro x hx k hk
    rcases mem_window _ _ _ _ _ hx with hx | rfl | rfl
    · right; exact ⟨x, mem_window_of _ _ _ _ _ hx, k, hk, rfl⟩
    · left; simp only [Option.some.injEq] at hk; rw [← hk]; exact (minRecs_ids _ _ _).2
    · left; simp only [Option.some.injEq] at hk; rw [← hk]; exact (minRecs_ids _ _ _).1
  | localMax =>
    simp only [hact] at hc ⊢
    cases ha : a.orec with
    | none => simp [ha] at hc
    | some ra =>
      cases hb : b.orec with
      | none => simp [ha, hb] at hc
      | some rb =>
        simp only [ha, hb] at hc ⊢
        cases hg : addLocalMaxFn ra rb with
        | error f => simp [hg] at hc
        | ok g =>
          simp only [hg] at hc
          cases hc
          have hf : ra.front ≠ rb.front := by
            intro e; unfold addLocalMaxFn at hg; simp [e] at hg
          have hm := localMaxOut_spec .meet ra rb pt o (h.hot a hal ra ha) (h.hot b hbl rb hb) hf h.nolost h.segs
          have hk := localMax_keys n pre rest a b ra rb g hr ha hb hg
          refine oinv_maxPost n _ _ ra rb o _ h hm ?_
          intro x hx k hkk
          simp only [List.mem_append, List.mem_cons] at hx
          rcases hx with hx | rfl | rfl | hx
          · exact hk x (List.mem_append_left _ hx) k hkk
          · simp at hkk
          · simp at hkk
          · exact hk x (List.mem_append_right _ hx) k hkk
  | maxThenMin =>
    simp only [hact] at hc ⊢
    cases ha : a.orec with
    | none => simp [ha] at hc
    | some ra =>
      cases hb : b.orec with
      | none => simp [ha, hb] at hc
      | some rb =>
        simp only [ha, hb] at hc ⊢
        cases hg : addLocalMaxFn ra rb with
        | error f => simp [hg] at hc
        | ok g =>
          simp only [hg] at hc
          cases hc
          have hf : ra.front ≠ rb.front := by
            intro e; unfold addLocalMaxFn at hg; simp [e] at hg
          have hm := localMaxOut_spec .meet ra rb pt o (h.hot a hal ra ha) (h.hot b hbl rb hb) hf h.nolost h.segs
          have hk := localMax_keys n pre rest a b ra rb g hr ha hb hg
          have h1 : OInv n (pre.map g ++ rest.map g) (localMaxOut .meet ra rb pt o) := oinv_maxPost n _ _ ra rb o _ h hm hk
          refine oinv_newRec n _ _ _ pt h1 ?_
          intro x hx k hkk
          simp only [List.mem_append, List.mem_cons] at hx
          rcases hx with hx | rfl | rfl | hx
          · right; exact ⟨x, List.mem_append_left _ hx, k, hkk, rfl⟩
          · left; simp only [Option.some.injEq] at hkk; rw [← hkk]; exact (minRecs_ids _ _ _).2
          · left; simp only [Option.some.injEq] at hkk; rw [← hkk]; exact (minRecs_ids _ _ _).1
          · right; exact ⟨x, List.mem_append_right _ hx, k, hkk, rfl⟩


/-! ## the events -/

theorem bind_ok {α β} (x : Except Err α) (f : α → Except Err β) (y : β) (h : (x >>= f) = .ok y) : ∃ z, x = .ok z ∧ f z = .ok y := by
  cases x with
  | error e => cases h
  | ok z => exact ⟨z, rfl, h⟩

theorem splitPost_of (i : Nat) (s s1 : SState) (hs : Side s.ael) (h : splitAt i s = .ok s1) : SplitPost i s s1 := by
  have := splitAt_stepOK i s hs
  rw [h] at this; exact this

theorem twoSplits_eq (i : Nat) (pt : Pt) (s s1 s2 : SState) (o : Out) (a b : SEdge) (rest : List SEdge)
    (h1 : splitAt i s = .ok s1) (h2 : splitAt (i + 1) s1 = .ok s2) (hd : s2.ael.drop i = a :: b :: rest) :
    twoSplitsOut i pt s o = (splitOut (i + 1) pt s1 (splitOut i pt s o), some (a, b)) := by
  unfold twoSplitsOut
  simp only [h1, h2, hd]

theorem window_split {α} (l : List α) (i : Nat) (a b : α) (rest : List α) (h : l.drop i = a :: b :: rest) : l = l.take i ++ a :: b :: rest := by
  rw [← h]; exact (List.take_append_drop i l).symm

theorem oinv_intersect (cfg : Cfg) (i : Nat) (pt : Pt) (s s' : SState) (o : Out) (hside : Side s.ael) (hr : RecsOK s.next s.ael)
    (h : OInv s.next s.ael o) (hs : intersectS cfg i s = .ok s') : OInv s'.next s'.ael (intersectOut cfg i pt s o) := by
  unfold intersectS at hs
  unfold intersectOut
  match hd0 : s.ael.drop i with
  | [] => simp [hd0] at hs
  | [_] => simp [hd0] at hs
  | a0 :: b0 :: rest0 =>
    simp only [hd0] at hs ⊢
    by_cases hopen : (a0.e.isOpen || b0.e.isOpen) = true
    · simp only [hopen, if_true] at hs ⊢
      obtain ⟨s1, h1, h2⟩ := bind_ok _ _ _ hs
      have hinv1 : OInv s1.next s1.ael (if (a0.e.isOpen && b0.e.isOpen) = true then o else if a0.e.isOpen = true then splitOut (i + 1) pt s o else splitOut i pt s o) := by
        by_cases hb : (a0.e.isOpen && b0.e.isOpen) = true
        · simp only [hb, if_true] at h1 ⊢; cases h1; exact h
        · simp only [hb, if_false] at h1 ⊢
          by_cases ha : a0.e.isOpen = true
          · simp only [ha, if_true] at h1 ⊢; exact oinv_splitAt _ pt _ _ _ h h1
          · simp only [ha, if_false] at h1 ⊢; exact oinv_splitAt _ pt _ _ _ h h1
      match hd1 : s1.ael.drop i with
      | [] => simp [hd1] at h2
      | [_] => simp [hd1] at h2
      | a :: b :: rest =>
        simp only [hd1] at h2
        cases h2
        have hl := window_split _ _ _ _ _ hd1
        refine oinv_keys _ _ _ _ hinv1 ?_
        intro x hx k hk
        rcases mem_window _ _ _ _ _ hx with hx | rfl | rfl
        · exact ⟨x, by rw [hl]; exact mem_window_of _ _ _ _ _ hx, k, hk, rfl⟩
        · exact ⟨b, by rw [hl]; simp, k, hk, rfl⟩
        · exact ⟨a, by rw [hl]; simp, k, hk, rfl⟩
    · simp only [hopen, if_false] at hs ⊢
      obtain ⟨s1, h1, hs⟩ := bind_ok _ _ _ hs
      obtain ⟨s2, h2, hs⟩ := bind_ok _ _ _ hs
      have p1 := splitPost_of _ _ _ hside h1
      have p2 := splitPost_of _ _ _ p1.side h2
      have i1 := oinv_splitAt i pt s s1 o h h1
      have i2 := oinv_splitAt (i + 1) pt s1 s2 _ i1 h2
      match hd2 : s2.ael.drop i with
      | [] => simp [hd2] at hs
      | [_] => simp [hd2] at hs
      | a :: b :: rest =>
        simp only [hd2] at hs
        rw [twoSplits_eq i pt s s1 s2 o a b rest h1 h2 hd2]
        simp only
        have hl := window_split _ _ _ _ _ hd2
        rw [hl] at i2
        have r2 := p2.recs (p1.recs hr)
        rw [hl] at r2
        exact oinv_core cfg _ a b rest _ pt _ s' i2 r2 hs

theorem oinv_removePair (i : Nat) (pt : Pt) (s s' : SState) (o : Out) (hside : Side s.ael) (hr : RecsOK s.next s.ael)
    (h : OInv s.next s.ael o) (hs : removePairS i s = .ok s') : OInv s'.next s'.ael (removePairOut i pt s o) := by
  unfold removePairS at hs
  unfold removePairOut
  match hd0 : s.ael.drop i with
  | [] => simp [hd0] at hs
  | [_] => simp [hd0] at hs
  | a0 :: b0 :: rest0 =>
    simp only [hd0] at hs ⊢
    split at hs
    · by_cases ha : a0.e.isOpen = true
      · simp only [ha, if_true] at hs ⊢
        cases hs
        have hl := window_split _ _ _ _ _ hd0
        refine oinv_keys _ _ _ _ h ?_
        intro x hx k hk
        exact ⟨x, by rw [hl]; exact mem_window_of _ _ _ _ _ hx, k, hk, rfl⟩
      · simp only [ha, if_false] at hs ⊢
        obtain ⟨s1, h1, hs⟩ := bind_ok _ _ _ hs
        obtain ⟨s2, h2, hs⟩ := bind_ok _ _ _ hs
        have p1 := splitPost_of _ _ _ hside h1
        have p2 := splitPost_of _ _ _ p1.side h2
        have i1 := oinv_splitAt i pt s s1 o h h1
        have i2 := oinv_splitAt (i + 1) pt s1 s2 _ i1 h2
        match hd2 : s2.ael.drop i with
        | [] => simp [hd2] at hs
        | [_] => simp [hd2] at hs
        | a :: b :: rest =>
          simp only [hd2] at hs
          rw [twoSplits_eq i pt s s1 s2 o a b rest h1 h2 hd2]
          simp only
          have hl := window_split _ _ _ _ _ hd2
          have r2 := p2.recs (p1.recs hr)
          rw [hl] at r2 i2
          have hal : a ∈ s2.ael.take i ++ a :: b :: rest := by simp
          have hbl : b ∈ s2.ael.take i ++ a :: b :: rest := by simp
          cases hao : a.orec with
          | none =>
            cases hbo : b.orec with
            | none =>
              simp only [hao, hbo] at hs ⊢
              cases hs
              refine oinv_keys _ _ _ _ i2 ?_
              intro x hx k hk
              exact ⟨x, mem_window_of _ _ _ _ _ hx, k, hk, rfl⟩
            | some rb => simp [hao, hbo] at hs
          | some ra =>
            cases hbo : b.orec with
            | none => simp [hao, hbo] at hs
            | some rb =>
              simp only [hao, hbo] at hs ⊢
              cases hg : addLocalMaxFn ra rb with
              | error f => simp [hg] at hs
              | ok g =>
                simp only [hg] at hs
                cases hs
                have hf : ra.front ≠ rb.front := by
                  intro e; unfold addLocalMaxFn at hg; simp [e] at hg
                have hm := localMaxOut_spec .meet ra rb pt _ (i2.hot a hal ra hao) (i2.hot b hbl rb hbo) hf i2.nolost i2.segs
                exact oinv_maxPost _ _ _ ra rb _ _ i2 hm (localMax_keys _ _ rest a b ra rb g r2 hao hbo hg)
    · cases hs

theorem oinv_join (i : Nat) (pt : Pt) (s s' : SState) (o : Out) (hr : RecsOK s.next s.ael)
    (h : OInv s.next s.ael o) (hs : joinS i s = .ok s') : OInv s'.next s'.ael (joinOut i pt s o) := by
  unfold joinS at hs
  unfold joinOut
  match hd : s.ael.drop i with
  | [] => simp [hd] at hs
  | [_] => simp [hd] at hs
  | a :: b :: rest =>
    simp only [hd] at hs ⊢
    split at hs
    · cases hs
    · have hl := window_split _ _ _ _ _ hd
      have r2 := hr
      rw [hl] at r2
      have h2 := h
      rw [hl] at h2
      have hal : a ∈ s.ael.take i ++ a :: b :: rest := by simp
      have hbl : b ∈ s.ael.take i ++ a :: b :: rest := by simp
      cases hao : a.orec with
      | none => simp [hao] at hs
      | some ra =>
        cases hbo : b.orec with
        | none => simp [hao, hbo] at hs
        | some rb =>
          simp only [hao, hbo] at hs ⊢
          split at hs
          · cases hs
          · next hnf =>
            cases hg : addLocalMaxFn ra rb with
            | error f => simp [hg] at hs
            | ok g =>
              simp only [hg] at hs
              cases hs
              have hf : ra.front ≠ rb.front := by
                intro e; unfold addLocalMaxFn at hg; simp [e] at hg
              have hk := localMax_keys _ _ rest a b ra rb g r2 hao hbo hg
              have hkeys : ∀ x ∈ (s.ael.take i).map g ++ { a with join := .right, orec := none } :: { b with join := .left, orec := none } :: rest.map g,
                  ∀ k, x.orec = some k → k.id ≠ deadId ra rb ∧ ∃ y ∈ s.ael.take i ++ a :: b :: rest, ∃ k', y.orec = some k' ∧ k'.id = k.id := by
                intro x hx k hkk
                simp only [List.mem_append, List.mem_cons] at hx
                rcases hx with hx | rfl | rfl | hx
                · exact hk x (List.mem_append_left _ hx) k hkk
                · simp at hkk
                · simp at hkk
                · exact hk x (List.mem_append_right _ hx) k hkk
              by_cases e : ra.id = rb.id
              · simp only [e, if_true]
                have hm := localMaxOut_spec .joinMeet ra rb pt _ (h2.hot a hal ra hao) (h2.hot b hbl rb hbo) hf h2.nolost h2.segs
                exact oinv_maxPost _ _ _ ra rb _ _ h2 hm hkeys
              · simp only [e, if_false]
                have hm := joinSeamOut_spec ra rb _ (h2.hot a hal ra hao) (h2.hot b hbl rb hbo) e hf h2.nolost h2.segs
                exact oinv_maxPost _ _ _ ra rb _ _ h2 hm hkeys

theorem oinv_insertPair (cfg : Cfg) (pos : Nat) (t : PathType) (isOpen : Bool) (dx : Int) (pt : Pt) (s s' : SState) (o : Out)
    (h : OInv s.next s.ael o) (hs : insertPairS cfg pos t isOpen dx s = .ok s') :
    OInv s'.next s'.ael (insertPairOut cfg pos t isOpen dx pt s o) := by
  unfold insertPairS at hs
  unfold insertPairOut
  split at hs
  · next hc =>
    simp only at hs ⊢
    have hlen : (s.ael.take pos).length = pos := by rw [List.length_take]; omega
    have hfrom : ∀ x ∈ s.ael.take pos ++ s.ael.drop pos, x ∈ s.ael := by intro x hx; rw [List.take_append_drop] at hx; exact hx
    by_cases hcon : ((newLeft cfg (erase (s.ael.take pos)) t isOpen dx).2 && !isOpen) = true
    · simp only [hcon, if_true] at hs ⊢
      rw [addLocalMin_eq pos true (s.ael.take pos) _ _ (s.ael.drop pos) s.next hlen] at hs
      cases hs
      refine oinv_newRec _ _ _ _ pt h ?_
      intro x hx k hk
      rcases mem_window _ _ _ _ _ hx with hx | rfl | rfl
      · right; exact ⟨x, hfrom x hx, k, hk, rfl⟩
      · left; simp only [Option.some.injEq] at hk; rw [← hk]; exact (minRecs_ids _ _ _).1
      · left; simp only [Option.some.injEq] at hk; rw [← hk]; exact (minRecs_ids _ _ _).2
    · simp only [hcon, if_false] at hs ⊢
      cases hs
      refine oinv_keys _ _ _ _ h ?_
      intro x hx k hk
      rcases mem_window _ _ _ _ _ hx with hx | rfl | rfl
      · exact ⟨x, hfrom x hx, k, hk, rfl⟩
      · simp at hk
      · simp at hk
  · cases hs

theorem oinv_insertOne (cfg : Cfg) (pos : Nat) (t : PathType) (dx : Int) (s s' : SState) (o : Out)
    (h : OInv s.next s.ael o) (hs : insertOneS cfg pos t dx s = .ok s') : OInv s'.next s'.ael o := by
  unfold insertOneS at hs
  split at hs
  · simp only at hs
    cases hs
    refine oinv_keys _ _ _ _ h ?_
    intro x hx k hk
    simp only [List.mem_append, List.mem_cons] at hx
    rcases hx with hx | rfl | hx
    · exact ⟨x, List.mem_of_mem_take hx, k, hk, rfl⟩
    · simp at hk
    · exact ⟨x, List.mem_of_mem_drop hx, k, hk, rfl⟩
  · cases hs

theorem oinv_removeOne (i : Nat) (s s' : SState) (o : Out) (h : OInv s.next s.ael o) (hs : removeOneS i s = .ok s') : OInv s'.next s'.ael o := by
  unfold removeOneS at hs
  match hd : s.ael.drop i with
  | [] => simp [hd] at hs
  | x :: rest =>
    simp only [hd] at hs
    split at hs
    · cases hs
      refine oinv_keys _ _ _ _ h ?_
      intro y hy k hk
      simp only [List.mem_append] at hy
      rcases hy with hy | hy
      · exact ⟨y, List.mem_of_mem_take hy, k, hk, rfl⟩
      · exact ⟨y, List.mem_of_mem_drop (by rw [hd]; exact List.mem_cons_of_mem _ hy), k, hk, rfl⟩
    · cases hs

theorem oinv_update (i : Nat) (pt : Pt) (s : SState) (o : Out) (h : OInv s.next s.ael o) : OInv s.next s.ael (updateOut i pt s o) := by
  unfold updateOut
  cases hx : s.ael[i]? with
  | none => exact h
  | some x =>
    simp only
    split
    · exact h
    · exact oinv_keep _ _ _ _ _ h (addOn_keep _ _ _ (fun k hk => h.hot x (mem_of_get _ _ _ hx) k hk)) (fun y hy k hk => ⟨y, hy, k, hk, rfl⟩)

end Clipper.Model
