/-
A heap whose `next`/`prev` are inverse to each other (`Linked`) falls into rings: the orbits of `->next`.
So well-formedness can be stated locally.  Helper file of `Props/C02Horz.lean`.  Core Lean only.
-/
import ClipperVerif.Lemmas.HorzJoinsWF
namespace Clipper.Model.HorzJoins
open Clipper

/-- `->next` as a total function (the identity outside the heap) -/
def nxt (H : Heap) (v : Nat) : Nat := (nextOf H v).getD v

/-- `f` applied `k` times -/
def iter (f : Nat → Nat) : Nat → Nat → Nat
  | 0, x => x
  | k + 1, x => iter f k (f x)

theorem iter_succ' (f : Nat → Nat) : ∀ (k x : Nat), iter f (k + 1) x = f (iter f k x)
  | 0, _ => rfl
  | k + 1, x => by
    show iter f (k + 1) (f x) = f (iter f k (f x))
    exact iter_succ' f k (f x)

theorem iter_add (f : Nat → Nat) : ∀ (a b x : Nat), iter f (a + b) x = iter f b (iter f a x)
  | 0, b, x => by simp [iter]
  | a + 1, b, x => by
    have : a + 1 + b = (a + b) + 1 := by omega
    rw [this]
    show iter f (a + b) (f x) = iter f b (iter f a (f x))
    exact iter_add f a b (f x)

/-- `[x, f x, …, f^(k-1) x]` -/
def orbL (f : Nat → Nat) : Nat → Nat → List Nat
  | _, 0 => []
  | x, k + 1 => x :: orbL f (f x) k

theorem orbL_length (f : Nat → Nat) : ∀ (x k : Nat), (orbL f x k).length = k
  | _, 0 => rfl
  | x, k + 1 => by simp [orbL, orbL_length f (f x) k]

theorem mem_orbL (f : Nat → Nat) : ∀ (x k v : Nat), v ∈ orbL f x k ↔ ∃ m, m < k ∧ v = iter f m x
  | _, 0, v => by simp [orbL]
  | x, k + 1, v => by
    simp only [orbL, List.mem_cons, mem_orbL f (f x) k v]
    constructor
    · rintro (rfl | ⟨m, hm, rfl⟩)
      · exact ⟨0, by omega, rfl⟩
      · exact ⟨m + 1, by omega, rfl⟩
    · rintro ⟨m, hm, rfl⟩
      cases m with
      | zero => left; rfl
      | succ m => right; exact ⟨m, by omega, rfl⟩

theorem orbL_getElem? (f : Nat → Nat) : ∀ (x k m : Nat), m < k → (orbL f x k)[m]? = some (iter f m x)
  | _, 0, _, h => by omega
  | x, k + 1, 0, _ => by simp [orbL, iter]
  | x, k + 1, m + 1, h => by
    simp only [orbL, List.getElem?_cons_succ]
    exact orbL_getElem? f (f x) k m (by omega)

theorem iter_split (f : Nat → Nat) {a b : Nat} (hab : a ≤ b) (x : Nat) : iter f b x = iter f a (iter f (b - a) x) := by
  have := iter_add f (b - a) a x
  rw [show b - a + a = b by omega] at this
  exact this

theorem orbL_nodup (f : Nat → Nat) (x k : Nat) (h : ∀ a b, a < b → b < k → iter f a x ≠ iter f b x) : (orbL f x k).Nodup := by
  rw [List.Nodup, List.pairwise_iff_getElem]
  intro a b ha hb hab
  have ha' : a < k := by rw [orbL_length] at ha; exact ha
  have hb' : b < k := by rw [orbL_length] at hb; exact hb
  have ea := orbL_getElem? f x k a ha'
  have eb := orbL_getElem? f x k b hb'
  rw [List.getElem?_eq_getElem ha] at ea
  rw [List.getElem?_eq_getElem hb] at eb
  rw [Option.some.inj ea, Option.some.inj eb]
  exact h a b hab hb'

section
variable {H : Heap} (L : Linked H)
include L

theorem Linked.nxt_spec {v : Nat} (hv : v < H.ops.size) :
    nextOf H v = some (nxt H v) ∧ nxt H v < H.ops.size ∧ prevOf H (nxt H v) = some v := by
  obtain ⟨n, hn⟩ := node_of_lt hv
  have h1 : nextOf H v = some n.next := nextOf_some.2 ⟨n, hn, rfl⟩
  have h2 := L.next_prev v n hn
  have h3 : nxt H v = n.next := by unfold nxt; rw [h1]; rfl
  rw [h3]
  obtain ⟨m, hm, _⟩ := prevOf_some.1 h2
  exact ⟨h1, lt_of_node hm, h2⟩

theorem Linked.nxt_inj {a b : Nat} (ha : a < H.ops.size) (hb : b < H.ops.size) (h : nxt H a = nxt H b) : a = b := by
  have h1 := (L.nxt_spec ha).2.2
  have h2 := (L.nxt_spec hb).2.2
  rw [h] at h1; rw [h1] at h2; cases h2; rfl

theorem Linked.iter_lt : ∀ (k : Nat) {v : Nat}, v < H.ops.size → iter (nxt H) k v < H.ops.size
  | 0, _, h => h
  | k + 1, v, h => Linked.iter_lt k (L.nxt_spec h).2.1

theorem Linked.iter_inj : ∀ (k : Nat) {a b : Nat}, a < H.ops.size → b < H.ops.size → iter (nxt H) k a = iter (nxt H) k b → a = b
  | 0, _, _, _, _, h => h
  | k + 1, a, b, ha, hb, h =>
    L.nxt_inj ha hb (Linked.iter_inj k (L.nxt_spec ha).2.1 (L.nxt_spec hb).2.1 h)

/-- every `OutPt` comes back to itself under `->next` within `size` steps -/
theorem Linked.periodic {i : Nat} (hi : i < H.ops.size) : ∃ k, 1 ≤ k ∧ k ≤ H.ops.size ∧ iter (nxt H) k i = i := by
  -- size + 1 iterates below size cannot be pairwise different
  let l := (List.range (H.ops.size + 1)).map (fun m => iter (nxt H) m i)
  have hlen : l.length = H.ops.size + 1 := by simp [l]
  have hnn : ¬ l.Nodup := by
    intro hnd
    have := nodup_length_le H.ops.size l hnd (by
      intro x hx
      simp only [l, List.mem_map, List.mem_range] at hx
      obtain ⟨m, _, rfl⟩ := hx
      exact L.iter_lt m hi)
    omega
  have : ∃ a b, a < b ∧ b ≤ H.ops.size ∧ iter (nxt H) a i = iter (nxt H) b i := by
    apply Classical.byContradiction
    intro hcon
    apply hnn
    rw [List.Nodup, List.pairwise_iff_getElem]
    intro a b ha hb hab
    simp only [l, List.getElem_map, List.getElem_range]
    intro e
    exact hcon ⟨a, b, hab, by rw [hlen] at hb; omega, e⟩
  obtain ⟨a, b, hab, hb, e⟩ := this
  refine ⟨b - a, by omega, by omega, ?_⟩
  rw [iter_split (nxt H) (Nat.le_of_lt hab) i] at e
  exact (L.iter_inj a hi (L.iter_lt (b - a) hi) e).symm

/-- the orbit is linked both ways -/
theorem Linked.orbit_chain : ∀ (k : Nat) {x : Nat}, x < H.ops.size →
    ChainF (nextOf H) (prevOf H) (orbL (nxt H) x k ++ [iter (nxt H) k x])
  | 0, _, _ => by simp [orbL]
  | k + 1, x, hx => by
    have ih := Linked.orbit_chain k (L.nxt_spec hx).2.1
    have hs : (orbL (nxt H) (nxt H x) k ++ [iter (nxt H) k (nxt H x)]).head? = some (nxt H x) := by
      cases k with
      | zero => simp [orbL, iter]
      | succ k => simp [orbL]
    show ChainF (nextOf H) (prevOf H) (x :: (orbL (nxt H) (nxt H x) k ++ [iter (nxt H) k (nxt H x)]))
    rw [chainF_cons_head hs]
    exact ⟨⟨(L.nxt_spec hx).1, (L.nxt_spec hx).2.2⟩, ih⟩

/-- **the orbit of an `OutPt` under `->next` is a ring** -/
theorem Linked.orbit_ring {i : Nat} (hi : i < H.ops.size) :
    ∃ c, IsRingF (nextOf H) (prevOf H) c ∧ i ∈ c ∧ (∀ v ∈ c, v < H.ops.size) ∧ ∀ v ∈ c, ∃ m, v = iter (nxt H) m i := by
  obtain ⟨k, hk1, _, hk⟩ := L.periodic hi
  -- the least period
  have hmin : ∃ k0, (1 ≤ k0 ∧ iter (nxt H) k0 i = i) ∧ ∀ m, m < k0 → ¬ (1 ≤ m ∧ iter (nxt H) m i = i) := by
    have : ∀ n, (∃ k, k ≤ n ∧ 1 ≤ k ∧ iter (nxt H) k i = i) →
        ∃ k0, (1 ≤ k0 ∧ iter (nxt H) k0 i = i) ∧ ∀ m, m < k0 → ¬ (1 ≤ m ∧ iter (nxt H) m i = i) := by
      intro n
      induction n with
      | zero => rintro ⟨k, h0, h1, _⟩; omega
      | succ n ih =>
        rintro ⟨k, hkn, hk1', hke⟩
        by_cases hsm : ∃ k', k' ≤ n ∧ 1 ≤ k' ∧ iter (nxt H) k' i = i
        · exact ih hsm
        · refine ⟨k, ⟨hk1', hke⟩, ?_⟩
          intro m hm hP
          exact hsm ⟨m, by omega, hP.1, hP.2⟩
    exact this k ⟨k, Nat.le_refl _, hk1, hk⟩
  obtain ⟨k0, ⟨h1, hper⟩, hleast⟩ := hmin
  obtain ⟨k', rfl⟩ : ∃ k', k0 = k' + 1 := ⟨k0 - 1, by omega⟩
  refine ⟨orbL (nxt H) i (k' + 1), ⟨?_, ?_⟩, by simp [orbL], ?_, ?_⟩
  · -- no repetition
    refine orbL_nodup (nxt H) i (k' + 1) ?_
    intro a b hab hb e
    rw [iter_split (nxt H) (Nat.le_of_lt hab) i] at e
    have := (L.iter_inj a hi (L.iter_lt (b - a) hi) e).symm
    exact hleast (b - a) (by omega) ⟨by omega, this⟩
  · have := L.orbit_chain (k' + 1) hi
    rw [hper] at this
    exact this
  · intro v hv
    obtain ⟨m, _, rfl⟩ := (mem_orbL _ _ _ _).1 hv
    exact L.iter_lt m hi
  · intro v hv
    obtain ⟨m, _, rfl⟩ := (mem_orbL _ _ _ _).1 hv
    exact ⟨m, rfl⟩

end

/-- a ring contains the `->prev` of each of its nodes -/
theorem IsRingF.closed_prev {nx pv : PF} {c : List Nat} (h : IsRingF nx pv c) {a b : Nat} (ha : a ∈ c) (hb : pv a = some b) : b ∈ c := by
  obtain ⟨b', hb', hl⟩ := h.prev_mem ha
  rw [hl.2] at hb; cases hb; exact hb'

/-- **a linked heap falls into rings** -/
theorem Linked.rings {H : Heap} (L : Linked H) : ∃ rs, Rings H rs := by
  have build : ∀ n, n ≤ H.ops.size → ∃ rs : List (List Nat), (∀ c ∈ rs, IsRingF (nextOf H) (prevOf H) c) ∧ rs.flatten.Nodup ∧
      (∀ v ∈ rs.flatten, v < H.ops.size) ∧ ∀ v, v < n → v ∈ rs.flatten := by
    intro n
    induction n with
    | zero => intro _; exact ⟨[], by simp, by simp, by simp, by intro v hv; omega⟩
    | succ n ih =>
      intro hn
      obtain ⟨rs, hr, hnd, hlt, hcov⟩ := ih (by omega)
      by_cases hin : n ∈ rs.flatten
      · exact ⟨rs, hr, hnd, hlt, fun v hv => by
          by_cases e : v = n
          · subst e; exact hin
          · exact hcov v (by omega)⟩
      · obtain ⟨c, hc, hnc, hclt, horb⟩ := L.orbit_ring (i := n) (by omega)
        refine ⟨c :: rs, ?_, ?_, ?_, ?_⟩
        · intro c' hc'
          rcases List.mem_cons.1 hc' with rfl | hc'
          · exact hc
          · exact hr c' hc'
        · simp only [List.flatten_cons]
          rw [List.nodup_append]
          refine ⟨hc.nodup, hnd, ?_⟩
          intro a ha b hb e
          subst e
          -- a = iter m n lies on an old ring: going back, n lies on it too
          obtain ⟨m, rfl⟩ := horb a ha
          obtain ⟨c', hc', hac'⟩ := List.mem_flatten.1 hb
          have back : ∀ m, iter (nxt H) m n ∈ c' → n ∈ c' := by
            intro m
            induction m with
            | zero => intro h; exact h
            | succ m ihm =>
              intro h
              rw [iter_succ'] at h
              have hv : iter (nxt H) m n < H.ops.size := L.iter_lt m (by omega)
              exact ihm ((hr c' hc').closed_prev h (L.nxt_spec hv).2.2)
          exact hin (List.mem_flatten.2 ⟨c', hc', back m hac'⟩)
        · intro v hv
          simp only [List.flatten_cons, List.mem_append] at hv
          rcases hv with h | h
          · exact hclt v h
          · exact hlt v h
        · intro v hv
          simp only [List.flatten_cons, List.mem_append]
          by_cases e : v = n
          · subst e; exact Or.inl hnc
          · exact Or.inr (hcov v (by omega))
  obtain ⟨rs, hr, hnd, hlt, hcov⟩ := build H.ops.size (Nat.le_refl _)
  refine ⟨rs, hr, ?_⟩
  rw [List.perm_ext_iff_of_nodup hnd List.nodup_range]
  intro a
  rw [List.mem_range]
  exact ⟨hlt a, hcov a⟩

/-- the local form of well-formedness: `next`/`prev` inverse to each other, and (for the rings this gives) every ring owned by
one live record -/
theorem wf_iff_linked {H : Heap} : WF H ↔ Linked H ∧ ∃ rs, Rings H rs ∧ RecsOK H rs :=
  ⟨fun ⟨rs, R, K⟩ => ⟨R.linked, rs, R, K⟩, fun ⟨_, h⟩ => h⟩

end Clipper.Model.HorzJoins
