/-
Helper definitions and lemmas for `Props/Bridges/Joins.lean`, `Props/Bridges/Horz.lean`, `Props/Bridges/Rings.lean`: how a hand-model
value is written in the log of a generated skeleton (`name(record arguments)` / `location := record`), and `size_t` comparisons.
Core Lean only.
-/
import ClipperVerif.Lemmas.Bridges
import ClipperVerif.Generated.Engine
import ClipperVerif.Model.JoinCond
namespace Clipper.Lemmas.Bridges
open Clipper Clipper.Model.JoinCond

/-- `a < b` on `size_t` values below 2^64 -/
theorem u64_lt (a b : Nat) (ha : a < 2 ^ 64) (hb : b < 2 ^ 64) : (UInt64.ofNat a < UInt64.ofNat b) ↔ a < b := by
  rw [UInt64.lt_iff_toNat_lt, UInt64.toNat_ofNat_of_lt' ha, UInt64.toNat_ofNat_of_lt' hb]

/-- `a == b` on `size_t` values below 2^64 -/
theorem u64_eq (a b : Nat) (ha : a < 2 ^ 64) (hb : b < 2 ^ 64) : (UInt64.ofNat a = UInt64.ofNat b) ↔ a = b := by
  rw [← UInt64.toNat_inj, UInt64.toNat_ofNat_of_lt' ha, UInt64.toNat_ofNat_of_lt' hb]

/-- the untranslated call a decision of `CheckJoinLeft` is logged as (`e_prev_in_ael` = `prev`) -/
def leftLog : Decision → Log
  | .none => []
  | .sameRecordClose => [("AddLocalMaxPoly(e_prev_in_ael,e,pt)", [])]
  | .joinInto .e .nb => [("JoinOutrecPaths(e,e_prev_in_ael)", [])]
  | .joinInto .nb .e => [("JoinOutrecPaths(e_prev_in_ael,e)", [])]
  | .joinInto _ _ => []

/-- … of `CheckJoinRight` (`e_next_in_ael` = `next`) -/
def rightLog : Decision → Log
  | .none => []
  | .sameRecordClose => [("AddLocalMaxPoly(e,e_next_in_ael,pt)", [])]
  | .joinInto .e .nb => [("JoinOutrecPaths(e,e_next_in_ael)", [])]
  | .joinInto .nb .e => [("JoinOutrecPaths(e_next_in_ael,e)", [])]
  | .joinInto _ _ => []

/-- the result of the generated skeleton `Gen.CheckJoinLeft`: (`e.join_with`, `prev->join_with`, log) -/
def encodeLeft (o : Outcome) : JoinWith × JoinWith × Log := (o.joinE, o.joinNb, leftLog o.act)

/-- the result of the generated skeleton `Gen.CheckJoinRight`: (`e.join_with`, `next->join_with`, log) -/
def encodeRight (o : Outcome) : JoinWith × JoinWith × Log := (o.joinE, o.joinNb, rightLog o.act)

/-- a call site as the skeleton / fragment of its caller logs it: `CheckJoinLeft(edge,pt,·)` with the value of `check_curr_x`, or
`CheckJoinLeft(edge,pt,default)` when the argument is omitted -/
def siteLog (c : CallSite) : String × List Int :=
  let fn := match c.side with | .left => "CheckJoinLeft" | .right => "CheckJoinRight"
  let pt := match c.pt with | .botOfE => c.edge ++ "_bot" | .nodePt => "node_pt" | .horzPt => "pt"
  match c.checkCurrX with
  | none => (fn ++ "(" ++ c.edge ++ "," ++ pt ++ ",default)", [])
  | some b => (fn ++ "(" ++ c.edge ++ "," ++ pt ++ ",·)", [if b then 1 else 0])

/-- a step of `Model.JoinCond.updateEdgeIntoAEL` as the skeleton `Gen.UpdateEdgeIntoAEL` logs it -/
def stepLog : UpdateStep → String × List Int
  | .split => ("Split(e,e_bot)", [])
  | .trimHorz pc => ("TrimHorz(e,·)", [if pc then 1 else 0])
  | .insertScanline y => ("InsertScanline(·)", [y])
  | .checkJoin c => siteLog c

/-- the two calls `UpdateEdgeIntoAEL` makes, read off the table -/
theorem updateSites : callSites.filter (fun c => c.caller == "UpdateEdgeIntoAEL") =
    [⟨"UpdateEdgeIntoAEL", .left, "e", .botOfE, none⟩, ⟨"UpdateEdgeIntoAEL", .right, "e", .botOfE, some true⟩] := by decide

theorem siteLog_updateLeft :
    siteLog ⟨"UpdateEdgeIntoAEL", .left, "e", .botOfE, none⟩ = ("CheckJoinLeft(e,e_bot,default)", []) := by decide

theorem siteLog_updateRight :
    siteLog ⟨"UpdateEdgeIntoAEL", .right, "e", .botOfE, some true⟩ = ("CheckJoinRight(e,e_bot,·)", [1]) := by decide

/-! ## the two decisions in closed form -/

/-- none of the early `return`s of `CheckJoinLeft/Right` is taken (`n` = the neighbour, which exists) -/
def passes (ccx far : Bool) (e n : JEdge) (pt : Pt) : Bool :=
  !(!e.hot || !n.hot || e.horizontal || n.horizontal || e.isOpen || n.isOpen) &&
  !((decide (pt.y < e.top.y + 2) || decide (pt.y < n.top.y + 2)) && (decide (e.bot.y > pt.y) || decide (n.bot.y > pt.y))) &&
  !(ccx && far) && !(!ccx && decide (e.currX ≠ n.currX)) && !decide (cross e.top pt n.top ≠ 0)

/-- the action once the guard has passed: one record ⇒ close the ring, otherwise the smaller `idx` survives -/
def idxAct (e n : JEdge) : Decision :=
  if e.idx = n.idx then .sameRecordClose else if e.idx < n.idx then .joinInto .e .nb else .joinInto .nb .e

theorem idxAct_ne_none (e n : JEdge) : idxAct e n ≠ .none := by
  unfold idxAct; by_cases h1 : e.idx = n.idx <;> by_cases h2 : e.idx < n.idx <;> simp [h1, h2]

/-- five early exits with the same value -/
theorem nest5 {α : Type} (g1 g2 g3 g4 g5 : Bool) (A B : α) :
    (if g1 = true then A else if g2 = true then A else if g3 = true then A else if g4 = true then A else if g5 = true then A else B) =
      if (!g1 && !g2 && !g3 && !g4 && !g5) = true then B else A := by
  cases g1 <;> cases g2 <;> cases g3 <;> cases g4 <;> cases g5 <;> rfl

theorem joinLeft_some (ccx far : Bool) (e p : JEdge) (pt : Pt) (je jp : JoinWith) :
    joinLeftDecision ccx far e (some p) pt je jp =
      if passes ccx far e p pt then ⟨idxAct e p, .left, .right⟩ else ⟨.none, je, jp⟩ := by
  simp only [joinLeftDecision, passes, idxAct]
  rw [nest5]
  by_cases h1 : e.idx = p.idx <;> by_cases h2 : e.idx < p.idx <;> simp [h1, h2]

theorem joinRight_some (ccx far : Bool) (e n : JEdge) (pt : Pt) (je jn : JoinWith) :
    joinRightDecision ccx far e (some n) pt je jn =
      if passes ccx far e n pt then ⟨idxAct e n, .right, .left⟩ else ⟨.none, je, jn⟩ := by
  simp only [joinRightDecision, passes, idxAct]
  rw [nest5]
  by_cases h1 : e.idx = n.idx <;> by_cases h2 : e.idx < n.idx <;> simp [h1, h2]

/-- the guard in words -/
theorem passes_iff (ccx far : Bool) (e n : JEdge) (pt : Pt) :
    passes ccx far e n pt = true ↔
      e.hot = true ∧ n.hot = true ∧ e.isOpen = false ∧ n.isOpen = false ∧ e.top.y ≠ e.bot.y ∧ n.top.y ≠ n.bot.y ∧
        ((e.top.y + 2 ≤ pt.y ∧ n.top.y + 2 ≤ pt.y) ∨ (e.bot.y ≤ pt.y ∧ n.bot.y ≤ pt.y)) ∧
        (if ccx then far = false else e.currX = n.currX) ∧ cross e.top pt n.top = 0 := by
  simp only [passes, JEdge.horizontal]
  cases e.hot <;> cases n.hot <;> cases e.isOpen <;> cases n.isOpen <;> simp
  cases ccx <;> cases far <;> simp <;> omega

theorem mirrorJoin_mirrorJoin (j : JoinWith) : mirrorJoin (mirrorJoin j) = j := by cases j <;> rfl

end Clipper.Lemmas.Bridges
