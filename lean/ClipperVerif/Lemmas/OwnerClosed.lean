/-
Second frame of the table-level functions (`checkBounds`, `checkSplitOwner`, `ownerLoop`, `recursiveCheckOwners`):
for a set `C` of outrec indices that is closed under `owner` and `splits` and contains `outrec`,
* nothing outside `C` is read for modification or modified (`NonC`),
* `C` stays closed under `owner` / `splits` (`OwnC`),
* `recursive_split` is only ever set to `outrec` (`MarkFrame`).
Used with `C` = "closed outrecs" for `tree_paths_perm` (placed ⇒ closed; open outrecs are never touched) and with
`C` = everything for the termination measure (the number of live unmarked outrecs never increases).
-/
import ClipperVerif.Lemmas.OwnerInv
namespace Clipper.Model.Owner
open Clipper

/-- `C` is closed under `owner` and `splits` in `T` -/
def OwnC (C : Nat → Prop) (T : Table) : Prop :=
  ∀ (j : Nat) (r : OutRec), T[j]? = some r → C j → (∀ o : Nat, r.owner = some o → C o) ∧ (∀ s ∈ r.splits, C s)

/-- records outside `C` are untouched -/
def NonC (C : Nat → Prop) (T T' : Table) : Prop := ∀ j : Nat, ¬ C j → T'[j]? = T[j]?

/-- `recursive_split` is unchanged or set to `i` -/
def MarkFrame (i : Nat) (T T' : Table) : Prop :=
  ∀ (j : Nat) (r : OutRec), T[j]? = some r →
    ∃ r' : OutRec, T'[j]? = some r' ∧ (r'.recursiveSplit = r.recursiveSplit ∨ r'.recursiveSplit = some i)

def XFrame (C : Nat → Prop) (i : Nat) (T T' : Table) : Prop := NonC C T T' ∧ MarkFrame i T T'

theorem XFrame.refl (C : Nat → Prop) (i : Nat) (T : Table) : XFrame C i T T :=
  ⟨fun _ _ => rfl, fun _ r h => ⟨r, h, Or.inl rfl⟩⟩

theorem XFrame.trans {C : Nat → Prop} {i : Nat} {A B D : Table} (h1 : XFrame C i A B) (h2 : XFrame C i B D) :
    XFrame C i A D := by
  refine ⟨fun j hj => (h2.1 j hj).trans (h1.1 j hj), fun j r hj => ?_⟩
  obtain ⟨r', hr', m1⟩ := h1.2 j r hj
  obtain ⟨r'', hr'', m2⟩ := h2.2 j r' hr'
  refine ⟨r'', hr'', ?_⟩
  rcases m2 with m2 | m2
  · rcases m1 with m1 | m1
    · exact Or.inl (m2.trans m1)
    · exact Or.inr (m2.trans m1)
  · exact Or.inr m2

/-- the bundle that is threaded through the table-level functions -/
def XOk (C : Nat → Prop) (i : Nat) (T T' : Table) : Prop := XFrame C i T T' ∧ OwnC C T'

theorem XOk.refl {C : Nat → Prop} {T : Table} (i : Nat) (h : OwnC C T) : XOk C i T T := ⟨XFrame.refl _ _ _, h⟩

theorem XOk.pre {C : Nat → Prop} {i : Nat} {A B D : Table} (h1 : XOk C i A B) (h2 : XOk C i B D) : XOk C i A D :=
  ⟨h1.1.trans h2.1, h2.2⟩

/-- modifying a record of `C` without touching `splits`, marking only with `i`, with an owner in `C` -/
theorem xok_modify {C : Nat → Prop} {i : Nat} {T : Table} {k : Nat} {g : OutRec → OutRec} (hC : OwnC C T) (hk : C k)
    (hg : ∀ r : OutRec, T[k]? = some r → (g r).splits = r.splits ∧
      ((g r).recursiveSplit = r.recursiveSplit ∨ (g r).recursiveSplit = some i) ∧
      (∀ o : Nat, (g r).owner = some o → C o)) : XOk C i T (T.modify k g) := by
  refine ⟨⟨fun j hj => ?_, fun j r hj => ?_⟩, fun j r' hj hCj => ?_⟩
  · have : k ≠ j := fun e => hj (e ▸ hk)
    rw [Array.getElem?_modify, if_neg this]
  · rw [Array.getElem?_modify]
    by_cases hkj : k = j
    · subst hkj
      simp only [if_true, hj, Option.map_some]
      exact ⟨_, rfl, (hg r hj).2.1⟩
    · simp only [if_neg hkj, hj]
      exact ⟨r, rfl, Or.inl rfl⟩
  · obtain ⟨r, hr, e⟩ := getElem?_modify_some hj
    by_cases hkj : k = j
    · subst hkj
      rw [if_pos rfl] at e
      subst e
      obtain ⟨g1, _, g3⟩ := hg r hr
      exact ⟨g3, fun s hs => (hC k r hr hCj).2 s (g1 ▸ hs)⟩
    · rw [if_neg hkj] at e
      subst e
      exact hC j _ hr hCj

/-- the possible results of `CheckBounds` as table updates -/
theorem checkBounds_cases {clean : Nat → CleanRes} {T T' : Table} {k : Nat} {b : Bool}
    (h : checkBounds clean T k = some (T', b)) :
    T' = T ∨ ∃ g : OutRec → OutRec, T' = T.modify k g ∧ ∀ r : OutRec, (g r).owner = r.owner ∧ (g r).splits = r.splits ∧
      (g r).recursiveSplit = r.recursiveSplit ∧ (g r).isOpen = r.isOpen ∧ (g r).polypath = r.polypath := by
  simp only [checkBounds] at h
  split at h
  · simp at h
  · split at h
    · simp only [Option.some.injEq, Prod.mk.injEq] at h; exact Or.inl h.1.symm
    · split at h
      · simp only [Option.some.injEq, Prod.mk.injEq] at h; exact Or.inl h.1.symm
      · split at h
        · simp only [Option.some.injEq, Prod.mk.injEq] at h
          exact Or.inr ⟨_, h.1.symm, fun _ => ⟨rfl, rfl, rfl, rfl, rfl⟩⟩
        · simp only [Option.some.injEq, Prod.mk.injEq] at h; exact Or.inl h.1.symm
        · simp only [Option.some.injEq, Prod.mk.injEq] at h
          exact Or.inr ⟨_, h.1.symm, fun _ => ⟨rfl, rfl, rfl, rfl, rfl⟩⟩

theorem checkBounds_x {clean : Nat → CleanRes} {C : Nat → Prop} {i : Nat} {T T' : Table} {k : Nat} {b : Bool}
    (h : checkBounds clean T k = some (T', b)) (hC : OwnC C T) (hk : C k) : XOk C i T T' := by
  rcases checkBounds_cases h with e | ⟨g, e, hg⟩
  · subst e; exact XOk.refl _ hC
  · subst e
    refine xok_modify hC hk (fun r hr => ⟨(hg r).2.1, Or.inl (hg r).2.2.1, fun o ho => ?_⟩)
    exact (hC k r hr hk).1 o ((hg r).1 ▸ ho)

/-- `GetRealOutRec` stays inside `C` and returns an outrec with points -/
theorem getRealOutRec_some {T : Table} {f : Nat} {ot : Option Nat} {s' : Nat}
    (h : getRealOutRec T f ot = some (some s')) :
    (∃ r : OutRec, T[s']? = some r ∧ r.hasPts = true) ∧
    ∀ C : Nat → Prop, OwnC C T → (∀ t, ot = some t → C t) → C s' := by
  induction f generalizing ot with
  | zero => simp [getRealOutRec] at h
  | succ f ih =>
    cases ot with
    | none => simp [getRealOutRec] at h
    | some t =>
      simp only [getRealOutRec] at h
      split at h
      · simp at h
      · rename_i r hr
        split at h
        · rename_i hp
          simp only [Option.some.injEq] at h
          subst h
          exact ⟨⟨r, hr, hp⟩, fun C _ hC => hC t rfl⟩
        · obtain ⟨a, b⟩ := ih h
          exact ⟨a, fun C hO hC => b C hO (fun t' ht' => (hO t r hr (hC t rfl)).1 t' ht')⟩

/-! ### `checkSplitOwner` -/

section
variable {clean : Nat → CleanRes} {inside : Nat → Nat → Bool} {C : Nat → Prop} {i : Nat}

theorem csoFinal_x {f : Nat} (hi : C i)
    (IH : ∀ (T : Table) (L : List Nat) (T' : Table) (b : Bool),
      checkSplitOwner clean inside f T i L = some (T', b) → OwnC C T → (∀ s ∈ L, C s) → XOk C i T T')
    {T3 T' : Table} {s' : Nat} {rest : List Nat} {b : Bool}
    (h : csoFinal clean inside f T3 i s' rest = some (T', b)) (hC : OwnC C T3) (hs' : C s')
    (hrest : ∀ s ∈ rest, C s) : XOk C i T3 T' := by
  unfold csoFinal at h
  cases hcb : checkBounds clean T3 s' with
  | none => simp [hcb] at h
  | some p =>
    obtain ⟨T4, b4⟩ := p
    have hx : XOk C i T3 T4 := checkBounds_x hcb hC hs'
    rw [hcb] at h
    cases b4 with
    | false => exact hx.pre (IH _ _ _ _ h hx.2 hrest)
    | true =>
      simp only at h
      split at h
      · split at h
        · simp only [Option.some.injEq, Prod.mk.injEq] at h
          obtain ⟨rfl, rfl⟩ := h
          refine hx.pre (xok_modify hx.2 hi (fun r _ => ⟨rfl, Or.inl rfl, fun o ho => ?_⟩))
          simp only [Option.some.injEq] at ho
          exact ho ▸ hs'
        · exact hx.pre (IH _ _ _ _ h hx.2 hrest)
      · simp at h

theorem csoRest_x {f : Nat} (hi : C i)
    (IH : ∀ (T : Table) (L : List Nat) (T' : Table) (b : Bool),
      checkSplitOwner clean inside f T i L = some (T', b) → OwnC C T → (∀ s ∈ L, C s) → XOk C i T T')
    {T1 T' : Table} {s : Nat} {rest : List Nat} {b : Bool}
    (h : csoRest clean inside f T1 i s rest = some (T', b)) (hC : OwnC C T1) (hs : C s)
    (hrest : ∀ s ∈ rest, C s) : XOk C i T1 T' := by
  unfold csoRest at h
  split at h
  · simp at h
  · exact IH _ _ _ _ h hC hrest
  · rename_i s' hgr
    have hs' : C s' := (getRealOutRec_some hgr).2 C hC (fun t ht => by simp only [Option.some.injEq] at ht; exact ht ▸ hs)
    split at h
    · simp at h
    · rename_i sr' hsr'
      split at h
      · exact IH _ _ _ _ h hC hrest
      · have hx2 : XOk C i T1 (T1.modify s' (fun x => { x with recursiveSplit := some i })) :=
          xok_modify hC hs' (fun r hr => ⟨rfl, Or.inr rfl, fun o ho => (hC s' r hr hs').1 o ho⟩)
        have hsp : ∀ s ∈ sr'.splits, C s := (hC s' sr' hsr' hs').2
        by_cases hc : (!sr'.splits.isEmpty) = true
        · simp only [hc, if_true] at h
          cases hr2 : checkSplitOwner clean inside f (T1.modify s' (fun x => { x with recursiveSplit := some i })) i sr'.splits with
          | none => simp [hr2] at h
          | some p =>
            obtain ⟨T3, b3⟩ := p
            rw [hr2] at h
            have h3 := IH _ _ _ _ hr2 hx2.2 hsp
            cases b3 with
            | true =>
              simp only [Option.some.injEq, Prod.mk.injEq] at h
              obtain ⟨rfl, rfl⟩ := h
              exact hx2.pre h3
            | false =>
              simp only at h
              exact (hx2.pre h3).pre (csoFinal_x hi IH h h3.2 hs' hrest)
        · simp only [hc] at h
          exact hx2.pre (csoFinal_x hi IH h hx2.2 hs' hrest)

/-- `CheckSplitOwner(outrec, splits)` with `outrec ∈ C`, `splits ⊆ C` -/
theorem checkSplitOwner_x (hi : C i) :
    ∀ (f : Nat) (T : Table) (L : List Nat) (T' : Table) (b : Bool),
      checkSplitOwner clean inside f T i L = some (T', b) → OwnC C T → (∀ s ∈ L, C s) → XOk C i T T' := by
  intro f
  induction f with
  | zero => intro T L T' b h; simp [checkSplitOwner] at h
  | succ f IH =>
    intro T L T' b h hC hL
    cases L with
    | nil =>
      simp only [checkSplitOwner, Option.some.injEq, Prod.mk.injEq] at h
      obtain ⟨rfl, rfl⟩ := h
      exact XOk.refl _ hC
    | cons s rest =>
      rw [cso_unfold] at h
      have hs : C s := hL s (List.mem_cons_self ..)
      have hrest : ∀ x ∈ rest, C x := fun x hx => hL x (List.mem_cons_of_mem _ hx)
      split at h
      · simp at h
      · rename_i sr hsr
        by_cases hc : (!sr.hasPts && !sr.splits.isEmpty) = true
        · simp only [hc, if_true] at h
          cases hr1 : checkSplitOwner clean inside f T i sr.splits with
          | none => simp [hr1] at h
          | some p =>
            obtain ⟨T1, b1⟩ := p
            rw [hr1] at h
            have h1 := IH _ _ _ _ hr1 hC (hC s sr hsr hs).2
            cases b1 with
            | true =>
              simp only [Option.some.injEq, Prod.mk.injEq] at h
              obtain ⟨rfl, rfl⟩ := h
              exact h1
            | false =>
              simp only at h
              exact h1.pre (csoRest_x hi IH h h1.2 hs hrest)
        · simp only [hc] at h
          exact csoRest_x hi IH h hC hs hrest

/-! ### `ownerLoop` -/

theorem olNext_x {f : Nat} (hi : C i)
    (IH : ∀ (T R : Table), ownerLoop clean inside f T i = some R → OwnC C T → XOk C i T R)
    {T' R : Table} {o : Nat} (h : olNext clean inside f T' i o = some R) (hC : OwnC C T') (ho : C o) :
    XOk C i T' R := by
  unfold olNext at h
  split at h
  · simp at h
  · rename_i orc' hoo
    have hx : XOk C i T' (T'.modify i (fun x => { x with owner := orc'.owner })) :=
      xok_modify hC hi (fun r _ => ⟨rfl, Or.inl rfl, fun o2 ho2 => (hC o orc' hoo ho).1 o2 ho2⟩)
    exact hx.pre (IH _ _ h hx.2)

theorem olRest_x {f : Nat} (hi : C i)
    (IH : ∀ (T R : Table), ownerLoop clean inside f T i = some R → OwnC C T → XOk C i T R)
    {T1 R : Table} {o : Nat} (h : olRest clean inside f T1 i o = some R) (hC : OwnC C T1) (ho : C o) :
    XOk C i T1 R := by
  unfold olRest at h
  split at h
  · simp at h
  · split at h
    · exact olNext_x hi IH h hC ho
    · cases hcb : checkBounds clean T1 o with
      | none => simp [hcb] at h
      | some p =>
        obtain ⟨T2, b2⟩ := p
        have hx : XOk C i T1 T2 := checkBounds_x hcb hC ho
        rw [hcb] at h
        cases b2 with
        | false => exact hx.pre (olNext_x hi IH h hx.2 ho)
        | true =>
          simp only at h
          split at h
          · split at h
            · simp only [Option.some.injEq] at h
              subst h
              exact hx
            · exact hx.pre (olNext_x hi IH h hx.2 ho)
          · simp at h

/-- the `while (outrec->owner)` loop with `outrec ∈ C` -/
theorem ownerLoop_x (hi : C i) :
    ∀ (f : Nat) (T R : Table), ownerLoop clean inside f T i = some R → OwnC C T → XOk C i T R := by
  intro f
  induction f with
  | zero => intro T R h; simp [ownerLoop] at h
  | succ f IH =>
    intro T R h hC
    rw [ol_unfold] at h
    split at h
    · simp at h
    · rename_i r hr
      split at h
      · simp only [Option.some.injEq] at h
        subst h
        exact XOk.refl _ hC
      · rename_i o hown
        have ho : C o := (hC i r hr hi).1 o hown
        split at h
        · simp at h
        · rename_i orc horc
          by_cases hc : (!orc.splits.isEmpty) = true
          · simp only [hc, if_true] at h
            cases hr1 : checkSplitOwner clean inside f T i orc.splits with
            | none => simp [hr1] at h
            | some p =>
              obtain ⟨T1, b1⟩ := p
              rw [hr1] at h
              have h1 := checkSplitOwner_x hi _ _ _ _ _ hr1 hC (hC o orc horc ho).2
              cases b1 with
              | true =>
                simp only [Option.some.injEq] at h
                subst h
                exact h1
              | false =>
                simp only at h
                exact h1.pre (olRest_x hi IH h h1.2 ho)
          · simp only [hc] at h
            exact olRest_x hi IH h hC ho

end

/-! ### `recursiveCheckOwners`: only outrecs of `C` are placed -/

/-- every outrec that owns a node is in `C` -/
def PlacedC (C : Nat → Prop) (T : Table) : Prop :=
  ∀ (c : Nat) (r : OutRec), T[c]? = some r → r.polypath.isSome = true → C c

theorem PlacedC.step {clean : Nat → CleanRes} {C : Nat → Prop} {io : Option Nat} {T T' : Table}
    (h : PlacedC C T) (hs : Step clean io T T') : PlacedC C T' := by
  intro c r' hc hp
  obtain ⟨r, hr, _, pp, _⟩ := hs.back hc
  exact h c r hr (pp ▸ hp)

/-- what `recursiveCheckOwners` and the outer loop preserve -/
def RcoX (C : Nat → Prop) (S S' : St) : Prop :=
  NonC C S.recs S'.recs ∧ OwnC C S'.recs ∧ PlacedC C S'.recs ∧ S'.openPaths = S.openPaths

theorem ownC_set_polypath {C : Nat → Prop} {T : Table} {i : Nat} {a : List Nat} (hC : OwnC C T) :
    OwnC C (T.modify i (fun x => { x with polypath := some a })) := by
  intro j r' hj hCj
  obtain ⟨r, hr, e⟩ := getElem?_modify_some hj
  by_cases hij : i = j
  · rw [if_pos hij] at e; subst e; exact hC j r hr hCj
  · rw [if_neg hij] at e; subst e; exact hC j _ hr hCj

theorem placedC_set_polypath {C : Nat → Prop} {T : Table} {i : Nat} {a : List Nat} (hP : PlacedC C T) (hi : C i) :
    PlacedC C (T.modify i (fun x => { x with polypath := some a })) := by
  intro j r' hj hp
  obtain ⟨r, hr, e⟩ := getElem?_modify_some hj
  by_cases hij : i = j
  · exact hij ▸ hi
  · rw [if_neg hij] at e; subst e; exact hP j _ hr hp

theorem nonC_set_polypath {C : Nat → Prop} {T0 T : Table} {i : Nat} {a : List Nat} (h : NonC C T0 T) (hi : C i) :
    NonC C T0 (T.modify i (fun x => { x with polypath := some a })) := by
  intro j hj
  have : i ≠ j := fun e => hj (e ▸ hi)
  rw [Array.getElem?_modify, if_neg this]
  exact h j hj

theorem rcoPlace_x {C : Nat → Prop} {S0 S2 S' : St} {i o : Nat} (h : rcoPlace S2 i o = some S') (hi : C i)
    (hx : RcoX C S0 S2) : RcoX C S0 S' := by
  unfold rcoPlace at h
  split at h
  · split at h
    · simp at h
    · split at h
      · simp at h
      · simp only [Option.some.injEq] at h
        subst h
        obtain ⟨a, b, c, d⟩ := hx
        exact ⟨nonC_set_polypath a hi, ownC_set_polypath b, placedC_set_polypath c hi, d⟩
  · simp at h

theorem rco_x {clean : Nat → CleanRes} {inside : Nat → Nat → Bool} {C : Nat → Prop} :
    ∀ (f : Nat) (S : St) (i : Nat) (S' : St), recursiveCheckOwners clean inside f S i = some S' →
      C i → OwnC C S.recs → PlacedC C S.recs → RcoX C S S' := by
  intro f
  induction f with
  | zero => intro S i S' h; simp [recursiveCheckOwners] at h
  | succ f IH =>
    intro S i S' h hi hC hP
    rw [rco_unfold] at h
    split at h
    · simp at h
    · split at h
      · simp only [Option.some.injEq] at h
        subst h
        exact ⟨fun _ _ => rfl, hC, hP, rfl⟩
      · split at h
        · simp at h
        · rename_i T1 hol
          obtain ⟨hgood, _⟩ := ownerLoop_spec _ _ _ hol
          obtain ⟨⟨hn1, _⟩, hC1⟩ := ownerLoop_x hi _ _ _ hol hC
          have hP1 : PlacedC C T1 := hP.step hgood.1
          unfold rcoAfter at h
          split at h
          · simp at h
          · rename_i r1 hr1
            split at h
            · split at h
              · simp at h
              · simp only [Option.some.injEq] at h
                subst h
                exact ⟨nonC_set_polypath hn1 hi, ownC_set_polypath hC1, placedC_set_polypath hP1 hi, rfl⟩
            · rename_i o hown
              have ho : C o := (hC1 i r1 hr1 hi).1 o hown
              split at h
              · simp at h
              · rename_i orc horc
                by_cases hc : orc.polypath.isNone = true
                · simp only [hc, if_true] at h
                  cases hrec : recursiveCheckOwners clean inside f { S with recs := T1 } o with
                  | none => simp [hrec] at h
                  | some S2 =>
                    rw [hrec] at h
                    obtain ⟨a, b, c, d⟩ := IH _ _ _ hrec ho hC1 hP1
                    exact rcoPlace_x h hi ⟨fun j hj => (a j hj).trans (hn1 j hj), b, c, d⟩
                · simp only [hc] at h
                  exact rcoPlace_x (S0 := S) h hi ⟨hn1, hC1, hP1, rfl⟩

end Clipper.Model.Owner
