/-
Helper lemmas for Props/C08Tidy.lean, part 9: the termination measure of the `TidyEdges` loop.
Arithmetic of the measure, effect of a `prev` swap on the total axis length, weighted sums over edge lists.
Core Lean only.
-/
import ClipperVerif.Lemmas.RectClipTidyTerm
namespace Clipper.Lemmas.RCT
open Clipper Clipper.Model.RC Clipper.Model.RCT

/-! ### the measure `μ = P (M+1)² + a (M+1) + b` -/

/-- `μ` as a function of `P`, the two list lengths and the two remaining distances -/
def mu (P cw ccw a b : Nat) : Nat := P * (P + cw + ccw + 1) * (P + cw + ccw + 1) + a * (P + cw + ccw + 1) + b

theorem mul_sq_mono {P P' M M' : Nat} (hP : P' ≤ P) (hM : M' ≤ M) : P' * (M' + 1) * (M' + 1) ≤ P * (M + 1) * (M + 1) :=
  Nat.mul_le_mul (Nat.mul_le_mul hP (by omega)) (by omega)

/-- a split or rejoin: `P` drops by at least one, `M = P + |cw| + |ccw|` does not grow -/
theorem mu_splice {P P' cw cw' ccw ccw' a a' b b' : Nat} (hP : P' + 1 ≤ P) (hM : P' + cw' + ccw' ≤ P + cw + ccw)
    (ha : a' ≤ cw') (hb : b' ≤ ccw') : mu P' cw' ccw' a' b' < mu P cw ccw a b := by
  unfold mu
  obtain ⟨Q, rfl⟩ : ∃ Q, P = Q + 1 := ⟨P - 1, by omega⟩
  obtain ⟨M, hMe⟩ : ∃ M, Q + 1 + cw + ccw = M := ⟨_, rfl⟩
  obtain ⟨M', hMe'⟩ : ∃ M', P' + cw' + ccw' = M' := ⟨_, rfl⟩
  rw [hMe, hMe']
  have h1 : P' * (M' + 1) * (M' + 1) ≤ Q * (M + 1) * (M + 1) := mul_sq_mono (by omega) (by omega)
  have h2 : a' * (M' + 1) ≤ M * (M + 1) := Nat.mul_le_mul (by omega) (by omega)
  have h3 : (Q + 1) * (M + 1) * (M + 1) = Q * (M + 1) * (M + 1) + (M + 1) * (M + 1) := by grind
  have h4 : (M + 1) * (M + 1) = M * (M + 1) + (M + 1) := by grind
  omega

/-- an iteration that advances `i` (and may reset `j`) -/
theorem mu_next_i {P P' cw ccw i j j' : Nat} (hP : P' ≤ P) (hi : i < cw) (hj : j ≤ ccw) (hj' : j' ≤ ccw) :
    mu P' cw ccw (cw - (i + 1)) (ccw - j') < mu P cw ccw (cw - i) (ccw - j) := by
  unfold mu
  obtain ⟨M, hMe⟩ : ∃ M, P + cw + ccw = M := ⟨_, rfl⟩
  obtain ⟨M', hMe'⟩ : ∃ M', P' + cw + ccw = M' := ⟨_, rfl⟩
  rw [hMe, hMe']
  have hM : M' ≤ M := by omega
  have h1 : P' * (M' + 1) * (M' + 1) ≤ P * (M + 1) * (M + 1) := mul_sq_mono hP hM
  obtain ⟨a, ha⟩ : ∃ a, cw - i = a + 1 := ⟨cw - i - 1, by omega⟩
  have ha' : cw - (i + 1) = a := by omega
  rw [ha, ha']
  have h2 : a * (M' + 1) ≤ a * (M + 1) := Nat.mul_le_mul (Nat.le_refl _) (by omega)
  have h3 : (a + 1) * (M + 1) = a * (M + 1) + (M + 1) := by grind
  omega

/-- an iteration that advances `j` only -/
theorem mu_next_j {P cw ccw i j j' : Nat} (hj : j < j') (hj' : j' ≤ ccw) :
    mu P cw ccw (cw - i) (ccw - j') < mu P cw ccw (cw - i) (ccw - j) := by
  unfold mu; omega

/-! ### weighted sums over an edge list -/

def wsum (f : Option Nat → Nat) (l : List (Option Nat)) : Nat := (l.map f).sum

theorem wsum_nil (f : Option Nat → Nat) : wsum f [] = 0 := rfl
theorem wsum_cons (f : Option Nat → Nat) (a : Option Nat) (l : List (Option Nat)) : wsum f (a :: l) = f a + wsum f l := by
  simp [wsum]
theorem wsum_append (f : Option Nat → Nat) (l1 l2 : List (Option Nat)) : wsum f (l1 ++ l2) = wsum f l1 + wsum f l2 := by
  simp [wsum]

theorem wsum_set (f : Option Nat → Nat) : ∀ (l : List (Option Nat)) (i : Nat) (v e : Option Nat), l[i]? = some e →
    wsum f (l.set i v) + f e = wsum f l + f v
  | [], i, v, e, h => by simp at h
  | a :: l, 0, v, e, h => by
    simp only [List.getElem?_cons_zero, Option.some.injEq] at h
    subst h
    simp only [List.set_cons_zero, wsum_cons]; omega
  | a :: l, i + 1, v, e, h => by
    simp only [List.getElem?_cons_succ] at h
    have := wsum_set f l i v e h
    simp only [List.set_cons_succ, wsum_cons]; omega

theorem wsum_nullFirst_le (f : Option Nat → Nat) (hf : f none = 0) (op : Nat) : ∀ (l : List (Option Nat)),
    wsum f (nullFirst op l) ≤ wsum f l
  | [] => Nat.le_refl _
  | x :: l => by
    simp only [nullFirst]
    split
    · simp only [wsum_cons, hf]; omega
    · have := wsum_nullFirst_le f hf op l
      simp only [wsum_cons]; omega

theorem wsum_congr {f g : Option Nat → Nat} {l : List (Option Nat)} (h : ∀ e ∈ l, f e = g e) : wsum f l = wsum g l := by
  induction l with
  | nil => rfl
  | cons a l ih =>
    simp only [wsum_cons]
    rw [h a (by simp), ih (fun e he => h e (List.mem_cons_of_mem _ he))]

/-- how often node `k` occurs in a list -/
def occ (k : Nat) (l : List (Option Nat)) : Nat := wsum (fun e => if e = some k then 1 else 0) l

theorem occ_pos_iff (k : Nat) : ∀ (l : List (Option Nat)), 0 < occ k l ↔ some k ∈ l
  | [] => by simp [occ, wsum_nil]
  | a :: l => by
    have ih := occ_pos_iff k l
    unfold occ at ih ⊢
    simp only [wsum_cons, List.mem_cons]
    by_cases h : a = some k
    · simp only [h, if_true, true_or, iff_true]; omega
    · have h' : ¬ some k = a := fun e => h e.symm
      simp only [h, if_false, Nat.zero_add, h', false_or]; exact ih

theorem occ_zero_iff (k : Nat) (l : List (Option Nat)) : occ k l = 0 ↔ some k ∉ l := by
  rw [← occ_pos_iff]; omega

/-! ### total axis length and a `prev` swap -/

theorem axisLen_congr (idx : Nat) (h h' : Heap) (hpt : h'.pt = h.pt) : ∀ (n : Nat),
    (∀ k, k < n → h'.prev k = h.prev k) → axisLen idx h' n = axisLen idx h n
  | 0, _ => rfl
  | n + 1, hp => by
    simp only [axisLen]
    rw [axisLen_congr idx h h' hpt n (fun k hk => hp k (by omega)), hpt, hp n (by omega)]

/-- length along the axis of the link `prev k → k` when `prev k = p` -/
def linkLen (idx : Nat) (h : Heap) (k p : Nat) : Nat := (axisOf idx (h.pt k) - axisOf idx (h.pt p)).natAbs

/-- changing `prev` at one node `x < n` -/
theorem axisLen_upd1 (idx : Nat) (h h' : Heap) (hpt : h'.pt = h.pt) (x u : Nat) (hp : h'.prev = upd h.prev x u) :
    ∀ (n : Nat), x < n → axisLen idx h' n + linkLen idx h x (h.prev x) = axisLen idx h n + linkLen idx h x u
  | 0, hx => absurd hx (Nat.not_lt_zero _)
  | n + 1, hx => by
    simp only [axisLen]
    by_cases e : x = n
    · subst e
      have h1 : axisLen idx h' x = axisLen idx h x :=
        axisLen_congr idx h h' hpt x (fun k hk => by rw [hp, upd_ne _ _ (by omega)])
      rw [h1, hpt, hp, upd_same]
      unfold linkLen; omega
    · have ih := axisLen_upd1 idx h h' hpt x u hp n (by omega)
      have e' : n ≠ x := fun z => e z.symm
      rw [hpt, hp, upd_ne _ _ e']
      omega

/-- changing `prev` at two different nodes `x, y < n` -/
theorem axisLen_upd2 (idx : Nat) (h h' : Heap) (hpt : h'.pt = h.pt) (x u y v : Nat) (hxy : x ≠ y)
    (hp : h'.prev = upd (upd h.prev x u) y v) (n : Nat) (hx : x < n) (hy : y < n) :
    axisLen idx h' n + linkLen idx h x (h.prev x) + linkLen idx h y (h.prev y) =
      axisLen idx h n + linkLen idx h x u + linkLen idx h y v := by
  let hm : Heap := { h with prev := upd h.prev x u }
  have e1 := axisLen_upd1 idx h hm rfl x u rfl n hx
  have e2 := axisLen_upd1 idx hm h' hpt y v hp n hy
  have hmy : hm.prev y = h.prev y := upd_ne _ _ (fun e => hxy e.symm)
  have l1 : linkLen idx hm y (hm.prev y) = linkLen idx h y (h.prev y) := by rw [hmy]; rfl
  have l2 : linkLen idx hm y v = linkLen idx h y v := rfl
  rw [l1, l2] at e2
  omega

end Clipper.Lemmas.RCT
