/-
`GetRealOutRec` without fuel: the chain of emptied records walked from a record to the live record it resolves to; the chain has
no repetition, hence the model's fuel (`table size + 1`) suffices with one step to spare; how chains change when records are
written.  Helper file of `Props/C02Horz.lean`.  Core Lean only.
-/
import ClipperVerif.Lemmas.HorzJoinsFix
import ClipperVerif.Lemmas.HorzJoinsOwner
namespace Clipper.Model.HorzJoins
open Clipper

/-- `DeadChain H i l r`: starting at record `i`, `GetRealOutRec` passes the emptied records `l` (in order) and stops at the live
record `r` -/
inductive DeadChain (H : Heap) : Nat → List Nat → Nat → Prop
  | live {i : Nat} {rc : ORec} : H.recs[i]? = some rc → rc.pts.isSome = true → DeadChain H i [] i
  | dead {i o r : Nat} {rc : ORec} {l : List Nat} : H.recs[i]? = some rc → rc.pts.isSome = false → rc.owner = some o →
      DeadChain H o l r → DeadChain H i (i :: l) r

theorem DeadChain.run {H : Heap} {i r : Nat} {l : List Nat} (h : DeadChain H i l r) :
    ∀ f, l.length + 1 ≤ f → getRealOutRec H f (some i) = .ok (some r) := by
  induction h with
  | live hrc hp =>
    intro f hf
    obtain ⟨f', rfl⟩ : ∃ f', f = f' + 1 := ⟨f - 1, by omega⟩
    simp [getRealOutRec, Heap.orec, hrc, hp]
  | dead hrc hp ho _ ih =>
    intro f hf
    obtain ⟨f', rfl⟩ : ∃ f', f = f' + 1 := ⟨f - 1, by omega⟩
    simp only [getRealOutRec, Heap.orec, hrc, hp, ho]
    exact ih f' (by simp at hf; omega)

theorem chain_of_run {H : Heap} : ∀ (f i r : Nat), getRealOutRec H f (some i) = .ok (some r) →
    ∃ l, DeadChain H i l r ∧ l.length + 1 ≤ f
  | 0, _, _, h => by simp [getRealOutRec] at h
  | f + 1, i, r, h => by
    rw [getRealOutRec] at h
    cases hr : H.orec i with
    | error e => simp [hr] at h
    | ok rc =>
      simp only [hr] at h
      by_cases hp : rc.pts.isSome = true
      · simp only [hp, if_true, Except.ok.injEq, Option.some.injEq] at h; subst h
        exact ⟨[], .live (orec_ok.1 hr) hp, by simp⟩
      · simp only [hp] at h
        cases ho : rc.owner with
        | none => rw [ho] at h; cases f <;> simp [getRealOutRec] at h
        | some o =>
          rw [ho] at h
          obtain ⟨l, hl, hlen⟩ := chain_of_run f o r h
          exact ⟨i :: l, .dead (orec_ok.1 hr) (by simpa using hp) ho hl, by simp; omega⟩

theorem DeadChain.det {H : Heap} {i r r' : Nat} {l l' : List Nat} (h : DeadChain H i l r) :
    DeadChain H i l' r' → l = l' ∧ r = r' := by
  induction h generalizing l' r' with
  | live hrc hp =>
    intro h'
    cases h' with
    | live _ _ => exact ⟨rfl, rfl⟩
    | dead hrc' hp' _ _ => rw [hrc] at hrc'; cases hrc'; rw [hp] at hp'; cases hp'
  | dead hrc hp ho _ ih =>
    intro h'
    cases h' with
    | live hrc' hp' => rw [hrc] at hrc'; cases hrc'; rw [hp] at hp'; cases hp'
    | dead hrc' _ ho' hc' =>
      rw [hrc] at hrc'; cases hrc'
      rw [ho] at ho'; cases ho'
      obtain ⟨e1, e2⟩ := ih hc'
      exact ⟨by rw [e1], e2⟩

theorem DeadChain.suffix {H : Heap} {i r d : Nat} {l : List Nat} (h : DeadChain H i l r) (hd : d ∈ l) :
    ∃ l1 l2, l = l1 ++ d :: l2 ∧ DeadChain H d (d :: l2) r := by
  induction h with
  | live _ _ => simp at hd
  | @dead i o r rc l hrc hp ho hc ih =>
    rcases List.mem_cons.1 hd with rfl | hd
    · exact ⟨[], l, rfl, .dead hrc hp ho hc⟩
    · obtain ⟨l1, l2, e, hc'⟩ := ih hd
      exact ⟨i :: l1, l2, by rw [e]; rfl, hc'⟩

theorem DeadChain.nodup {H : Heap} {i r : Nat} {l : List Nat} (h : DeadChain H i l r) : l.Nodup := by
  induction h with
  | live _ _ => exact List.nodup_nil
  | @dead i o r rc l hrc hp ho hc ih =>
    refine List.nodup_cons.2 ⟨fun hmem => ?_, ih⟩
    obtain ⟨l1, l2, e, hc'⟩ := hc.suffix hmem
    have := (DeadChain.dead hrc hp ho hc).det hc'
    have hlen := congrArg List.length this.1
    rw [e] at hlen; simp at hlen; omega

theorem DeadChain.elems {H : Heap} {i r : Nat} {l : List Nat} (h : DeadChain H i l r) :
    (∀ d ∈ l, ∃ rc, H.recs[d]? = some rc ∧ rc.pts.isSome = false) ∧ ∃ rc, H.recs[r]? = some rc ∧ rc.pts.isSome = true := by
  induction h with
  | live hrc hp => exact ⟨by simp, _, hrc, hp⟩
  | dead hrc hp _ _ ih =>
    refine ⟨?_, ih.2⟩
    intro d hd
    rcases List.mem_cons.1 hd with rfl | hd
    · exact ⟨_, hrc, hp⟩
    · exact ih.1 d hd

theorem lt_of_rec {H : Heap} {i : Nat} {rc : ORec} (h : H.recs[i]? = some rc) : i < H.recs.size := by
  by_cases hi : i < H.recs.size
  · exact hi
  · simp [Array.getElem?_eq_none (Nat.le_of_not_lt hi)] at h

/-- a chain together with its live end has no repetition and stays inside the table: one unit of the model's fuel is spare -/
theorem DeadChain.length_lt {H : Heap} {i r : Nat} {l : List Nat} (h : DeadChain H i l r) : l.length + 1 ≤ H.recs.size := by
  obtain ⟨hd, rc, hrc, hp⟩ := h.elems
  have hnd : (r :: l).Nodup := by
    refine List.nodup_cons.2 ⟨fun hm => ?_, h.nodup⟩
    obtain ⟨rc', hrc', hp'⟩ := hd r hm
    rw [hrc] at hrc'; cases hrc'; rw [hp] at hp'; cases hp'
  have := nodup_length_le H.recs.size (r :: l) hnd (by
    intro x hx
    rcases List.mem_cons.1 hx with rfl | hx
    · exact lt_of_rec hrc
    · obtain ⟨rc', hrc', _⟩ := hd x hx; exact lt_of_rec hrc')
  simpa using this

/-- **`GetRealOutRec(op->outrec)` in the model (fuel `size + 1`) resolves exactly along a chain** -/
theorem realOf_iff_chain {H : Heap} {i r : Nat} : realOf H i = .ok (some r) ↔ ∃ l, DeadChain H i l r := by
  constructor
  · intro h; obtain ⟨l, hl, _⟩ := chain_of_run _ _ _ h; exact ⟨l, hl⟩
  · rintro ⟨l, hl⟩
    exact hl.run _ (by have := hl.length_lt; omega)

/-- what `GetRealOutRec` can see of a record: whether it has `pts`, and its owner if it has none -/
def recView (H : Heap) (k : Nat) : Option (Bool × Option Nat) :=
  (H.recs[k]?).map (fun rc => (rc.pts.isSome, if rc.pts.isSome then none else rc.owner))

theorem recView_live {H : Heap} {k : Nat} {rc : ORec} (h : H.recs[k]? = some rc) (hp : rc.pts.isSome = true) :
    recView H k = some (true, none) := by simp [recView, h, hp]

theorem recView_dead {H : Heap} {k : Nat} {rc : ORec} (h : H.recs[k]? = some rc) (hp : rc.pts.isSome = false) :
    recView H k = some (false, rc.owner) := by simp [recView, h, hp]

theorem of_recView_live {H : Heap} {k : Nat} (h : recView H k = some (true, none)) : ∃ rc, H.recs[k]? = some rc ∧ rc.pts.isSome = true := by
  unfold recView at h
  cases hk : H.recs[k]? with
  | none => simp [hk] at h
  | some rc => simp [hk] at h; exact ⟨rc, rfl, h.1⟩

theorem of_recView_dead {H : Heap} {k : Nat} {o : Option Nat} (h : recView H k = some (false, o)) :
    ∃ rc, H.recs[k]? = some rc ∧ rc.pts.isSome = false ∧ rc.owner = o := by
  unfold recView at h
  cases hk : H.recs[k]? with
  | none => simp [hk] at h
  | some rc =>
    simp only [hk, Option.map_some, Option.some.injEq, Prod.mk.injEq] at h
    refine ⟨rc, rfl, h.1, ?_⟩
    have := h.2; rw [h.1] at this; simpa using this

/-- a chain survives every write that does not change what `GetRealOutRec` sees of its records -/
theorem DeadChain.congr {H H' : Heap} {i r : Nat} {l : List Nat} (h : DeadChain H i l r)
    (hv : ∀ d, d ∈ l ∨ d = r → recView H' d = recView H d) : DeadChain H' i l r := by
  induction h with
  | @live i rc hrc hp =>
    obtain ⟨rc', hrc', hp'⟩ := of_recView_live (by rw [hv i (Or.inr rfl)]; exact recView_live hrc hp)
    exact .live hrc' hp'
  | @dead i o r rc l hrc hp ho hc ih =>
    obtain ⟨rc', hrc', hp', ho'⟩ := of_recView_dead (by rw [hv i (Or.inl (by simp))]; exact recView_dead hrc hp)
    exact .dead hrc' hp' (by rw [ho', ho]) (ih (fun d hd => hv d (by
      rcases hd with hd | hd
      · exact Or.inl (List.mem_cons_of_mem _ hd)
      · exact Or.inr hd)))

/-- when the live end `z` of a chain is emptied and handed to the live record `w`, the chain is one record longer -/
theorem DeadChain.extend {H H' : Heap} {i z w : Nat} {l : List Nat} (h : DeadChain H i l z)
    (hv : ∀ d ∈ l, recView H' d = recView H d) (hz : recView H' z = some (false, some w)) (hw : recView H' w = some (true, none)) :
    DeadChain H' i (l ++ [z]) w := by
  induction h with
  | @live i rc hrc hp =>
    obtain ⟨rc', hrc', hp', ho'⟩ := of_recView_dead hz
    obtain ⟨rw', hrw', hpw'⟩ := of_recView_live hw
    exact .dead hrc' hp' ho' (.live hrw' hpw')
  | @dead i o r rc l hrc hp ho hc ih =>
    obtain ⟨rc', hrc', hp', ho'⟩ := of_recView_dead (by rw [hv i (by simp)]; exact recView_dead hrc hp)
    exact .dead hrc' hp' (by rw [ho', ho]) (ih (fun d hd => hv d (List.mem_cons_of_mem _ hd)) hz)

end Clipper.Model.HorzJoins
