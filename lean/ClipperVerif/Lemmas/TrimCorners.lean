/- TrimCollinear under the "forward only" hypothesis (no repeated point, no 180-degree reversal): helper lemmas for
Props/C20.lean.  Plane vectors are pairs of integers written out in components. -/
import ClipperVerif.Lemmas.TrimArea
namespace Clipper.Lemmas.PathUtil
open Clipper Clipper.Model.PathUtil

/-- cross and dot product of the vectors `a→b` and `c→d` -/
def crv (a b c d : Pt) : Int := (b.x - a.x) * (d.y - c.y) - (b.y - a.y) * (d.x - c.x)
def dtv (a b c d : Pt) : Int := (b.x - a.x) * (d.x - c.x) + (b.y - a.y) * (d.y - c.y)

/-- the vectors `a→b` and `c→d` are non-zero and point in the same direction -/
def SD (a b c d : Pt) : Prop := crv a b c d = 0 ∧ dtv a b c d > 0

theorem isCollinear_iff_crv (a b c : Pt) : isCollinear a b c = true ↔ crv a b b c = 0 := by
  rw [isCollinear_iff]; unfold crv; omega

theorem isCollinear_symm (a b c : Pt) : isCollinear a b c = isCollinear c b a := by
  rw [Bool.eq_iff_iff, isCollinear_iff, isCollinear_iff]
  constructor <;> intro h <;> grind

theorem mul_self_nonneg' (x : Int) : x * x ≥ 0 := by
  cases Int.le_total 0 x with
  | inl h => exact Int.mul_nonneg h h
  | inr h =>
    have := Int.mul_nonneg (Int.neg_nonneg_of_nonpos h) (Int.neg_nonneg_of_nonpos h)
    rw [Int.neg_mul_neg] at this; exact this

theorem mul_self_pos' (x : Int) (h : x ≠ 0) : x * x > 0 := by
  cases Int.lt_or_gt_of_ne h with
  | inl h => exact Int.mul_pos_of_neg_of_neg h h
  | inr h => exact Int.mul_pos h h

/-- generic two-dimensional facts on integer components -/
theorem vec_zero_of_mul (k ux uy vx vy : Int) (h1 : k * ux = 0) (h2 : k * uy = 0) (hd : ux * vx + uy * vy > 0) :
    k = 0 := by
  by_cases hk : k = 0
  · exact hk
  · have e1 : ux = 0 := by
      cases Int.mul_eq_zero.mp h1 with
      | inl h => exact absurd h hk
      | inr h => exact h
    have e2 : uy = 0 := by
      cases Int.mul_eq_zero.mp h2 with
      | inl h => exact absurd h hk
      | inr h => exact h
    subst e1 e2; simp at hd

theorem pos_of_mul_pos_sq (n d s : Int) (hs : s ≥ 0) (h : n = s * d) (hn : n > 0) : d > 0 := by
  by_cases hd : d > 0
  · exact hd
  · have : s * d ≤ 0 := Int.mul_nonpos_of_nonneg_of_nonpos hs (by omega)
    omega

theorem SD_symm {a b c d : Pt} (h : SD a b c d) : SD c d a b := by
  obtain ⟨h1, h2⟩ := h
  unfold SD crv dtv at *
  constructor
  · grind
  · have : (d.x - c.x) * (b.x - a.x) + (d.y - c.y) * (b.y - a.y) = (b.x - a.x) * (d.x - c.x) + (b.y - a.y) * (d.y - c.y) := by grind
    omega

theorem SD_refl {a b : Pt} (h : a ≠ b) : SD a b a b := by
  unfold SD crv dtv
  constructor
  · grind
  · have hne : b.x - a.x ≠ 0 ∨ b.y - a.y ≠ 0 := by
      by_cases hx : b.x - a.x = 0
      · by_cases hy : b.y - a.y = 0
        · exfalso; apply h
          cases a; cases b; simp at *; omega
        · exact Or.inr hy
      · exact Or.inl hx
    have h1 : (b.x - a.x) * (b.x - a.x) ≥ 0 := mul_self_nonneg' _
    have h2 : (b.y - a.y) * (b.y - a.y) ≥ 0 := mul_self_nonneg' _
    cases hne with
    | inl hx => have : (b.x - a.x) * (b.x - a.x) > 0 := mul_self_pos' _ hx; omega
    | inr hy => have : (b.y - a.y) * (b.y - a.y) > 0 := mul_self_pos' _ hy; omega

theorem SD_ne {a b c d : Pt} (h : SD a b c d) : a ≠ b := by
  intro e; subst e
  unfold SD dtv at h; simp at h

/-- parallel transport of a vanishing cross product: if `a→b ∥ c→d` (same direction) then
`w × (a→b) = 0 ↔ w × (c→d) = 0` -/
theorem crv_congr {a b c d : Pt} (h : SD a b c d) (e f : Pt) : crv e f a b = 0 ↔ crv e f c d = 0 := by
  obtain ⟨h1, h2⟩ := h
  unfold crv dtv at *
  constructor
  · intro h3
    -- (w×v) u = (w×u) v + (u×v) w  componentwise, with u = a→b, v = c→d, w = e→f
    apply vec_zero_of_mul _ (b.x - a.x) (b.y - a.y) (d.x - c.x) (d.y - c.y) _ _ h2
    · grind
    · grind
  · intro h3
    have h2' : (d.x - c.x) * (b.x - a.x) + (d.y - c.y) * (b.y - a.y) > 0 := by
      have : (d.x - c.x) * (b.x - a.x) + (d.y - c.y) * (b.y - a.y) = (b.x - a.x) * (d.x - c.x) + (b.y - a.y) * (d.y - c.y) := by grind
      omega
    apply vec_zero_of_mul _ (d.x - c.x) (d.y - c.y) (b.x - a.x) (b.y - a.y) _ _ h2'
    · grind
    · grind

theorem SD_trans {a b c d e f : Pt} (h1 : SD a b c d) (h2 : SD c d e f) : SD a b e f := by
  have hc : crv a b e f = 0 := (crv_congr h2 a b).mp h1.1
  refine ⟨hc, ?_⟩
  obtain ⟨c1, d1⟩ := h1
  obtain ⟨c2, d2⟩ := h2
  unfold crv dtv at *
  -- (u·v)(v·w) = |v|² (u·w) + (u×v)(v×w)
  apply pos_of_mul_pos_sq (((b.x - a.x) * (d.x - c.x) + (b.y - a.y) * (d.y - c.y)) *
      ((d.x - c.x) * (f.x - e.x) + (d.y - c.y) * (f.y - e.y))) _
      ((d.x - c.x) * (d.x - c.x) + (d.y - c.y) * (d.y - c.y))
  · have h1 : (d.x - c.x) * (d.x - c.x) ≥ 0 := mul_self_nonneg' _
    have h2 : (d.y - c.y) * (d.y - c.y) ≥ 0 := mul_self_nonneg' _
    omega
  · grind
  · exact Int.mul_pos d1 d2

/-- `a→b` and `b→c` in the same direction: then `a→c` is in that direction too -/
theorem SD_add_left {a b c : Pt} (h : SD a b b c) : SD a c b c := by
  obtain ⟨h1, h2⟩ := h
  have hbc : (c.x - b.x) * (c.x - b.x) + (c.y - b.y) * (c.y - b.y) ≥ 0 := by
    have h1 : (c.x - b.x) * (c.x - b.x) ≥ 0 := mul_self_nonneg' _
    have h2 : (c.y - b.y) * (c.y - b.y) ≥ 0 := mul_self_nonneg' _
    omega
  unfold SD crv dtv at *
  constructor
  · grind
  · have : (c.x - a.x) * (c.x - b.x) + (c.y - a.y) * (c.y - b.y)
        = ((b.x - a.x) * (c.x - b.x) + (b.y - a.y) * (c.y - b.y))
          + ((c.x - b.x) * (c.x - b.x) + (c.y - b.y) * (c.y - b.y)) := by grind
    omega

theorem SD_add_right {a b c : Pt} (h : SD a b b c) : SD a c a b := by
  obtain ⟨h1, h2⟩ := h
  have hab : (b.x - a.x) * (b.x - a.x) + (b.y - a.y) * (b.y - a.y) ≥ 0 := by
    have h1 : (b.x - a.x) * (b.x - a.x) ≥ 0 := mul_self_nonneg' _
    have h2 : (b.y - a.y) * (b.y - a.y) ≥ 0 := mul_self_nonneg' _
    omega
  unfold SD crv dtv at *
  constructor
  · grind
  · have : (c.x - a.x) * (b.x - a.x) + (c.y - a.y) * (b.y - a.y)
        = ((b.x - a.x) * (c.x - b.x) + (b.y - a.y) * (c.y - b.y))
          + ((b.x - a.x) * (b.x - a.x) + (b.y - a.y) * (b.y - a.y)) := by grind
    omega

/-- reversing both vectors -/
theorem SD_neg {a b c d : Pt} (h : SD a b c d) : SD b a d c := by
  obtain ⟨h1, h2⟩ := h
  unfold SD crv dtv at *
  constructor
  · grind
  · have : (a.x - b.x) * (c.x - d.x) + (a.y - b.y) * (c.y - d.y) = (b.x - a.x) * (d.x - c.x) + (b.y - a.y) * (d.y - c.y) := by grind
    omega

theorem crv_swap_zero (a b c d : Pt) : crv a b c d = 0 ↔ crv c d a b = 0 := by
  unfold crv; constructor <;> intro h <;> grind

/-! ### triples of consecutive vertices -/

/-- `P` holds for every three consecutive vertices of the open chain -/
def AllTriples (P : Pt → Pt → Pt → Prop) : List Pt → Prop
  | a :: b :: c :: t => P a b c ∧ AllTriples P (b :: c :: t)
  | _ => True

/-- at vertex `b` the path neither stops (`a = b` or `b = c`) nor reverses by 180 degrees:
if `a, b, c` are collinear then `b` lies strictly between `a` and `c` -/
def Fwd (a b c : Pt) : Prop := isCollinear a b c = true → dtv a b b c > 0

def NotCol (a b c : Pt) : Prop := isCollinear a b c = false

theorem AllTriples_tail (P : Pt → Pt → Pt → Prop) (a : Pt) (l : List Pt) (h : AllTriples P (a :: l)) :
    AllTriples P l := by
  match l, h with
  | [], _ => trivial
  | [b], _ => trivial
  | b :: c :: t, h => exact h.2

theorem AllTriples_snoc3 (P : Pt → Pt → Pt → Prop) (u v w : Pt) (l : List Pt) :
    AllTriples P (l ++ [u, v, w]) ↔ AllTriples P (l ++ [u, v]) ∧ P u v w := by
  induction l with
  | nil => simp [AllTriples]
  | cons a l ih =>
    match l, ih with
    | [], ih => simp [AllTriples]
    | [b], ih => simp [AllTriples] at ih ⊢; constructor <;> intro h <;> simp_all
    | b :: c :: t, ih =>
      simp only [List.cons_append, AllTriples] at ih ⊢
      rw [ih]; constructor <;> intro h <;> simp_all

theorem AllTriples_prefix (P : Pt → Pt → Pt → Prop) (l t : List Pt) (h : AllTriples P (l ++ t)) :
    AllTriples P l := by
  induction l with
  | nil => trivial
  | cons a l ih =>
    match l, ih, h with
    | [], _, _ => trivial
    | [b], _, _ => trivial
    | b :: c :: l', ih, h =>
      simp only [List.cons_append, AllTriples] at h ⊢
      exact ⟨h.1, ih h.2⟩

theorem AllTriples_suffix (P : Pt → Pt → Pt → Prop) (l t : List Pt) (h : AllTriples P (l ++ t)) :
    AllTriples P t := by
  induction l with
  | nil => exact h
  | cons a l ih => exact ih (AllTriples_tail P a _ h)

theorem AllTriples_reverse (P : Pt → Pt → Pt → Prop) (hP : ∀ a b c, P a b c → P c b a) (l : List Pt)
    (h : AllTriples P l) : AllTriples P l.reverse := by
  induction l with
  | nil => trivial
  | cons a l ih =>
    have ih' := ih (AllTriples_tail P a l h)
    match l, h, ih' with
    | [], _, _ => trivial
    | [b], _, _ => simp [AllTriples]
    | b :: c :: t, h, ih' =>
      have : (a :: b :: c :: t).reverse = t.reverse ++ [c, b, a] := by simp
      rw [this, AllTriples_snoc3]
      refine ⟨?_, hP _ _ _ h.1⟩
      have : (b :: c :: t).reverse = t.reverse ++ [c, b] := by simp
      rw [this] at ih'; exact ih'

theorem Fwd_symm (a b c : Pt) (h : Fwd a b c) : Fwd c b a := by
  unfold Fwd at *
  intro hc
  rw [isCollinear_symm] at hc
  have := h hc
  unfold dtv at *
  have e : (b.x - c.x) * (a.x - b.x) + (b.y - c.y) * (a.y - b.y)
      = (b.x - a.x) * (c.x - b.x) + (b.y - a.y) * (c.y - b.y) := by grind
  omega

theorem Fwd_SD {a b c : Pt} (h : Fwd a b c) (hc : isCollinear a b c = true) : SD a b b c :=
  ⟨(isCollinear_iff_crv a b c).mp hc, h hc⟩

theorem isCollinear_degenerate (a c : Pt) : isCollinear a a c = true ∧ isCollinear a c c = true := by
  constructor <;> rw [isCollinear_iff] <;> simp

theorem Fwd_ne {a b c : Pt} (h : Fwd a b c) : a ≠ b ∧ b ≠ c := by
  constructor
  · intro e; subst e
    have := h (isCollinear_degenerate a c).1
    unfold dtv at this; simp at this
  · intro e; subst e
    have := h (isCollinear_degenerate a b).2
    unfold dtv at this; simp at this

/-- collinearity tests whose first leg is parallel agree -/
theorem isCollinear_congr_left {p q b : Pt} (h : SD p b q b) (c : Pt) :
    isCollinear p b c = isCollinear q b c := by
  rw [Bool.eq_iff_iff, isCollinear_iff_crv, isCollinear_iff_crv, crv_swap_zero p b b c, crv_swap_zero q b b c]
  exact crv_congr h b c

/-- collinearity tests whose second leg is parallel agree -/
theorem isCollinear_congr_right {b c d : Pt} (h : SD b c b d) (a : Pt) :
    isCollinear a b c = isCollinear a b d := by
  rw [Bool.eq_iff_iff, isCollinear_iff_crv, isCollinear_iff_crv]
  exact crv_congr h a b

/-! ### the loops of TrimCollinear on a forward-only chain -/

theorem trimBackRev_eq_trimFront (first : Pt) (l : List Pt) : trimBackRev first l = trimFront first l := by
  fun_induction trimBackRev first l with
  | case1 z y rest h ih =>
    rw [isCollinear_symm] at h
    simp only [trimFront]; rw [if_pos h]; exact ih
  | case2 z y rest h =>
    rw [isCollinear_symm] at h
    simp only [trimFront]; rw [if_neg h]
  | case3 l h =>
    match l, h with
    | [], _ => rfl
    | [a], _ => rfl
    | z :: y :: rest, h => exact absurd rfl (h z y rest)

/-- The leading `while` loop of the closed case (`A = *stop`), and by `trimBackRev_eq_trimFront` also the second one
run on the reversed range.  `y` is the vertex before the range, `s` the vertex after `A`. -/
theorem trimFront_fwd (A s : Pt) (l : List Pt) : ∀ (y : Pt), AllTriples Fwd (y :: l) →
    (∀ x t, l = x :: t → SD A x y x ∧ SD A x A s) →
    AllTriples Fwd (trimFront A l) ∧ (∀ x t, trimFront A l = x :: t → SD A x A s) ∧
    (∀ x x' t, trimFront A l = x :: x' :: t → isCollinear A x x' = false) := by
  fun_induction trimFront A l with
  | case1 a b rest hcol ih =>
    intro y hall hJ
    obtain ⟨J1, J2⟩ := hJ a (b :: rest) rfl
    have hyab : isCollinear y a b = true := by rw [← isCollinear_congr_left J1 b]; exact hcol
    have sd1 : SD y a a b := Fwd_SD hall.1 hyab
    have sd2 : SD A a a b := SD_trans J1 sd1
    have J1' : SD A b a b := SD_add_left sd2
    have J2' : SD A b A s := SD_trans (SD_add_right sd2) J2
    exact ih a (AllTriples_tail Fwd y _ hall) (fun x t e => by
      injection e with e1 e2; subst e1; exact ⟨J1', J2'⟩)
  | case2 a b rest hncol =>
    intro y hall hJ
    refine ⟨AllTriples_tail Fwd y _ hall, ?_, ?_⟩
    · intro x t e; exact (hJ x t e).2
    · intro x x' t e
      injection e with e1 e2; injection e2 with e2 e3
      subst e1 e2
      cases hc : isCollinear A a b with
      | false => rfl
      | true => exact absurd hc hncol
  | case3 l hl =>
    intro y hall hJ
    refine ⟨AllTriples_tail Fwd y _ hall, ?_, ?_⟩
    · intro x t e; exact (hJ x t e).2
    · intro x x' t e; exact absurd e (hl x x' t)

/-- the vertex before the last one of `pc :: cur :: l` -/
def pen (pc cur : Pt) : List Pt → Pt
  | [] => pc
  | n :: rest => pen cur n rest

/-- The main `for` loop on a forward-only chain: no three consecutive emitted vertices are collinear, the first
emitted vertex lies in direction `prev → s`, and on exit `prevIt → stop` is parallel to the last source edge. -/
theorem trimLoop_fwd (l : List Pt) : ∀ (s prev pc cur : Pt), AllTriples Fwd (pc :: cur :: l) →
    SD prev cur pc cur → SD prev cur prev s →
    AllTriples NotCol (prev :: ((trimLoop prev cur l).1 ++ [(trimLoop prev cur l).2.2])) ∧
    (∃ h t, (trimLoop prev cur l).1 ++ [(trimLoop prev cur l).2.2] = h :: t ∧ SD prev h prev s) ∧
    SD (trimLoop prev cur l).2.1 (trimLoop prev cur l).2.2 (pen pc cur l) (trimLoop prev cur l).2.2 := by
  induction l with
  | nil =>
    intro s prev pc cur _ J1 J2
    simp only [trimLoop, pen, List.nil_append]
    exact ⟨trivial, ⟨cur, [], rfl, J2⟩, J1⟩
  | cons n rest ih =>
    intro s prev pc cur hall J1 J2
    simp only [trimLoop, pen]
    split
    · rename_i hcol
      have hpc : isCollinear pc cur n = true := by rw [← isCollinear_congr_left J1 n]; exact hcol
      have sd1 : SD pc cur cur n := Fwd_SD hall.1 hpc
      have sd2 : SD prev cur cur n := SD_trans J1 sd1
      exact ih s prev cur n (AllTriples_tail Fwd pc _ hall) (SD_add_left sd2)
        (SD_trans (SD_add_right sd2) J2)
    · rename_i hncol
      have hn : cur ≠ n := (Fwd_ne hall.1).2
      obtain ⟨hnc, ⟨h, t, hh, hsd⟩, hend⟩ := ih n cur cur n (AllTriples_tail Fwd pc _ hall)
        (SD_refl hn) (SD_refl hn)
      simp only []
      refine ⟨?_, ⟨cur, _, rfl, J2⟩, hend⟩
      rw [List.cons_append, hh]
      rw [hh] at hnc
      refine ⟨?_, hnc⟩
      unfold NotCol
      rw [isCollinear_congr_right hsd prev]
      cases hc : isCollinear prev cur n with
      | false => rfl
      | true => exact absurd hc hncol

theorem trimFront_suffix (A : Pt) (l : List Pt) : trimFront A l <:+ l := by
  fun_induction trimFront A l with
  | case1 a b rest h ih => exact List.IsSuffix.trans ih (List.suffix_cons _ _)
  | case2 a b rest h => exact List.suffix_refl _
  | case3 l h => exact List.suffix_refl _

theorem pen_reverse (a c : Pt) (rest : List Pt) (z y : Pt) (t : List Pt)
    (h : (a :: c :: rest).reverse = z :: y :: t) : pen a c rest = y := by
  induction rest generalizing a c t with
  | nil => simp at h; simp [pen, h.2.1]
  | cons n r ih =>
    simp only [pen]
    have e : (a :: c :: n :: r).reverse = (c :: n :: r).reverse ++ [a] := by simp
    rw [e] at h
    cases hr : (c :: n :: r).reverse with
    | nil => simp at hr
    | cons z' t' =>
      cases t' with
      | nil =>
        have : ((c :: n :: r).reverse).length = 1 := by rw [hr]; rfl
        simp at this
      | cons y' t'' =>
        rw [hr] at h
        simp only [List.cons_append, List.cons.injEq] at h
        obtain ⟨h1, h2, _⟩ := h
        subst h1 h2
        exact ih c n t'' hr

theorem NotCol_symm (a b c : Pt) (h : NotCol a b c) : NotCol c b a := by
  unfold NotCol at *; rw [isCollinear_symm]; exact h

/-- the main loop keeps everything when no three consecutive vertices are collinear -/
theorem trimLoop_fixed (l : List Pt) : ∀ (prev cur : Pt), AllTriples NotCol (prev :: cur :: l) →
    (trimLoop prev cur l).1 ++ [(trimLoop prev cur l).2.2] = cur :: l ∧
    (trimLoop prev cur l).2.1 = pen prev cur l := by
  induction l with
  | nil => intro prev cur _; simp [trimLoop, pen]
  | cons n rest ih =>
    intro prev cur h
    have hn : isCollinear prev cur n = false := h.1
    obtain ⟨h1, h2⟩ := ih cur n h.2
    simp only [trimLoop, hn, Bool.false_eq_true, if_false, pen]
    exact ⟨by rw [List.cons_append, h1], h2⟩

/-- open path without three consecutive collinear vertices: `TrimCollinear` returns it unchanged -/
theorem trim_fixed_open (p : List Pt) (h3 : 3 ≤ p.length) (h : AllTriples NotCol p) :
    trimCollinear p true = p := by
  match p, h3, h with
  | a :: c :: rest, h3, h =>
    unfold trimCollinear
    rw [if_neg (by omega)]
    simp only [if_true]
    rw [List.cons_append, (trimLoop_fixed rest a c h).1]

/-- closed path without three cyclically consecutive collinear vertices: `TrimCollinear` returns it unchanged -/
theorem trim_fixed_closed (p : List Pt) (h3 : 3 ≤ p.length) (h : AllTriples NotCol (cyclicChain p)) :
    trimCollinear p false = p := by
  match p, h3, h with
  | a :: c :: rest, h3, h =>
    -- last vertex and the shape of the reversed path
    cases hr : (a :: c :: rest).reverse with
    | nil => simp at hr
    | cons z t' =>
      cases t' with
      | nil =>
        have : ((a :: c :: rest).reverse).length = 1 := by rw [hr]; rfl
        simp at this
      | cons y t =>
        have hlast : (a :: c :: rest).getLast? = some z := by
          rw [← List.head?_reverse, hr]; rfl
        have hchain : cyclicChain (a :: c :: rest) = z :: (a :: c :: rest) ++ [a] := by
          unfold cyclicChain; rw [hlast]
        rw [hchain] at h
        have hzac : isCollinear z a c = false := h.1
        have hopen : AllTriples NotCol (a :: c :: rest) :=
          AllTriples_prefix NotCol _ [a] (AllTriples_tail NotCol z _ h)
        have hrev : AllTriples NotCol (a :: z :: y :: t) := by
          have := AllTriples_reverse NotCol NotCol_symm ((a :: c :: rest) ++ [a])
            (AllTriples_tail NotCol z _ h)
          rw [List.reverse_append, hr] at this; exact this
        have hazy : isCollinear a z y = false := hrev.1
        have hends : trimEnds (a :: c :: rest) = a :: c :: rest := by
          unfold trimEnds
          rw [hlast]
          simp only [trimFront, hzac, Bool.false_eq_true, if_false]
          rw [hr]
          simp only [trimBackRev]
          rw [isCollinear_symm] at hazy
          simp only [hazy, Bool.false_eq_true, if_false]
          rw [← hr, List.reverse_reverse]
        unfold trimCollinear
        rw [if_neg (by omega)]
        simp only [Bool.false_eq_true, if_false]
        rw [hends]
        unfold trimClosedBody
        obtain ⟨h1, h2⟩ := trimLoop_fixed rest a c hopen
        have hstop := trimLoop_stop a c rest
        have hz : (trimLoop a c rest).2.2 = z := by
          rw [List.getLast?_cons_cons] at hlast
          rw [hlast] at hstop; injection hstop with hstop; exact hstop.symm
        have hpen : pen a c rest = y := pen_reverse a c rest z y t hr
        simp only []
        rw [h2, hpen, hz]
        rw [isCollinear_symm] at hazy
        simp only [hazy, Bool.not_false, if_true]
        rw [← hz, List.cons_append, h1]

theorem isCollinear_aba (a b : Pt) : isCollinear a b a = true := by
  rw [isCollinear_iff]; grind

/-- open forward-only path: no three consecutive vertices of the result are collinear; the result has at least two
vertices and, if exactly two, they differ -/
theorem trim_open_fwd (p : List Pt) (h3 : 3 ≤ p.length) (hf : AllTriples Fwd p) :
    AllTriples NotCol (trimCollinear p true) ∧
    (3 ≤ (trimCollinear p true).length ∨ ∃ a b, trimCollinear p true = [a, b] ∧ a ≠ b) := by
  match p, h3, hf with
  | [], h3, _ => simp at h3
  | [_], h3, _ => simp at h3
  | [_, _], h3, _ => simp at h3
  | a :: c :: n :: rest, h3, hf =>
    have hac : a ≠ c := (Fwd_ne hf.1).1
    obtain ⟨hnc, ⟨h, t, hh, hsd⟩, _⟩ := trimLoop_fwd (n :: rest) c a a c hf (SD_refl hac) (SD_refl hac)
    have hres : trimCollinear (a :: c :: n :: rest) true
        = a :: ((trimLoop a c (n :: rest)).1 ++ [(trimLoop a c (n :: rest)).2.2]) := by
      unfold trimCollinear
      rw [if_neg (by simp)]
      simp only [if_true, List.cons_append]
    rw [hres]
    refine ⟨hnc, ?_⟩
    rw [hh]
    cases t with
    | nil => exact Or.inr ⟨a, h, rfl, SD_ne hsd⟩
    | cons _ _ => exact Or.inl (by simp)

/-- closed forward-only path: no three cyclically consecutive vertices of the result are collinear, and the result is
empty or has at least three vertices -/
theorem trim_closed_fwd (p : List Pt) (hf : AllTriples Fwd (cyclicChain p)) :
    AllTriples NotCol (cyclicChain (trimCollinear p false)) ∧
    (trimCollinear p false = [] ∨ 3 ≤ (trimCollinear p false).length) := by
  by_cases hlen : p.length < 3
  · have : trimCollinear p false = [] := by unfold trimCollinear; rw [if_pos hlen]; rfl
    rw [this]; exact ⟨trivial, Or.inl rfl⟩
  · match p, hlen, hf with
    | [], hlen, _ => simp at hlen
    | [_], hlen, _ => simp at hlen
    | [_, _], hlen, _ => simp at hlen
    | p0 :: p1 :: p2 :: t0, hlen, hf =>
      -- notation
      generalize hp : p0 :: p1 :: p2 :: t0 = p at *
      have hpne : p ≠ [] := by rw [← hp]; simp
      obtain ⟨z, hz⟩ : ∃ z, p.getLast? = some z := by
        cases h : p.getLast? with
        | none => rw [List.getLast?_eq_none_iff] at h; exact absurd h hpne
        | some z => exact ⟨z, rfl⟩
      have hchain : cyclicChain p = z :: p ++ [p0] := by
        unfold cyclicChain; rw [← hp] at hz ⊢; rw [hz]
      rw [hchain] at hf
      have hzp : AllTriples Fwd (z :: p) := AllTriples_prefix Fwd (z :: p) [p0] hf
      have hzp0 : z ≠ p0 := by
        rw [← hp] at hzp; exact (Fwd_ne hzp.1).1
      -- phase 1
      obtain ⟨hF1, hJ2, hX1⟩ := trimFront_fwd z p0 p z hzp (fun x t e => by
        rw [← hp] at e; injection e with e1 e2; subst e1
        exact ⟨SD_refl hzp0, SD_refl hzp0⟩)
      have hs1suf := trimFront_suffix z p
      have hs1last : (trimFront z p).getLast? = some z := by rw [trimFront_getLast]; exact hz
      generalize hs1 : trimFront z p = s1 at *
      cases s1 with
      | nil => simp at hs1last
      | cons first t1 =>
        have hJ2' : SD z first z p0 := hJ2 first t1 rfl
        have hfz : first ≠ z := fun e => SD_ne hJ2' e.symm
        -- phase 2 on the reversed range
        have hs1p0 : AllTriples Fwd ((first :: t1) ++ [p0]) := by
          obtain ⟨pre, hpre⟩ := hs1suf
          have : z :: p ++ [p0] = (z :: pre) ++ ((first :: t1) ++ [p0]) := by rw [← hpre]; simp
          rw [this] at hf
          exact AllTriples_suffix Fwd _ _ hf
        have hrev : AllTriples Fwd (p0 :: (first :: t1).reverse) := by
          have := AllTriples_reverse Fwd Fwd_symm _ hs1p0
          rw [List.reverse_append] at this; exact this
        have hrevhead : (first :: t1).reverse.head? = some z := by
          rw [List.head?_reverse]; exact hs1last
        obtain ⟨hF2, hK2, hX2⟩ := trimFront_fwd first z (first :: t1).reverse p0 hrev (fun x t e => by
          rw [e] at hrevhead; injection hrevhead with e1; subst e1
          exact ⟨SD_neg hJ2', SD_refl hfz⟩)
        have hr2suf := trimFront_suffix first (first :: t1).reverse
        have hr2last : (trimFront first (first :: t1).reverse).getLast? = some first := by
          rw [trimFront_getLast, List.getLast?_reverse]; rfl
        have hends : trimEnds p = (trimFront first (first :: t1).reverse).reverse := by
          unfold trimEnds; rw [hz]; simp only []; rw [hs1]; simp only []
          rw [trimBackRev_eq_trimFront]
        generalize hr2 : trimFront first (first :: t1).reverse = r2 at *
        have hseg : AllTriples Fwd r2.reverse := AllTriples_reverse Fwd Fwd_symm _ hF2
        have hsegpre : r2.reverse <+: first :: t1 := by
          have := List.reverse_prefix.mpr hr2suf
          rw [List.reverse_reverse] at this; exact this
        have hres : trimCollinear p false = trimClosedBody r2.reverse := by
          unfold trimCollinear; rw [if_neg hlen]; simp only [Bool.false_eq_true, if_false]; rw [hends]
        rw [hres]
        -- shape of the segment
        cases hsg : r2.reverse with
        | nil => exact ⟨trivial, Or.inl rfl⟩
        | cons a t2 =>
          cases t2 with
          | nil => exact ⟨trivial, Or.inl rfl⟩
          | cons c rest =>
            rw [hsg] at hseg hsegpre
            have ha : a = first := by
              have : r2.reverse.head? = some first := by rw [List.head?_reverse]; exact hr2last
              rw [hsg] at this; injection this
            subst ha
            obtain ⟨tl, htl⟩ := hsegpre
            have hF1' : isCollinear z a c = false := hX1 a c (rest ++ tl) (by rw [← htl]; simp)
            have hac : a ≠ c := by
              intro e; subst e
              rw [(isCollinear_degenerate z a).2] at hF1'; exact absurd hF1' (by simp)
            obtain ⟨hnc, ⟨h, t, hh, hsd⟩, hend⟩ :=
              trimLoop_fwd rest c a a c hseg (SD_refl hac) (SD_refl hac)
            have hstop := trimLoop_stop a c rest
            have hprev := trimLoop_prev a c rest
            unfold trimClosedBody
            simp only []
            generalize trimLoop a c rest = r at *
            obtain ⟨d, pf, stop⟩ := r
            simp only [] at hnc hh hend hstop hprev ⊢
            -- the reversed segment starts `stop :: pen :: …`
            have hr2eq : r2 = (a :: c :: rest).reverse := by rw [← hsg, List.reverse_reverse]
            cases hrr : (a :: c :: rest).reverse with
            | nil => simp at hrr
            | cons z' t' =>
              cases t' with
              | nil =>
                have : ((a :: c :: rest).reverse).length = 1 := by rw [hrr]; rfl
                simp at this
              | cons y t'' =>
                have hz' : z' = stop := by
                  have : (a :: c :: rest).getLast? = some z' := by rw [← List.head?_reverse, hrr]; rfl
                  rw [List.getLast?_cons_cons, hstop] at this; injection this with this; exact this.symm
                subst hz'
                have hpen : pen a c rest = y := pen_reverse a c rest z' y t'' hrr
                rw [hr2eq, hrr] at hX2 hK2
                have hX2' : isCollinear a z' y = false := hX2 z' y t'' rfl
                have hK2' : SD a z' a z := hK2 z' _ rfl
                rw [hpen] at hend
                have hclose : isCollinear pf z' a = false := by
                  rw [isCollinear_congr_left hend a, isCollinear_symm]; exact hX2'
                have hwrap : isCollinear z' a h = false := by
                  rw [isCollinear_congr_right hsd z', isCollinear_congr_left (SD_neg hK2') c]; exact hF1'
                simp only [hclose, Bool.not_false, if_true]
                have hdne : d ≠ [] := by
                  intro e; subst e
                  simp only [List.nil_append, List.cons.injEq] at hh
                  rw [← hh.1, isCollinear_aba] at hwrap; exact absurd hwrap (by simp)
                have hR : a :: d ++ [z'] = a :: h :: t := by rw [List.cons_append, hh]
                rw [hR]
                refine ⟨?_, Or.inr ?_⟩
                · have hlastR : (a :: h :: t).getLast? = some z' := by rw [← hR, List.getLast?_concat]
                  have hcc : cyclicChain (a :: h :: t) = z' :: a :: h :: (t ++ [a]) := by
                    unfold cyclicChain; rw [hlastR]; rfl
                  rw [hcc]
                  refine ⟨hwrap, ?_⟩
                  have hinit : (a :: d).dropLast ++ [pf] = a :: d := by
                    have h1 := List.getLast?_eq_some_getLast (l := a :: d) (by simp)
                    rw [hprev] at h1; injection h1 with h1
                    rw [h1]; exact List.dropLast_concat_getLast _
                  have hL : a :: h :: t = (a :: d).dropLast ++ [pf, z'] := by
                    rw [← hR]
                    conv => lhs; rw [← hinit]
                    simp
                  have hnc' : AllTriples NotCol (a :: h :: t) := by rw [← hh]; exact hnc
                  have key : AllTriples NotCol ((a :: h :: t) ++ [a]) := by
                    have e : (a :: h :: t) ++ [a] = (a :: d).dropLast ++ [pf, z', a] := by rw [hL]; simp
                    rw [e, AllTriples_snoc3]
                    exact ⟨by rw [← hL]; exact hnc', hclose⟩
                  exact key
                · cases t with
                  | nil =>
                    exfalso
                    cases d with
                    | nil => exact hdne rfl
                    | cons d0 d' =>
                      have := congrArg List.length hh
                      simp at this
                  | cons _ _ => simp

end Clipper.Lemmas.PathUtil
