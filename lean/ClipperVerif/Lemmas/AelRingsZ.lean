/-
Lemmas about the Z layer of the ring assembly model (`Model/AelRingsZ.lean`; theorems: `Props/C15Rings.lean`).

Three kinds of facts, each proved for the primitives (`newRecZ`, `addOutPtZ`, `finishZ`, `joinPathsZ`) and lifted through the control flow of the
events by one generic lemma (`rel_outStepZ`, the relational twin of `pres_outStep`):
* `Agree`   — forgetting z, the Z rings / the Z log are the rings / the log of the ring model;
* `PermZOK` — conservation of triples; `ProvOK` — every ring triple is a stored log entry; `CallsOK` — the callback log;
* `LogFromZ` — provenance of the log entries made by one event.
-/
import ClipperVerif.Model.AelRingsZ
import ClipperVerif.Lemmas.AelRings
import ClipperVerif.Props.C15
namespace Clipper.Model
open Clipper.Model.ZFill

/-! ## stamping -/

theorem xy_setZ (cb : Option Callback) (s : Bool) (a b c d ip : PtZ) (dz : Int) : xy (setZ cb s a b c d ip dz) = xy ip := by
  have := Clipper.Props.C15.setZ_xy cb s a b c d ip dz
  simp [xy, this.1, this.2]

theorem stamp_xy (zc : ZCfg) (ends : ZEnds) (how : Option Bool) (pt : PtZ) (z : ZOut) : xy (stamp zc ends how pt z).q = xy pt := by
  unfold stamp
  split
  · exact xy_setZ _ _ _ _ _ _ _ _
  · rfl

/-- what a stamp is: by value, or `SetZ` with the callback's next call -/
theorem stamp_spec (zc : ZCfg) (ends : ZEnds) (how : Option Bool) (pt : PtZ) (z : ZOut) :
    ((stamp zc ends how pt z).src = .given ∧ (stamp zc ends how pt z).q = pt ∧ (stamp zc ends how pt z).ncb = z.ncb ∧ (stamp zc ends how pt z).calls = z.calls ∧
      (how = none ∨ zc.cb = none)) ∨
    (∃ F subj, zc.cb = some F ∧ how = some subj ∧ (stamp zc ends how pt z).src = .setz z.ncb ∧
      (stamp zc ends how pt z).q = setZ (some (F z.ncb)) subj ends.e1bot ends.e1top ends.e2bot ends.e2top pt zc.defaultZ ∧
      (stamp zc ends how pt z).ncb = z.ncb + 1 ∧ ∃ c, (stamp zc ends how pt z).calls = c :: z.calls ∧ c.k = z.ncb ∧ c.ret = F z.ncb c.a c.b c.c c.d c.seen) := by
  unfold stamp
  cases hcb : zc.cb with
  | none => left; simp
  | some F =>
    cases how with
    | none => left; simp
    | some subj =>
      right
      refine ⟨F, subj, rfl, rfl, rfl, rfl, rfl, ?_⟩
      cases subj <;> simp [setZ]

theorem stamp_none (zc : ZCfg) (ends : ZEnds) (pt : PtZ) (z : ZOut) :
    (stamp zc ends none pt z).src = .given ∧ (stamp zc ends none pt z).q = pt ∧ (stamp zc ends none pt z).ncb = z.ncb ∧ (stamp zc ends none pt z).calls = z.calls := by
  unfold stamp; cases zc.cb <;> simp

theorem stamp_nocb (zc : ZCfg) (h : zc.cb = none) (ends : ZEnds) (how : Option Bool) (pt : PtZ) (z : ZOut) :
    (stamp zc ends how pt z).src = .given ∧ (stamp zc ends how pt z).q = pt := by
  unfold stamp; simp [h]

/-! ## ends of lists under `map xy` -/

theorem endPtZ_map (f : Bool) (pts : List PtZ) : (endPtZ f pts).map xy = endPt f (pts.map xy) := by
  cases f <;> simp [endPtZ, endPt, List.head?_map, List.getLast?_map]

theorem endPtZ_none (f : Bool) (pts : List PtZ) (h : endPtZ f pts = none) : pts = [] := by
  cases f <;> simp [endPtZ] at h <;> exact h

theorem pushZ_map (f : Bool) (q : PtZ) (pts : List PtZ) : (pushZ f q pts).map xy = (if f then xy q :: pts.map xy else pts.map xy ++ [xy q]) := by
  cases f <;> simp [pushZ]

/-- replacing an end by a triple with the same x, y does not change the x, y ring -/
theorem setEndZ_map (f : Bool) (q p : PtZ) (pts : List PtZ) (h : endPtZ f pts = some p) (hq : xy q = xy p) : (setEndZ f q pts).map xy = pts.map xy := by
  cases f with
  | true =>
    cases pts with
    | nil => simp [endPtZ] at h
    | cons a t => simp [endPtZ] at h; subst h; simp [setEndZ, hq]
  | false =>
    have hne : pts ≠ [] := by intro hn; subst hn; simp [endPtZ] at h
    simp only [endPtZ, Bool.false_eq_true, if_false] at h
    rw [List.getLast?_eq_some_getLast hne] at h
    cases h
    simp only [setEndZ, Bool.false_eq_true, if_false, List.map_append, List.map_cons, List.map_nil, hq]
    conv => rhs; rw [← List.dropLast_concat_getLast hne]
    simp

/-- `p :: (ring with end p replaced by q)` is a permutation of `q :: ring` -/
theorem setEndZ_perm (f : Bool) (q p : PtZ) (pts : List PtZ) (h : endPtZ f pts = some p) : (p :: setEndZ f q pts).Perm (q :: pts) := by
  cases f with
  | true =>
    cases pts with
    | nil => simp [endPtZ] at h
    | cons a t => simp [endPtZ] at h; subst h; simp only [setEndZ, if_true, List.tail_cons]; exact List.Perm.swap _ _ _
  | false =>
    have hne : pts ≠ [] := by intro hn; subst hn; simp [endPtZ] at h
    simp only [endPtZ, Bool.false_eq_true, if_false] at h
    rw [List.getLast?_eq_some_getLast hne] at h
    cases h
    simp only [setEndZ, Bool.false_eq_true, if_false]
    have e : pts = pts.dropLast ++ [pts.getLast hne] := (List.dropLast_concat_getLast hne).symm
    conv => rhs; rw [e]
    generalize pts.dropLast = d
    generalize pts.getLast hne = p
    have h1 : (p :: (d ++ [q])).Perm (p :: q :: d) := (List.perm_append_singleton q d).cons p
    have h2 : (q :: (d ++ [p])).Perm (q :: p :: d) := (List.perm_append_singleton p d).cons q
    exact h1.trans ((List.Perm.swap _ _ _).trans h2.symm)

theorem mem_setEndZ (f : Bool) (q : PtZ) (pts : List PtZ) (x : PtZ) (h : x ∈ setEndZ f q pts) : x = q ∨ x ∈ pts := by
  cases f with
  | true =>
    simp only [setEndZ, if_true, List.mem_cons] at h
    rcases h with h | h
    · exact Or.inl h
    · exact Or.inr (List.mem_of_mem_tail h)
  | false =>
    simp only [setEndZ, Bool.false_eq_true, if_false, List.mem_append, List.mem_singleton] at h
    rcases h with h | h
    · exact Or.inr ((List.dropLast_sublist pts).subset h)
    · exact Or.inl h

theorem mem_pushZ (f : Bool) (q : PtZ) (pts : List PtZ) (x : PtZ) : x ∈ pushZ f q pts ↔ x = q ∨ x ∈ pts := by
  cases f <;> simp [pushZ, or_comm]

theorem set_self_of_get {α} (l : List α) (i : Nat) (x : α) (h : l[i]? = some x) : l.set i x = l := by
  induction l generalizing i with
  | nil => simp at h
  | cons a t ih =>
    cases i with
    | zero => simp at h; subst h; rfl
    | succ k => simp at h; simp [ih k h]

/-! ## agreement with the ring model -/

/-- forgetting z, the Z rings are the rings of the ring model and the Z log is its log -/
def Agree (z : ZOut) (o : Out) : Prop := z.rings.map ZRing.erase = o.rings.map Ring.core ∧ z.log.map ZEmit.erase = o.log

theorem agree_get (z : ZOut) (o : Out) (h : Agree z o) (id : Nat) : (z.rings[id]?).map ZRing.erase = (o.rings[id]?).map Ring.core := by
  have := congrArg (fun l => l[id]?) h.1
  simpa [List.getElem?_map] using this

theorem agree_some (z : ZOut) (o : Out) (h : Agree z o) (id : Nat) (zr : ZRing) (hz : z.rings[id]? = some zr) :
    ∃ r, o.rings[id]? = some r ∧ r.stat = zr.stat ∧ r.pts = zr.pts.map xy := by
  have := agree_get z o h id
  rw [hz] at this
  cases ho : o.rings[id]? with
  | none => simp [ho] at this
  | some r =>
    simp only [ho, Option.map_some, Option.some.injEq, ZRing.erase, Ring.core, Prod.mk.injEq] at this
    exact ⟨r, rfl, this.1.symm, this.2.symm⟩

theorem agree_none (z : ZOut) (o : Out) (h : Agree z o) (id : Nat) (hz : z.rings[id]? = none) : o.rings[id]? = none := by
  have := agree_get z o h id
  rw [hz] at this
  cases ho : o.rings[id]? with
  | none => rfl
  | some r => simp [ho] at this

theorem agree_set (zl : List ZRing) (ol : List Ring) (h : zl.map ZRing.erase = ol.map Ring.core) (id : Nat) (zr : ZRing) (r : Ring)
    (hs : r.stat = zr.stat) (hp : r.pts = zr.pts.map xy) : (zl.set id zr).map ZRing.erase = (ol.set id r).map Ring.core := by
  rw [List.map_set, List.map_set, h]
  congr 1
  simp [ZRing.erase, Ring.core, hs, hp]

theorem agree_newRec (zc : ZCfg) (ends : ZEnds) (how : Option Bool) (pt : PtZ) (z : ZOut) (o : Out) (h : Agree z o) :
    Agree (newRecZ zc ends how pt z) (newRec (xy pt) o) := by
  refine ⟨?_, ?_⟩
  · simp only [newRecZ, newRec, List.map_append, h.1, List.map_cons, List.map_nil]
    simp [ZRing.erase, Ring.core, stamp_xy]
  · simp only [newRecZ, newRec, List.map_cons, h.2]
    simp [ZEmit.erase, ZKind.erase, stamp_xy]

theorem addOutPt_unfold (id : Nat) (f : Bool) (pt : Pt) (o : Out) (r : Ring) (hr : o.rings[id]? = some r) (hl : r.stat = .live) :
    (addOutPt id f pt o).rings = o.rings.set id (addPt f pt r).1 ∧ (addOutPt id f pt o).log = ⟨pt, (addPt f pt r).2.1⟩ :: o.log := by
  unfold addOutPt; simp [hr, hl]

theorem agree_addOutPt (zc : ZCfg) (ends : ZEnds) (id : Nat) (f : Bool) (how : Option Bool) (pt : PtZ) (z : ZOut) (o : Out) (h : Agree z o) :
    Agree (addOutPtZ zc ends id f how pt z) (addOutPt id f (xy pt) o) := by
  unfold addOutPtZ
  cases hz : z.rings[id]? with
  | none =>
    have ho := agree_none z o h id hz
    simp only []
    refine ⟨?_, ?_⟩
    · unfold addOutPt; simp only [ho]; exact h.1
    · unfold addOutPt; simp only [ho, List.map_cons, h.2]; simp [ZEmit.erase, ZKind.erase, stamp_xy]
  | some zr =>
    obtain ⟨r, ho, hs, hp⟩ := agree_some z o h id zr hz
    simp only []
    by_cases hl : zr.stat = .live
    · have hl' : r.stat = .live := hs.trans hl
      obtain ⟨e1, e2⟩ := addOutPt_unfold id f (xy pt) o r ho hl'
      rw [if_pos hl]
      have hend := endPtZ_map f zr.pts
      rw [← hp] at hend
      cases hez : endPtZ f zr.pts with
      | none =>
        have hnil := endPtZ_none f zr.pts hez
        have hr0 : r.pts = [] := by rw [hp, hnil]; rfl
        have her : endPt f r.pts = none := by rw [hr0]; cases f <;> rfl
        simp only []
        refine ⟨?_, ?_⟩
        · rw [e1]
          refine agree_set _ _ h.1 id _ _ ?_ ?_
          · rw [addPt_stat]; exact hs
          · unfold addPt; simp only [her]; simp [stamp_xy]
        · rw [e2]; simp only [List.map_cons, h.2]
          unfold addPt; simp only [her]; simp [ZEmit.erase, ZKind.erase, stamp_xy]
      | some p =>
        have her : endPt f r.pts = some (xy p) := by rw [← hend, hez]; rfl
        simp only []
        by_cases hd : xy pt = xy p
        · rw [if_pos hd]
          have hadd : addPt f (xy pt) r = (r.setLast f (xy pt), .dup, []) := by unfold addPt; simp [her, hd]
          cases hv : (stamp zc ends how pt z).src.viaSetZ with
          | true =>
            simp only [if_true]
            refine ⟨?_, ?_⟩
            · rw [e1]
              refine agree_set _ _ h.1 id _ _ ?_ ?_
              · rw [addPt_stat]; exact hs
              · rw [hadd]; simp only [setLast_pts]
                rw [setEndZ_map f _ p zr.pts hez (by rw [stamp_xy, hd])]; exact hp
            · rw [e2]; simp only [List.map_cons, h.2]
              rw [hadd]; simp [ZEmit.erase, ZKind.erase, stamp_xy]
          | false =>
            simp only [Bool.false_eq_true, if_false]
            refine ⟨?_, ?_⟩
            · rw [e1, hadd]
              have t := agree_set _ _ h.1 id zr (r.setLast f (xy pt)) ((setLast_stat _ _ _).trans hs) ((setLast_pts _ _ _).trans hp)
              rw [← t, set_self_of_get _ _ _ hz]
            · rw [e2]; simp only [List.map_cons, h.2]
              rw [hadd]; simp [ZEmit.erase, ZKind.erase]
        · rw [if_neg hd]
          have hadd : (addPt f (xy pt) r).1.pts = (if f then xy pt :: r.pts else r.pts ++ [xy pt]) ∧ (addPt f (xy pt) r).2.1 = .added := by
            unfold addPt; simp only [her]; simp [hd]
          refine ⟨?_, ?_⟩
          · rw [e1]
            refine agree_set _ _ h.1 id _ _ ?_ ?_
            · rw [addPt_stat]; exact hs
            · rw [hadd.1]; simp only [pushZ_map, stamp_xy, hp]
          · rw [e2]; simp only [List.map_cons, h.2, hadd.2]
            simp [ZEmit.erase, ZKind.erase, stamp_xy]
    · have hl' : ¬ r.stat = .live := by rw [hs]; exact hl
      rw [if_neg hl]
      refine ⟨?_, ?_⟩
      · unfold addOutPt; simp only [ho, hl', if_false]; exact h.1
      · unfold addOutPt; simp only [ho, hl', if_false, List.map_cons, h.2]; simp [ZEmit.erase, ZKind.erase, stamp_xy]

theorem agree_finish (id : Nat) (f : Bool) (z : ZOut) (o : Out) (h : Agree z o) : Agree (finishZ id f z) (finish id f o) := by
  unfold finishZ finish
  cases hz : z.rings[id]? with
  | none => rw [agree_none z o h id hz]; exact h
  | some zr =>
    obtain ⟨r, ho, hs, hp⟩ := agree_some z o h id zr hz
    rw [ho]
    refine ⟨?_, h.2⟩
    refine agree_set _ _ h.1 id _ _ rfl ?_
    simp only
    cases f with
    | true => simpa using hp
    | false =>
      simp only [Bool.false_eq_true, if_false, hp, List.getLast?_map]
      cases zr.pts.getLast? with
      | none => simp
      | some b => simp [List.map_dropLast]

theorem agree_joinPaths (A B : Nat) (f : Bool) (z : ZOut) (o : Out) (h : Agree z o) : Agree (joinPathsZ A B f z) (joinPaths A B f o) := by
  unfold joinPathsZ joinPaths
  cases hzA : z.rings[A]? with
  | none => rw [agree_none z o h A hzA]; exact h
  | some za =>
    obtain ⟨ra, hoA, hsA, hpA⟩ := agree_some z o h A za hzA
    rw [hoA]
    cases hzB : z.rings[B]? with
    | none => rw [agree_none z o h B hzB]; exact h
    | some zb =>
      obtain ⟨rb, hoB, hsB, hpB⟩ := agree_some z o h B zb hzB
      rw [hoB]
      simp only [hsA, hsB]
      split
      · refine ⟨?_, h.2⟩
        refine agree_set _ _ (agree_set _ _ h.1 A _ _ ?_ ?_) B _ _ rfl rfl
        · cases f <;> simp
        · cases f <;> simp [hpA, hpB]
      · exact h

/-! ## lifting through the control flow -/

/-- a relation between the Z output and the ring model's output that every pair of twin primitives preserves, for the triple `pt` of the event.
`X` = the event is an `intersect` (only then is `SetZ` ever called, and then with the event's `ends`, and `AddOutPt` never emits by value);
`S` = in an `intersect` event records may be started by value (`Split`). -/
structure PrimRel (zc : ZCfg) (X S : Bool) (ends : ZEnds) (pt : PtZ) (R : ZOut → Out → Prop) : Prop where
  newRec : ∀ ends' how z o, (how.isSome = true → X = true ∧ ends' = ends) → (how = none → X = true → S = true) → R z o → R (newRecZ zc ends' how pt z) (newRec (xy pt) o)
  addOutPt : ∀ ends' id f how z o, (how.isSome = X) → (how.isSome = true → ends' = ends) → R z o → R (addOutPtZ zc ends' id f how pt z) (addOutPt id f (xy pt) o)
  handOver : ∀ id f z o, R z o → R z (handOver id f o)
  finish : ∀ id f z o, R z o → R (finishZ id f z) (finish id f o)
  joinPaths : ∀ A B f z o, R z o → R (joinPathsZ A B f z) (joinPaths A B f o)
  logSeg : ∀ k i1 f1 i2 f2 z o, R z o → R z (logSeg k i1 f1 i2 f2 o)

section rel
variable {zc : ZCfg} {X S : Bool} {ends : ZEnds} {pt : PtZ} {R : ZOut → Out → Prop} (hp : PrimRel zc X S ends pt R)
include hp

theorem rel_localMaxOut (k : SegKind) (ends' : ZEnds) (how : Option Bool) (h1 : how.isSome = X) (h2 : how.isSome = true → ends' = ends)
    (ra rb : Rec) (z : ZOut) (o : Out) (h : R z o) : R (localMaxOutZ zc ends' how ra rb pt z) (localMaxOut k ra rb (xy pt) o) := by
  unfold localMaxOutZ localMaxOut
  have h1 := hp.logSeg k rb.id rb.front ra.id ra.front _ _ (hp.addOutPt ends' ra.id ra.front how z o h1 h2 h)
  simp only
  split
  · exact hp.finish _ _ _ _ h1
  · split
    · exact hp.joinPaths _ _ _ _ _ h1
    · exact hp.joinPaths _ _ _ _ _ h1

theorem rel_addOn (ends' : ZEnds) (how : Option Bool) (h1 : how.isSome = X) (h2 : how.isSome = true → ends' = ends)
    (r : Option Rec) (z : ZOut) (o : Out) (h : R z o) : R (addOnZ zc ends' how r pt z) (addOn r (xy pt) o) := by
  cases r with
  | none => exact h
  | some x => exact hp.addOutPt _ _ _ _ _ _ h1 h2 h

theorem rel_handOn (r : Option Rec) (z : ZOut) (o : Out) (h : R z o) : R z (handOn r o) := by
  cases r with
  | none => exact h
  | some x => exact hp.handOver _ _ _ _ h

theorem rel_swapOut (ends' : ZEnds) (how : Option Bool) (h1 : how.isSome = X) (h2 : how.isSome = true → ends' = ends)
    (r1 r2 : Option Rec) (z : ZOut) (o : Out) (h : R z o) : R (swapOutZ zc ends' how r1 r2 pt z) (swapOut r1 r2 (xy pt) o) := by
  unfold swapOutZ swapOut
  exact rel_handOn hp _ _ _ (rel_handOn hp _ _ _ (rel_addOn hp _ _ h1 h2 _ _ _ (rel_addOn hp _ _ h1 h2 _ _ _ h)))

theorem rel_coreOut (cfg : Cfg) (hX : X = true) (a b : SEdge) (z : ZOut) (o : Out) (h : R z o) :
    R (coreOutZ cfg zc ends a b pt z) (coreOut cfg a b (xy pt) o) := by
  unfold coreOutZ coreOut
  have g1 : (some (a.e.pt == PathType.subject)).isSome = X := by rw [hX]; rfl
  have g2 : (some (a.e.pt == PathType.subject)).isSome = true → ends = ends := fun _ => rfl
  have g3 : (some (a.e.pt == PathType.subject)).isSome = true → X = true ∧ ends = ends := fun _ => ⟨hX, rfl⟩
  simp only
  generalize decideAct cfg (updateWinds cfg.fr a.e b.e).1 (updateWinds cfg.fr a.e b.e).2 a.orec b.orec = act
  cases act with
  | nothing => exact h
  | swap => exact rel_swapOut hp _ _ g1 g2 _ _ _ _ h
  | localMin => exact hp.newRec _ _ _ _ g3 (by intro hh; cases hh) h
  | localMax =>
    cases a.orec with
    | none => exact h
    | some ra =>
      cases b.orec with
      | none => exact h
      | some rb => exact rel_localMaxOut hp _ _ _ g1 g2 _ _ _ _ h
  | maxThenMin =>
    cases a.orec with
    | none => exact h
    | some ra =>
      cases b.orec with
      | none => exact h
      | some rb => exact hp.newRec _ _ _ _ g3 (by intro hh; cases hh) (rel_localMaxOut hp _ _ _ g1 g2 _ _ _ _ h)

theorem rel_splitOut (hS : X = true → S = true) (i : Nat) (s : SState) (z : ZOut) (o : Out) (h : R z o) : R (splitOutZ zc i pt s z) (splitOut i (xy pt) s o) := by
  unfold splitOutZ splitOut
  cases s.ael[i]? with
  | none => exact h
  | some x =>
    simp only
    split
    · exact h
    · exact hp.newRec _ _ _ _ (by intro hh; cases hh) (fun _ => hS) h

theorem rel_twoSplitsOut (hS : X = true → S = true) (i : Nat) (s : SState) (z : ZOut) (o : Out) (h : R z o) :
    R (twoSplitsOutZ zc i pt s z).1 (twoSplitsOut i (xy pt) s o).1 ∧ (twoSplitsOutZ zc i pt s z).2 = (twoSplitsOut i (xy pt) s o).2 := by
  unfold twoSplitsOutZ twoSplitsOut
  have h1 := rel_splitOut hp hS i s z o h
  simp only
  cases splitAt i s with
  | error e => exact ⟨h1, rfl⟩
  | ok s1 =>
    have h2 := rel_splitOut hp hS (i + 1) s1 _ _ h1
    simp only
    cases splitAt (i + 1) s1 with
    | error e => exact ⟨h2, rfl⟩
    | ok s2 =>
      simp only
      cases s2.ael.drop i with
      | nil => exact ⟨h2, rfl⟩
      | cons a t =>
        cases t with
        | nil => exact ⟨h2, rfl⟩
        | cons b t' => exact ⟨h2, rfl⟩

theorem rel_afterSplits (hS : X = true → S = true) (i : Nat) (s : SState) (z : ZOut) (o : Out) (h : R z o)
    (KZ : ZOut × Option (SEdge × SEdge) → ZOut) (KO : Out × Option (SEdge × SEdge) → Out)
    (hK : ∀ z2 o2 m, R z2 o2 → R (KZ (z2, m)) (KO (o2, m))) :
    R (KZ (twoSplitsOutZ zc i pt s z)) (KO (twoSplitsOut i (xy pt) s o)) := by
  obtain ⟨h2, h3⟩ := rel_twoSplitsOut hp hS i s z o h
  generalize twoSplitsOutZ zc i pt s z = tz at h2 h3 ⊢
  generalize twoSplitsOut i (xy pt) s o = to at h2 h3 ⊢
  obtain ⟨z2, mz⟩ := tz
  obtain ⟨o2, mo⟩ := to
  simp only at h2 h3
  subst h3
  exact hK z2 o2 mz h2

theorem rel_intersectOut (cfg : Cfg) (hX : X = true) (hS : S = true) (i : Nat) (s : SState) (z : ZOut) (o : Out) (h : R z o) :
    R (intersectOutZ cfg zc i pt ends s z) (intersectOut cfg i (xy pt) s o) := by
  unfold intersectOutZ intersectOut
  cases s.ael.drop i with
  | nil => exact h
  | cons a0 t =>
    cases t with
    | nil => exact h
    | cons b0 t' =>
      simp only
      split
      · split
        · exact h
        · split
          · exact rel_splitOut hp (fun _ => hS) _ _ _ _ h
          · exact rel_splitOut hp (fun _ => hS) _ _ _ _ h
      · refine rel_afterSplits hp (fun _ => hS) i s z o h
          (fun tz => match tz with | (z2, some (a, b)) => coreOutZ cfg zc ends a b pt z2 | (z2, none) => z2)
          (fun to => match to with | (o2, some (a, b)) => coreOut cfg a b (xy pt) o2 | (o2, none) => o2) ?_
        intro z2 o2 m h2
        cases m with
        | none => exact h2
        | some ab => obtain ⟨a, b⟩ := ab; exact rel_coreOut hp cfg hX a b _ _ h2

theorem rel_removePairOut (hX : X = false) (i : Nat) (s : SState) (z : ZOut) (o : Out) (h : R z o) :
    R (removePairOutZ zc i pt s z) (removePairOut i (xy pt) s o) := by
  unfold removePairOutZ removePairOut
  cases s.ael.drop i with
  | nil => exact h
  | cons a0 t =>
    cases t with
    | nil => exact h
    | cons b0 t' =>
      simp only
      split
      · exact h
      · refine rel_afterSplits hp (by intro hh; rw [hX] at hh; cases hh) i s z o h
          (fun tz => match tz with
            | (z2, some (a, b)) => (match a.orec, b.orec with | some ra, some rb => localMaxOutZ zc ZEnds.none none ra rb pt z2 | _, _ => z2)
            | (z2, none) => z2)
          (fun to => match to with
            | (o2, some (a, b)) => (match a.orec, b.orec with | some ra, some rb => localMaxOut .meet ra rb (xy pt) o2 | _, _ => o2)
            | (o2, none) => o2) ?_
        intro z2 o2 m h2
        cases m with
        | none => exact h2
        | some ab =>
          obtain ⟨a, b⟩ := ab
          simp only
          cases a.orec with
          | none => exact h2
          | some ra =>
            cases b.orec with
            | none => exact h2
            | some rb => exact rel_localMaxOut hp _ _ _ (by rw [hX]; rfl) (by intro hh; cases hh) _ _ _ _ h2

theorem rel_joinOut (hX : X = false) (i : Nat) (s : SState) (z : ZOut) (o : Out) (h : R z o) :
    R (joinOutZ zc i pt s z) (joinOut i (xy pt) s o) := by
  unfold joinOutZ joinOut
  cases s.ael.drop i with
  | nil => exact h
  | cons a t =>
    cases t with
    | nil => exact h
    | cons b t' =>
      simp only
      cases a.orec with
      | none => exact h
      | some ra =>
        cases b.orec with
        | none => exact h
        | some rb =>
          simp only
          split
          · exact rel_localMaxOut hp _ _ _ (by rw [hX]; rfl) (by intro hh; cases hh) _ _ _ _ h
          · split
            · exact hp.joinPaths _ _ _ _ _ (hp.logSeg _ _ _ _ _ _ _ h)
            · exact hp.joinPaths _ _ _ _ _ (hp.logSeg _ _ _ _ _ _ _ h)

theorem rel_updateOut (hX : X = false) (i : Nat) (s : SState) (z : ZOut) (o : Out) (h : R z o) :
    R (updateOutZ zc i pt s z) (updateOut i (xy pt) s o) := by
  unfold updateOutZ updateOut
  cases s.ael[i]? with
  | none => exact h
  | some x =>
    simp only
    split
    · exact h
    · exact rel_addOn hp _ _ (by rw [hX]; rfl) (by intro hh; cases hh) _ _ _ h

theorem rel_insertPairOut (cfg : Cfg) (hX : X = false) (pos : Nat) (t : PathType) (isOpen : Bool) (dx : Int) (s : SState) (z : ZOut) (o : Out) (h : R z o) :
    R (insertPairOutZ cfg zc pos t isOpen dx pt s z) (insertPairOut cfg pos t isOpen dx (xy pt) s o) := by
  unfold insertPairOutZ insertPairOut
  simp only
  split
  · exact hp.newRec _ _ _ _ (by intro hh; cases hh) (by intro _ hh; rw [hX] at hh; cases hh) h
  · exact h

end rel

/-- is the event an `IntersectEdges` call; its `bot`/`top` record -/
def ZOp.isX : ZOp → Bool
  | .intersect _ _ _ => true
  | _ => false

def ZOp.ends : ZOp → ZEnds
  | .intersect _ _ e => e
  | _ => ZEnds.none

/-- the input vertex a vertex event supplies: `left_bound->bot` of a local minimum, `e.top` of a vertex passed (`DoTopOfScanbeam`, `DoHorizontal`) or of a maximum -/
def ZOp.vertexPt : ZOp → Option PtZ
  | .insertPair _ _ _ _ p => some p
  | .update _ p => some p
  | .removePair _ p => some p
  | _ => none

theorem erase_pt (op : ZOp) : (op.erase).pt = xy op.ptz := by
  cases op <;> rfl

/-- every Z effect of an event is a composition of Z primitives running in step with the ring model's primitives -/
theorem rel_outStepZ (cfg : Cfg) (zc : ZCfg) (s : SState) (z : ZOut) (o : Out) (op : ZOp) (R : ZOut → Out → Prop)
    (hp : PrimRel zc op.isX true op.ends op.ptz R) (h : R z o) : R (outStepZ cfg zc s z op) (outStep cfg s o op.erase) := by
  cases op with
  | insertPair pos t isOpen dx p => exact rel_insertPairOut hp cfg rfl _ _ _ _ _ _ _ h
  | insertOne _ _ _ => exact h
  | intersect i p e => exact rel_intersectOut hp cfg rfl rfl _ _ _ _ h
  | removePair i p => exact rel_removePairOut hp rfl _ _ _ _ h
  | removeOne _ => exact h
  | join i p => exact rel_joinOut hp rfl _ _ _ _ h
  | split i p => exact rel_splitOut hp (fun _ => rfl) _ _ _ _ h
  | update i p => exact rel_updateOut hp rfl _ _ _ _ h

theorem handOver_core (id : Nat) (f : Bool) (o : Out) : (handOver id f o).rings.map Ring.core = o.rings.map Ring.core := by
  unfold handOver
  cases hr : o.rings[id]? with
  | none => rfl
  | some r =>
    simp only [List.map_set]
    have : Ring.core (if f then { r with frun := o.nrun } else { r with brun := o.nrun }) = Ring.core r := by cases f <;> rfl
    rw [this]
    have h2 : (o.rings.map Ring.core)[id]? = some (Ring.core r) := by simp [List.getElem?_map, hr]
    exact set_self_of_get _ _ _ h2

theorem agree_prim (zc : ZCfg) (X S : Bool) (ends : ZEnds) (pt : PtZ) : PrimRel zc X S ends pt Agree :=
  ⟨fun ends' how z o _ _ h => agree_newRec zc ends' how pt z o h,
   fun ends' id f how z o _ _ h => agree_addOutPt zc ends' id f how pt z o h,
   fun id f z o h => ⟨by rw [handOver_core]; exact h.1, by rw [log_handOver]; exact h.2⟩,
   agree_finish, agree_joinPaths,
   fun k i1 f1 i2 f2 z o h => ⟨by rw [logSeg_rings]; exact h.1, by rw [logSeg_log]; exact h.2⟩⟩

/-! ## what `addOutPtZ` does, case by case -/

/-- the four outcomes of `resultOp = AddOutPt(e, pt); [SetZ(e1, e2, resultOp->pt)]` -/
inductive AddCase (zc : ZCfg) (ends : ZEnds) (id : Nat) (f : Bool) (how : Option Bool) (pt : PtZ) (z z' : ZOut) : Prop
  | lost (hr : z'.rings = z.rings) (hl : z'.log = ⟨(stamp zc ends how pt z).q, .lost, (stamp zc ends how pt z).src, (stamp zc ends how pt z).q⟩ :: z.log)
  | dup (hr : z'.rings = z.rings) (hl : z'.log = ⟨pt, .dup, (stamp zc ends how pt z).src, pt⟩ :: z.log) (hs : (stamp zc ends how pt z).src.viaSetZ = false)
  | over (r : ZRing) (p : PtZ) (hg : z.rings[id]? = some r) (he : endPtZ f r.pts = some p) (hxy : xy pt = xy p)
      (hr : z'.rings = z.rings.set id { r with pts := setEndZ f (stamp zc ends how pt z).q r.pts })
      (hl : z'.log = ⟨(stamp zc ends how pt z).q, .over, (stamp zc ends how pt z).src, p⟩ :: z.log) (hs : (stamp zc ends how pt z).src.viaSetZ = true)
  | added (r : ZRing) (pts' : List PtZ) (hg : z.rings[id]? = some r) (hr : z'.rings = z.rings.set id { r with pts := pts' })
      (hp : pts'.Perm ((stamp zc ends how pt z).q :: r.pts)) (hm : ∀ x ∈ pts', x = (stamp zc ends how pt z).q ∨ x ∈ r.pts)
      (hl : z'.log = ⟨(stamp zc ends how pt z).q, .added, (stamp zc ends how pt z).src, (stamp zc ends how pt z).q⟩ :: z.log)

theorem addOutPtZ_cases (zc : ZCfg) (ends : ZEnds) (id : Nat) (f : Bool) (how : Option Bool) (pt : PtZ) (z : ZOut) :
    (addOutPtZ zc ends id f how pt z).ncb = (stamp zc ends how pt z).ncb ∧ (addOutPtZ zc ends id f how pt z).calls = (stamp zc ends how pt z).calls ∧
    AddCase zc ends id f how pt z (addOutPtZ zc ends id f how pt z) := by
  unfold addOutPtZ
  cases hz : z.rings[id]? with
  | none => exact ⟨rfl, rfl, .lost rfl rfl⟩
  | some r =>
    simp only
    by_cases hl : r.stat = .live
    · rw [if_pos hl]
      cases he : endPtZ f r.pts with
      | none =>
        refine ⟨rfl, rfl, .added r [(stamp zc ends how pt z).q] hz rfl ?_ ?_ rfl⟩
        · rw [endPtZ_none f r.pts he]
        · intro x hx; left; simpa using hx
      | some p =>
        simp only
        by_cases hd : xy pt = xy p
        · rw [if_pos hd]
          cases hv : (stamp zc ends how pt z).src.viaSetZ with
          | true => exact ⟨rfl, rfl, .over r p hz he hd rfl rfl hv⟩
          | false => exact ⟨rfl, rfl, .dup rfl rfl hv⟩
        · rw [if_neg hd]
          refine ⟨rfl, rfl, .added r (pushZ f (stamp zc ends how pt z).q r.pts) hz rfl ?_ ?_ rfl⟩
          · cases f
            · simp only [pushZ, Bool.false_eq_true, if_false]; exact List.perm_append_singleton _ _
            · simp [pushZ]
          · intro x hx; exact (mem_pushZ f _ _ x).mp hx
    · rw [if_neg hl]; exact ⟨rfl, rfl, .lost rfl rfl⟩

/-! ## unary invariants of the Z output -/

theorem allPtsZ_cons (r : ZRing) (rs : List ZRing) : allPtsZ (r :: rs) = r.pts ++ allPtsZ rs := by simp [allPtsZ]
theorem allPtsZ_append (a b : List ZRing) : allPtsZ (a ++ b) = allPtsZ a ++ allPtsZ b := by simp [allPtsZ]

theorem allPtsZ_set (l : List ZRing) : ∀ (id : Nat) (r r' : ZRing), l[id]? = some r →
    (r.pts ++ allPtsZ (l.set id r')).Perm (r'.pts ++ allPtsZ l) := by
  induction l with
  | nil => intro id r r' h; simp at h
  | cons x xs ih =>
    intro id r r' h
    cases id with
    | zero =>
      simp at h; subst h
      simp only [List.set_cons_zero, allPtsZ_cons]
      exact perm_swap3 _ _ _
    | succ k =>
      simp at h
      simp only [List.set_cons_succ, allPtsZ_cons]
      exact (perm_swap3 _ _ _).trans (((ih k r r' h).append_left x.pts).trans (perm_swap3 _ _ _))

/-- replacing ring `id`: `X` plus its new points balance `Y` plus its old points -/
theorem allPtsZ_set_gen (l : List ZRing) (id : Nat) (r r' : ZRing) (X Y : List PtZ) (h : l[id]? = some r) (hp : (X ++ r'.pts).Perm (Y ++ r.pts)) :
    (X ++ allPtsZ (l.set id r')).Perm (Y ++ allPtsZ l) := by
  have h1 := allPtsZ_set l id r r' h
  have e1 : (r.pts ++ (X ++ allPtsZ (l.set id r'))).Perm (X ++ (r'.pts ++ allPtsZ l)) :=
    (perm_swap3 _ _ _).trans (h1.append_left X)
  have e2 : (X ++ (r'.pts ++ allPtsZ l)).Perm (r.pts ++ (Y ++ allPtsZ l)) := by
    rw [← List.append_assoc]
    refine (hp.append_right _).trans ?_
    rw [List.append_assoc]
    exact perm_swap3 _ _ _
  exact (List.perm_append_left_iff r.pts).mp (e1.trans e2)

/-- the triples that stand or stood in a ring: stored by an emission -/
def storedZ (log : List ZEmit) : List PtZ := (log.filter ZEmit.stored).map (·.ptz)
/-- the triples that `SetZ` overwrote -/
def overOld (log : List ZEmit) : List PtZ := (log.filter (fun e => e.kind == .over)).map (·.old)

/-- conservation of triples: the triples in the rings together with the overwritten ones are exactly the triples stored -/
def PermZOK (z : ZOut) : Prop := (allPtsZ z.rings ++ overOld z.log).Perm (storedZ z.log)

theorem storedZ_cons (e : ZEmit) (log : List ZEmit) : storedZ (e :: log) = if e.stored then e.ptz :: storedZ log else storedZ log := by
  simp only [storedZ, List.filter_cons]; split <;> simp
theorem overOld_cons (e : ZEmit) (log : List ZEmit) : overOld (e :: log) = if e.kind == .over then e.old :: overOld log else overOld log := by
  simp only [overOld, List.filter_cons]; split <;> simp

theorem permZOK_newRec (zc : ZCfg) (ends : ZEnds) (how : Option Bool) (pt : PtZ) (z : ZOut) (h : PermZOK z) : PermZOK (newRecZ zc ends how pt z) := by
  unfold PermZOK newRecZ at *
  simp only [allPtsZ_append, storedZ_cons, overOld_cons, ZEmit.stored]
  simp only [allPtsZ, List.flatMap_cons, List.flatMap_nil, List.append_nil]
  simp only [beq_self_eq_true, Bool.true_or, if_true]
  rw [List.append_assoc]
  exact List.perm_middle.trans (h.cons _)

theorem permZOK_addOutPt (zc : ZCfg) (ends : ZEnds) (id : Nat) (f : Bool) (how : Option Bool) (pt : PtZ) (z : ZOut) (h : PermZOK z) :
    PermZOK (addOutPtZ zc ends id f how pt z) := by
  obtain ⟨_, _, hc⟩ := addOutPtZ_cases zc ends id f how pt z
  unfold PermZOK at *
  cases hc with
  | lost hr hl => rw [hr, hl]; simpa [storedZ_cons, overOld_cons, ZEmit.stored] using h
  | dup hr hl hs => rw [hr, hl]; simpa [storedZ_cons, overOld_cons, ZEmit.stored] using h
  | over r p hg he hxy hr hl hs =>
    rw [hr, hl]
    simp only [storedZ_cons, overOld_cons, ZEmit.stored, beq_self_eq_true, Bool.or_true, if_true]
    have hp := setEndZ_perm f (stamp zc ends how pt z).q p r.pts he
    have h1 := allPtsZ_set_gen z.rings id r { r with pts := setEndZ f (stamp zc ends how pt z).q r.pts } [p] [(stamp zc ends how pt z).q] hg (by simpa using hp)
    have h2 : (allPtsZ (z.rings.set id { r with pts := setEndZ f (stamp zc ends how pt z).q r.pts }) ++ p :: overOld z.log).Perm
        (p :: (allPtsZ (z.rings.set id { r with pts := setEndZ f (stamp zc ends how pt z).q r.pts }) ++ overOld z.log)) := List.perm_middle
    refine h2.trans ?_
    have h3 := h1.append_right (overOld z.log)
    simp only [List.cons_append] at h3
    exact h3.trans (h.cons _)
  | added r pts' hg hr hp hm hl =>
    rw [hr, hl]
    simp only [storedZ_cons, overOld_cons, ZEmit.stored]
    simp only [beq_self_eq_true, Bool.or_true, Bool.true_or, if_true]
    have h1 := allPtsZ_set_gen z.rings id r { r with pts := pts' } [] [(stamp zc ends how pt z).q] hg (by simpa using hp)
    simp only [List.nil_append, List.singleton_append] at h1
    have : ((ZKind.added == ZKind.over) = true) = False := by simp
    simp only [this, if_false]
    exact (h1.append_right (overOld z.log)).trans (by simpa using h.cons (stamp zc ends how pt z).q)

theorem rotateZ_perm (pts : List PtZ) (b : PtZ) (h : pts.getLast? = some b) : (b :: pts.dropLast).Perm pts := by
  have : pts = pts.dropLast ++ [b] := by
    have hne : pts ≠ [] := by intro hn; subst hn; simp at h
    have := List.dropLast_concat_getLast hne
    rw [List.getLast?_eq_some_getLast hne] at h
    cases h; exact this.symm
  conv => rhs; rw [this]
  exact (List.perm_append_singleton b _).symm

/-- closing a ring (`outrec.pts = result`) permutes its triples and touches no other ring and no log -/
theorem finishZ_triples (id : Nat) (f : Bool) (z : ZOut) :
    (allPtsZ (finishZ id f z).rings).Perm (allPtsZ z.rings) ∧ (finishZ id f z).log = z.log ∧ (finishZ id f z).ncb = z.ncb ∧ (finishZ id f z).calls = z.calls := by
  unfold finishZ
  cases hz : z.rings[id]? with
  | none => exact ⟨List.Perm.refl _, rfl, rfl, rfl⟩
  | some r =>
    refine ⟨?_, rfl, rfl, rfl⟩
    have := allPtsZ_set_gen z.rings id r { stat := .done, pts := (if f then r.pts else (match r.pts.getLast? with | some b => b :: r.pts.dropLast | none => r.pts)) } [] [] hz (by
      simp only [List.nil_append]
      split
      · exact List.Perm.refl _
      · split
        · next b hb => exact rotateZ_perm _ _ hb
        · exact List.Perm.refl _)
    simp only [List.nil_append] at this
    exact this

/-- `JoinOutrecPaths` permutes the triples of the two rings into one and touches no other ring and no log -/
theorem joinPathsZ_triples (A B : Nat) (f : Bool) (z : ZOut) :
    (allPtsZ (joinPathsZ A B f z).rings).Perm (allPtsZ z.rings) ∧ (joinPathsZ A B f z).log = z.log ∧ (joinPathsZ A B f z).ncb = z.ncb ∧ (joinPathsZ A B f z).calls = z.calls := by
  unfold joinPathsZ
  cases hA : z.rings[A]? with
  | none => exact ⟨List.Perm.refl _, rfl, rfl, rfl⟩
  | some ra =>
    cases hB : z.rings[B]? with
    | none => exact ⟨List.Perm.refl _, rfl, rfl, rfl⟩
    | some rb =>
      simp only
      split
      · next hc =>
        refine ⟨?_, rfl, rfl, rfl⟩
        simp only
        have hB' : (z.rings.set A (if f then { ra with pts := rb.pts ++ ra.pts } else { ra with pts := ra.pts ++ rb.pts }))[B]? = some rb := by
          rw [List.getElem?_set_ne hc.1]; exact hB
        have h1 := allPtsZ_set_gen z.rings A ra (if f then { ra with pts := rb.pts ++ ra.pts } else { ra with pts := ra.pts ++ rb.pts }) [] rb.pts hA (by
          cases f <;> simp <;> exact List.perm_append_comm)
        have h2 := allPtsZ_set_gen _ B rb { pts := [], stat := .gone } rb.pts [] hB' (by simp)
        simp only [List.nil_append] at h1 h2
        exact (List.perm_append_left_iff rb.pts).mp (h2.trans h1)
      · exact ⟨List.Perm.refl _, rfl, rfl, rfl⟩

theorem permZOK_of_triples (z z' : ZOut) (h1 : (allPtsZ z'.rings).Perm (allPtsZ z.rings)) (h2 : z'.log = z.log) (h : PermZOK z) : PermZOK z' := by
  unfold PermZOK at *; rw [h2]; exact (h1.append_right _).trans h

/-- lifting a unary invariant: the ring model's output is ignored -/
theorem prim_unary (zc : ZCfg) (X S : Bool) (ends : ZEnds) (pt : PtZ) (P : ZOut → Prop)
    (h1 : ∀ ends' how z, (how.isSome = true → X = true ∧ ends' = ends) → (how = none → X = true → S = true) → P z → P (newRecZ zc ends' how pt z))
    (h2 : ∀ ends' id f how z, how.isSome = X → (how.isSome = true → ends' = ends) → P z → P (addOutPtZ zc ends' id f how pt z))
    (h3 : ∀ id f z, P z → P (finishZ id f z)) (h4 : ∀ A B f z, P z → P (joinPathsZ A B f z)) :
    PrimRel zc X S ends pt (fun z _ => P z) :=
  ⟨fun ends' how z _ g g' h => h1 ends' how z g g' h, fun ends' id f how z _ g1 g2 h => h2 ends' id f how z g1 g2 h, fun _ _ _ _ h => h,
   fun id f z _ h => h3 id f z h, fun A B f z _ h => h4 A B f z h, fun _ _ _ _ _ _ _ h => h⟩

theorem permZOK_prim (zc : ZCfg) (X S : Bool) (ends : ZEnds) (pt : PtZ) : PrimRel zc X S ends pt (fun z _ => PermZOK z) :=
  prim_unary zc X S ends pt PermZOK (fun ends' how z _ _ h => permZOK_newRec zc ends' how pt z h)
    (fun ends' id f how z _ _ h => permZOK_addOutPt zc ends' id f how pt z h)
    (fun id f z h => permZOK_of_triples z _ (finishZ_triples id f z).1 (finishZ_triples id f z).2.1 h)
    (fun A B f z h => permZOK_of_triples z _ (joinPathsZ_triples A B f z).1 (joinPathsZ_triples A B f z).2.1 h)

/-! ## every ring triple is a stored log entry -/

def ProvOK (z : ZOut) : Prop := ∀ g ∈ z.rings, ∀ q ∈ g.pts, ∃ e ∈ z.log, e.stored = true ∧ e.ptz = q

theorem provOK_newRec (zc : ZCfg) (ends : ZEnds) (how : Option Bool) (pt : PtZ) (z : ZOut) (h : ProvOK z) : ProvOK (newRecZ zc ends how pt z) := by
  intro g hg q hq
  simp only [newRecZ, List.mem_append, List.mem_singleton] at hg
  rcases hg with hg | hg
  · obtain ⟨e, he, h1, h2⟩ := h g hg q hq
    exact ⟨e, List.mem_cons_of_mem _ he, h1, h2⟩
  · subst hg
    simp only [List.mem_singleton] at hq
    subst hq
    exact ⟨_, List.mem_cons_self, by simp [ZEmit.stored], rfl⟩

theorem provOK_addOutPt (zc : ZCfg) (ends : ZEnds) (id : Nat) (f : Bool) (how : Option Bool) (pt : PtZ) (z : ZOut) (h : ProvOK z) :
    ProvOK (addOutPtZ zc ends id f how pt z) := by
  obtain ⟨_, _, hc⟩ := addOutPtZ_cases zc ends id f how pt z
  intro g hg q hq
  have old : ∀ g ∈ z.rings, ∀ q ∈ g.pts, ∀ e0, (addOutPtZ zc ends id f how pt z).log = e0 :: z.log →
      ∃ e ∈ (addOutPtZ zc ends id f how pt z).log, e.stored = true ∧ e.ptz = q := by
    intro g hg q hq e0 hl
    obtain ⟨e, he, h1, h2⟩ := h g hg q hq
    exact ⟨e, by rw [hl]; exact List.mem_cons_of_mem _ he, h1, h2⟩
  cases hc with
  | lost hr hl => rw [hr] at hg; exact old g hg q hq _ hl
  | dup hr hl hs => rw [hr] at hg; exact old g hg q hq _ hl
  | over r p hgr he hxy hr hl hs =>
    rw [hr] at hg
    rcases List.mem_or_eq_of_mem_set hg with hg | hg
    · exact old g hg q hq _ hl
    · subst hg
      rcases mem_setEndZ f _ _ q hq with hq | hq
      · exact ⟨_, by rw [hl]; exact List.mem_cons_self, by simp [ZEmit.stored], hq.symm⟩
      · exact old r (List.mem_of_getElem? hgr) q hq _ hl
  | added r pts' hgr hr hp hm hl =>
    rw [hr] at hg
    rcases List.mem_or_eq_of_mem_set hg with hg | hg
    · exact old g hg q hq _ hl
    · subst hg
      rcases hm q hq with hq | hq
      · exact ⟨_, by rw [hl]; exact List.mem_cons_self, by simp [ZEmit.stored], hq.symm⟩
      · exact old r (List.mem_of_getElem? hgr) q hq _ hl

theorem provOK_of_triples (z z' : ZOut) (h1 : (allPtsZ z'.rings).Perm (allPtsZ z.rings)) (h2 : z'.log = z.log) (h : ProvOK z) : ProvOK z' := by
  intro g hg q hq
  have : q ∈ allPtsZ z'.rings := by simp only [allPtsZ, List.mem_flatMap]; exact ⟨g, hg, hq⟩
  have := h1.subset this
  simp only [allPtsZ, List.mem_flatMap] at this
  obtain ⟨g0, hg0, hq0⟩ := this
  rw [h2]; exact h g0 hg0 q hq0

theorem provOK_prim (zc : ZCfg) (X S : Bool) (ends : ZEnds) (pt : PtZ) : PrimRel zc X S ends pt (fun z _ => ProvOK z) :=
  prim_unary zc X S ends pt ProvOK (fun ends' how z _ _ h => provOK_newRec zc ends' how pt z h)
    (fun ends' id f how z _ _ h => provOK_addOutPt zc ends' id f how pt z h)
    (fun id f z h => provOK_of_triples z _ (finishZ_triples id f z).1 (finishZ_triples id f z).2.1 h)
    (fun A B f z h => provOK_of_triples z _ (joinPathsZ_triples A B f z).1 (joinPathsZ_triples A B f z).2.1 h)

/-! ## the callback log -/

/-- the calls are numbered `0, 1, …, ncb - 1`; each recorded answer is the family's answer to the recorded arguments; a `setz k` log entry refers to a call made -/
def CallsOK (zc : ZCfg) (z : ZOut) : Prop :=
  z.calls.map (·.k) = (List.range z.ncb).reverse ∧
  (∀ c ∈ z.calls, ∃ F, zc.cb = some F ∧ c.ret = F c.k c.a c.b c.c c.d c.seen) ∧
  (∀ e ∈ z.log, ∀ k, e.src = .setz k → k < z.ncb)

theorem callsOK_stamp (zc : ZCfg) (ends : ZEnds) (how : Option Bool) (pt : PtZ) (z z' : ZOut) (h : CallsOK zc z) (e0 : ZEmit)
    (hn : z'.ncb = (stamp zc ends how pt z).ncb) (hc : z'.calls = (stamp zc ends how pt z).calls) (hl : z'.log = e0 :: z.log)
    (hs : e0.src = (stamp zc ends how pt z).src) : CallsOK zc z' := by
  rcases stamp_spec zc ends how pt z with ⟨h1, _, h3, h4, _⟩ | ⟨F, subj, hF, _, h1, _, h3, c, h4, h5, h6⟩
  · refine ⟨by rw [hn, hc, h3, h4]; exact h.1, by rw [hc, h4]; exact h.2.1, ?_⟩
    intro e he k hk
    rw [hn, h3]
    rw [hl] at he
    rcases List.mem_cons.mp he with rfl | he
    · rw [hs, h1] at hk; cases hk
    · exact h.2.2 e he k hk
  · refine ⟨?_, ?_, ?_⟩
    · rw [hn, hc, h3, h4, List.map_cons, h.1, h5, List.range_succ, List.reverse_append]; rfl
    · intro c' hc'
      rw [hc, h4] at hc'
      rcases List.mem_cons.mp hc' with rfl | hc'
      · exact ⟨F, hF, by rw [h6, h5]⟩
      · exact h.2.1 c' hc'
    · intro e he k hk
      rw [hn, h3]
      rw [hl] at he
      rcases List.mem_cons.mp he with rfl | he
      · rw [hs, h1] at hk; cases hk; exact Nat.lt_succ_self _
      · exact Nat.lt_succ_of_lt (h.2.2 e he k hk)

theorem callsOK_newRec (zc : ZCfg) (ends : ZEnds) (how : Option Bool) (pt : PtZ) (z : ZOut) (h : CallsOK zc z) : CallsOK zc (newRecZ zc ends how pt z) :=
  callsOK_stamp zc ends how pt z _ h _ rfl rfl rfl rfl

theorem callsOK_addOutPt (zc : ZCfg) (ends : ZEnds) (id : Nat) (f : Bool) (how : Option Bool) (pt : PtZ) (z : ZOut) (h : CallsOK zc z) :
    CallsOK zc (addOutPtZ zc ends id f how pt z) := by
  obtain ⟨h1, h2, hc⟩ := addOutPtZ_cases zc ends id f how pt z
  cases hc with
  | lost hr hl => exact callsOK_stamp zc ends how pt z _ h _ h1 h2 hl rfl
  | dup hr hl hs => exact callsOK_stamp zc ends how pt z _ h _ h1 h2 hl rfl
  | over r p hgr he hxy hr hl hs => exact callsOK_stamp zc ends how pt z _ h _ h1 h2 hl rfl
  | added r pts' hgr hr hp hm hl => exact callsOK_stamp zc ends how pt z _ h _ h1 h2 hl rfl

theorem callsOK_of_same (zc : ZCfg) (z z' : ZOut) (h1 : z'.log = z.log) (h2 : z'.ncb = z.ncb) (h3 : z'.calls = z.calls) (h : CallsOK zc z) : CallsOK zc z' := by
  unfold CallsOK at *; rw [h1, h2, h3]; exact h

theorem callsOK_prim (zc : ZCfg) (X S : Bool) (ends : ZEnds) (pt : PtZ) : PrimRel zc X S ends pt (fun z _ => CallsOK zc z) :=
  prim_unary zc X S ends pt (CallsOK zc) (fun ends' how z _ _ h => callsOK_newRec zc ends' how pt z h)
    (fun ends' id f how z _ _ h => callsOK_addOutPt zc ends' id f how pt z h)
    (fun id f z h => callsOK_of_same zc z _ (finishZ_triples id f z).2.1 (finishZ_triples id f z).2.2.1 (finishZ_triples id f z).2.2.2 h)
    (fun A B f z h => callsOK_of_same zc z _ (joinPathsZ_triples A B f z).2.1 (joinPathsZ_triples A B f z).2.2.1 (joinPathsZ_triples A B f z).2.2.2 h)

/-! ## provenance of the log entries one event makes -/

/-- how an event with triple `pt` (and, for `IntersectEdges`, the end points `ends`) can have produced the log entry `e`:
* by value — the entry is the event's triple as handed over; in an `IntersectEdges` event with a callback installed only `Split` does that (a `new` record);
* through `SetZ` — only in an `IntersectEdges` event with a callback: the entry is `setZ` of the event's triple, with the callback's `k`-th call. -/
def EmitFrom (zc : ZCfg) (X : Bool) (ends : ZEnds) (pt : PtZ) (e : ZEmit) : Prop :=
  (e.src = .given ∧ e.ptz = pt ∧ (X = true → zc.cb.isSome = true → e.kind = .new)) ∨
  (X = true ∧ ∃ F k subj, zc.cb = some F ∧ e.src = .setz k ∧ e.ptz = setZ (some (F k)) subj ends.e1bot ends.e1top ends.e2bot ends.e2top pt zc.defaultZ)

def LogFromZ (log0 : List ZEmit) (zc : ZCfg) (X : Bool) (ends : ZEnds) (pt : PtZ) (z : ZOut) : Prop :=
  ∀ e ∈ z.log, e ∈ log0 ∨ EmitFrom zc X ends pt e

/-- the entry a stamp makes, for any kind when it went through `SetZ` or the event is not an `IntersectEdges` with callback -/
theorem emitFrom_stamp (zc : ZCfg) (X : Bool) (ends ends' : ZEnds) (how : Option Bool) (pt : PtZ) (z : ZOut) (e : ZEmit)
    (g : how.isSome = true → X = true ∧ ends' = ends)
    (hs : e.src = (stamp zc ends' how pt z).src) (hq : e.ptz = (stamp zc ends' how pt z).q ∨ ((stamp zc ends' how pt z).src = .given ∧ e.ptz = pt))
    (hk : how.isSome = X ∨ e.kind = .new) : EmitFrom zc X ends pt e := by
  rcases stamp_spec zc ends' how pt z with ⟨h1, h2, _, _, h5⟩ | ⟨F, subj, hF, hh, h1, h2, _⟩
  · left
    refine ⟨hs.trans h1, ?_, ?_⟩
    · rcases hq with hq | hq
      · rw [hq, h2]
      · exact hq.2
    · intro hX hcb
      rcases hk with hk | hk
      · rcases h5 with h5 | h5
        · rw [h5, hX] at hk; cases hk
        · rw [h5] at hcb; cases hcb
      · exact hk
  · right
    have := g (by rw [hh]; rfl)
    refine ⟨this.1, F, z.ncb, subj, hF, hs.trans h1, ?_⟩
    rw [← this.2, ← h2]
    rcases hq with hq | hq
    · exact hq
    · rw [h1] at hq; cases hq.1

/-- the same with an arbitrary description `Old` of the entries that were there before -/
def LogFromG (Old : ZEmit → Prop) (zc : ZCfg) (X : Bool) (ends : ZEnds) (pt : PtZ) (z : ZOut) : Prop :=
  ∀ e ∈ z.log, Old e ∨ EmitFrom zc X ends pt e

theorem logFromG_prim (Old : ZEmit → Prop) (zc : ZCfg) (X S : Bool) (ends : ZEnds) (pt : PtZ) : PrimRel zc X S ends pt (fun z _ => LogFromG Old zc X ends pt z) := by
  refine prim_unary zc X S ends pt (LogFromG Old zc X ends pt) ?_ ?_ ?_ ?_
  · intro ends' how z g _ h e he
    simp only [newRecZ, List.mem_cons] at he
    rcases he with rfl | he
    · right; exact emitFrom_stamp zc X ends ends' how pt z _ g rfl (Or.inl rfl) (Or.inr rfl)
    · exact h e he
  · intro ends' id f how z g1 g2 h e he
    have g : how.isSome = true → X = true ∧ ends' = ends := fun hh => ⟨by rw [← g1]; exact hh, g2 hh⟩
    obtain ⟨_, _, hc⟩ := addOutPtZ_cases zc ends' id f how pt z
    have key : ∀ e0, (addOutPtZ zc ends' id f how pt z).log = e0 :: z.log → e0.src = (stamp zc ends' how pt z).src →
        (e0.ptz = (stamp zc ends' how pt z).q ∨ ((stamp zc ends' how pt z).src = .given ∧ e0.ptz = pt)) → Old e ∨ EmitFrom zc X ends pt e := by
      intro e0 hl hs hq
      rw [hl] at he
      rcases List.mem_cons.mp he with rfl | he
      · right; exact emitFrom_stamp zc X ends ends' how pt z _ g hs hq (Or.inl g1)
      · exact h e he
    cases hc with
    | lost hr hl => exact key _ hl rfl (Or.inl rfl)
    | dup hr hl hs =>
      refine key _ hl rfl ?_
      right
      refine ⟨?_, rfl⟩
      cases hsrc : (stamp zc ends' how pt z).src with
      | given => rfl
      | setz k => rw [hsrc] at hs; cases hs
    | over r p hgr he' hxy hr hl hs => exact key _ hl rfl (Or.inl rfl)
    | added r pts' hgr hr hp hm hl => exact key _ hl rfl (Or.inl rfl)
  · intro id f z h e he
    rw [(finishZ_triples id f z).2.1] at he; exact h e he
  · intro A B f z h e he
    rw [(joinPathsZ_triples A B f z).2.1] at he; exact h e he

theorem logFromZ_prim (log0 : List ZEmit) (zc : ZCfg) (X S : Bool) (ends : ZEnds) (pt : PtZ) : PrimRel zc X S ends pt (fun z _ => LogFromZ log0 zc X ends pt z) :=
  logFromG_prim (fun e => e ∈ log0) zc X S ends pt

/-- a primitive-closed relation may be replaced by an equivalent one -/
theorem primRel_congr {zc : ZCfg} {X S : Bool} {ends : ZEnds} {pt : PtZ} {R R' : ZOut → Out → Prop} (hi : ∀ z o, R z o ↔ R' z o) (hp : PrimRel zc X S ends pt R) :
    PrimRel zc X S ends pt R' :=
  ⟨fun e h z o g g' r => (hi _ _).mp (hp.newRec e h z o g g' ((hi _ _).mpr r)),
   fun e id f h z o g g' r => (hi _ _).mp (hp.addOutPt e id f h z o g g' ((hi _ _).mpr r)),
   fun id f z o r => (hi _ _).mp (hp.handOver id f z o ((hi _ _).mpr r)),
   fun id f z o r => (hi _ _).mp (hp.finish id f z o ((hi _ _).mpr r)),
   fun A B f z o r => (hi _ _).mp (hp.joinPaths A B f z o ((hi _ _).mpr r)),
   fun k i1 f1 i2 f2 z o r => (hi _ _).mp (hp.logSeg k i1 f1 i2 f2 z o ((hi _ _).mpr r))⟩

/-! ## sweeps without joins: no edge is ever joined, so `Split` never runs -/

/-- no edge of the AEL carries a `join_with` flag -/
def Unj (l : List SEdge) : Prop := ∀ x ∈ l, x.join = .none

theorem unj_take (l : List SEdge) (n : Nat) (h : Unj l) : Unj (l.take n) := fun x hx => h x (List.mem_of_mem_take hx)
theorem unj_drop (l : List SEdge) (n : Nat) (h : Unj l) : Unj (l.drop n) := fun x hx => h x (List.mem_of_mem_drop hx)
theorem unj_append (a b : List SEdge) (ha : Unj a) (hb : Unj b) : Unj (a ++ b) := by
  intro x hx; rcases List.mem_append.mp hx with h | h
  · exact ha x h
  · exact hb x h
theorem unj_cons (a : SEdge) (l : List SEdge) (ha : a.join = .none) (hl : Unj l) : Unj (a :: l) := by
  intro x hx; rcases List.mem_cons.mp hx with h | h
  · rw [h]; exact ha
  · exact hl x h
theorem unj_map (g : SEdge → SEdge) (hg : ∀ x, (g x).join = x.join) (l : List SEdge) (h : Unj l) : Unj (l.map g) := by
  intro x hx
  obtain ⟨y, hy, rfl⟩ := List.mem_map.mp hx
  rw [hg]; exact h y hy

theorem unj_split3 (l : List SEdge) (i : Nat) (a b : SEdge) (rest : List SEdge) (hd : l.drop i = a :: b :: rest) (h : Unj l) :
    Unj (l.take i) ∧ a.join = .none ∧ b.join = .none ∧ Unj rest := by
  have h2 := unj_drop l i h
  rw [hd] at h2
  exact ⟨unj_take l i h, h2 a (by simp), h2 b (by simp), fun x hx => h2 x (by simp [hx])⟩

theorem addLocalMaxFn_join (ra rb : Rec) (g : SEdge → SEdge) (h : addLocalMaxFn ra rb = .ok g) : ∀ x, (g x).join = x.join := by
  unfold addLocalMaxFn at h
  split at h
  · cases h
  · split at h
    · cases h; intro x; rfl
    · split at h
      · cases h; intro x; exact (shapePres_relabel _ _ _ x).2.1
      · cases h; intro x; exact (shapePres_relabel _ _ _ x).2.1

theorem unj_addLocalMin (i : Nat) (isNew : Bool) (s : SState) (h : Unj s.ael) : Unj (addLocalMin i isNew s).ael := by
  unfold addLocalMin
  cases hd : s.ael.drop i with
  | nil => exact h
  | cons a t =>
    cases t with
    | nil => exact h
    | cons b rest =>
      obtain ⟨h1, h2, h3, h4⟩ := unj_split3 s.ael i a b rest hd h
      exact unj_append _ _ h1 (unj_cons _ _ h2 (unj_cons _ _ h3 h4))

theorem splitAt_unj (i : Nat) (s s1 : SState) (h : Unj s.ael) (hs : splitAt i s = .ok s1) : s1 = s := by
  unfold splitAt at hs
  cases hx : s.ael[i]? with
  | none => simp [hx] at hs
  | some x =>
    have := h x (List.mem_of_getElem? hx)
    simp only [hx, this, if_true] at hs
    cases hs; rfl

theorem unj_intersectCore (cfg : Cfg) (pre : List SEdge) (a b : SEdge) (rest : List SEdge) (n : Nat) (s' : SState)
    (h1 : Unj pre) (h2 : a.join = .none) (h3 : b.join = .none) (h4 : Unj rest) (hs : intersectCore cfg pre a b rest n = .ok s') : Unj s'.ael := by
  unfold intersectCore at hs
  simp only at hs
  split at hs
  · cases hs; exact unj_append _ _ h1 (unj_cons _ _ h3 (unj_cons _ _ h2 h4))
  · cases hs; exact unj_append _ _ h1 (unj_cons _ _ h3 (unj_cons _ _ h2 h4))
  · cases hs; exact unj_append _ _ h1 (unj_cons _ _ h3 (unj_cons _ _ h2 h4))
  · split at hs
    · split at hs
      · next g hg =>
        cases hs
        have hj := addLocalMaxFn_join _ _ g hg
        exact unj_append _ _ (unj_map g hj _ h1) (unj_cons _ _ h3 (unj_cons _ _ h2 (unj_map g hj _ h4)))
      · cases hs
    · cases hs
  · split at hs
    · split at hs
      · next g hg =>
        cases hs
        have hj := addLocalMaxFn_join _ _ g hg
        exact unj_append _ _ (unj_map g hj _ h1) (unj_cons _ _ h3 (unj_cons _ _ h2 (unj_map g hj _ h4)))
      · cases hs
    · cases hs

/-- every event of the side model except `join` keeps the AEL free of joined edges -/
theorem unj_stepS (cfg : Cfg) (s s' : SState) (op : SOp) (hop : ∀ i, op ≠ .join i) (h : Unj s.ael) (hs : stepS cfg s op = .ok s') : Unj s'.ael := by
  cases op with
  | join i => exact absurd rfl (hop i)
  | split i =>
    simp only [stepS, splitS] at hs
    cases hx : s.ael[i]? with
    | none => simp [hx] at hs
    | some x =>
      have := h x (List.mem_of_getElem? hx)
      simp [hx, this] at hs
  | base b =>
    cases b with
    | insertPair pos pt isOpen dx =>
      simp only [stepS, insertPairS] at hs
      split at hs
      · cases hs
        have hb : Unj (s.ael.take pos ++ ⟨{ (newLeft cfg (erase (s.ael.take pos)) pt isOpen dx).1 with hot := (newLeft cfg (erase (s.ael.take pos)) pt isOpen dx).2 }, .none, none⟩ ::
            ⟨{ pt := pt, isOpen := isOpen, dx := -dx, wc := (newLeft cfg (erase (s.ael.take pos)) pt isOpen dx).1.wc, wc2 := (newLeft cfg (erase (s.ael.take pos)) pt isOpen dx).1.wc2,
               hot := (newLeft cfg (erase (s.ael.take pos)) pt isOpen dx).2 }, .none, none⟩ :: s.ael.drop pos) :=
          unj_append _ _ (unj_take _ _ h) (unj_cons _ _ rfl (unj_cons _ _ rfl (unj_drop _ _ h)))
        split
        · exact unj_addLocalMin _ _ _ hb
        · exact hb
      · cases hs
    | insertOne pos pt dx =>
      simp only [stepS, insertOneS] at hs
      split at hs
      · cases hs; exact unj_append _ _ (unj_take _ _ h) (unj_cons _ _ rfl (unj_drop _ _ h))
      · cases hs
    | intersect i =>
      simp only [stepS, intersectS] at hs
      cases hd : s.ael.drop i with
      | nil => simp [hd] at hs
      | cons a0 t =>
        cases t with
        | nil => simp [hd] at hs
        | cons b0 rest0 =>
          simp only [hd] at hs
          split at hs
          · -- open branch
            have key : ∀ s1, ((if (a0.e.isOpen && b0.e.isOpen) = true then (Except.ok s : Except Err SState)
                else if a0.e.isOpen = true then splitAt (i + 1) s else splitAt i s) = .ok s1) → s1 = s := by
              intro s1 h1
              split at h1
              · cases h1; rfl
              · split at h1
                · exact splitAt_unj _ _ _ h h1
                · exact splitAt_unj _ _ _ h h1
            cases hq : (if (a0.e.isOpen && b0.e.isOpen) = true then (Except.ok s : Except Err SState)
                else if a0.e.isOpen = true then splitAt (i + 1) s else splitAt i s) with
            | error e => rw [hq] at hs; cases hs
            | ok s1 =>
              have := key s1 hq
              subst this
              rw [hq] at hs
              simp only [bind, Except.bind, hd] at hs
              cases hs
              obtain ⟨h1, h2, h3, h4⟩ := unj_split3 s1.ael i a0 b0 rest0 hd h
              exact unj_append _ _ h1 (unj_cons _ _ h3 (unj_cons _ _ h2 h4))
          · cases hq1 : splitAt i s with
            | error e => rw [hq1] at hs; cases hs
            | ok s1 =>
              have e1 := splitAt_unj _ _ _ h hq1
              subst e1
              rw [hq1] at hs
              simp only [bind, Except.bind] at hs
              cases hq2 : splitAt (i + 1) s1 with
              | error e => rw [hq2] at hs; cases hs
              | ok s2 =>
                have e2 := splitAt_unj _ _ _ h hq2
                subst e2
                rw [hq2] at hs
                simp only [hd] at hs
                obtain ⟨h1, h2, h3, h4⟩ := unj_split3 s2.ael i a0 b0 rest0 hd h
                exact unj_intersectCore cfg _ _ _ _ _ s' h1 h2 h3 h4 hs
    | removePair i =>
      simp only [stepS, removePairS] at hs
      cases hd : s.ael.drop i with
      | nil => simp [hd] at hs
      | cons a0 t =>
        cases t with
        | nil => simp [hd] at hs
        | cons b0 rest0 =>
          simp only [hd] at hs
          obtain ⟨h1, h2, h3, h4⟩ := unj_split3 s.ael i a0 b0 rest0 hd h
          split at hs
          · split at hs
            · cases hs; exact unj_append _ _ h1 h4
            · cases hq1 : splitAt i s with
              | error e => rw [hq1] at hs; cases hs
              | ok s1 =>
                have e1 := splitAt_unj _ _ _ h hq1
                subst e1
                rw [hq1] at hs
                simp only [bind, Except.bind] at hs
                cases hq2 : splitAt (i + 1) s1 with
                | error e => rw [hq2] at hs; cases hs
                | ok s2 =>
                  have e2 := splitAt_unj _ _ _ h hq2
                  subst e2
                  rw [hq2] at hs
                  simp only [hd] at hs
                  split at hs
                  · cases hs; exact unj_append _ _ h1 h4
                  · split at hs
                    · next g hg =>
                      cases hs
                      have hj := addLocalMaxFn_join _ _ g hg
                      exact unj_append _ _ (unj_map g hj _ h1) (unj_map g hj _ h4)
                    · cases hs
                  · cases hs
          · cases hs
    | removeOne i =>
      simp only [stepS, removeOneS] at hs
      cases hd : s.ael.drop i with
      | nil => simp [hd] at hs
      | cons x rest =>
        simp only [hd] at hs
        split at hs
        · cases hs
          have h2 := unj_drop s.ael i h
          rw [hd] at h2
          exact unj_append _ _ (unj_take _ _ h) (fun y hy => h2 y (by simp [hy]))
        · cases hs

/-- with no joined edge, `Split` emits nothing -/
theorem splitOutZ_unj (zc : ZCfg) (i : Nat) (pt : PtZ) (s : SState) (z : ZOut) (h : Unj s.ael) : splitOutZ zc i pt s z = z := by
  unfold splitOutZ
  cases hx : s.ael[i]? with
  | none => rfl
  | some x => simp [h x (List.mem_of_getElem? hx)]

theorem twoSplitsOutZ_unj (zc : ZCfg) (i : Nat) (pt : PtZ) (s : SState) (z : ZOut) (h : Unj s.ael) : (twoSplitsOutZ zc i pt s z).1 = z := by
  unfold twoSplitsOutZ
  simp only [splitOutZ_unj zc i pt s z h]
  cases hq : splitAt i s with
  | error e => rfl
  | ok s1 =>
    have e1 := splitAt_unj _ _ _ h hq
    subst e1
    simp only [splitOutZ_unj zc (i + 1) pt s1 z h]
    cases splitAt (i + 1) s1 with
    | error e => rfl
    | ok s2 =>
      simp only
      cases s2.ael.drop i with
      | nil => rfl
      | cons a t => cases t <;> rfl

/-- the effect of an `IntersectEdges` event when no edge is joined: the `Split`s do nothing, so every emission is followed by `SetZ` -/
theorem pres_intersectOutZ_unj {zc : ZCfg} {ends : ZEnds} {pt : PtZ} {P : ZOut → Prop} (hp : PrimRel zc true false ends pt (fun z _ => P z))
    (cfg : Cfg) (i : Nat) (s : SState) (z : ZOut) (hu : Unj s.ael) (h : P z) : P (intersectOutZ cfg zc i pt ends s z) := by
  unfold intersectOutZ
  cases s.ael.drop i with
  | nil => exact h
  | cons a0 t =>
    cases t with
    | nil => exact h
    | cons b0 t' =>
      simp only [splitOutZ_unj zc _ pt s z hu]
      split
      · split
        · exact h
        · split <;> exact h
      · have e := twoSplitsOutZ_unj zc i pt s z hu
        generalize twoSplitsOutZ zc i pt s z = tz at e ⊢
        obtain ⟨z2, m⟩ := tz
        simp only at e
        subst e
        cases m with
        | none => exact h
        | some ab => obtain ⟨a, b⟩ := ab; exact rel_coreOut hp cfg rfl a b _ Out.empty h

/-- lifting a unary invariant through an event from a state without joined edges, with primitives that never start a record by value in an `IntersectEdges` event -/
theorem pres_outStepZ_unj (cfg : Cfg) (zc : ZCfg) (s : SState) (z : ZOut) (op : ZOp) (P : ZOut → Prop)
    (hp : PrimRel zc op.isX false op.ends op.ptz (fun z _ => P z)) (hu : Unj s.ael) (h : P z) : P (outStepZ cfg zc s z op) := by
  cases op with
  | insertPair pos t isOpen dx p => exact rel_insertPairOut hp cfg rfl _ _ _ _ _ _ Out.empty h
  | insertOne _ _ _ => exact h
  | intersect i p e => exact pres_intersectOutZ_unj hp cfg _ _ _ hu h
  | removePair i p => exact rel_removePairOut hp rfl _ _ _ Out.empty h
  | removeOne _ => exact h
  | join i p => exact rel_joinOut hp rfl _ _ _ Out.empty h
  | split i p => exact rel_splitOut hp (by intro hh; cases hh) _ _ _ Out.empty h
  | update i p => exact rel_updateOut hp rfl _ _ _ Out.empty h

/-- `EmitFrom` for sweeps without joins: in an `IntersectEdges` event a by-value entry exists only when no callback is installed -/
def EmitFromU (zc : ZCfg) (X : Bool) (ends : ZEnds) (pt : PtZ) (e : ZEmit) : Prop :=
  (e.src = .given ∧ e.ptz = pt ∧ (X = true → zc.cb = none)) ∨
  (X = true ∧ ∃ F k subj, zc.cb = some F ∧ e.src = .setz k ∧ e.ptz = setZ (some (F k)) subj ends.e1bot ends.e1top ends.e2bot ends.e2top pt zc.defaultZ)

def LogFromU (log0 : List ZEmit) (zc : ZCfg) (X : Bool) (ends : ZEnds) (pt : PtZ) (z : ZOut) : Prop :=
  ∀ e ∈ z.log, e ∈ log0 ∨ EmitFromU zc X ends pt e

theorem emitFromU_stamp (zc : ZCfg) (X : Bool) (ends ends' : ZEnds) (how : Option Bool) (pt : PtZ) (z : ZOut) (e : ZEmit)
    (g : how.isSome = true → X = true ∧ ends' = ends) (g' : how = none → X = false)
    (hs : e.src = (stamp zc ends' how pt z).src) (hq : e.ptz = (stamp zc ends' how pt z).q ∨ ((stamp zc ends' how pt z).src = .given ∧ e.ptz = pt)) :
    EmitFromU zc X ends pt e := by
  rcases stamp_spec zc ends' how pt z with ⟨h1, h2, _, _, h5⟩ | ⟨F, subj, hF, hh, h1, h2, _⟩
  · left
    refine ⟨hs.trans h1, ?_, ?_⟩
    · rcases hq with hq | hq
      · rw [hq, h2]
      · exact hq.2
    · intro hX
      rcases h5 with h5 | h5
      · rw [g' h5] at hX; cases hX
      · exact h5
  · right
    have := g (by rw [hh]; rfl)
    refine ⟨this.1, F, z.ncb, subj, hF, hs.trans h1, ?_⟩
    rw [← this.2, ← h2]
    rcases hq with hq | hq
    · exact hq
    · rw [h1] at hq; cases hq.1

def LogFromUG (Old : ZEmit → Prop) (zc : ZCfg) (X : Bool) (ends : ZEnds) (pt : PtZ) (z : ZOut) : Prop :=
  ∀ e ∈ z.log, Old e ∨ EmitFromU zc X ends pt e

theorem logFromUG_prim (Old : ZEmit → Prop) (zc : ZCfg) (X : Bool) (ends : ZEnds) (pt : PtZ) : PrimRel zc X false ends pt (fun z _ => LogFromUG Old zc X ends pt z) := by
  refine prim_unary zc X false ends pt (LogFromUG Old zc X ends pt) ?_ ?_ ?_ ?_
  · intro ends' how z g g' h e he
    have g'' : how = none → X = false := by
      intro hn; cases hX : X with
      | false => rfl
      | true => exact absurd (g' hn hX) (by simp)
    simp only [newRecZ, List.mem_cons] at he
    rcases he with rfl | he
    · right; exact emitFromU_stamp zc X ends ends' how pt z _ g g'' rfl (Or.inl rfl)
    · exact h e he
  · intro ends' id f how z g1 g2 h e he
    have g : how.isSome = true → X = true ∧ ends' = ends := fun hh => ⟨by rw [← g1]; exact hh, g2 hh⟩
    have g'' : how = none → X = false := by intro hn; rw [← g1, hn]; rfl
    obtain ⟨_, _, hc⟩ := addOutPtZ_cases zc ends' id f how pt z
    have key : ∀ e0, (addOutPtZ zc ends' id f how pt z).log = e0 :: z.log → e0.src = (stamp zc ends' how pt z).src →
        (e0.ptz = (stamp zc ends' how pt z).q ∨ ((stamp zc ends' how pt z).src = .given ∧ e0.ptz = pt)) → Old e ∨ EmitFromU zc X ends pt e := by
      intro e0 hl hs hq
      rw [hl] at he
      rcases List.mem_cons.mp he with rfl | he
      · right; exact emitFromU_stamp zc X ends ends' how pt z _ g g'' hs hq
      · exact h e he
    cases hc with
    | lost hr hl => exact key _ hl rfl (Or.inl rfl)
    | dup hr hl hs =>
      refine key _ hl rfl ?_
      right
      refine ⟨?_, rfl⟩
      cases hsrc : (stamp zc ends' how pt z).src with
      | given => rfl
      | setz k => rw [hsrc] at hs; cases hs
    | over r p hgr he' hxy hr hl hs => exact key _ hl rfl (Or.inl rfl)
    | added r pts' hgr hr hp hm hl => exact key _ hl rfl (Or.inl rfl)
  · intro id f z h e he
    rw [(finishZ_triples id f z).2.1] at he; exact h e he
  · intro A B f z h e he
    rw [(joinPathsZ_triples A B f z).2.1] at he; exact h e he

theorem logFromU_prim (log0 : List ZEmit) (zc : ZCfg) (X : Bool) (ends : ZEnds) (pt : PtZ) : PrimRel zc X false ends pt (fun z _ => LogFromU log0 zc X ends pt z) :=
  logFromUG_prim (fun e => e ∈ log0) zc X ends pt

end Clipper.Model
