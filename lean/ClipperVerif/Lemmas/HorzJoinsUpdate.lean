/-
`UpdateHorzSegment` on a heap of rings: what its two `while` walks return (`runEnds`), for both branches
(`outrec->front_edge` set or not), including rings that lie entirely on the horizontal line.
Helper file of `Props/C02Horz.lean`.  Core Lean only.
-/
import ClipperVerif.Lemmas.HorzJoins
namespace Clipper.Model.HorzJoins
open Clipper

/-- `v->pt.y == y` -/
def onLine (H : Heap) (y : Int) (v : Nat) : Bool :=
  match H.ops[v]? with
  | some n => n.pt.y == y
  | none => false

theorem onLine_of_node {H : Heap} {y : Int} {v : Nat} {n : Node} (h : H.ops[v]? = some n) : onLine H y v = (n.pt.y == y) := by
  unfold onLine; rw [h]

theorem getLastD_mem (T : List Nat) (a : Nat) : T.getLastD a = a ∨ T.getLastD a ∈ T := by
  cases T with
  | nil => left; rfl
  | cons t r =>
    right
    rw [List.getLastD_eq_getLast?, List.getLast?_eq_some_getLast (by simp)]
    exact List.getLast_mem _

/-- **the walks of `UpdateHorzSegment` when the record has no edges** (the ring is closed): on the ring `op :: rest`
* `opP` is reached by going back over `rest` from its end while the nodes are on the line and `op` has not come round again;
* `opN` is reached by going forward over `rest` while the nodes are on the line and `opP` has not been reached.
Both walks terminate on every ring — also on a ring that lies entirely on the line, where `opP = op->next` and `opN = op`. -/
theorem runEnds_none_spec {H : Heap} {op : Nat} {rest : List Nat} (y : Int)
    (hring : IsRingF (nextOf H) (prevOf H) (op :: rest)) (hlt : ∀ v ∈ op :: rest, v < H.ops.size) :
    runEnds H op y none =
      .ok (((rest.reverse ++ [op]).takeWhile (fun v => v != op && onLine H y v)).getLastD op,
           ((rest ++ [op]).takeWhile
              (fun v => v != ((rest.reverse ++ [op]).takeWhile (fun v => v != op && onLine H y v)).getLastD op && onLine H y v)).getLastD op) := by
  have hch : ChainF (nextOf H) (prevOf H) (op :: rest ++ [op]) := hring.2
  have hlen : rest.length + 1 ≤ H.ops.size := by
    have := nodup_length_le _ _ hring.nodup hlt
    simpa using this
  -- backward
  have hb : Steps H false (op :: (rest.reverse ++ [op])) := by
    have := steps_of_chain_bwd _ hch
    simpa using this
  have hvalid : ∀ (z : Nat), ∀ v ∈ rest ++ [op], ∃ nv, H.ops[v]? = some nv ∧
      (fun nx (nn : Node) => nx != z && nn.pt.y == y) v nv = (fun v => v != z && onLine H y v) v := by
    intro z v hv
    have hv' : v ∈ op :: rest := by
      rcases List.mem_append.1 hv with h | h
      · exact List.mem_cons_of_mem _ h
      · simp at h; subst h; simp
    obtain ⟨nv, hnv⟩ := node_of_lt (hlt v hv')
    exact ⟨nv, hnv, by simp [onLine_of_node hnv]⟩
  have w1 := walk_takeWhile (H := H) (fwd := false) (cond := fun nx nn => nx != op && nn.pt.y == y)
    (fun v => v != op && onLine H y v) (rest.reverse ++ [op]) op H.fuel hb
    (by intro v hv; exact hvalid op v (by simpa using hv))
    ⟨op, by simp, by simp⟩ (by simp [Heap.fuel]; omega)
  generalize hP : ((rest.reverse ++ [op]).takeWhile (fun v => v != op && onLine H y v)).getLastD op = opP at w1 ⊢
  -- forward
  have hf : Steps H true (op :: (rest ++ [op])) := steps_of_chain_fwd _ hch
  have hPm : opP ∈ rest ++ [op] := by
    rcases getLastD_mem ((rest.reverse ++ [op]).takeWhile (fun v => v != op && onLine H y v)) op with h | h
    · rw [hP] at h; rw [h]; simp
    · rw [hP] at h
      have := (takeWhile_all _ _ _ h).2
      simpa using this
  have w2 := walk_takeWhile (H := H) (fwd := true) (cond := fun nx nn => nx != opP && nn.pt.y == y)
    (fun v => v != opP && onLine H y v) (rest ++ [op]) op H.fuel hf
    (by intro v hv; exact hvalid opP v hv)
    ⟨opP, hPm, by simp⟩ (by simp [Heap.fuel]; omega)
  unfold runEnds
  simp only [w1, w2]

/-- **the walks of `UpdateHorzSegment` when the record still has edges**: `opA = outrec->pts` is the front end of the ring
under construction and `opZ = opA->next` its back end; read from `opZ` the ring is `X ++ op :: Y` (ending in `opA`).
`opP` is reached by going back over `X` while on the line, `opN` by going forward over `Y` while on the line: the run never
extends across the gap between `opA` and `opZ`. -/
theorem runEnds_some_spec {H : Heap} {op opA opZ : Nat} {X Y : List Nat} (y : Int)
    (hring : IsRingF (nextOf H) (prevOf H) (X ++ op :: Y)) (hlt : ∀ v ∈ X ++ op :: Y, v < H.ops.size)
    (hZ : (X ++ [op]).head? = some opZ) (hA : (op :: Y).getLast? = some opA) :
    runEnds H op y (some (opA, opZ)) =
      .ok ((X.reverse.takeWhile (onLine H y)).getLastD op, (Y.takeWhile (onLine H y)).getLastD op) := by
  have hrot : IsRingF (nextOf H) (prevOf H) (op :: (Y ++ X)) := by
    have := isRingF_rot X (op :: Y) hring; simpa using this
  have hch : ChainF (nextOf H) (prevOf H) (op :: (Y ++ X) ++ [op]) := hrot.2
  have hnd : (X ++ op :: Y).Nodup := hring.nodup
  have hlen : (X ++ op :: Y).length ≤ H.ops.size := nodup_length_le _ _ hnd hlt
  have hvalid : ∀ v ∈ X ++ op :: Y, ∃ nv, H.ops[v]? = some nv ∧
      (fun (_ : Nat) (nn : Node) => nn.pt.y == y) v nv = onLine H y v := by
    intro v hv
    obtain ⟨nv, hnv⟩ := node_of_lt (hlt v hv)
    exact ⟨nv, hnv, by simp [onLine_of_node hnv]⟩
  -- backward: op :: X.reverse ++ [w], w = head (Y.reverse ++ [op])
  obtain ⟨w, hw⟩ : ∃ w, (Y.reverse ++ [op]).head? = some w := by
    cases h : Y.reverse ++ [op] with
    | nil => simp at h
    | cons a t => exact ⟨a, rfl⟩
  have hwm : w ∈ X ++ op :: Y := by
    have := mem_of_head? hw
    have : w ∈ Y ∨ w = op := by simpa using this
    grind
  have hb : Steps H false (op :: X.reverse ++ [w]) := by
    have h1 := steps_of_chain_bwd _ hch
    have e : (op :: (Y ++ X) ++ [op]).reverse = (op :: X.reverse ++ [w]) ++ (Y.reverse ++ [op]).tail := by
      have : Y.reverse ++ [op] = w :: (Y.reverse ++ [op]).tail := by
        cases h : Y.reverse ++ [op] with
        | nil => simp at h
        | cons a t => rw [h] at hw; simp at hw; subst hw; rfl
      calc (op :: (Y ++ X) ++ [op]).reverse = (op :: X.reverse) ++ (Y.reverse ++ [op]) := by simp
        _ = (op :: X.reverse) ++ (w :: (Y.reverse ++ [op]).tail) := by rw [← this]
        _ = _ := by simp
    rw [e] at h1; exact steps_prefix _ _ h1
  have hzb : (op :: X.reverse).getLast? = some opZ := by
    have : op :: X.reverse = (X ++ [op]).reverse := by simp
    rw [this, List.getLast?_reverse]; exact hZ
  have w1 := walk_takeWhile_pre (H := H) (fwd := false) (cond := fun _ nn => nn.pt.y == y) (onLine H y) X.reverse op opZ w H.fuel hb hzb
    (by
      have : (op :: X.reverse).Perm (X ++ [op]) := by
        have : op :: X.reverse = (X ++ [op]).reverse := by simp
        rw [this]; exact List.reverse_perm _
      rw [this.nodup_iff]
      grind [List.nodup_append, List.nodup_cons])
    (by
      intro v hv
      apply hvalid
      rcases List.mem_append.1 hv with h | h
      · have : v ∈ X := by simpa using h
        exact List.mem_append_left _ this
      · simp at h; subst h; exact hwm)
    (by simp [Heap.fuel]; simp at hlen; omega)
  -- forward: op :: Y ++ [opZ]
  have hf : Steps H true (op :: Y ++ [opZ]) := by
    have h1 := steps_of_chain_fwd _ hch
    have e : op :: (Y ++ X) ++ [op] = (op :: Y ++ [opZ]) ++ (X ++ [op]).tail := by
      have : X ++ [op] = opZ :: (X ++ [op]).tail := by
        cases h : X ++ [op] with
        | nil => simp at h
        | cons a t => rw [h] at hZ; simp at hZ; subst hZ; rfl
      calc op :: (Y ++ X) ++ [op] = (op :: Y) ++ (X ++ [op]) := by simp
        _ = (op :: Y) ++ (opZ :: (X ++ [op]).tail) := by rw [← this]
        _ = _ := by simp
    rw [e] at h1; exact steps_prefix _ _ h1
  have hZm : opZ ∈ X ++ op :: Y := by
    have := mem_of_head? hZ
    have : opZ ∈ X ∨ opZ = op := by simpa using this
    grind
  have w2 := walk_takeWhile_pre (H := H) (fwd := true) (cond := fun _ nn => nn.pt.y == y) (onLine H y) Y op opA opZ H.fuel hf hA
    (by grind [List.nodup_append, List.nodup_cons])
    (by
      intro v hv
      apply hvalid
      rcases List.mem_append.1 hv with h | h
      · exact List.mem_append_right _ (List.mem_cons_of_mem _ h)
      · simp at h; subst h; exact hZm)
    (by simp [Heap.fuel]; simp at hlen; omega)
  unfold runEnds
  simp only [w1, w2]

end Clipper.Model.HorzJoins
