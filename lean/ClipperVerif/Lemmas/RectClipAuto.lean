/- Helper lemmas for the model of `RectClip64::ExecuteInternal` (Model/RectClipAuto.lean). Core Lean only. -/
import ClipperVerif.Model.RectClipAuto
import ClipperVerif.Lemmas.RectClip
namespace Clipper.Lemmas.RCA
open Clipper Clipper.Model.RC Clipper.Lemmas.RC

/-! ### corners -/

theorem cornerAt_mem {r : Rect} {l : Location} {p : Pt} (h : cornerAt r l = some p) : p ∈ r.asPath := by
  cases l <;> simp [cornerAt] at h <;> subst h <;> simp [Rect.asPath]

theorem cornerAt_isSome {r : Rect} {l : Location} (h : l ≠ .inside) : ∃ p, cornerAt r l = some p := by
  cases l <;> first | exact absurd rfl h | exact ⟨_, rfl⟩

theorem addCorner1_mem {r : Rect} {a b : Location} {p : Pt} (h : addCorner1 r a b = some p) : p ∈ r.asPath := by
  unfold addCorner1 at h
  split at h <;> exact cornerAt_mem h

theorem addCorner1_isSome (r : Rect) {a b : Location} (ha : a ≠ .inside) (hb : b ≠ .inside) :
    ∃ p, addCorner1 r a b = some p := by
  unfold addCorner1
  split
  · exact cornerAt_isSome ha
  · exact cornerAt_isSome hb

theorem adj_ne_inside (a : Location) (cw : Bool) : Gen.GetAdjacentLocation a cw ≠ .inside := by
  cases a <;> cases cw <;> decide

theorem addCorner2_mem {r : Rect} {a : Location} {cw : Bool} {p : Pt} (h : (addCorner2 r a cw).1 = some p) :
    p ∈ r.asPath := by
  unfold addCorner2 at h
  split at h <;> exact cornerAt_mem h

theorem addCorner2_isSome (r : Rect) {a : Location} (cw : Bool) (ha : a ≠ .inside) :
    ∃ p, (addCorner2 r a cw).1 = some p := by
  unfold addCorner2
  split
  · exact cornerAt_isSome ha
  · exact cornerAt_isSome (adj_ne_inside a false)

theorem cornerLoop_mem {r : Rect} {loc : Location} {cw : Bool} :
    ∀ (fuel : Nat) (prev : Location) (pts : List Pt), cornerLoop r loc cw fuel prev = some pts →
      ∀ p ∈ pts, p ∈ r.asPath := by
  intro fuel
  induction fuel with
  | zero => intro prev pts h; simp [cornerLoop] at h
  | succ fuel ih =>
    intro prev pts h
    unfold cornerLoop at h
    cases hc : addCorner2 r prev cw with
    | mk o prev' =>
      rw [hc] at h
      cases o with
      | none => simp at h
      | some q =>
        have hq : q ∈ r.asPath := addCorner2_mem (by rw [hc])
        simp only at h
        split at h
        · cases hr : cornerLoop r loc cw fuel prev' with
          | none => rw [hr] at h; simp at h
          | some rest =>
            rw [hr] at h
            simp only [Option.map_some, Option.some.injEq] at h
            subst h
            intro p hp
            rcases List.mem_cons.mp hp with rfl | hp
            · exact hq
            · exact ih prev' rest hr p hp
        · simp only [Option.some.injEq] at h
          subst h
          intro p hp
          simp only [List.mem_singleton] at hp
          subst hp; exact hq

/-- with a target different from `Inside` both corner loops end within the four iterations the model grants -/
theorem cornerLoop_isSome (r : Rect) (prev loc : Location) (cw : Bool) (hp : prev ≠ .inside) (hl : loc ≠ .inside) :
    ∃ pts, cornerLoop r loc cw 4 prev = some pts := by
  cases prev <;> cases loc <;> cases cw <;>
    first | exact absurd rfl hp | exact absurd rfl hl | exact ⟨_, rfl⟩

theorem startLocsLoop_isSome (prev loc : Location) (cw : Bool) (hl : loc ≠ .inside) :
    ∃ sl, startLocsLoop loc cw 4 prev = some sl ∧ (prev ≠ .inside → ∀ l ∈ sl, l ≠ .inside) := by
  cases prev <;> cases loc <;> cases cw <;>
    first | exact absurd rfl hl | exact ⟨_, rfl, by decide⟩

/-! ### `GetIntersection`: the reported location -/

theorem tryArms_loc {A : Arith} (p p2 : Pt) (l : List Arm) (hl : ∀ arm ∈ l, arm.loc ≠ .inside) (loc : Location) (ip : Pt) :
    ((tryArms A p p2 l loc ip).1 = true → (tryArms A p p2 l loc ip).2.1 ≠ .inside) ∧
    ((tryArms A p p2 l loc ip).1 = false → (tryArms A p p2 l loc ip).2.1 = loc) := by
  induction l generalizing ip with
  | nil => simp [tryArms]
  | cons arm rest ih =>
    have hrest : ∀ a ∈ rest, a.loc ≠ .inside := fun a ha => hl a (by simp [ha])
    unfold tryArms
    split
    · simp only
      split
      · exact ⟨fun _ => hl arm (by simp), fun h => by simp at h⟩
      · exact ih hrest _
    · exact ih hrest _

theorem arms_loc (r : Rect) (p : Pt) (loc : Location) : ∀ arm ∈ arms r p loc, arm.loc ≠ .inside := by
  cases loc <;> simp [arms]

/-- a successful `GetIntersection` reports one of the four sides; a failed one leaves `loc` alone -/
theorem getIntersection_loc (A : Arith) (r : Rect) (p p2 : Pt) (loc : Location) (ip : Pt) :
    ((getIntersection A r p p2 loc ip).1 = true → (getIntersection A r p p2 loc ip).2.1 ≠ .inside) ∧
    ((getIntersection A r p p2 loc ip).1 = false → (getIntersection A r p p2 loc ip).2.1 = loc) :=
  tryArms_loc p p2 _ (arms_loc r p loc) loc ip

theorem getIntersection_loc_ne (A : Arith) (r : Rect) (p p2 : Pt) (loc : Location) (ip : Pt) (h : loc ≠ .inside) :
    (getIntersection A r p p2 loc ip).2.1 ≠ .inside := by
  have := getIntersection_loc A r p p2 loc ip
  cases hx : (getIntersection A r p p2 loc ip).1
  · rw [this.2 hx]; exact h
  · exact this.1 hx

/-! ### provenance of the point a `GetIntersection` call leaves in `ip` -/

/-- whatever `GetSegmentIntersection` reports is one of its four arguments or the computed intersection -/
theorem segIntersection_sat {A : Arith} (Q : Pt → Prop) {p1 p2 p3 p4 ip : Pt} (h1 : Q p1) (h2 : Q p2) (h3 : Q p3)
    (h4 : Q p4) (hq : ∀ q, A.isect p1 p2 p3 p4 = some q → Q q)
    (h : (segIntersection A p1 p2 p3 p4 ip).1 = true) : Q (segIntersection A p1 p2 p3 p4 ip).2 := by
  unfold segIntersection at h ⊢
  simp only at h ⊢
  repeat' split
  all_goals first
    | assumption
    | (simp_all; done)
    | (rename_i q hq'; exact hq q hq')

theorem tryArms_sat {A : Arith} (Q : Pt → Prop) {p p2 : Pt} (hp : Q p) (hp2 : Q p2) (l : List Arm)
    (hl : ∀ arm ∈ l, Q arm.a ∧ Q arm.b ∧ ∀ q, A.isect p p2 arm.a arm.b = some q → Q q)
    (loc : Location) (ip : Pt) (h : (tryArms A p p2 l loc ip).1 = true) : Q (tryArms A p p2 l loc ip).2.2 := by
  induction l generalizing ip with
  | nil => simp [tryArms] at h
  | cons arm rest ih =>
    have he := hl arm (by simp)
    have hrest : ∀ a ∈ rest, Q a.a ∧ Q a.b ∧ ∀ q, A.isect p p2 a.a a.b = some q → Q q :=
      fun a ha => hl a (by simp [ha])
    unfold tryArms at h ⊢
    split
    · rename_i hg
      rw [if_pos hg] at h
      simp only at h ⊢
      split
      · rename_i hs
        exact segIntersection_sat Q hp hp2 he.1 he.2.1 he.2.2 hs
      · rename_i hs
        rw [if_neg hs] at h
        exact ih hrest _ h
    · rename_i hg
      rw [if_neg hg] at h
      exact ih hrest _ h

/-- `Q` holds for the rectangle corners and for every intersection point computed against a rectangle edge -/
def EdgeSat (A : Arith) (r : Rect) (Q : Pt → Prop) : Prop :=
  (∀ c ∈ r.asPath, Q c) ∧ ∀ a b c d q, IsEdge r c d → A.isect a b c d = some q → Q q

theorem isEdge_mem {r : Rect} {a b : Pt} (h : IsEdge r a b) : a ∈ r.asPath ∧ b ∈ r.asPath := by
  rcases h with ⟨rfl, rfl⟩ | ⟨rfl, rfl⟩ | ⟨rfl, rfl⟩ | ⟨rfl, rfl⟩ <;> simp [Rect.asPath]

theorem getIntersection_sat {A : Arith} {r : Rect} (Q : Pt → Prop) (hQ : EdgeSat A r Q) {p p2 : Pt} (hp : Q p)
    (hp2 : Q p2) (loc : Location) (ip : Pt) (h : (getIntersection A r p p2 loc ip).1 = true) :
    Q (getIntersection A r p p2 loc ip).2.2 := by
  apply tryArms_sat Q hp hp2 _ _ loc ip h
  intro arm ha
  have he := arms_edges r p loc arm ha
  exact ⟨hQ.1 _ (isEdge_mem he).1, hQ.1 _ (isEdge_mem he).2, fun q hq => hQ.2 _ _ _ _ _ he hq⟩

/-! ### `GetLocation` / `GetNextLocation` facts used by the automaton -/

theorem getLocation_ready (r : Rect) (p : Pt) (l0 : Location) : Ready r (getLocation r p l0).2 p := by
  unfold getLocation Gen.GetLocation
  simp only [Bool.and_eq_true, decide_eq_true_eq]
  repeat' split
  all_goals simp only [Ready]
  all_goals first | omega | (rw [outsideLoc_none_iff, inRect_iff]; omega)

theorem ready_ne_inside_of_outside {r : Rect} {l : Location} {q : Pt} (h : Ready r l q) (ho : outsideLoc r q ≠ none) :
    l ≠ .inside := by
  rintro rfl; exact ho h

/-- a vertex that `GetNextLocation` classifies as not `Inside` is not strictly inside: `GetLocation` does not say
`Inside` for it either -/
theorem getLocation_ne_inside_of_ready {r : Rect} {l : Location} {q : Pt} (h : Ready r l q) (hl : l ≠ .inside)
    (l0 : Location) : (getLocation r q l0).2 ≠ .inside := by
  intro hc
  have : r.left < q.x ∧ q.x < r.right ∧ r.top < q.y ∧ q.y < r.bottom := by
    revert hc
    unfold getLocation Gen.GetLocation
    simp only [Bool.and_eq_true, decide_eq_true_eq]
    repeat' split
    all_goals simp
    all_goals omega
  cases l <;> simp only [Ready] at h <;> first | omega | exact hl rfl

theorem gnl_idx_inside (r : Rect) (path : Path) (i : Nat) :
    (getNextLocation r path .inside i).2.1 =
      i + ((path.drop i).takeWhile (fun p => (outsideLoc r p).isNone)).length := by
  simp only [getNextLocation]; split <;> rfl

/-- from `Inside`, `GetNextLocation` either exhausts the path or stops at a vertex strictly outside: never `Inside` -/
theorem gnl_from_inside (r : Rect) (path : Path) (i : Nat) (q : Pt)
    (h : path[(getNextLocation r path .inside i).2.1]? = some q) :
    (getNextLocation r path .inside i).1 ≠ .inside ∧ outsideLoc r q = some (getNextLocation r path .inside i).1 := by
  rw [gnl_idx_inside] at h
  simp only [getNextLocation]
  have t4 := takeWhile_stop (fun p => (outsideLoc r p).isNone) (path.drop i)
  generalize (path.drop i).takeWhile (fun p => (outsideLoc r p).isNone) = run at *
  rw [h]
  simp only
  have hs := t4 q (by rw [List.getElem?_drop]; exact h)
  cases ho : outsideLoc r q with
  | none => simp [ho] at hs
  | some l =>
    refine ⟨?_, rfl⟩
    simp only [Option.getD_some]
    have := outsideLoc_ready r q l ho
    exact ready_ne_inside_of_outside this (by simp [ho])

/-- from an outside location `GetNextLocation` adds nothing -/
theorem gnl_adds_nil (r : Rect) (path : Path) (loc : Location) (i : Nat) (h : loc ≠ .inside) :
    (getNextLocation r path loc i).2.2 = [] := by
  cases loc <;> first | exact absurd rfl h | (simp only [getNextLocation]; split <;> rfl)

/-- from an outside location the new location always differs from the old one (when the path is not exhausted) -/
theorem gnl_loc_ne (r : Rect) (path : Path) (loc : Location) (i : Nat) (q : Pt) (h : loc ≠ .inside)
    (hq : path[(getNextLocation r path loc i).2.1]? = some q) : (getNextLocation r path loc i).1 ≠ loc := by
  cases loc
  case inside => exact absurd rfl h
  case left =>
    have hj : (getNextLocation r path .left i).2.1 = skipWhile (fun p => decide (p.x ≤ r.left)) path i := by
      simp only [getNextLocation]; split <;> rfl
    rw [hj] at hq
    simp only [getNextLocation]; rw [hq]; simp only
    repeat' split
    all_goals (intro hc; cases hc)
  case top =>
    have hj : (getNextLocation r path .top i).2.1 = skipWhile (fun p => decide (p.y ≤ r.top)) path i := by
      simp only [getNextLocation]; split <;> rfl
    rw [hj] at hq
    simp only [getNextLocation]; rw [hq]; simp only
    repeat' split
    all_goals (intro hc; cases hc)
  case right =>
    have hj : (getNextLocation r path .right i).2.1 = skipWhile (fun p => decide (p.x ≥ r.right)) path i := by
      simp only [getNextLocation]; split <;> rfl
    rw [hj] at hq
    simp only [getNextLocation]; rw [hq]; simp only
    repeat' split
    all_goals (intro hc; cases hc)
  case bottom =>
    have hj : (getNextLocation r path .bottom i).2.1 = skipWhile (fun p => decide (p.y ≥ r.bottom)) path i := by
      simp only [getNextLocation]; split <;> rfl
    rw [hj] at hq
    simp only [getNextLocation]; rw [hq]; simp only
    repeat' split
    all_goals (intro hc; cases hc)

theorem prevPt_isSome (path : Path) (i : Nat) (h : i < path.length) : ∃ q, prevPt path i = some q ∧ q ∈ path := by
  unfold prevPt
  split
  · have : path.length - 1 < path.length := by omega
    exact ⟨path[path.length - 1], List.getElem?_eq_getElem this, List.getElem_mem this⟩
  · have : i - 1 < path.length := by omega
    exact ⟨path[i - 1], List.getElem?_eq_getElem this, List.getElem_mem this⟩

theorem indexFrom_map_snd (i : Nat) (l : List Pt) : (indexFrom i l).map (·.2) = l := by
  induction l generalizing i with
  | nil => rfl
  | cons a l ih => simp [indexFrom, ih]

end Clipper.Lemmas.RCA

namespace Clipper.Lemmas.RCA
open Clipper Clipper.Model.RC Clipper.Lemmas.RC

/-! ### provenance of every `Add` call -/

/-- what every recorded `Add` call is -/
def AGood (A : Arith) (r : Rect) (path : Path) (e : AEmit) : Prop :=
  match e.kind with
  | .vertex => path[e.k]? = some e.pt ∧ inRect r e.pt = true
  | .corner => e.pt ∈ r.asPath
  | .cross => ∃ cur prv loc, path[e.k]? = some cur ∧ prevPt path e.k = some prv ∧
      (getIntersection A r cur prv loc ⟨0, 0⟩).1 = true ∧ (getIntersection A r cur prv loc ⟨0, 0⟩).2.2 = e.pt
  | .thru1 f => ∃ cur prv loc, path[e.k]? = some cur ∧ prevPt path e.k = some prv ∧
      (getIntersection A r prv cur loc ⟨0, 0⟩).1 = f ∧ (getIntersection A r prv cur loc ⟨0, 0⟩).2.2 = e.pt

def StepAll (P : AEmit → Prop) : AStep → Prop
  | .done es _ => ∀ e ∈ es, P e
  | .next es _ _ => ∀ e ∈ es, P e
  | .fault _ => True

theorem good_corners {A : Arith} {r : Rect} {path : Path} (k : Nat) {pts : List Pt} (h : ∀ p ∈ pts, p ∈ r.asPath) :
    ∀ e ∈ cornerEmits k pts, AGood A r path e := by
  intro e he
  simp only [cornerEmits, List.mem_map] at he
  obtain ⟨p, hp, rfl⟩ := he
  exact h p hp

theorem good_vtx {A : Arith} {r : Rect} {path : Path} {i j : Nat} {l : List (Nat × Pt)}
    (h : ∀ k q, (k, q) ∈ l → path[k]? = some q ∧ inRect r q = true ∧ i ≤ k ∧ k < j) :
    ∀ e ∈ vtxEmits l, AGood A r path e := by
  intro e he
  simp only [vtxEmits, List.mem_map] at he
  obtain ⟨⟨k, q⟩, hm, rfl⟩ := he
  exact ⟨(h k q hm).1, (h k q hm).2.1⟩

theorem all_append {P : AEmit → Prop} {a b : List AEmit} (ha : ∀ e ∈ a, P e) (hb : ∀ e ∈ b, P e) :
    ∀ e ∈ a ++ b, P e := by
  intro e he
  rcases List.mem_append.mp he with h | h
  · exact ha e h
  · exact hb e h

theorem all_single {P : AEmit → Prop} {a : AEmit} (ha : P a) : ∀ e ∈ [a], P e := by
  intro e he; simp only [List.mem_singleton] at he; subst he; exact ha

theorem all_pair {P : AEmit → Prop} {a b : AEmit} (ha : P a) (hb : P b) : ∀ e ∈ [a, b], P e := by
  intro e he
  simp only [List.mem_cons, List.not_mem_nil, or_false] at he
  rcases he with rfl | rfl
  · exact ha
  · exact hb

theorem stepOutside_good {A : Arith} {r : Rect} {path : Path} (c : Ctl) (loc : Location) (i : Nat)
    (adds : List AEmit) (cur prv : Pt) (ha : ∀ e ∈ adds, AGood A r path e) :
    StepAll (AGood A r path) (stepOutside A r c loc i adds cur prv) := by
  unfold stepOutside
  simp only
  split
  · split
    · trivial
    · exact ha
  · split
    · split
      · trivial
      · rename_i pts hpts
        exact all_append ha (good_corners i (cornerLoop_mem _ _ _ hpts))
    · exact ha

theorem stepEnter_good {A : Arith} {r : Rect} {path : Path} (c : Ctl) (i : Nat)
    (adds : List AEmit) (cur prv : Pt) (cl : Location) (ip : Pt) (ha : ∀ e ∈ adds, AGood A r path e)
    (hip : AGood A r path ⟨i, ip, .cross⟩) :
    StepAll (AGood A r path) (stepEnter A r c i adds cur prv cl ip) := by
  unfold stepEnter
  simp only
  split
  · exact all_append ha (all_single hip)
  · split
    · split
      · trivial
      · rename_i pts hpts
        exact all_append (all_append ha (good_corners i (cornerLoop_mem _ _ _ hpts))) (all_single hip)
    · exact all_append ha (all_single hip)

theorem stepThrough_good {A : Arith} {r : Rect} {path : Path} (c : Ctl) (i : Nat)
    (adds : List AEmit) (cur prv : Pt) (cl : Location) (ip : Pt) (ha : ∀ e ∈ adds, AGood A r path e)
    (hip : AGood A r path ⟨i, ip, .cross⟩) (hcur : path[i]? = some cur) (hprv : prevPt path i = some prv) :
    StepAll (AGood A r path) (stepThrough A r c i adds cur prv cl ip) := by
  unfold stepThrough
  simp only
  have h2 : AGood A r path ⟨i, (getIntersection A r prv cur c.loc ⟨0, 0⟩).2.2,
      .thru1 (getIntersection A r prv cur c.loc ⟨0, 0⟩).1⟩ := ⟨cur, prv, c.loc, hcur, hprv, rfl, rfl⟩
  split
  · trivial
  · rename_i c1 hc1
    have hc1good : ∀ e ∈ cornerEmits i c1, AGood A r path e := by
      apply good_corners
      split at hc1
      · cases hx : addCorner1 r c.crossingLoc (getIntersection A r prv cur c.loc ⟨0, 0⟩).2.1 with
        | none => rw [hx] at hc1; simp at hc1
        | some p =>
          rw [hx] at hc1
          simp only [Option.map_some, Option.some.injEq] at hc1
          subst hc1
          intro q hq
          simp only [List.mem_singleton] at hq
          subst hq
          exact addCorner1_mem hx
      · simp only [Option.some.injEq] at hc1
        subst hc1; simp
    split
    · split
      · trivial
      · rename_i p hp
        exact all_append (all_append ha hc1good) (all_pair h2 (addCorner1_mem hp))
    · exact all_append (all_append ha hc1good) (all_pair h2 hip)

theorem stepExit_good {A : Arith} {r : Rect} {path : Path} (c : Ctl) (i : Nat)
    (adds : List AEmit) (cl : Location) (ip : Pt) (ha : ∀ e ∈ adds, AGood A r path e)
    (hip : AGood A r path ⟨i, ip, .cross⟩) :
    StepAll (AGood A r path) (stepExit c i adds cl ip) := by
  unfold stepExit
  exact all_append ha (all_single hip)

theorem astep_good (A : Arith) (r : Rect) (path : Path) (c : Ctl) :
    StepAll (AGood A r path) (astep A r path c) := by
  have g := gnl_spec r path c.loc c.i
  unfold astep
  generalize getNextLocation r path c.loc c.i = gg at g
  obtain ⟨loc, j, adds⟩ := gg
  simp only at g ⊢
  have ha : ∀ e ∈ vtxEmits adds, AGood A r path e := good_vtx g.adds
  split
  · split
    · rename_i cur prv hcur hprv
      have hip : (getIntersection A r cur prv loc ⟨0, 0⟩).1 = true →
          AGood A r path ⟨j, (getIntersection A r cur prv loc ⟨0, 0⟩).2.2, .cross⟩ :=
        fun h => ⟨cur, prv, loc, hcur, hprv, h, rfl⟩
      split
      · exact stepOutside_good c loc j _ cur prv ha
      · rename_i hx
        have hx' : (getIntersection A r cur prv loc ⟨0, 0⟩).1 = true := by simpa using hx
        split
        · exact stepEnter_good c j _ cur prv _ _ ha (hip hx')
        · split
          · exact stepThrough_good c j _ cur prv _ _ ha (hip hx') hcur hprv
          · exact stepExit_good c j _ _ _ ha (hip hx')
    · trivial
  · exact ha

theorem aloop_good (A : Arith) (r : Rect) (path : Path) :
    ∀ (fuel : Nat) (c : Ctl) (o : LoopOut), aloop A r path fuel c = .ok o → ∀ e ∈ o.es, AGood A r path e := by
  intro fuel
  induction fuel with
  | zero => intro c o h; simp [aloop] at h
  | succ fuel ih =>
    intro c o h
    unfold aloop at h
    split at h
    · have hs := astep_good A r path c
      split at h
      · rename_i es loc hst
        rw [hst] at hs
        simp only [Except.ok.injEq] at h
        subst h
        exact hs
      · rename_i es sl c' hst
        rw [hst] at hs
        split at h
        · rename_i o' ho'
          simp only [Except.ok.injEq] at h
          subst h
          exact all_append hs (ih c' o' ho')
        · simp at h
      · simp at h
    · simp only [Except.ok.injEq] at h
      subst h
      simp

theorem finalCorners_mem {r : Rect} : ∀ (sl : List Location) (prev : Location) (cs : List Pt) (l : Location),
    finalCorners r prev sl = some (cs, l) → ∀ p ∈ cs, p ∈ r.asPath := by
  intro sl
  induction sl with
  | nil =>
    intro prev cs l h
    simp only [finalCorners, Option.some.injEq, Prod.mk.injEq] at h
    rw [← h.1]; simp
  | cons loc2 rest ih =>
    intro prev cs l h
    unfold finalCorners at h
    split at h
    · exact ih prev cs l h
    · split at h
      · simp at h
      · rename_i p hp
        cases hr : finalCorners r loc2 rest with
        | none => rw [hr] at h; simp at h
        | some x =>
          rw [hr] at h
          simp only [Option.map_some, Option.some.injEq, Prod.mk.injEq] at h
          obtain ⟨h1, h2⟩ := h
          subst h1
          intro q hq
          rcases List.mem_cons.mp hq with rfl | hq
          · exact addCorner2_mem hp
          · exact ih loc2 x.1 x.2 (by rw [hr]) q hq

theorem afinish_good {A : Arith} (pip : Pt → Path → Option PipResult) (r : Rect) (path : Path) (sloc : Location)
    (o : LoopOut) (fin : List AEmit) (h : afinish pip r path sloc o = .ok fin) : ∀ e ∈ fin, AGood A r path e := by
  unfold afinish at h
  simp only at h
  split at h
  · split at h
    · split at h
      · split at h
        · simp at h
        · simp only [Except.ok.injEq] at h
          subst h
          apply good_corners
          split
          · simp
          · intro p hp; exact List.mem_reverse.mp hp
        · simp only [Except.ok.injEq] at h; subst h; simp
      · simp only [Except.ok.injEq] at h; subst h; simp
    · simp only [Except.ok.injEq] at h; subst h; simp
  · split at h
    · split at h
      · simp at h
      · rename_i cs loc hfc
        have hcs : ∀ p ∈ cs, p ∈ r.asPath := by
          split at hfc
          · exact finalCorners_mem _ _ _ _ hfc
          · simp only [Option.some.injEq, Prod.mk.injEq] at hfc
            rw [← hfc.1]; simp
        split at h
        · split at h
          · simp at h
          · rename_i p hp
            simp only [Except.ok.injEq] at h
            subst h
            apply good_corners
            intro q hq
            rcases List.mem_append.mp hq with hq | hq
            · exact hcs q hq
            · simp only [List.mem_singleton] at hq; subst hq; exact addCorner2_mem hp
        · simp only [Except.ok.injEq] at h
          subst h
          exact good_corners _ hcs
    · simp only [Except.ok.injEq] at h; subst h; simp

end Clipper.Lemmas.RCA

namespace Clipper.Lemmas.RCA
open Clipper Clipper.Model.RC Clipper.Lemmas.RC

/-! ### termination and index safety of the main loop -/

/-- control states the main loop goes through, started in `c0` -/
inductive Reach (A : Arith) (r : Rect) (path : Path) (c0 : Ctl) : Ctl → Prop
  | init : Reach A r path c0 c0
  | next {c : Ctl} {es : List AEmit} {sl : List Location} {c' : Ctl} :
      Reach A r path c0 c → c.i < path.length → astep A r path c = .next es sl c' → Reach A r path c0 c'

/-- The two facts about `GetIntersection` (i.e. about the `double` arithmetic) on which one iteration relies; they
are what a geometrically complete intersection test delivers, and they are *not* proved for any arithmetic here.
With `loc`, `j` the location and index `GetNextLocation` produces from the control state `c`, `cur = path[j]`,
`prv` the vertex before it (cyclically):
* **no missed crossing**: if `GetIntersection(cur, prv, loc)` fails then neither end of the segment was classified
  `Inside` (`loc ≠ Inside` and the location before, `c.loc ≠ Inside`);
* **arm readiness**: if it succeeds for `loc ≠ Inside` on an iteration that did not advance `i`, and this is not the
  `ip == ip2` case of the passing-right-through branch, then `cur` lies on the far side of the edge line it
  reports (`Ready`), so that the next `GetNextLocation` call consumes `cur`. -/
def StepFine (A : Arith) (r : Rect) (path : Path) (c : Ctl) : Prop :=
  ∀ cur prv, path[(getNextLocation r path c.loc c.i).2.1]? = some cur →
    prevPt path (getNextLocation r path c.loc c.i).2.1 = some prv →
    ((getIntersection A r cur prv (getNextLocation r path c.loc c.i).1 ⟨0, 0⟩).1 = false →
      (getNextLocation r path c.loc c.i).1 ≠ .inside ∧ c.loc ≠ .inside) ∧
    ((getIntersection A r cur prv (getNextLocation r path c.loc c.i).1 ⟨0, 0⟩).1 = true →
      (getNextLocation r path c.loc c.i).1 ≠ .inside → (getNextLocation r path c.loc c.i).2.1 = c.i →
      (c.loc ≠ .inside → (getIntersection A r cur prv (getNextLocation r path c.loc c.i).1 ⟨0, 0⟩).2.2 ≠
        (getIntersection A r prv cur c.loc ⟨0, 0⟩).2.2) →
      Ready r (getIntersection A r cur prv (getNextLocation r path c.loc c.i).1 ⟨0, 0⟩).2.1 cur)

def AStepOk (r : Rect) (path : Path) (c : Ctl) : AStep → Prop
  | .fault _ => False
  | .done _ _ => True
  | .next _ sl c' => c.i ≤ c'.i ∧ c'.i ≤ path.length ∧ (∀ l ∈ sl, l ≠ .inside) ∧
      (c.i + 1 ≤ c'.i ∨ (ReadyAt r path c'.loc c'.i ∧ (ReadyAt r path c.loc c.i → c.i + 1 ≤ c'.i)))

theorem readyAt_of {r : Rect} {path : Path} {l : Location} {j : Nat} {cur : Pt} (hcur : path[j]? = some cur)
    (h : Ready r l cur) : ReadyAt r path l j := by
  intro q hq; rw [hcur] at hq; cases hq; exact h

theorem astep_ok (A : Arith) (r : Rect) (path : Path) (c : Ctl) (hi : c.i < path.length)
    (hf : StepFine A r path c) : AStepOk r path c (astep A r path c) := by
  have g := gnl_spec r path c.loc c.i
  have hin : c.loc = .inside → ∀ q, path[(getNextLocation r path c.loc c.i).2.1]? = some q →
      (getNextLocation r path c.loc c.i).1 ≠ .inside := by
    intro h q hq; rw [h] at hq ⊢; exact (gnl_from_inside r path c.i q hq).1
  unfold StepFine at hf
  unfold astep
  generalize getNextLocation r path c.loc c.i = gg at g hf hin
  obtain ⟨loc, j, adds⟩ := gg
  simp only at g hf hin ⊢
  have hge := g.ge
  simp only at hge
  have hadv : ReadyAt r path c.loc c.i → c.i + 1 ≤ j := fun hr =>
    g.adv _ (List.getElem?_eq_getElem hi) (hr _ (List.getElem?_eq_getElem hi))
  by_cases hj : j < path.length
  · rw [if_pos hj]
    have hcur : path[j]? = some path[j] := List.getElem?_eq_getElem hj
    obtain ⟨prv, hprv, _⟩ := prevPt_isSome path j hj
    rw [hcur, hprv]
    simp only
    have hfine := hf path[j] prv hcur hprv
    have hready : Ready r loc path[j] := g.ready _ hcur
    have hloc := getIntersection_loc A r path[j] prv loc ⟨0, 0⟩
    generalize path[j] = cur at *
    cases hx : (getIntersection A r cur prv loc ⟨0, 0⟩).1
    · -- remaining outside
      obtain ⟨hl, hc⟩ := hfine.1 hx
      simp only [Bool.not_false, if_true]
      unfold stepOutside
      simp only
      split
      · obtain ⟨sl, hsl, hsl2⟩ := startLocsLoop_isSome c.loc loc (isClockwise A r c.loc loc prv cur) hl
        rw [hsl]
        exact ⟨by simp; omega, by simp; omega, hsl2 hc, Or.inl (by simp; omega)⟩
      · split
        · obtain ⟨pts, hpts⟩ := cornerLoop_isSome r c.loc loc (isClockwise A r c.loc loc prv cur) hc hl
          rw [hpts]
          exact ⟨by simp; omega, by simp; omega, by simp, Or.inl (by simp; omega)⟩
        · exact ⟨by simp; omega, by simp; omega, by simp, Or.inl (by simp; omega)⟩
    · have hcl : (getIntersection A r cur prv loc ⟨0, 0⟩).2.1 ≠ .inside := hloc.1 hx
      simp only [Bool.not_true, Bool.false_eq_true, if_false]
      -- progress for the steps that end in the reported crossing location
      have hprog : loc ≠ .inside →
          (c.loc ≠ .inside → (getIntersection A r cur prv loc ⟨0, 0⟩).2.2 ≠
            (getIntersection A r prv cur c.loc ⟨0, 0⟩).2.2) →
          (c.i + 1 ≤ j ∨ (ReadyAt r path (getIntersection A r cur prv loc ⟨0, 0⟩).2.1 j ∧
            (ReadyAt r path c.loc c.i → c.i + 1 ≤ j))) := by
        intro hl hne
        by_cases hadv' : c.i + 1 ≤ j
        · exact Or.inl hadv'
        · exact Or.inr ⟨readyAt_of hcur (hfine.2 hx hl (by omega) hne), hadv⟩
      split
      · -- entering
        rename_i hli
        have hc : c.loc ≠ .inside := fun h => hin h cur hcur hli
        have hrd : ReadyAt r path .inside j := readyAt_of hcur (by rw [← hli]; exact hready)
        unfold stepEnter
        simp only
        split
        · refine ⟨hge, Nat.le_of_lt hj, ?_, Or.inr ⟨hrd, hadv⟩⟩
          intro l hl; simp only [List.mem_singleton] at hl; subst hl; exact hc
        · split
          · obtain ⟨pts, hpts⟩ := cornerLoop_isSome r c.loc _
              (isClockwise A r c.loc (getIntersection A r cur prv loc ⟨0, 0⟩).2.1 prv cur) hc hcl
            rw [hpts]
            exact ⟨hge, Nat.le_of_lt hj, by simp, Or.inr ⟨hrd, hadv⟩⟩
          · exact ⟨hge, Nat.le_of_lt hj, by simp, Or.inr ⟨hrd, hadv⟩⟩
      · rename_i hli
        split
        · -- passing right through
          rename_i hc
          have hl2 : (getIntersection A r prv cur c.loc ⟨0, 0⟩).2.1 ≠ .inside :=
            getIntersection_loc_ne A r prv cur c.loc ⟨0, 0⟩ hc
          have hsl : ∀ l ∈ (if c.firstCross = Location.inside then [c.loc] else []), l ≠ Location.inside := by
            intro l hl
            split at hl
            · simp only [List.mem_singleton] at hl; subst hl; exact hc
            · simp at hl
          unfold stepThrough
          simp only
          split
          · rename_i hc1
            split at hc1
            · obtain ⟨p, hp⟩ := addCorner1_isSome r (a := c.crossingLoc)
                (b := (getIntersection A r prv cur c.loc ⟨0, 0⟩).2.1) (by rename_i h; exact h.1) hl2
              rw [hp] at hc1; simp at hc1
            · simp at hc1
          · split
            · rename_i heq
              have hl3 : (getLocation r cur (getIntersection A r cur prv loc ⟨0, 0⟩).2.1).2 ≠ .inside :=
                getLocation_ne_inside_of_ready hready hli _
              obtain ⟨p, hp⟩ := addCorner1_isSome r hcl hl3
              rw [hp]
              exact ⟨hge, Nat.le_of_lt hj, hsl, Or.inr ⟨readyAt_of hcur (getLocation_ready r cur _), hadv⟩⟩
            · rename_i hne
              exact ⟨hge, Nat.le_of_lt hj, hsl, hprog hli (fun _ => hne)⟩
        · -- exiting
          rename_i hc
          unfold stepExit
          exact ⟨hge, Nat.le_of_lt hj, by simp, hprog hli (fun h => absurd h hc)⟩
  · rw [if_neg hj]
    trivial

/-- The main loop ends within `2 * (n - i) + 2` iterations without a fault, and `start_locs_` never receives
`Inside`, provided `StepFine` holds in every state it goes through. -/
theorem aloop_total (A : Arith) (r : Rect) (path : Path) (c0 : Ctl)
    (hyp : ∀ c, Reach A r path c0 c → c.i < path.length → StepFine A r path c) :
    ∀ (fuel : Nat) (c : Ctl), Reach A r path c0 c → c.i ≤ path.length →
      (2 * (path.length - c.i) + 2 ≤ fuel ∨ (2 * (path.length - c.i) + 1 ≤ fuel ∧ ReadyAt r path c.loc c.i)) →
      ∃ o, aloop A r path fuel c = .ok o ∧ ∀ l ∈ o.startLocs, l ≠ .inside := by
  intro fuel
  induction fuel with
  | zero => intro c _ _ h; omega
  | succ fuel ih =>
    intro c hr hle hf
    unfold aloop
    by_cases hlt : c.i < path.length
    · rw [if_pos hlt]
      have hs := astep_ok A r path c hlt (hyp c hr hlt)
      cases hstep : astep A r path c with
      | fault f => rw [hstep] at hs; exact hs.elim
      | done es loc => exact ⟨_, rfl, by simp⟩
      | next es sl c' =>
        rw [hstep] at hs
        obtain ⟨h1, h2, h3, h5⟩ := hs
        have hfuel : 2 * (path.length - c'.i) + 2 ≤ fuel ∨
            (2 * (path.length - c'.i) + 1 ≤ fuel ∧ ReadyAt r path c'.loc c'.i) := by
          rcases h5 with h5 | ⟨hrd, hadv⟩
          · left; rcases hf with hf | hf <;> omega
          · rcases hf with hf | ⟨hf, hrd0⟩
            · right; exact ⟨by omega, hrd⟩
            · have := hadv hrd0
              right; exact ⟨by omega, hrd⟩
        obtain ⟨o, ho, hsl⟩ := ih c' (Reach.next hr hlt hstep) h2 hfuel
        simp only [ho]
        refine ⟨_, rfl, ?_⟩
        intro l hl
        rcases List.mem_append.mp hl with hl | hl
        · exact h3 l hl
        · exact hsl l hl
    · rw [if_neg hlt]
      exact ⟨_, rfl, by simp⟩

theorem finalCorners_isSome (r : Rect) : ∀ (sl : List Location) (prev : Location), prev ≠ .inside →
    (∀ l ∈ sl, l ≠ .inside) → ∃ cs l, finalCorners r prev sl = some (cs, l) ∧ l ≠ .inside := by
  intro sl
  induction sl with
  | nil => intro prev hp _; exact ⟨[], prev, rfl, hp⟩
  | cons loc2 rest ih =>
    intro prev hp hsl
    have h2 : loc2 ≠ .inside := hsl loc2 (by simp)
    have hrest : ∀ l ∈ rest, l ≠ .inside := fun l hl => hsl l (by simp [hl])
    unfold finalCorners
    split
    · exact ih prev hp hrest
    · obtain ⟨p, hp'⟩ := addCorner2_isSome r (Gen.HeadingClockwise prev loc2) hp
      rw [hp']
      obtain ⟨cs, l, h, hl⟩ := ih loc2 h2 hrest
      exact ⟨p :: cs, l, by rw [h]; rfl, hl⟩

theorem afinish_total (pip : Pt → Path → Option PipResult) (r : Rect) (path : Path) (sloc : Location) (o : LoopOut)
    (hpip : ∀ q poly, (pip q poly).isSome = true) (hsl : ∀ l ∈ o.startLocs, l ≠ .inside) :
    ∃ fin, afinish pip r path sloc o = .ok fin := by
  unfold afinish
  simp only
  split
  · split
    · split
      · have : ∃ b, path1ContainsPath2 pip path r.asPath = some b := by
          unfold path1ContainsPath2
          have : ∀ (l : List Pt) (c : Int), ∃ v, p1c2Loop pip path l c = some v := by
            intro l
            induction l with
            | nil => intro c; exact ⟨c, rfl⟩
            | cons q rest ih =>
              intro c
              unfold p1c2Loop
              cases hq : pip q path with
              | none => have := hpip q path; rw [hq] at this; simp at this
              | some res =>
                cases res <;> simp only
                · exact ih c
                · split
                  · exact ⟨_, rfl⟩
                  · exact ih _
                · split
                  · exact ⟨_, rfl⟩
                  · exact ih _
          obtain ⟨v, hv⟩ := this r.asPath 0
          exact ⟨_, by rw [hv]; rfl⟩
        obtain ⟨b, hb⟩ := this
        rw [hb]
        cases b <;> exact ⟨_, rfl⟩
      · exact ⟨_, rfl⟩
    · exact ⟨_, rfl⟩
  · split
    · rename_i hcond
      have hfc : ∃ cs l, (if o.startLocs.length > 0 then finalCorners r o.loc o.startLocs else some ([], o.loc)) =
          some (cs, l) ∧ l ≠ .inside := by
        split
        · exact finalCorners_isSome r _ _ hcond.1 hsl
        · exact ⟨[], o.loc, rfl, hcond.1⟩
      obtain ⟨cs, l, hfc, hl⟩ := hfc
      rw [hfc]
      simp only
      split
      · obtain ⟨p, hp⟩ := addCorner2_isSome r (Gen.HeadingClockwise l o.firstCross) hl
        rw [hp]
        exact ⟨_, rfl⟩
      · exact ⟨_, rfl⟩
    · exact ⟨_, rfl⟩

end Clipper.Lemmas.RCA

namespace Clipper.Lemmas.RCA
open Clipper Clipper.Model.RC Clipper.Lemmas.RC

/-! ### a path that stays in the rectangle -/

theorem takeWhile_eq_self (c : Pt → Bool) (l : List Pt) (h : ∀ x ∈ l, c x = true) : l.takeWhile c = l := by
  induction l with
  | nil => rfl
  | cons a l ih =>
    rw [List.takeWhile_cons, if_pos (h a (by simp)), ih (fun x hx => h x (by simp [hx]))]

theorem gnl_all_inside (r : Rect) (path : Path) (hin : ∀ p ∈ path, inRect r p = true) :
    getNextLocation r path .inside 0 = (.inside, path.length, indexFrom 0 path) := by
  simp only [getNextLocation, List.drop_zero]
  rw [takeWhile_eq_self _ _ (fun p hp => (outsideLoc_isNone_iff r p).mpr (hin p hp))]
  simp

theorem getLocation_inside_of_inRect {r : Rect} {p : Pt} (l0 : Location) (hin : inRect r p = true)
    (h : (getLocation r p l0).1 = true) : (getLocation r p l0).2 = .inside := by
  rw [getLocation_snd_true r p l0 h]
  rw [inRect_iff] at hin
  unfold region
  rw [if_neg (by omega), if_neg (by omega), if_neg (by omega), if_neg (by omega)]

theorem startLoc_inside (r : Rect) (path : Path) (last : Pt) (hl : last ∈ path)
    (hin : ∀ p ∈ path, inRect r p = true) :
    startLoc r path last = .inl (vtxEmits (indexFrom 0 path)) ∨ startLoc r path last = .inr .inside := by
  unfold startLoc
  simp only
  split
  · split
    · exact Or.inl rfl
    · rename_i q hq
      right
      have hq1 := List.find?_some hq
      have hqm : q ∈ path := by
        have := List.mem_of_find?_eq_some hq
        exact List.dropLast_subset _ (List.mem_reverse.mp this)
      rw [if_pos (getLocation_inside_of_inRect _ (hin q hqm) hq1)]
  · rename_i h
    right
    have h1 : (getLocation r last).1 = true := by simpa using h
    rw [getLocation_inside_of_inRect _ (hin last hl) h1]

theorem aloop_all_inside (A : Arith) (r : Rect) (path : Path) (hne : path ≠ []) (hin : ∀ p ∈ path, inRect r p = true)
    (fuel : Nat) : aloop A r path (fuel + 1) ⟨0, .inside, .inside, .inside⟩ =
      .ok ⟨vtxEmits (indexFrom 0 path), [], .inside, .inside⟩ := by
  have hlen : 0 < path.length := List.length_pos_iff.mpr hne
  unfold aloop
  simp only [hlen, if_true]
  unfold astep
  simp only [gnl_all_inside r path hin, Nat.lt_irrefl, if_false]

/-! ### a path that never touches the rectangle -/

theorem aloop_outside (A : Arith) (r : Rect) (path : Path) (hout : ∀ p ∈ path, outsideLoc r p ≠ none)
    (hmiss : ∀ cur prv loc, cur ∈ path → prv ∈ path → (getIntersection A r cur prv loc ⟨0, 0⟩).1 = false) :
    ∀ (fuel : Nat) (c : Ctl), c.loc ≠ .inside → c.crossingLoc = .inside → c.firstCross = .inside →
      (path.length - c.i) + 1 ≤ fuel →
      ∃ o, aloop A r path fuel c = .ok o ∧ o.es = [] ∧ o.firstCross = .inside := by
  intro fuel
  induction fuel with
  | zero => intro c _ _ _ h; omega
  | succ fuel ih =>
    intro c hc hcl hfc hf
    unfold aloop
    by_cases hlt : c.i < path.length
    · rw [if_pos hlt]
      have g := gnl_spec r path c.loc c.i
      have hnil := gnl_adds_nil r path c.loc c.i hc
      unfold astep
      generalize getNextLocation r path c.loc c.i = gg at g hnil
      obtain ⟨loc, j, adds⟩ := gg
      simp only at g hnil ⊢
      subst hnil
      have hge := g.ge
      simp only at hge
      by_cases hj : j < path.length
      · rw [if_pos hj]
        have hcur : path[j]? = some path[j] := List.getElem?_eq_getElem hj
        obtain ⟨prv, hprv, hprvm⟩ := prevPt_isSome path j hj
        have hcurm : path[j] ∈ path := List.getElem_mem hj
        have hl : loc ≠ .inside := ready_ne_inside_of_outside (g.ready _ hcur) (hout _ hcurm)
        rw [hcur, hprv]
        simp only
        rw [hmiss _ _ loc hcurm hprvm]
        simp only [Bool.not_false, if_true]
        unfold stepOutside
        simp only [hcl, if_true]
        obtain ⟨sl, hsl, _⟩ := startLocsLoop_isSome c.loc loc (isClockwise A r c.loc loc prv path[j]) hl
        rw [hsl]
        simp only
        obtain ⟨o, ho, hes, hfc'⟩ := ih ⟨j + 1, loc, .inside, c.firstCross⟩ hl rfl hfc (by simp only; omega)
        rw [ho]
        exact ⟨_, rfl, by simp [vtxEmits, hes], hfc'⟩
      · rw [if_neg hj]
        exact ⟨_, rfl, by simp [vtxEmits], hfc⟩
    · rw [if_neg hlt]
      exact ⟨_, rfl, rfl, hfc⟩

theorem startLoc_outside (r : Rect) (hne : r.isEmpty = false) (path : Path) (last : Pt)
    (ho : outsideLoc r last ≠ none) : ∃ l, startLoc r path last = .inr l ∧ l ≠ .inside := by
  have hnin : ¬ inRect r last = true := fun h => ho ((outsideLoc_none_iff r last).mpr h)
  have h1 : (getLocation r last).1 = true := by
    cases hb : (getLocation r last).1
    · exact absurd (onBoundary_inRect ((getLocation_fst r last .inside).mp hb) hne) hnin
    · rfl
  unfold startLoc
  simp only [h1, Bool.not_true, Bool.false_eq_true, if_false]
  refine ⟨_, rfl, ?_⟩
  rw [getLocation_snd_true r last .inside h1]
  intro hc
  exact hnin (region_inside_inRect hc)

end Clipper.Lemmas.RCA

namespace Clipper.Lemmas.RCA
open Clipper Clipper.Model.RC Clipper.Lemmas.RC

/-! ### the Boolean checker of `StepFine` is sound -/

theorem readyB_iff (r : Rect) (l : Location) (q : Pt) : readyB r l q = true ↔ Ready r l q := by
  cases l <;> simp [readyB, Ready]

theorem stepFineB_sound {A : Arith} {r : Rect} {path : Path} {c : Ctl} (h : stepFineB A r path c = true) :
    StepFine A r path c := by
  unfold stepFineB at h
  intro cur prv hcur hprv
  simp only [hcur, hprv] at h
  constructor
  · intro hx
    simp only [hx, Bool.not_false, if_true, Bool.and_eq_true, decide_eq_true_eq] at h
    exact h
  · intro hx hl hj hne
    simp only [hx, Bool.not_true, Bool.false_eq_true, if_false] at h
    rw [if_pos] at h
    · exact (readyB_iff _ _ _).mp h
    · refine ⟨hl, hj, ?_⟩
      by_cases hc : c.loc = .inside
      · exact Or.inl hc
      · exact Or.inr (hne hc)

/-- a run reaching `c'` from `c` either stops at once or starts with the step out of `c` -/
theorem reach_head {A : Arith} {r : Rect} {path : Path} {c c' : Ctl} (h : Reach A r path c c') :
    c' = c ∨ ∃ es sl c1, c.i < path.length ∧ astep A r path c = .next es sl c1 ∧ Reach A r path c1 c' := by
  induction h with
  | init => exact Or.inl rfl
  | next hr hi hst ih =>
    rename_i d es sl d'
    rcases ih with rfl | ⟨es1, sl1, c1, h1, h2, h3⟩
    · exact Or.inr ⟨es, sl, d', hi, hst, Reach.init⟩
    · exact Or.inr ⟨es1, sl1, c1, h1, h2, Reach.next h3 hi hst⟩

theorem fineLoop_sound (A : Arith) (r : Rect) (path : Path) :
    ∀ (fuel : Nat) (c : Ctl), fineLoop A r path fuel c = true →
      ∀ c', Reach A r path c c' → c'.i < path.length → StepFine A r path c' := by
  intro fuel
  induction fuel with
  | zero => intro c h; simp [fineLoop] at h
  | succ fuel ih =>
    intro c h c' hr hi'
    unfold fineLoop at h
    rcases reach_head hr with rfl | ⟨es, sl, c1, hi, hst, hr1⟩
    · rw [if_pos hi'] at h
      simp only [Bool.and_eq_true] at h
      exact stepFineB_sound h.1
    · rw [if_pos hi, hst] at h
      simp only [Bool.and_eq_true] at h
      exact ih c1 h.2 c' hr1 hi'

/-! ### which faults a step can raise -/

theorem astep_fault (A : Arith) (r : Rect) (path : Path) (c : Ctl) (f : Fault)
    (h : astep A r path c = .fault f) : f = .corner := by
  unfold astep at h
  simp only at h
  split at h
  · rename_i hj
    obtain ⟨prv, hprv, _⟩ := prevPt_isSome path _ hj
    rw [List.getElem?_eq_getElem hj, hprv] at h
    simp only at h
    split at h
    · unfold stepOutside at h
      simp only at h
      repeat' split at h
      all_goals first | (cases h; rfl) | cases h
    · split at h
      · unfold stepEnter at h
        simp only at h
        repeat' split at h
        all_goals first | (cases h; rfl) | cases h
      · split at h
        · unfold stepThrough at h
          simp only at h
          repeat' split at h
          all_goals first | (cases h; rfl) | cases h
        · unfold stepExit at h
          cases h
  · cases h

theorem aloop_fault (A : Arith) (r : Rect) (path : Path) :
    ∀ (fuel : Nat) (c : Ctl) (f : Fault), aloop A r path fuel c = .error f → f = .corner ∨ f = .fuel := by
  intro fuel
  induction fuel with
  | zero => intro c f h; simp only [aloop, Except.error.injEq] at h; exact Or.inr h.symm
  | succ fuel ih =>
    intro c f h
    unfold aloop at h
    split at h
    · split at h
      · cases h
      · split at h
        · cases h
        · rename_i f' hf'
          simp only [Except.error.injEq] at h
          subst h
          exact ih _ _ hf'
      · rename_i f' hst
        simp only [Except.error.injEq] at h
        subst h
        exact Or.inl (astep_fault A r path c _ hst)
    · cases h

theorem afinish_fault (pip : Pt → Path → Option PipResult) (r : Rect) (path : Path) (sloc : Location) (o : LoopOut)
    (f : Fault) (h : afinish pip r path sloc o = .error f) : f = .corner ∨ f = .pip := by
  unfold afinish at h
  simp only at h
  repeat' split at h
  all_goals first | (cases h; exact Or.inl rfl) | (cases h; exact Or.inr rfl) | cases h

/-! ### misc -/

/-- coming from an outside location, a vertex classified `Inside` lies strictly inside the rectangle -/
theorem gnl_inside_strict (r : Rect) (path : Path) (loc : Location) (i : Nat) (q : Pt) (h : loc ≠ .inside)
    (hq : path[(getNextLocation r path loc i).2.1]? = some q) (hi : (getNextLocation r path loc i).1 = .inside) :
    r.left < q.x ∧ q.x < r.right ∧ r.top < q.y ∧ q.y < r.bottom := by
  cases loc
  case inside => exact absurd rfl h
  case left =>
    have hj : (getNextLocation r path .left i).2.1 = skipWhile (fun p => decide (p.x ≤ r.left)) path i := by
      simp only [getNextLocation]; split <;> rfl
    rw [hj] at hq
    have hs := skipWhile_stop _ path i q hq
    simp only [getNextLocation] at hi; rw [hq] at hi; simp only [decide_eq_false_iff_not] at hi hs
    repeat' split at hi
    all_goals first | omega | cases hi
  case top =>
    have hj : (getNextLocation r path .top i).2.1 = skipWhile (fun p => decide (p.y ≤ r.top)) path i := by
      simp only [getNextLocation]; split <;> rfl
    rw [hj] at hq
    have hs := skipWhile_stop _ path i q hq
    simp only [getNextLocation] at hi; rw [hq] at hi; simp only [decide_eq_false_iff_not] at hi hs
    repeat' split at hi
    all_goals first | omega | cases hi
  case right =>
    have hj : (getNextLocation r path .right i).2.1 = skipWhile (fun p => decide (p.x ≥ r.right)) path i := by
      simp only [getNextLocation]; split <;> rfl
    rw [hj] at hq
    have hs := skipWhile_stop _ path i q hq
    simp only [getNextLocation] at hi; rw [hq] at hi; simp only [decide_eq_false_iff_not] at hi hs
    repeat' split at hi
    all_goals first | omega | cases hi
  case bottom =>
    have hj : (getNextLocation r path .bottom i).2.1 = skipWhile (fun p => decide (p.y ≥ r.bottom)) path i := by
      simp only [getNextLocation]; split <;> rfl
    rw [hj] at hq
    have hs := skipWhile_stop _ path i q hq
    simp only [getNextLocation] at hi; rw [hq] at hi; simp only [decide_eq_false_iff_not] at hi hs
    repeat' split at hi
    all_goals first | omega | cases hi

theorem prevPt_mem {path : Path} {i : Nat} {q : Pt} (h : prevPt path i = some q) : q ∈ path := by
  unfold prevPt at h
  split at h <;> exact List.mem_of_getElem? h

/-- the shortcut "all of path must be inside fRect" is taken only when every vertex is on the boundary -/
theorem startLoc_inl {r : Rect} {path : Path} {last : Pt} {es : List AEmit} (hl : path.getLast? = some last)
    (h : startLoc r path last = .inl es) :
    es = vtxEmits (indexFrom 0 path) ∧ ∀ p ∈ path, OnBoundary r p := by
  unfold startLoc at h
  simp only at h
  split at h
  · rename_i hg
    split at h
    · rename_i hfind
      simp only [Sum.inl.injEq] at h
      refine ⟨h.symm, ?_⟩
      intro p hp
      have hne : path ≠ [] := by intro h0; rw [h0] at hl; simp at hl
      have hgl : path.getLast hne = last := by
        rw [List.getLast?_eq_some_getLast hne] at hl; exact Option.some.inj hl
      have hpath : path = path.dropLast ++ [last] := by
        rw [← hgl]; exact (List.dropLast_concat_getLast hne).symm
      rw [hpath] at hp
      rcases List.mem_append.mp hp with hp | hp
      · have := List.find?_eq_none.mp hfind p (List.mem_reverse.mpr hp)
        exact (getLocation_fst r p .inside).mp (by simpa using this)
      · simp only [List.mem_singleton] at hp
        subst hp
        exact (getLocation_fst r p .inside).mp (by simpa using hg)
    · cases h
  · cases h

end Clipper.Lemmas.RCA
