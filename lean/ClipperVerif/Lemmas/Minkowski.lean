/- Helper lemmas for Props/C19: the two loops of `detail::Minkowski` as recursions over the *elements*
(instead of indices), and the passage from those recursions to the zip/flatMap closed form. -/
import ClipperVerif.Model.Minkowski
namespace Clipper.Lemmas.Minkowski
open Clipper Clipper.Model.Minkowski

/-- quads of one path edge as a recursion over two rows of `tmp` with the previous column carried along -/
def rowQuads (isPos : Path → Bool) : Pt × Pt → Path → Path → Paths
  | (a, b), d :: l1, c :: l2 => orient isPos [a, b, c, d] :: rowQuads isPos (d, c) l1 l2
  | _, _, _ => []

theorem mkQuad_some {tmp : Paths} {g h i j : Nat} {rg ri : Path} {a b c d : Pt}
    (hg : tmp[g]? = some rg) (hi : tmp[i]? = some ri)
    (ha : rg[h]? = some a) (hb : ri[h]? = some b) (hc : ri[j]? = some c) (hd : rg[j]? = some d) :
    mkQuad tmp g h i j = some [a, b, c, d] := by
  simp [mkQuad, hg, hi, ha, hb, hc, hd]

/-- the inner loop, started at column `s` with `k` columns to go -/
theorem inner_spec (isPos : Path → Bool) (tmp : Paths) (g i n : Nat) (rg ri : Path)
    (hg : tmp[g]? = some rg) (hi : tmp[i]? = some ri) (hlg : rg.length = n) (hli : ri.length = n) :
    ∀ (k s h : Nat) (res : Paths) (a b : Pt), s + k = n → rg[h]? = some a → ri[h]? = some b →
      inner isPos tmp g i (List.range' s k) (h, res)
        = some (if k = 0 then h else n - 1, res ++ rowQuads isPos (a, b) (rg.drop s) (ri.drop s)) := by
  intro k
  induction k with
  | zero =>
    intro s h res a b hs _ _
    have h1 : rg.drop s = [] := List.drop_eq_nil_of_le (by omega)
    have h2 : ri.drop s = [] := List.drop_eq_nil_of_le (by omega)
    simp [inner, h1, h2, rowQuads]
  | succ k ih =>
    intro s h res a b hs ha hb
    have hsg : s < rg.length := by omega
    have hsi : s < ri.length := by omega
    rw [List.range'_succ, inner,
      mkQuad_some hg hi ha hb (List.getElem?_eq_getElem hsi) (List.getElem?_eq_getElem hsg)]
    simp only
    rw [ih (s + 1) s _ rg[s] ri[s] (by omega) (List.getElem?_eq_getElem hsg) (List.getElem?_eq_getElem hsi),
      List.drop_eq_getElem_cons hsg, List.drop_eq_getElem_cons hsi]
    simp only [rowQuads, List.append_assoc, List.singleton_append, Nat.add_one_ne_zero, if_false]
    congr 2
    split <;> omega

/-- all quads as a recursion over the rows of `tmp`, previous row carried along -/
def allQuads (isPos : Path → Bool) : Path → Paths → Paths
  | _, [] => []
  | rg, ri :: rest =>
    (match rg.getLast?, ri.getLast? with
     | some a, some b => rowQuads isPos (a, b) rg ri
     | _, _ => []) ++ allQuads isPos ri rest

/-- the outer loop, started at row `s` with `k` rows to go; all rows have length `n > 0` -/
theorem outer_spec (isPos : Path → Bool) (tmp : Paths) (n : Nat) (hn : 0 < n)
    (hrows : ∀ r ∈ tmp, r.length = n) :
    ∀ (k s g : Nat) (res : Paths) (rg : Path), s + k = tmp.length → tmp[g]? = some rg →
      ∃ g', outer isPos tmp n (List.range' s k) (g, n - 1, res)
        = some (g', n - 1, res ++ allQuads isPos rg (tmp.drop s)) := by
  intro k
  induction k with
  | zero =>
    intro s g res rg hs _
    have h1 : tmp.drop s = [] := List.drop_eq_nil_of_le (by omega)
    exact ⟨g, by simp [outer, h1, allQuads]⟩
  | succ k ih =>
    intro s g res rg hs hg
    have hst : s < tmp.length := by omega
    have hi : tmp[s]? = some tmp[s] := List.getElem?_eq_getElem hst
    have hlg : rg.length = n := hrows rg (List.mem_of_getElem? hg)
    have hli : tmp[s].length = n := hrows _ (List.getElem_mem hst)
    obtain ⟨a, hga⟩ : ∃ a, rg[n - 1]? = some a :=
      ⟨_, List.getElem?_eq_getElem (l := rg) (i := n - 1) (by omega)⟩
    obtain ⟨b, hib⟩ : ∃ b, tmp[s][n - 1]? = some b :=
      ⟨_, List.getElem?_eq_getElem (l := tmp[s]) (i := n - 1) (by omega)⟩
    have hinner := inner_spec isPos tmp g s n rg tmp[s] hg hi hlg hli n 0 (n - 1) res a b (by omega) hga hib
    rw [List.range'_succ, outer, hinner]
    simp only
    have hn0 : ¬ n = 0 := by omega
    simp only [hn0, if_false]
    obtain ⟨g', hg'⟩ := ih (s + 1) s (res ++ rowQuads isPos (a, b) (rg.drop 0) (tmp[s].drop 0))
      tmp[s] (by omega) hi
    refine ⟨g', ?_⟩
    rw [hg', List.drop_eq_getElem_cons hst]
    have e1 : rg.getLast? = some a := by
      rw [List.getLast?_eq_getElem?, hlg]; exact hga
    have e2 : tmp[s].getLast? = some b := by
      rw [List.getLast?_eq_getElem?, hli]; exact hib
    simp [allQuads, e1, e2]

open Clipper.Spec.Minkowski in
theorem shift_eq_pm : shift = pm := rfl

open Clipper.Spec.Minkowski in
/-- one row pair in closed form: consecutive pattern points `(prev, cur)` -/
theorem rowQuads_map (isPos : Path → Bool) (isSum : Bool) (pg pi : Pt) :
    ∀ (pattern : Path) (q0 : Pt),
      rowQuads isPos (shift isSum pg q0, shift isSum pi q0) (pattern.map (shift isSum pg)) (pattern.map (shift isSum pi))
        = ((q0 :: pattern).zip pattern).map (fun d => orient isPos (quadAt isSum pg pi d.1 d.2)) := by
  intro pattern
  induction pattern with
  | nil => intro q0; simp [rowQuads]
  | cons q rest ih =>
    intro q0
    simp only [List.map_cons, rowQuads, List.zip_cons_cons]
    rw [ih q]
    simp [quadAt, shift_eq_pm]

open Clipper.Spec.Minkowski in
/-- the quads of one path edge `pg → pi` against the whole pattern -/
def patQuads (isPos : Path → Bool) (isSum : Bool) (pattern : Path) (pg pi : Pt) : Paths :=
  (cyclicEdges pattern).map (fun d => orient isPos (quadAt isSum pg pi d.1 d.2))

open Clipper.Spec.Minkowski in
/-- all rows in closed form: consecutive path points `(prev, cur)` -/
theorem allQuads_map (isPos : Path → Bool) (isSum : Bool) (pattern : Path) :
    ∀ (rest : Path) (pg : Pt),
      allQuads isPos (translate isSum pattern pg) (rest.map (translate isSum pattern))
        = ((pg :: rest).zip rest).flatMap (fun e => patQuads isPos isSum pattern e.1 e.2) := by
  intro rest
  induction rest with
  | nil => intro pg; simp [allQuads]
  | cons p rest ih =>
    intro pg
    simp only [List.map_cons, allQuads, List.zip_cons_cons, List.flatMap_cons]
    rw [ih p]
    congr 1
    simp only [translate, List.getLast?_map, patQuads, cyclicEdges]
    cases hz : pattern.getLast? with
    | none => simp
    | some z => simp only [Option.map_some]; exact rowQuads_map isPos isSum pg p pattern z

end Clipper.Lemmas.Minkowski
