/-
Lemmas about the whole-sweep replay model with horizontal edges (`Model/SweepHorzReplay.lean`): every step other than the horizontal
phases keeps the AEL sorted by `curr_x` —
 * `InsertLocalMinimaIntoAEL` (`insertMinsH`): `IsValidAelOrder` answers by `curr_x` whenever the two `curr_x` differ
   (`Props/C01Order.isValidAelOrder_of_currX_ne`), which is all that sortedness by `curr_x` (ties allowed) needs;
 * `DoIntersections` (`doIntersectionsH`): a stable sort by `curr_x`;
 * `DoTopOfScanbeam` (`topOfBeamH`): edges leave or are replaced in place by a successor standing at the same `curr_x`.
Used by `Props/C01Horz.sweep_with_horizontals_keeps_sorted`.
-/
import ClipperVerif.Model.SweepHorzReplay
import ClipperVerif.Lemmas.SweepHorz
import ClipperVerif.Lemmas.AelOrder
import ClipperVerif.Props.C01Order
import ClipperVerif.Lemmas.C01RegionCore
namespace Clipper.Lemmas.SweepHorzReplay
open Clipper Clipper.Model Clipper.Model.SweepHorz Clipper.Model.SweepHorzReplay Clipper.Model.AelOrder
open Clipper.Model.SweepOrder (stableSort insertBefore)

theorem take_len_succ {α : Type} (A : List α) (x : α) (B : List α) (k : Nat) (h : A.length = k) :
    (A ++ x :: B).take (k + 1) = A ++ [x] := by
  subst h
  induction A with
  | nil => simp
  | cons a t ih => simpa using ih

theorem drop_len_succ {α : Type} (A : List α) (x : α) (B : List α) (k : Nat) (h : A.length = k) :
    (A ++ x :: B).drop (k + 1) = B := by
  subst h
  induction A with
  | nil => simp
  | cons a t ih => simp

/-! ## insertion -/

section Insert
variable (valid : HEdge → HEdge → Bool)

/-- what sortedness by `curr_x` needs of the insertion predicate: it never contradicts a strict `curr_x` comparison -/
def Weak (valid : HEdge → HEdge → Bool) : Prop :=
  ∀ r n, (valid r n = true → r.currX ≤ n.currX) ∧ (valid r n = false → n.currX ≤ r.currX)

theorem walkInsert_mem (e : HEdge) : ∀ (rest : List HEdge) (cur x : HEdge),
    x ∈ walkInsert valid (fun _ => false) e cur rest → x = e ∨ x ∈ cur :: rest := by
  intro rest
  induction rest with
  | nil => intro cur x hx; simp [walkInsert] at hx; rcases hx with rfl | rfl <;> simp
  | cons nxt rest ih =>
    intro cur x hx
    unfold walkInsert at hx
    split at hx
    · rcases List.mem_cons.1 hx with rfl | hx
      · simp
      · rcases ih nxt x hx with h | h
        · exact Or.inl h
        · exact Or.inr (List.mem_cons_of_mem _ h)
    · simp only [Bool.false_eq_true, if_false, List.mem_cons] at hx
      rcases hx with rfl | rfl | rfl | hx <;> simp_all

theorem walkInsert_sortedX (hw : Weak valid) (e : HEdge) : ∀ (rest : List HEdge) (cur : HEdge),
    SortedX (cur :: rest) → cur.currX ≤ e.currX → SortedX (walkInsert valid (fun _ => false) e cur rest) := by
  intro rest
  induction rest with
  | nil =>
    intro cur _ hc
    simp only [walkInsert, Bool.false_eq_true, if_false]
    unfold SortedX
    simp [hc]
  | cons nxt rest ih =>
    intro cur hs hc
    unfold SortedX at hs
    obtain ⟨h1, h2⟩ := List.pairwise_cons.1 hs
    unfold walkInsert
    by_cases hv : valid nxt e = true
    · simp only [hv, if_true]
      have := ih nxt h2 ((hw nxt e).1 hv)
      unfold SortedX at this ⊢
      refine List.pairwise_cons.2 ⟨?_, this⟩
      intro x hx
      rcases walkInsert_mem valid e rest nxt x hx with rfl | hx
      · exact hc
      · exact h1 x hx
    · simp only [hv, Bool.false_eq_true, if_false]
      have hv' : valid nxt e = false := by simpa using hv
      have hen := (hw nxt e).2 hv'
      unfold SortedX
      refine List.pairwise_cons.2 ⟨?_, List.pairwise_cons.2 ⟨?_, h2⟩⟩
      · intro x hx
        rcases List.mem_cons.1 hx with rfl | hx
        · exact hc
        · exact h1 x hx
      · intro x hx
        rcases List.mem_cons.1 hx with rfl | hx
        · exact hen
        · have := (List.pairwise_cons.1 h2).1 x hx; omega

theorem insertLeft_sortedX (hw : Weak valid) (l : List HEdge) (e : HEdge) (hs : SortedX l) :
    SortedX (insertLeft valid (fun _ => false) l e) := by
  cases l with
  | nil => simp [insertLeft, SortedX]
  | cons first rest =>
    unfold insertLeft
    by_cases hv : valid first e = true
    · simp only [hv, Bool.not_true, Bool.false_eq_true, if_false]
      exact walkInsert_sortedX valid hw e rest first hs ((hw first e).1 hv)
    · have hv' : valid first e = false := by simpa using hv
      simp only [hv', Bool.not_false, if_true]
      unfold SortedX at hs ⊢
      refine List.pairwise_cons.2 ⟨?_, hs⟩
      intro x hx
      have h0 := (hw first e).2 hv'
      rcases List.mem_cons.1 hx with rfl | hx
      · exact h0
      · have := (List.pairwise_cons.1 hs).1 x hx; omega

theorem bubble_mem (rb : HEdge) : ∀ (l : List HEdge) (x : HEdge), x ∈ bubble valid rb l → x = rb ∨ x ∈ l := by
  intro l
  induction l with
  | nil => intro x hx; simp [bubble] at hx; exact Or.inl hx
  | cons nxt rest ih =>
    intro x hx
    unfold bubble at hx
    split at hx
    · rcases List.mem_cons.1 hx with rfl | hx
      · simp
      · rcases ih x hx with h | h
        · exact Or.inl h
        · exact Or.inr (List.mem_cons_of_mem _ h)
    · rcases List.mem_cons.1 hx with rfl | hx
      · simp
      · exact Or.inr hx

theorem bubble_sortedX (hw : Weak valid) (rb : HEdge) : ∀ (l : List HEdge), SortedX l → SortedX (bubble valid rb l) := by
  intro l
  induction l with
  | nil => intro _; simp [bubble, SortedX]
  | cons nxt rest ih =>
    intro hs
    unfold SortedX at hs
    obtain ⟨h1, h2⟩ := List.pairwise_cons.1 hs
    unfold bubble
    by_cases hv : valid nxt rb = true
    · simp only [hv, if_true]
      have := ih h2
      unfold SortedX at this ⊢
      refine List.pairwise_cons.2 ⟨?_, this⟩
      intro x hx
      rcases bubble_mem valid rb rest x hx with rfl | hx
      · exact (hw nxt x).1 hv
      · exact h1 x hx
    · have hv' : valid nxt rb = false := by simpa using hv
      simp only [hv', Bool.false_eq_true, if_false]
      have h0 := (hw nxt rb).2 hv'
      unfold SortedX
      refine List.pairwise_cons.2 ⟨?_, hs⟩
      intro x hx
      rcases List.mem_cons.1 hx with rfl | hx
      · exact h0
      · have := h1 x hx; omega

/-- one local minimum whose two bounds start at the same `curr_x` -/
theorem insertBound_sortedX (hw : Weak valid) (l : List HEdge) (lb rb : HEdge) (hs : SortedX l) (heq : lb.currX = rb.currX) :
    SortedX (match insertLeftPos valid (fun _ => false) l lb with
      | some i => insertRight valid (insertLeft valid (fun _ => false) l lb) i rb
      | none => insertLeft valid (fun _ => false) l lb) := by
  have hl := insertLeft_sortedX valid hw l lb hs
  cases hp : insertLeftPos valid (fun _ => false) l lb with
  | none => exact hl
  | some k =>
    simp only
    obtain ⟨hshape, hk⟩ := Clipper.Lemmas.AelOrder.insertLeft_of_pos valid (fun _ => false) l lb k hp
    rw [hshape] at hl ⊢
    unfold insertRight
    have ht : (l.take k ++ lb :: l.drop k).take (k + 1) = l.take k ++ [lb] :=
      take_len_succ _ _ _ k (by simp [Nat.min_eq_left hk])
    have hd : (l.take k ++ lb :: l.drop k).drop (k + 1) = l.drop k :=
      drop_len_succ _ _ _ k (by simp [Nat.min_eq_left hk])
    rw [ht, hd]
    unfold SortedX at hl ⊢
    have hl' : (l.take k ++ [lb] ++ l.drop k).Pairwise (fun a b => a.currX ≤ b.currX) := by simpa using hl
    obtain ⟨p1, p2, p3⟩ := List.pairwise_append.1 hl'
    refine List.pairwise_append.2 ⟨p1, bubble_sortedX valid hw rb _ p2, ?_⟩
    intro a ha b hb
    rcases bubble_mem valid rb _ b hb with rfl | hb
    · rcases List.mem_append.1 ha with ha | ha
      · have := (List.pairwise_append.1 p1).2.2 a ha lb (by simp); omega
      · simp at ha; subst ha; omega
    · exact p3 a ha b hb

end Insert

/-- the regenerated `IsValidAelOrder` never contradicts a strict `curr_x` comparison -/
theorem validH_weak (info : Nat → Info) : Weak (validH info) := by
  intro r n
  unfold validH
  by_cases h : (toO info r).currX = (toO info n).currX
  · simp only [toO] at h
    constructor <;> intro _ <;> omega
  · rw [Clipper.Props.C01Order.isValidAelOrder_of_currX_ne _ _ h]
    simp only [toO] at h ⊢
    constructor
    · intro hv; have := of_decide_eq_true hv; omega
    · intro hv; have := of_decide_eq_false hv; omega

/-- **`InsertLocalMinimaIntoAEL` keeps the AEL sorted by `curr_x`**, provided the two bounds of every local minimum start at the same
`curr_x` (both are created with `curr_x = bot.x` at the vertex of the minimum) -/
theorem insertMinsH_sortedX (info : Nat → Info) : ∀ (ms : List (HEdge × HEdge)) (ael : List HEdge), SortedX ael →
    (∀ p ∈ ms, p.1.currX = p.2.currX) → SortedX (insertMinsH info ael ms) := by
  intro ms
  induction ms with
  | nil => intro ael hs _; exact hs
  | cons p ms ih =>
    intro ael hs hp
    unfold insertMinsH
    simp only [List.foldl_cons]
    refine ih _ ?_ (fun q hq => hp q (List.mem_cons_of_mem _ hq))
    exact insertBound_sortedX (validH info) (validH_weak info) ael p.1 p.2 hs (hp p (by simp))

/-! ## `DoIntersections` -/

theorem insertBefore_sorted_le (a : HEdge) : ∀ (l : List HEdge), SortedX l →
    SortedX (insertBefore (fun a b => decide (a.currX ≤ b.currX)) a l) ∧
      ∀ x ∈ insertBefore (fun a b => decide (a.currX ≤ b.currX)) a l, x = a ∨ x ∈ l := by
  intro l
  induction l with
  | nil => intro _; simp [insertBefore, SortedX]
  | cons b t ih =>
    intro hs
    unfold SortedX at hs
    obtain ⟨h1, h2⟩ := List.pairwise_cons.1 hs
    unfold insertBefore
    by_cases hab : a.currX ≤ b.currX
    · simp only [hab, decide_true, if_true]
      refine ⟨?_, by intro x hx; simpa using hx⟩
      unfold SortedX
      refine List.pairwise_cons.2 ⟨?_, hs⟩
      intro x hx
      rcases List.mem_cons.1 hx with rfl | hx
      · exact hab
      · have := h1 x hx; omega
    · simp only [hab, decide_false, Bool.false_eq_true, if_false]
      obtain ⟨i1, i2⟩ := ih h2
      refine ⟨?_, ?_⟩
      · unfold SortedX at i1 ⊢
        refine List.pairwise_cons.2 ⟨?_, i1⟩
        intro x hx
        rcases i2 x hx with rfl | hx
        · omega
        · exact h1 x hx
      · intro x hx
        rcases List.mem_cons.1 hx with rfl | hx
        · simp
        · rcases i2 x hx with h | h
          · exact Or.inl h
          · exact Or.inr (List.mem_cons_of_mem _ h)

theorem stableSort_sortedX : ∀ (l : List HEdge), SortedX (stableSort (fun a b => decide (a.currX ≤ b.currX)) l) := by
  intro l
  induction l with
  | nil => simp [stableSort, SortedX]
  | cons a t ih =>
    unfold stableSort at ih ⊢
    simp only [List.foldr_cons]
    exact (insertBefore_sorted_le a _ ih).1

/-- **`DoIntersections` leaves the AEL sorted by `curr_x`** (whatever it was before) -/
theorem doIntersectionsH_sortedX (topx : HEdge → Int → Int) (y : Int) (ael : List HEdge) : SortedX (doIntersectionsH topx y ael) := by
  unfold doIntersectionsH
  split
  · simp [SortedX]
  · simp [SortedX]
  · exact stableSort_sortedX _

/-! ## `DoTopOfScanbeam` -/

theorem splitPair_spec (v : Nat) : ∀ (l : List HEdge) (b : List HEdge) (p : HEdge) (a : List HEdge),
    splitPair v l = some (b, p, a) → l = b ++ p :: a := by
  intro l
  induction l with
  | nil => intro b p a h; simp [splitPair] at h
  | cons e rest ih =>
    intro b p a h
    unfold splitPair at h
    split at h
    · simp only [Option.some.injEq, Prod.mk.injEq] at h
      obtain ⟨rfl, rfl, rfl⟩ := h; rfl
    · cases hr : splitPair v rest with
      | none => simp [hr] at h
      | some t =>
        obtain ⟨b', p', a'⟩ := t
        simp only [hr, Option.map_some, Option.some.injEq, Prod.mk.injEq] at h
        obtain ⟨rfl, rfl, rfl⟩ := h
        simp [ih b' p' a' hr]

/-- the key by which `DoTopOfScanbeam(y)` leaves an edge standing: `top.x` if it ends on `y`, else `TopX(e, y)` -/
def topKey (topx : HEdge → Int → Int) (y : Int) (e : HEdge) : Int := if e.top.y = y then e.top.x else topx e y

theorem topGo_cons (pc : Bool) (topx : HEdge → Int → Int) (y : Int) (fuel : Nat) (done : List HEdge) (e : HEdge) (rest : List HEdge) :
    topGo pc topx y (fuel + 1) done (e :: rest) =
      if e.top.y = y then
        if e.topIsMax then
          match splitPair e.vtop rest with
          | none => topGo pc topx y fuel ({ e with currX := e.top.x } :: done) rest
          | some (between, _, after) => topGo pc topx y fuel done (between ++ after)
        else
          match updateEdge pc { e with currX := e.top.x } with
          | some e2 => topGo pc topx y fuel (e2 :: done) rest
          | none => topGo pc topx y fuel ({ e with currX := e.top.x } :: done) rest
      else topGo pc topx y fuel ({ e with currX := topx e y } :: done) rest := by
  rw [topGo]
  rfl

theorem topGo_sortedX (pc : Bool) (topx : HEdge → Int → Int) (y : Int) : ∀ (fuel : Nat) (done todo : List HEdge),
    todo.length < fuel →
    (done.reverse.map (·.currX) ++ todo.map (topKey topx y)).Pairwise (· ≤ ·) → SortedX (topGo pc topx y fuel done todo) := by
  intro fuel
  induction fuel with
  | zero => intro done todo h; omega
  | succ fuel ih =>
    intro done todo hf hs
    cases todo with
    | nil =>
      unfold topGo
      unfold SortedX
      rw [← List.pairwise_map (f := fun e : HEdge => e.currX) (R := (· ≤ ·))]
      simpa using hs
    | cons e rest =>
      rw [topGo_cons]
      simp only [List.map_cons] at hs
      by_cases hy : e.top.y = y
      · rw [if_pos hy]
        have hk : topKey topx y e = e.top.x := by simp [topKey, hy]
        by_cases hm : e.topIsMax = true
        · rw [if_pos hm]
          cases hsp : splitPair e.vtop rest with
          | none =>
            refine ih _ _ (by simp at hf; omega) ?_
            simpa [hk] using hs
          | some t =>
            obtain ⟨b, p, a⟩ := t
            have hr := splitPair_spec e.vtop rest b p a hsp
            refine ih _ _ (by rw [hr] at hf; simp at hf ⊢; omega) ?_
            rw [hr] at hs
            refine hs.sublist ?_
            simp only [List.map_append, List.map_cons]
            refine List.Sublist.append_left ?_ _
            refine List.Sublist.cons _ ?_
            exact List.Sublist.append_left (List.sublist_cons_self _ _) _
        · rw [if_neg hm]
          cases hu : updateEdge pc { e with currX := e.top.x } with
          | none =>
            refine ih _ _ (by simp at hf; omega) ?_
            simpa [hk] using hs
          | some e2 =>
            have hc : e2.currX = e.top.x := by
              cases hr : e.rest with
              | nil => simp [updateEdge, hr] at hu
              | cons nv tl =>
                obtain ⟨h2', _, _, hu', _, _, _, _, _, _, hcx, _⟩ :=
                  Clipper.Lemmas.SweepHorz.updateEdge_spec pc { e with currX := e.top.x } nv tl hr
                rw [hu] at hu'; cases hu'; exact hcx
            refine ih _ _ (by simp at hf; omega) ?_
            simpa [hk, hc] using hs
      · rw [if_neg hy]
        have hk : topKey topx y e = topx e y := by simp [topKey, hy]
        refine ih _ _ (by simp at hf; omega) ?_
        simpa [hk] using hs

/-- **`DoTopOfScanbeam(y)` keeps the AEL sorted**: if the AEL is sorted by the key `top.x` / `TopX(e, y)` (it is, after
`DoIntersections(y)`, when `TopX(e, top.y) = top.x`), the AEL it leaves is sorted by `curr_x` -/
theorem topOfBeamH_sortedX (pc : Bool) (topx : HEdge → Int → Int) (y : Int) (ael : List HEdge)
    (hs : (ael.map (topKey topx y)).Pairwise (· ≤ ·)) : SortedX (topOfBeamH pc topx y ael) := by
  unfold topOfBeamH
  exact topGo_sortedX pc topx y _ [] ael (by omega) (by simpa using hs)

/-- after `DoIntersections(y)` the AEL is sorted by that key, when `TopX(e, top.y) = top.x` -/
theorem doIntersectionsH_topKey (topx : HEdge → Int → Int) (y : Int) (ael : List HEdge) (ht : ∀ e : HEdge, topx e e.top.y = e.top.x)
    (hcx : ∀ e : HEdge, ∀ c, topx { e with currX := c } y = topx e y) :
    ((doIntersectionsH topx y ael).map (topKey topx y)).Pairwise (· ≤ ·) := by
  unfold doIntersectionsH
  split
  · simp
  · simp
  · have hs := stableSort_sortedX (ael.map (fun e => { e with currX := topx e y }))
    have hmem : ∀ x ∈ stableSort (fun a b => decide (a.currX ≤ b.currX)) (ael.map (fun e => { e with currX := topx e y })),
        topKey topx y x = x.currX := by
      intro x hx
      have hp := (Clipper.Lemmas.C01Region.stableSort_perm (le := fun a b : HEdge => decide (a.currX ≤ b.currX)) (ael.map (fun e => { e with currX := topx e y }))).mem_iff.1 hx
      obtain ⟨e, _, rfl⟩ := List.mem_map.1 hp
      unfold topKey
      by_cases hy : e.top.y = y
      · simp only [hy, if_true]
        rw [hcx, ← hy, ht]
      · simp only [hy, if_false]
        rw [hcx]
    rw [List.pairwise_map]
    unfold SortedX at hs
    exact hs.imp_of_mem (fun {a b} ha hb h => by rw [hmem a ha, hmem b hb]; exact h)

/-! ## one scanline of the replay -/

theorem sweepX_cons_cons (pc : Bool) (topx : HEdge → Int → Int) (info : Nat → Info) (mins : Int → List (HEdge × HEdge))
    (ael : List HEdge) (y0 y1 : Int) (rest : List Int) :
    sweepX pc topx info mins ael (y0 :: y1 :: rest) =
      let a1 := insertMinsH info ael (mins y0)
      let selB := selAfterInsert (mins y0)
      let a4 := topOfBeamH pc topx y1 (doIntersectionsH topx y1 (horzPhase pc topx a1 selB).ael)
      (StageX.ins y0 a1 :: phaseStages pc topx a1 selB) ++
        StageX.isect y1 (doIntersectionsH topx y1 (horzPhase pc topx a1 selB).ael) :: StageX.top y1 a4 ::
          phaseStages pc topx a4 (selAfterTop a4) ++
            sweepX pc topx info mins (horzPhase pc topx a4 (selAfterTop a4)).ael (y1 :: rest) := by
  rw [sweepX]

end Clipper.Lemmas.SweepHorzReplay
