/- Geometric completeness of `GetIntersection` for a segment that leaves the rectangle from a point strictly inside it,
for sign-exact arithmetic (used by `Props.C08.entering_crossing_found_exact`). Core Lean only. -/
import ClipperVerif.Lemmas.RectClipAuto
namespace Clipper.Lemmas.RCE
open Clipper Clipper.Model.RC Clipper.Lemmas.RC Clipper.Lemmas.RCA

/-- the arithmetic reports the exact sign of every cross product (zero and positive are what the code inspects) -/
def SignExact (A : Arith) : Prop :=
  ∀ a b c : Pt, (A.cross a b c = 0 ↔ crossZ a b c = 0) ∧ (A.cross a b c > 0 ↔ crossZ a b c > 0)

/-- `GetSegmentIntersectPt` always delivers a point -/
def IsectTotal (A : Arith) : Prop := ∀ a b c d : Pt, (A.isect a b c d).isSome = true

theorem K1 {a u e v : Int} (ha : 0 < a) (hu : a < u) (he : 0 < e) (h : e * u ≤ a * v) : e < v := by
  have h1 : e * a < e * u := Int.mul_lt_mul_of_pos_left hu he
  have h2 : a * e < a * v := by rw [Int.mul_comm a e]; omega
  exact Int.lt_of_mul_lt_mul_left h2 (Int.le_of_lt ha)

theorem ml {a x y : Int} (ha : 0 < a) (h : x < y) : a * x < a * y := Int.mul_lt_mul_of_pos_left h ha

/-- `p2` lies on the line of `p3 p4` and within its span (or is an end point) -/
theorem seg_true_touch {A : Arith} (hA : SignExact A) (p1 p2 p3 p4 ip : Pt) (h1 : crossZ p1 p3 p4 ≠ 0)
    (h2 : crossZ p2 p3 p4 = 0) (h : p2 = p3 ∨ p2 = p4 ∨ onSpan p2 p3 p4 = true) :
    (segIntersection A p1 p2 p3 p4 ip).1 = true := by
  unfold segIntersection
  simp only
  rw [if_neg (fun hc => h1 ((hA p1 p3 p4).1.mp hc)), if_pos ((hA p2 p3 p4).1.mpr h2)]
  rcases h with h | h | h
  · rw [if_pos (Or.inl h)]
  · rw [if_pos (Or.inr h)]
  · split
    · rfl
    · exact h

/-- proper crossing: the end points of each segment lie on different sides of (or on) the other one -/
theorem seg_true_cross {A : Arith} (hA : SignExact A) (ht : IsectTotal A) (p1 p2 p3 p4 ip : Pt)
    (h1 : crossZ p1 p3 p4 ≠ 0) (h2 : crossZ p2 p3 p4 ≠ 0) (h12 : crossZ p1 p3 p4 > 0 ↔ ¬ crossZ p2 p3 p4 > 0)
    (h : (crossZ p3 p1 p2 = 0 ∧ (p3 = p1 ∨ p3 = p2 ∨ onSpan p3 p1 p2 = true)) ∨
         (crossZ p3 p1 p2 ≠ 0 ∧ crossZ p4 p1 p2 = 0 ∧ (p4 = p1 ∨ p4 = p2 ∨ onSpan p4 p1 p2 = true)) ∨
         (crossZ p3 p1 p2 ≠ 0 ∧ crossZ p4 p1 p2 ≠ 0 ∧ (crossZ p3 p1 p2 > 0 ↔ ¬ crossZ p4 p1 p2 > 0))) :
    (segIntersection A p1 p2 p3 p4 ip).1 = true := by
  unfold segIntersection
  simp only
  rw [if_neg (fun hc => h1 ((hA p1 p3 p4).1.mp hc)), if_neg (fun hc => h2 ((hA p2 p3 p4).1.mp hc))]
  have hne : ¬ (decide (A.cross p1 p3 p4 > 0) = decide (A.cross p2 p3 p4 > 0)) := by
    rw [decide_eq_decide, (hA p1 p3 p4).2, (hA p2 p3 p4).2]
    intro hc; rw [hc] at h12; exact (iff_not_self h12)
  rw [if_neg hne]
  rcases h with ⟨h3, h⟩ | ⟨h3, h4, h⟩ | ⟨h3, h4, h34⟩
  · rw [if_pos ((hA p3 p1 p2).1.mpr h3)]
    rcases h with h | h | h
    · rw [if_pos (Or.inl h)]
    · rw [if_pos (Or.inr h)]
    · split
      · rfl
      · exact h
  · rw [if_neg (fun hc => h3 ((hA p3 p1 p2).1.mp hc)), if_pos ((hA p4 p1 p2).1.mpr h4)]
    rcases h with h | h | h
    · rw [if_pos (Or.inl h)]
    · rw [if_pos (Or.inr h)]
    · split
      · rfl
      · exact h
  · rw [if_neg (fun hc => h3 ((hA p3 p1 p2).1.mp hc)), if_neg (fun hc => h4 ((hA p4 p1 p2).1.mp hc))]
    have hne2 : ¬ (decide (A.cross p3 p1 p2 > 0) = decide (A.cross p4 p1 p2 > 0)) := by
      rw [decide_eq_decide, (hA p3 p1 p2).2, (hA p4 p1 p2).2]
      intro hc; rw [hc] at h34; exact (iff_not_self h34)
    rw [if_neg hne2]
    have := ht p1 p2 p3 p4
    cases hq : A.isect p1 p2 p3 p4 with
    | none => rw [hq] at this; simp at this
    | some q => rfl

/-- **The combinatorial core** over the integers.  `a b c e` are the distances of the inside point to the left, right,
top, bottom side; `(dx, dy)` the vector to the other end point, which is not strictly inside.  Then the exit
conditions of one of the four sides hold. -/
theorem exit_side (a b c e dx dy : Int) (ha : 0 < a) (hb : 0 < b) (hc : 0 < c) (he : 0 < e)
    (hout : ¬ (-a < dx ∧ dx < b ∧ -c < dy ∧ dy < e)) :
    ((dx < -a ∧ a * dy + e * dx ≤ 0 ∧ 0 ≤ a * dy - c * dx) ∨ (dx = -a ∧ -c ≤ dy ∧ dy ≤ e)) ∨
    ((dy < -c ∧ a * dy - c * dx ≤ 0 ∧ 0 ≤ -(b * dy) - c * dx) ∨ (dy = -c ∧ -a ≤ dx ∧ dx ≤ b)) ∨
    ((dx > b ∧ -(b * dy) - c * dx ≤ 0 ∧ 0 ≤ -(b * dy) + e * dx) ∨ (dx = b ∧ -c ≤ dy ∧ dy ≤ e)) ∨
    ((dy > e ∧ -(b * dy) + e * dx ≤ 0 ∧ 0 ≤ a * dy + e * dx) ∨ (dy = e ∧ -a ≤ dx ∧ dx ≤ b)) := by
  rcases Int.lt_trichotomy dx (-a) with hA | hA | hA
  · -- left of the left side
    by_cases h1 : 0 < a * dy + e * dx
    · have hdy : e < dy := K1 ha (by omega : a < -dx) he (by grind)
      have f1 : 0 < b * dy := Int.mul_pos hb (by omega)
      have f2 : e * dx < e * 0 := ml he (by omega)
      right; right; right; left
      exact ⟨hdy, by grind, by omega⟩
    · by_cases h2 : a * dy - c * dx < 0
      · have hdy : c < -dy := K1 ha (by omega : a < -dx) hc (by grind)
        have f1 : b * dy < b * 0 := ml hb (by omega)
        have f2 : c * dx < c * 0 := ml hc (by omega)
        right; left; left
        exact ⟨by omega, by omega, by grind⟩
      · left; left
        exact ⟨hA, by omega, by omega⟩
  · -- on the line of the left side
    by_cases h1 : dy < -c
    · have f1 : a * dy < a * (-c) := ml ha h1
      have f2 : b * dy < b * 0 := ml hb (by omega)
      have f3 : 0 < a * c := Int.mul_pos ha hc
      right; left; left
      subst hA
      exact ⟨h1, by grind, by grind⟩
    · by_cases h2 : e < dy
      · have f1 : a * e < a * dy := ml ha h2
        have f2 : 0 < b * dy := Int.mul_pos hb (by omega)
        have f3 : 0 < a * e := Int.mul_pos ha he
        right; right; right; left
        subst hA
        exact ⟨h2, by grind, by grind⟩
      · left; right
        exact ⟨hA, by omega, by omega⟩
  · rcases Int.lt_trichotomy dx b with hB | hB | hB
    · -- between the vertical sides: leaves through top or bottom
      have hdy : dy ≤ -c ∨ e ≤ dy := by omega
      rcases hdy with hdy | hdy
      · rcases Int.lt_or_eq_of_le hdy with hdy | hdy
        · have f1 : a * dy < a * (-c) := ml ha hdy
          have f2 : c * (-a) < c * dx := ml hc hA
          have f3 : b * dy < b * (-c) := ml hb hdy
          have f4 : c * dx < c * b := ml hc hB
          right; left; left
          exact ⟨hdy, by grind, by grind⟩
        · right; left; right
          exact ⟨hdy, by omega, by omega⟩
      · rcases Int.lt_or_eq_of_le hdy with hdy | hdy
        · have f1 : a * e < a * dy := ml ha hdy
          have f2 : e * (-a) < e * dx := ml he hA
          have f3 : b * e < b * dy := ml hb hdy
          have f4 : e * dx < e * b := ml he hB
          right; right; right; left
          exact ⟨hdy, by grind, by grind⟩
        · right; right; right; right
          exact ⟨hdy.symm, by omega, by omega⟩
    · -- on the line of the right side
      by_cases h1 : dy < -c
      · have f1 : a * dy < a * 0 := ml ha (by omega)
        have f2 : b * dy < b * (-c) := ml hb h1
        have f3 : 0 < c * b := Int.mul_pos hc hb
        right; left; left
        subst hB
        exact ⟨h1, by grind, by grind⟩
      · by_cases h2 : e < dy
        · have f1 : b * e < b * dy := ml hb h2
          have f2 : 0 < a * dy := Int.mul_pos ha (by omega)
          have f3 : 0 < e * b := Int.mul_pos he hb
          right; right; right; left
          subst hB
          exact ⟨h2, by grind, by grind⟩
        · right; right; left; right
          exact ⟨hB, by omega, by omega⟩
    · -- right of the right side
      by_cases h1 : -(b * dy) + e * dx < 0
      · have hdy : e < dy := K1 hb hB he (by omega)
        have f1 : 0 < a * dy := Int.mul_pos ha (by omega)
        have f2 : 0 < e * dx := Int.mul_pos he (by omega)
        right; right; right; left
        exact ⟨hdy, by omega, by omega⟩
      · by_cases h2 : 0 < -(b * dy) - c * dx
        · have hdy : c < -dy := K1 hb hB hc (by grind)
          have f1 : a * dy < a * 0 := ml ha (by omega)
          have f2 : 0 < c * dx := Int.mul_pos hc (by omega)
          right; left; left
          exact ⟨by omega, by grind, by omega⟩
        · right; right; left; left
          exact ⟨hB, by omega, by omega⟩


theorem seg_true_cross' {A : Arith} (hA : SignExact A) (ht : IsectTotal A) (p1 p2 p3 p4 ip : Pt)
    (h1 : crossZ p1 p3 p4 ≠ 0) (h2 : crossZ p2 p3 p4 ≠ 0) (h12 : crossZ p1 p3 p4 > 0 ↔ ¬ crossZ p2 p3 p4 > 0)
    (hs : (0 ≤ crossZ p3 p1 p2 ∧ crossZ p4 p1 p2 ≤ 0) ∨ (crossZ p3 p1 p2 ≤ 0 ∧ 0 ≤ crossZ p4 p1 p2))
    (h3 : crossZ p3 p1 p2 = 0 → onSpan p3 p1 p2 = true) (h4 : crossZ p4 p1 p2 = 0 → onSpan p4 p1 p2 = true) :
    (segIntersection A p1 p2 p3 p4 ip).1 = true := by
  apply seg_true_cross hA ht p1 p2 p3 p4 ip h1 h2 h12
  by_cases e3 : crossZ p3 p1 p2 = 0
  · exact Or.inl ⟨e3, Or.inr (Or.inr (h3 e3))⟩
  · by_cases e4 : crossZ p4 p1 p2 = 0
    · exact Or.inr (Or.inl ⟨e3, e4, Or.inr (Or.inr (h4 e4))⟩)
    · refine Or.inr (Or.inr ⟨e3, e4, ?_⟩)
      omega

theorem onSpan_y {q a b : Pt} (h : a.y ≠ b.y) : onSpan q a b = between q.y a.y b.y := by
  unfold onSpan; rw [if_neg h]

theorem onSpan_x {q a b : Pt} (h : a.y = b.y) : onSpan q a b = between q.x a.x b.x := by
  unfold onSpan; rw [if_pos h]

theorem between_true {q lo hi : Int} (h : (lo < q ∧ q < hi) ∨ (q ≤ lo ∧ hi ≤ q)) : between q lo hi = true := by
  unfold between
  rcases h with ⟨h1, h2⟩ | ⟨h1, h2⟩
  · simp [h1, h2]
  · have e1 : ¬ q > lo := by omega
    have e2 : ¬ q < hi := by omega
    simp [e1, e2]

/-- the hypotheses shared by the four side lemmas: non-empty rectangle, `cur` strictly inside -/
structure Inside (r : Rect) (cur : Pt) : Prop where
  w : r.left < r.right
  h : r.top < r.bottom
  xl : r.left < cur.x
  xr : cur.x < r.right
  yt : r.top < cur.y
  yb : cur.y < r.bottom

theorem left_succ {A : Arith} (hA : SignExact A) (ht : IsectTotal A) {r : Rect} {cur prv : Pt} (ip : Pt)
    (hi : Inside r cur)
    (h : (prv.x - cur.x < -(cur.x - r.left) ∧
          (cur.x - r.left) * (prv.y - cur.y) + (r.bottom - cur.y) * (prv.x - cur.x) ≤ 0 ∧
          0 ≤ (cur.x - r.left) * (prv.y - cur.y) - (cur.y - r.top) * (prv.x - cur.x)) ∨
         (prv.x - cur.x = -(cur.x - r.left) ∧ -(cur.y - r.top) ≤ prv.y - cur.y ∧ prv.y - cur.y ≤ r.bottom - cur.y)) :
    (segIntersection A cur prv r.c0 r.c3 ip).1 = true := by
  obtain ⟨hw, hh, hl, hr, htp, hb⟩ := hi
  have e1 : crossZ cur r.c0 r.c3 = -((cur.x - r.left) * (r.bottom - r.top)) := by
    simp only [crossZ, Rect.c0, Rect.c3]; grind
  have e2 : crossZ prv r.c0 r.c3 = (r.left - prv.x) * (r.bottom - r.top) := by
    simp only [crossZ, Rect.c0, Rect.c3]; grind
  have e3 : crossZ r.c0 cur prv = (cur.x - r.left) * (prv.y - cur.y) - (cur.y - r.top) * (prv.x - cur.x) := by
    simp only [crossZ, Rect.c0]
  have e4 : crossZ r.c3 cur prv = (cur.x - r.left) * (prv.y - cur.y) + (r.bottom - cur.y) * (prv.x - cur.x) := by
    simp only [crossZ, Rect.c3]; grind
  have f1 : 0 < (cur.x - r.left) * (r.bottom - r.top) := Int.mul_pos (by omega) (by omega)
  rcases h with ⟨hx, h4, h3⟩ | ⟨hx, hy1, hy2⟩
  · have f2 : 0 < (r.left - prv.x) * (r.bottom - r.top) := Int.mul_pos (by omega) (by omega)
    apply seg_true_cross' hA ht cur prv r.c0 r.c3 ip (by omega) (by omega) (by omega)
    · left; rw [e3, e4]; exact ⟨h3, h4⟩
    · intro z
      rw [e3] at z
      have : cur.y - r.top < -(prv.y - cur.y) :=
        K1 (a := cur.x - r.left) (u := -(prv.x - cur.x)) (by omega) (by omega) (by omega) (by grind)
      rw [onSpan_y (by omega)]
      exact between_true (Or.inr ⟨by simp only [Rect.c0]; omega, by simp only [Rect.c0]; omega⟩)
    · intro z
      rw [e4] at z
      have : r.bottom - cur.y < prv.y - cur.y :=
        K1 (a := cur.x - r.left) (u := -(prv.x - cur.x)) (by omega) (by omega) (by omega) (by grind)
      rw [onSpan_y (by omega)]
      exact between_true (Or.inl ⟨by simp only [Rect.c3]; omega, by simp only [Rect.c3]; omega⟩)
  · have z2 : crossZ prv r.c0 r.c3 = 0 := by
      rw [e2]; have : r.left - prv.x = 0 := by omega
      rw [this]; simp
    apply seg_true_touch hA cur prv r.c0 r.c3 ip (by omega) z2
    by_cases t1 : prv.y = r.top
    · left; cases prv; simp only [Rect.c0, Pt.mk.injEq] at *; omega
    · by_cases t2 : prv.y = r.bottom
      · right; left; cases prv; simp only [Rect.c3, Pt.mk.injEq] at *; omega
      · right; right
        rw [onSpan_y (by simp only [Rect.c0, Rect.c3]; omega)]
        exact between_true (Or.inl ⟨by simp only [Rect.c0]; omega, by simp only [Rect.c3]; omega⟩)


theorem top_succ {A : Arith} (hA : SignExact A) (ht : IsectTotal A) {r : Rect} {cur prv : Pt} (ip : Pt)
    (hi : Inside r cur)
    (h : (prv.y - cur.y < -(cur.y - r.top) ∧
          (cur.x - r.left) * (prv.y - cur.y) - (cur.y - r.top) * (prv.x - cur.x) ≤ 0 ∧
          0 ≤ -((r.right - cur.x) * (prv.y - cur.y)) - (cur.y - r.top) * (prv.x - cur.x)) ∨
         (prv.y - cur.y = -(cur.y - r.top) ∧ -(cur.x - r.left) ≤ prv.x - cur.x ∧ prv.x - cur.x ≤ r.right - cur.x)) :
    (segIntersection A cur prv r.c0 r.c1 ip).1 = true := by
  obtain ⟨hw, hh, hl, hr, htp, hb⟩ := hi
  have e1 : crossZ cur r.c0 r.c1 = (cur.y - r.top) * (r.right - r.left) := by
    simp only [crossZ, Rect.c0, Rect.c1]; grind
  have e2 : crossZ prv r.c0 r.c1 = -((r.top - prv.y) * (r.right - r.left)) := by
    simp only [crossZ, Rect.c0, Rect.c1]; grind
  have e3 : crossZ r.c0 cur prv = (cur.x - r.left) * (prv.y - cur.y) - (cur.y - r.top) * (prv.x - cur.x) := by
    simp only [crossZ, Rect.c0]
  have e4 : crossZ r.c1 cur prv = -((r.right - cur.x) * (prv.y - cur.y)) - (cur.y - r.top) * (prv.x - cur.x) := by
    simp only [crossZ, Rect.c1]; grind
  have f1 : 0 < (cur.y - r.top) * (r.right - r.left) := Int.mul_pos (by omega) (by omega)
  rcases h with ⟨hy, h3, h4⟩ | ⟨hy, hx1, hx2⟩
  · have f2 : 0 < (r.top - prv.y) * (r.right - r.left) := Int.mul_pos (by omega) (by omega)
    apply seg_true_cross' hA ht cur prv r.c0 r.c1 ip (by omega) (by omega) (by omega)
    · right; rw [e3, e4]; exact ⟨h3, h4⟩
    · intro _
      rw [onSpan_y (by omega)]
      exact between_true (Or.inr ⟨by simp only [Rect.c0]; omega, by simp only [Rect.c0]; omega⟩)
    · intro _
      rw [onSpan_y (by omega)]
      exact between_true (Or.inr ⟨by simp only [Rect.c1]; omega, by simp only [Rect.c1]; omega⟩)
  · have z2 : crossZ prv r.c0 r.c1 = 0 := by
      rw [e2]; have : r.top - prv.y = 0 := by omega
      rw [this]; simp
    apply seg_true_touch hA cur prv r.c0 r.c1 ip (by omega) z2
    by_cases t1 : prv.x = r.left
    · left; cases prv; simp only [Rect.c0, Pt.mk.injEq] at *; omega
    · by_cases t2 : prv.x = r.right
      · right; left; cases prv; simp only [Rect.c1, Pt.mk.injEq] at *; omega
      · right; right
        rw [onSpan_x (by simp only [Rect.c0, Rect.c1])]
        exact between_true (Or.inl ⟨by simp only [Rect.c0]; omega, by simp only [Rect.c1]; omega⟩)

theorem right_succ {A : Arith} (hA : SignExact A) (ht : IsectTotal A) {r : Rect} {cur prv : Pt} (ip : Pt)
    (hi : Inside r cur)
    (h : (prv.x - cur.x > r.right - cur.x ∧
          -((r.right - cur.x) * (prv.y - cur.y)) - (cur.y - r.top) * (prv.x - cur.x) ≤ 0 ∧
          0 ≤ -((r.right - cur.x) * (prv.y - cur.y)) + (r.bottom - cur.y) * (prv.x - cur.x)) ∨
         (prv.x - cur.x = r.right - cur.x ∧ -(cur.y - r.top) ≤ prv.y - cur.y ∧ prv.y - cur.y ≤ r.bottom - cur.y)) :
    (segIntersection A cur prv r.c1 r.c2 ip).1 = true := by
  obtain ⟨hw, hh, hl, hr, htp, hb⟩ := hi
  have e1 : crossZ cur r.c1 r.c2 = (r.right - cur.x) * (r.bottom - r.top) := by
    simp only [crossZ, Rect.c1, Rect.c2]; grind
  have e2 : crossZ prv r.c1 r.c2 = -((prv.x - r.right) * (r.bottom - r.top)) := by
    simp only [crossZ, Rect.c1, Rect.c2]; grind
  have e3 : crossZ r.c1 cur prv = -((r.right - cur.x) * (prv.y - cur.y)) - (cur.y - r.top) * (prv.x - cur.x) := by
    simp only [crossZ, Rect.c1]; grind
  have e4 : crossZ r.c2 cur prv = -((r.right - cur.x) * (prv.y - cur.y)) + (r.bottom - cur.y) * (prv.x - cur.x) := by
    simp only [crossZ, Rect.c2]; grind
  have f1 : 0 < (r.right - cur.x) * (r.bottom - r.top) := Int.mul_pos (by omega) (by omega)
  rcases h with ⟨hx, h3, h4⟩ | ⟨hx, hy1, hy2⟩
  · have f2 : 0 < (prv.x - r.right) * (r.bottom - r.top) := Int.mul_pos (by omega) (by omega)
    apply seg_true_cross' hA ht cur prv r.c1 r.c2 ip (by omega) (by omega) (by omega)
    · right; rw [e3, e4]; exact ⟨h3, h4⟩
    · intro z
      rw [e3] at z
      have : cur.y - r.top < -(prv.y - cur.y) :=
        K1 (a := r.right - cur.x) (u := prv.x - cur.x) (by omega) (by omega) (by omega) (by grind)
      rw [onSpan_y (by omega)]
      exact between_true (Or.inr ⟨by simp only [Rect.c1]; omega, by simp only [Rect.c1]; omega⟩)
    · intro z
      rw [e4] at z
      have : r.bottom - cur.y < prv.y - cur.y :=
        K1 (a := r.right - cur.x) (u := prv.x - cur.x) (by omega) (by omega) (by omega) (by grind)
      rw [onSpan_y (by omega)]
      exact between_true (Or.inl ⟨by simp only [Rect.c2]; omega, by simp only [Rect.c2]; omega⟩)
  · have z2 : crossZ prv r.c1 r.c2 = 0 := by
      rw [e2]; have : prv.x - r.right = 0 := by omega
      rw [this]; simp
    apply seg_true_touch hA cur prv r.c1 r.c2 ip (by omega) z2
    by_cases t1 : prv.y = r.top
    · left; cases prv; simp only [Rect.c1, Pt.mk.injEq] at *; omega
    · by_cases t2 : prv.y = r.bottom
      · right; left; cases prv; simp only [Rect.c2, Pt.mk.injEq] at *; omega
      · right; right
        rw [onSpan_y (by simp only [Rect.c1, Rect.c2]; omega)]
        exact between_true (Or.inl ⟨by simp only [Rect.c1]; omega, by simp only [Rect.c2]; omega⟩)

theorem bottom_succ {A : Arith} (hA : SignExact A) (ht : IsectTotal A) {r : Rect} {cur prv : Pt} (ip : Pt)
    (hi : Inside r cur)
    (h : (prv.y - cur.y > r.bottom - cur.y ∧
          -((r.right - cur.x) * (prv.y - cur.y)) + (r.bottom - cur.y) * (prv.x - cur.x) ≤ 0 ∧
          0 ≤ (cur.x - r.left) * (prv.y - cur.y) + (r.bottom - cur.y) * (prv.x - cur.x)) ∨
         (prv.y - cur.y = r.bottom - cur.y ∧ -(cur.x - r.left) ≤ prv.x - cur.x ∧ prv.x - cur.x ≤ r.right - cur.x)) :
    (segIntersection A cur prv r.c2 r.c3 ip).1 = true := by
  obtain ⟨hw, hh, hl, hr, htp, hb⟩ := hi
  have e1 : crossZ cur r.c2 r.c3 = (r.bottom - cur.y) * (r.right - r.left) := by
    simp only [crossZ, Rect.c2, Rect.c3]; grind
  have e2 : crossZ prv r.c2 r.c3 = -((prv.y - r.bottom) * (r.right - r.left)) := by
    simp only [crossZ, Rect.c2, Rect.c3]; grind
  have e3 : crossZ r.c2 cur prv = -((r.right - cur.x) * (prv.y - cur.y)) + (r.bottom - cur.y) * (prv.x - cur.x) := by
    simp only [crossZ, Rect.c2]; grind
  have e4 : crossZ r.c3 cur prv = (cur.x - r.left) * (prv.y - cur.y) + (r.bottom - cur.y) * (prv.x - cur.x) := by
    simp only [crossZ, Rect.c3]; grind
  have f1 : 0 < (r.bottom - cur.y) * (r.right - r.left) := Int.mul_pos (by omega) (by omega)
  rcases h with ⟨hy, h3, h4⟩ | ⟨hy, hx1, hx2⟩
  · have f2 : 0 < (prv.y - r.bottom) * (r.right - r.left) := Int.mul_pos (by omega) (by omega)
    apply seg_true_cross' hA ht cur prv r.c2 r.c3 ip (by omega) (by omega) (by omega)
    · right; rw [e3, e4]; exact ⟨h3, h4⟩
    · intro _
      rw [onSpan_y (by omega)]
      exact between_true (Or.inl ⟨by simp only [Rect.c2]; omega, by simp only [Rect.c2]; omega⟩)
    · intro _
      rw [onSpan_y (by omega)]
      exact between_true (Or.inl ⟨by simp only [Rect.c3]; omega, by simp only [Rect.c3]; omega⟩)
  · have z2 : crossZ prv r.c2 r.c3 = 0 := by
      rw [e2]; have : prv.y - r.bottom = 0 := by omega
      rw [this]; simp
    apply seg_true_touch hA cur prv r.c2 r.c3 ip (by omega) z2
    right; right
    rw [onSpan_x (by simp only [Rect.c2, Rect.c3])]
    exact between_true (Or.inr ⟨by simp only [Rect.c2]; omega, by simp only [Rect.c3]; omega⟩)

/-- a guard-free arm whose `GetSegmentIntersection` succeeds makes the whole `if … else if …` chain succeed -/
theorem tryArms_true {A : Arith} (p p2 : Pt) (l : List Arm) (arm : Arm) (hm : arm ∈ l)
    (hall : ∀ a ∈ l, a.guard = true)
    (h : ∀ ip, (segIntersection A p p2 arm.a arm.b ip).1 = true) (loc : Location) (ip : Pt) :
    (tryArms A p p2 l loc ip).1 = true := by
  induction l generalizing ip with
  | nil => simp at hm
  | cons a rest ih =>
    unfold tryArms
    rw [if_pos (hall a (by simp))]
    simp only
    split
    · rfl
    · rename_i hs
      rcases List.mem_cons.mp hm with rfl | hm'
      · exact absurd (h ip) hs
      · exact ih hm' (fun b hb => hall b (by simp [hb])) _

/-- **Geometric completeness of `GetIntersection` from inside.**  For a sign-exact arithmetic, a non-empty rectangle,
a point `cur` strictly inside it and a point `prv` that is not strictly inside, `GetIntersection(cur, prv, Inside)`
finds a crossing. -/
theorem getIntersection_from_inside {A : Arith} (hA : SignExact A) (ht : IsectTotal A) {r : Rect} {cur prv : Pt}
    (hi : Inside r cur)
    (hout : ¬ (r.left < prv.x ∧ prv.x < r.right ∧ r.top < prv.y ∧ prv.y < r.bottom)) (ip : Pt) :
    (getIntersection A r cur prv .inside ip).1 = true := by
  have hcore := exit_side (cur.x - r.left) (r.right - cur.x) (cur.y - r.top) (r.bottom - cur.y)
    (prv.x - cur.x) (prv.y - cur.y) (by have := hi.xl; omega) (by have := hi.xr; omega) (by have := hi.yt; omega)
    (by have := hi.yb; omega) (by omega)
  have hall : ∀ a ∈ arms r cur .inside, a.guard = true := by simp [arms]
  unfold getIntersection
  rcases hcore with h | h | h | h
  · exact tryArms_true cur prv _ ⟨true, r.c0, r.c3, .left⟩ (by simp [arms]) hall
      (fun ip => left_succ hA ht ip hi h) _ _
  · exact tryArms_true cur prv _ ⟨true, r.c0, r.c1, .top⟩ (by simp [arms]) hall
      (fun ip => top_succ hA ht ip hi h) _ _
  · exact tryArms_true cur prv _ ⟨true, r.c1, r.c2, .right⟩ (by simp [arms]) hall
      (fun ip => right_succ hA ht ip hi h) _ _
  · exact tryArms_true cur prv _ ⟨true, r.c2, r.c3, .bottom⟩ (by simp [arms]) hall
      (fun ip => bottom_succ hA ht ip hi h) _ _


/-! ### with exact signs no entering crossing is missed along a run -/

theorem takeWhile_getElem_cond (c : Pt → Bool) (l : List Pt) (k : Nat) (q : Pt)
    (hk : k < (l.takeWhile c).length) (hq : l[k]? = some q) : c q = true := by
  induction l generalizing k with
  | nil => simp at hq
  | cons a l ih =>
    rw [List.takeWhile_cons] at hk
    split at hk
    · rename_i ha
      cases k with
      | zero => simp at hq; subst hq; exact ha
      | succ k => exact ih k (by simpa using hk) (by simpa using hq)
    · simp at hk

theorem skipWhile_prev (c : Pt → Bool) (path : Path) (i : Nat) (q : Pt) (h : i < skipWhile c path i)
    (hq : path[skipWhile c path i - 1]? = some q) : c q = true := by
  unfold skipWhile at h hq
  generalize hlen : ((path.drop i).takeWhile c).length = len at h hq
  apply takeWhile_getElem_cond c (path.drop i) (len - 1) q (by omega)
  rw [List.getElem?_drop]
  have : i + (len - 1) = i + len - 1 := by omega
  rw [this]; exact hq

/-- not strictly inside the rectangle -/
def NSI (r : Rect) (q : Pt) : Prop := ¬ (r.left < q.x ∧ q.x < r.right ∧ r.top < q.y ∧ q.y < r.bottom)

theorem ready_nsi {r : Rect} {l : Location} {q : Pt} (h : Ready r l q) (hl : l ≠ .inside) : NSI r q := by
  unfold NSI
  cases l <;> simp only [Ready] at h <;> first | omega | exact absurd rfl hl

/-- the vertex before the one `GetNextLocation` stops at was skipped (if the scan moved at all) -/
theorem gnl_prev_ready (r : Rect) (path : Path) (loc : Location) (i : Nat) (q : Pt) (h : loc ≠ .inside)
    (hlt : i < (getNextLocation r path loc i).2.1)
    (hq : path[(getNextLocation r path loc i).2.1 - 1]? = some q) : Ready r loc q := by
  cases loc
  case inside => exact absurd rfl h
  case left =>
    have hj : (getNextLocation r path .left i).2.1 = skipWhile (fun p => decide (p.x ≤ r.left)) path i := by
      simp only [getNextLocation]; split <;> rfl
    rw [hj] at hq hlt
    simpa [Ready] using skipWhile_prev _ path i q hlt hq
  case top =>
    have hj : (getNextLocation r path .top i).2.1 = skipWhile (fun p => decide (p.y ≤ r.top)) path i := by
      simp only [getNextLocation]; split <;> rfl
    rw [hj] at hq hlt
    simpa [Ready] using skipWhile_prev _ path i q hlt hq
  case right =>
    have hj : (getNextLocation r path .right i).2.1 = skipWhile (fun p => decide (p.x ≥ r.right)) path i := by
      simp only [getNextLocation]; split <;> rfl
    rw [hj] at hq hlt
    simpa [Ready] using skipWhile_prev _ path i q hlt hq
  case bottom =>
    have hj : (getNextLocation r path .bottom i).2.1 = skipWhile (fun p => decide (p.y ≥ r.bottom)) path i := by
      simp only [getNextLocation]; split <;> rfl
    rw [hj] at hq hlt
    simpa [Ready] using skipWhile_prev _ path i q hlt hq

/-- where one iteration leaves `i` and `loc` -/
theorem astep_next_shape {A : Arith} {r : Rect} {path : Path} {c c' : Ctl} {es : List AEmit} {sl : List Location}
    (h : astep A r path c = .next es sl c') :
    ∃ cur prv, path[(getNextLocation r path c.loc c.i).2.1]? = some cur ∧
      prevPt path (getNextLocation r path c.loc c.i).2.1 = some prv ∧
      (((getIntersection A r cur prv (getNextLocation r path c.loc c.i).1 ⟨0, 0⟩).1 = false ∧
          c'.i = (getNextLocation r path c.loc c.i).2.1 + 1 ∧ c'.loc = (getNextLocation r path c.loc c.i).1) ∨
       ((getIntersection A r cur prv (getNextLocation r path c.loc c.i).1 ⟨0, 0⟩).1 = true ∧
          c'.i = (getNextLocation r path c.loc c.i).2.1 ∧
          ((getNextLocation r path c.loc c.i).1 = .inside ∧ c'.loc = .inside ∨
           (getNextLocation r path c.loc c.i).1 ≠ .inside))) := by
  unfold astep at h
  simp only at h
  split at h
  · rename_i hj
    obtain ⟨prv, hprv, _⟩ := prevPt_isSome path _ hj
    refine ⟨_, prv, List.getElem?_eq_getElem hj, hprv, ?_⟩
    rw [List.getElem?_eq_getElem hj, hprv] at h
    simp only at h
    split at h
    · rename_i hx
      left
      refine ⟨by simpa using hx, ?_⟩
      unfold stepOutside at h
      simp only at h
      repeat' split at h
      all_goals first | (cases h; exact ⟨rfl, rfl⟩) | cases h
    · rename_i hx
      right
      refine ⟨by simpa using hx, ?_⟩
      split at h
      · rename_i hli
        unfold stepEnter at h
        simp only at h
        repeat' split at h
        all_goals first | (cases h; exact ⟨rfl, Or.inl ⟨hli, rfl⟩⟩) | cases h
      · rename_i hli
        split at h
        · unfold stepThrough at h
          simp only at h
          repeat' split at h
          all_goals first | (cases h; exact ⟨rfl, Or.inr hli⟩) | cases h
        · unfold stepExit at h
          cases h
          exact ⟨rfl, Or.inr hli⟩
  · cases h


/-- invariant of the main loop: while the automaton is outside, the vertex before `path[i]` is not strictly inside the
rectangle — or `path[i]` itself is strictly outside (the state right after an exiting crossing) -/
def Inv (r : Rect) (path : Path) (c : Ctl) : Prop :=
  c.loc ≠ .inside →
    (∀ prv, prevPt path c.i = some prv → NSI r prv) ∨ (∀ q, path[c.i]? = some q → outsideLoc r q ≠ none)

theorem prevPt_succ (path : Path) (j : Nat) : prevPt path (j + 1) = path[j]? := by
  unfold prevPt; simp

theorem prevPt_pos (path : Path) (j : Nat) (h : 0 < j) : prevPt path j = path[j - 1]? := by
  unfold prevPt; rw [if_neg (by omega)]

theorem inv_step {A : Arith} {r : Rect} {path : Path} {c c' : Ctl} {es : List AEmit} {sl : List Location}
    (hinv : Inv r path c) (h : astep A r path c = .next es sl c') : Inv r path c' := by
  obtain ⟨cur, prv, hcur, hprv, hsh⟩ := astep_next_shape h
  have g := gnl_spec r path c.loc c.i
  intro hl'
  rcases hsh with ⟨_, hi', hloc'⟩ | ⟨_, hi', hsub⟩
  · left
    intro q hq
    rw [hi', prevPt_succ, hcur] at hq
    cases hq
    exact ready_nsi (g.ready _ hcur) (by rw [← hloc']; exact hl')
  · rcases hsub with ⟨_, hli⟩ | hlo
    · exact absurd hli hl'
    · by_cases hc : c.loc = .inside
      · right
        intro q hq
        rw [hi', hcur] at hq
        cases hq
        have h1 : path[(getNextLocation r path .inside c.i).2.1]? = some cur := by rw [← hc]; exact hcur
        rw [(gnl_from_inside r path c.i cur h1).2]
        simp
      · by_cases hlt : c.i < (getNextLocation r path c.loc c.i).2.1
        · left
          intro q hq
          rw [hi', prevPt_pos _ _ (by omega)] at hq
          exact ready_nsi (gnl_prev_ready r path c.loc c.i q hc hlt hq) hc
        · have hge := g.ge
          have heq : (getNextLocation r path c.loc c.i).2.1 = c.i := by omega
          rw [hi', heq]
          exact hinv hc

theorem inv_reach {A : Arith} {r : Rect} {path : Path} {c0 c : Ctl} (h0 : Inv r path c0)
    (hr : Reach A r path c0 c) : Inv r path c := by
  induction hr with
  | init => exact h0
  | next _ _ hst ih => exact inv_step ih hst

theorem onBoundary_nsi {r : Rect} {q : Pt} (h : OnBoundary r q) : NSI r q := by
  unfold NSI; unfold OnBoundary at h; omega

theorem region_nsi {r : Rect} {q : Pt} (h : region r q ≠ .inside) : NSI r q := by
  unfold NSI
  intro hc
  apply h
  unfold region
  rw [if_neg (by omega), if_neg (by omega), if_neg (by omega), if_neg (by omega)]

theorem inv_init {r : Rect} {path : Path} {last : Pt} {loc0 : Location} (hl : path.getLast? = some last)
    (hs : startLoc r path last = .inr loc0) : Inv r path ⟨0, loc0, .inside, .inside⟩ := by
  intro hl0
  left
  intro prv hprv
  have : prevPt path 0 = some last := by
    unfold prevPt; rw [if_pos rfl, ← List.getLast?_eq_getElem?]; exact hl
  rw [this] at hprv
  cases hprv
  unfold startLoc at hs
  simp only at hs
  split at hs
  · rename_i hg
    exact onBoundary_nsi ((getLocation_fst r last .inside).mp (by simpa using hg))
  · rename_i hg
    have h1 : (getLocation r last).1 = true := by simpa using hg
    simp only [Sum.inr.injEq] at hs
    apply region_nsi
    rw [← getLocation_snd_true r last .inside h1, hs]
    exact hl0

/-- **With exact signs no entering crossing is missed along a run**: in every state the main loop goes through, if
`GetNextLocation` classifies `path[j]` as `Inside`, the `GetIntersection` call that follows succeeds. -/
theorem no_missed_entering_exact {A : Arith} (hA : SignExact A) (ht : IsectTotal A) {r : Rect}
    (hw : r.left < r.right) (hh : r.top < r.bottom) {path : Path} {c0 c : Ctl} (h0 : Inv r path c0)
    (hr : Reach A r path c0 c) {cur prv : Pt}
    (hcur : path[(getNextLocation r path c.loc c.i).2.1]? = some cur)
    (hprv : prevPt path (getNextLocation r path c.loc c.i).2.1 = some prv)
    (hl : (getNextLocation r path c.loc c.i).1 = .inside) (ip : Pt) :
    (getIntersection A r cur prv .inside ip).1 = true := by
  have hinv := inv_reach h0 hr
  have g := gnl_spec r path c.loc c.i
  have hc : c.loc ≠ .inside := by
    intro hc
    have h1 : path[(getNextLocation r path .inside c.i).2.1]? = some cur := by rw [← hc]; exact hcur
    have h2 := hl
    rw [hc] at h2
    exact (gnl_from_inside r path c.i cur h1).1 h2
  have hstrict := gnl_inside_strict r path c.loc c.i cur hc hcur hl
  have hnsi : NSI r prv := by
    by_cases hlt : c.i < (getNextLocation r path c.loc c.i).2.1
    · rw [prevPt_pos _ _ (by omega)] at hprv
      exact ready_nsi (gnl_prev_ready r path c.loc c.i prv hc hlt hprv) hc
    · have hge := g.ge
      have heq : (getNextLocation r path c.loc c.i).2.1 = c.i := by omega
      rw [heq] at hprv hcur
      rcases hinv hc with h | h
      · exact h prv hprv
      · exfalso
        apply h cur hcur
        rw [outsideLoc_none_iff, inRect_iff]; omega
  exact getIntersection_from_inside hA ht ⟨hw, hh, hstrict.1, hstrict.2.1, hstrict.2.2.1, hstrict.2.2.2⟩ hnsi ip

end Clipper.Lemmas.RCE
