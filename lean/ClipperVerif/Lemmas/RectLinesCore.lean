/-
Pure integer geometry behind `GetIntersection` (clipper.rectclip.cpp) called from an outside location:
a segment starting in the closed half-plane beyond one side of a rectangle meets the closed rectangle iff it hits
one of the three rectangle edges that `GetIntersection` tries (the second one under its guard).

Everything is stated in *offsets from the first end point* `p` of the segment `p q`:
`u0 = left - p.x`, `u1 = right - p.x`, `a0 = top - p.y`, `a1 = bottom - p.y`, `dx = q.x - p.x`, `dy = q.y - p.y`,
so that translation invariance is built in and the mirror images / the transposed cases are instances of one lemma.
Core Lean only.
-/
namespace Clipper.Lemmas.RLC

/-- weakly opposite signs -/
def WOpp (x y : Int) : Prop := (x ≤ 0 ∧ 0 ≤ y) ∨ (y ≤ 0 ∧ 0 ≤ x)

/-- The segment from the origin to `(d1, d2)` hits the axis-parallel edge `{c} × [lo, hi]` (coordinates relative to the
origin; the first coordinate is the one across the edge) without being collinear with it:
the start point lies on the edge, or the end point does, or the end points are strictly on both sides of the line
of the edge and the two ends of the edge are weakly on both sides of the line of the segment. -/
def HitO (c lo hi d1 d2 : Int) : Prop :=
  (c = 0 ∧ d1 ≠ c ∧ lo ≤ 0 ∧ 0 ≤ hi) ∨
  (c ≠ 0 ∧ d1 = c ∧ lo ≤ d2 ∧ d2 ≤ hi) ∨
  (((0 < c ∧ c < d1) ∨ (d1 < c ∧ c < 0)) ∧ WOpp (c * d2 - lo * d1) (c * d2 - hi * d1))

/-- all four corners strictly on the same side of the line of the segment -/
def AllSame (g00 g10 g11 g01 : Int) : Prop :=
  (0 < g00 ∧ 0 < g10 ∧ 0 < g11 ∧ 0 < g01) ∨ (g00 < 0 ∧ g10 < 0 ∧ g11 < 0 ∧ g01 < 0)

/-- The closed segment from the origin to `(dx, dy)` meets the closed rectangle `[u0, u1] × [a0, a1]`
(separating-axis form: no side line of the rectangle and not the line of the segment separates them). -/
def MeetsO (u0 u1 a0 a1 dx dy : Int) : Prop :=
  ¬ (0 < u0 ∧ dx < u0) ∧ ¬ (u1 < 0 ∧ u1 < dx) ∧ ¬ (0 < a0 ∧ dy < a0) ∧ ¬ (a1 < 0 ∧ a1 < dy) ∧
  ¬ AllSame (u0 * dy - a0 * dx) (u1 * dy - a0 * dx) (u1 * dy - a1 * dx) (u0 * dy - a1 * dx)

theorem wopp_neg {x y : Int} : WOpp (-x) (-y) ↔ WOpp x y := by unfold WOpp; omega
theorem wopp_comm {x y : Int} : WOpp x y ↔ WOpp y x := by unfold WOpp; omega
theorem not_wopp {x y : Int} : ¬ WOpp x y ↔ ((0 < x ∧ 0 < y) ∨ (x < 0 ∧ y < 0)) := by unfold WOpp; omega

/-! ### sign of products -/

theorem mpp {a b : Int} (ha : 0 < a) (hb : 0 < b) : 0 < a * b := Int.mul_pos ha hb
theorem mpn {a b : Int} (ha : 0 < a) (hb : b < 0) : a * b < 0 := Int.mul_neg_of_pos_of_neg ha hb
theorem mnp {a b : Int} (ha : a < 0) (hb : 0 < b) : a * b < 0 := Int.mul_neg_of_neg_of_pos ha hb
theorem mnn {a b : Int} (ha : a < 0) (hb : b < 0) : 0 < a * b := Int.mul_pos_of_neg_of_neg ha hb
theorem mlt {a x y : Int} (ha : 0 < a) (h : x < y) : a * x < a * y := Int.mul_lt_mul_of_pos_left h ha
theorem mlt' {a x y : Int} (ha : 0 < a) (h : x < y) : x * a < y * a := Int.mul_lt_mul_of_pos_right h ha
theorem mle {a x y : Int} (ha : 0 ≤ a) (h : x ≤ y) : a * x ≤ a * y := Int.mul_le_mul_of_nonneg_left h ha
theorem mle' {a x y : Int} (ha : 0 ≤ a) (h : x ≤ y) : x * a ≤ y * a := Int.mul_le_mul_of_nonneg_right h ha

/-- sign of `b` from the sign of `a * b` and of `a` -/
theorem pos_of_mul_pos_left {a b : Int} (ha : 0 < a) (h : 0 < a * b) : 0 < b := by
  rcases Int.lt_trichotomy b 0 with hb | hb | hb
  · have := mpn ha hb; omega
  · subst hb; simp at h
  · exact hb
theorem neg_of_mul_neg_left {a b : Int} (ha : 0 < a) (h : a * b < 0) : b < 0 := by
  rcases Int.lt_trichotomy b 0 with hb | hb | hb
  · exact hb
  · subst hb; simp at h
  · have := mpp ha hb; omega
theorem pos_of_mul_pos_right {a b : Int} (hb : 0 < b) (h : 0 < a * b) : 0 < a := by
  rw [Int.mul_comm] at h; exact pos_of_mul_pos_left hb h
theorem neg_of_mul_neg_right {a b : Int} (hb : 0 < b) (h : a * b < 0) : a < 0 := by
  rw [Int.mul_comm] at h; exact neg_of_mul_neg_left hb h
theorem nonneg_of_mul_nonneg_left {a b : Int} (ha : 0 < a) (h : 0 ≤ a * b) : 0 ≤ b := by
  by_cases hb : b < 0
  · have := mpn ha hb; omega
  · omega
theorem nonpos_of_mul_nonpos_left {a b : Int} (ha : a < 0) (h : a * b ≤ 0) : 0 ≤ b := by
  by_cases hb : b < 0
  · have := mnn ha hb; omega
  · omega
theorem mltn {a x y : Int} (ha : a < 0) (h : x < y) : a * y < a * x := Int.mul_lt_mul_of_neg_left h ha
theorem mltn' {a x y : Int} (ha : a < 0) (h : x < y) : y * a < x * a := by
  rw [Int.mul_comm y a, Int.mul_comm x a]; exact mltn ha h

/-! ### the corner `(u, a)` against a segment `0 → (d, e)` that strictly straddles the line `x = u` -/

theorem straddle_neg {u d a e : Int} (h1 : 0 < u) (h2 : u < d) (h3 : e < a) (h4 : 0 < a) : u * e - a * d < 0 := by
  have f1 := mlt h1 h3
  have f2 := mlt h4 h2
  have f3 := Int.mul_comm u a
  omega
theorem straddle_pos {u d a e : Int} (h1 : 0 < u) (h2 : u < d) (h3 : a < e) (h4 : a < 0) : 0 < u * e - a * d := by
  have f1 := mlt h1 h3
  have f2 := mltn h4 h2
  have f3 := Int.mul_comm u a
  omega
theorem straddle_pos' {u d a e : Int} (h1 : d < u) (h2 : u < 0) (h3 : e < a) (h4 : 0 < a) : 0 < u * e - a * d := by
  have f1 := mltn h2 h3
  have f2 := mlt h4 h1
  have f3 := Int.mul_comm u a
  omega
theorem straddle_neg' {u d a e : Int} (h1 : d < u) (h2 : u < 0) (h3 : a < e) (h4 : a < 0) : u * e - a * d < 0 := by
  have f1 := mltn h2 h3
  have f2 := mltn h4 h1
  have f3 := Int.mul_comm u a
  omega

/-! ### an edge hit implies that segment and rectangle meet -/

/-- hitting the edge `{u0} × [a0, a1]` (the side of the rectangle `[u0, u1] × [a0, a1]` with the smaller first
coordinate) -/
theorem hitLow_meets {u0 u1 a0 a1 dx dy : Int} (hu : u0 < u1) (ha : a0 < a1) (h : HitO u0 a0 a1 dx dy) :
    MeetsO u0 u1 a0 a1 dx dy := by
  unfold MeetsO AllSame
  rcases h with ⟨h1, h2, h3, h4⟩ | ⟨h1, h2, h3, h4⟩ | ⟨h1, h2⟩
  · -- the start point is on the edge
    have z : u0 * dy = 0 := by rw [h1]; simp
    refine ⟨by omega, by omega, by omega, by omega, ?_⟩
    rcases Int.lt_trichotomy dx 0 with hd | hd | hd
    · have f1 : 0 ≤ a0 * dx := by
        have := mle' (a := -dx) (by omega) h3
        simp only [Int.mul_neg, Int.zero_mul] at this; omega
      have f2 : a1 * dx ≤ 0 := by
        have := mle' (a := -dx) (by omega) h4
        simp only [Int.mul_neg, Int.zero_mul] at this; omega
      omega
    · omega
    · have f1 : a0 * dx ≤ 0 := by have := mle' (a := dx) (by omega) h3; simpa using this
      have f2 : 0 ≤ a1 * dx := by have := mle' (a := dx) (by omega) h4; simpa using this
      omega
  · -- the end point is on the edge
    refine ⟨by omega, by omega, by omega, by omega, ?_⟩
    have c0 : a0 * dx = u0 * a0 := by rw [h2, Int.mul_comm]
    have c1 : a1 * dx = u0 * a1 := by rw [h2, Int.mul_comm]
    rcases Int.lt_trichotomy u0 0 with hd | hd | hd
    · have f1 : u0 * dy ≤ u0 * a0 := by
        have := mle (a := -u0) (by omega) h3
        simp only [Int.neg_mul] at this; omega
      have f2 : u0 * a1 ≤ u0 * dy := by
        have := mle (a := -u0) (by omega) h4
        simp only [Int.neg_mul] at this; omega
      omega
    · omega
    · have f1 := mle (a := u0) (by omega) h3
      have f2 := mle (a := u0) (by omega) h4
      omega
  · -- strictly across the line of the edge
    have hw := h2
    unfold WOpp at hw
    rcases h1 with ⟨p1, p2⟩ | ⟨p1, p2⟩
    · refine ⟨by omega, by omega, ?_, ?_, by omega⟩
      · rintro ⟨q1, q2⟩
        have g0 := straddle_neg p1 p2 q2 q1
        have g1 := straddle_neg p1 p2 (a := a1) (e := dy) (by omega) (by omega)
        omega
      · rintro ⟨q1, q2⟩
        have g1 := straddle_pos p1 p2 q2 q1
        have g0 := straddle_pos p1 p2 (a := a0) (e := dy) (by omega) (by omega)
        omega
    · refine ⟨by omega, by omega, ?_, ?_, by omega⟩
      · rintro ⟨q1, q2⟩
        have g0 := straddle_pos' p1 p2 q2 q1
        have g1 := straddle_pos' p1 p2 (a := a1) (e := dy) (by omega) (by omega)
        omega
      · rintro ⟨q1, q2⟩
        have g1 := straddle_neg' p1 p2 q2 q1
        have g0 := straddle_neg' p1 p2 (a := a0) (e := dy) (by omega) (by omega)
        omega

/-! ### symmetries: transposition and mirror image -/

theorem meetsO_transpose {u0 u1 a0 a1 dx dy : Int} : MeetsO a0 a1 u0 u1 dy dx ↔ MeetsO u0 u1 a0 a1 dx dy := by
  unfold MeetsO AllSame; omega

theorem meetsO_mirror {u0 u1 a0 a1 dx dy : Int} : MeetsO (-u1) (-u0) a0 a1 (-dx) dy ↔ MeetsO u0 u1 a0 a1 dx dy := by
  unfold MeetsO AllSame
  simp only [Int.neg_mul, Int.mul_neg]
  omega

/-- mirror image across the edge -/
theorem hitO_mirror1 {c lo hi d1 d2 : Int} : HitO (-c) lo hi (-d1) d2 ↔ HitO c lo hi d1 d2 := by
  unfold HitO WOpp
  simp only [Int.neg_mul, Int.mul_neg]
  omega

/-- mirror image along the edge -/
theorem hitO_mirror2 {c lo hi d1 d2 : Int} : HitO c (-hi) (-lo) d1 (-d2) ↔ HitO c lo hi d1 d2 := by
  unfold HitO WOpp
  simp only [Int.neg_mul, Int.mul_neg]
  omega

theorem hitHigh_meets {u0 u1 a0 a1 dx dy : Int} (hu : u0 < u1) (ha : a0 < a1) (h : HitO u1 a0 a1 dx dy) :
    MeetsO u0 u1 a0 a1 dx dy :=
  meetsO_mirror.mp (hitLow_meets (u0 := -u1) (u1 := -u0) (by omega) ha (hitO_mirror1.mpr h))

theorem hitLowT_meets {u0 u1 a0 a1 dx dy : Int} (hu : u0 < u1) (ha : a0 < a1) (h : HitO a0 u0 u1 dy dx) :
    MeetsO u0 u1 a0 a1 dx dy :=
  meetsO_transpose.mp (hitLow_meets ha hu h)

theorem hitHighT_meets {u0 u1 a0 a1 dx dy : Int} (hu : u0 < u1) (ha : a0 < a1) (h : HitO a1 u0 u1 dy dx) :
    MeetsO u0 u1 a0 a1 dx dy :=
  meetsO_transpose.mp (hitHigh_meets ha hu h)

end Clipper.Lemmas.RLC
