/-
`ConvertHorzSegsToJoins` on a heap of rings: what it keeps (rings, records, old points, rectilinear edges), what it adds
(two duplicated `OutPt`s per join, numbered consecutively), and that every join it makes has both ops on the scanline when every
trial `OutPt` was registered on that scanline.  Helper file of `Props/C02Horz.lean`.  Core Lean only.
-/
import ClipperVerif.Lemmas.HorzJoinsInv
import ClipperVerif.Lemmas.HorzJoinsUpdate
namespace Clipper.Model.HorzJoins
open Clipper

/-- `v` is a valid `OutPt` whose point has `y = y0` -/
def OnY (H : Heap) (y0 : Int) (v : Nat) : Prop := ∃ p, ptOf H v = some p ∧ p.y = y0

theorem OnY.lt {H : Heap} {y0 : Int} {v : Nat} (h : OnY H y0 v) : v < H.ops.size := by
  obtain ⟨p, hp, _⟩ := h
  obtain ⟨n, hn, _⟩ := ptOf_some.1 hp
  exact lt_of_node hn

theorem OnY.of_ptOf_eq {H H' : Heap} {y0 : Int} {v : Nat} (h : OnY H y0 v) (e : ptOf H' v = ptOf H v) : OnY H' y0 v := by
  obtain ⟨p, hp, hy⟩ := h; exact ⟨p, by rw [e, hp], hy⟩

/-- a walk ends where it started or at a node that passed the loop condition -/
theorem walk_result {H : Heap} {fwd : Bool} {pre : Nat → Bool} {cond : Nat → Node → Bool} (Q : Nat → Prop)
    (hQ : ∀ nx nn, H.ops[nx]? = some nn → cond nx nn = true → Q nx) :
    ∀ (fuel cur r : Nat), Q cur → walk H fwd pre cond fuel cur = .ok r → Q r
  | 0, _, _, _, h => by simp [walk] at h
  | f + 1, cur, r, hc, h => by
    unfold walk at h
    split at h
    · cases h; exact hc
    · cases hs : stepOp H fwd cur with
      | error e => simp [hs] at h
      | ok nx =>
        simp only [hs] at h
        cases hn : H.node nx with
        | error e => simp [hn] at h
        | ok nn =>
          simp only [hn] at h
          split at h
          · rename_i hcond
            exact walk_result Q hQ f nx r (hQ nx nn (node_ok.1 hn) hcond) h
          · cases h; exact hc

theorem slide_onY {H : Heap} {fwd : Bool} {y bound : Int} {from_ r : Nat} (h0 : OnY H y from_)
    (h : slide H fwd y bound from_ = .ok r) : OnY H y r := by
  unfold slide at h
  apply walk_result (OnY H y) _ _ _ _ h0 h
  intro nx nn hn hc
  simp only [Bool.and_eq_true, beq_iff_eq] at hc
  exact ⟨nn.pt, ptOf_some.2 ⟨nn, hn, rfl⟩, hc.1⟩

theorem runEnds_onY {H : Heap} {op : Nat} {y : Int} {ends : Option (Nat × Nat)} {opP opN : Nat} (h0 : OnY H y op)
    (h : runEnds H op y ends = .ok (opP, opN)) : OnY H y opP ∧ OnY H y opN := by
  have key : ∀ (fwd : Bool) (pre : Nat → Bool) (c : Nat → Bool) (r : Nat),
      walk H fwd pre (fun nx nn => c nx && nn.pt.y == y) H.fuel op = .ok r → OnY H y r := by
    intro fwd pre c r hw
    apply walk_result (OnY H y) _ _ _ _ h0 hw
    intro nx nn hn hc
    simp only [Bool.and_eq_true, beq_iff_eq] at hc
    exact ⟨nn.pt, ptOf_some.2 ⟨nn, hn, rfl⟩, hc.2⟩
  have key' : ∀ (fwd : Bool) (pre : Nat → Bool) (r : Nat),
      walk H fwd pre (fun _ nn => nn.pt.y == y) H.fuel op = .ok r → OnY H y r := by
    intro fwd pre r hw
    apply walk_result (OnY H y) _ _ _ _ h0 hw
    intro nx nn hn hc
    simp only [beq_iff_eq] at hc
    exact ⟨nn.pt, ptOf_some.2 ⟨nn, hn, rfl⟩, hc⟩
  unfold runEnds at h
  cases ends with
  | some e =>
    obtain ⟨opA, opZ⟩ := e
    simp only at h
    cases h1 : walk H false (fun c => c == opZ) (fun _ nn => nn.pt.y == y) H.fuel op with
    | error e => simp [h1] at h
    | ok p =>
      simp only [h1] at h
      cases h2 : walk H true (fun c => c == opA) (fun _ nn => nn.pt.y == y) H.fuel op with
      | error e => simp [h2] at h
      | ok q =>
        simp only [h2, Except.ok.injEq, Prod.mk.injEq] at h
        obtain ⟨rfl, rfl⟩ := h
        exact ⟨key' _ _ _ h1, key' _ _ _ h2⟩
  | none =>
    simp only at h
    cases h1 : walk H false (fun _ => false) (fun nx nn => nx != op && nn.pt.y == y) H.fuel op with
    | error e => simp [h1] at h
    | ok p =>
      simp only [h1] at h
      cases h2 : walk H true (fun _ => false) (fun nx nn => nx != p && nn.pt.y == y) H.fuel op with
      | error e => simp [h2] at h
      | ok q =>
        simp only [h2, Except.ok.injEq, Prod.mk.injEq] at h
        obtain ⟨rfl, rfl⟩ := h
        exact ⟨key false _ (fun nx => nx != op) _ h1, key true _ (fun nx => nx != p) _ h2⟩

theorem markSegment_frame {H H1 : Heap} {hs hs1 : HorzSeg} {ok b : Bool} {y0 : Int} (hl : OnY H y0 hs.leftOp)
    (hrr : ok = true → ∀ r, hs.rightOp = some r → OnY H y0 r) (hok : ok = true → hs.rightOp.isSome)
    (h : markSegment H hs ok = .ok (H1, hs1, b)) :
    SameLinks H H1 ∧ H1.recs = H.recs ∧ orecOf H1 = orecOf H ∧ OnY H1 y0 hs1.leftOp ∧
      (∀ r, hs1.rightOp = some r → OnY H1 y0 r) ∧ (b = true ↔ hs1.rightOp.isSome) ∧ hs1.ltr = hs.ltr := by
  unfold markSegment at h
  cases hn : H.node hs.leftOp with
  | error e => simp [hn] at h
  | ok nL =>
    simp only [hn] at h
    split at h
    · rename_i hc
      cases hu : H.updNode hs.leftOp (fun x => { x with horz := true }) with
      | error e => simp [hu] at h
      | ok H2 =>
        simp only [hu, Except.ok.injEq, Prod.mk.injEq] at h
        obtain ⟨rfl, rfl, rfl⟩ := h
        have sl := sameLinks_updHorz hu
        obtain ⟨_, _, eo, _, er, _⟩ := upd_horz_eqs hu
        have hok' : ok = true := by simp only [Bool.and_eq_true] at hc; exact hc.1
        refine ⟨sl, er, eo, hl.of_ptOf_eq (by rw [sl.2.2.1]), ?_, by simp [hok hok'], rfl⟩
        intro r hr'; exact (hrr hok' r hr').of_ptOf_eq (by rw [sl.2.2.1])
    · simp only [Except.ok.injEq, Prod.mk.injEq] at h
      obtain ⟨rfl, rfl, rfl⟩ := h
      exact ⟨SameLinks.refl _, rfl, rfl, hl, by simp, by simp, rfl⟩

/-- `UpdateHorzSegment` only sets a `horz` mark; the segment's `left_op` (and `right_op`) stay on the line of the trial `OutPt` -/
theorem updateHorzSegment_frame {H H1 : Heap} {hs hs1 : HorzSeg} {b : Bool} {y0 : Int} (h0 : OnY H y0 hs.leftOp)
    (h : updateHorzSegment H hs = .ok (H1, hs1, b)) :
    SameLinks H H1 ∧ H1.recs = H.recs ∧ orecOf H1 = orecOf H ∧ OnY H1 y0 hs1.leftOp ∧
      (∀ r, hs1.rightOp = some r → OnY H1 y0 r) ∧ (b = true ↔ hs1.rightOp.isSome) := by
  unfold updateHorzSegment at h
  simp only [bind_ok] at h
  obtain ⟨n, hn, ori, hri, h⟩ := h
  cases ori with
  | none => simp at h
  | some ri =>
    simp only [bind_ok] at h
    obtain ⟨r, hr, ends, he, ⟨opP, opN⟩, hre, nP, hnP, nN, hnN, h⟩ := h
    have hy : n.pt.y = y0 := by
      obtain ⟨p, hp, hpy⟩ := h0
      obtain ⟨n', hn', e⟩ := ptOf_some.1 hp
      rw [node_ok.1 hn] at hn'; cases hn'; rw [e]; exact hpy
    have h0' : OnY H n.pt.y hs.leftOp := by rw [hy]; exact h0
    obtain ⟨oP, oN⟩ := runEnds_onY h0' hre
    rw [hy] at oP oN
    simp only at h
    have key : ∀ hd : HorzSeg × Bool, hd = setHeading hs opP opN nP.pt.x nN.pt.x →
        OnY H y0 hd.1.leftOp ∧ (hd.2 = true → ∀ r, hd.1.rightOp = some r → OnY H y0 r) ∧ (hd.2 = true → hd.1.rightOp.isSome) := by
      intro hd e
      unfold setHeading at e
      split at e
      · subst e; exact ⟨h0, by simp, by simp⟩
      · split at e
        · subst e; exact ⟨oP, by intro _ r hr'; cases hr'; exact oN, by simp⟩
        · subst e; exact ⟨oN, by intro _ r hr'; cases hr'; exact oP, by simp⟩
    obtain ⟨k1, k2, k3⟩ := key _ rfl
    obtain ⟨a, b', c, d, e, f, _⟩ := markSegment_frame k1 k2 k3 h
    exact ⟨a, b', c, d, e, f⟩

/-! ## the invariant of the nested loops -/

/-- the `t`-th join made by this call: its two ops are the `2t`-th and `2t+1`-st `OutPt` allocated by it -/
def newJoin (n0 t : Nat) : HorzJoin := ⟨n0 + 2 * t, n0 + 2 * t + 1⟩

/-- what holds between the entry of `ConvertHorzSegsToJoins` (heap `H0`, trial `OutPt`s on the line `y0`, `horz_join_list_ = joins0`)
and any later point of its nested loops -/
structure CInv (H0 : Heap) (y0 : Int) (nr : Nat) (joins0 : List HorzJoin) (s : CState) : Prop where
  rings : ∃ rs, Rings s.H rs ∧ rs.length = nr
  recs : s.H.recs = H0.recs
  old : ∀ i, i < H0.ops.size → ptOf s.H i = ptOf H0 i ∧ orecOf s.H i = orecOf H0 i
  made : ∃ m, s.H.ops.size = H0.ops.size + 2 * m ∧ s.joins = joins0 ++ (List.range m).map (newJoin H0.ops.size)
  fresh : ∀ i, H0.ops.size ≤ i → i < s.H.ops.size →
    OnY s.H y0 i ∧ ∃ a, a < H0.ops.size ∧ ptOf s.H i = ptOf H0 a ∧ orecOf s.H i = orecOf H0 a
  segs : ∀ hs ∈ s.segs.toList, OnY s.H y0 hs.leftOp
  rect : RectEdges H0 → RectEdges s.H

theorem seg_mem {s : CState} {i : Nat} {hs : HorzSeg} (h : s.seg i = .ok hs) : hs ∈ s.segs.toList := by
  unfold CState.seg at h
  cases hh : s.segs[i]? with
  | none => simp [hh] at h
  | some x =>
    simp only [hh, Except.ok.injEq] at h; subst h
    exact List.mem_of_getElem? (by rw [Array.getElem?_toList]; exact hh)

theorem mem_set2 {arr : Array HorzSeg} {i k : Nat} {x y v : HorzSeg}
    (h : v ∈ ((arr.setIfInBounds i x).setIfInBounds k y).toList) : v = x ∨ v = y ∨ v ∈ arr.toList := by
  rw [Array.toList_setIfInBounds] at h
  rcases List.mem_or_eq_of_mem_set h with h | h
  · rw [Array.toList_setIfInBounds] at h
    rcases List.mem_or_eq_of_mem_set h with h | h
    · exact Or.inr (Or.inr h)
    · exact Or.inl h
  · exact Or.inr (Or.inl h)

/-- two `DuplicateOp`s on nodes of the scanline, the new state -/
theorem cinv_two_dups {H0 : Heap} {y0 : Int} {nr : Nat} {joins0 : List HorzJoin} {s : CState} (I : CInv H0 y0 nr joins0 s)
    {u v : Nat} (hu : OnY s.H y0 u) (hv : OnY s.H y0 v) {d1 d2 : Heap × Nat}
    (h1 : duplicateOp s.H u true = .ok d1) (h2 : duplicateOp d1.1 v false = .ok d2) (segs' : Array HorzSeg)
    (hsegs : ∀ hs ∈ segs'.toList, OnY s.H y0 hs.leftOp) :
    CInv H0 y0 nr joins0 { H := d2.1, segs := segs', joins := s.joins ++ [⟨d1.2, d2.2⟩] } := by
  obtain ⟨rs, R, hlen⟩ := I.rings
  obtain ⟨H1, rs1, e1, R1, l1, pt1, or1, rc1, sz1, re1⟩ := duplicateOp_keeps R hu.lt true
  rw [h1] at e1; cases e1
  have hv1 : v < H1.ops.size := by rw [sz1]; have := hv.lt; omega
  obtain ⟨H2, rs2, e2, R2, l2, pt2, or2, rc2, sz2, re2⟩ := duplicateOp_keeps R1 hv1 false
  simp only at h2
  rw [h2] at e2; cases e2
  simp only
  obtain ⟨m, hm, hj⟩ := I.made
  -- points and records of old nodes
  have hold : ∀ i, i < s.H.ops.size → ptOf H2 i = ptOf s.H i ∧ orecOf H2 i = orecOf s.H i := by
    intro i hi
    have a1 : i ≠ H1.ops.size := by rw [sz1]; omega
    have a2 : i ≠ s.H.ops.size := by omega
    rw [pt2, or2, pt1, or1]; simp [a1, a2]
  have hnew1 : ptOf H2 s.H.ops.size = ptOf s.H u ∧ orecOf H2 s.H.ops.size = orecOf s.H u := by
    have a1 : s.H.ops.size ≠ H1.ops.size := by rw [sz1]; omega
    rw [pt2, or2, pt1, or1]; simp [a1]
  have hnew2 : ptOf H2 H1.ops.size = ptOf s.H v ∧ orecOf H2 H1.ops.size = orecOf s.H v := by
    have a2 : v ≠ s.H.ops.size := Nat.ne_of_lt hv.lt
    rw [pt2, or2, pt1, or1]; simp [a2]
  have honY : ∀ i, OnY s.H y0 i → OnY H2 y0 i := fun i h => h.of_ptOf_eq (hold i h.lt).1
  have hsrc : ∀ w, OnY s.H y0 w → ∃ a, a < H0.ops.size ∧ ptOf s.H w = ptOf H0 a ∧ orecOf s.H w = orecOf H0 a := by
    intro w hw
    by_cases hw0 : w < H0.ops.size
    · exact ⟨w, hw0, (I.old w hw0).1, (I.old w hw0).2⟩
    · exact (I.fresh w (by omega) hw.lt).2
  refine ⟨⟨rs2, R2, by rw [l2, l1, hlen]⟩, by rw [rc2, rc1, I.recs], ?_, ⟨m + 1, ?_, ?_⟩, ?_, ?_, ?_⟩
  · intro i hi
    have := hold i (by omega)
    rw [this.1, this.2]; exact I.old i hi
  · rw [sz2, sz1, hm]; omega
  · rw [hj, List.range_succ, List.map_append, ← List.append_assoc]
    simp only [List.map_cons, List.map_nil, newJoin]
    rw [sz1, hm]
  · intro i h0 hi
    rw [sz2, sz1] at hi
    by_cases c1 : i < s.H.ops.size
    · obtain ⟨a, b⟩ := I.fresh i h0 c1
      refine ⟨honY i a, ?_⟩
      rw [(hold i c1).1, (hold i c1).2]; exact b
    · by_cases c2 : i = s.H.ops.size
      · subst c2
        refine ⟨(by obtain ⟨p, hp, hy⟩ := hu; exact ⟨p, by rw [hnew1.1, hp], hy⟩ : OnY H2 y0 s.H.ops.size), ?_⟩
        rw [hnew1.1, hnew1.2]; exact hsrc u hu
      · have c3 : i = H1.ops.size := by rw [sz1]; omega
        subst c3
        refine ⟨(by obtain ⟨p, hp, hy⟩ := hv; exact ⟨p, by rw [hnew2.1, hp], hy⟩ : OnY H2 y0 H1.ops.size), ?_⟩
        rw [hnew2.1, hnew2.2]; exact hsrc v hv
  · intro hs hhs; exact honY _ (hsegs hs hhs)
  · intro r0; exact re2 (re1 (I.rect r0))

theorem node_onY {H : Heap} {y0 : Int} {v : Nat} {n : Node} (h : OnY H y0 v) (hn : H.node v = .ok n) : n.pt.y = y0 := by
  obtain ⟨p, hp, hpy⟩ := h
  obtain ⟨n', hn', e⟩ := ptOf_some.1 hp
  rw [node_ok.1 hn] at hn'; cases hn'; rw [e]; exact hpy

theorem joinLtr_cinv {H0 : Heap} {y0 : Int} {nr : Nat} {joins0 : List HorzJoin} {s s' : CState} {i k : Nat} {hs1 hs2 : HorzSeg}
    (I : CInv H0 y0 nr joins0 s) (m1 : hs1 ∈ s.segs.toList) (m2 : hs2 ∈ s.segs.toList)
    (h : joinLtr s i k hs1 hs2 = .ok s') : CInv H0 y0 nr joins0 s' := by
  unfold joinLtr at h
  simp only [bind_ok] at h
  obtain ⟨l1, hl1, l2, hl2, a, ha, na, hna, b, hb, d1, hd1, d2, hd2, h⟩ := h
  simp only [pure, Except.pure, Except.ok.injEq] at h; subst h
  have o1 := I.segs hs1 m1
  have o2 := I.segs hs2 m2
  have hy : l1.pt.y = y0 := node_onY o1 hl1
  rw [hy] at ha hb
  have oa := slide_onY o1 ha
  have ob := slide_onY o2 hb
  apply cinv_two_dups I oa ob hd1 hd2
  intro hs hhs
  rcases mem_set2 hhs with rfl | rfl | h
  · exact oa
  · exact ob
  · exact I.segs hs h

theorem joinRtl_cinv {H0 : Heap} {y0 : Int} {nr : Nat} {joins0 : List HorzJoin} {s s' : CState} {i k : Nat} {hs1 hs2 : HorzSeg}
    (I : CInv H0 y0 nr joins0 s) (m1 : hs1 ∈ s.segs.toList) (m2 : hs2 ∈ s.segs.toList)
    (h : joinRtl s i k hs1 hs2 = .ok s') : CInv H0 y0 nr joins0 s' := by
  unfold joinRtl at h
  simp only [bind_ok] at h
  obtain ⟨l1, hl1, l2, hl2, a, ha, na, hna, b, hb, d1, hd1, d2, hd2, h⟩ := h
  simp only [pure, Except.pure, Except.ok.injEq] at h; subst h
  have o1 := I.segs hs1 m1
  have o2 := I.segs hs2 m2
  have hy : l1.pt.y = y0 := node_onY o1 hl1
  rw [hy] at ha hb
  have oa := slide_onY o1 ha
  have ob := slide_onY o2 hb
  apply cinv_two_dups I ob oa hd1 hd2
  intro hs hhs
  rcases mem_set2 hhs with rfl | rfl | h
  · exact oa
  · exact ob
  · exact I.segs hs h

theorem convertPair_cinv {H0 : Heap} {y0 : Int} {nr : Nat} {joins0 : List HorzJoin} {s s' : CState} {i k : Nat}
    (I : CInv H0 y0 nr joins0 s) (h : convertPair s i k = .ok s') : CInv H0 y0 nr joins0 s' := by
  unfold convertPair at h
  cases h1 : s.seg i with
  | error e => simp [h1] at h
  | ok hs1 =>
    cases h2 : s.seg k with
    | error e => simp [h1, h2] at h
    | ok hs2 =>
      simp only [h1, h2] at h
      cases hp : pairOverlaps s.H hs1 hs2 with
      | error e => simp [hp] at h
      | ok ov =>
        simp only [hp] at h
        cases ov with
        | false => simp only [Except.ok.injEq] at h; subst h; exact I
        | true =>
          simp only at h
          split at h
          · exact joinLtr_cinv I (seg_mem h1) (seg_mem h2) h
          · exact joinRtl_cinv I (seg_mem h1) (seg_mem h2) h

theorem convertInner_cinv {H0 : Heap} {y0 : Int} {nr : Nat} {joins0 : List HorzJoin} {i : Nat} :
    ∀ (ks : List Nat) (s s' : CState), CInv H0 y0 nr joins0 s → convertInner s i ks = .ok s' → CInv H0 y0 nr joins0 s'
  | [], s, s', I, h => by simp only [convertInner, Except.ok.injEq] at h; subst h; exact I
  | k :: ks, s, s', I, h => by
    unfold convertInner at h
    cases h1 : convertPair s i k with
    | error e => simp [h1] at h
    | ok s1 => simp only [h1] at h; exact convertInner_cinv ks s1 s' (convertPair_cinv I h1) h

theorem convertOuter_cinv {H0 : Heap} {y0 : Int} {nr : Nat} {joins0 : List HorzJoin} {j : Nat} :
    ∀ (is : List Nat) (s s' : CState), CInv H0 y0 nr joins0 s → convertOuter j s is = .ok s' → CInv H0 y0 nr joins0 s'
  | [], s, s', I, h => by simp only [convertOuter, Except.ok.injEq] at h; subst h; exact I
  | i :: is, s, s', I, h => by
    unfold convertOuter at h
    cases h1 : convertInner s i ((List.range j).drop (i + 1)) with
    | error e => simp [h1] at h
    | ok s1 => simp only [h1] at h; exact convertOuter_cinv is s1 s' (convertInner_cinv _ _ _ I h1) h

/-! ## the first pass and the sort -/

theorem updateAll_frame {y0 : Int} : ∀ (segs : List HorzSeg) (H H1 : Heap) (segs1 : List HorzSeg) (j : Nat),
    (∀ hs ∈ segs, OnY H y0 hs.leftOp) → updateAll H segs = .ok (H1, segs1, j) →
    SameLinks H H1 ∧ H1.recs = H.recs ∧ orecOf H1 = orecOf H ∧ (∀ hs ∈ segs1, OnY H1 y0 hs.leftOp) ∧ segs1.length = segs.length
  | [], H, H1, segs1, j, _, h => by
    simp only [updateAll, Except.ok.injEq, Prod.mk.injEq] at h
    obtain ⟨rfl, rfl, rfl⟩ := h
    exact ⟨SameLinks.refl _, rfl, rfl, by simp, rfl⟩
  | hs :: rest, H, H1, segs1, j, hl, h => by
    unfold updateAll at h
    cases hu : updateHorzSegment H hs with
    | error e => simp [hu] at h
    | ok r =>
      obtain ⟨Ha, hsa, b⟩ := r
      simp only [hu] at h
      cases hr : updateAll Ha rest with
      | error e => simp [hr] at h
      | ok r2 =>
        obtain ⟨Hb, restb, jb⟩ := r2
        simp only [hr, Except.ok.injEq, Prod.mk.injEq] at h
        obtain ⟨rfl, rfl, rfl⟩ := h
        obtain ⟨s1, r1, o1, l1, _, _⟩ := updateHorzSegment_frame (hl hs (by simp)) hu
        have hl' : ∀ x ∈ rest, OnY Ha y0 x.leftOp := fun x hx => (hl x (List.mem_cons_of_mem _ hx)).of_ptOf_eq (by rw [s1.2.2.1])
        obtain ⟨s2, r2, o2, l2, len2⟩ := updateAll_frame rest Ha Hb restb jb hl' hr
        refine ⟨s1.trans s2, r2.trans r1, o2.trans o1, ?_, by simp [len2]⟩
        intro x hx
        rcases List.mem_cons.1 hx with rfl | hx
        · exact l1.of_ptOf_eq (by rw [s2.2.2.1])
        · exact l2 x hx

theorem keyed_map {H : Heap} : ∀ (segs : List HorzSeg) (ks : List (HorzSeg × Int)), keyed H segs = .ok ks → ks.map (·.1) = segs
  | [], ks, h => by simp only [keyed, Except.ok.injEq] at h; subst h; rfl
  | hs :: rest, ks, h => by
    unfold keyed at h
    cases hn : H.node hs.leftOp with
    | error e => simp [hn] at h
    | ok n =>
      cases hk : keyed H rest with
      | error e => simp [hn, hk] at h
      | ok ks' =>
        simp only [hn, hk, Except.ok.injEq] at h; subst h
        simp [keyed_map rest ks' hk]

theorem sortSegs_perm {H : Heap} {segs sorted : List HorzSeg} (h : sortSegs H segs = .ok sorted) : sorted.Perm segs := by
  unfold sortSegs at h
  cases hk : keyed H segs with
  | error e => simp [hk] at h
  | ok ks =>
    simp only [hk, Except.ok.injEq] at h; subst h
    have := (List.mergeSort_perm ks segLe).map (·.1)
    rw [keyed_map segs ks hk] at this; exact this

theorem CInv.final {H : Heap} {y0 : Int} {nr : Nat} {joins : List HorzJoin} {s : CState} (I : CInv H y0 nr joins s) :
    ∃ rs' m, Rings s.H rs' ∧ rs'.length = nr ∧ s.H.recs = H.recs ∧
      s.H.ops.size = H.ops.size + 2 * m ∧ s.joins = joins ++ (List.range m).map (newJoin H.ops.size) ∧
      (∀ i, i < H.ops.size → ptOf s.H i = ptOf H i ∧ orecOf s.H i = orecOf H i) ∧
      (∀ i, H.ops.size ≤ i → i < s.H.ops.size → OnY s.H y0 i ∧ ∃ a, a < H.ops.size ∧ ptOf s.H i = ptOf H a ∧ orecOf s.H i = orecOf H a) ∧
      (∀ hs ∈ s.segs.toList, OnY s.H y0 hs.leftOp) ∧ (RectEdges H → RectEdges s.H) := by
  obtain ⟨rs', R', hl'⟩ := I.rings
  obtain ⟨m, hm, hj⟩ := I.made
  exact ⟨rs', m, R', hl', I.recs, hm, hj, I.old, I.fresh, I.segs, I.rect⟩

/-- **`ConvertHorzSegsToJoins` on a heap of rings whose trial `OutPt`s all lie on the scanline `y0`**: if it returns, then
* the heap still falls into the same number of rings, the records and every old `OutPt`'s point and `outrec` are unchanged;
* it made `m` joins, appended to `horz_join_list_`; the `t`-th has the ops `n0 + 2t` and `n0 + 2t + 1` (`n0` = old heap size):
  exactly these `2m` `OutPt`s were allocated;
* every new `OutPt` carries the point and `outrec` of an old one, and lies on the scanline: **both ops of every join made
  have `y = y0`**;
* if every edge of the heap was horizontal or vertical, every edge still is. -/
theorem convertHorzSegsToJoins_keeps {H H' : Heap} {rs : List (List Nat)} {segs segs' : List HorzSeg} {joins joins' : List HorzJoin} {y0 : Int}
    (R : Rings H rs) (hline : ∀ hs ∈ segs, OnY H y0 hs.leftOp)
    (h : convertHorzSegsToJoins H segs joins = .ok (H', segs', joins')) :
    ∃ rs' m, Rings H' rs' ∧ rs'.length = rs.length ∧ H'.recs = H.recs ∧
      H'.ops.size = H.ops.size + 2 * m ∧ joins' = joins ++ (List.range m).map (newJoin H.ops.size) ∧
      (∀ i, i < H.ops.size → ptOf H' i = ptOf H i ∧ orecOf H' i = orecOf H i) ∧
      (∀ i, H.ops.size ≤ i → i < H'.ops.size → OnY H' y0 i ∧ ∃ a, a < H.ops.size ∧ ptOf H' i = ptOf H a ∧ orecOf H' i = orecOf H a) ∧
      (∀ hs ∈ segs', OnY H' y0 hs.leftOp) ∧ (RectEdges H → RectEdges H') := by
  unfold convertHorzSegsToJoins at h
  cases hu : updateAll H segs with
  | error e => simp [hu] at h
  | ok r =>
    obtain ⟨H1, segs1, j⟩ := r
    simp only [hu] at h
    obtain ⟨sl, rc, oc, l1, _⟩ := updateAll_frame segs H H1 segs1 j hline hu
    have R1 : Rings H1 rs := R.of_sameLinks sl
    have base : CInv H y0 rs.length joins { H := H1, segs := segs1.toArray, joins := joins } := by
      refine ⟨⟨rs, R1, rfl⟩, rc, ?_, ⟨0, by simp [sl.2.2.2], by simp⟩, ?_, ?_, fun r0 => r0.of_sameLinks sl⟩
      · intro i _; rw [sl.2.2.1, oc]; exact ⟨rfl, rfl⟩
      · intro i h0 hi; rw [sl.2.2.2] at hi; omega
      · intro hs hhs; exact l1 hs (by simpa using hhs)
    split at h
    · simp only [Except.ok.injEq, Prod.mk.injEq] at h
      obtain ⟨rfl, rfl, rfl⟩ := h
      have := base.final
      simpa using this
    · cases hs : sortSegs H1 segs1 with
      | error e => simp [hs] at h
      | ok sorted =>
        simp only [hs] at h
        cases ho : convertOuter j { H := H1, segs := sorted.toArray, joins := joins } (List.range (j - 1)) with
        | error e => simp [ho] at h
        | ok s =>
          simp only [ho, Except.ok.injEq, Prod.mk.injEq] at h
          obtain ⟨rfl, rfl, rfl⟩ := h
          have base' : CInv H y0 rs.length joins { H := H1, segs := sorted.toArray, joins := joins } := by
            refine ⟨base.rings, base.recs, base.old, base.made, base.fresh, ?_, base.rect⟩
            intro x hx
            have : x ∈ sorted := by simpa using hx
            exact l1 x ((sortSegs_perm hs).mem_iff.1 this)
          exact (convertOuter_cinv _ _ _ base' ho).final

end Clipper.Model.HorzJoins
