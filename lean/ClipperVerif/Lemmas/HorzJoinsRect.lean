/-
Rectilinear rings (consecutive points share a coordinate) under `DuplicateOp` and under the surgery of `ProcessHorzJoins`.
Helper file of `Props/C02Horz.lean`.  Core Lean only.
-/
import ClipperVerif.Lemmas.HorzJoinsFrame
namespace Clipper.Model.HorzJoins
open Clipper

/-- consecutive elements are related -/
def ChainR (r : Nat → Nat → Prop) : List Nat → Prop
  | [] => True
  | [_] => True
  | a :: b :: t => r a b ∧ ChainR r (b :: t)

@[simp] theorem chainR_nil (r : Nat → Nat → Prop) : ChainR r [] = True := rfl
@[simp] theorem chainR_single (r : Nat → Nat → Prop) (a : Nat) : ChainR r [a] = True := rfl
@[simp] theorem chainR_cons2 (r : Nat → Nat → Prop) (a b : Nat) (t : List Nat) :
    ChainR r (a :: b :: t) = (r a b ∧ ChainR r (b :: t)) := rfl

theorem chainR_append (r : Nat → Nat → Prop) (l1 : List Nat) (m : Nat) (l2 : List Nat) :
    ChainR r (l1 ++ m :: l2) ↔ ChainR r (l1 ++ [m]) ∧ ChainR r (m :: l2) := by
  induction l1 with
  | nil => simp
  | cons a t ih =>
    cases t with
    | nil => simp
    | cons b t' =>
      simp only [List.cons_append, chainR_cons2] at ih ⊢
      rw [ih]; exact and_assoc.symm

theorem chainR_mono {r s : Nat → Nat → Prop} : ∀ (l : List Nat), (∀ a b, a ∈ l → b ∈ l → r a b → s a b) → ChainR r l → ChainR s l
  | [], _, _ => trivial
  | [_], _, _ => trivial
  | a :: b :: t, h, hc => by
    simp only [chainR_cons2] at hc ⊢
    exact ⟨h a b (by simp) (by simp) hc.1,
      chainR_mono (b :: t) (fun x y hx hy => h x y (List.mem_cons_of_mem _ hx) (List.mem_cons_of_mem _ hy)) hc.2⟩

theorem chainR_cons_head {r : Nat → Nat → Prop} {a x : Nat} {l : List Nat} (hx : l.head? = some x) :
    ChainR r (a :: l) ↔ r a x ∧ ChainR r l := by
  cases l with
  | nil => simp at hx
  | cons b t => simp at hx; subst hx; rfl

theorem chainR_snoc_last {r : Nat → Nat → Prop} {z x : Nat} {l : List Nat} (hx : l.getLast? = some x) :
    ChainR r (l ++ [z]) ↔ ChainR r l ∧ r x z := by
  obtain ⟨l0, rfl⟩ := List.getLast?_eq_some_iff.1 hx
  have : l0 ++ [x] ++ [z] = l0 ++ x :: [z] := by simp
  rw [this, chainR_append]
  simp

/-- the two nodes carry points sharing a coordinate: the edge between them is horizontal or vertical (or degenerate) -/
def Aligned (P : Nat → Option Pt) (a b : Nat) : Prop :=
  ∃ p q, P a = some p ∧ P b = some q ∧ (p.x = q.x ∨ p.y = q.y)

/-- the two nodes carry points with the same `y` -/
def SameY (P : Nat → Option Pt) (a b : Nat) : Prop :=
  ∃ p q, P a = some p ∧ P b = some q ∧ p.y = q.y

theorem SameY.aligned {P : Nat → Option Pt} {a b : Nat} (h : SameY P a b) : Aligned P a b := by
  obtain ⟨p, q, hp, hq, e⟩ := h; exact ⟨p, q, hp, hq, Or.inr e⟩

/-- every edge of the closed ring `c` is horizontal or vertical -/
def RectRing (P : Nat → Option Pt) : List Nat → Prop
  | [] => True
  | a :: t => ChainR (Aligned P) (a :: t ++ [a])

theorem rectRing_rot {P : Nat → Option Pt} (a b : List Nat) (h : RectRing P (a ++ b)) : RectRing P (b ++ a) := by
  cases a with
  | nil => simpa using h
  | cons x a' =>
    cases b with
    | nil => simpa using h
    | cons y b' =>
      have h1 : ChainR (Aligned P) ((x :: a') ++ y :: (b' ++ [x])) := by
        have : ChainR (Aligned P) (x :: (a' ++ y :: b') ++ [x]) := h
        simpa using this
      rw [chainR_append] at h1
      have h2 : ChainR (Aligned P) ((y :: b') ++ x :: (a' ++ [y])) := by
        rw [chainR_append]
        exact ⟨by simpa using h1.2, by simpa using h1.1⟩
      show ChainR (Aligned P) (y :: (b' ++ x :: a') ++ [y])
      simpa using h2

/-- **split**: the ring `op1 :: X ++ op2 :: Y` is cut into `op1 :: op2 :: Y` and `X`; the two new edges `op1 → op2` and
`last X → head X` are horizontal, so both pieces are rectilinear if the ring was. -/
theorem rect_split {P : Nat → Option Pt} {op1 op2 x0 xl : Nat} {X Y : List Nat}
    (h : RectRing P (op1 :: X ++ op2 :: Y)) (hx0 : X.head? = some x0) (hxl : X.getLast? = some xl)
    (f1 : SameY P op1 op2) (f2 : SameY P xl x0) :
    RectRing P (op1 :: op2 :: Y) ∧ RectRing P X := by
  have hch : ChainR (Aligned P) ((op1 :: X) ++ op2 :: (Y ++ [op1])) := by
    have : ChainR (Aligned P) (op1 :: (X ++ op2 :: Y) ++ [op1]) := h
    simpa using this
  rw [chainR_append] at hch
  obtain ⟨hcX, hcY⟩ := hch
  have hX1 : (X ++ [op2]).head? = some x0 := by cases X <;> simp_all
  have hcX' : ChainR (Aligned P) X := by
    have : ChainR (Aligned P) (op1 :: (X ++ [op2])) := by simpa using hcX
    rw [chainR_cons_head hX1] at this
    exact ((chainR_snoc_last hxl).1 this.2).1
  refine ⟨?_, ?_⟩
  · show ChainR (Aligned P) (op1 :: op2 :: Y ++ [op1])
    simp only [List.cons_append, chainR_cons2]
    exact ⟨f1.aligned, by simpa using hcY⟩
  · cases X with
    | nil => trivial
    | cons a t =>
      simp at hx0; subst hx0
      show ChainR (Aligned P) (a :: t ++ [a])
      rw [chainR_snoc_last hxl]
      exact ⟨hcX', f2.aligned⟩

/-- **merge**: the rings `op1 :: X` and `op2 :: Y` become `op1 :: op2 :: Y ++ X`; the two new edges `op1 → op2` and
`last (op2 :: Y) → head (X ++ [op1])` are horizontal. -/
theorem rect_merge {P : Nat → Option Pt} {op1 op2 x0 yl : Nat} {X Y : List Nat}
    (h1 : RectRing P (op1 :: X)) (h2 : RectRing P (op2 :: Y))
    (hx0 : (X ++ [op1]).head? = some x0) (hyl : (op2 :: Y).getLast? = some yl)
    (f1 : SameY P op1 op2) (f2 : SameY P yl x0) :
    RectRing P (op1 :: op2 :: (Y ++ X)) := by
  have c1 : ChainR (Aligned P) (op1 :: (X ++ [op1])) := by
    have : ChainR (Aligned P) (op1 :: X ++ [op1]) := h1
    simpa using this
  have c2 : ChainR (Aligned P) ((op2 :: Y) ++ [op2]) := h2
  rw [chainR_cons_head hx0] at c1
  rw [chainR_snoc_last hyl] at c2
  show ChainR (Aligned P) (op1 :: op2 :: (Y ++ X) ++ [op1])
  have e : op1 :: op2 :: (Y ++ X) ++ [op1] = op1 :: ((op2 :: Y) ++ (X ++ [op1])) := by simp
  rw [e]
  have hh : ((op2 :: Y) ++ (X ++ [op1])).head? = some op2 := by simp
  rw [chainR_cons_head hh]
  refine ⟨f1.aligned, ?_⟩
  -- (op2 :: Y) ++ (X ++ [op1]) with X ++ [op1] = x0 :: tl
  obtain ⟨tl, htl⟩ : ∃ tl, X ++ [op1] = x0 :: tl := by
    cases h : X ++ [op1] with
    | nil => simp at h
    | cons a t => rw [h] at hx0; simp at hx0; subst hx0; exact ⟨t, rfl⟩
  rw [htl, chainR_append]
  refine ⟨?_, by rw [← htl]; exact c1.2⟩
  rw [chainR_snoc_last hyl]
  exact ⟨c2.1, f2.aligned⟩

/-- a duplicated node (same point as `op`, linked in next to it) keeps a ring rectilinear -/
theorem rect_dup_after {P P' : Nat → Option Pt} {op new : Nat} {pre post : List Nat}
    (h : RectRing P (pre ++ op :: post)) (hP : ∀ i ∈ pre ++ op :: post, P' i = P i) (hnew : P' new = P op)
    (hop : ∃ p, P op = some p) :
    RectRing P' (pre ++ op :: new :: post) := by
  have hrot : RectRing P (op :: (post ++ pre)) := by
    have := rectRing_rot pre (op :: post) h; simpa using this
  obtain ⟨p, hp⟩ := hop
  have hc : ChainR (Aligned P) (op :: ((post ++ pre) ++ [op])) := by
    have : ChainR (Aligned P) (op :: (post ++ pre) ++ [op]) := hrot
    simpa using this
  obtain ⟨s, hs⟩ : ∃ s, ((post ++ pre) ++ [op]).head? = some s := by
    cases h : (post ++ pre) ++ [op] with
    | nil => simp at h
    | cons a t => exact ⟨a, rfl⟩
  rw [chainR_cons_head hs] at hc
  have hsm : s ∈ pre ++ op :: post := by
    have := mem_of_head? hs
    grind
  have hcong : ChainR (Aligned P') ((post ++ pre) ++ [op]) := by
    apply chainR_mono _ _ hc.2
    intro a b ha hb hab
    have ha' : a ∈ pre ++ op :: post := by grind
    have hb' : b ∈ pre ++ op :: post := by grind
    obtain ⟨pa, pb, h1, h2, h3⟩ := hab
    exact ⟨pa, pb, by rw [hP a ha', h1], by rw [hP b hb', h2], h3⟩
  have hr : RectRing P' (op :: new :: (post ++ pre)) := by
    show ChainR (Aligned P') (op :: new :: (post ++ pre) ++ [op])
    have e : op :: new :: (post ++ pre) ++ [op] = op :: new :: ((post ++ pre) ++ [op]) := by simp
    rw [e, chainR_cons2, chainR_cons_head hs]
    refine ⟨⟨p, p, by rw [hP op (by simp), hp], by rw [hnew, hp], Or.inl rfl⟩, ?_, hcong⟩
    obtain ⟨pa, pb, h1, h2, h3⟩ := hc.1
    exact ⟨pa, pb, by rw [hnew, h1], by rw [hP s hsm, h2], h3⟩
  have := rectRing_rot (op :: new :: post) pre (by simpa using hr)
  simpa using this

theorem rect_dup_before {P P' : Nat → Option Pt} {op new : Nat} {pre post : List Nat}
    (h : RectRing P (pre ++ op :: post)) (hP : ∀ i ∈ pre ++ op :: post, P' i = P i) (hnew : P' new = P op)
    (hop : ∃ p, P op = some p) :
    RectRing P' (pre ++ new :: op :: post) := by
  -- rotate so that op is last: (post ++ pre) ++ [op], then insert new before op
  have hrot : RectRing P (op :: (post ++ pre)) := by
    have := rectRing_rot pre (op :: post) h; simpa using this
  obtain ⟨p, hp⟩ := hop
  have hc : ChainR (Aligned P) ((op :: (post ++ pre)) ++ [op]) := hrot
  obtain ⟨z, hz⟩ : ∃ z, (op :: (post ++ pre)).getLast? = some z := by
    rw [List.getLast?_eq_some_getLast (by simp)]; exact ⟨_, rfl⟩
  rw [chainR_snoc_last hz] at hc
  have hzm : z ∈ pre ++ op :: post := by
    have := mem_of_getLast? hz
    grind
  have hcong : ChainR (Aligned P') (op :: (post ++ pre)) := by
    apply chainR_mono _ _ hc.1
    intro a b ha hb hab
    have ha' : a ∈ pre ++ op :: post := by grind
    have hb' : b ∈ pre ++ op :: post := by grind
    obtain ⟨pa, pb, h1, h2, h3⟩ := hab
    exact ⟨pa, pb, by rw [hP a ha', h1], by rw [hP b hb', h2], h3⟩
  have hr : RectRing P' (op :: (post ++ pre) ++ [new]) := by
    show ChainR (Aligned P') (op :: ((post ++ pre) ++ [new]) ++ [op])
    have e : op :: ((post ++ pre) ++ [new]) ++ [op] = ((op :: (post ++ pre)) ++ [new]) ++ [op] := by simp
    rw [e]
    have hl : ((op :: (post ++ pre)) ++ [new]).getLast? = some new := List.getLast?_eq_some_iff.2 ⟨_, rfl⟩
    rw [chainR_snoc_last hl, chainR_snoc_last hz]
    refine ⟨⟨hcong, ?_⟩, ⟨p, p, by rw [hnew, hp], by rw [hP op (by simp), hp], Or.inl rfl⟩⟩
    obtain ⟨pa, pb, h1, h2, h3⟩ := hc.2
    exact ⟨pa, pb, by rw [hP z hzm, h1], by rw [hnew, h2], h3⟩
  have := rectRing_rot (op :: post) (pre ++ [new]) (by simpa using hr)
  simpa using this

end Clipper.Model.HorzJoins
