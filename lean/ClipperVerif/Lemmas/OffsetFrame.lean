/- Helper lemmas about the offset frame model (index ranges of the loops, the normal reversal). -/
import ClipperVerif.Model.OffsetFrame
namespace Clipper.OffsetFrame
open Clipper

theorem rd_ok {l : List α} {i : Nat} (h : i < l.length) : rd l i = .ok l[i] := by
  simp [rd, List.getElem?_eq_getElem h]

theorem rd_oob {l : List α} {i : Nat} (h : l.length ≤ i) : rd l i = .error .oob := by
  simp [rd, List.getElem?_eq_none h]

theorem rd_eq_ok {l : List α} {i : Nat} {a : α} : rd l i = .ok a ↔ l[i]? = some a := by
  unfold rd
  cases h : l[i]? <;> simp

theorem wr_ok {l : List α} {i : Nat} {a : α} (h : i < l.length) : wr l i a = .ok (l.set i a) := by
  simp [wr, h]

/-- every read of `OffsetPoint` is in range when `j`, `k` are -/
theorem offsetPoint_ok (g : Geo N) (jt : JoinType) (tl gd : Rat) (path : Path) (norms : List N) (j k : Nat)
    (hj : j < path.length) (hk : k < path.length) (hn : norms.length = path.length) :
    ∃ es, offsetPoint g jt tl gd path norms j k = .ok es := by
  unfold offsetPoint
  rw [rd_ok hj, rd_ok hk]
  simp only
  split
  · exact ⟨_, rfl⟩
  · rw [rd_ok (hn ▸ hj), rd_ok (hn ▸ hk)]
    simp only
    split <;> exact ⟨_, rfl⟩

theorem mapE_ok {f : α → Except Fault (List β)} {l : List α} (h : ∀ a ∈ l, ∃ b, f a = .ok b) :
    ∃ bs, mapE f l = .ok bs := by
  induction l with
  | nil => exact ⟨[], rfl⟩
  | cons a as ih =>
    obtain ⟨b, hb⟩ := h a (by simp)
    obtain ⟨bs, hbs⟩ := ih (fun x hx => h x (by simp [hx]))
    exact ⟨b ++ bs, by simp [mapE, hb, hbs]⟩

theorem upLoop_bound (hi : Nat) : ∀ (fuel j0 k0 : Nat) (p : Nat × Nat), p ∈ upLoop hi fuel j0 k0 →
    p.1 < hi ∧ j0 ≤ p.1 ∧ (p.2 = k0 ∨ p.2 < p.1) := by
  intro fuel
  induction fuel with
  | zero => intro j0 k0 p hp; simp [upLoop] at hp
  | succ n ih =>
    intro j0 k0 p hp
    simp only [upLoop] at hp
    split at hp
    · rcases List.mem_cons.mp hp with rfl | hp
      · exact ⟨by assumption, Nat.le_refl _, Or.inl rfl⟩
      · obtain ⟨h1, h2, h3⟩ := ih (j0 + 1) j0 p hp
        exact ⟨h1, by omega, Or.inr (by omega)⟩
    · simp at hp

theorem downLoop_bound : ∀ (j k : Nat) (p : Nat × Nat), p ∈ downLoop j k →
    1 ≤ p.1 ∧ p.1 ≤ j ∧ (p.2 = k ∨ p.2 = p.1 + 1) := by
  intro j
  induction j with
  | zero => intro k p hp; simp [downLoop] at hp
  | succ n ih =>
    intro k p hp
    simp only [downLoop] at hp
    rcases List.mem_cons.mp hp with rfl | hp
    · exact ⟨by simp, Nat.le_refl _, Or.inl rfl⟩
    · obtain ⟨h1, h2, h3⟩ := ih (n + 1) p hp
      refine ⟨h1, by omega, ?_⟩
      rcases h3 with h3 | h3
      · -- p.2 = n + 1 and p.1 ≤ n: only consistent with p.2 = p.1 + 1 when p.1 = n; otherwise the general bound
        exact Or.inr (by
          -- members of `downLoop n (n+1)` have p.2 = p.1 + 1: the head is (n, n+1)
          have : ∀ (m k' : Nat) (q : Nat × Nat), q ∈ downLoop m k' → k' = m + 1 → q.2 = q.1 + 1 := by
            intro m
            induction m with
            | zero => intro k' q hq; simp [downLoop] at hq
            | succ m ihm =>
              intro k' q hq hk'
              simp only [downLoop] at hq
              rcases List.mem_cons.mp hq with rfl | hq
              · simpa using hk'
              · exact ihm (m + 1) q hq rfl
          exact this n (n + 1) p hp rfl)
      · exact Or.inr h3

theorem buildNormals_length (g : Geo N) (path : Path) : (buildNormals g path).length = path.length := by
  cases path with
  | nil => rfl
  | cons a rest =>
    simp [buildNormals, segsOf, List.length_zip]


theorem offsetPolygon_ok (g : Geo N) (jt : JoinType) (tl gd : Rat) (path : Path) (norms : List N)
    (hn : norms.length = path.length) : ∃ es, offsetPolygon g jt tl gd path norms = .ok es := by
  unfold offsetPolygon
  have h := mapE_ok (f := fun jk => offsetPoint g jt tl gd path norms jk.1 jk.2) (l := polygonIdx path.length)
    (by
      intro p hp
      obtain ⟨h1, _, h3⟩ := upLoop_bound _ _ _ _ p hp
      exact offsetPoint_ok g jt tl gd path norms p.1 p.2 h1 (by omega) hn)
  obtain ⟨bs, hbs⟩ := h
  rw [hbs]
  exact ⟨_, rfl⟩

theorem joinedNorms_ok (g : Geo N) (norms : List N) (h : 0 < norms.length) :
    ∃ ns, joinedNorms g norms = .ok ns ∧ ns.length = norms.length := by
  unfold joinedNorms
  have hr : 0 < norms.reverse.length := by simpa using h
  simp only [rd_ok hr]
  refine ⟨_, rfl, ?_⟩
  simp

theorem offsetOpenJoined_ok (g : Geo N) (jt : JoinType) (tl gd : Rat) (path : Path) (norms : List N)
    (hn : norms.length = path.length) (h1 : 1 ≤ path.length) :
    ∃ es, offsetOpenJoined g jt tl gd path norms = .ok es := by
  unfold offsetOpenJoined
  obtain ⟨a, ha⟩ := offsetPolygon_ok g jt tl gd path norms hn
  obtain ⟨ns, hns, hlen⟩ := joinedNorms_ok g norms (by omega)
  obtain ⟨b, hb⟩ := offsetPolygon_ok g jt tl gd path.reverse ns (by simp [hlen, hn])
  rw [ha, hns]
  simp only
  rw [hb]
  exact ⟨_, rfl⟩

theorem revLoop_spec (g : Geo N) : ∀ (i : Nat) (ns : List N), i < ns.length →
    ∃ ns', revLoop g i ns = .ok ns' ∧ ns'.length = ns.length ∧
      (∀ m, 1 ≤ m → m ≤ i → ns'[m]? = (ns[m - 1]?).map g.neg) ∧
      (∀ m, (m = 0 ∨ i < m) → ns'[m]? = ns[m]?) := by
  intro i
  induction i with
  | zero =>
    intro ns _
    exact ⟨ns, rfl, rfl, by intro m h1 h2; omega, by intro m _; rfl⟩
  | succ i ih =>
    intro ns hi
    have hi' : i < ns.length := by omega
    simp only [revLoop, rd_ok hi', wr_ok hi]
    obtain ⟨ns', h0, h1, h2, h3⟩ := ih (ns.set (i + 1) (g.neg ns[i])) (by simpa using hi')
    refine ⟨ns', h0, by simpa using h1, ?_, ?_⟩
    · intro m hm1 hm2
      by_cases hm : m ≤ i
      · rw [h2 m hm1 hm, List.getElem?_set_ne (by omega)]
      · have : m = i + 1 := by omega
        subst this
        rw [h3 (i + 1) (Or.inr (by omega)), List.getElem?_set_self hi]
        simp [List.getElem?_eq_getElem hi']
    · intro m hm
      rcases hm with rfl | hm
      · rw [h3 0 (Or.inl rfl), List.getElem?_set_ne (by omega)]
      · rw [h3 m (Or.inr (by omega)), List.getElem?_set_ne (by omega)]

/-- after the reversal block: `norms[m] = -old[m-1]` for `1 ≤ m ≤ highI`, `norms[0] = -old[highI-1]` -/
theorem reverseNorms_spec (g : Geo N) (highI : Nat) (ns : List N) (h : highI < ns.length) (h1 : 1 ≤ highI) :
    ∃ ns', reverseNorms g highI ns = .ok ns' ∧ ns'.length = ns.length ∧
      (∀ m, 1 ≤ m → m ≤ highI → ns'[m]? = (ns[m - 1]?).map g.neg) ∧
      ns'[0]? = (ns[highI - 1]?).map g.neg := by
  obtain ⟨l, h0, hl, h2, h3⟩ := revLoop_spec g highI ns h
  unfold reverseNorms
  rw [h0]
  simp only
  have hh : highI < l.length := by omega
  rw [rd_ok hh]
  simp only
  rw [wr_ok (by omega)]
  refine ⟨_, rfl, by simpa using hl, ?_, ?_⟩
  · intro m hm1 hm2
    rw [List.getElem?_set_ne (by omega), h2 m hm1 hm2]
  · rw [List.getElem?_set_self (by omega)]
    have := h2 highI h1 (Nat.le_refl _)
    rw [List.getElem?_eq_getElem hh] at this
    exact this

theorem reverseNorms_ok0 (g : Geo N) (ns : List N) (h : 0 < ns.length) :
    ∃ ns', reverseNorms g 0 ns = .ok ns' ∧ ns'.length = ns.length := by
  unfold reverseNorms
  simp only [revLoop, rd_ok h, wr_ok h]
  exact ⟨_, rfl, by simp⟩

theorem cap_ok (et : EndType) (gd : Rat) (path : Path) (norms : List N) (i : Nat)
    (hi : i < path.length) (hn : norms.length = path.length) : ∃ es, cap et gd path norms i = .ok es := by
  unfold cap
  rw [rd_ok hi]
  simp only
  split
  · exact ⟨_, rfl⟩
  · rw [rd_ok (hn ▸ hi)]
    simp only
    split <;> exact ⟨_, rfl⟩

theorem offsetOpenPath_ok (g : Geo N) (jt : JoinType) (et : EndType) (tl gd : Rat) (path : Path) (norms : List N)
    (hn : norms.length = path.length) (h1 : 1 ≤ path.length) :
    ∃ es, offsetOpenPath g jt et tl gd path norms = .ok es := by
  unfold offsetOpenPath
  obtain ⟨c0, hc0⟩ := cap_ok et gd path norms 0 (by omega) hn
  have hf := mapE_ok (f := fun jk => offsetPoint g jt tl gd path norms jk.1 jk.2)
    (l := upLoop (path.length - 1) (path.length - 1) 1 0)
    (by
      intro p hp
      obtain ⟨h1, h2, h3⟩ := upLoop_bound _ _ _ _ p hp
      exact offsetPoint_ok g jt tl gd path norms p.1 p.2 (by omega) (by omega) hn)
  obtain ⟨fwd, hfwd⟩ := hf
  have hrev : ∃ ns', reverseNorms g (path.length - 1) norms = .ok ns' ∧ ns'.length = norms.length := by
    by_cases h2 : 1 ≤ path.length - 1
    · obtain ⟨ns', a, b, _⟩ := reverseNorms_spec g (path.length - 1) norms (by omega) h2
      exact ⟨ns', a, b⟩
    · have : path.length - 1 = 0 := by omega
      rw [this]
      exact reverseNorms_ok0 g norms (by omega)
  obtain ⟨ns', hns', hlen⟩ := hrev
  obtain ⟨c1, hc1⟩ := cap_ok et gd path ns' (path.length - 1) (by omega) (by omega)
  have hb := mapE_ok (f := fun jk => offsetPoint g jt tl gd path ns' jk.1 jk.2)
    (l := downLoop (path.length - 1 - 1) (path.length - 1))
    (by
      intro p hp
      obtain ⟨h1, h2, h3⟩ := downLoop_bound _ _ p hp
      exact offsetPoint_ok g jt tl gd path ns' p.1 p.2 (by omega) (by omega) (by omega))
  obtain ⟨bwd, hbwd⟩ := hb
  simp only [hc0, hfwd, hns', hc1, hbwd]
  exact ⟨_, rfl⟩


theorem buildNormals_getElem? (g : Geo N) (path : Path) (i : Nat) (h : i + 1 < path.length) :
    (buildNormals g path)[i]? = some (g.unitNormal (path[i]'(by omega)) path[i + 1]) := by
  cases path with
  | nil => simp at h
  | cons a rest =>
    have hi : i < rest.length := by simpa using h
    have hz : i < ((segsOf (a :: rest)).map (fun e => g.unitNormal e.1 e.2)).length := by
      simp [segsOf, List.length_zip]; omega
    simp only [buildNormals]
    rw [List.getElem?_append_left hz, List.getElem?_eq_getElem hz]
    simp [segsOf]

/-- the normals of the reversed path, in terms of the original points -/
theorem buildNormals_reverse_getElem? (g : Geo N) (path : Path) (m : Nat) (h1 : 1 ≤ m) (hm : m < path.length) :
    (buildNormals g path.reverse)[path.length - 1 - m]? = some (g.unitNormal path[m] (path[m - 1]'(by omega))) := by
  have hlen : path.reverse.length = path.length := List.length_reverse
  rw [buildNormals_getElem? g path.reverse (path.length - 1 - m) (by omega)]
  congr 2
  · rw [List.getElem_reverse]; congr 1; omega
  · rw [List.getElem_reverse]; congr 1; omega

end Clipper.OffsetFrame
