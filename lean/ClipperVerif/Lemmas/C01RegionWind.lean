/-
Helper lemmas for `Props/C01Region.lean`, part 4: the winding number of `Spec/Basic.lean` by ray casting, in terms of the sweep edges
of `Model/SweepOrder.build` and their `wind_dx` labels.  Core Lean only.

Orientation.  `Spec.crossing p a b` casts a ray towards +x: an edge to the RIGHT of `p` counts, `+1` when the path runs towards larger y
(`a.y ≤ p.y < b.y`), `−1` when it runs towards smaller y.  The sweep has y growing downwards: an edge's `bot` is its end with the larger
y, and `wind_dx = +1` iff the path runs from `bot` to `top`, i.e. towards smaller y.  So an edge to the right of `p` contributes
`−wind_dx`; a closed path crosses every scanline equally often in both directions, hence the edges to the LEFT of `p` contribute
`+wind_dx` in total: the winding number is the prefix sum of `wind_dx` the bookkeeping model maintains.
-/
import ClipperVerif.Model.SweepEvents
import ClipperVerif.Lemmas.WindSpec
import ClipperVerif.Props.C13Spec
namespace Clipper.Lemmas.C01Region
open Clipper Clipper.WindSpec Clipper.Model.AelOrder Clipper.Model.SweepOrder Clipper.Model.SweepEvents

/-- is the height `v` below the scanline `yn` (larger y)? -/
def aboveI (yn v : Int) : Int := if yn < v then 1 else 0

/-- what the edge `e` with direction `dx` adds to the winding number of the point `(xn/yd, yn/yd)`: `dx` if it crosses the
scanline strictly left of the point -/
def leftTerm (e : SEdge) (dx xn yn yd : Int) : Int := if aliveAt e yn yd ∧ leftOfPt e xn yn yd then dx else 0

theorem mkEdge_down (i : Nat) {a b : Pt} (h : a.y > b.y) : mkEdge i a b = ⟨i, a, b⟩ := by simp [mkEdge, h]
theorem mkEdge_up (i : Nat) {a b : Pt} (h : ¬ a.y > b.y) : mkEdge i a b = ⟨i, b, a⟩ := by simp [mkEdge, h]

/-- **one directed edge `a → b`** of a path scaled by `d`, seen from the point `(xn, yn)` (not at the height of `a` or `b`, not on
the edge): its `Spec.crossing` is `wind_dx` if the edge is left of the point, minus the telescoping term
`[a below the scanline] − [b below the scanline]`. -/
theorem crossing_edge (i : Nat) (a b : Pt) (xn yn d : Int) (hd : 0 < d) (ha : yn ≠ a.y * d) (hb : yn ≠ b.y * d)
    (hoff : aliveAt (mkEdge i a b) yn d → ¬ onEdgeLine (mkEdge i a b) xn yn d) :
    crossing ⟨xn, yn⟩ (Pt.scale d a) (Pt.scale d b) =
      leftTerm (mkEdge i a b) (if a.y > b.y then 1 else -1) xn yn d - (aboveI yn (a.y * d) - aboveI yn (b.y * d)) := by
  by_cases h : a.y > b.y
  · rw [mkEdge_down i h] at hoff ⊢
    have hAB : b.y * d < a.y * d := Int.mul_lt_mul_of_pos_right h hd
    have hc : cross (Pt.scale d a) (Pt.scale d b) ⟨xn, yn⟩ = d * (-(xNum a b yn d - xn * (a.y - b.y))) := by
      simp only [cross, Pt.scale, xNum]; grind
    have hs := sign_mul (e := -(xNum a b yn d - xn * (a.y - b.y))) hd
    simp only [aliveAt, onEdgeLine, exD] at hoff
    unfold crossing
    rw [hc]
    generalize d * (-(xNum a b yn d - xn * (a.y - b.y))) = c at hs ⊢
    simp only [leftTerm, aliveAt, leftOfPt, aboveI, exD, Pt.scale, h, if_true, Int.mul_comm d]
    generalize xNum a b yn d = w at *
    generalize xn * (a.y - b.y) = v at *
    generalize a.y * d = A at *
    generalize b.y * d = B at *
    (repeat' split) <;> omega
  · rw [mkEdge_up i h] at hoff ⊢
    by_cases h2 : a.y = b.y
    · simp only [crossing, leftTerm, aliveAt, aboveI, Pt.scale, h2]
      generalize d * b.y = B at *
      generalize b.y * d = B' at *
      (repeat' split) <;> omega
    · have h3 : a.y < b.y := by omega
      have hAB : a.y * d < b.y * d := Int.mul_lt_mul_of_pos_right h3 hd
      have hc : cross (Pt.scale d a) (Pt.scale d b) ⟨xn, yn⟩ = d * (xNum b a yn d - xn * (b.y - a.y)) := by
        simp only [cross, Pt.scale, xNum]; grind
      have hs := sign_mul (e := xNum b a yn d - xn * (b.y - a.y)) hd
      simp only [aliveAt, onEdgeLine, exD] at hoff
      unfold crossing
      rw [hc]
      generalize d * (xNum b a yn d - xn * (b.y - a.y)) = c at hs ⊢
      simp only [leftTerm, aliveAt, leftOfPt, aboveI, exD, Pt.scale, h, if_false, Int.mul_comm d]
      generalize xNum b a yn d = w at *
      generalize xn * (b.y - a.y) = v at *
      generalize a.y * d = A at *
      generalize b.y * d = B at *
      (repeat' split) <;> omega

/-- the summand of a row of the label table -/
def rowTerm (xn yn yd : Int) (r : SEdge × PathType × Int) : Int := leftTerm r.1 r.2.2 xn yn yd

/-- **one closed path**, scaled by `d`, around the point `(xn, yn)` (at no vertex height, on no edge): its winding number is the sum
of `wind_dx` over its edges that cross the scanline left of the point -/
theorem windPath_scaled (off : Nat) (t : PathType) (p : Path) (xn yn d : Int) (hd : 0 < d)
    (hv : ∀ r ∈ pathLabels off t p, yn ≠ r.1.bot.y * d ∧ yn ≠ r.1.top.y * d)
    (hoff : ∀ r ∈ pathLabels off t p, aliveAt r.1 yn d → ¬ onEdgeLine r.1 xn yn d) :
    windPath (p.map (Pt.scale d)) ⟨xn, yn⟩ = ((pathLabels off t p).map (rowTerm xn yn d)).sum := by
  unfold windPath pathLabels
  rw [edgesOf_map, List.map_map, List.map_map]
  have hz : (edgesOf p).map ((fun e => crossing ⟨xn, yn⟩ e.1 e.2) ∘ fun e => (Pt.scale d e.1, Pt.scale d e.2)) =
      (edgesOf p).zipIdx.map (fun ei => crossing ⟨xn, yn⟩ (Pt.scale d ei.1.1) (Pt.scale d ei.1.2)) := by
    conv => lhs; rw [← List.zipIdx_map_fst 0 (edgesOf p)]
    rw [List.map_map]
    rfl
  rw [hz]
  have hstep : (edgesOf p).zipIdx.map (fun ei => crossing ⟨xn, yn⟩ (Pt.scale d ei.1.1) (Pt.scale d ei.1.2)) =
      (edgesOf p).zipIdx.map (fun ei =>
        (rowTerm xn yn d ∘ fun ei => (mkEdge (off + ei.2) ei.1.1 ei.1.2, t, if ei.1.1.y > ei.1.2.y then 1 else -1)) ei -
          (fun ei : (Pt × Pt) × Nat => aboveI yn (ei.1.1.y * d) - aboveI yn (ei.1.2.y * d)) ei) := by
    apply List.map_congr_left
    intro ei hei
    have hrow := List.mem_map_of_mem (f := fun ei : (Pt × Pt) × Nat =>
        (mkEdge (off + ei.2) ei.1.1 ei.1.2, t, if ei.1.1.y > ei.1.2.y then (1 : Int) else -1)) hei
    have hv' := hv _ hrow
    have hab : yn ≠ ei.1.1.y * d ∧ yn ≠ ei.1.2.y * d := by
      by_cases h : ei.1.1.y > ei.1.2.y
      · simp only [mkEdge_down _ h] at hv'; exact hv'
      · simp only [mkEdge_up _ h] at hv'; exact ⟨hv'.2, hv'.1⟩
    exact crossing_edge (off + ei.2) ei.1.1 ei.1.2 xn yn d hd hab.1 hab.2 (hoff _ hrow)
  rw [hstep, sum_map_sub]
  have htel : ((edgesOf p).zipIdx.map (fun ei : (Pt × Pt) × Nat => aboveI yn (ei.1.1.y * d) - aboveI yn (ei.1.2.y * d))).sum = 0 := by
    have e1 : (edgesOf p).zipIdx.map (fun ei : (Pt × Pt) × Nat => aboveI yn (ei.1.1.y * d) - aboveI yn (ei.1.2.y * d)) =
        ((edgesOf p).zipIdx.map Prod.fst).map (fun e => aboveI yn (e.1.y * d) - aboveI yn (e.2.y * d)) := by
      rw [List.map_map]; rfl
    rw [e1, List.zipIdx_map_fst]
    have := edges_telescope (fun v => -aboveI yn (v.y * d)) p
    have e2 : (edgesOf p).map (fun e => aboveI yn (e.1.y * d) - aboveI yn (e.2.y * d)) =
        (edgesOf p).map (fun e => (fun v : Pt => -aboveI yn (v.y * d)) e.2 - (fun v : Pt => -aboveI yn (v.y * d)) e.1) := by
      apply List.map_congr_left; intro e _; simp only; omega
    rw [e2]; exact this
  rw [htel]
  omega

/-- a path with fewer than three vertices winds around nothing -/
theorem windPath_short (p : Path) (h : p.length < 3) (q : Pt) : windPath p q = 0 := by
  match p, h with
  | [], _ => rfl
  | [a], _ => simp [windPath, edgesOf, Clipper.Props.C13Spec.crossing_self]
  | [a, b], _ =>
    simp only [windPath, edgesOf]
    have := Clipper.Props.C13Spec.crossing_swap q a b
    simp only [List.cons_append, List.nil_append, List.zip_cons_cons, List.zip_nil_right, List.map_cons, List.map_nil,
      List.sum_cons, List.sum_nil]
    omega

/-- **the winding number of closed paths around a rational point is the sum of `wind_dx` over the edges of the label table that
cross the scanline LEFT of the point** (paths with fewer than three vertices contribute nothing and have no edges in the table) -/
theorem wind_scaled (t : PathType) (xn yn d : Int) (hd : 0 < d) : ∀ (ps : Paths) (off : Nat),
    (∀ r ∈ labelsFrom off t ps, yn ≠ r.1.bot.y * d ∧ yn ≠ r.1.top.y * d) →
    (∀ r ∈ labelsFrom off t ps, aliveAt r.1 yn d → ¬ onEdgeLine r.1 xn yn d) →
    windQ ps xn yn d = ((labelsFrom off t ps).map (rowTerm xn yn d)).sum := by
  intro ps
  induction ps with
  | nil => intro off _ _; rfl
  | cons p ps ih =>
    intro off hv hoff
    have ih' := ih (off + p.length) (fun r hr => hv r (by simp only [labelsFrom, List.mem_append]; exact Or.inr hr))
      (fun r hr => hoff r (by simp only [labelsFrom, List.mem_append]; exact Or.inr hr))
    unfold windQ at ih' ⊢
    simp only [wind, List.map_cons, List.sum_cons, labelsFrom, List.map_append, List.sum_append] at ih' ⊢
    rw [ih']
    congr 1
    by_cases h3 : p.length < 3
    · simp only [h3, if_true, List.map_nil, List.sum_nil]
      exact windPath_short _ (by simpa using h3) _
    · simp only [h3, if_false]
      exact windPath_scaled off t p xn yn d hd
        (fun r hr => hv r (by simp only [labelsFrom, h3, if_false, List.mem_append]; exact Or.inl hr))
        (fun r hr => hoff r (by simp only [labelsFrom, h3, if_false, List.mem_append]; exact Or.inl hr))

end Clipper.Lemmas.C01Region
