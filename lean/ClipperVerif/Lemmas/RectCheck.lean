/-
Helper lemmas for C02: crossing numbers of axis-parallel edges in terms of coordinate comparisons only
("locators"), the sorted-distinct grid, and existence of a probe in every cell.
-/
import ClipperVerif.Model.RectCheck
import ClipperVerif.Lemmas.WindSpec
namespace Clipper.RectCheck
open Clipper Clipper.WindSpec

/-! ### crossing of an axis-parallel edge -/

theorem sign_neg_mul {d e : Int} (hd : 0 < d) :
    (-(d * e) > 0 ↔ e < 0) ∧ (-(d * e) < 0 ↔ 0 < e) := by
  have h1 : 0 < e → 0 < d * e := Int.mul_pos hd
  have h2 : e < 0 → d * e < 0 := Int.mul_neg_of_pos_of_neg hd
  have h3 : e = 0 → d * e = 0 := by intro h; rw [h]; simp
  generalize d * e = m at *
  omega

theorem cross_vert {a b p : Pt} (h : a.x = b.x) : cross a b p = -((b.y - a.y) * (p.x - a.x)) := by
  simp [cross, h]

/-- An axis-parallel edge contributes according to comparisons of `p` with its end point coordinates only. -/
theorem crossing_axis_raw {a b p : Pt} (h : a.x = b.x ∨ a.y = b.y) :
    crossing p a b = if p.x < a.x then
        (if a.y ≤ p.y ∧ p.y < b.y then 1 else if b.y ≤ p.y ∧ p.y < a.y then -1 else 0) else 0 := by
  rcases h with h | h
  · unfold crossing
    rw [cross_vert h]
    by_cases h1 : a.y ≤ p.y ∧ p.y < b.y
    · have hd : 0 < b.y - a.y := by omega
      have := (sign_neg_mul (e := p.x - a.x) hd).1
      simp only [h1, and_self, if_true]
      by_cases h2 : p.x < a.x
      · simp only [h2, if_true]; rw [if_pos]; exact this.2 (by omega)
      · simp only [h2, if_false]; rw [if_neg]; intro hc; exact h2 (by have := this.1 hc; omega)
    · simp only [h1, if_false]
      by_cases h3 : b.y ≤ p.y ∧ p.y < a.y
      · have hd : 0 < a.y - b.y := by omega
        have hs := sign_neg_mul (e := p.x - a.x) hd
        have e1 : -((b.y - a.y) * (p.x - a.x)) = -(-((a.y - b.y) * (p.x - a.x))) := by
          rw [show b.y - a.y = -(a.y - b.y) by omega, Int.neg_mul]
        rw [e1]
        simp only [h3, and_self, if_true]
        by_cases h2 : p.x < a.x
        · simp only [h2, if_true]; rw [if_pos]
          have := hs.1.2 (by omega); omega
        · simp only [h2, if_false]; rw [if_neg]
          intro hc
          have : -((a.y - b.y) * (p.x - a.x)) > 0 := by omega
          have := hs.1.1 this; omega
      · simp only [h3, if_false]; split <;> rfl
  · unfold crossing
    have n1 : ¬ (a.y ≤ p.y ∧ p.y < b.y) := by omega
    have n2 : ¬ (b.y ≤ p.y ∧ p.y < a.y) := by omega
    simp only [n1, n2, if_false]; split <;> rfl

/-! ### locators -/

/-- crossing contribution of an axis-parallel edge `a → b` for a point known only through its locators:
`lx g` = "the point's x is below grid value g", `ly g` likewise for y. -/
def crossB (lx ly : Int → Bool) (a b : Pt) : Int :=
  if lx a.x then (if !ly a.y && ly b.y then 1 else if !ly b.y && ly a.y then -1 else 0) else 0

def windPathB (lx ly : Int → Bool) (path : Path) : Int :=
  ((edgesOf path).map (fun e => crossB lx ly e.1 e.2)).sum

def windB (lx ly : Int → Bool) (ps : Paths) : Int := (ps.map (windPathB lx ly)).sum

/-- locators of the point `p` against grid values scaled by `k` -/
def locX (k : Int) (p : Pt) : Int → Bool := fun g => decide (p.x < k * g)
def locY (k : Int) (p : Pt) : Int → Bool := fun g => decide (p.y < k * g)

theorem crossing_scale_axis {a b : Pt} (k : Int) (p : Pt) (h : a.x = b.x ∨ a.y = b.y) :
    crossing p (Pt.scale k a) (Pt.scale k b) = crossB (locX k p) (locY k p) a b := by
  have h' : (Pt.scale k a).x = (Pt.scale k b).x ∨ (Pt.scale k a).y = (Pt.scale k b).y := by
    rcases h with h | h
    · left; simp [Pt.scale, h]
    · right; simp [Pt.scale, h]
  rw [crossing_axis_raw h']
  simp only [Pt.scale, crossB, locX, locY]
  by_cases h1 : p.x < k * a.x
  · simp only [h1, if_true, decide_true]
    by_cases h2 : p.y < k * a.y <;> by_cases h3 : p.y < k * b.y <;>
      simp [h2, h3, Int.not_lt.mp, Int.not_le.mpr] <;> omega
  · simp [h1]

theorem axisEdge_weak {e : Pt × Pt} (h : axisEdge e = true) : e.1.x = e.2.x ∨ e.1.y = e.2.y := by
  unfold axisEdge at h
  by_cases hx : e.1.x = e.2.x
  · exact Or.inl hx
  · right
    have : (e.1.x == e.2.x) = false := by simpa using hx
    rw [this] at h
    simpa using h

theorem windPath_scale_rect (k : Int) (p : Pt) {path : Path} (h : isRectPath path = true) :
    windPath (scalePath k path) p = windPathB (locX k p) (locY k p) path := by
  unfold windPath windPathB scalePath
  rw [edgesOf_map, List.map_map]
  congr 1
  apply List.map_congr_left
  intro e he
  simp only [Function.comp_def]
  apply crossing_scale_axis
  exact axisEdge_weak (List.all_eq_true.mp h e he)

theorem wind_scale_rect (k : Int) (p : Pt) {ps : Paths} (h : isRectilinear ps = true) :
    wind (scalePaths k ps) p = windB (locX k p) (locY k p) ps := by
  unfold wind windB scalePaths
  rw [List.map_map]
  congr 1
  apply List.map_congr_left
  intro path hp
  simp only [Function.comp_def]
  exact windPath_scale_rect k p (List.all_eq_true.mp h path hp)

theorem mem_xsOf {ps : Paths} {x : Int} : x ∈ xsOf ps ↔ ∃ path ∈ ps, ∃ v ∈ path, v.x = x := by
  simp [xsOf, List.mem_flatMap, List.mem_map]

theorem mem_ysOf {ps : Paths} {y : Int} : y ∈ ysOf ps ↔ ∃ path ∈ ps, ∃ v ∈ path, v.y = y := by
  simp [ysOf, List.mem_flatMap, List.mem_map]

/-- `windB` looks at the locators only at vertex coordinates. -/
theorem windB_congr {lx lx' ly ly' : Int → Bool} {ps : Paths}
    (hx : ∀ g ∈ xsOf ps, lx g = lx' g) (hy : ∀ g ∈ ysOf ps, ly g = ly' g) :
    windB lx ly ps = windB lx' ly' ps := by
  unfold windB
  congr 1
  apply List.map_congr_left
  intro path hp
  unfold windPathB
  congr 1
  apply List.map_congr_left
  intro e he
  obtain ⟨m1, m2⟩ := mem_edgesOf he
  have x1 := hx e.1.x (mem_xsOf.mpr ⟨path, hp, e.1, m1, rfl⟩)
  have y1 := hy e.1.y (mem_ysOf.mpr ⟨path, hp, e.1, m1, rfl⟩)
  have y2 := hy e.2.y (mem_ysOf.mpr ⟨path, hp, e.2, m2, rfl⟩)
  simp only [crossB, x1, y1, y2]

/-! ### the sorted distinct grid -/

theorem mem_insertU {a x : Int} {l : List Int} : x ∈ insertU a l ↔ x = a ∨ x ∈ l := by
  induction l with
  | nil => simp [insertU]
  | cons b r ih =>
    simp only [insertU]
    split
    · simp
    · split
      · rename_i h; subst h; simp
      · simp only [List.mem_cons, ih]
        constructor
        · rintro (h | h | h) <;> simp [h]
        · rintro (h | h | h) <;> simp [h]

theorem mem_sortU {x : Int} {l : List Int} : x ∈ sortU l ↔ x ∈ l := by
  induction l with
  | nil => simp [sortU]
  | cons a r ih =>
    have : sortU (a :: r) = insertU a (sortU r) := rfl
    rw [this, mem_insertU, ih]; simp

theorem sorted_insertU {a : Int} {l : List Int} (h : l.Pairwise (· < ·)) : (insertU a l).Pairwise (· < ·) := by
  induction l with
  | nil => simp [insertU]
  | cons b r ih =>
    simp only [insertU]
    rw [List.pairwise_cons] at h
    split
    · rename_i hab
      rw [List.pairwise_cons]
      refine ⟨?_, List.pairwise_cons.mpr h⟩
      intro y hy
      rcases List.mem_cons.mp hy with rfl | hy
      · exact hab
      · exact Int.lt_trans hab (h.1 y hy)
    · split
      · exact List.pairwise_cons.mpr h
      · rename_i h1 h2
        rw [List.pairwise_cons]
        refine ⟨?_, ih h.2⟩
        intro y hy
        rcases mem_insertU.mp hy with rfl | hy
        · omega
        · exact h.1 y hy

theorem sorted_sortU (l : List Int) : (sortU l).Pairwise (· < ·) := by
  induction l with
  | nil => simp [sortU]
  | cons a r ih => exact sorted_insertU ih

/-! ### a probe in every cell -/

/-- a locator is monotone: being below `g` implies being below every larger grid value -/
def Mono (lx : Int → Bool) : Prop := ∀ g g', g ≤ g' → lx g = true → lx g' = true

theorem mono_locX {k : Int} (hk : 0 < k) (p : Pt) : Mono (locX k p) := by
  intro g g' hg h
  simp only [locX, decide_eq_true_eq] at *
  have : k * g ≤ k * g' := Int.mul_le_mul_of_nonneg_left hg (Int.le_of_lt hk)
  omega

theorem mono_locY {k : Int} (hk : 0 < k) (p : Pt) : Mono (locY k p) := by
  intro g g' hg h
  simp only [locY, decide_eq_true_eq] at *
  have : k * g ≤ k * g' := Int.mul_le_mul_of_nonneg_left hg (Int.le_of_lt hk)
  omega

theorem exists_mid {lx : Int → Bool} (hm : Mono lx) :
    ∀ (r : List Int) (a : Int), (a :: r).Pairwise (· < ·) → lx a = false →
      ∃ c ∈ mids (a :: r), ∀ g ∈ a :: r, lx g = decide (c < 2 * g) := by
  intro r
  induction r with
  | nil =>
    intro a _ ha
    refine ⟨2 * a + 1, by simp [mids], ?_⟩
    intro g hg
    simp only [List.mem_singleton] at hg
    subst hg
    rw [ha]; symm; simp <;> omega
  | cons b r ih =>
    intro a hs ha
    rw [List.pairwise_cons] at hs
    have hab : a < b := hs.1 b List.mem_cons_self
    by_cases hb : lx b = true
    · refine ⟨a + b, by simp [mids], ?_⟩
      intro g hg
      rcases List.mem_cons.mp hg with rfl | hg
      · rw [ha]; symm; simp <;> omega
      · have hbg : b ≤ g := by
          rcases List.mem_cons.mp hg with rfl | hg'
          · exact Int.le_refl _
          · exact Int.le_of_lt ((List.pairwise_cons.mp hs.2).1 g hg')
        rw [hm b g hbg hb]; symm; simp <;> omega
    · have hb' : lx b = false := by simpa using hb
      obtain ⟨c, hc, hall⟩ := ih b hs.2 hb'
      refine ⟨c, by simp only [mids]; exact List.mem_cons_of_mem _ hc, ?_⟩
      intro g hg
      rcases List.mem_cons.mp hg with rfl | hg
      · have := hall b List.mem_cons_self
        rw [hb'] at this
        have hcb : ¬ c < 2 * b := by simpa using this.symm
        rw [ha]; symm; simp <;> omega
      · exact hall g hg

/-- Every monotone locator is realised on the grid by one of the probe coordinates. -/
theorem exists_probe {lx : Int → Bool} (hm : Mono lx) {l : List Int} (hs : l.Pairwise (· < ·)) :
    ∃ c ∈ probes l, ∀ g ∈ l, lx g = decide (c < 2 * g) := by
  cases l with
  | nil => exact ⟨0, by simp [probes], by simp⟩
  | cons a r =>
    by_cases ha : lx a = true
    · refine ⟨2 * a - 1, by simp [probes], ?_⟩
      intro g hg
      have hag : a ≤ g := by
        rcases List.mem_cons.mp hg with rfl | hg'
        · exact Int.le_refl _
        · exact Int.le_of_lt ((List.pairwise_cons.mp hs).1 g hg')
      rw [hm a g hag ha]; symm; simp <;> omega
    · have ha' : lx a = false := by simpa using ha
      obtain ⟨c, hc, hall⟩ := exists_mid hm r a hs ha'
      exact ⟨c, by simp only [probes]; exact List.mem_cons_of_mem _ hc, hall⟩

theorem mem_cellCentres {xs ys : List Int} {cx cy : Int} (hx : cx ∈ probes xs) (hy : cy ∈ probes ys) :
    (⟨cx, cy⟩ : Pt) ∈ cellCentres xs ys := by
  simp only [cellCentres, List.mem_flatMap, List.mem_map]
  exact ⟨cx, hx, cy, hy, rfl⟩

end Clipper.RectCheck
