/- Helper lemmas for the open-path part of the AEL model (C05). Core Lean only. -/
import ClipperVerif.Lemmas.Ael
import ClipperVerif.Spec.Open
namespace Clipper.Model

/-- open paths are subject paths (`AddOpenSubject` is the only public way to add one) -/
def OpenSubj (l : List Edge) : Prop := ∀ x ∈ l, x.isOpen = true → x.pt = .subject

theorem openSubj_cons (x : Edge) (l : List Edge) :
    OpenSubj (x :: l) ↔ (x.isOpen = true → x.pt = .subject) ∧ OpenSubj l := by
  simp only [OpenSubj, List.mem_cons]
  constructor
  · intro h; exact ⟨h x (Or.inl rfl), fun y hy => h y (Or.inr hy)⟩
  · rintro ⟨h1, h2⟩ y (rfl | hy); exact h1; exact h2 y hy

theorem openSubj_append (l1 l2 : List Edge) : OpenSubj (l1 ++ l2) ↔ OpenSubj l1 ∧ OpenSubj l2 := by
  simp only [OpenSubj, List.mem_append]
  constructor
  · intro h; exact ⟨fun x hx => h x (Or.inl hx), fun x hx => h x (Or.inr hx)⟩
  · rintro ⟨h1, h2⟩ x (hx | hx); exact h1 x hx; exact h2 x hx

/-! ### `SetWindCountForOpenPathEdge` -/

theorem openSums_spec (l : List Edge) : ∀ (w : Int × Int), OpenSubj l →
    openSums l w = (w.1 + sumT .subject l, w.2 + sumT .clip l) := by
  induction l with
  | nil => intro w _; simp [openSums, sumT]
  | cons x xs ih =>
    intro w h
    rw [openSubj_cons] at h
    simp only [openSums, sumT, contrib]
    by_cases hc : x.pt = .clip
    · have hcl : x.isOpen = false := by
        cases ho : x.isOpen
        · rfl
        · have := h.1 ho; rw [this] at hc; cases hc
      simp only [hc, hcl, ite_true, ih _ h.2, reduceCtorEq, false_and, ite_false, and_self]
      congr 1 <;> omega
    · have hs : x.pt = .subject := by cases hp : x.pt <;> simp_all
      cases ho : x.isOpen <;>
        simp only [hs, reduceCtorEq, ite_false, ite_true, ih _ h.2, true_and, false_and, and_false,
          Bool.true_eq_false] <;>
        congr 1 <;> omega

theorem openCounts_spec (l : List Edge) : ∀ (n : Nat × Nat), OpenSubj l → ClosedDx l →
    ((openCounts l n).1 : Int) % 2 = ((n.1 : Int) + sumT .subject l) % 2 ∧
    ((openCounts l n).2 : Int) % 2 = ((n.2 : Int) + sumT .clip l) % 2 := by
  induction l with
  | nil => intro n _ _; simp [openCounts, sumT]
  | cons x xs ih =>
    intro n h hd
    rw [openSubj_cons] at h
    rw [closedDx_cons] at hd
    simp only [openCounts, sumT, contrib]
    by_cases hc : x.pt = .clip
    · have hcl : x.isOpen = false := by
        cases ho : x.isOpen
        · rfl
        · have := h.1 ho; rw [this] at hc; cases hc
      have hdx := hd.1 hcl
      have := ih (n.1, n.2 + 1) h.2 hd.2
      simp only [hc, hcl, ite_true, reduceCtorEq, false_and, ite_false, and_self]
      refine ⟨by rw [this.1]; congr 1; omega, ?_⟩
      rw [this.2]; simp only; rcases hdx with h1 | h1 <;> rw [h1] <;> omega
    · have hs : x.pt = .subject := by cases hp : x.pt <;> simp_all
      cases ho : x.isOpen
      · have hdx := hd.1 ho
        have := ih (n.1 + 1, n.2) h.2 hd.2
        simp only [hs, reduceCtorEq, ite_false, ite_true, false_and, and_self]
        refine ⟨?_, by rw [this.2]; congr 1; omega⟩
        rw [this.1]; simp only; rcases hdx with h1 | h1 <;> rw [h1] <;> omega
      · have := ih n h.2 hd.2
        simp only [hs, reduceCtorEq, ite_false, and_false, Bool.true_eq_false]
        refine ⟨by rw [this.1]; congr 1; omega, by rw [this.2]; congr 1; omega⟩

/-- the counts computed by `SetWindCountForOpenPathEdge` are the closed-subject and clip winding sums (their
parities under EvenOdd) of everything to the left -/
theorem setWindOpen_spec (fr : FillRule) (left : List Edge) (e : Edge)
    (hs : OpenSubj left) (hd : ClosedDx left) (hw : e.wc = 0) (hw2 : e.wc2 = 0) :
    setWindOpen fr left e =
      { e with wc := enc2 fr (sumT .subject left), wc2 := enc2 fr (sumT .clip left) } := by
  by_cases hfr : fr = .evenOdd
  · subst hfr
    have := openCounts_spec left (0, 0) hs hd
    simp only [setWindOpen, ite_true, enc2]
    congr 1 <;> (split <;> omega)
  · simp only [setWindOpen, if_neg hfr, openSums_spec left _ hs, hw, hw2, Int.zero_add]
    cases fr <;> simp_all [enc2]

theorem otherIn_enc2 (fr : FillRule) (w : Int) : otherIn fr (enc2 fr w) = inFill fr w := by
  apply otherIn_iff; cases fr <;> simp [enc2]

theorem ico_keep (ct : ClipType) (hct : ct ≠ .noClip) (fr : FillRule) (wc wc2 ws wcl : Int)
    (h1 : otherIn fr wc = inFill fr ws) (h2 : otherIn fr wc2 = inFill fr wcl) :
    isContributingOpen ct fr wc wc2 = keepOpen ct fr ws wcl := by
  cases ct <;> (try exact absurd rfl hct) <;> simp only [isContributingOpen, keepOpen, h1, h2]

/-! ### the open branch of `IntersectEdges` -/

/-- does the open branch reach "toggle contribution"? -/
def toggles (cfg : Cfg) (ec : Edge) : Bool :=
  (iabs ec.wc == 1) && !openSkipCt cfg.ct ec.pt ec.hot && !openSkipFr cfg.fr ec.wc

theorem intersectOpen_eq (cfg : Cfg) (eo ec : Edge) :
    intersectOpen cfg eo ec = { eo with hot := (eo.hot != toggles cfg ec) } := by
  simp only [intersectOpen, toggles]
  by_cases h1 : iabs ec.wc = 1
  · have hb : (iabs ec.wc == 1) = true := by simpa using h1
    cases h2 : openSkipCt cfg.ct ec.pt ec.hot <;> cases h3 : openSkipFr cfg.fr ec.wc <;> simp [h1]
  · have hb : (iabs ec.wc == 1) = false := by simpa using h1
    simp [h1, hb]

theorem pre_of_skip (fr : FillRule) (wc : Int) (h : NZ fr wc) :
    ((iabs wc == 1) && !openSkipFr fr wc) = pre fr wc := by
  cases fr <;> simp only [NZ, openSkipFr, pre, iabs] at h ⊢ <;> bsolve

/-- **the toggle is right**: an open edge crossing a correct closed edge toggles exactly when `keepOpen` differs
between the two sides of the closed edge -/
theorem toggles_iff (cfg : Cfg) (hct : cfg.ct ≠ .noClip) (ec : Edge) (s c : Int) (ho : ec.isOpen = false)
    (h : EdgeOK cfg ec (own ec.pt s c) (own (other ec.pt) s c)) :
    toggles cfg ec = (keepOpen cfg.ct cfg.fr s c !=
      keepOpen cfg.ct cfg.fr (s + contrib .subject ec) (c + contrib .clip ec)) := by
  obtain ⟨ct, fr⟩ := cfg
  obtain ⟨hd, hw, hh⟩ := h
  simp only at hct hd hw hh ⊢
  have hnz := wc_nonzero fr _ _ _ _ _ hd hw
  have hpre := pre_of_skip fr ec.wc hnz
  have hP := wcOK_pre fr _ _ _ _ _ hd hw
  have hb := icc_boundary ct fr ec.pt ec.wc ec.dx ec.wc2 _ _ hd hw
  rw [← hh, filled_own] at hb
  have hstep : filled ct fr ec.pt (own ec.pt s c + ec.dx) (own (other ec.pt) s c) =
      inR ct fr (s + contrib .subject ec) (c + contrib .clip ec) := by
    rw [← filled_own ct fr ec.pt (s + contrib .subject ec), own_add, own_add,
      contrib_own ec ho, contrib_other ec, Int.add_zero]
  rw [hstep] at hb
  have hT : toggles ⟨ct, fr⟩ ec = (pre fr ec.wc && !openSkipCt ct ec.pt ec.hot) := by
    simp only [toggles, ← hpre]
    cases (iabs ec.wc == 1) <;> cases openSkipCt ct ec.pt ec.hot <;> cases openSkipFr fr ec.wc <;> rfl
  rw [hT]
  cases hp : ec.pt
  · -- closed subject edge: only Union can toggle
    have hc1 : contrib .subject ec = ec.dx := by rw [← hp]; exact contrib_own ec ho
    have hc2 : contrib .clip ec = 0 := by have := contrib_other ec; rw [hp] at this; exact this
    rw [hp] at hP; simp only [own] at hP
    rw [hc1, hc2, Int.add_zero] at hb ⊢
    cases ct <;> (try exact absurd rfl hct) <;> simp only [openSkipCt, keepOpen, inR] at hb ⊢
    · simp
    · -- union
      rw [hh, isContributingClosed, hP] at hb ⊢
      simp only [sel] at hb ⊢
      generalize inFill fr s = x0 at *
      generalize inFill fr (s + ec.dx) = x1 at *
      generalize inFill fr c = y at *
      generalize otherIn fr ec.wc2 = k at *
      cases x0 <;> cases x1 <;> cases y <;> cases k <;> simp_all
    · simp
    · simp
  · have hc1 : contrib .clip ec = ec.dx := by rw [← hp]; exact contrib_own ec ho
    have hc2 : contrib .subject ec = 0 := by have := contrib_other ec; rw [hp] at this; exact this
    rw [hp] at hP; simp only [own] at hP
    rw [hc1, hc2, Int.add_zero] at hb ⊢
    cases ct <;> (try exact absurd rfl hct) <;> simp only [openSkipCt, keepOpen, inR] at hb ⊢
    · simp [hP]
    · rw [hh, isContributingClosed, hP] at hb ⊢
      simp only [sel] at hb ⊢
      generalize inFill fr c = x0 at *
      generalize inFill fr (c + ec.dx) = x1 at *
      generalize inFill fr s = y at *
      generalize otherIn fr ec.wc2 = k at *
      cases x0 <;> cases x1 <;> cases y <;> cases k <;> simp_all
    · simp [hP]
    · simp [hP]

/-! ### the open-edge invariant through the operations -/

theorem invOpenFrom_append (keep : Int → Int → Bool) (l1 l2 : List Edge) : ∀ (s c : Int),
    InvOpenFrom keep s c (l1 ++ l2) ↔
      InvOpenFrom keep s c l1 ∧ InvOpenFrom keep (s + sumT .subject l1) (c + sumT .clip l1) l2 := by
  induction l1 with
  | nil => intro s c; simp [InvOpenFrom, sumT]
  | cons x xs ih =>
    intro s c
    simp only [List.cons_append, InvOpenFrom, ih, sumT, and_assoc, Int.add_assoc]

theorem invOpenFrom_cons_closed (keep : Int → Int → Bool) (s c : Int) (e : Edge) (ho : e.isOpen = false)
    (rest : List Edge) :
    InvOpenFrom keep s c (e :: rest) ↔
      InvOpenFrom keep (s + contrib .subject e) (c + contrib .clip e) rest := by
  simp [InvOpenFrom, ho]

theorem intersectOpen_isOpen (cfg : Cfg) (eo ec : Edge) : (intersectOpen cfg eo ec).isOpen = eo.isOpen := by
  rw [intersectOpen_eq]

theorem invOpenFrom_pair_swap (cfg : Cfg) (hct : cfg.ct ≠ .noClip) (s c : Int) (e1 e2 : Edge) (rest : List Edge)
    (hI : InvFrom cfg s c (e1 :: e2 :: rest))
    (hO : InvOpenFrom (keepOpen cfg.ct cfg.fr) s c (e1 :: e2 :: rest)) :
    InvOpenFrom (keepOpen cfg.ct cfg.fr) s c
      ((intersectPair cfg e1 e2).2 :: (intersectPair cfg e1 e2).1 :: rest) := by
  obtain ⟨f1, f2, f3, f4, f5, f6⟩ := intersectPair_fields cfg e1 e2
  have c1 : ∀ t, contrib t (intersectPair cfg e1 e2).1 = contrib t e1 := fun t => contrib_congr t _ _ f1 f2 f3
  have c2 : ∀ t, contrib t (intersectPair cfg e1 e2).2 = contrib t e2 := fun t => contrib_congr t _ _ f4 f5 f6
  simp only [InvOpenFrom] at hO ⊢
  simp only [InvFrom] at hI
  obtain ⟨h1, h2, hrest⟩ := hO
  obtain ⟨i1, i2, -⟩ := hI
  rw [c1, c1, c2, c2, f2, f5]
  have hbool : ∀ a b : Bool, (a != (a != b)) = b := by intro a b; cases a <;> cases b <;> rfl
  have hbool' : ∀ a b : Bool, (b != (a != b)) = a := by intro a b; cases a <;> cases b <;> rfl
  refine ⟨?_, ?_, ?_⟩
  case refine_3 =>
    have e1' : s + contrib .subject e2 + contrib .subject e1 = s + contrib .subject e1 + contrib .subject e2 := by omega
    have e2' : c + contrib .clip e2 + contrib .clip e1 = c + contrib .clip e1 + contrib .clip e2 := by omega
    rw [e1', e2']; exact hrest
  all_goals
    cases ho1 : e1.isOpen <;> cases ho2 : e2.isOpen <;> intro hcl <;> (try cases hcl)
  -- goal 1 (new left edge = old e2): e1 closed / e2 open, then both open
  · have hp : intersectPair cfg e1 e2 = (e1, intersectOpen cfg e2 e1) := by simp [intersectPair, ho1, ho2]
    rw [hp]; simp only
    rw [intersectOpen_eq]; simp only
    rw [toggles_iff cfg hct e1 s c ho1 (i1 ho1), h2 ho2]
    exact hbool' _ _
  · have hp : intersectPair cfg e1 e2 = (e1, e2) := by simp [intersectPair, ho1, ho2]
    rw [hp]; simp only
    have := h2 ho2
    rw [contrib_open _ e1 ho1, contrib_open _ e1 ho1, Int.add_zero, Int.add_zero] at this
    exact this
  -- goal 2 (new right edge = old e1): e1 open / e2 closed, then both open
  · have hp : intersectPair cfg e1 e2 = (intersectOpen cfg e1 e2, e2) := by simp [intersectPair, ho1, ho2]
    rw [hp]; simp only
    rw [intersectOpen_eq]; simp only
    have k2 := i2 ho2
    rw [own_add, own_add, contrib_open _ e1 ho1, contrib_open _ e1 ho1, Int.add_zero, Int.add_zero] at k2
    rw [toggles_iff cfg hct e2 s c ho2 k2, h1 ho1]
    exact hbool _ _
  · have hp : intersectPair cfg e1 e2 = (e1, e2) := by simp [intersectPair, ho1, ho2]
    rw [hp]; simp only
    rw [contrib_open _ e2 ho2, contrib_open _ e2 ho2, Int.add_zero, Int.add_zero]
    exact h1 ho1

theorem openSubj_of_fields (l l' : List Edge)
    (h : ∀ x' ∈ l', ∃ x ∈ l, x'.pt = x.pt ∧ x'.isOpen = x.isOpen) (hs : OpenSubj l) : OpenSubj l' := by
  intro x' hx' ho
  obtain ⟨x, hx, hp, hop⟩ := h x' hx'
  rw [hp]; exact hs x hx (by rw [← hop]; exact ho)

theorem invOpenFrom_insert_closed (keep : Int → Int → Bool) (s c : Int) (a b : Edge) (rest : List Edge)
    (ha : a.isOpen = false) (hb : b.isOpen = false) (hz : ∀ t, contrib t a + contrib t b = 0) :
    InvOpenFrom keep s c (a :: b :: rest) ↔ InvOpenFrom keep s c rest := by
  rw [invOpenFrom_cons_closed _ _ _ _ ha, invOpenFrom_cons_closed _ _ _ _ hb]
  have e1 : s + contrib .subject a + contrib .subject b = s := by have := hz .subject; omega
  have e2 : c + contrib .clip a + contrib .clip b = c := by have := hz .clip; omega
  rw [e1, e2]

theorem invOpenFrom_cons_open (keep : Int → Int → Bool) (s c : Int) (a : Edge) (rest : List Edge)
    (ha : a.isOpen = true) :
    InvOpenFrom keep s c (a :: rest) ↔ a.hot = keep s c ∧ InvOpenFrom keep s c rest := by
  simp only [InvOpenFrom, contrib_open _ a ha, Int.add_zero, ha]
  simp

/-! ### erasing the open edges commutes with the operations -/

/-- the closed edges of an AEL, in order -/
def closedPart (l : Ael) : Ael := l.filter (fun e => !e.isOpen)

/-- position among the closed edges of the first closed edge at or after position `i` -/
def cidx (l : Ael) (i : Nat) : Nat := (closedPart (l.take i)).length

theorem closedPart_append (l1 l2 : Ael) : closedPart (l1 ++ l2) = closedPart l1 ++ closedPart l2 := by
  simp [closedPart]

theorem closedPart_cons_closed (e : Edge) (l : Ael) (h : e.isOpen = false) :
    closedPart (e :: l) = e :: closedPart l := by simp [closedPart, h]

theorem closedPart_cons_open (e : Edge) (l : Ael) (h : e.isOpen = true) :
    closedPart (e :: l) = closedPart l := by simp [closedPart, h]

theorem closedPart_take (l : Ael) (i : Nat) : (closedPart l).take (cidx l i) = closedPart (l.take i) := by
  conv => lhs; rw [← List.take_append_drop i l, closedPart_append]
  simp [cidx]

theorem closedPart_drop (l : Ael) (i : Nat) : (closedPart l).drop (cidx l i) = closedPart (l.drop i) := by
  conv => lhs; rw [← List.take_append_drop i l, closedPart_append]
  simp [cidx]

theorem cidx_le (l : Ael) (i : Nat) : cidx l i ≤ (closedPart l).length := by
  conv => rhs; rw [← List.take_append_drop i l, closedPart_append]
  simp [cidx]

theorem findPrev_closedPart (t : PathType) (rp : List Edge) :
    findPrev t (closedPart rp) = ((findPrev t rp).1, closedPart (findPrev t rp).2) := by
  induction rp with
  | nil => simp [findPrev, closedPart]
  | cons x xs ih =>
    cases ho : x.isOpen
    · rw [closedPart_cons_closed x xs ho]
      simp only [findPrev]
      by_cases hc : x.pt = t ∧ x.isOpen = false
      · simp [hc, closedPart]
      · simp only [if_neg hc, ih, closedPart_append, closedPart_cons_closed x [] ho]
        simp [closedPart]
    · rw [closedPart_cons_open x xs ho, ih]
      have hc : ¬(x.pt = t ∧ x.isOpen = false) := by simp [ho]
      simp only [findPrev, if_neg hc, closedPart_append, closedPart_cons_open x [] ho]
      simp [closedPart]

theorem wc2Loop_closedPart (fr : FillRule) (t : PathType) (l : List Edge) : ∀ (w : Int),
    wc2Loop fr t (closedPart l) w = wc2Loop fr t l w := by
  induction l with
  | nil => intro w; rfl
  | cons x xs ih =>
    intro w
    cases ho : x.isOpen
    · rw [closedPart_cons_closed x xs ho]; simp only [wc2Loop, ih]
    · rw [closedPart_cons_open x xs ho, ih]
      have hc : ¬(x.pt ≠ t ∧ x.isOpen = false) := by simp [ho]
      simp only [wc2Loop, if_neg hc]

theorem closedPart_reverse (l : Ael) : closedPart l.reverse = (closedPart l).reverse := by
  simp [closedPart, List.filter_reverse]

/-- `SetWindCountForClosedPathEdge` does not see open edges -/
theorem setWindClosed_closedPart (fr : FillRule) (left : List Edge) (e : Edge) :
    setWindClosed fr (closedPart left) e = setWindClosed fr left e := by
  simp only [setWindClosed]
  rw [← closedPart_reverse, findPrev_closedPart]
  rcases findPrev e.pt left.reverse with ⟨_ | e2, btw⟩ <;> simp only [wc2Loop_closedPart]

theorem newLeft_closedPart (cfg : Cfg) (left : List Edge) (pt : PathType) (dx : Int) :
    newLeft cfg (closedPart left) pt false dx = newLeft cfg left pt false dx := by
  simp only [newLeft, Bool.false_eq_true, ite_false, setWindClosed_closedPart]

/-- what an operation looks like once the open edges are erased (`none`: it disappears) -/
def projOp (l : Ael) : Op → Option Op
  | .insertPair pos pt false dx => some (.insertPair (cidx l pos) pt false dx)
  | .insertPair _ _ true _ => none
  | .insertOne _ _ _ => none
  | .intersect i =>
    match l.drop i with
    | e1 :: e2 :: _ => if e1.isOpen || e2.isOpen then none else some (.intersect (cidx l i))
    | _ => none
  | .removePair i =>
    match l.drop i with
    | e1 :: _ => if e1.isOpen then none else some (.removePair (cidx l i))
    | _ => none
  | .removeOne _ => none

theorem step_closedPart (cfg : Cfg) (l l' : Ael) (op : Op) (hs : step cfg l op = some l') :
    match projOp l op with
    | none => closedPart l' = closedPart l
    | some op' => step cfg (closedPart l) op' = some (closedPart l') := by
  cases op with
  | insertPair pos pt o dxLeft =>
    simp only [step, insertPair] at hs
    split at hs
    case isFalse => cases hs
    case isTrue hc =>
      simp only [Option.some.injEq] at hs; subst hs
      obtain ⟨g1, g2, g3⟩ := newLeft_fields cfg (l.take pos) pt o dxLeft
      cases o
      · simp only [projOp, step, insertPair]
        rw [if_pos ⟨cidx_le l pos, hc.2⟩, closedPart_take, closedPart_drop, newLeft_closedPart]
        simp only [closedPart_append]
        rw [closedPart_cons_closed _ _ (by exact g2), closedPart_cons_closed _ _ (by rfl)]
      · simp only [projOp]
        conv => rhs; rw [← List.take_append_drop pos l]
        simp only [closedPart_append]
        rw [closedPart_cons_open _ _ (by exact g2), closedPart_cons_open _ _ (by rfl)]
  | insertOne pos pt dx =>
    simp only [step, insertOne] at hs
    split at hs
    case isFalse => cases hs
    case isTrue hc =>
      simp only [Option.some.injEq] at hs; subst hs
      obtain ⟨g1, g2, g3⟩ := newLeft_fields cfg (l.take pos) pt true dx
      simp only [projOp]
      conv => rhs; rw [← List.take_append_drop pos l]
      simp only [closedPart_append]
      rw [closedPart_cons_open _ _ (by exact g2)]
  | intersect i =>
    simp only [step, intersect] at hs
    split at hs
    next e1 e2 rest hd =>
      simp only [Option.some.injEq] at hs; subst hs
      obtain ⟨f1, f2, f3, f4, f5, f6⟩ := intersectPair_fields cfg e1 e2
      simp only [projOp, hd]
      cases ho1 : e1.isOpen <;> cases ho2 : e2.isOpen
      · -- both closed: the same intersect among the closed edges
        simp only [Bool.or_self, Bool.false_eq_true, ite_false, step, intersect]
        rw [closedPart_drop, hd, closedPart_cons_closed _ _ ho1, closedPart_cons_closed _ _ ho2]
        simp only [closedPart_take, closedPart_append]
        rw [closedPart_cons_closed _ _ (by rw [f5]; exact ho2), closedPart_cons_closed _ _ (by rw [f2]; exact ho1)]
      all_goals
        simp only [Bool.or_true, Bool.true_or, ite_true]
        conv => rhs; rw [drop_split l i _ hd]
        simp only [closedPart_append]
        congr 1
      · have hp : intersectPair cfg e1 e2 = (e1, intersectOpen cfg e2 e1) := by simp [intersectPair, ho1, ho2]
        rw [hp]; simp only
        rw [closedPart_cons_open _ _ (by rw [intersectOpen_isOpen]; exact ho2), closedPart_cons_closed _ _ ho1,
          closedPart_cons_closed _ _ ho1, closedPart_cons_open _ _ ho2]
      · have hp : intersectPair cfg e1 e2 = (intersectOpen cfg e1 e2, e2) := by simp [intersectPair, ho1, ho2]
        rw [hp]; simp only
        rw [closedPart_cons_closed _ _ ho2, closedPart_cons_open _ _ (by rw [intersectOpen_isOpen]; exact ho1),
          closedPart_cons_open _ _ ho1, closedPart_cons_closed _ _ ho2]
      · have hp : intersectPair cfg e1 e2 = (e1, e2) := by simp [intersectPair, ho1, ho2]
        rw [hp]; simp only
        rw [closedPart_cons_open _ _ ho2, closedPart_cons_open _ _ ho1, closedPart_cons_open _ _ ho1,
          closedPart_cons_open _ _ ho2]
    next => cases hs
  | removePair i =>
    simp only [step, removePair] at hs
    split at hs
    next e1 e2 rest hd =>
      split at hs
      case isFalse => cases hs
      case isTrue hc =>
        simp only [Option.some.injEq] at hs; subst hs
        simp only [projOp, hd]
        cases ho1 : e1.isOpen
        · have ho2 : e2.isOpen = false := by rw [← hc.2.1]; exact ho1
          simp only [Bool.false_eq_true, ite_false, step, removePair]
          rw [closedPart_drop, hd, closedPart_cons_closed _ _ ho1, closedPart_cons_closed _ _ ho2]
          simp only [if_pos hc, closedPart_take, closedPart_append]
        · have ho2 : e2.isOpen = true := by rw [← hc.2.1]; exact ho1
          simp only [ite_true]
          conv => rhs; rw [drop_split l i _ hd]
          simp only [closedPart_append]
          rw [closedPart_cons_open _ _ ho1, closedPart_cons_open _ _ ho2]
    next => cases hs
  | removeOne i =>
    simp only [step, removeOne] at hs
    split at hs
    next e rest hd =>
      split at hs
      case isFalse => cases hs
      case isTrue hc =>
        simp only [Option.some.injEq] at hs; subst hs
        simp only [projOp]
        conv => rhs; rw [drop_split l i _ hd]
        simp only [closedPart_append]
        rw [closedPart_cons_open _ _ hc]
    next => cases hs

/-- the operation list of a run with the open edges erased -/
def projOps (cfg : Cfg) : Ael → List Op → List Op
  | _, [] => []
  | l, op :: ops =>
    match step cfg l op with
    | none => []
    | some l' => (projOp l op).toList ++ projOps cfg l' ops

theorem run_append (cfg : Cfg) (ops1 ops2 : List Op) : ∀ (l : Ael),
    run cfg l (ops1 ++ ops2) = (run cfg l ops1).bind (fun l1 => run cfg l1 ops2) := by
  induction ops1 with
  | nil => intro l; rfl
  | cons op ops ih =>
    intro l
    simp only [List.cons_append, run]
    cases step cfg l op with
    | none => rfl
    | some l1 => exact ih l1

theorem run_closedPart (cfg : Cfg) (ops : List Op) : ∀ (l l' : Ael), run cfg l ops = some l' →
    run cfg (closedPart l) (projOps cfg l ops) = some (closedPart l') := by
  induction ops with
  | nil => intro l l' hr; simp only [run, Option.some.injEq] at hr; subst hr; rfl
  | cons op ops ih =>
    intro l l' hr
    simp only [run] at hr
    cases hs : step cfg l op with
    | none => rw [hs] at hr; cases hr
    | some l1 =>
      rw [hs] at hr
      simp only [projOps, hs]
      have h1 := step_closedPart cfg l l1 op hs
      have h2 := ih l1 l' hr
      cases hp : projOp l op with
      | none =>
        rw [hp] at h1; simp only at h1
        simp only [Option.toList, List.nil_append]
        rw [← h1]; exact h2
      | some op' =>
        rw [hp] at h1; simp only at h1
        simp only [Option.toList, List.cons_append, List.nil_append, run, h1]
        exact h2

end Clipper.Model
