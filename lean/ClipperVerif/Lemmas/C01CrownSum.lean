/-
Helper lemmas for `Props/C01Crown.lean`, part 1: THE RAY SUM OF THE RINGS UNDER CONSTRUCTION.  For an antisymmetric weight `c a b` of the
directed segment `a → b` (`Wt`; the instance is `Spec.crossing` around a probe point) the quantity

    `phi c o` = Σ over the records of `o`:  the sum of `c` over the consecutive pairs of the ring list (`lin`), plus the closing pair
                (last, first) when the ring is finished (`cyc`)

changes under the primitives of `Model/AelRings.lean` exactly by the weight of the pair of points that BECOME NEIGHBOURS:
`AddOutPt` adds `c` of (old end point, new point) in the direction of that end (`dcr`), closing a ring adds `c (back end) (front end)`,
`JoinOutrecPaths` adds `c` across the seam; `NewOutRec`, `SwapOutrecs` and the ghost log add nothing.  Core Lean only.
-/
import ClipperVerif.Lemmas.C01OutputChain
namespace Clipper.Lemmas.C01Crown
open Clipper Clipper.Model Clipper.Lemmas.C01Output

/-- an antisymmetric weight of directed segments -/
structure Wt (c : Pt → Pt → Int) : Prop where
  self : ∀ a, c a a = 0
  swap : ∀ a b, c b a = -c a b

/-- sum of the weight over the consecutive pairs of a list -/
def lin (c : Pt → Pt → Int) : List Pt → Int
  | [] => 0
  | [_] => 0
  | a :: b :: t => c a b + lin c (b :: t)

/-- weight of the pair (last of `l1`, first of `l2`) -/
def seam (c : Pt → Pt → Int) (l1 l2 : List Pt) : Int :=
  match l1.getLast?, l2.head? with
  | some a, some b => c a b
  | _, _ => 0

/-- sum of the weight over the cyclically consecutive pairs -/
def cyc (c : Pt → Pt → Int) (l : List Pt) : Int := lin c l + seam c l l

theorem seam_nil_left (c : Pt → Pt → Int) (l : List Pt) : seam c [] l = 0 := by simp [seam]
theorem seam_nil_right (c : Pt → Pt → Int) (l : List Pt) : seam c l [] = 0 := by
  unfold seam; cases l.getLast? <;> simp

theorem lin_cons (c : Pt → Pt → Int) (p : Pt) (l : List Pt) : lin c (p :: l) = seam c [p] l + lin c l := by
  cases l with
  | nil => simp [lin, seam]
  | cons b t => simp [lin, seam]

theorem lin_append (c : Pt → Pt → Int) : ∀ (l1 l2 : List Pt), lin c (l1 ++ l2) = lin c l1 + lin c l2 + seam c l1 l2 := by
  intro l1
  induction l1 with
  | nil => intro l2; simp [lin, seam_nil_left]
  | cons a t ih =>
    intro l2
    cases t with
    | nil =>
      rw [List.singleton_append, lin_cons]
      simp only [lin]; omega
    | cons b t' =>
      have := ih l2
      simp only [List.cons_append, lin] at this ⊢
      rw [this]
      have : seam c (a :: b :: t') l2 = seam c (b :: t') l2 := by
        simp only [seam, List.getLast?_cons_cons]
      rw [this]; omega

theorem seam_of {c : Pt → Pt → Int} {l1 l2 : List Pt} {a b : Pt} (h1 : l1.getLast? = some a) (h2 : l2.head? = some b) :
    seam c l1 l2 = c a b := by simp [seam, h1, h2]

/-- the ray sum of a closed path is `cyc` -/
theorem zip_sum (c : Pt → Pt → Int) : ∀ (rest : List Pt) (a x : Pt),
    (((a :: rest).zip (rest ++ [x])).map (fun e => c e.1 e.2)).sum = lin c (a :: rest) + seam c (a :: rest) [x] := by
  intro rest
  induction rest with
  | nil => intro a x; simp [lin, seam]
  | cons b t ih =>
    intro a x
    have := ih b x
    simp only [List.cons_append, List.zip_cons_cons, List.map_cons, List.sum_cons] at this ⊢
    rw [this]
    simp only [lin, seam, List.getLast?_cons_cons]
    omega

theorem windPath_eq_cyc (path : Path) (p : Pt) : windPath path p = cyc (crossing p) path := by
  cases path with
  | nil => rfl
  | cons a rest =>
    unfold windPath edgesOf cyc
    rw [zip_sum]
    simp [seam]

theorem cyc_rotate (c : Pt → Pt → Int) (init : List Pt) (b : Pt) : cyc c (b :: init) = cyc c (init ++ [b]) := by
  cases init with
  | nil => rfl
  | cons h t =>
    unfold cyc
    rw [lin_append, lin_cons]
    have e1 : seam c (b :: h :: t) (b :: h :: t) = seam c (h :: t) [b] := by
      simp only [seam, List.getLast?_cons_cons, List.head?_cons]
    have hl : ((h :: t) ++ [b]).getLast? = some b := by rw [List.getLast?_append]; simp
    have hh : ((h :: t) ++ [b]).head? = some h := by simp
    have e2 : seam c ((h :: t) ++ [b]) ((h :: t) ++ [b]) = seam c [b] (h :: t) := by
      rw [seam_of hl hh]; simp [seam]
    rw [e1, e2]
    simp only [lin]
    omega

theorem lin_reverse {c : Pt → Pt → Int} (hc : Wt c) : ∀ (l : List Pt), lin c l.reverse = -lin c l := by
  intro l
  induction l with
  | nil => rfl
  | cons a t ih =>
    have e1 := lin_cons c a t
    have : seam c t.reverse [a] = -seam c [a] t := by
      cases t with
      | nil => simp [seam]
      | cons b t' =>
        simp only [seam, List.getLast?_reverse, List.head?_cons, List.getLast?_singleton]
        exact hc.swap a b
    rw [List.reverse_cons, lin_append, ih, this, e1]
    simp only [lin]
    omega

theorem cyc_reverse {c : Pt → Pt → Int} (hc : Wt c) (l : List Pt) : cyc c l.reverse = -cyc c l := by
  unfold cyc
  rw [lin_reverse hc]
  have : seam c l.reverse l.reverse = -seam c l l := by
    simp only [seam, List.getLast?_reverse, List.head?_reverse]
    cases h1 : l.head? with
    | none => cases h2 : l.getLast? <;> simp
    | some a =>
      cases h2 : l.getLast? with
      | none => simp
      | some b => exact hc.swap b a
  rw [this]; omega

/-! ## the ray sum of the output side -/

/-- the ray sum of one record -/
def val (c : Pt → Pt → Int) (g : Ring) : Int := if g.stat = .done then cyc c g.pts else lin c g.pts

/-- the ray sum of all records -/
def phi (c : Pt → Pt → Int) (o : Out) : Int := (o.rings.map (val c)).sum

/-- weight of the pair (end point `e`, new point `pt`) read in ring order: at the front end the new point comes first -/
def dcr (c : Pt → Pt → Int) (f : Bool) (e pt : Pt) : Int := if f then c pt e else c e pt

theorem sum_map_set (f : Ring → Int) : ∀ (l : List Ring) (i : Nat) (a b : Ring), l[i]? = some a →
    ((l.set i b).map f).sum = (l.map f).sum - f a + f b := by
  intro l
  induction l with
  | nil => intro i a b h; simp at h
  | cons x xs ih =>
    intro i a b h
    cases i with
    | zero =>
      simp only [List.getElem?_cons_zero, Option.some.injEq] at h
      subst h
      simp only [List.set_cons_zero, List.map_cons, List.sum_cons]; omega
    | succ j =>
      simp only [List.getElem?_cons_succ] at h
      simp only [List.set_cons_succ, List.map_cons, List.sum_cons, ih j a b h]; omega

theorem phi_congr {c : Pt → Pt → Int} {o o' : Out} (h : o'.rings = o.rings) : phi c o' = phi c o := by simp [phi, h]

theorem phi_newRec (c : Pt → Pt → Int) (pt : Pt) (o : Out) : phi c (newRec pt o) = phi c o := by
  simp [phi, newRec, val, lin]

theorem phi_logSeg (c : Pt → Pt → Int) (k : SegKind) (i1 : Nat) (f1 : Bool) (i2 : Nat) (f2 : Bool) (o : Out) :
    phi c (logSeg k i1 f1 i2 f2 o) = phi c o := phi_congr (logSeg_rings k i1 f1 i2 f2 o)

theorem phi_handOver (c : Pt → Pt → Int) (id : Nat) (f : Bool) (o : Out) : phi c (handOver id f o) = phi c o := by
  unfold handOver
  cases hg : o.rings[id]? with
  | none => rfl
  | some g =>
    simp only [phi]
    rw [sum_map_set (val c) o.rings id g _ hg]
    cases f <;> simp [val]

theorem endPt_true (pts : List Pt) : endPt true pts = pts.head? := by simp [endPt]
theorem endPt_false (pts : List Pt) : endPt false pts = pts.getLast? := by simp [endPt]

/-- **`AddOutPt`**: the new point becomes the neighbour of the old end point -/
theorem phi_addOutPt {c : Pt → Pt → Int} (hc : Wt c) (id : Nat) (f : Bool) (pt : Pt) (o : Out) (e : Pt) (h : LiveAt o.rings id)
    (he : endAt o id f = some e) : phi c (addOutPt id f pt o) = phi c o + dcr c f e pt := by
  obtain ⟨g, hg, hl, hne⟩ := h
  have he' : endPt f g.pts = some e := by simpa [endAt, hg] using he
  simp only [phi, addOutPt_rings, hg, hl, if_true]
  rw [sum_map_set (val c) o.rings id g _ hg]
  have hst : (addPt f pt g).1.stat = .live := by rw [addPt_stat]; exact hl
  have v1 : val c g = lin c g.pts := by simp [val, hl]
  have v2 : val c (addPt f pt g).1 = lin c (addPt f pt g).1.pts := by simp [val, hst]
  rw [v1, v2]
  rcases addPt_spec f pt g with ⟨_, h2, h3⟩ | ⟨_, h2, _⟩
  · rw [h2]
    rw [he'] at h3
    have hpe : pt = e := (Option.some.inj h3).symm
    rw [hpe]
    have : dcr c f e e = 0 := by unfold dcr; split <;> exact hc.self e
    omega
  · rw [h2]
    cases f
    · simp only [Bool.false_eq_true, if_false]
      rw [endPt_false] at he'
      rw [lin_append]
      have : seam c g.pts [pt] = c e pt := seam_of he' rfl
      rw [this]
      simp only [lin, dcr, Bool.false_eq_true, if_false]; omega
    · simp only [if_true]
      rw [endPt_true] at he'
      rw [lin_cons]
      have : seam c [pt] g.pts = c pt e := seam_of rfl he'
      rw [this]
      simp only [dcr, if_true]; omega

/-- **closing a ring** (`outrec.pts = result; UncoupleOutRec`): the back end point becomes the neighbour of the front end point -/
theorem phi_finish (c : Pt → Pt → Int) (id : Nat) (f : Bool) (o : Out) (hf hb : Pt) (h : LiveAt o.rings id)
    (h1 : endAt o id true = some hf) (h2 : endAt o id false = some hb) : phi c (finish id f o) = phi c o + c hb hf := by
  obtain ⟨g, hg, hl, hne⟩ := h
  have e1 : g.pts.head? = some hf := by simpa [endAt, hg, endPt] using h1
  have e2 : g.pts.getLast? = some hb := by simpa [endAt, hg, endPt] using h2
  unfold finish
  simp only [hg, phi]
  rw [sum_map_set (val c) o.rings id g _ hg]
  have v1 : val c g = lin c g.pts := by simp [val, hl]
  rw [v1]
  simp only [val, if_true]
  have hcyc : cyc c g.pts = lin c g.pts + c hb hf := by unfold cyc; rw [seam_of e2 e1]
  cases f
  · simp only [Bool.false_eq_true, if_false, e2]
    have hlast : g.pts.getLast hne = hb := by
      have := List.getLast?_eq_some_getLast hne; rw [e2] at this; exact (Option.some.inj this).symm
    have hsplit : g.pts = g.pts.dropLast ++ [hb] := by
      rw [← hlast]; exact (List.dropLast_concat_getLast hne).symm
    rw [cyc_rotate, ← hsplit, hcyc]; omega
  · simp only [if_true, hcyc]; omega

/-- **`JoinOutrecPaths(e1, e2)`** with `A = e1.outrec`, `B = e2.outrec`, `f = IsFront(e1)`: the end points across the seam become neighbours -/
theorem phi_joinPaths (c : Pt → Pt → Int) (A B : Nat) (f : Bool) (o : Out) (fa ba fb bb : Pt) (hne : A ≠ B)
    (hA : LiveAt o.rings A) (hB : LiveAt o.rings B)
    (a1 : endAt o A true = some fa) (a2 : endAt o A false = some ba) (b1 : endAt o B true = some fb) (b2 : endAt o B false = some bb) :
    phi c (joinPaths A B f o) = phi c o + (if f then c bb fa else c ba fb) := by
  obtain ⟨ga, hga, la, na⟩ := hA
  obtain ⟨gb, hgb, lb, nb⟩ := hB
  have ea1 : ga.pts.head? = some fa := by simpa [endAt, hga, endPt] using a1
  have ea2 : ga.pts.getLast? = some ba := by simpa [endAt, hga, endPt] using a2
  have eb1 : gb.pts.head? = some fb := by simpa [endAt, hgb, endPt] using b1
  have eb2 : gb.pts.getLast? = some bb := by simpa [endAt, hgb, endPt] using b2
  unfold joinPaths
  simp only [hga, hgb, hne, la, lb, ne_eq, not_false_eq_true, and_self, if_true, phi]
  rw [sum_map_set (val c) _ B gb _ (by rw [List.getElem?_set_ne hne]; exact hgb), sum_map_set (val c) o.rings A ga _ hga]
  have v1 : val c ga = lin c ga.pts := by simp [val, la]
  have v2 : val c gb = lin c gb.pts := by simp [val, lb]
  have v3 : val c { gb with pts := [], stat := .gone } = 0 := by simp [val, lin]
  rw [v1, v2, v3]
  cases f
  · simp only [Bool.false_eq_true, if_false, val]
    have : (RStat.live = RStat.done) = False := by simp
    simp only [this, if_false]
    rw [lin_append, seam_of ea2 eb1]; omega
  · simp only [if_true, val]
    have : (RStat.live = RStat.done) = False := by simp
    simp only [this, if_false]
    rw [lin_append, seam_of eb2 ea1]; omega

end Clipper.Lemmas.C01Crown
