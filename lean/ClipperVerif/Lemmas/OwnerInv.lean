/-
State-level invariants of `BuildTree64` and the specification of `recursiveCheckOwners`.
-/
import ClipperVerif.Lemmas.OwnerStep
import ClipperVerif.Lemmas.OwnerTree
namespace Clipper.Model.Owner
open Clipper

/-- non-empty bounds were computed by `CheckBounds` from the cleaned path, and the outrec is alive -/
def BInv (clean : Nat → CleanRes) (T : Table) : Prop :=
  ∀ (j : Nat) (r : OutRec), T[j]? = some r → r.bounds.isEmpty = false →
    r.hasPts = true ∧ clean j = .path r.path ∧ r.bounds = getBounds r.path

theorem BInv.step {clean : Nat → CleanRes} {io : Option Nat} {T T' : Table} (hB : BInv clean T)
    (h : Step clean io T T') : BInv clean T' := by
  intro j r' hj hne
  obtain ⟨r, hr, rs, _, _⟩ := h.back hj
  cases he : r.bounds.isEmpty with
  | true => exact rs.fill he hne
  | false =>
    obtain ⟨a, b, c⟩ := hB j r hr he
    obtain ⟨e1, e2, e3⟩ := rs.keep he
    exact ⟨e3 ▸ a, e2 ▸ b, by rw [e1, e2]; exact c⟩

/-- the tree invariant: every placed outrec has its node, and its owner's node is the parent -/
def TInv (inside : Nat → Nat → Bool) (S : St) : Prop :=
  ∀ (c : Nat) (r : OutRec) (a : List Nat), S.recs[c]? = some r → r.polypath = some a →
    (∃ n : Tree, S.tree.at? a = some n ∧ n.path = r.path) ∧ r.bounds.isEmpty = false ∧
    ((r.owner = none ∧ ∃ k : Nat, a = [k]) ∨
     (∃ (p : Nat) (rp : OutRec) (pa : List Nat) (k : Nat), r.owner = some p ∧ S.recs[p]? = some rp ∧
        rp.polypath = some pa ∧ a = pa ++ [k] ∧ rp.bounds.contains r.bounds = true ∧ inside c p = true))

/-- state-level frame -/
def StepS (clean : Nat → CleanRes) (S S' : St) : Prop :=
  S'.recs.size = S.recs.size ∧ S'.openPaths = S.openPaths ∧
  (∀ (j : Nat) (r : OutRec), S.recs[j]? = some r → ∃ r' : OutRec, S'.recs[j]? = some r' ∧ RecStep clean j r r' ∧
    (r.polypath.isSome → r'.polypath = r.polypath ∧ r'.owner = r.owner)) ∧
  (∀ (b : List Nat) (n : Tree), S.tree.at? b = some n → ∃ n' : Tree, S'.tree.at? b = some n' ∧ n'.path = n.path)

theorem StepS.refl (clean : Nat → CleanRes) (S : St) : StepS clean S S :=
  ⟨rfl, rfl, fun _ r h => ⟨r, h, RecStep.refl _ _ _, fun _ => ⟨rfl, rfl⟩⟩, fun _ n h => ⟨n, h, rfl⟩⟩

theorem StepS.trans {clean : Nat → CleanRes} {A B C : St} (h1 : StepS clean A B) (h2 : StepS clean B C) :
    StepS clean A C := by
  obtain ⟨a1, a2, a3, a4⟩ := h1
  obtain ⟨b1, b2, b3, b4⟩ := h2
  refine ⟨b1.trans a1, b2.trans a2, fun j r hj => ?_, fun b n hb => ?_⟩
  · obtain ⟨r', hr', s1, p1⟩ := a3 j r hj
    obtain ⟨r'', hr'', s2, p2⟩ := b3 j r' hr'
    refine ⟨r'', hr'', s1.trans s2, fun hs => ?_⟩
    obtain ⟨e1, e2⟩ := p1 hs
    obtain ⟨f1, f2⟩ := p2 (e1 ▸ hs)
    exact ⟨f1.trans e1, f2.trans e2⟩
  · obtain ⟨n', hn', e⟩ := a4 b n hb
    obtain ⟨n'', hn'', e'⟩ := b4 b n' hn'
    exact ⟨n'', hn'', e'.trans e⟩

/-- a table-level step on `i`, which is not yet placed, is a state-level step -/
theorem StepS.of_step {clean : Nat → CleanRes} {S : St} {T1 : Table} {i : Nat}
    (h : Step clean (some i) S.recs T1) (hi : ∀ r : OutRec, S.recs[i]? = some r → r.polypath = none) :
    StepS clean S { S with recs := T1 } := by
  refine ⟨h.1, rfl, fun j r hj => ?_, fun _ n hb => ⟨n, hb, rfl⟩⟩
  obtain ⟨r', hr', rs, pp, ow⟩ := h.2 j r hj
  refine ⟨r', hr', rs, fun hs => ⟨pp, ow (fun e => ?_)⟩⟩
  simp only [Option.some.injEq] at e
  subst e
  rw [hi r hj] at hs
  simp at hs

theorem TInv.table_step {clean : Nat → CleanRes} {inside : Nat → Nat → Bool} {S : St} {T1 : Table} {i : Nat}
    (hT : TInv inside S) (h : Step clean (some i) S.recs T1)
    (hi : ∀ r : OutRec, S.recs[i]? = some r → r.polypath = none) : TInv inside { S with recs := T1 } := by
  intro c r1 a hc hpa
  simp only at hc
  obtain ⟨r, hr, rs, pp, ow⟩ := h.back hc
  have hra : r.polypath = some a := pp ▸ hpa
  have hci : some c ≠ some i := by
    intro e
    simp only [Option.some.injEq] at e
    subst e
    rw [hi r hr] at hra
    simp at hra
  obtain ⟨⟨n, hn, hnp⟩, hne, hdis⟩ := hT c r a hr hra
  obtain ⟨e1, e2, _⟩ := rs.keep hne
  refine ⟨⟨n, hn, hnp.trans e2.symm⟩, e1 ▸ hne, ?_⟩
  rcases hdis with ⟨ho, hk⟩ | ⟨p, rp, pa, k, ho, hp, hppa, hak, hcont, hins⟩
  · exact Or.inl ⟨(ow hci).trans ho, hk⟩
  · obtain ⟨rp', hrp', rsp, ppp, _⟩ := h.2 p rp hp
    obtain ⟨_, hpne, _⟩ := hT p rp pa hp hppa
    obtain ⟨g1, _, _⟩ := rsp.keep hpne
    exact Or.inr ⟨p, rp', pa, k, (ow hci).trans ho, hrp', ppp.trans hppa, hak, by rw [g1, e1]; exact hcont, hins⟩

theorem placedPaths_table_step {clean : Nat → CleanRes} {inside : Nat → Nat → Bool} {S : St} {T1 : Table} {io : Option Nat}
    (hT : TInv inside S) (h : Step clean io S.recs T1) : placedPaths T1 = placedPaths S.recs := by
  unfold placedPaths
  rw [h.1]
  apply filterMap_range_congr
  intro j hj
  have hj' : S.recs[j]? = some S.recs[j] := by simp [hj]
  obtain ⟨r', hr', rs, pp, _⟩ := h.2 j _ hj'
  unfold placedPath
  rw [hr', hj']
  simp only [pp]
  cases hp : (S.recs[j]).polypath with
  | none => simp
  | some a =>
    obtain ⟨_, hne, _⟩ := hT j _ a hj' hp
    simp [(rs.keep hne).2.1]

/-- owner paths into `i` survive a step that only changes `i`'s own owner -/
theorem Reach.of_step {T T1 : Table} {i : Nat}
    (h : ∀ (k : Nat) (r : OutRec), k ≠ i → T[k]? = some r → ∃ r' : OutRec, T1[k]? = some r' ∧ r'.owner = r.owner)
    {j : Nat} (hr : Reach T j i) : Reach T1 j i := by
  induction hr with
  | refl => exact Reach.refl _
  | @step j' k' o' r' hj ho _ ih =>
    by_cases hji : j' = k'
    · subst hji; exact Reach.refl _
    · obtain ⟨r1, hr1, e⟩ := h _ _ hji hj
      exact Reach.step hr1 (e.trans ho) (ih h)

/-! ### placing one outrec -/

/-- what the parent pointer passed to `AddChild` must satisfy -/
def ParentOK (inside : Nat → Nat → Bool) (S : St) (i : Nat) (r1 : OutRec) (pa : List Nat) : Prop :=
  (pa = [] ∧ r1.owner = none) ∨
  (∃ (o : Nat) (ro : OutRec), r1.owner = some o ∧ S.recs[o]? = some ro ∧ ro.polypath = some pa ∧
    ro.bounds.contains r1.bounds = true ∧ inside i o = true)

theorem place_spec' {clean : Nat → CleanRes} {inside : Nat → Nat → Bool} {S : St} {i : Nat} {r1 : OutRec}
    {pa a : List Nat} {tr : Tree}
    (hA : Acyclic S.recs) (hB : BInv clean S.recs) (hT : TInv inside S)
    (hi : S.recs[i]? = some r1) (hnp : r1.polypath = none) (hne : r1.bounds.isEmpty = false)
    (hadd : addChild S.tree pa r1.path = some (tr, a)) (hpar : ParentOK inside S i r1 pa) :
    let S' : St := { S with recs := S.recs.modify i (fun x => { x with polypath := some a }), tree := tr }
    StepS clean S S' ∧ Acyclic S'.recs ∧ BInv clean S'.recs ∧ TInv inside S' ∧
    (∀ (j : Nat), j ≠ i → S'.recs[j]? = S.recs[j]?) ∧
    (∃ r' : OutRec, S'.recs[i]? = some r' ∧ r'.polypath = some a) := by
  intro S'
  have hother : ∀ (j : Nat), j ≠ i → S'.recs[j]? = S.recs[j]? := by
    intro j hj
    show (S.recs.modify i _)[j]? = _
    rw [Array.getElem?_modify, if_neg (fun e => hj e.symm)]
  have hself : S'.recs[i]? = some { r1 with polypath := some a } := by
    show (S.recs.modify i _)[i]? = _
    rw [Array.getElem?_modify]; simp only [if_true, hi, Option.map_some]
  refine ⟨?_, ?_, ?_, ?_, hother, ⟨_, hself, rfl⟩⟩
  · refine ⟨Array.size_modify, rfl, fun j r hj => ?_, fun b n hb => addChild_at_old hadd hb⟩
    by_cases hji : j = i
    · subst hji
      rw [hi] at hj; simp only [Option.some.injEq] at hj; subst hj
      exact ⟨_, hself, RecStep.of_eq rfl rfl rfl rfl rfl, fun hs => by rw [hnp] at hs; simp at hs⟩
    · exact ⟨r, (hother j hji).trans hj, RecStep.refl _ _ _, fun _ => ⟨rfl, rfl⟩⟩
  · refine hA.of_same_owner (fun j r' hj => ?_)
    obtain ⟨r, hr, e⟩ := getElem?_modify_some hj
    refine ⟨r, hr, ?_⟩
    by_cases hij : i = j
    · simp only [if_pos hij] at e; rw [e]
    · simp only [if_neg hij] at e; rw [e]
  · intro j r' hj hne'
    obtain ⟨r, hr, e⟩ := getElem?_modify_some hj
    by_cases hij : i = j
    · simp only [if_pos hij] at e; subst e; exact hB j r hr hne'
    · simp only [if_neg hij] at e; subst e; exact hB j _ hr hne'
  · intro c r' a' hc hpa'
    by_cases hci : c = i
    · subst hci
      rw [hself] at hc
      simp only [Option.some.injEq] at hc
      subst hc
      simp only [Option.some.injEq] at hpa'
      subst hpa'
      refine ⟨⟨_, addChild_at_new hadd, rfl⟩, hne, ?_⟩
      obtain ⟨k, hk⟩ := addChild_addr hadd
      rcases hpar with ⟨hpa, ho⟩ | ⟨o, ro, ho, hro, hropa, hcont, hins⟩
      · subst hpa
        exact Or.inl ⟨ho, k, by simpa using hk⟩
      · have hoc : o ≠ c := by
          intro e; subst e
          rw [hi] at hro; simp only [Option.some.injEq] at hro; subst hro
          rw [hnp] at hropa; simp at hropa
        exact Or.inr ⟨o, ro, pa, k, ho, (hother o hoc).trans hro, hropa, hk, hcont, hins⟩
    · rw [hother c hci] at hc
      obtain ⟨⟨n, hn, hnp'⟩, hne', hdis⟩ := hT c r' a' hc hpa'
      obtain ⟨n', hn', e⟩ := addChild_at_old hadd hn
      refine ⟨⟨n', hn', e.trans hnp'⟩, hne', ?_⟩
      rcases hdis with h | ⟨p, rp, pa', k, ho, hp, hppa, hak, hcont, hins⟩
      · exact Or.inl h
      · have hpi : p ≠ i := by
          intro e; subst e
          rw [hi] at hp; simp only [Option.some.injEq] at hp; subst hp
          rw [hnp] at hppa; simp at hppa
        exact Or.inr ⟨p, rp, pa', k, ho, (hother p hpi).trans hp, hppa, hak, hcont, hins⟩


def PlaceConcl (clean : Nat → CleanRes) (inside : Nat → Nat → Bool) (S : St) (i : Nat) (S' : St) : Prop :=
  StepS clean S S' ∧ Acyclic S'.recs ∧ BInv clean S'.recs ∧ TInv inside S' ∧
  (∀ (j : Nat), j ≠ i → S'.recs[j]? = S.recs[j]?) ∧
  (∃ r' : OutRec, S'.recs[i]? = some r' ∧ r'.polypath.isSome = true) ∧
  (PInv S → PInv S')

theorem place_spec {clean : Nat → CleanRes} {inside : Nat → Nat → Bool} {S : St} {i : Nat} {r1 : OutRec}
    {pa a : List Nat} {tr : Tree}
    (hA : Acyclic S.recs) (hB : BInv clean S.recs) (hT : TInv inside S)
    (hi : S.recs[i]? = some r1) (hnp : r1.polypath = none) (hne : r1.bounds.isEmpty = false)
    (hadd : addChild S.tree pa r1.path = some (tr, a)) (hpar : ParentOK inside S i r1 pa) :
    PlaceConcl clean inside S i
      { S with recs := S.recs.modify i (fun x => { x with polypath := some a }), tree := tr } := by
  have h := place_spec' hA hB hT hi hnp hne hadd hpar
  obtain ⟨h1, h2, h3, h4, h5, r', h6, h7⟩ := h
  refine ⟨h1, h2, h3, h4, h5, ⟨r', h6, by simp [h7]⟩, fun hP => ?_⟩
  have hlt := getElem?_lt hi
  have hup := filterMap_range_update (placedPath S.recs)
    (placedPath (S.recs.modify i (fun x => { x with polypath := some a }))) i r1.path
    (by simp [placedPath, hi, hnp])
    (by simp [placedPath, Array.getElem?_modify, hi])
    (fun j hj => by simp [placedPath, Array.getElem?_modify, Ne.symm hj]) S.recs.size hlt
  show (polyTreeToPaths tr).Perm (placedPaths (S.recs.modify i _))
  unfold placedPaths
  rw [Array.size_modify]
  exact ((addChild_polyTreeToPaths' hadd).trans (hP.cons _)).trans hup.symm

/-! ### `recursiveCheckOwners` -/

def rcoPlace (S2 : St) (i o : Nat) : Option St :=
  match S2.recs[o]?, S2.recs[i]? with
  | some orc2, some r2' =>
    match orc2.polypath with
    | none => none
    | some pa =>
      match addChild S2.tree pa r2'.path with
      | none => none
      | some (tr, a) =>
        some { S2 with recs := S2.recs.modify i (fun x => { x with polypath := some a }), tree := tr }
  | _, _ => none

def rcoAfter (clean : Nat → CleanRes) (inside : Nat → Nat → Bool) (f : Nat) (S : St) (T1 : Table) (i : Nat) : Option St :=
  match T1[i]? with
  | none => none
  | some r1 =>
    match r1.owner with
    | none =>
      match addChild S.tree [] r1.path with
      | none => none
      | some (tr, a) =>
        some { S with recs := T1.modify i (fun x => { x with polypath := some a }), tree := tr }
    | some o =>
      match T1[o]? with
      | none => none
      | some orc =>
        match (if orc.polypath.isNone then recursiveCheckOwners clean inside f { S with recs := T1 } o
               else some { S with recs := T1 }) with
        | none => none
        | some S2 => rcoPlace S2 i o

theorem rco_unfold (clean : Nat → CleanRes) (inside : Nat → Nat → Bool) (f : Nat) (S : St) (i : Nat) :
    recursiveCheckOwners clean inside (f + 1) S i =
      match S.recs[i]? with
      | none => none
      | some r =>
        if r.polypath.isSome || r.bounds.isEmpty then some S
        else match ownerLoop clean inside f S.recs i with
          | none => none
          | some T1 => rcoAfter clean inside f S T1 i := by
  rw [recursiveCheckOwners]; rfl

/-- an outrec with empty bounds is left alone (`if (outrec->polypath || outrec->bounds.IsEmpty()) return;`) -/
theorem rco_empty {clean : Nat → CleanRes} {inside : Nat → Nat → Bool} {f : Nat} {S S2 : St} {o : Nat} {orc : OutRec}
    (h : recursiveCheckOwners clean inside f S o = some S2) (ho : S.recs[o]? = some orc)
    (he : orc.bounds.isEmpty = true) : S2 = S := by
  cases f with
  | zero => simp [recursiveCheckOwners] at h
  | succ f =>
    rw [rco_unfold] at h
    simp only [ho, he, Bool.or_true, if_true, Option.some.injEq] at h
    exact h.symm

def RcoSpec (clean : Nat → CleanRes) (inside : Nat → Nat → Bool) (i : Nat) (S S' : St) : Prop :=
  StepS clean S S' ∧ Acyclic S'.recs ∧ BInv clean S'.recs ∧ TInv inside S' ∧
  (∀ (j : Nat) (r : OutRec), j ≠ i → Reach S.recs j i → S.recs[j]? = some r →
    ∃ r' : OutRec, S'.recs[j]? = some r' ∧ r'.owner = r.owner ∧ r'.polypath = r.polypath) ∧
  (∀ r : OutRec, S.recs[i]? = some r → r.bounds.isEmpty = false →
    ∃ r' : OutRec, S'.recs[i]? = some r' ∧ r'.polypath.isSome = true) ∧
  (PInv S → PInv S')

theorem RcoSpec.refl_of {clean : Nat → CleanRes} {inside : Nat → Nat → Bool} {i : Nat} {S : St}
    (hA : Acyclic S.recs) (hB : BInv clean S.recs) (hT : TInv inside S)
    (h : ∀ r : OutRec, S.recs[i]? = some r → r.bounds.isEmpty = false → r.polypath.isSome = true) :
    RcoSpec clean inside i S S :=
  ⟨StepS.refl _ _, hA, hB, hT, fun _ r _ _ hj => ⟨r, hj, rfl, rfl⟩, fun r hr hne => ⟨r, hr, h r hr hne⟩, id⟩

/-- putting the three phases (owner loop, recursive call on the owner, `AddChild`) together -/
theorem rco_assemble {clean : Nat → CleanRes} {inside : Nat → Nat → Bool} {i : Nat} {S S2 S' : St} {T1 : Table}
    (hstep : Step clean (some i) S.recs T1)
    (hi : ∀ r : OutRec, S.recs[i]? = some r → r.polypath = none)
    (h12 : StepS clean { S with recs := T1 } S2)
    (hun : ∀ (j : Nat) (r : OutRec), j ≠ i → Reach T1 j i → T1[j]? = some r →
      ∃ r' : OutRec, S2.recs[j]? = some r' ∧ r'.owner = r.owner ∧ r'.polypath = r.polypath)
    (hpl : PlaceConcl clean inside S2 i S') (hpp : placedPaths T1 = placedPaths S.recs)
    (hP12 : PInv { S with recs := T1 } → PInv S2) : RcoSpec clean inside i S S' := by
  obtain ⟨p1, p2, p3, p4, p5, ⟨r', p6, p7⟩, p8⟩ := hpl
  refine ⟨((StepS.of_step hstep hi).trans h12).trans p1, p2, p3, p4, ?_, fun _ _ _ => ⟨r', p6, p7⟩,
    fun hP => p8 (hP12 (by show (polyTreeToPaths S.tree).Perm (placedPaths T1); rw [hpp]; exact hP))⟩
  intro j r hji hreach hj
  obtain ⟨r1, hr1, _, pp, ow⟩ := hstep.2 j r hj
  have hreach1 : Reach T1 j i := Reach.of_step (fun k rk hk hrk => by
    obtain ⟨rk', hrk', _, _, owk⟩ := hstep.2 k rk hrk
    exact ⟨rk', hrk', owk (by simpa using hk)⟩) hreach
  obtain ⟨r2, hr2, e1, e2⟩ := hun j r1 hji hreach1 hr1
  exact ⟨r2, (p5 j hji).trans hr2, e1.trans (ow (by simpa using hji)), e2.trans pp⟩


theorem isSome_false_eq_none {α : Type} {o : Option α} (h : o.isSome = false) : o = none := by
  cases o <;> simp_all

theorem rcoPlace_spec {clean : Nat → CleanRes} {inside : Nat → Nat → Bool} {S2 S' : St} {i o : Nat} {r2 : OutRec}
    (h : rcoPlace S2 i o = some S')
    (hA : Acyclic S2.recs) (hB : BInv clean S2.recs) (hT : TInv inside S2)
    (hi : S2.recs[i]? = some r2) (hnp : r2.polypath = none) (hne : r2.bounds.isEmpty = false)
    (hown : r2.owner = some o) (hins : inside i o = true)
    (hcont : ∀ ro : OutRec, S2.recs[o]? = some ro → ro.polypath.isSome = true → ro.bounds.contains r2.bounds = true) :
    PlaceConcl clean inside S2 i S' := by
  unfold rcoPlace at h
  split at h
  · rename_i orc2 r2' ho2 hi2
    rw [hi] at hi2
    simp only [Option.some.injEq] at hi2
    subst hi2
    split at h
    · simp at h
    · rename_i pa hpa
      split at h
      · simp at h
      · rename_i tr a hadd
        simp only [Option.some.injEq] at h
        subst h
        exact place_spec hA hB hT hi hnp hne hadd
          (Or.inr ⟨o, orc2, hown, ho2, hpa, hcont orc2 ho2 (by simp [hpa]), hins⟩)
  · simp at h

theorem rco_spec {clean : Nat → CleanRes} {inside : Nat → Nat → Bool} :
    ∀ (f : Nat) (S : St) (i : Nat) (S' : St), recursiveCheckOwners clean inside f S i = some S' →
      Acyclic S.recs → BInv clean S.recs → TInv inside S → RcoSpec clean inside i S S' := by
  intro f
  induction f with
  | zero => intro S i S' h; simp [recursiveCheckOwners] at h
  | succ f IH =>
    intro S i S' h hA hB hT
    rw [rco_unfold] at h
    split at h
    · simp at h
    · rename_i r hr
      split at h
      · rename_i hcond
        simp only [Option.some.injEq] at h
        subst h
        refine RcoSpec.refl_of hA hB hT (fun r' hr' hne => ?_)
        rw [hr] at hr'; simp only [Option.some.injEq] at hr'; subst hr'
        simpa [hne] using hcond
      · rename_i hcond
        simp only [Bool.or_eq_true, not_or, Bool.not_eq_true] at hcond
        obtain ⟨hnp0, hne0⟩ := hcond
        have hnp : r.polypath = none := isSome_false_eq_none hnp0
        have hinone : ∀ r' : OutRec, S.recs[i]? = some r' → r'.polypath = none := by
          intro r' hr'; rw [hr] at hr'; simp only [Option.some.injEq] at hr'; subst hr'; exact hnp
        split at h
        · simp at h
        · rename_i T1 hol
          obtain ⟨hgood, hdisj⟩ := ownerLoop_spec _ _ _ hol
          have hA1 : Acyclic T1 := hgood.2 hA
          have hB1 : BInv clean T1 := hB.step hgood.1
          have hT1 : TInv inside { S with recs := T1 } := hT.table_step hgood.1 hinone
          unfold rcoAfter at h
          split at h
          · simp at h
          · rename_i r1 hr1
            obtain ⟨r1', hr1', rs1, pp1, _⟩ := hgood.1.2 i r hr
            rw [hr1] at hr1'; simp only [Option.some.injEq] at hr1'; subst hr1'
            have hnp1 : r1.polypath = none := pp1.trans hnp
            obtain ⟨eb1, _, _⟩ := rs1.keep hne0
            have hne1 : r1.bounds.isEmpty = false := eb1 ▸ hne0
            split at h
            · -- no owner: child of the root
              rename_i hown
              split at h
              · simp at h
              · rename_i tr a hadd
                simp only [Option.some.injEq] at h
                subst h
                have hpl := place_spec (S := { S with recs := T1 }) hA1 hB1 hT1 hr1 hnp1 hne1 hadd
                  (Or.inl ⟨rfl, hown⟩)
                exact rco_assemble hgood.1 hinone (StepS.refl _ _)
                  (fun j rj _ _ hj => ⟨rj, hj, rfl, rfl⟩) hpl (placedPaths_table_step hT hgood.1) id
            · rename_i o hown
              split at h
              · simp at h
              · rename_i orc horc
                -- the containment test evaluated by the owner loop
                have hok : orc.bounds.contains r1.bounds = true ∧ inside i o = true := by
                  rcases hdisj with ⟨ri, hri, hnone⟩ | ⟨ri, s, rs, hri, hris, hrs, hc, hi'⟩
                  · rw [hr1] at hri; simp only [Option.some.injEq] at hri; subst hri
                    rw [hown] at hnone; simp at hnone
                  · rw [hr1] at hri; simp only [Option.some.injEq] at hri; subst hri
                    rw [hown] at hris; simp only [Option.some.injEq] at hris; subst hris
                    rw [horc] at hrs; simp only [Option.some.injEq] at hrs; subst hrs
                    exact ⟨hc, hi'⟩
                have hio : i ≠ o := by
                  intro e; subst e
                  exact hA1.not_reachP_self i ⟨r1, i, hr1, hown, Reach.refl _⟩
                obtain ⟨S2, hspec, hbnd, h⟩ : ∃ S2 : St, RcoSpec clean inside o { S with recs := T1 } S2 ∧
                    (∀ ro : OutRec, S2.recs[o]? = some ro → ro.polypath.isSome = true → ro.bounds = orc.bounds) ∧
                    rcoPlace S2 i o = some S' := by
                  by_cases hc : orc.polypath.isNone = true
                  · simp only [hc, if_true] at h
                    cases hrec : recursiveCheckOwners clean inside f { S with recs := T1 } o with
                    | none => simp [hrec] at h
                    | some S2 =>
                      rw [hrec] at h
                      refine ⟨S2, IH _ _ _ hrec hA1 hB1 hT1, ?_, h⟩
                      intro ro hro hsome
                      cases he : orc.bounds.isEmpty with
                      | true =>
                        have := rco_empty hrec horc he
                        subst this
                        simp only at hro
                        rw [horc] at hro; simp only [Option.some.injEq] at hro; subst hro
                        simp only [Option.isNone_iff_eq_none] at hc
                        rw [hc] at hsome
                      | false =>
                        obtain ⟨ro', hro', rs', _⟩ := (IH _ _ _ hrec hA1 hB1 hT1).1.2.2.1 o orc horc
                        rw [hro] at hro'; simp only [Option.some.injEq] at hro'; subst hro'
                        exact (rs'.keep he).1
                  · simp only [hc, if_false] at h
                    refine ⟨_, RcoSpec.refl_of hA1 hB1 hT1 (fun r' hr' _ => ?_), ?_, h⟩
                    · simp only at hr'
                      rw [horc] at hr'; simp only [Option.some.injEq] at hr'; subst hr'
                      cases hp : orc.polypath <;> simp_all
                    · intro ro hro _
                      simp only at hro
                      rw [horc] at hro; simp only [Option.some.injEq] at hro; subst hro
                      rfl
                obtain ⟨hS12, hA2, hB2, hT2, hun2, _, hP12⟩ := hspec
                have hreach_io : Reach T1 i o := Reach.step hr1 hown (Reach.refl _)
                obtain ⟨r2, hr2, eo2, ep2⟩ := hun2 i r1 hio hreach_io hr1
                obtain ⟨r2', hr2', rs2, _⟩ := hS12.2.2.1 i r1 hr1
                rw [hr2] at hr2'; simp only [Option.some.injEq] at hr2'; subst hr2'
                obtain ⟨eb2, _, _⟩ := rs2.keep hne1
                have hpl := rcoPlace_spec h hA2 hB2 hT2 hr2 (ep2.trans hnp1) (eb2 ▸ hne1) (eo2.trans hown) hok.2
                  (fun ro hro hsome => by rw [hbnd ro hro hsome, eb2]; exact hok.1)
                refine rco_assemble hgood.1 hinone hS12 ?_ hpl (placedPaths_table_step hT hgood.1) hP12
                intro j rj hji hreach hj
                have hjo : j ≠ o := by
                  intro e; subst e
                  exact hA1.not_reachP_self i ⟨r1, j, hr1, hown, hreach⟩
                exact hun2 j rj hjo (hreach.tail hr1 hown) hj

end Clipper.Model.Owner
