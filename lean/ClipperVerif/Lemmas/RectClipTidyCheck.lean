/-
Helper lemmas for Props/C08Tidy.lean, part 4: unlinking a node (`UnlinkOp`, `UnlinkOpBack`), the collinear-removal loop and the
edge-classification loop of `CheckEdges`, `CheckEdges` as a whole, on well-formed heaps.
Core Lean only.
-/
import ClipperVerif.Lemmas.RectClipTidyStep
namespace Clipper.Lemmas.RCT
open Clipper Clipper.Model.RC Clipper.Model.RCT

/-! ### unlinking on lists -/

theorem unlink_lists {nx pv : Nat → Nat} (A : List Nat) (x : Nat) (B : List Nat) (hnd : (A ++ x :: B).Nodup)
    (h : Cyc nx pv (A ++ x :: B)) (hne : A ++ B ≠ []) :
    Cyc (upd nx (pv x) (nx x)) (upd pv (nx x) (pv x)) (A ++ B) ∧ pv x ∈ A ++ B ∧ nx x ∈ A ++ B ∧ pv x ≠ x ∧ nx x ≠ x := by
  -- rotate so that x comes first
  have hR : Cyc nx pv (x :: (B ++ A)) := by
    cases A with
    | nil => simpa using h
    | cons a A =>
      have := cyc_rotate (X := a :: A) (Y := x :: B) (by simp) (by simp) h
      simpa using this
  have hndR : (x :: (B ++ A)).Nodup := by
    have : (x :: (B ++ A)).Perm (A ++ x :: B) := by
      have := List.perm_append_comm (l₁ := x :: B) (l₂ := A)
      simpa using this
    exact this.nodup_iff.mpr hnd
  have hRne : B ++ A ≠ [] := by
    intro e
    apply hne
    simp only [List.append_eq_nil_iff] at e ⊢
    exact ⟨e.2, e.1⟩
  -- R = B ++ A = U0 ++ [p], first element q
  obtain ⟨U0, p, hU⟩ : ∃ U0 p, B ++ A = U0 ++ [p] := by
    rcases List.eq_nil_or_concat (B ++ A) with e | ⟨l, b, e⟩
    · exact absurd e hRne
    · exact ⟨l, b, by simpa using e⟩
  have hl : Linked nx pv (x :: (U0 ++ [p]) ++ [x]) := by rw [← hU]; exact hR
  have hq : nx x = (U0 ++ [p]).headD p := by
    cases U0 with
    | nil => simpa using hl.1
    | cons z U0 => simpa using hl.1
  have hl2 : Linked nx pv (U0 ++ [p, x]) := by
    have := linked_tail hl
    simpa using this
  have hp := (linked_snoc2 _ _ _).mp hl2
  have epv : pv x = p := hp.2.2
  have hndU : (U0 ++ [p]).Nodup := by rw [← hU]; exact (List.nodup_cons.mp hndR).2
  have hxU : x ∉ U0 ++ [p] := by rw [← hU]; exact (List.nodup_cons.mp hndR).1
  have hqm : nx x ∈ U0 ++ [p] := by rw [hq]; cases U0 <;> simp
  have key : Linked (upd nx (pv x) (nx x)) (upd pv (nx x) (pv x)) (U0 ++ [p, nx x]) := by
    apply seg_relink U0 p x (nx x) hl2
    · intro k hk
      have : k ≠ pv x := by
        rw [epv]; intro e; subst e
        exact (List.nodup_append.mp hndU).2.2 k hk k (by simp) rfl
      rw [upd_ne _ _ this]
    · intro k hk
      have : k ≠ nx x := by
        intro e
        cases hu : U0 ++ [p] with
        | nil => simp at hu
        | cons a X =>
          rw [hu] at hk hndU
          have e2 : nx x = a := by rw [hq, hu]; rfl
          simp only [List.tail_cons] at hk
          exact (List.nodup_cons.mp hndU).1 (by rw [← e2, ← e]; exact hk)
      rw [upd_ne _ _ this]
    · rw [epv]; simp
    · rw [epv]; simp
  have cR : Cyc (upd nx (pv x) (nx x)) (upd pv (nx x) (pv x)) (B ++ A) := by
    rw [hU]
    cases hu : U0 ++ [p] with
    | nil => simp at hu
    | cons a X =>
      have e2 : nx x = a := by rw [hq, hu]; rfl
      have : U0 ++ [p, nx x] = a :: X ++ [a] := by rw [e2, ← hu]; simp
      rw [this] at key
      exact key
  have memR : ∀ k, k ∈ U0 ++ [p] ↔ k ∈ A ++ B := by
    intro k; rw [← hU]; simp only [List.mem_append]; exact Or.comm
  refine ⟨?_, ?_, ?_, ?_, ?_⟩
  · cases A with
    | nil => simpa using cR
    | cons a A =>
      cases B with
      | nil => simpa using cR
      | cons b B => exact cyc_rotate (by simp) (by simp) cR
  · rw [epv]; exact (memR p).mp (by simp)
  · exact (memR _).mp hqm
  · rw [epv]; intro e; exact hxU (by rw [← e]; simp)
  · intro e; exact hxU (e ▸ hqm)

/-! ### unlinking on heaps -/

/-- `results_[i] := v` -/
def withSlot (h : Heap) (i : Nat) (v : Option Nat) : Heap := { h with results := h.results.set i v }

theorem unlink_eq (h : Heap) (x : Nat) :
    h.unlink x = { h with next := upd h.next (h.prev x) (h.next x), prev := upd h.prev (h.next x) (h.prev x) } := by
  unfold Heap.unlink
  simp only
  have : upd h.next (h.prev x) (h.next x) x = h.next x := by
    simp only [upd_apply]; split <;> rfl
  rw [this]

/-- moving the pointer of slot `i` to another node of its ring keeps the heap well-formed -/
theorem withSlot_move {h : Heap} {ring : Nat → List Nat} {i a b : Nat} (w : RingsWF (withSlot h i (some a)) ring)
    (hi : i < h.results.length) (hb : b ∈ ring i) : RingsWF (withSlot h i (some b)) ring := by
  refine ⟨?_, ?_, w.cyc, w.nodup, w.owner, w.lt⟩
  · intro s k hk
    simp only [withSlot, List.getElem?_set] at hk
    split at hk
    · rename_i e; subst e
      simp only [Option.some.injEq] at hk
      subst hk; exact hb
    · rename_i e
      apply w.slot_some s k
      simp only [withSlot, List.getElem?_set, e, if_false]; exact hk
  · intro s hs
    apply w.slot_none s
    intro k hk
    simp only [withSlot, List.getElem?_set] at hk hs
    split at hk
    · rename_i e; subst e
      exact hs b (by simp [hi])
    · rename_i e
      exact hs k (by simp only [e, if_false]; exact hk)

/-- **Unlinking a node.**  `x` is a node of ring `s` that is not alone in it and not the node `results_[s]` points to:
after `op->prev->next = op->next; op->next->prev = op->prev;` the heap is well-formed with `x` erased from the ring. -/
theorem unlink_wf {h : Heap} {ring : Nat → List Nat} (w : RingsWF h ring) {s x : Nat} (hx : x ∈ ring s)
    (hne : h.next x ≠ x) (hslot : h.results[s]? ≠ some (some x)) :
    RingsWF (h.unlink x) (upd ring s ((ring s).erase x)) ∧ h.prev x ∈ (ring s).erase x ∧ h.next x ∈ (ring s).erase x := by
  obtain ⟨A, B, hAB⟩ := List.append_of_mem hx
  have hnd := w.nodup s
  rw [hAB] at hnd
  have hxA : x ∉ A := by
    intro m
    exact (List.nodup_append.mp hnd).2.2 x m x (by simp) rfl
  have hxB : x ∉ B := (List.nodup_cons.mp (List.nodup_append.mp hnd).2.1).1
  have herase : (ring s).erase x = A ++ B := by
    rw [hAB, List.erase_append_right _ hxA, List.erase_cons_head]
  have hcyc := w.cyc s (List.ne_nil_of_mem hx)
  rw [hAB] at hcyc
  have hABne : A ++ B ≠ [] := by
    intro e
    simp only [List.append_eq_nil_iff] at e
    obtain ⟨rfl, rfl⟩ := e
    have : Linked h.next h.prev [x, x] := hcyc
    exact hne this.1
  obtain ⟨c', mp, mn, np, nn⟩ := unlink_lists A x B hnd hcyc hABne
  rw [herase]
  refine ⟨?_, mp, mn⟩
  rw [unlink_eq]
  have memS : ∀ k, k ∈ A ++ B → k ∈ ring s := by
    intro k hk; rw [hAB]
    simp only [List.mem_append, List.mem_cons] at hk ⊢
    rcases hk with hk | hk
    · exact Or.inl hk
    · exact Or.inr (Or.inr hk)
  refine ⟨?_, ?_, ?_, ?_, ?_, ?_⟩
  · intro t k hk
    by_cases e : t = s
    · subst e
      simp only [upd_same]
      have hk' := w.slot_some t k hk
      rw [← herase]
      refine (List.mem_erase_of_ne ?_).mpr hk'
      intro e; subst e; exact hslot hk
    · rw [upd_ne _ _ e]; exact w.slot_some t k hk
  · intro t ht
    by_cases e : t = s
    · subst e
      have := w.slot_none t ht
      rw [this] at hx; cases hx
    · rw [upd_ne _ _ e]; exact w.slot_none t ht
  · intro t ht
    by_cases e : t = s
    · subst e; simp only [upd_same]; exact c'
    · rw [upd_ne _ _ e] at ht ⊢
      apply cyc_congr (w.cyc t ht)
      · intro k hk
        have : k ≠ h.prev x := fun e' => e (w.disjoint hk (e' ▸ memS _ mp))
        simp only [upd_ne _ _ this]
      · intro k hk
        have : k ≠ h.next x := fun e' => e (w.disjoint hk (e' ▸ memS _ mn))
        simp only [upd_ne _ _ this]
  · intro t
    by_cases e : t = s
    · subst e; simp only [upd_same]; rw [← herase]; exact (w.nodup t).erase x
    · rw [upd_ne _ _ e]; exact w.nodup t
  · intro t k hk
    by_cases e : t = s
    · subst e; simp only [upd_same] at hk; exact w.owner t k (memS k hk)
    · rw [upd_ne _ _ e] at hk; exact w.owner t k hk
  · intro t k hk
    by_cases e : t = s
    · subst e; simp only [upd_same] at hk; exact w.lt t k (memS k hk)
    · rw [upd_ne _ _ e] at hk; exact w.lt t k hk

theorem upd_upd {α : Type} (f : Nat → α) (k : Nat) (v v' : α) : upd (upd f k v) k v' = upd f k v' := by
  funext x; simp only [upd_apply]; split <;> rfl

theorem upd_self_eq {α : Type} (f : Nat → α) (k : Nat) : upd f k (f k) = f := by
  funext x; simp only [upd_apply]; split
  · rename_i e; rw [e]
  · rfl

theorem unlinkOpBack_spec (h : Heap) (x : Nat) :
    h.unlinkOpBack x = if h.next x = x then (none, h) else (some (h.prev x), h.unlink x) := by
  unfold Heap.unlinkOpBack
  split
  · rfl
  · rename_i hne
    rw [unlink_eq]
    have : upd h.prev (h.next x) (h.prev x) x = h.prev x := by
      simp only [upd_apply]; split <;> rfl
    simp only [this]

theorem unlinkOp_spec (h : Heap) (x : Nat) :
    h.unlinkOp x = if h.next x = x then (none, h) else (some (h.next x), h.unlink x) := by
  unfold Heap.unlinkOp
  split
  · rfl
  · rw [unlink_eq]
    have : upd h.next (h.prev x) (h.next x) x = h.next x := by
      simp only [upd_apply]; split <;> rfl
    simp only [this]

/-- giving up slot `i` -/
theorem withSlot_drop {h : Heap} {ring : Nat → List Nat} {i a : Nat} (w : RingsWF (withSlot h i (some a)) ring)
    (hi : i < h.results.length) : RingsWF (withSlot h i none) (upd ring i []) := by
  refine ⟨?_, ?_, ?_, ?_, ?_, ?_⟩
  · intro s k hk
    simp only [withSlot, List.getElem?_set] at hk
    split at hk
    · rename_i e; subst e; first | cases hk | (split at hk <;> cases hk)
    · rename_i e
      have e' : s ≠ i := fun x => e x.symm
      rw [upd_ne _ _ e']
      apply w.slot_some s k
      simp only [withSlot, List.getElem?_set, e, if_false]; exact hk
  · intro s hs
    by_cases e : s = i
    · subst e; simp
    · rw [upd_ne _ _ e]
      apply w.slot_none s
      intro k hk
      have e' : ¬ i = s := fun x => e x.symm
      simp only [withSlot, List.getElem?_set, e', if_false] at hk hs
      exact hs k hk
  · intro s hs
    by_cases e : s = i
    · subst e; simp at hs
    · rw [upd_ne _ _ e] at hs ⊢; exact w.cyc s hs
  · intro s
    by_cases e : s = i
    · subst e; simp
    · rw [upd_ne _ _ e]; exact w.nodup s
  · intro s k hk
    by_cases e : s = i
    · subst e; simp at hk
    · rw [upd_ne _ _ e] at hk; exact w.owner s k hk
  · intro s k hk
    by_cases e : s = i
    · subst e; simp at hk
    · rw [upd_ne _ _ e] at hk; exact w.lt s k hk

theorem withSlot_get (h : Heap) (i : Nat) (v : Option Nat) (hi : i < h.results.length) :
    (withSlot h i v).results[i]? = some v := by
  simp [withSlot, hi]

/-- what the collinear pass of `CheckEdges` leaves untouched -/
def CollFrame (h h1 : Heap) : Prop :=
  h1.n = h.n ∧ h1.pt = h.pt ∧ h1.owner = h.owner ∧ h1.edge = h.edge ∧ h1.edges = h.edges ∧ h1.results = h.results

theorem CollFrame.refl (h : Heap) : CollFrame h h := ⟨rfl, rfl, rfl, rfl, rfl, rfl⟩

theorem CollFrame.trans {a b c : Heap} (h1 : CollFrame a b) (h2 : CollFrame b c) : CollFrame a c := by
  obtain ⟨a1, a2, a3, a4, a5, a6⟩ := h1
  obtain ⟨b1, b2, b3, b4, b5, b6⟩ := h2
  exact ⟨b1.trans a1, b2.trans a2, b3.trans a3, b4.trans a4, b5.trans a5, b6.trans a6⟩

theorem collFrame_unlink (h : Heap) (x : Nat) : CollFrame h (h.unlink x) := ⟨rfl, rfl, rfl, rfl, rfl, rfl⟩

/-- outcome of the collinear pass on the ring of slot `i`: the ring `L` that is left is a subsequence of the old one -/
def CollOut (h1 : Heap) (i : Nat) (ring : Nat → List Nat) (op1 : Nat) (nc : Prop) : Option Nat → Prop
  | none => RingsWF (withSlot h1 i none) (upd ring i []) ∧ ¬ nc
  | some _ => ∃ L, L.Sublist (ring i) ∧ op1 ∈ L ∧ RingsWF (withSlot h1 i (some op1)) (upd ring i L) ∧ (nc → L = ring i)

/-- **The collinear pass of `CheckEdges`** (first `do … while` loop), any fuel.  `results_[i]` is treated as the loop variable
`op` (the C++ writes it back after the loop). -/
theorem collinearLoop_wf (i : Nat) : ∀ (fuel : Nat) (h : Heap) (op op2 : Nat) (ring : Nat → List Nat),
    RingsWF (withSlot h i (some op)) ring → i < h.results.length → op2 ∈ ring i →
    (∀ h1 op1 r, collinearLoop fuel h op op2 = .ok (h1, op1, r) →
      CollFrame h h1 ∧ CollOut h1 i ring op1 (∀ x ∈ ring i, h.collinearAt x = false) r) ∧
    (∀ f, collinearLoop fuel h op op2 = .error f → f = .fuel)
  | 0, h, op, op2, ring, _, _, _ => by
    constructor
    · intro h1 op1 r e; simp [collinearLoop] at e
    · intro f e; simp only [collinearLoop, Except.error.injEq] at e; exact e.symm
  | fuel + 1, h, op, op2, ring, w, hi, h2 => by
    have hop : op ∈ ring i := w.slot_some i op (withSlot_get h i _ hi)
    have keep : ∀ {q : Nat}, q ∈ ring i →
        (∀ h1 op1 r, (Except.ok (h, op, some q) : Except TFault (Heap × Nat × Option Nat)) = .ok (h1, op1, r) →
          CollFrame h h1 ∧ CollOut h1 i ring op1 (∀ x ∈ ring i, h.collinearAt x = false) r) := by
      intro q _ h1 op1 r e
      simp only [Except.ok.injEq, Prod.mk.injEq] at e
      obtain ⟨rfl, rfl, rfl⟩ := e
      refine ⟨CollFrame.refl _, ring i, List.Sublist.refl _, hop, ?_, fun _ => rfl⟩
      rw [upd_self_eq]; exact w
    unfold collinearLoop
    split
    · -- collinear: unlink op2
      rename_i hcoll
      have hnc : ¬ (∀ x ∈ ring i, h.collinearAt x = false) := by
        intro hall; rw [hall op2 h2] at hcoll; cases hcoll
      rw [unlinkOpBack_spec]
      by_cases hself : h.next op2 = op2
      · -- the ring vanishes
        simp only [hself, if_true]
        have : ∀ h1 op1 r, (Except.ok (h, op, none) : Except TFault (Heap × Nat × Option Nat)) = .ok (h1, op1, r) →
            CollFrame h h1 ∧ CollOut h1 i ring op1 (∀ x ∈ ring i, h.collinearAt x = false) r := by
          intro h1 op1 r e
          simp only [Except.ok.injEq, Prod.mk.injEq] at e
          obtain ⟨rfl, rfl, rfl⟩ := e
          exact ⟨CollFrame.refl _, withSlot_drop w hi, hnc⟩
        split <;> exact ⟨this, by intro f e; cases e⟩
      · simp only [hself, if_false]
        -- move the slot pointer away from op2, unlink, and continue
        have hp : h.prev op2 ∈ ring i := (w.prev_mem h2).1
        have w0 : RingsWF (withSlot h i (some (h.prev op2))) ring := withSlot_move w hi hp
        have hneq : h.prev op2 ≠ op2 := by
          intro e
          have : h.next (h.prev op2) = op2 := (w.prev_mem h2).2
          rw [e] at this
          exact hself this
        have hslot : (withSlot h i (some (h.prev op2))).results[i]? ≠ some (some op2) := by
          rw [withSlot_get h i _ hi]
          intro e; simp only [Option.some.injEq] at e; exact hneq e
        obtain ⟨w1, mp, mn⟩ := unlink_wf w0 h2 hself hslot
        have w1' : RingsWF (withSlot (h.unlink op2) i (some (h.prev op2))) (upd ring i ((ring i).erase op2)) := w1
        have hi' : i < (h.unlink op2).results.length := hi
        have sub : ((ring i).erase op2).Sublist (ring i) := List.erase_sublist
        -- a helper to transport the result of the recursive call
        have lift : ∀ (op' q : Nat), op' ∈ (ring i).erase op2 → q ∈ (ring i).erase op2 →
            (∀ h1 op1 r, collinearLoop fuel (h.unlink op2) op' q = .ok (h1, op1, r) →
              CollFrame h h1 ∧ CollOut h1 i ring op1 (∀ x ∈ ring i, h.collinearAt x = false) r) ∧
            (∀ f, collinearLoop fuel (h.unlink op2) op' q = .error f → f = .fuel) := by
          intro op' q ho hq
          have w2 : RingsWF (withSlot (h.unlink op2) i (some op')) (upd ring i ((ring i).erase op2)) :=
            withSlot_move w1' hi' (by simp only [upd_same]; exact ho)
          have ih := collinearLoop_wf i fuel (h.unlink op2) op' q _ w2 hi' (by simp only [upd_same]; exact hq)
          refine ⟨?_, ih.2⟩
          intro h1 op1 r e
          obtain ⟨fr, out⟩ := ih.1 h1 op1 r e
          refine ⟨(collFrame_unlink h op2).trans fr, ?_⟩
          cases r with
          | none =>
            obtain ⟨wn, _⟩ := out
            simp only [upd_upd] at wn
            exact ⟨wn, hnc⟩
          | some z =>
            obtain ⟨L, hL, hm, wL, _⟩ := out
            simp only [upd_same, upd_upd] at hL wL
            exact ⟨L, hL.trans sub, hm, wL, fun hall => absurd hall hnc⟩
        have stop : ∀ (op' q : Nat), op' ∈ (ring i).erase op2 →
            (∀ h1 op1 r, (Except.ok (h.unlink op2, op', some q) : Except TFault (Heap × Nat × Option Nat)) = .ok (h1, op1, r) →
              CollFrame h h1 ∧ CollOut h1 i ring op1 (∀ x ∈ ring i, h.collinearAt x = false) r) := by
          intro op' q ho h1 op1 r e
          simp only [Except.ok.injEq, Prod.mk.injEq] at e
          obtain ⟨rfl, rfl, rfl⟩ := e
          exact ⟨collFrame_unlink h op2, _, sub, ho, withSlot_move w1' hi' (by simp only [upd_same]; exact ho),
            fun hall => absurd hall hnc⟩
        split
        · -- op2 == op
          have hp' : (h.unlink op2).prev (h.prev op2) ∈ (ring i).erase op2 := by
            have := (w1'.prev_mem (s := i) (k := h.prev op2) (by simp only [upd_same]; exact mp)).1
            simp only [upd_same] at this
            exact this
          split
          · exact lift _ _ hp' mp
          · exact ⟨stop _ _ hp', by intro f e; cases e⟩
        · rename_i hne2
          have ho : op ∈ (ring i).erase op2 := (List.mem_erase_of_ne (fun e => hne2 e.symm)).mpr hop
          split
          · exact lift _ _ ho mp
          · exact ⟨stop _ _ ho, by intro f e; cases e⟩
    · -- not collinear: advance
      simp only
      have hn : h.next op2 ∈ ring i := (w.next_mem h2).1
      split
      · exact collinearLoop_wf i fuel h op (h.next op2) ring w hi hn
      · exact ⟨keep hn, by intro f e; cases e⟩

/-! ### the classification loop of `CheckEdges` -/

theorem classifyOne_spec (h : Heap) (op2 : Nat) (c : UInt64) (j : Nat) :
    SameRings h (classifyOne h op2 c j) ∧ EntriesSub h (classifyOne h op2 c j) [op2] := by
  unfold classifyOne
  split
  · split
    · exact ⟨sameRings_addToEdge _ _ _, entriesSub_addToEdge _ _ _ _ (by simp)⟩
    · exact ⟨sameRings_addToEdge _ _ _, entriesSub_addToEdge _ _ _ _ (by simp)⟩
  · exact ⟨SameRings.refl _, EntriesSub.refl _ _⟩

theorem classifyAll_spec (h : Heap) (op2 : Nat) (c : UInt64) :
    SameRings h ([0, 1, 2, 3].foldl (fun hh j => classifyOne hh op2 c j) h) ∧
      EntriesSub h ([0, 1, 2, 3].foldl (fun hh j => classifyOne hh op2 c j) h) [op2] := by
  simp only [List.foldl_cons, List.foldl_nil]
  have a0 := classifyOne_spec h op2 c 0
  have a1 := classifyOne_spec (classifyOne h op2 c 0) op2 c 1
  have a2 := classifyOne_spec (classifyOne (classifyOne h op2 c 0) op2 c 1) op2 c 2
  have a3 := classifyOne_spec (classifyOne (classifyOne (classifyOne h op2 c 0) op2 c 1) op2 c 2) op2 c 3
  exact ⟨((a0.1.trans a1.1).trans a2.1).trans a3.1, ((a0.2.trans a1.2).trans a2.2).trans a3.2⟩

/-- the second loop of `CheckEdges` only appends nodes of the ring it walks to edge lists -/
theorem edgeLoop_inv (r : Rect) (op i : Nat) (ring : Nat → List Nat) : ∀ (fuel : Nat) (h : Heap) (es : UInt64) (op2 : Nat),
    RingsWF h ring → op2 ∈ ring i →
    (∀ h', edgeLoop r op fuel h es op2 = .ok h' → SameRings h h' ∧
      ∀ e k, some k ∈ h'.edges e → some k ∈ h.edges e ∨ k ∈ ring i) ∧
    (∀ f, edgeLoop r op fuel h es op2 = .error f → f = .fuel)
  | 0, h, es, op2, _, _ => by
    constructor
    · intro h' e; simp [edgeLoop] at e
    · intro f e; simp only [edgeLoop, Except.error.injEq] at e; exact e.symm
  | fuel + 1, h, es, op2, w, h2 => by
    unfold edgeLoop
    simp only
    -- the heap after the classification of op2
    have key : ∀ h1 : Heap, SameRings h h1 → EntriesSub h h1 [op2] →
        (∀ h', (if h1.next op2 ≠ op then edgeLoop r op fuel h1 (edgesForPt r (h.pt op2)) (h1.next op2) else .ok h1) = .ok h' →
          SameRings h h' ∧ ∀ e k, some k ∈ h'.edges e → some k ∈ h.edges e ∨ k ∈ ring i) ∧
        (∀ f, (if h1.next op2 ≠ op then edgeLoop r op fuel h1 (edgesForPt r (h.pt op2)) (h1.next op2) else .ok h1) = .error f →
          f = .fuel) := by
      intro h1 sr es1
      have sub1 : ∀ e k, some k ∈ h1.edges e → some k ∈ h.edges e ∨ k ∈ ring i := by
        intro e k hk
        rcases es1 e k hk with m | m
        · exact Or.inl m
        · simp only [List.mem_singleton] at m; subst m; exact Or.inr h2
      split
      · have w1 : RingsWF h1 ring := w.of_sameRings sr
        have hn : h1.next op2 ∈ ring i := (w1.next_mem h2).1
        have ih := edgeLoop_inv r op i ring fuel h1 (edgesForPt r (h.pt op2)) (h1.next op2) w1 hn
        constructor
        · intro h' e
          obtain ⟨s2, m2⟩ := ih.1 h' e
          refine ⟨sr.trans s2, ?_⟩
          intro e' k hk
          rcases m2 e' k hk with m | m
          · exact sub1 e' k m
          · exact Or.inr m
        · exact ih.2
      · constructor
        · intro h' e
          simp only [Except.ok.injEq] at e
          subst e
          exact ⟨sr, sub1⟩
        · intro f e; cases e
    split
    · have := classifyAll_spec h op2 (es &&& edgesForPt r (h.pt op2))
      exact key _ this.1 this.2
    · exact key h (SameRings.refl _) (EntriesSub.refl _ _)

/-! ### `CheckEdges` on the heap `ExecuteInternal` leaves (at most one slot) -/

theorem withSlot_self (h : Heap) (i : Nat) (v : Option Nat) (hv : h.results[i]? = some v) : withSlot h i v = h := by
  obtain ⟨hi, e⟩ := List.getElem?_eq_some_iff.mp hv
  subst e
  unfold withSlot
  rw [List.set_getElem_self hi]

theorem setResult_ok (h : Heap) (i : Nat) (v : Option Nat) (hi : i < h.results.length) :
    h.setResult i v = .ok (withSlot h i v) := by
  simp [Heap.setResult, hi, withSlot]

/-- `CheckEdges()` for slot 0 -/
theorem checkRing_wf (r : Rect) (h : Heap) (ring : Nat → List Nat) (w : RingsWF h ring) (hlen : h.results.length = 1)
    (hel : ∀ e k, some k ∈ h.edges e → k ∈ ring 0)
    (hclean : (∀ e k, some k ∉ h.edges e) ∨ (∀ x ∈ ring 0, h.collinearAt x = false)) :
    (∀ h', checkRing r h 0 = .ok h' → h'.n = h.n ∧ h'.pt = h.pt ∧ h'.results.length = 1 ∧
      ∃ L, L.Sublist (ring 0) ∧ TInv h' (upd ring 0 L)) ∧
    (∀ f, checkRing r h 0 = .error f → f = .fuel) := by
  have h0 : 0 < h.results.length := by omega
  unfold checkRing
  cases hr : h.results[0]? with
  | none => exact absurd (List.getElem?_eq_none_iff.mp hr) (by omega)
  | some v =>
    cases v with
    | none =>
      simp only
      constructor
      · intro h' e
        simp only [Except.ok.injEq] at e
        subst e
        have hn : ring 0 = [] := w.slot_none 0 (by intro k hk; rw [hr] at hk; cases hk)
        refine ⟨rfl, rfl, hlen, ring 0, List.Sublist.refl _, ?_⟩
        rw [upd_self_eq]
        exact ⟨w, fun e k hk => ⟨0, hel e k hk⟩⟩
      · intro f e; cases e
    | some op =>
      simp only
      have w0 : RingsWF (withSlot h 0 (some op)) ring := by rw [withSlot_self h 0 _ hr]; exact w
      have hop : op ∈ ring 0 := w.slot_some 0 op hr
      have cl := collinearLoop_wf 0 (collFuel h) h op op ring w0 h0 hop
      cases hc : collinearLoop (collFuel h) h op op with
      | error f =>
        simp only
        refine ⟨?_, ?_⟩
        · intro h' e; cases e
        · intro f' e; cases e; exact cl.2 f hc
      | ok res =>
        obtain ⟨h1, op1, rr⟩ := res
        obtain ⟨fr, out⟩ := cl.1 h1 op1 rr hc
        obtain ⟨f1, f2, f3, f4, f5, f6⟩ := fr
        have h01 : 0 < h1.results.length := by rw [f6]; exact h0
        cases rr with
        | none =>
          simp only
          rw [setResult_ok h1 0 none h01]
          obtain ⟨wn, hnc⟩ := out
          constructor
          · intro h' e
            simp only [Except.ok.injEq] at e
            subst e
            refine ⟨f1, f2, by simp [withSlot, f6, hlen], [], List.nil_sublist _, wn, ?_⟩
            intro e k hk
            rcases hclean with hcl | hcl
            · exact absurd (by simpa [withSlot, f5] using hk) (hcl e k)
            · exact absurd hcl hnc
          · intro f e; cases e
        | some z =>
          simp only
          rw [setResult_ok h1 0 (some op1) h01]
          simp only
          obtain ⟨L, hL, hm, wL, hnc⟩ := out
          have hm' : op1 ∈ (upd ring 0 L) 0 := by simp only [upd_same]; exact hm
          have el := edgeLoop_inv r op1 0 (upd ring 0 L) ((withSlot h1 0 (some op1)).n + 1) (withSlot h1 0 (some op1))
            (edgesForPt r ((withSlot h1 0 (some op1)).pt ((withSlot h1 0 (some op1)).prev op1))) op1 wL hm'
          constructor
          · intro h' e
            obtain ⟨sr, sub⟩ := el.1 h' e
            refine ⟨by rw [sr.1]; exact f1, by rw [sr.2.1]; exact f2, by rw [sr.2.2.2.2.2]; simp [withSlot, f6, hlen], L, hL,
              wL.of_sameRings sr, ?_⟩
            intro e' k hk
            rcases sub e' k hk with m | m
            · have m' : some k ∈ h.edges e' := by simpa [withSlot, f5] using m
              rcases hclean with hcl | hcl
              · exact absurd m' (hcl e' k)
              · refine ⟨0, ?_⟩
                simp only [upd_same]
                rw [hnc hcl]; exact hel e' k m'
            · exact ⟨0, m⟩
          · exact el.2

theorem checkEdges_wf (r : Rect) (h : Heap) (ring : Nat → List Nat) (w : RingsWF h ring) (hlen : h.results.length ≤ 1)
    (hel : ∀ e k, some k ∈ h.edges e → k ∈ ring 0)
    (hclean : (∀ e k, some k ∉ h.edges e) ∨ (∀ x ∈ ring 0, h.collinearAt x = false)) :
    (∀ h', checkEdges r h = .ok h' → h'.n = h.n ∧ h'.pt = h.pt ∧ ∃ L, L.Sublist (ring 0) ∧ TInv h' (upd ring 0 L)) ∧
    (∀ f, checkEdges r h = .error f → f = .fuel) := by
  unfold checkEdges
  rcases Nat.lt_or_ge h.results.length 1 with h0 | h1
  · have : h.results.length = 0 := by omega
    rw [this]
    simp only [checkRings]
    constructor
    · intro h' e
      simp only [Except.ok.injEq] at e
      subst e
      refine ⟨rfl, rfl, ring 0, List.Sublist.refl _, ?_⟩
      rw [upd_self_eq]
      exact ⟨w, fun e k hk => ⟨0, hel e k hk⟩⟩
    · intro f e; cases e
  · have hl : h.results.length = 1 := by omega
    rw [hl]
    simp only [checkRings]
    have cr := checkRing_wf r h ring w hl hel hclean
    cases hc : checkRing r h 0 with
    | error f =>
      simp only
      refine ⟨?_, ?_⟩
      · intro h' e; cases e
      · intro f' e; cases e; exact cr.2 f hc
    | ok h1 =>
      simp only
      constructor
      · intro h' e
        simp only [Except.ok.injEq] at e
        subst e
        obtain ⟨a, b, _, L, hL, inv⟩ := cr.1 h1 hc
        exact ⟨a, b, L, hL, inv⟩
      · intro f e; cases e

end Clipper.Lemmas.RCT
