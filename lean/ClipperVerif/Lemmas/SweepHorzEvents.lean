/-
Lemmas about the bookkeeping events of `DoHorizontal` (`Model/SweepHorz.lean`): the swaps of a walk, as adjacent transpositions
(`Model/SweepEvents.applySwaps`), move the horizontal past the edges it passes; the `Model/Ael` ops of a walk.
Used by `Props/C01Horz.doHorizontal_events_accepted`.
-/
import ClipperVerif.Model.SweepHorz
import ClipperVerif.Lemmas.C01Region
namespace Clipper.Lemmas.SweepHorzEvents
open Clipper Clipper.Model Clipper.Model.SweepHorz
open Clipper.Model.SweepEvents (swapAt applySwaps key)
open Clipper.Lemmas.C01Region

/-- walking left to right past `P`: the swaps at `i, i+1, …` move `x` behind `P` -/
theorem applySwaps_walk_l2r {α : Type} : ∀ (P pre : List α) (x : α) (Q : List α) (i : Nat), pre.length = i →
    applySwaps ((List.range P.length).map (i + ·)) (pre ++ x :: (P ++ Q)) = some (pre ++ P ++ x :: Q) := by
  intro P
  induction P with
  | nil => intro pre x Q i _; simp [applySwaps]
  | cons p P ih =>
    intro pre x Q i hi
    have hr : (List.range (p :: P).length).map (i + ·) = i :: (List.range P.length).map ((i + 1) + ·) := by
      simp only [List.length_cons, List.range_succ_eq_map, List.map_cons, List.map_map, Nat.add_zero]
      congr 1
      apply List.map_congr_left; intro a _; simp only [Function.comp]; omega
    rw [hr, applySwaps_cons]
    have h1 : swapAt i (pre ++ x :: (p :: P ++ Q)) = some (pre ++ p :: x :: (P ++ Q)) := by
      simpa using swapAt_len pre x p (P ++ Q) i hi
    rw [h1]
    simp only [Option.bind_some]
    have := ih (pre ++ [p]) x Q (i + 1) (by simp [hi])
    simpa using this

/-- walking right to left past `P` (nearest first): the swaps at `i-1, i-2, …` move `x` in front of `P` -/
theorem applySwaps_walk_r2l {α : Type} : ∀ (P A : List α) (x : α) (B : List α) (i : Nat), A.length + P.length = i →
    applySwaps ((List.range P.length).map (i - 1 - ·)) (A ++ P.reverse ++ x :: B) = some (A ++ x :: (P.reverse ++ B)) := by
  intro P
  induction P with
  | nil => intro A x B i _; simp [applySwaps]
  | cons p P ih =>
    intro A x B i hi
    have hr : (List.range (p :: P).length).map (i - 1 - ·) = (i - 1) :: (List.range P.length).map ((i - 1) - 1 - ·) := by
      simp only [List.length_cons, List.range_succ_eq_map, List.map_cons, List.map_map, Nat.sub_zero]
      congr 1
      apply List.map_congr_left; intro a _; simp only [Function.comp]; omega
    rw [hr, applySwaps_cons]
    have h1 : swapAt (i - 1) (A ++ (p :: P).reverse ++ x :: B) = some (A ++ P.reverse ++ x :: p :: B) := by
      have := swapAt_len (A ++ P.reverse) p x B (i - 1) (by simp at hi ⊢; omega)
      simpa using this
    rw [h1]
    simp only [Option.bind_some]
    have := ih A x (p :: B) (i - 1) (by simp at hi; omega)
    simpa using this

/-- the ops of a walk -/
theorem walkEvents_ops (d : Bool) (i hid : Nat) (P : List HEdge) :
    (walkEvents d i hid P).map Ev.toOp =
      ((List.range P.length).map (fun j => if d then i + j else i - 1 - j)).map Op.intersect := by
  unfold walkEvents
  rw [List.zipIdx_eq_zip_range', List.map_map, List.map_map]
  rw [List.range_eq_range']
  generalize 0 = k
  induction P generalizing k with
  | nil => rfl
  | cons p P ih =>
    simp only [List.length_cons, List.range'_succ, List.zip_cons_cons, List.map_cons]
    congr 1
    · cases d <;> rfl
    · exact ih (k + 1)

end Clipper.Lemmas.SweepHorzEvents
