/-
Helper lemmas for `Props/C01Crown.lean`, part 6: WHAT IS PENDING WHEN THE SWEEP PASSES THE PROBE'S SCANLINE.  At that moment every ring end
ends below the scanline, so the pending sum is, over the hot edges that pass RIGHT of the probe, `+1` for a front end and `−1` for a back end.
The sides alternate front, back, front, … from the left (`altFrom`, the side invariant), the hot edges are even in number, and in a list
sorted on the scanline the edges left of the probe form a prefix: the sum is `−1` if an odd number of hot edges is left of the probe and `0`
otherwise (`rsum_alt`).  Also: the labelling is kept by intersection events (`tracks_isects`), the scanbeams of the decorated run descend
(`beams_descend`).  Core Lean only.
-/
import ClipperVerif.Lemmas.C01CrownGeom
import ClipperVerif.Lemmas.C01CrownSorted
namespace Clipper.Lemmas.C01Crown
open Clipper Clipper.Model Clipper.Model.AelOrder Clipper.Model.SweepOrder Clipper.Model.SweepEvents Clipper.Model.SweepPoints
open Clipper.Lemmas.C01Output Clipper.Lemmas.C01Region

/-- `+1` for an edge holding a front end, `−1` for a back end, `0` for a cold edge -/
def sgn (x : Model.SEdge) : Int :=
  match x.orec with
  | some k => if k.front then 1 else -1
  | none => 0

/-- sum of `sgn` over the edges that do not pass strictly left of the probe -/
def rsum (xn yn yd : Int) : List Model.SEdge → List GEdge → Int
  | x :: xs, ge :: gs => (if leftOfPt ge xn yn yd then 0 else sgn x) + rsum xn yn yd xs gs
  | _, _ => 0

def par (n : Nat) : Bool := decide (n % 2 = 1)

/-- sum of an alternating sequence of `±1` that starts with `+1` iff `s`, of odd length iff `o` -/
def altS (s o : Bool) : Int := if o then (if s then 1 else -1) else 0

theorem par_succ (n : Nat) : par (1 + n) = !par n := by
  unfold par
  by_cases h : n % 2 = 1
  · have : ¬ (1 + n) % 2 = 1 := by omega
    simp [h, this]
  · have : (1 + n) % 2 = 1 := by omega
    simp [h, this]

theorem par_zero_add (n : Nat) : par (0 + n) = par n := by simp

theorem tracked_plain {x : Model.SEdge} (h : x.e.isOpen = false) : tracked x = x.orec.map (·.front) := by simp [tracked, h]

/-- **the alternating sum right of the probe** -/
theorem rsum_alt (xn yn yd : Int) : ∀ (ael : List Model.SEdge) (es : List GEdge) (b : Bool), ael.length = es.length →
    (∀ x ∈ ael, x.e.isOpen = false ∧ x.e.hot = x.orec.isSome) → altFrom b ael = true →
    es.Pairwise (fun u v => leftOfPt v xn yn yd → leftOfPt u xn yn yd) →
    rsum xn yn yd ael es = altS (b != par (hotLeftCount xn yn yd (erase ael) es))
      (par (hotCount (erase ael)) != par (hotLeftCount xn yn yd (erase ael) es)) := by
  intro ael
  induction ael with
  | nil =>
    intro es b _ _ _ _
    simp [rsum, erase, hotCount, hotLeftCount, par, altS]
  | cons x xs ih =>
    intro es b hlen hh halt hcl
    cases es with
    | nil => simp at hlen
    | cons ge gs =>
      obtain ⟨ho, hhot⟩ := hh x (by simp)
      have hh' : ∀ y ∈ xs, y.e.isOpen = false ∧ y.e.hot = y.orec.isSome := fun y hy => hh y (by simp [hy])
      have hlen' : xs.length = gs.length := by simpa using hlen
      rw [List.pairwise_cons] at hcl
      obtain ⟨hc1, hc2⟩ := hcl
      simp only [altFrom, tracked_plain ho] at halt
      simp only [rsum, erase, List.map_cons, hotCount, hotLeftCount, ho, true_and]
      have ihe : ∀ b', altFrom b' xs = true → rsum xn yn yd xs gs =
          altS (b' != par (hotLeftCount xn yn yd (List.map (·.e) xs) gs))
            (par (hotCount (List.map (·.e) xs)) != par (hotLeftCount xn yn yd (List.map (·.e) xs) gs)) :=
        fun b' hb' => ih gs b' hlen' hh' hb' hc2
      by_cases hl : leftOfPt ge xn yn yd
      · simp only [hl, if_true, and_true]
        cases hx : x.orec with
        | none =>
          rw [hx] at hhot halt
          simp only [Option.isSome_none] at hhot
          simp only [Option.map_none] at halt
          simp only [hhot, Bool.false_eq_true, if_false, par_zero_add]
          rw [ihe b halt]; omega
        | some k =>
          rw [hx] at hhot halt
          simp only [Option.isSome_some] at hhot
          simp only [Option.map_some, Bool.and_eq_true, beq_iff_eq] at halt
          simp only [hhot, if_true, par_succ]
          rw [ihe (!b) halt.2]
          generalize par (hotLeftCount xn yn yd (List.map (·.e) xs) gs) = p
          generalize par (hotCount (List.map (·.e) xs)) = q
          cases b <;> cases p <;> cases q <;> simp [altS]
      · have hnone : ∀ g' ∈ gs, ¬ leftOfPt g' xn yn yd := fun g' hg' h' => hl (hc1 g' hg' h')
        have h0 : hotLeftCount xn yn yd (List.map (·.e) xs) gs = 0 := hotLeftCount_none xn yn yd _ gs hnone
        simp only [hl, if_false, and_false]
        cases hx : x.orec with
        | none =>
          rw [hx] at hhot halt
          simp only [Option.isSome_none] at hhot
          simp only [Option.map_none] at halt
          simp only [hhot, Bool.false_eq_true, if_false, par_zero_add, sgn, hx]
          rw [ihe b halt]; omega
        | some k =>
          rw [hx] at hhot halt
          simp only [Option.isSome_some] at hhot
          simp only [Option.map_some, Bool.and_eq_true, beq_iff_eq] at halt
          simp only [hhot, if_true, par_succ, par_zero_add, sgn, hx]
          rw [ihe (!b) halt.2, h0, halt.1]
          generalize par (hotCount (List.map (·.e) xs)) = q
          cases b <;> cases q <;> simp [altS, par]

/-- the pending sum when every ring end ends below the level and the crossing number of every edge is known -/
theorem pend_eq_rsum (xn yn yd lv : Int) (K : GEdge → Int) (o : Out) : ∀ (ael : List Model.SEdge) (es : List GEdge),
    (∀ x ∈ ael, ∀ k, x.orec = some k → ∃ e, endOf o k = some e ∧ lv ≤ e.y) →
    (∀ ge ∈ es, K ge = if leftOfPt ge xn yn yd then 0 else -1) →
    pend lv K o ael es = rsum xn yn yd ael es := by
  intro ael
  induction ael with
  | nil => intro es _ _; rfl
  | cons x xs ih =>
    intro es hE hK
    cases es with
    | nil => rfl
    | cons ge gs =>
      simp only [pend, rsum]
      rw [ih gs (fun y hy => hE y (by simp [hy])) (fun g hg => hK g (by simp [hg]))]
      have hk := hK ge (by simp)
      congr 1
      unfold term sgn
      cases hx : x.orec with
      | none => simp [info, hx]
      | some k =>
        obtain ⟨e, he, hle⟩ := hE x (by simp) k hx
        simp only [info, hx, Option.bind_some, he, Option.map_some, wgt, hle, if_true, hk]
        by_cases hl : leftOfPt ge xn yn yd <;> cases k.front <;> simp [hl]

/-! ## the labelling through intersection events -/

theorem tracks_isect_step (cfg : Cfg) (lab : Lab) (i : Nat) (pt : Pt) (r r' : RState) (hS : SInv cfg r.s)
    (hs : stepR cfg r (.base (.intersect i) pt) = .ok r') (pre post : List GEdge) (a b : GEdge) (hlen : pre.length = i)
    (ht : Tracks lab (erase r.s.ael) (pre ++ a :: b :: post)) : Tracks lab (erase r'.s.ael) (pre ++ b :: a :: post) := by
  have h1 := (Clipper.Props.C01Rings.erase_ring_step cfg r r' _ hs).1
  simp only [ROp.erase] at h1
  have h2 := Clipper.Props.C11Sides.erase_step cfg r.s r'.s _ hS h1
  simp only [step] at h2
  unfold Tracks at ht ⊢
  have hsw : swapAt i ((erase r.s.ael).map key) = some ((pre ++ b :: a :: post).map (labKey lab)) := by
    rw [ht, swapAt_map, swapAt_len pre a b post i hlen]; rfl
  obtain ⟨l', e1, e2⟩ := intersect_tracks cfg i (erase r.s.ael) _ hsw
  rw [h2] at e1
  cases e1
  exact e2

theorem tracks_isects {D : Int} {E : GEdge → Prop} (cfg : Cfg) (hct : cfg.ct ≠ .noClip) (lab : Lab) : ∀ (ops : List ROp) (es es' : List GEdge)
    (r r' : RState), (∀ op ∈ ops, ∃ i pt, op = .base (.intersect i) pt) → GRun D E es ops es' → runR cfg r ops = .ok r' → Reach cfg r →
    Tracks lab (erase r.s.ael) es → Tracks lab (erase r'.s.ael) es' := by
  intro ops
  induction ops with
  | nil =>
    intro es es' r r' _ hg hr _ ht
    simp only [GRun] at hg; subst hg
    simp only [runR] at hr; cases hr
    exact ht
  | cons op ops ih =>
    intro es es' r r' hop hg hr hre ht
    obtain ⟨es1, g1, g2⟩ := hg
    simp only [runR] at hr
    cases hs : stepR cfg r op with
    | error e => simp [hs] at hr
    | ok r1 =>
      simp only [hs] at hr
      obtain ⟨i, pt, rfl⟩ := hop op (by simp)
      simp only [GEv] at g1
      obtain ⟨pre, post, a, b, he, hlen, he', _, _⟩ := g1
      obtain ⟨_, _, hS⟩ := reach_facts hct hre
      rw [he] at ht
      have := tracks_isect_step cfg lab i pt r r1 hS hs pre post a b hlen ht
      rw [← he'] at this
      exact ih es1 es' r1 r' (fun o ho => hop o (by simp [ho])) g2 hr (reach_step hre hs) this

/-! ## the scanbeams descend -/

theorem beamRunP_snap (D : Int) (valid : Int → GEdge → GEdge → Bool) (cx : GEdge → Int → Int) (next : GEdge → Option GEdge)
    (mins : Int → List (GEdge × GEdge)) (lab : Lab) (ael : List GEdge) (y0 y1 : Int) :
    (beamRunP D valid cx next mins lab ael y0 y1).snap.y0 = y0 ∧ (beamRunP D valid cx next mins lab ael y0 y1).snap.y1 = y1 := ⟨rfl, rfl⟩

/-- later scanbeams lie above earlier ones -/
theorem beams_descend (D : Int) (edges : List GEdge) (valid : Int → GEdge → GEdge → Bool) (cx : GEdge → Int → Int)
    (next : GEdge → Option GEdge) (mins : Int → List (GEdge × GEdge)) (lab : Lab) : ∀ (ys : List Int) (ael : List GEdge),
    SweepOK edges valid next mins ys →
    (beamRunsP D valid cx next mins lab ael ys).Pairwise (fun q1 q2 => q2.snap.y0 ≤ q1.snap.y1) ∧
    ∀ q ∈ beamRunsP D valid cx next mins lab ael ys, ∀ y, ys.head? = some y → q.snap.y0 ≤ y := by
  intro ys
  induction ys with
  | nil => intro ael _; simp [beamRunsP]
  | cons y0 t ih =>
    intro ael hok
    cases t with
    | nil => simp [beamRunsP]
    | cons y1 rest =>
      obtain ⟨hb, hrest⟩ := hok
      rw [beamRunsP_cons]
      obtain ⟨i1, i2⟩ := ih (beamStep valid cx next mins ael y0 y1).afterTop hrest
      have hy : y1 < y0 := hb.1
      refine ⟨?_, ?_⟩
      · rw [List.pairwise_cons]
        refine ⟨fun q hq => ?_, i1⟩
        have := i2 q hq y1 rfl
        exact this
      · intro q hq y hy'
        simp only [List.head?_cons, Option.some.injEq] at hy'
        subst hy'
        rcases List.mem_cons.1 hq with rfl | hq
        · exact Int.le_refl _
        · have := i2 q hq y1 rfl
          omega

end Clipper.Lemmas.C01Crown
