/-
`GetIntersection(p, q, loc)` (clipper.rectclip.cpp) called with `p` in the closed half-plane beyond side `loc`,
for sign-exact arithmetic: it succeeds iff the closed segment `p q` meets the closed rectangle (`Meets`), unless the
segment lies in the line of side `loc`.  Core Lean only.
-/
import ClipperVerif.Lemmas.RectLinesGeom
namespace Clipper.Lemmas.RLG
open Clipper Clipper.Model.RC Clipper.Lemmas.RC Clipper.Lemmas.RCE Clipper.Lemmas.RLC

/-- **The closed segment `p q` meets the closed rectangle `r`** (exact integer form of the separating-axis
criterion for two convex sets: neither one of the four side lines of the rectangle nor the line of the segment
separates them — `¬ (both end points strictly left of r.left)`, …, `¬ (all four corners strictly on one side of the
line p q)`).  For `p = q` this says that the point lies in the closed rectangle. -/
def Meets (r : Rect) (p q : Pt) : Prop :=
  MeetsO (r.left - p.x) (r.right - p.x) (r.top - p.y) (r.bottom - p.y) (q.x - p.x) (q.y - p.y)

instance (r : Rect) (p q : Pt) : Decidable (Meets r p q) := by
  unfold Meets MeetsO AllSame; infer_instance

/-- `q` lies on the (infinite) line of side `loc` -/
def OnSideLine (r : Rect) : Location → Pt → Prop
  | .left, q => q.x = r.left
  | .top, q => q.y = r.top
  | .right, q => q.x = r.right
  | .bottom, q => q.y = r.bottom
  | .inside, _ => False

theorem tryArms_iff {A : Arith} (hA : SignExact A) (ht : IsectTotal A) (p p2 : Pt) (l : List Arm)
    (loc : Location) (ip : Pt) :
    (tryArms A p p2 l loc ip).1 = true ↔ ∃ arm ∈ l, arm.guard = true ∧ SegHit p p2 arm.a arm.b := by
  induction l generalizing ip with
  | nil => simp [tryArms]
  | cons arm rest ih =>
    unfold tryArms
    by_cases hg : arm.guard = true
    · rw [if_pos hg]
      simp only
      by_cases hs : (segIntersection A p p2 arm.a arm.b ip).1 = true
      · rw [if_pos hs]
        simp only [true_iff]
        exact ⟨arm, by simp, hg, (segIntersection_iff hA ht _ _ _ _ _).mp hs⟩
      · rw [if_neg hs, ih]
        constructor
        · rintro ⟨a, ha, h⟩
          exact ⟨a, by simp [ha], h⟩
        · rintro ⟨a, ha, hga, hh⟩
          rcases List.mem_cons.mp ha with rfl | ha
          · exact absurd ((segIntersection_iff hA ht _ _ _ _ ip).mpr hh) hs
          · exact ⟨a, ha, hga, hh⟩
    · rw [if_neg hg, ih]
      constructor
      · rintro ⟨a, ha, h⟩
        exact ⟨a, by simp [ha], h⟩
      · rintro ⟨a, ha, hga, hh⟩
        rcases List.mem_cons.mp ha with rfl | ha
        · exact absurd hga hg
        · exact ⟨a, ha, hga, hh⟩

theorem ex3 (P : Arm → Prop) (a b c : Arm) : (∃ x ∈ [a, b, c], P x) ↔ (P a ∨ P b ∨ P c) := by simp

theorem hitL {r : Rect} (hh : r.top < r.bottom) (p q : Pt) :
    SegHit p q r.c0 r.c3 ↔ HitO (r.left - p.x) (r.top - p.y) (r.bottom - p.y) (q.x - p.x) (q.y - p.y) :=
  segHit_vertical p q r.left r.top r.bottom hh
theorem hitR {r : Rect} (hh : r.top < r.bottom) (p q : Pt) :
    SegHit p q r.c1 r.c2 ↔ HitO (r.right - p.x) (r.top - p.y) (r.bottom - p.y) (q.x - p.x) (q.y - p.y) :=
  segHit_vertical p q r.right r.top r.bottom hh
theorem hitT {r : Rect} (hw : r.left < r.right) (p q : Pt) :
    SegHit p q r.c0 r.c1 ↔ HitO (r.top - p.y) (r.left - p.x) (r.right - p.x) (q.y - p.y) (q.x - p.x) :=
  segHit_horizontal p q r.top r.left r.right hw
theorem hitB {r : Rect} (hw : r.left < r.right) (p q : Pt) :
    SegHit p q r.c2 r.c3 ↔ HitO (r.bottom - p.y) (r.left - p.x) (r.right - p.x) (q.y - p.y) (q.x - p.x) :=
  segHit_horizontal_rev p q r.bottom r.left r.right hw

/-- **Geometric soundness and completeness of `GetIntersection` from outside.**  For sign-exact arithmetic, a
non-empty rectangle, a location `loc ≠ Inside`, a point `p` in the closed half-plane beyond side `loc`
(`Ready r loc p`: e.g. `p.x ≤ r.left` for `Left`) and any `q` such that `p`, `q` are not both on the line of side
`loc`: `GetIntersection(rectPath, p, q, loc, ip)` returns true iff the closed segment `p q` meets the closed
rectangle. -/
theorem getIntersection_outside_iff {A : Arith} (hA : SignExact A) (ht : IsectTotal A) {r : Rect}
    (hw : r.left < r.right) (hh : r.top < r.bottom) {loc : Location} {p q : Pt} (hr : Ready r loc p)
    (hl : loc ≠ .inside) (hnc : ¬ (OnSideLine r loc p ∧ OnSideLine r loc q)) (ip : Pt) :
    (getIntersection A r p q loc ip).1 = true ↔ Meets r p q := by
  unfold getIntersection
  rw [tryArms_iff hA ht]
  unfold Meets
  cases loc
  case inside => exact absurd rfl hl
  case left =>
    simp only [Ready] at hr
    simp only [OnSideLine] at hnc
    simp only [arms, ex3, true_and, decide_eq_true_eq]
    rw [hitL hh, hitT hw, hitB hw]
    simp only [Rect.c0]
    rw [show (p.y < r.top) = (0 < r.top - p.y) from propext (by omega)]
    exact low_iff (by omega) (by omega) (by omega) (by omega)
  case right =>
    simp only [Ready] at hr
    simp only [OnSideLine] at hnc
    simp only [arms, ex3, true_and, decide_eq_true_eq]
    rw [hitR hh, hitT hw, hitB hw]
    simp only [Rect.c1]
    rw [show (p.y < r.top) = (0 < r.top - p.y) from propext (by omega)]
    exact high_iff (by omega) (by omega) (by omega) (by omega)
  case top =>
    simp only [Ready] at hr
    simp only [OnSideLine] at hnc
    simp only [arms, ex3, true_and, decide_eq_true_eq]
    rw [hitT hw, hitL hh, hitR hh]
    simp only [Rect.c0]
    rw [show (p.x < r.left) = (0 < r.left - p.x) from propext (by omega)]
    exact lowT_iff (by omega) (by omega) (by omega) (by omega)
  case bottom =>
    simp only [Ready] at hr
    simp only [OnSideLine] at hnc
    simp only [arms, ex3, true_and, decide_eq_true_eq]
    rw [hitB hw, hitL hh, hitR hh]
    simp only [Rect.c3]
    rw [show (p.x < r.left) = (0 < r.left - p.x) from propext (by omega)]
    exact highT_iff (by omega) (by omega) (by omega) (by omega)

end Clipper.Lemmas.RLG
